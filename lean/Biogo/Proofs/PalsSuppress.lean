/-
The duplicate-start / duplicate-end suppression of `dp.AlignTraps` (`Biogo.PalsOracle.markRun`,
`suppress`): it only removes hits, and in every run the best hit survives.  Core-only.
-/
import Biogo.Model.PalsOracle

namespace Biogo.PalsOracle

/-- `y` is `x`, possibly with its score overwritten by −1 -/
def Marked (x y : Hit) : Prop := y = x ∨ y = { x with score := -1 }

theorem Marked.rfl' (x : Hit) : Marked x x := Or.inl rfl

theorem Marked.trans {x y z : Hit} (h1 : Marked x y) (h2 : Marked y z) : Marked x z := by
  rcases h1 with rfl | rfl
  · exact h2
  · rcases h2 with rfl | rfl
    · exact Or.inr rfl
    · exact Or.inr rfl

theorem Marked.eq_of_nonneg {x y : Hit} (h : Marked x y) (hs : 0 ≤ y.score) : y = x := by
  rcases h with rfl | rfl
  · rfl
  · simp at hs

theorem markRun_marked (key : Hit → Int × Int) (acc : List Hit) (best : Hit) (mid rest : List Hit) :
    ∀ y ∈ markRun key acc best mid rest,
      ∃ x, (x ∈ acc ∨ x = best ∨ x ∈ mid ∨ x ∈ rest) ∧ Marked x y := by
  induction rest generalizing acc best mid with
  | nil =>
    intro y hy
    simp only [markRun, List.mem_append, List.mem_reverse, List.mem_cons] at hy
    refine ⟨y, ?_, Marked.rfl' y⟩
    rcases hy with h | h | h
    · exact Or.inl h
    · exact Or.inr (Or.inl h)
    · exact Or.inr (Or.inr (Or.inl h))
  | cons h rest ih =>
    intro y hy
    simp only [markRun] at hy
    split at hy
    · obtain ⟨x, hx, m⟩ := ih _ _ _ y hy
      refine ⟨x, ?_, m⟩
      simp only [List.mem_append, List.mem_cons, List.not_mem_nil] at hx ⊢
      rcases hx with (h1 | h1 | h1) | h1 | h1 | h1
      · exact Or.inr (Or.inr (Or.inl h1))
      · exact Or.inr (Or.inl h1)
      · exact Or.inl h1
      · exact Or.inr (Or.inr (Or.inr (Or.inl h1)))
      · exact h1.elim
      · exact Or.inr (Or.inr (Or.inr (Or.inr h1)))
    · split at hy
      · obtain ⟨x, hx, m⟩ := ih _ _ _ y hy
        simp only [List.mem_append, List.mem_cons, List.not_mem_nil] at hx
        rcases hx with (h1 | h1 | h1) | h1 | h1 | h1
        · exact ⟨x, Or.inr (Or.inr (Or.inl h1)), m⟩
        · exact ⟨best, Or.inr (Or.inl rfl), Marked.trans (Or.inr h1) m⟩
        · exact ⟨x, Or.inl h1, m⟩
        · exact ⟨x, Or.inr (Or.inr (Or.inr (List.mem_cons.mpr (Or.inl h1)))), m⟩
        · exact h1.elim
        · exact ⟨x, Or.inr (Or.inr (Or.inr (List.mem_cons_of_mem _ h1))), m⟩
      · obtain ⟨x, hx, m⟩ := ih _ _ _ y hy
        simp only [List.mem_cons] at hx
        rcases hx with h1 | h1 | (h1 | h1) | h1
        · exact ⟨x, Or.inl h1, m⟩
        · exact ⟨x, Or.inr (Or.inl h1), m⟩
        · exact ⟨h, Or.inr (Or.inr (Or.inr (List.mem_cons_self ..))), Marked.trans (Or.inr h1) m⟩
        · exact ⟨x, Or.inr (Or.inr (Or.inl h1)), m⟩
        · exact ⟨x, Or.inr (Or.inr (Or.inr (List.mem_cons_of_mem _ h1))), m⟩

theorem markRuns_marked (key : Hit → Int × Int) (l : List Hit) :
    ∀ y ∈ markRuns key l, ∃ x ∈ l, Marked x y := by
  cases l with
  | nil => intro y hy; simp [markRuns] at hy
  | cons h rest =>
    intro y hy
    obtain ⟨x, hx, m⟩ := markRun_marked key [] h [] rest y hy
    refine ⟨x, ?_, m⟩
    simp only [List.not_mem_nil, false_or] at hx
    rcases hx with h1 | h1
    · exact List.mem_cons.mpr (Or.inl h1)
    · exact List.mem_cons_of_mem _ h1

theorem markRun_best (key : Hit → Int × Int) (acc : List Hit) (best : Hit) (mid rest : List Hit) :
    (∀ x ∈ acc, x ∈ markRun key acc best mid rest) ∧
    (∃ b ∈ markRun key acc best mid rest, key b = key best ∧ best.score ≤ b.score ∧ (b = best ∨ b ∈ rest)) ∧
    (∀ g ∈ rest, ∃ b ∈ markRun key acc best mid rest,
        key b = key g ∧ g.score ≤ b.score ∧ (b = best ∨ b ∈ rest)) := by
  induction rest generalizing acc best mid with
  | nil =>
    simp only [markRun]
    refine ⟨?_, ⟨best, by simp, rfl, Int.le_refl _, Or.inl rfl⟩, ?_⟩
    · intro x hx; simp [hx]
    · intro g hg; cases hg
  | cons h rest ih =>
    simp only [markRun]
    split
    · rename_i hk
      obtain ⟨i1, ⟨b, hb, kb, sb, wb⟩, i3⟩ := ih (mid ++ best :: acc) h []
      refine ⟨fun x hx => i1 x (by simp [hx]), ⟨best, i1 best (by simp), rfl, Int.le_refl _, Or.inl rfl⟩, ?_⟩
      intro g hg
      rcases List.mem_cons.mp hg with rfl | hg
      · refine ⟨b, hb, kb, sb, Or.inr ?_⟩
        rcases wb with rfl | wb
        · exact List.mem_cons_self ..
        · exact List.mem_cons_of_mem _ wb
      · obtain ⟨c, hc, kc, sc, wc⟩ := i3 g hg
        refine ⟨c, hc, kc, sc, Or.inr ?_⟩
        rcases wc with rfl | wc
        · exact List.mem_cons_self ..
        · exact List.mem_cons_of_mem _ wc
    · rename_i hk
      have hk' : key h = key best := by simpa using hk
      split
      · rename_i hs
        obtain ⟨i1, ⟨b, hb, kb, sb, wb⟩, i3⟩ := ih (mid ++ { best with score := -1 } :: acc) h []
        have wb' : b ∈ h :: rest := by
          rcases wb with rfl | wb
          · exact List.mem_cons_self ..
          · exact List.mem_cons_of_mem _ wb
        refine ⟨fun x hx => i1 x (by simp [hx]), ⟨b, hb, by rw [kb, hk'], by omega, Or.inr wb'⟩, ?_⟩
        intro g hg
        rcases List.mem_cons.mp hg with rfl | hg
        · exact ⟨b, hb, kb, sb, Or.inr wb'⟩
        · obtain ⟨c, hc, kc, sc, wc⟩ := i3 g hg
          refine ⟨c, hc, kc, sc, Or.inr ?_⟩
          rcases wc with rfl | wc
          · exact List.mem_cons_self ..
          · exact List.mem_cons_of_mem _ wc
      · rename_i hs
        obtain ⟨i1, ⟨b, hb, kb, sb, wb⟩, i3⟩ := ih acc best ({ h with score := -1 } :: mid)
        have wb' : b = best ∨ b ∈ h :: rest := by
          rcases wb with rfl | wb
          · exact Or.inl rfl
          · exact Or.inr (List.mem_cons_of_mem _ wb)
        refine ⟨i1, ⟨b, hb, kb, sb, wb'⟩, ?_⟩
        intro g hg
        rcases List.mem_cons.mp hg with rfl | hg
        · exact ⟨b, hb, by rw [kb, hk'], by omega, wb'⟩
        · obtain ⟨c, hc, kc, sc, wc⟩ := i3 g hg
          refine ⟨c, hc, kc, sc, ?_⟩
          rcases wc with rfl | wc
          · exact Or.inl rfl
          · exact Or.inr (List.mem_cons_of_mem _ wc)

/-- in every run the best hit survives a marking pass with its score -/
theorem markRuns_keeps_best (key : Hit → Int × Int) (l : List Hit) :
    ∀ g ∈ l, ∃ b ∈ markRuns key l, b ∈ l ∧ key b = key g ∧ g.score ≤ b.score := by
  cases l with
  | nil => intro g hg; cases hg
  | cons h rest =>
    intro g hg
    obtain ⟨_, ⟨b, hb, kb, sb, wb⟩, i3⟩ := markRun_best key [] h [] rest
    rcases List.mem_cons.mp hg with rfl | hg
    · refine ⟨b, hb, ?_, kb, sb⟩
      rcases wb with rfl | wb
      · exact List.mem_cons_self ..
      · exact List.mem_cons_of_mem _ wb
    · obtain ⟨c, hc, kc, sc, wc⟩ := i3 g hg
      refine ⟨c, hc, ?_, kc, sc⟩
      rcases wc with rfl | wc
      · exact List.mem_cons_self ..
      · exact List.mem_cons_of_mem _ wc

end Biogo.PalsOracle
