/-
The duplicate-start / duplicate-end suppression of `dp.AlignTraps` (`Biogo.PalsOracle.markRun`,
`suppress`): it only removes hits, and in every run the best hit survives.  Core-only.
-/
import Biogo.Model.PalsOracle

namespace Biogo.PalsOracle

/-- `y` is `x`, possibly with its score overwritten by −1 -/
def Marked (x y : Hit) : Prop := y = x ∨ y = { x with score := -1 }

theorem Marked.rfl' (x : Hit) : Marked x x := Or.inl rfl

theorem Marked.trans {x y z : Hit} (h1 : Marked x y) (h2 : Marked y z) : Marked x z := by
  rcases h1 with rfl | rfl
  · exact h2
  · rcases h2 with rfl | rfl
    · exact Or.inr rfl
    · exact Or.inr rfl

theorem Marked.eq_of_nonneg {x y : Hit} (h : Marked x y) (hs : 0 ≤ y.score) : y = x := by
  rcases h with rfl | rfl
  · rfl
  · simp at hs

theorem markRun_marked (key : Hit → Int × Int) (acc : List Hit) (best : Hit) (mid rest : List Hit) :
    ∀ y ∈ markRun key acc best mid rest,
      ∃ x, (x ∈ acc ∨ x = best ∨ x ∈ mid ∨ x ∈ rest) ∧ Marked x y := by
  induction rest generalizing acc best mid with
  | nil =>
    intro y hy
    simp only [markRun, List.mem_append, List.mem_reverse, List.mem_cons] at hy
    refine ⟨y, ?_, Marked.rfl' y⟩
    rcases hy with h | h | h
    · exact Or.inl h
    · exact Or.inr (Or.inl h)
    · exact Or.inr (Or.inr (Or.inl h))
  | cons h rest ih =>
    intro y hy
    simp only [markRun] at hy
    split at hy
    · obtain ⟨x, hx, m⟩ := ih _ _ _ y hy
      refine ⟨x, ?_, m⟩
      simp only [List.mem_append, List.mem_cons, List.not_mem_nil] at hx ⊢
      rcases hx with (h1 | h1 | h1) | h1 | h1 | h1
      · exact Or.inr (Or.inr (Or.inl h1))
      · exact Or.inr (Or.inl h1)
      · exact Or.inl h1
      · exact Or.inr (Or.inr (Or.inr (Or.inl h1)))
      · exact h1.elim
      · exact Or.inr (Or.inr (Or.inr (Or.inr h1)))
    · split at hy
      · obtain ⟨x, hx, m⟩ := ih _ _ _ y hy
        simp only [List.mem_append, List.mem_cons, List.not_mem_nil] at hx
        rcases hx with (h1 | h1 | h1) | h1 | h1 | h1
        · exact ⟨x, Or.inr (Or.inr (Or.inl h1)), m⟩
        · exact ⟨best, Or.inr (Or.inl rfl), Marked.trans (Or.inr h1) m⟩
        · exact ⟨x, Or.inl h1, m⟩
        · exact ⟨x, Or.inr (Or.inr (Or.inr (List.mem_cons.mpr (Or.inl h1)))), m⟩
        · exact h1.elim
        · exact ⟨x, Or.inr (Or.inr (Or.inr (List.mem_cons_of_mem _ h1))), m⟩
      · obtain ⟨x, hx, m⟩ := ih _ _ _ y hy
        simp only [List.mem_cons] at hx
        rcases hx with h1 | h1 | (h1 | h1) | h1
        · exact ⟨x, Or.inl h1, m⟩
        · exact ⟨x, Or.inr (Or.inl h1), m⟩
        · exact ⟨h, Or.inr (Or.inr (Or.inr (List.mem_cons_self ..))), Marked.trans (Or.inr h1) m⟩
        · exact ⟨x, Or.inr (Or.inr (Or.inl h1)), m⟩
        · exact ⟨x, Or.inr (Or.inr (Or.inr (List.mem_cons_of_mem _ h1))), m⟩

theorem markRuns_marked (key : Hit → Int × Int) (l : List Hit) :
    ∀ y ∈ markRuns key l, ∃ x ∈ l, Marked x y := by
  cases l with
  | nil => intro y hy; simp [markRuns] at hy
  | cons h rest =>
    intro y hy
    obtain ⟨x, hx, m⟩ := markRun_marked key [] h [] rest y hy
    refine ⟨x, ?_, m⟩
    simp only [List.not_mem_nil, false_or] at hx
    rcases hx with h1 | h1
    · exact List.mem_cons.mpr (Or.inl h1)
    · exact List.mem_cons_of_mem _ h1

theorem markRun_best (key : Hit → Int × Int) (acc : List Hit) (best : Hit) (mid rest : List Hit) :
    (∀ x ∈ acc, x ∈ markRun key acc best mid rest) ∧
    (∃ b ∈ markRun key acc best mid rest, key b = key best ∧ best.score ≤ b.score ∧ (b = best ∨ b ∈ rest)) ∧
    (∀ g ∈ rest, ∃ b ∈ markRun key acc best mid rest,
        key b = key g ∧ g.score ≤ b.score ∧ (b = best ∨ b ∈ rest)) := by
  induction rest generalizing acc best mid with
  | nil =>
    simp only [markRun]
    refine ⟨?_, ⟨best, by simp, rfl, Int.le_refl _, Or.inl rfl⟩, ?_⟩
    · intro x hx; simp [hx]
    · intro g hg; cases hg
  | cons h rest ih =>
    simp only [markRun]
    split
    · rename_i hk
      obtain ⟨i1, ⟨b, hb, kb, sb, wb⟩, i3⟩ := ih (mid ++ best :: acc) h []
      refine ⟨fun x hx => i1 x (by simp [hx]), ⟨best, i1 best (by simp), rfl, Int.le_refl _, Or.inl rfl⟩, ?_⟩
      intro g hg
      rcases List.mem_cons.mp hg with rfl | hg
      · refine ⟨b, hb, kb, sb, Or.inr ?_⟩
        rcases wb with rfl | wb
        · exact List.mem_cons_self ..
        · exact List.mem_cons_of_mem _ wb
      · obtain ⟨c, hc, kc, sc, wc⟩ := i3 g hg
        refine ⟨c, hc, kc, sc, Or.inr ?_⟩
        rcases wc with rfl | wc
        · exact List.mem_cons_self ..
        · exact List.mem_cons_of_mem _ wc
    · rename_i hk
      have hk' : key h = key best := by simpa using hk
      split
      · rename_i hs
        obtain ⟨i1, ⟨b, hb, kb, sb, wb⟩, i3⟩ := ih (mid ++ { best with score := -1 } :: acc) h []
        have wb' : b ∈ h :: rest := by
          rcases wb with rfl | wb
          · exact List.mem_cons_self ..
          · exact List.mem_cons_of_mem _ wb
        refine ⟨fun x hx => i1 x (by simp [hx]), ⟨b, hb, by rw [kb, hk'], by omega, Or.inr wb'⟩, ?_⟩
        intro g hg
        rcases List.mem_cons.mp hg with rfl | hg
        · exact ⟨b, hb, kb, sb, Or.inr wb'⟩
        · obtain ⟨c, hc, kc, sc, wc⟩ := i3 g hg
          refine ⟨c, hc, kc, sc, Or.inr ?_⟩
          rcases wc with rfl | wc
          · exact List.mem_cons_self ..
          · exact List.mem_cons_of_mem _ wc
      · rename_i hs
        obtain ⟨i1, ⟨b, hb, kb, sb, wb⟩, i3⟩ := ih acc best ({ h with score := -1 } :: mid)
        have wb' : b = best ∨ b ∈ h :: rest := by
          rcases wb with rfl | wb
          · exact Or.inl rfl
          · exact Or.inr (List.mem_cons_of_mem _ wb)
        refine ⟨i1, ⟨b, hb, kb, sb, wb'⟩, ?_⟩
        intro g hg
        rcases List.mem_cons.mp hg with rfl | hg
        · exact ⟨b, hb, by rw [kb, hk'], by omega, wb'⟩
        · obtain ⟨c, hc, kc, sc, wc⟩ := i3 g hg
          refine ⟨c, hc, kc, sc, ?_⟩
          rcases wc with rfl | wc
          · exact Or.inl rfl
          · exact Or.inr (List.mem_cons_of_mem _ wc)

/-- in every run the best hit survives a marking pass with its score -/
theorem markRuns_keeps_best (key : Hit → Int × Int) (l : List Hit) :
    ∀ g ∈ l, ∃ b ∈ markRuns key l, b ∈ l ∧ key b = key g ∧ g.score ≤ b.score := by
  cases l with
  | nil => intro g hg; cases hg
  | cons h rest =>
    intro g hg
    obtain ⟨_, ⟨b, hb, kb, sb, wb⟩, i3⟩ := markRun_best key [] h [] rest
    rcases List.mem_cons.mp hg with rfl | hg
    · refine ⟨b, hb, ?_, kb, sb⟩
      rcases wb with rfl | wb
      · exact List.mem_cons_self ..
      · exact List.mem_cons_of_mem _ wb
    · obtain ⟨c, hc, kc, sc, wc⟩ := i3 g hg
      refine ⟨c, hc, ?_, kc, sc⟩
      rcases wc with rfl | wc
      · exact List.mem_cons_self ..
      · exact List.mem_cons_of_mem _ wc

/-! ### with keys grouped by the sort, at most one hit per key survives a marking pass

Since the seventh repair `starts.Less` / `ends.Less` compare both coordinates, so the hits that
share a start (end) point are neighbours after the sort, whatever the sort does with equal keys. -/

/-- lexicographic order on `(Abpos, Bbpos)` / `(Aepos, Bepos)` -/
def keyLe (a b : Int × Int) : Prop := a.1 < b.1 ∨ (a.1 = b.1 ∧ a.2 ≤ b.2)

theorem keyLe_refl (a : Int × Int) : keyLe a a := Or.inr ⟨rfl, Int.le_refl _⟩

theorem keyLe_trans {a b c : Int × Int} (h1 : keyLe a b) (h2 : keyLe b c) : keyLe a c := by
  unfold keyLe at *; omega

theorem keyLe_antisymm {a b : Int × Int} (h1 : keyLe a b) (h2 : keyLe b a) : a = b := by
  unfold keyLe at *
  have e1 : a.1 = b.1 := by omega
  have e2 : a.2 = b.2 := by omega
  exact Prod.ext e1 e2

/-- two hits that both still carry a score `≥ 0` do not share the key -/
def NoShare (key : Hit → Int × Int) (a b : Hit) : Prop := 0 ≤ a.score → 0 ≤ b.score → key a ≠ key b

theorem NoShare.symm {key : Hit → Int × Int} {a b : Hit} (h : NoShare key a b) : NoShare key b a :=
  fun hb ha e => h ha hb e.symm

/-- the key does not read the score -/
def KeyIgnoresScore (key : Hit → Int × Int) : Prop := ∀ (h : Hit) (s : Int), key { h with score := s } = key h

/-- a relation that marking can only make easier: it constrains hits with a score `≥ 0` only -/
def MarkClosed (R : Hit → Hit → Prop) : Prop :=
  ∀ a b a' b', Marked a a' → Marked b b' → R a b → R a' b'

theorem noShare_markClosed (key : Hit → Int × Int) : MarkClosed (NoShare key) := by
  intro a b a' b' ma mb h ha hb
  have ea := ma.eq_of_nonneg ha
  have eb := mb.eq_of_nonneg hb
  subst ea; subst eb
  exact h ha hb

theorem pairwise_replace {R : Hit → Hit → Prop} (hc : MarkClosed R) (l1 l2 : List Hit) (x x' : Hit) (m : Marked x x')
    (h : (l1 ++ x :: l2).Pairwise R) : (l1 ++ x' :: l2).Pairwise R := by
  rw [List.pairwise_append, List.pairwise_cons] at h ⊢
  obtain ⟨h1, ⟨h2, h3⟩, h4⟩ := h
  refine ⟨h1, ⟨fun b hb => hc _ _ _ _ m (Marked.rfl' b) (h2 b hb), h3⟩, ?_⟩
  intro a ha b hb
  rcases List.mem_cons.mp hb with e | e
  · subst e; exact hc _ _ _ _ (Marked.rfl' a) m (h4 a ha x List.mem_cons_self)
  · exact h4 a ha b (List.mem_cons_of_mem _ e)

/-- a marking pass keeps every pairwise relation that marking can only make easier -/
theorem markRun_pairwise (key : Hit → Int × Int) {R : Hit → Hit → Prop} (hc : MarkClosed R) :
    ∀ (rest acc : List Hit) (best : Hit) (mid : List Hit),
      (acc.reverse ++ best :: (mid.reverse ++ rest)).Pairwise R → (markRun key acc best mid rest).Pairwise R := by
  intro rest
  induction rest with
  | nil => intro acc best mid h; simpa [markRun] using h
  | cons h rest ih =>
    intro acc best mid hp
    simp only [markRun]
    split
    · apply ih
      simpa [List.reverse_append, List.append_assoc] using hp
    · split
      · apply ih
        have := pairwise_replace hc acc.reverse (mid.reverse ++ h :: rest) best { best with score := -1 } (Or.inr rfl) hp
        simpa [List.reverse_append, List.append_assoc] using this
      · apply ih
        have hp' : ((acc.reverse ++ best :: mid.reverse) ++ h :: rest).Pairwise R := by
          simpa [List.append_assoc] using hp
        have := pairwise_replace hc (acc.reverse ++ best :: mid.reverse) rest h { h with score := -1 } (Or.inr rfl) hp'
        simpa [List.reverse_append, List.append_assoc] using this

theorem markRuns_pairwise (key : Hit → Int × Int) {R : Hit → Hit → Prop} (hc : MarkClosed R) (l : List Hit)
    (h : l.Pairwise R) : (markRuns key l).Pairwise R := by
  cases l with
  | nil => simp [markRuns]
  | cons x rest => exact markRun_pairwise key hc rest [] x [] (by simpa using h)

/-- the invariant of one pass over a list sorted by the key: afterwards no two hits with a score
    `≥ 0` share the key -/
theorem markRun_distinct (key : Hit → Int × Int) (hk : KeyIgnoresScore key) :
    ∀ (rest acc : List Hit) (best : Hit) (mid : List Hit),
      (∀ x ∈ acc, keyLe (key x) (key best)) →
      (∀ x ∈ mid, key x = key best ∧ x.score < 0) →
      (∀ y ∈ rest, keyLe (key best) (key y)) →
      rest.Pairwise (fun a b => keyLe (key a) (key b)) →
      (∀ x ∈ acc, 0 ≤ x.score → key x ≠ key best) →
      acc.Pairwise (NoShare key) →
      (markRun key acc best mid rest).Pairwise (NoShare key) := by
  intro rest
  induction rest with
  | nil =>
    intro acc best mid _ a2 _ _ a5 a6
    simp only [markRun]
    rw [List.pairwise_append, List.pairwise_cons, List.pairwise_reverse]
    refine ⟨a6.imp NoShare.symm, ⟨?_, ?_⟩, ?_⟩
    · intro b hb _ hb'
      have := (a2 b (List.mem_reverse.mp hb)).2
      omega
    · rw [List.pairwise_reverse]
      apply List.Pairwise.imp_of_mem _ (List.pairwise_of_forall (R := fun _ _ => True) (fun _ _ => trivial))
      intro a b ha _ _ _ ha'
      have := (a2 a ha).2
      omega
    · intro a ha b hb ha' hb'
      rcases List.mem_cons.mp hb with e | e
      · subst e; exact a5 a (List.mem_reverse.mp ha) ha'
      · have := (a2 b (List.mem_reverse.mp e)).2
        omega
  | cons h rest ih =>
    intro acc best mid a1 a2 a3 a4 a5 a6
    have a4' := List.pairwise_cons.mp a4
    have hbh := a3 h List.mem_cons_self
    simp only [markRun]
    split
    · -- the run ends
      rename_i hne
      apply ih
      · intro x hx
        rcases List.mem_append.mp hx with e | e
        · rw [(a2 x e).1]; exact hbh
        · rcases List.mem_cons.mp e with e | e
          · subst e; exact hbh
          · exact keyLe_trans (a1 x e) hbh
      · intro x hx; cases hx
      · exact a4'.1
      · exact a4'.2
      · intro x hx hs
        rcases List.mem_append.mp hx with e | e
        · have := (a2 x e).2; omega
        · rcases List.mem_cons.mp e with e | e
          · subst e; exact fun e' => hne e'.symm
          · intro e'
            apply hne
            have h1 := a1 x e
            rw [e'] at h1
            exact keyLe_antisymm h1 hbh
      · rw [List.pairwise_append, List.pairwise_cons]
        refine ⟨?_, ⟨fun b hb hs hb' e => a5 b hb hb' e.symm, a6⟩, ?_⟩
        · apply List.Pairwise.imp_of_mem _ (List.pairwise_of_forall (R := fun _ _ => True) (fun _ _ => trivial))
          intro a b ha _ _ ha' _
          have := (a2 a ha).2
          omega
        · intro a ha b _ ha' _
          have := (a2 a ha).2
          omega
    · rename_i heq
      have hk' : key h = key best := by simpa using heq
      split
      · -- a higher score: the former best is marked
        apply ih
        · intro x hx
          rw [hk']
          rcases List.mem_append.mp hx with e | e
          · rw [(a2 x e).1]; exact keyLe_refl _
          · rcases List.mem_cons.mp e with e | e
            · subst e; rw [hk best (-1)]; exact keyLe_refl _
            · exact a1 x e
        · intro x hx; cases hx
        · exact a4'.1
        · exact a4'.2
        · intro x hx hs
          rw [hk']
          rcases List.mem_append.mp hx with e | e
          · have := (a2 x e).2; omega
          · rcases List.mem_cons.mp e with e | e
            · subst e; simp at hs
            · exact a5 x e hs
        · rw [List.pairwise_append, List.pairwise_cons]
          refine ⟨?_, ⟨fun b _ hs => by simp at hs, a6⟩, ?_⟩
          · apply List.Pairwise.imp_of_mem _ (List.pairwise_of_forall (R := fun _ _ => True) (fun _ _ => trivial))
            intro a b ha _ _ ha' _
            have := (a2 a ha).2
            omega
          · intro a ha b _ ha' _
            have := (a2 a ha).2
            omega
      · -- not higher: `h` is marked
        apply ih acc best ({ h with score := -1 } :: mid) a1
        · intro x hx
          rcases List.mem_cons.mp hx with e | e
          · subst e; exact ⟨by rw [hk h (-1)]; exact hk', by simp⟩
          · exact a2 x e
        · intro y hy; exact a3 y (List.mem_cons_of_mem _ hy)
        · exact a4'.2
        · exact a5
        · exact a6

/-- one marking pass over a list sorted lexicographically by the key leaves at most one hit with a
    score `≥ 0` per key -/
theorem markRuns_distinct (key : Hit → Int × Int) (hk : KeyIgnoresScore key) (l : List Hit)
    (hs : l.Pairwise (fun a b => keyLe (key a) (key b))) : (markRuns key l).Pairwise (NoShare key) := by
  cases l with
  | nil => simp [markRuns]
  | cons x rest =>
    have hc := List.pairwise_cons.mp hs
    exact markRun_distinct key hk rest [] x [] (by simp) (by simp) hc.1 hc.2 (by simp) List.Pairwise.nil

/-- **the two passes**: when the two sorts return permutations sorted by `(Abpos, Bbpos)`, resp.
    `(Aepos, Bepos)`, no two returned hits share a start point and no two share an end point -/
theorem suppress_distinct (sortStart sortEnd : List Hit → List Hit)
    (p2 : ∀ l, (sortEnd l).Perm l)
    (s1 : ∀ l, (sortStart l).Pairwise (fun a b => keyLe (a.abpos, a.bbpos) (b.abpos, b.bbpos)))
    (s2 : ∀ l, (sortEnd l).Pairwise (fun a b => keyLe (a.aepos, a.bepos) (b.aepos, b.bepos)))
    (segs : List Hit) :
    (suppress sortStart sortEnd segs).Pairwise
      (fun a b => (a.abpos, a.bbpos) ≠ (b.abpos, b.bbpos) ∧ (a.aepos, a.bepos) ≠ (b.aepos, b.bepos)) := by
  have kS : KeyIgnoresScore (fun h => (h.abpos, h.bbpos)) := fun _ _ => rfl
  have kE : KeyIgnoresScore (fun h => (h.aepos, h.bepos)) := fun _ _ => rfl
  have d1 := markRuns_distinct (fun h => (h.abpos, h.bbpos)) kS (sortStart segs) (s1 segs)
  have d1' := (p2 (markRuns (fun h => (h.abpos, h.bbpos)) (sortStart segs))).symm.pairwise d1 NoShare.symm
  have d2s := markRuns_pairwise (fun h => (h.aepos, h.bepos)) (noShare_markClosed _) _ d1'
  have d2e := markRuns_distinct (fun h => (h.aepos, h.bepos)) kE _
    (s2 (markRuns (fun h => (h.abpos, h.bbpos)) (sortStart segs)))
  have both := d2s.and d2e
  unfold suppress
  simp only []
  apply List.Pairwise.imp_of_mem _ (both.filter _)
  intro a b ha hb h
  simp only [List.mem_filter, decide_eq_true_eq] at ha hb
  exact ⟨h.1 ha.2 hb.2, h.2 ha.2 hb.2⟩

end Biogo.PalsOracle
