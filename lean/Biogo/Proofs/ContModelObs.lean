/-
The model satisfies, on its own observations and in every well-formed state, the declarative
statements that the executable laws are proved to imply (Proofs/ContLawsSound.lean):
`FrameSpec` for every operation, `RowEqColumnSpec` for every object, Clone observed equal.
So the same `…Spec` propositions are (a) proved of the model for all reachable states and
(b) decided on the implementation's observations by sound executable laws.  Core-only.
-/
import Biogo.Proofs.ContLawsSound
import Biogo.Proofs.ContSepWorld

namespace Biogo.Containers
open Biogo.Go Biogo.Containers.Laws

/-- **frame, on observations**: after any operation of the histories on a well-formed world,
    every object the operation is not applied to is observed exactly as before -/
theorem model_frame (cx : Ctx) (w : World) (hw : WorldWF w) (op : Op) :
    FrameSpec (w.view cx) ((apply cx w op).1.view cx) op.written := by
  intro j hj hk
  obtain ⟨_, hoth⟩ := step_all cx w hw op
  simp only [World.view, List.length_map] at hj
  have hoj := List.getElem?_eq_getElem hj
  obtain ⟨h1, h2⟩ := hoth j _ hk hoj
  simp only [World.view, List.getElem?_map, h1, hoj, Option.map_some, h2]

/-- **Clone, on observations**: the new object is observed exactly as the original -/
theorem model_clone_equal (cx : Ctx) (w : World) (hw : WorldWF w) (k : Nat) (o : Obj)
    (hk : w.objs[k]? = some o) (hclonable : ∀ m, o ≠ .set m) :
    ((apply cx w (.clone k)).1.view cx)[w.objs.length]? = (w.view cx)[k]? := by
  obtain ⟨c, hc, hv⟩ := clone_view_equal cx w hw k o hk hclonable
  simp only [World.view, List.getElem?_map, hc, hk, Option.map_some, hv]

/-! ### row_eq_column of the model's observations -/

theorem intRange_getElem? (a b : Int) (p : Nat) (hp : p < (b - a).toNat) :
    (intRange a b)[p]? = some (a + (p : Int)) := by
  simp only [intRange, List.getElem?_map, List.getElem?_range hp, Option.map_some]

theorem rowCell_multi (o : ObjV) (hk : o.kind = "multi") (h : Cells) (l : Lin) (hv : l.Valid h) (pos : Int) :
    rowCell o (linRowV h l) pos = Multi.cell h l pos := by
  have hkb : (o.kind == "multi") = true := by rw [hk]; rfl
  simp only [rowCell, hkb, if_true, Multi.cell]
  by_cases hc : Multi.covers l pos = true
  · have hcond : (decide ((linRowV h l).start ≤ pos) && decide (pos < (linRowV h l).«end»)) = true := hc
    rw [if_pos hcond, if_pos hc]
    have hsome := Lin.at?_isSome_of_covers h l hv pos hc
    have hc' := hc
    simp only [Multi.covers, Bool.and_eq_true, decide_eq_true_eq] at hc'
    have hge : l.off ≤ pos := hc'.1
    have hat := Lin.at?_eq_letters h l pos
    rw [if_neg (by omega)] at hat
    rw [hat] at hsome ⊢
    show (l.letters h)[(pos - l.off).toNat]? = _
    cases hx : (l.letters h)[(pos - l.off).toNat]? with
    | none => rw [hx] at hsome; cases hsome
    | some x => simp only [Option.getD_some]
  · have hcond : ¬ (decide ((linRowV h l).start ≤ pos) && decide (pos < (linRowV h l).«end»)) = true := hc
    rw [if_neg hcond, if_neg hc]

theorem rowEqColumn_multi (cx : Ctx) (h : Cells) (m : Multi) (hwf : RowsCapWF h m.rows) :
    RowEqColumnSpec cx.gap cx.amb (viewObj cx h (.multi m)) := by
  intro _
  have hkind : (viewObj cx h (.multi m)).kind = "multi" := rfl
  have hrowsV : (viewObj cx h (.multi m)).rows = m.rows.map (linRowV h) := rfl
  refine ⟨by simp [viewObj, Multi.nrows], rfl, ?_⟩
  intro p hp
  have hp' : p < (m.«end» - m.start).toNat := hp
  have hpos : (viewObj cx h (.multi m)).start + (p : Int) = m.start + (p : Int) := rfl
  have hcell : ∀ (i : Nat) (r : RowV), (viewObj cx h (.multi m)).rows[i]? = some r →
      ∃ l, m.rows[i]? = some l ∧ r = linRowV h l ∧
        rowCell (viewObj cx h (.multi m)) r (m.start + (p : Int)) = Multi.cell h l (m.start + (p : Int)) := by
    intro i r hr
    rw [hrowsV, List.getElem?_map] at hr
    cases hl : m.rows[i]? with
    | none => rw [hl] at hr; cases hr
    | some l =>
      rw [hl] at hr
      simp only [Option.map_some, Option.some.injEq] at hr
      refine ⟨l, rfl, hr.symm, ?_⟩
      rw [← hr]
      exact rowCell_multi _ hkind h l (hwf.1 l (List.mem_of_getElem? hl)).toValid _
  refine ⟨m.columnQL cx h (m.start + (p : Int)) true, m.column cx h (m.start + (p : Int)) true, ?_, ?_, ?_, ?_, ?_, ?_⟩
  · simp only [viewObj, List.getElem?_map, intRange_getElem? _ _ p hp', Option.map_some]
  · simp only [viewObj, List.getElem?_map, intRange_getElem? _ _ p hp', Option.map_some]
  · rw [Multi.columnQL_fill, hrowsV]; simp
  · rw [Multi.column_fill, hrowsV]; simp
  · intro i r hr
    obtain ⟨l, hl, _, hc⟩ := hcell i r hr
    rw [hpos, hc]
    constructor
    · rw [Multi.columnQL_fill, List.getElem?_map, hl]; rfl
    · rw [Multi.column_fill, List.getElem?_map, hl]
      simp only [Option.map_some, columnLetter, hkind]
      cases Multi.cell h l (m.start + (p : Int)) <;> rfl
  · intro _
    have hnf : (viewObj cx h (.multi m)).colsNF[p]? = some (m.column cx h (m.start + (p : Int)) false) := by
      simp only [viewObj, List.getElem?_map, intRange_getElem? _ _ p hp', Option.map_some]
    have hmap : (m.rows.map (linRowV h)).map (fun r => rowCell (viewObj cx h (.multi m)) r (m.start + (p : Int)))
        = m.rows.map fun l => Multi.cell h l (m.start + (p : Int)) := by
      rw [List.map_map]
      apply List.map_congr_left
      intro l hl
      exact rowCell_multi _ hkind h l (hwf.1 l hl).toValid _
    rw [hnf, Multi.column_nofill, hrowsV, hpos, hmap, List.filterMap_map]
    rfl

theorem uint8_not_lt_iff (a b : UInt8) : ¬ a < b ↔ a ≥ b := by
  constructor
  · intro h; exact UInt8.not_lt.mp h
  · intro h; exact UInt8.not_lt.mpr h

theorem rowEqColumn_aln (cx : Ctx) (h : Cells) (a : Aln) (n : Nat) (hc : ColsCapWF h n a.cols) :
    RowEqColumnSpec cx.gap cx.amb (viewObj cx h (.aln a)) := by
  intro _
  have hrowsV : (viewObj cx h (.aln a)).rows = (List.range a.rows).map fun r =>
      (⟨(a.subs.getD r ⟨0, 0, 0⟩).off, (a.subs.getD r ⟨0, 0, 0⟩).off + a.len, (a.subs.getD r ⟨0, 0, 0⟩).strand,
        (a.subs.getD r ⟨0, 0, 0⟩).name, a.q, a.rowLetters h r⟩ : RowV) := rfl
  have hspan : ((viewObj cx h (.aln a)).«end» - (viewObj cx h (.aln a)).start).toNat = a.cols.length := by
    simp only [viewObj, Aln.«end», Aln.start]; omega
  refine ⟨by simp [viewObj], by simp only [viewObj, Aln.«end», Aln.start, Aln.len]; omega, ?_⟩
  intro p hp
  rw [hspan] at hp
  have hcp := List.getElem?_eq_getElem hp
  have hmem : a.cols[p] ∈ a.cols := List.getElem_mem hp
  have hlen : (h.read a.cols[p]).length = n := by rw [(hc.1.1 _ hmem).length_read]; exact hc.2 _ hmem
  have hrows : a.rows = n := by
    cases hcols : a.cols with
    | nil => rw [hcols] at hp; simp at hp
    | cons c cs =>
      simp only [Aln.rows, Aln.rows?, hcols, List.head?_cons, Option.map_some, Option.getD_some]
      exact hc.2 c (by rw [hcols]; exact List.mem_cons_self)
  have hcolQ : a.columnQL h p = (h.read a.cols[p]).map (Lin.shown a.q) := by simp only [Aln.columnQL, hcp]
  have hcol : a.column cx h p = (h.read a.cols[p]).map fun x =>
      if a.q then (if x.Q ≥ alnThreshold then x.L else cx.amb) else x.L := by simp only [Aln.column, hcp]
  refine ⟨a.columnQL h p, a.column cx h p, ?_, ?_, ?_, ?_, ?_, ?_⟩
  · simp only [viewObj, List.getElem?_map, List.getElem?_range hp, Option.map_some]
  · simp only [viewObj, List.getElem?_map, List.getElem?_range hp, Option.map_some]
  · rw [hcolQ, hrowsV]; simp [hlen, hrows]
  · rw [hcol, hrowsV]; simp [hlen, hrows]
  · intro i r hr
    rw [hrowsV, List.getElem?_map] at hr
    have hi : i < a.rows := by
      cases hx : (List.range a.rows)[i]? with
      | none => rw [hx] at hr; cases hr
      | some x =>
        have := (List.getElem?_eq_some_iff.mp hx).1
        simpa using this
    rw [List.getElem?_range hi] at hr
    simp only [Option.map_some, Option.some.injEq] at hr
    have hin : i < (h.read a.cols[p]).length := by rw [hlen, ← hrows]; exact hi
    -- the cell row `i` shows in column `p`
    have hcell : rowCell (viewObj cx h (.aln a)) r ((viewObj cx h (.aln a)).start + (p : Int))
        = some (Lin.shown a.q (h.read a.cols[p])[i]) := by
      have hk : ((viewObj cx h (.aln a)).kind == "multi") = false := by
        simp only [viewObj]; cases a.q <;> rfl
      simp only [rowCell, hk, Bool.false_eq_true, if_false]
      have hidx : ((viewObj cx h (.aln a)).start + (p : Int) - (viewObj cx h (.aln a)).start).toNat = p := by omega
      rw [hidx, ← hr]
      simp only [Aln.rowLetters, List.getElem?_map, hcp, Option.map_some, Heap.get, Heap.get?_eq_read,
        List.getElem?_eq_getElem hin, Option.getD_some]
    rw [hcell]
    constructor
    · rw [hcolQ, List.getElem?_map, List.getElem?_eq_getElem hin]; rfl
    · rw [hcol, List.getElem?_map, List.getElem?_eq_getElem hin]
      simp only [Option.map_some, columnLetter, viewObj]
      rcases Bool.eq_false_or_eq_true a.q with hq | hq
      · simp only [hq, Lin.shown, if_true, beq_self_eq_true, Bool.true_and, decide_eq_true_eq]
        by_cases hlt : (h.read a.cols[p])[i].Q < alnThreshold
        · rw [if_pos hlt, if_neg (fun hge => (uint8_not_lt_iff _ _).mpr hge hlt)]
        · rw [if_neg hlt, if_pos ((uint8_not_lt_iff _ _).mp hlt)]
      · simp [hq, Lin.shown]
  · intro hk
    exfalso
    simp only [viewObj] at hk
    cases hq : a.q <;> simp [hq] at hk

/-- **row_eq_column, every observation of every well-formed state of the model** -/
theorem model_row_eq_column (cx : Ctx) (w : World) (hw : WorldWF w) :
    ∀ o ∈ w.view cx, RowEqColumnSpec cx.gap cx.amb o := by
  intro ov hov
  simp only [World.view, List.mem_map] at hov
  obtain ⟨o, ho, rfl⟩ := hov
  obtain ⟨k, hk⟩ := List.getElem?_of_mem ho
  have hwf := hw.obj k o hk
  cases o with
  | lin l => intro hal; simp only [viewObj, isAligned] at hal; cases hq : l.q <;> simp [hq] at hal
  | set m => intro hal; simp [viewObj, isAligned] at hal
  | multi m => exact rowEqColumn_multi cx _ m hwf
  | aln a =>
    obtain ⟨_, n, hc, _⟩ := hwf
    exact rowEqColumn_aln cx _ a n hc

end Biogo.Containers
