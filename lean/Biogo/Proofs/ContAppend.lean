/-
Go `append` on the heap model (in place iff capacity) and what it means for the rows of a
multi: AppendColumns / AppendEach / Flush.  Core-only.
-/
import Biogo.Model.ContWorld
import Biogo.Proofs.Containers
import Biogo.Proofs.ContFrame
import Biogo.Proofs.ContAln

namespace Biogo.Containers
open Biogo.Go

/-- a slice with its capacity inside an allocated array -/
def CapValid (h : Cells) (s : Slice) : Prop :=
  s.arr < h.arrays.length ∧ s.len ≤ s.cap ∧ s.off + s.cap ≤ (h.arr s.arr).length

theorem append_list {α : Type} (A xs : List α) (off len : Nat) (hA : off + len + xs.length ≤ A.length) :
    ((A.take (off + len) ++ xs ++ A.drop (off + len + xs.length)).drop off).take (len + xs.length)
      = (A.drop off).take len ++ xs := by
  apply List.ext_getElem?
  intro k
  by_cases hk : k < len + xs.length
  · rw [List.getElem?_take_of_lt hk, List.getElem?_drop]
    by_cases hkl : k < len
    · rw [List.append_assoc, List.getElem?_append_left (by simp; omega), List.getElem?_take_of_lt (by omega)]
      rw [List.getElem?_append_left (by simp; omega), List.getElem?_take_of_lt hkl, List.getElem?_drop]
    · rw [List.getElem?_append_left (by simp; omega), List.getElem?_append_right (by simp; omega)]
      rw [List.getElem?_append_right (by simp; omega)]
      simp only [List.length_take, List.length_drop]
      congr 1; omega
  · rw [List.getElem?_eq_none_iff.mpr (by simp; omega), List.getElem?_eq_none_iff.mpr (by simp; omega)]

/-- **Go `append`**: the result reads as the old elements followed by the new ones; it is
    either the same array written in place (only when the capacity suffices) or a new array;
    no other array changes. -/
theorem append_spec (grow : Nat → Nat → Nat) (h : Cells) (s : Slice) (xs : List QL) (hv : CapValid h s) :
    (h.append grow s xs zeroQL).1.read (h.append grow s xs zeroQL).2 = h.read s ++ xs ∧
    CapValid (h.append grow s xs zeroQL).1 (h.append grow s xs zeroQL).2 ∧
    (h.append grow s xs zeroQL).2.len = s.len + xs.length ∧
    ((h.append grow s xs zeroQL).2.arr = s.arr ∨ h.arrays.length ≤ (h.append grow s xs zeroQL).2.arr) ∧
    (∀ b, b ≠ s.arr → b < h.arrays.length → (h.append grow s xs zeroQL).1.arr b = h.arr b) ∧
    h.arrays.length ≤ (h.append grow s xs zeroQL).1.arrays.length := by
  obtain ⟨ha, hlc, hcap⟩ := hv
  by_cases hfit : s.len + xs.length ≤ s.cap
  · -- in place
    have happ : h.append grow s xs zeroQL =
        (h.writeList ⟨s.arr, s.off + s.len, xs.length, s.cap - s.len⟩ xs, { s with len := s.len + xs.length }) := by
      simp only [Heap.append, hfit, if_true]
    rw [happ]
    have hw := arr_writeList_same h ⟨s.arr, s.off + s.len, xs.length, s.cap - s.len⟩ xs ha
    simp only [Nat.min_self] at hw
    rw [List.take_of_length_le (Nat.le_refl _)] at hw
    refine ⟨?_, ⟨by rw [length_writeList]; exact ha, by simp only; omega, ?_⟩, rfl, Or.inl rfl, ?_, ?_⟩
    · show (((h.writeList ⟨s.arr, s.off + s.len, xs.length, s.cap - s.len⟩ xs).arr s.arr).drop s.off).take
          (s.len + xs.length) = ((h.arr s.arr).drop s.off).take s.len ++ xs
      rw [hw]
      exact append_list (h.arr s.arr) xs s.off s.len (by omega)
    · show s.off + s.cap ≤ ((h.writeList ⟨s.arr, s.off + s.len, xs.length, s.cap - s.len⟩ xs).arr s.arr).length
      rw [hw]
      simp only [List.length_append, List.length_take, List.length_drop]
      omega
    · intro b hb _
      exact arr_writeList_other _ _ _ _ (Ne.symm hb)
    · rw [length_writeList]; exact Nat.le_refl _
  · -- a new array
    have happ : h.append grow s xs zeroQL =
        h.ofList (h.read s ++ xs) (grow s.cap (s.len + xs.length)) zeroQL := by
      simp only [Heap.append, hfit, if_false]
    rw [happ]
    have hlen : (h.read s).length = s.len := by
      simp only [Heap.read, List.length_take, List.length_drop]; omega
    refine ⟨Heap.read_ofList _ _ _ _, ⟨?_, ?_, ?_⟩, ?_, Or.inr (Nat.le_refl _), ?_, ?_⟩
    · simp only [Heap.ofList, Heap.alloc, List.length_append, List.length_singleton]; omega
    · simp only [Heap.ofList]; omega
    · rw [show (h.ofList (h.read s ++ xs) (grow s.cap (s.len + xs.length)) zeroQL).2.arr
          = (h.alloc ((h.read s ++ xs) ++ List.replicate (max (h.read s ++ xs).length (grow s.cap (s.len + xs.length)) - (h.read s ++ xs).length) zeroQL)).2 from rfl]
      simp only [Heap.ofList]
      rw [Heap.arr_alloc_new]
      simp only [List.length_append, List.length_replicate]
      omega
    · simp only [Heap.ofList, List.length_append, hlen]
    · intro b _ hb
      simp only [Heap.ofList]
      exact Heap.arr_alloc_old _ _ _ hb
    · have := Heap.size_ofList h (h.read s ++ xs) (grow s.cap (s.len + xs.length)) zeroQL
      simp only [Heap.size] at this
      omega

/-! ### folds of row operations that write in place or move the row to a new array -/

def RowsCapWF (h : Cells) (rows : List Lin) : Prop :=
  (∀ r ∈ rows, CapValid h r.s) ∧ rows.Pairwise (fun a b => a.s.arr ≠ b.s.arr)

theorem CapValid.mono {h h' : Cells} {s : Slice} (hv : CapValid h s)
    (hl : h.arrays.length ≤ h'.arrays.length) (ha : h'.arr s.arr = h.arr s.arr) : CapValid h' s :=
  ⟨Nat.lt_of_lt_of_le hv.1 hl, hv.2.1, by rw [ha]; exact hv.2.2⟩

theorem CapValid.toValid {h : Cells} {l : Lin} (hv : CapValid h l.s) : l.Valid h :=
  ⟨hv.1, by have := hv.2.1; have := hv.2.2; omega⟩

/-- a row operation with a payload: it writes the row's own array or moves the row to an array
    that did not exist, and touches nothing else -/
structure RowOp {β : Type} (g : Cells → Lin × β → Cells × Lin) : Prop where
  foot : ∀ h r p, CapValid h r.s → (g h (r, p)).2.s.arr = r.s.arr ∨ h.arrays.length ≤ (g h (r, p)).2.s.arr
  frame : ∀ h r p b, CapValid h r.s → b ≠ r.s.arr → b < h.arrays.length → (g h (r, p)).1.arr b = h.arr b
  size : ∀ h r p, CapValid h r.s → h.arrays.length ≤ (g h (r, p)).1.arrays.length
  valid : ∀ h r p, CapValid h r.s → CapValid (g h (r, p)).1 (g h (r, p)).2.s

def pairFold {β : Type} (g : Cells → Lin × β → Cells × Lin) (rps : List (Lin × β)) (acc : Cells × List Lin) :
    Cells × List Lin :=
  rps.foldl (fun acc rp => ((g acc.1 rp).1, acc.2 ++ [(g acc.1 rp).2])) acc

theorem pairFold_spec {β : Type} (g : Cells → Lin × β → Cells × Lin) (hg : RowOp g)
    (Rel : List QL → Lin × β → List QL → Lin → Prop)
    (hrel : ∀ h r p, CapValid h r.s → Rel (r.letters h) (r, p) ((g h (r, p)).2.letters (g h (r, p)).1) (g h (r, p)).2) :
    ∀ (rps : List (Lin × β)) (h : Cells) (acc : List Lin), RowsCapWF h (rps.map (·.1)) →
      ∃ rows', (pairFold g rps (h, acc)).2 = acc ++ rows' ∧
        All2 (fun rp r' => Rel (rp.1.letters h) rp (r'.letters (pairFold g rps (h, acc)).1) r' ∧
            (r'.s.arr = rp.1.s.arr ∨ h.arrays.length ≤ r'.s.arr) ∧
            CapValid (pairFold g rps (h, acc)).1 r'.s) rps rows' ∧
        rows'.Pairwise (fun a b => a.s.arr ≠ b.s.arr) ∧
        (∀ b, (∀ rp ∈ rps, rp.1.s.arr ≠ b) → b < h.arrays.length → (pairFold g rps (h, acc)).1.arr b = h.arr b) ∧
        h.arrays.length ≤ (pairFold g rps (h, acc)).1.arrays.length := by
  intro rps
  induction rps with
  | nil => intro h acc _; exact ⟨[], by simp [pairFold], .nil, List.Pairwise.nil, fun _ _ _ => rfl, Nat.le_refl _⟩
  | cons rp rs ih =>
    intro h acc hwf
    obtain ⟨r, p⟩ := rp
    have hvr : CapValid h r.s := hwf.1 r (by simp)
    have hpw : (∀ a' ∈ rs.map (·.1), r.s.arr ≠ a'.s.arr) ∧ (rs.map (·.1)).Pairwise (fun a b => a.s.arr ≠ b.s.arr) :=
      List.pairwise_cons.mp hwf.2
    have hsz1 := hg.size h r p hvr
    have hv1 := hg.valid h r p hvr
    have hwf' : RowsCapWF (g h (r, p)).1 (rs.map (·.1)) := by
      refine ⟨fun x hx => ?_, hpw.2⟩
      have hxv := hwf.1 x (by simp only [List.map_cons, List.mem_cons]; exact Or.inr hx)
      have hne : x.s.arr ≠ r.s.arr := fun e => hpw.1 x hx e.symm
      exact hxv.mono hsz1 (hg.frame h r p _ hvr hne hxv.1)
    obtain ⟨rows', h2, hall, hpw', hframe, hsize⟩ := ih (g h (r, p)).1 (acc ++ [(g h (r, p)).2]) hwf'
    have hfold : pairFold g ((r, p) :: rs) (h, acc) = pairFold g rs ((g h (r, p)).1, acc ++ [(g h (r, p)).2]) := rfl
    rw [hfold]
    -- the head row's array is not touched by the rest of the loop
    have hhead_ne : ∀ x ∈ rs, x.1.s.arr ≠ (g h (r, p)).2.s.arr := by
      intro x hx
      have hxm : x.1 ∈ rs.map (·.1) := List.mem_map_of_mem hx
      rcases hg.foot h r p hvr with e | e
      · rw [e]; exact fun e' => hpw.1 x.1 hxm e'.symm
      · have := (hwf.1 x.1 (by simp only [List.map_cons, List.mem_cons]; exact Or.inr hxm)).1; omega
    have hk := hframe (g h (r, p)).2.s.arr hhead_ne hv1.1
    refine ⟨(g h (r, p)).2 :: rows', by rw [h2]; simp, .cons ⟨?_, hg.foot h r p hvr, ?_⟩ ?_, ?_, ?_, by omega⟩
    · rw [Lin.letters_congr hk]; exact hrel h r p hvr
    · exact hv1.mono hsize hk
    · refine hall.imp_mem fun x x' hx hxx => ⟨?_, ?_, hxx.2.2⟩
      · have hxm : x.1 ∈ rs.map (·.1) := List.mem_map_of_mem hx
        have hxv := hwf.1 x.1 (by simp only [List.map_cons, List.mem_cons]; exact Or.inr hxm)
        have hne : x.1.s.arr ≠ r.s.arr := fun e => hpw.1 x.1 hxm e.symm
        have := hxx.1
        rw [Lin.letters_congr (hg.frame h r p _ hvr hne hxv.1)] at this
        exact this
      · rcases hxx.2.1 with e | e
        · exact Or.inl e
        · exact Or.inr (by omega)
    · refine List.pairwise_cons.mpr ⟨?_, hpw'⟩
      intro x' hx'
      obtain ⟨x, hx, hr⟩ := hall.exists_left x' hx'
      rcases hr.2.1 with e | e
      · rw [e]; exact (hhead_ne x hx).symm
      · have := hv1.1; omega
    · intro b hb hbl
      rw [hframe b (fun x hx => hb x (List.mem_cons_of_mem _ hx)) (by omega)]
      exact hg.frame h r p b hvr (Ne.symm (hb (r, p) List.mem_cons_self)) hbl

/-! ### rows of a multi: AppendQLetters -/

theorem shown_stored (q : Bool) (c : QL) : Lin.shown q (Lin.stored q c) = if q then c else ⟨c.L, defaultQ⟩ := by
  cases q <;> rfl

/-- `AppendQLetters(a...)` on one row: the row shows its old letters followed by the appended
    ones (a `linear.Seq` keeps the letters only); coordinates: same start, end moved by `len(a)` -/
theorem Lin.appendQL_spec (cx : Ctx) (h : Cells) (l : Lin) (a : List QL) (hv : CapValid h l.s) :
    (l.appendQL cx h a).2.letters (l.appendQL cx h a).1
        = l.letters h ++ a.map (fun c => Lin.shown l.q (Lin.stored l.q c)) ∧
    (l.appendQL cx h a).2.start = l.start ∧ (l.appendQL cx h a).2.«end» = l.«end» + a.length ∧
    (l.appendQL cx h a).2.q = l.q ∧ (l.appendQL cx h a).2.name = l.name ∧
    (l.appendQL cx h a).2.strand = l.strand := by
  obtain ⟨r1, _, r3, _, _, _⟩ := append_spec cx.grow h l.s (a.map (Lin.stored l.q)) hv
  refine ⟨?_, rfl, ?_, rfl, rfl, rfl⟩
  · simp only [Lin.appendQL, Lin.letters]
    rw [r1, List.map_append, List.map_map]
    rfl
  · simp only [Lin.appendQL, Lin.«end»]
    rw [r3, List.length_map]
    omega

theorem rowOp_appendQL (cx : Ctx) : RowOp (fun h (rp : Lin × List QL) => rp.1.appendQL cx h rp.2) where
  foot h r p hv := (append_spec cx.grow h r.s (p.map (Lin.stored r.q)) hv).2.2.2.1
  frame h r p b hv hb hbl := (append_spec cx.grow h r.s (p.map (Lin.stored r.q)) hv).2.2.2.2.1 b hb hbl
  size h r p hv := (append_spec cx.grow h r.s (p.map (Lin.stored r.q)) hv).2.2.2.2.2
  valid h r p hv := (append_spec cx.grow h r.s (p.map (Lin.stored r.q)) hv).2.1

/-- what appending `p` does to a row -/
def AppendRel (bl : List QL) (rp : Lin × List QL) (al : List QL) (r' : Lin) : Prop :=
  al = bl ++ rp.2.map (fun c => Lin.shown rp.1.q (Lin.stored rp.1.q c)) ∧
  r'.start = rp.1.start ∧ r'.«end» = rp.1.«end» + rp.2.length ∧ r'.q = rp.1.q ∧ r'.name = rp.1.name ∧
  r'.strand = rp.1.strand

/-- the loop `for i, r := range rows { r.AppendQLetters(payload(i)...) }` with its counter is the
    fold over the rows paired with their payloads -/
theorem counterFold_eq (cx : Ctx) (payload : Nat → List QL) : ∀ (rows : List Lin) (h : Cells) (acc : List Lin) (i : Nat),
    rows.foldl (fun (acc : Cells × List Lin × Nat) r =>
        ((r.appendQL cx acc.1 (payload acc.2.2)).1, acc.2.1 ++ [(r.appendQL cx acc.1 (payload acc.2.2)).2], acc.2.2 + 1))
        (h, acc, i)
      = ((pairFold (fun h (rp : Lin × List QL) => rp.1.appendQL cx h rp.2)
            ((rows.zipIdx i).map fun rk => (rk.1, payload rk.2)) (h, acc)).1,
         (pairFold (fun h (rp : Lin × List QL) => rp.1.appendQL cx h rp.2)
            ((rows.zipIdx i).map fun rk => (rk.1, payload rk.2)) (h, acc)).2,
         i + rows.length) := by
  intro rows
  induction rows with
  | nil => intro h acc i; simp [pairFold]
  | cons r rs ih =>
    intro h acc i
    simp only [List.foldl_cons, List.zipIdx_cons, List.map_cons, List.length_cons]
    rw [ih]
    simp only [pairFold, List.foldl_cons]
    congr 2
    omega

theorem zipIdx_map_fst {α : Type} : ∀ (l : List α) (i : Nat), (l.zipIdx i).map (·.1) = l := by
  intro l
  induction l with
  | nil => intro i; rfl
  | cons a l ih => intro i; simp [List.zipIdx_cons, ih]

/-- the loop over the rows with payload `payload i` for row `i`: every row is extended by
    exactly its payload; rows end up in pairwise different arrays; nothing else changes -/
theorem appendRows_spec (cx : Ctx) (payload : Nat → List QL) (h : Cells) (rows : List Lin)
    (hwf : RowsCapWF h rows) :
    let res := rows.foldl (fun (acc : Cells × List Lin × Nat) r =>
        ((r.appendQL cx acc.1 (payload acc.2.2)).1, acc.2.1 ++ [(r.appendQL cx acc.1 (payload acc.2.2)).2], acc.2.2 + 1))
        (h, [], 0)
    res.2.1.length = rows.length ∧
    (∀ (i : Nat) (r : Lin), rows[i]? = some r → ∃ r', res.2.1[i]? = some r' ∧
      AppendRel (r.letters h) (r, payload i) (r'.letters res.1) r') ∧
    RowsCapWF res.1 res.2.1 ∧
    (∀ b, (∀ r ∈ rows, r.s.arr ≠ b) → b < h.arrays.length → res.1.arr b = h.arr b) := by
  intro res
  have hres : res = _ := counterFold_eq cx payload rows h [] 0
  have hwf' : RowsCapWF h (((rows.zipIdx 0).map fun rk => (rk.1, payload rk.2)).map (·.1)) := by
    rw [List.map_map]
    have : ((fun (x : Lin × List QL) => x.1) ∘ fun (rk : Lin × Nat) => (rk.1, payload rk.2)) = (·.1) := rfl
    rw [this, zipIdx_map_fst]; exact hwf
  obtain ⟨rows', h2, hall, hpw, hframe, _⟩ := pairFold_spec _ (rowOp_appendQL cx) AppendRel
    (fun h r p hv => Lin.appendQL_spec cx h r p hv) _ h [] hwf'
  simp only [List.nil_append] at h2
  rw [hres]
  simp only [h2]
  have hlen := hall.length_eq
  simp only [List.length_map, List.length_zipIdx] at hlen
  refine ⟨hlen.symm, ?_, ⟨?_, hpw⟩, ?_⟩
  · intro i r hi
    have hil : i < rows'.length := by rw [← hlen]; exact (List.getElem?_eq_some_iff.mp hi).1
    refine ⟨rows'[i], List.getElem?_eq_getElem hil, ?_⟩
    have hp : ((rows.zipIdx 0).map fun rk => (rk.1, payload rk.2))[i]? = some (r, payload i) := by
      rw [List.getElem?_map, List.getElem?_zipIdx, hi]; simp
    exact (hall.get i _ _ hp (List.getElem?_eq_getElem hil)).1
  · intro r' hr'
    obtain ⟨x, _, hx⟩ := hall.exists_left r' hr'
    exact hx.2.2
  · intro b hb hbl
    apply hframe b _ hbl
    intro rp hrp
    obtain ⟨rk, hrk, e⟩ := List.mem_map.mp hrp
    subst e
    have : rk.1 ∈ rows := by
      have := List.mem_map_of_mem (f := (·.1)) hrk
      rw [zipIdx_map_fst] at this; exact this
    exact hb rk.1 this

/-! ### Flush -/

theorem foldRows_eq_pairFold (g : Cells → Lin → Cells × Lin) (rows : List Lin) (h : Cells) :
    Multi.foldRows g rows h
      = pairFold (fun h (rp : Lin × Unit) => g h rp.1) (rows.map fun r => (r, ())) (h, []) := by
  simp only [Multi.foldRows, pairFold, List.foldl_map]

/-- what `Flush`'s `seq.Start` pass does to one row when `st ≤ r.Start()` -/
def FlushStartRel (st : Int) (fill : UInt8) (bl : List QL) (rp : Lin × Unit) (al : List QL) (r' : Lin) : Prop :=
  al = List.replicate (rp.1.start - st).toNat (Lin.shown rp.1.q ⟨fill, 0⟩) ++ bl ∧
  (st ≤ rp.1.start → r'.start = st ∧ r'.«end» = rp.1.«end») ∧
  r'.q = rp.1.q ∧ r'.name = rp.1.name ∧ r'.strand = rp.1.strand

theorem flushStart_fresh (cx : Ctx) (st : Int) (fill : UInt8) (h : Cells) (r : Lin) (hlt : ¬ r.start - st < 1) :
    (Multi.flushStartStep cx st fill h r).1.read (Multi.flushStartStep cx st fill h r).2.s
        = List.replicate (r.start - st).toNat ⟨fill, 0⟩ ++ h.read r.s ∧
    (Multi.flushStartStep cx st fill h r).2.s.arr = h.arrays.length ∧
    CapValid (Multi.flushStartStep cx st fill h r).1 (Multi.flushStartStep cx st fill h r).2.s ∧
    (Multi.flushStartStep cx st fill h r).1.arrays.length = h.arrays.length + 1 ∧
    (∀ b, b < h.arrays.length → (Multi.flushStartStep cx st fill h r).1.arr b = h.arr b) := by
  simp only [Multi.flushStartStep, hlt, if_false]
  refine ⟨Heap.read_ofList _ _ _ _, rfl, ⟨?_, ?_, ?_⟩, Heap.size_ofList _ _ _ _, fun b hb => ?_⟩
  · simp only [Heap.ofList, Heap.alloc, List.length_append, List.length_singleton]; omega
  · simp only [Heap.ofList]; omega
  · generalize hxs : (List.replicate (r.start - st).toNat (⟨fill, 0⟩ : QL) ++ h.read r.s) = xs
    generalize cx.grow (r.start - st).toNat ((r.start - st).toNat + r.s.len) = cap
    rw [show (h.ofList xs cap zeroQL).2.arr
          = (h.alloc (xs ++ List.replicate (max xs.length cap - xs.length) zeroQL)).2 from rfl]
    simp only [Heap.ofList]
    rw [Heap.arr_alloc_new]
    simp only [List.length_append, List.length_replicate]
    omega
  · simp only [Heap.ofList]; exact Heap.arr_alloc_old _ _ _ hb

theorem rowOp_flushStart (cx : Ctx) (st : Int) (fill : UInt8) :
    RowOp (fun h (rp : Lin × Unit) => Multi.flushStartStep cx st fill h rp.1) where
  foot h r _ _ := by
    by_cases hlt : r.start - st < 1
    · left; simp only [Multi.flushStartStep, hlt, if_true]
    · right; rw [(flushStart_fresh cx st fill h r hlt).2.1]; exact Nat.le_refl _
  frame h r _ b _ _ hbl := by
    by_cases hlt : r.start - st < 1
    · simp only [Multi.flushStartStep, hlt, if_true]
    · exact (flushStart_fresh cx st fill h r hlt).2.2.2.2 b hbl
  size h r _ _ := by
    by_cases hlt : r.start - st < 1
    · simp only [Multi.flushStartStep, hlt, if_true]; exact Nat.le_refl _
    · rw [(flushStart_fresh cx st fill h r hlt).2.2.2.1]; exact Nat.le_succ _
  valid h r _ hv := by
    by_cases hlt : r.start - st < 1
    · simp only [Multi.flushStartStep, hlt, if_true]; exact hv
    · exact (flushStart_fresh cx st fill h r hlt).2.2.1

theorem flushStart_rel (cx : Ctx) (st : Int) (fill : UInt8) (h : Cells) (r : Lin) (hv : CapValid h r.s) :
    FlushStartRel st fill (r.letters h) (r, ())
      ((Multi.flushStartStep cx st fill h r).2.letters (Multi.flushStartStep cx st fill h r).1)
      (Multi.flushStartStep cx st fill h r).2 := by
  unfold FlushStartRel
  dsimp only
  by_cases hlt : r.start - st < 1
  · have hstep : Multi.flushStartStep cx st fill h r = (h, r) := by simp only [Multi.flushStartStep, hlt, if_true]
    rw [hstep]
    refine ⟨?_, fun hle => ⟨by show r.start = st; omega, rfl⟩, rfl, rfl, rfl⟩
    have : (r.start - st).toNat = 0 := by omega
    simp [this]
  · obtain ⟨hread, _, _, _, _⟩ := flushStart_fresh cx st fill h r hlt
    have hoff : (Multi.flushStartStep cx st fill h r).2.off = st := by
      simp only [Multi.flushStartStep, hlt, if_false]
    have hslen : (Multi.flushStartStep cx st fill h r).2.s.len = (r.start - st).toNat + r.s.len := by
      have hlen : (h.read r.s).length = r.s.len := length_read_of_valid h r hv.toValid
      simp only [Multi.flushStartStep, hlt, if_false, Heap.ofList, List.length_append,
        List.length_replicate, hlen]
    have hq : (Multi.flushStartStep cx st fill h r).2.q = r.q := by
      simp only [Multi.flushStartStep, hlt, if_false]
    have hn : (Multi.flushStartStep cx st fill h r).2.name = r.name := by
      simp only [Multi.flushStartStep, hlt, if_false]
    have hs : (Multi.flushStartStep cx st fill h r).2.strand = r.strand := by
      simp only [Multi.flushStartStep, hlt, if_false]
    refine ⟨?_, fun _ => ⟨hoff, ?_⟩, hq, hn, hs⟩
    · simp only [Lin.letters]
      rw [hread, List.map_append, List.map_replicate, hq]
    · have e1 : (Multi.flushStartStep cx st fill h r).2.«end»
          = (Multi.flushStartStep cx st fill h r).2.off + ((Multi.flushStartStep cx st fill h r).2.s.len : Int) := rfl
      have e2 : r.«end» = r.start + (r.s.len : Int) := rfl
      rw [e1, hoff, hslen, e2]
      omega

/-- what the `seq.End` pass does to one row when `r.End() ≤ en` -/
def FlushEndRel (en : Int) (fill : UInt8) (bl : List QL) (rp : Lin × Unit) (al : List QL) (r' : Lin) : Prop :=
  al = bl ++ List.replicate (en - rp.1.«end»).toNat (Lin.shown rp.1.q ⟨fill, 0⟩) ∧
  r'.start = rp.1.start ∧ (rp.1.«end» ≤ en → r'.«end» = en) ∧
  r'.q = rp.1.q ∧ r'.name = rp.1.name ∧ r'.strand = rp.1.strand

theorem rowOp_flushEnd (cx : Ctx) (en : Int) (fill : UInt8) :
    RowOp (fun h (rp : Lin × Unit) => Multi.flushEndStep cx en fill h rp.1) where
  foot h r _ hv := by
    by_cases hlt : en - r.«end» < 1
    · left; simp only [Multi.flushEndStep, hlt, if_true]
    · simp only [Multi.flushEndStep, hlt, if_false]
      exact (rowOp_appendQL cx).foot h r _ hv
  frame h r _ b hv hb hbl := by
    by_cases hlt : en - r.«end» < 1
    · simp only [Multi.flushEndStep, hlt, if_true]
    · simp only [Multi.flushEndStep, hlt, if_false]
      exact (rowOp_appendQL cx).frame h r _ b hv hb hbl
  size h r _ hv := by
    by_cases hlt : en - r.«end» < 1
    · simp only [Multi.flushEndStep, hlt, if_true]; exact Nat.le_refl _
    · simp only [Multi.flushEndStep, hlt, if_false]
      exact (rowOp_appendQL cx).size h r _ hv
  valid h r _ hv := by
    by_cases hlt : en - r.«end» < 1
    · simp only [Multi.flushEndStep, hlt, if_true]; exact hv
    · simp only [Multi.flushEndStep, hlt, if_false]
      exact (rowOp_appendQL cx).valid h r _ hv

theorem flushEnd_rel (cx : Ctx) (en : Int) (fill : UInt8) (h : Cells) (r : Lin) (hv : CapValid h r.s) :
    FlushEndRel en fill (r.letters h) (r, ())
      ((Multi.flushEndStep cx en fill h r).2.letters (Multi.flushEndStep cx en fill h r).1)
      (Multi.flushEndStep cx en fill h r).2 := by
  unfold FlushEndRel
  dsimp only
  by_cases hlt : en - r.«end» < 1
  · have hstep : Multi.flushEndStep cx en fill h r = (h, r) := by simp only [Multi.flushEndStep, hlt, if_true]
    rw [hstep]
    refine ⟨?_, rfl, fun hle => by show r.«end» = en; omega, rfl, rfl, rfl⟩
    have : (en - r.«end»).toNat = 0 := by omega
    simp [this]
  · have hstep : Multi.flushEndStep cx en fill h r
        = r.appendQL cx h (List.replicate (en - r.«end»).toNat ⟨fill, 0⟩) := by
      simp only [Multi.flushEndStep, hlt, if_false]
    rw [hstep]
    obtain ⟨a1, a2, a3, a4, a5, a6⟩ := Lin.appendQL_spec cx h r (List.replicate (en - r.«end»).toNat ⟨fill, 0⟩) hv
    refine ⟨?_, a2, fun _ => ?_, a4, a5, a6⟩
    · rw [a1, List.map_replicate]
      cases r.q <;> rfl
    · rw [a3, List.length_replicate]; omega

theorem All2.of_map_left {α β γ : Type} {R : β → γ → Prop} (f : α → β) :
    ∀ {as : List α} {cs : List γ}, All2 R (as.map f) cs → All2 (fun a c => R (f a) c) as cs := by
  intro as
  induction as with
  | nil => intro cs h; cases h; exact .nil
  | cons a as ih =>
    intro cs h
    cases h with
    | cons hab hrest => exact .cons hab (ih hrest)

theorem All2.refl_of {α : Type} {R : α → α → Prop} : ∀ (as : List α), (∀ a ∈ as, R a a) → All2 R as as := by
  intro as
  induction as with
  | nil => intro _; exact .nil
  | cons a as ih =>
    intro h
    exact .cons (h a List.mem_cons_self) (ih fun x hx => h x (List.mem_cons_of_mem _ hx))

/-- `End()` depends only on the ends of the rows -/
theorem Multi.end_congr : ∀ (rows rows' : List Lin) (init : Int),
    All2 (fun r r' => r'.«end» = r.«end») rows rows' →
    rows'.foldl (fun e r => if r.«end» > e then r.«end» else e) init
      = rows.foldl (fun e r => if r.«end» > e then r.«end» else e) init := by
  intro rows rows' init h
  induction h generalizing init with
  | nil => rfl
  | cons hab _ ih => simp only [List.foldl_cons, hab]; exact ih _

/-- when `IsFlush(where)` holds the requested ends are already flush -/
theorem Multi.isFlush_spec (m : Multi) (wh : Nat) (hr : m.InRange) (hf : m.isFlush wh = true) :
    ∀ r ∈ m.rows, ((wh % 2 == 1) = true → r.start = m.start) ∧ (((wh / 2) % 2 == 1) = true → r.«end» = m.«end») := by
  obtain ⟨s1, s2, e1, e2, _, _⟩ := m.span_spec hr
  obtain ⟨rs, hrs, hrs2⟩ := s2
  obtain ⟨re, hre, hre2⟩ := e2
  cases hrows : m.rows with
  | nil => exact (hr.1 hrows).elim
  | cons r0 rest =>
    simp only [Multi.isFlush, Multi.nrows, hrows, List.length_cons] at hf
    rw [hrows] at hrs hre
    by_cases hle : rest.length + 1 ≤ 1
    · have : rest = [] := List.length_eq_zero_iff.mp (by omega)
      subst this
      simp only [List.mem_singleton] at hrs hre
      intro r hr'
      simp only [List.mem_singleton] at hr'
      subst hr'; subst hrs; subst hre
      exact ⟨fun _ => hrs2, fun _ => hre2⟩
    · simp only [hle, if_false] at hf
      have hall := List.all_eq_true.mp hf
      have key : ∀ r ∈ r0 :: rest, ((wh % 2 == 1) = true → r.start = r0.start) ∧
          (((wh / 2) % 2 == 1) = true → r.«end» = r0.«end») := by
        intro r hr'
        rcases List.mem_cons.mp hr' with e | e
        · subst e; exact ⟨fun _ => rfl, fun _ => rfl⟩
        · have := hall r e
          simp only [Bool.not_eq_true', Bool.or_eq_false_iff, Bool.and_eq_false_iff, bne_eq_false_iff_eq] at this
          constructor
          · intro hw
            rcases this.1 with h1 | h1
            · exact h1
            · rw [hw] at h1; cases h1
          · intro hw
            rcases this.2 with h1 | h1
            · exact h1
            · rw [hw] at h1; cases h1
      intro r hr'
      exact ⟨fun hw => by rw [(key r hr').1 hw, ← hrs2, (key rs hrs).1 hw],
             fun hw => by rw [(key r hr').2 hw, ← hre2, (key re hre).2 hw]⟩

/-- what `Flush(where, fill)` does to one row of a multi with span `[S,E)` -/
def FlushRel (S E : Int) (wh : Nat) (fill : UInt8) (h : Cells) (r : Lin) (h' : Cells) (r' : Lin) : Prop :=
  r'.start = (if wh % 2 == 1 then S else r.start) ∧
  r'.«end» = (if (wh / 2) % 2 == 1 then E else r.«end») ∧
  r'.letters h' = List.replicate (r.start - r'.start).toNat (Lin.shown r.q ⟨fill, 0⟩) ++ r.letters h ++
    List.replicate (r'.«end» - r.«end»).toNat (Lin.shown r.q ⟨fill, 0⟩) ∧
  r'.q = r.q ∧ r'.name = r.name ∧ r'.strand = r.strand

/-- **flush_preserves**, on the model -/
theorem Multi.flush_spec (cx : Ctx) (h : Cells) (m : Multi) (wh : Nat) (fill : UInt8)
    (hwf : RowsCapWF h m.rows) (hr : m.InRange) :
    All2 (fun r r' => FlushRel m.start m.«end» wh fill h r (m.flush cx h wh fill).1 r')
      m.rows (m.flush cx h wh fill).2.rows := by
  obtain ⟨s1, _, e1, _, _, _⟩ := m.span_spec hr
  by_cases hf : m.isFlush wh = true
  · -- nothing to do: the requested ends are flush already
    have hres : m.flush cx h wh fill = (h, m) := by simp only [Multi.flush, hf, if_true]
    rw [hres]
    have hsp := Multi.isFlush_spec m wh hr hf
    apply All2.refl_of
    intro r hrm
    obtain ⟨a, b⟩ := hsp r hrm
    refine ⟨?_, ?_, ?_, rfl, rfl, rfl⟩
    · by_cases hw : (wh % 2 == 1) = true
      · rw [if_pos hw]; exact a hw
      · rw [if_neg hw]
    · by_cases hw : ((wh / 2) % 2 == 1) = true
      · rw [if_pos hw]; exact b hw
      · rw [if_neg hw]
    · simp
  · -- pass 1
    have hpass1 : ∃ h1 rows1, (if wh % 2 == 1 then Multi.foldRows (Multi.flushStartStep cx m.start fill) m.rows h else (h, m.rows)) = (h1, rows1) ∧
        All2 (fun r r1 => r1.letters h1 = List.replicate (r.start - r1.start).toNat (Lin.shown r.q ⟨fill, 0⟩) ++ r.letters h ∧
            r1.start = (if wh % 2 == 1 then m.start else r.start) ∧ r1.«end» = r.«end» ∧
            r1.q = r.q ∧ r1.name = r.name ∧ r1.strand = r.strand) m.rows rows1 ∧
        RowsCapWF h1 rows1 := by
      by_cases hw : (wh % 2 == 1) = true
      · rw [if_pos hw, foldRows_eq_pairFold]
        have hwf' : RowsCapWF h ((m.rows.map fun r => (r, ())).map (·.1)) := by
          have e : (m.rows.map fun r => (r, ())).map (·.1) = m.rows := by
            rw [List.map_map]; exact List.map_id _
          rw [e]; exact hwf
        obtain ⟨rows1, h2, hall, hpw, _, _⟩ := pairFold_spec _ (rowOp_flushStart cx m.start fill)
          (FlushStartRel m.start fill) (fun h r _ hv => flushStart_rel cx m.start fill h r hv) _ h [] hwf'
        simp only [List.nil_append] at h2
        refine ⟨_, rows1, by rw [← h2], ?_, ⟨?_, hpw⟩⟩
        · refine (All2.of_map_left _ hall).imp_mem fun r r1 hrm hrel => ?_
          obtain ⟨⟨l1, l2, l3, l4, l5⟩, _, _⟩ := hrel
          obtain ⟨b1, b2⟩ := l2 (s1 r hrm)
          refine ⟨?_, by rw [if_pos hw]; exact b1, b2, l3, l4, l5⟩
          rw [l1, b1]
        · intro r1 hr1
          obtain ⟨x, _, hx⟩ := hall.exists_left r1 hr1
          exact hx.2.2
      · rw [if_neg hw]
        refine ⟨h, m.rows, rfl, ?_, hwf⟩
        apply All2.refl_of
        intro r _
        refine ⟨by simp, by rw [if_neg hw], rfl, rfl, rfl, rfl⟩
    obtain ⟨h1, rows1, hp1, hall1, hwf1⟩ := hpass1
    have hend1 : ({ m with rows := rows1 } : Multi).«end» = m.«end» :=
      Multi.end_congr m.rows rows1 minInt (hall1.imp fun r r1 hrr => hrr.2.2.1)
    -- pass 2
    have hres : m.flush cx h wh fill =
        ((if (wh / 2) % 2 == 1 then Multi.foldRows (Multi.flushEndStep cx m.«end» fill) rows1 h1 else (h1, rows1)).1,
         { m with rows := (if (wh / 2) % 2 == 1 then Multi.foldRows (Multi.flushEndStep cx m.«end» fill) rows1 h1 else (h1, rows1)).2 }) := by
      simp only [Multi.flush, hf, Bool.false_eq_true, if_false, hp1, hend1]
    rw [hres]
    by_cases hw2 : ((wh / 2) % 2 == 1) = true
    · simp only [if_pos hw2]
      rw [foldRows_eq_pairFold]
      have hwf' : RowsCapWF h1 ((rows1.map fun r => (r, ())).map (·.1)) := by
        have e : (rows1.map fun r => (r, ())).map (·.1) = rows1 := by
          rw [List.map_map]; exact List.map_id _
        rw [e]; exact hwf1
      obtain ⟨rows2, h2, hall2, _, _, _⟩ := pairFold_spec _ (rowOp_flushEnd cx m.«end» fill)
        (FlushEndRel m.«end» fill) (fun h r _ hv => flushEnd_rel cx m.«end» fill h r hv) _ h1 [] hwf'
      simp only [List.nil_append] at h2
      rw [h2]
      refine (hall1.trans (All2.of_map_left _ hall2)).imp_mem fun r r2 hrm ⟨r1, hr1, hr2⟩ => ?_
      obtain ⟨a1, a2, a3, a4, a5, a6⟩ := hr1
      obtain ⟨⟨b1, b2, b3, b4, b5, b6⟩, _, _⟩ := hr2
      have hle : r1.«end» ≤ m.«end» := by rw [a3]; exact e1 r hrm
      refine ⟨by rw [b2, a2], by rw [if_pos hw2]; exact b3 hle, ?_, by rw [b4, a4], by rw [b5, a5], by rw [b6, a6]⟩
      rw [b1, a1, b2, b3 hle, a3, a4]
    · simp only [if_neg hw2]
      refine hall1.imp fun r r1 hrr => ?_
      obtain ⟨a1, a2, a3, a4, a5, a6⟩ := hrr
      refine ⟨a2, by rw [if_neg hw2]; exact a3, ?_, a4, a5, a6⟩
      rw [a1, a3]; simp

/-! ### the constructors establish `RowsCapWF` -/

theorem newLin_capValid (cx : Ctx) (h : Cells) (sp : SeqSpec) :
    CapValid (newLin cx h sp).1 (newLin cx h sp).2.s := by
  obtain ⟨harr, hvalid, _, _⟩ := newLin_fresh cx h sp
  refine ⟨hvalid.1, ?_, ?_⟩
  · simp only [newLin, Heap.ofList]; omega
  · generalize hxs : sp.cells.map (Lin.stored sp.q) = xs
    generalize hcap : cx.grow 0 sp.cells.length = cap
    have e : (newLin cx h sp).2.s = (h.ofList xs cap zeroQL).2 := by simp only [newLin, hxs, hcap]
    have e1 : (newLin cx h sp).1 = (h.ofList xs cap zeroQL).1 := by simp only [newLin, hxs, hcap]
    rw [e, e1]
    rw [show (h.ofList xs cap zeroQL).2.arr
          = (h.alloc (xs ++ List.replicate (max xs.length cap - xs.length) zeroQL)).2 from rfl]
    simp only [Heap.ofList]
    rw [Heap.arr_alloc_new]
    simp only [List.length_append, List.length_replicate]
    omega

theorem newLins_capwf (cx : Ctx) : ∀ (sps : List SeqSpec) (h : Cells) (acc : List Lin),
    ∃ ls, (sps.foldl (fun (acc : Cells × List Lin) sp =>
            ((newLin cx acc.1 sp).1, acc.2 ++ [(newLin cx acc.1 sp).2])) (h, acc)).2 = acc ++ ls ∧
      (∀ l ∈ ls, h.arrays.length ≤ l.s.arr ∧
        CapValid (sps.foldl (fun (acc : Cells × List Lin) sp =>
            ((newLin cx acc.1 sp).1, acc.2 ++ [(newLin cx acc.1 sp).2])) (h, acc)).1 l.s) ∧
      ls.Pairwise (fun a b => a.s.arr ≠ b.s.arr) ∧
      h.arrays.length ≤ (sps.foldl (fun (acc : Cells × List Lin) sp =>
            ((newLin cx acc.1 sp).1, acc.2 ++ [(newLin cx acc.1 sp).2])) (h, acc)).1.arrays.length ∧
      (∀ b, b < h.arrays.length → (sps.foldl (fun (acc : Cells × List Lin) sp =>
            ((newLin cx acc.1 sp).1, acc.2 ++ [(newLin cx acc.1 sp).2])) (h, acc)).1.arr b = h.arr b) := by
  intro sps
  induction sps with
  | nil => intro h acc; exact ⟨[], by simp, by simp, List.Pairwise.nil, Nat.le_refl _, fun _ _ => rfl⟩
  | cons sp sps ih =>
    intro h acc
    obtain ⟨harr, _, hsize, hold⟩ := newLin_fresh cx h sp
    have hcv := newLin_capValid cx h sp
    obtain ⟨ls, h2, hall, hpw, hsz, hfr⟩ := ih (newLin cx h sp).1 (acc ++ [(newLin cx h sp).2])
    simp only [List.foldl_cons]
    refine ⟨(newLin cx h sp).2 :: ls, by rw [h2]; simp, ?_, ?_, by omega, ?_⟩
    · intro l hl
      rcases List.mem_cons.mp hl with e | e
      · subst e
        exact ⟨by omega, hcv.mono hsz (hfr _ (by rw [harr, hsize]; omega))⟩
      · have := hall l e; exact ⟨by omega, this.2⟩
    · refine List.pairwise_cons.mpr ⟨?_, hpw⟩
      intro c hc
      have := (hall c hc).1
      rw [harr]; omega
    · intro b hb
      rw [hfr b (by omega), hold b hb]

/-- the rows `linear.NewSeq/NewQSeq` build for a multi satisfy `RowsCapWF` -/
theorem newLins_rowsCapWF (cx : Ctx) (h : Cells) (sps : List SeqSpec) :
    RowsCapWF (newLins cx h sps).1 (newLins cx h sps).2 := by
  obtain ⟨ls, h2, hall, hpw, _, _⟩ := newLins_capwf cx sps h []
  rw [newLins_eq]
  simp only [List.nil_append] at h2
  rw [h2]
  exact ⟨fun l hl => (hall l hl).2, hpw⟩

end Biogo.Containers
