/-
Helper lemmas for C10: words and strings — `KmerOf`, `Format`, `GCof` against digit lists.
Core-only.
-/
import Biogo.Model.Kmer
import Biogo.Spec.Kmer
import Biogo.Proofs.Kmer

set_option linter.unusedSimpArgs false

namespace Biogo.Proofs.KmerWord
open Biogo.Kmer Biogo.Spec.Kmer Biogo.Proofs.Kmer

/-! ### digits of a word -/

theorem toDigits_length (k w : Nat) : (toDigits k w).length = k := by
  induction k generalizing w with
  | zero => rfl
  | succ k ih => simp [toDigits, ih]

theorem toDigits_lt (k w : Nat) : ∀ d ∈ toDigits k w, d < 4 := by
  induction k generalizing w with
  | zero => simp [toDigits]
  | succ k ih =>
    intro d hd
    simp only [toDigits, List.mem_append, List.mem_singleton] at hd
    rcases hd with hd | rfl
    · exact ih _ d hd
    · exact Nat.mod_lt _ (by decide)

theorem encode_toDigits (k w : Nat) : encode (toDigits k w) = w % 4 ^ k := by
  induction k generalizing w with
  | zero => simp [toDigits, encode, Nat.mod_one]
  | succ k ih =>
    rw [toDigits, encode_append_singleton, ih, Nat.pow_succ, Nat.mod_mul_left_div_self_comm_aux]
where
  Nat.mod_mul_left_div_self_comm_aux {w k : Nat} : w / 4 % 4 ^ k * 4 + w % 4 = w % (4 ^ k * 4) := by
    have h := Nat.mod_mul (a := 4) (b := 4 ^ k) (x := w)
    -- w % (4 * 4^k) = w % 4 + 4 * (w / 4 % 4^k)
    rw [Nat.mul_comm (4 ^ k) 4, h]; omega

theorem toDigits_encode_aux (k : Nat) (ds : List Nat) (hl : ds.length = k) (h : ∀ d ∈ ds, d < 4) :
    toDigits k (encode ds) = ds := by
  induction k generalizing ds with
  | zero => rw [List.eq_nil_of_length_eq_zero hl]; rfl
  | succ k ih =>
    have hne : ds ≠ [] := by intro h0; rw [h0] at hl; simp at hl
    have hsplit := List.dropLast_concat_getLast hne
    have hd : ds.getLast hne < 4 := h _ (List.getLast_mem hne)
    have hlen : ds.dropLast.length = k := by rw [List.length_dropLast, hl]; rfl
    have hlt : ∀ x ∈ ds.dropLast, x < 4 := fun x hx => h x (by rw [← hsplit]; simp [hx])
    conv => lhs; rw [← hsplit]
    rw [toDigits, encode_append_singleton]
    have h1 : (encode ds.dropLast * 4 + ds.getLast hne) / 4 = encode ds.dropLast := by omega
    have h2 : (encode ds.dropLast * 4 + ds.getLast hne) % 4 = ds.getLast hne := by omega
    rw [h1, h2, ih ds.dropLast hlen hlt, hsplit]

theorem toDigits_encode (ds : List Nat) (h : ∀ d ∈ ds, d < 4) : toDigits ds.length (encode ds) = ds :=
  toDigits_encode_aux ds.length ds rfl h

/-! ### `KmerOf` -/

theorem kmerOfLoop_ok {lk : Lookup} (hlk : FourLetter lk) (text : List UInt8) (ds : List Nat)
    (hd : digits lk text = some ds) (w j : Nat) (hw : w < 4 ^ j) (hj : 2 * (j + text.length) ≤ wordBits) :
    kmerOfLoop lk text w = .ok (w * 4 ^ text.length + encode ds) := by
  induction text generalizing ds w j with
  | nil => simp [digits] at hd; subst hd; simp [kmerOfLoop, encode]
  | cons v vs ih =>
    obtain ⟨d, ds', h1, h2, rfl⟩ := digits_cons_some hd
    have hdl : d < 4 := hlk v d h1
    simp only [List.length_cons] at hj
    rw [kmerOfLoop]
    simp only [h1]
    have hpow : (4 : Nat) ^ (j + 1) ≤ 2 ^ wordBits := four_pow_le (j + 1) (by omega)
    have hw' : w * 4 + d < 4 ^ (j + 1) := by rw [Nat.pow_succ]; omega
    rw [push_eq w d hdl (by rw [Nat.pow_succ] at hpow; omega),
      ih ds' h2 (w * 4 + d) (j + 1) hw' (by omega)]
    rw [encode_cons, digits_length h2, List.length_cons, Nat.pow_succ]
    congr 1
    rw [Nat.add_mul, Nat.mul_assoc, Nat.mul_comm 4, Nat.add_assoc]

theorem kmerOfLoop_bad (lk : Lookup) (text : List UInt8) (hd : digits lk text = none) (w : Nat) :
    kmerOfLoop lk text w = .error .badKmerText := by
  induction text generalizing w with
  | nil => simp [digits] at hd
  | cons v vs ih =>
    rw [kmerOfLoop]
    cases hv : lk v with
    | none => rfl
    | some x =>
      simp only []
      cases hvs : digits lk vs with
      | none => exact ih hvs _
      | some ds => simp [digits, hv, hvs] at hd

/-! ### `Format` -/

theorem formatLoop_eq (letter : Nat → UInt8) (n kmer : Nat) (acc : List UInt8) :
    formatLoop letter n kmer acc = (toDigits n kmer).map letter ++ acc := by
  induction n generalizing kmer acc with
  | zero => rfl
  | succ n ih =>
    rw [formatLoop, ih, toDigits, Nat.shiftRight_eq_div_pow]
    have : kmer &&& 3 = kmer % 4 := Nat.and_two_pow_sub_one_eq_mod kmer 2
    rw [this]
    simp

theorem format_eq (letter : Nat → UInt8) (k kmer : Nat) : format letter k kmer = (toDigits k kmer).map letter := by
  unfold format; rw [formatLoop_eq, List.append_nil]

/-! ### `GCof` -/

theorem gc_bit (kmer : Nat) :
    ((kmer &&& 1) ^^^ ((kmer &&& 2) >>> 1)) = if (kmer % 4 == 1 || kmer % 4 == 2) then 1 else 0 := by
  have h1 : kmer &&& 1 = (kmer % 4) &&& 1 := by
    have := @Nat.and_mod_two_pow kmer 1 2
    rw [Nat.mod_eq_of_lt (show kmer &&& 1 < 2 ^ 2 from Nat.lt_of_le_of_lt Nat.and_le_right (by decide))] at this
    exact this
  have h2 : kmer &&& 2 = (kmer % 4) &&& 2 := by
    have := @Nat.and_mod_two_pow kmer 2 2
    rw [Nat.mod_eq_of_lt (show kmer &&& 2 < 2 ^ 2 from Nat.lt_of_le_of_lt Nat.and_le_right (by decide))] at this
    exact this
  rw [h1, h2]
  have : kmer % 4 = 0 ∨ kmer % 4 = 1 ∨ kmer % 4 = 2 ∨ kmer % 4 = 3 := by omega
  rcases this with h | h | h | h <;> rw [h] <;> decide

theorem gcLoop_eq (n kmer gc : Nat) : gcLoop n kmer gc = gc + gcCount (toDigits n kmer) := by
  induction n generalizing kmer gc with
  | zero => simp [gcLoop, toDigits, gcCount]
  | succ n ih =>
    rw [gcLoop, ih, gc_bit, toDigits, Nat.shiftRight_eq_div_pow]
    unfold gcCount
    rw [List.countP_append, List.countP_singleton]
    have : (2 : Nat) ^ 2 = 4 := by decide
    rw [this]
    omega

end Biogo.Proofs.KmerWord
