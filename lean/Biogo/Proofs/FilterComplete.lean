/-
C14: from the abstract run of the tube state machine (`Proofs/FilterRun.lean`) to `filter` on
the k-mer index of the target (`Proofs/Kmer*.lean`) and the q-gram lemma (`Proofs/Filter.lean`).
Core-only.
-/
import Biogo.Model.Filter
import Biogo.Spec.Filter
import Biogo.Proofs.Kmer
import Biogo.Proofs.KmerIndex
import Biogo.Proofs.Filter
import Biogo.Proofs.FilterRun

set_option linter.unusedSimpArgs false
set_option linter.unusedVariables false

namespace Biogo.Proofs.FilterComplete
open Biogo.Filter Biogo.Kmer Biogo.Spec.Kmer Biogo.Spec.Filter
open Biogo.Proofs.Kmer Biogo.Proofs.KmerIndex Biogo.Proofs.Filter Biogo.Proofs.FilterRun

/-! ### the callbacks of a query without invalid letters -/

def AllValid (lk : Lookup) (s : List UInt8) : Prop := ∀ b ∈ s, (lk b).isSome = true

theorem digits_of_valid (lk : Lookup) (l : List UInt8) (h : AllValid lk l) : ∃ ds, digits lk l = some ds := by
  induction l with
  | nil => exact ⟨[], rfl⟩
  | cons b bs ih =>
    obtain ⟨ds, hds⟩ := ih (fun x hx => h x (by simp [hx]))
    have hb := h b (by simp)
    cases hlk : lk b with
    | none => rw [hlk] at hb; simp at hb
    | some d => exact ⟨d :: ds, by simp [digits, hlk, hds]⟩

theorem wordOf_of_valid (lk : Lookup) (k : Nat) (l : List UInt8) (h : AllValid lk l) (hk : k ≤ l.length) :
    ∃ w, wordOf lk k l = some w := by
  obtain ⟨ds, hds⟩ := digits_of_valid lk (l.take k) (fun x hx => h x (List.mem_of_mem_take hx))
  refine ⟨encode ds, ?_⟩
  unfold wordOf
  have : (l.take k).length = k := by rw [List.length_take]; omega
  simp [this, hds]

/-- the word at query position `p` (0 when there is none) -/
def wordFn (lk : Lookup) (k : Nat) (s : List UInt8) (p : Nat) : Nat := (wordAt lk k s p).getD 0

theorem wordsFrom_of_valid (lk : Lookup) (k : Nat) (hk : 1 ≤ k) (l : List UInt8) (p : Nat) (h : AllValid lk l) :
    wordsFrom lk k l p =
      (List.range (l.length + 1 - k)).map fun j => (p + j, (wordOf lk k (l.drop j)).getD 0) := by
  induction l generalizing p with
  | nil => simp [wordsFrom]; omega
  | cons b bs ih =>
    by_cases hshort : (b :: bs).length < k
    · rw [wordsFrom_short lk k _ p hshort]
      have : (b :: bs).length + 1 - k = 0 := by omega
      rw [this]; rfl
    · obtain ⟨w, hw⟩ := wordOf_of_valid lk k (b :: bs) h (by omega)
      rw [wordsFrom, hw]
      simp only []
      rw [ih (p + 1) (fun x hx => h x (by simp [hx]))]
      have hlen : (b :: bs).length + 1 - k = (bs.length + 1 - k) + 1 := by simp at hshort ⊢; omega
      rw [hlen, List.range_succ_eq_map, List.map_cons, List.map_map]
      congr 1
      · simp [hw]
      · apply List.map_congr_left
        intro j _
        simp only [Function.comp, List.drop_succ_cons]
        congr 1; omega

theorem query_calls {lk : Lookup} (hlk : FourLetter lk) (k : Nat) (hk : 1 ≤ k) (hk2 : 2 * k ≤ wordBits)
    (q : List UInt8) (h : AllValid lk q) :
    (forEachKmer lk k q 0 q.length).calls = (List.range (q.length + 1 - k)).map fun p => (p, wordFn lk k q p) := by
  rw [forEachKmer_calls hlk k hk hk2, validWindows_full hlk]
  unfold allWindows
  rw [wordsFrom_of_valid lk k hk q 0 h]
  apply List.map_congr_left
  intro j _
  simp [wordFn, wordAt]

/-! ### the callbacks of any query: one for every position that has a word -/

theorem wordsFrom_eq_filterMap (lk : Lookup) (k : Nat) (hk : 1 ≤ k) (l : List UInt8) (p : Nat) :
    wordsFrom lk k l p =
      (List.range (l.length + 1 - k)).filterMap fun j => (wordOf lk k (l.drop j)).map fun w => (p + j, w) := by
  induction l generalizing p with
  | nil =>
    have : ([] : List UInt8).length + 1 - k = 0 := by simp; omega
    rw [this]; rfl
  | cons b bs ih =>
    by_cases hshort : (b :: bs).length < k
    · rw [wordsFrom_short lk k _ p hshort]
      have : (b :: bs).length + 1 - k = 0 := by omega
      rw [this]; rfl
    · have hlen : (b :: bs).length + 1 - k = (bs.length + 1 - k) + 1 := by simp at hshort ⊢; omega
      rw [hlen, List.range_succ_eq_map, List.filterMap_cons, List.filterMap_map, wordsFrom, ih (p + 1)]
      have htail : (List.range (bs.length + 1 - k)).filterMap (fun j => (wordOf lk k (bs.drop j)).map fun w => (p + 1 + j, w))
          = (List.range (bs.length + 1 - k)).filterMap
              ((fun j => (wordOf lk k ((b :: bs).drop j)).map fun w => (p + j, w)) ∘ Nat.succ) := by
        apply filterMap_congr'
        intro j _
        simp only [Function.comp, List.drop_succ_cons]
        congr 1
        funext w
        congr 1
        omega
      rw [htail]
      simp only [List.drop_zero, Nat.add_zero]
      cases wordOf lk k (b :: bs) <;> rfl

theorem query_calls_any {lk : Lookup} (hlk : FourLetter lk) (k : Nat) (hk : 1 ≤ k) (hk2 : 2 * k ≤ wordBits)
    (q : List UInt8) :
    (forEachKmer lk k q 0 q.length).calls =
      (List.range (q.length + 1 - k)).filterMap fun p => (wordAt lk k q p).map fun w => (p, w) := by
  rw [forEachKmer_calls hlk k hk hk2, validWindows_full hlk]
  unfold allWindows
  rw [wordsFrom_eq_filterMap lk k hk q 0]
  apply filterMap_congr'
  intro j _
  simp [wordAt]

/-! ### the target positions the callback reads from the built index -/

theorem targetPositions_of_inv (cs : List (Nat × Nat)) (k : Nat) (ix : Index)
    (inv : PlaceInv cs cs (pow4 k) ix.finger ix.pos) (w : Nat) (hw : w < 4 ^ k) :
    targetPositions ix w = occ cs w := by
  unfold targetPositions
  simp only []
  have hj : rd ix.finger w = below cs w + cnt cs w := inv.fing w (by rw [pow4_eq]; omega)
  have hi : (if w > 0 then rd ix.finger (w - 1) else 0) = below cs w := by
    by_cases h0 : w > 0
    · rw [if_pos h0, inv.fing (w - 1) (by rw [pow4_eq]; omega), ← below_succ]
      congr 1; omega
    · rw [if_neg h0]; have : w = 0 := by omega
      rw [this, below_zero]
  rw [hi, hj, extract_bucket cs (pow4 k) ix.finger ix.pos inv w]

theorem mem_occ_iff (cs : List (Nat × Nat)) (w t : Nat) : t ∈ occ cs w ↔ (t, w) ∈ cs := by
  unfold occ
  rw [List.mem_map]
  constructor
  · rintro ⟨c, hc, rfl⟩
    rw [List.mem_filter] at hc
    have : c.2 = w := by simpa using hc.2
    rw [← this]; exact hc.1
  · intro h
    exact ⟨(t, w), by rw [List.mem_filter]; exact ⟨h, by simp⟩, rfl⟩

/-- the k-mer index of the target as `New` + `Build` produce it -/
def builtIndex (lk : Lookup) (k : Nat) (t : List UInt8) : Index :=
  build lk { k, seq := t, finger := buildTable k (forEachKmer lk k t 0 t.length).calls, pos := #[], indexed := false }

theorem builtIndex_k (lk : Lookup) (k : Nat) (t : List UInt8) : (builtIndex lk k t).k = k := rfl
theorem builtIndex_seq (lk : Lookup) (k : Nat) (t : List UInt8) : (builtIndex lk k t).seq = t := rfl

theorem mem_targetPositions {lk : Lookup} (hlk : FourLetter lk) (k : Nat) (hk1 : 1 ≤ k) (hk2 : 2 * k ≤ wordBits)
    (t : List UInt8) (hs : k ≤ t.length) (w : Nat) (hw : w < 4 ^ k) (x : Nat) :
    x ∈ targetPositions (builtIndex lk k t) w ↔ wordAt lk k t x = some w := by
  have inv := build_inv hlk k hk1 hk2 t hs
    { k, seq := t, finger := buildTable k (forEachKmer lk k t 0 t.length).calls, pos := #[], indexed := false }
    rfl rfl (new_finger hlk k hk1 hk2 t)
  unfold builtIndex
  rw [targetPositions_of_inv _ k _ inv w hw, mem_occ_iff]
  unfold allWindows
  rw [mem_wordsFrom_iff]
  simp only [Nat.sub_zero, Nat.zero_le, true_and]
  unfold wordAt
  constructor
  · exact fun h => h.2
  · intro h
    refine ⟨?_, h⟩
    have := (wordOf_some hlk k _ _ h).1
    rw [List.length_drop] at this; omega

/-! ### `filter` as the abstract run -/

/-- the target positions the scan processes at query position `pos`: those of the word there, none
    where the window holds a letter outside the alphabet (no callback) -/
def tsOf (lk : Lookup) (ix : Index) (q : List UInt8) (pos : Nat) : List Nat :=
  match wordAt lk ix.k q pos with
  | some w => targetPositions ix w
  | none => []

theorem onKmer_pos {c : Cfg} (hrule : c.rule.tickByPosition = true) (l : Loop) (p : Nat) (ts : List Nat) :
    onKmer c l p ts = kmers c (tick c l p) p ts := by
  unfold onKmer; rw [if_pos hrule]

/-- the loop over the callbacks — one for every position `< N` that has a word — followed by
    `tick(N)` is the position-by-position scan: the ticks that fall into positions without a callback
    are caught up by the next `tick` -/
theorem scan_calls {c : Cfg} (hoff : 1 ≤ c.off) (hrule : c.rule.tickByPosition = true) (W : Nat → Option Nat)
    (tp : Nat → List Nat) (l0 : Loop) (h0 : 1 ≤ l0.ticker) (N : Nat) :
    tick c (((List.range N).filterMap fun p => (W p).map fun w => (p, w)).foldl
        (fun l call => onKmer c l call.1 (tp call.2)) l0) N
      = scanN c (fun p => match W p with | some w => tp w | none => []) l0 N := by
  induction N with
  | zero =>
    rw [List.range_zero, List.filterMap_nil, List.foldl_nil, tick_done c l0 0 (by omega)]
    rfl
  | succ N ih =>
    rw [List.range_succ, List.filterMap_append, List.foldl_append, scanN_succ]
    cases hW : W N with
    | none =>
      simp only [List.filterMap_cons, hW, Option.map_none, List.filterMap_nil, List.foldl_nil]
      rw [← tick_tick c hoff N (N + 1) (by omega) _ _ (Nat.le_refl _), ih]
      rfl
    | some w =>
      simp only [List.filterMap_cons, hW, Option.map_some, List.filterMap_nil, List.foldl_cons, List.foldl_nil]
      rw [onKmer_pos hrule, ih]
      rfl

theorem filter_eq_run {lk : Lookup} (hlk : FourLetter lk) (rule : Rule) (ix : Index) (p : Params) (q : List UInt8)
    (selfAlign complement : Bool) (hrule : rule.tickByPosition = true) (hk : 1 ≤ ix.k) (hk2 : 2 * ix.k ≤ wordBits)
    (hkq : ix.k ≤ q.length) (he : p.maxError ≤ p.tubeOffset) (hoff : 1 ≤ p.tubeOffset) :
    let c := mkCfg rule ix.k ix.seq.length p selfAlign complement
    let st := runFilter c (tsOf lk ix q) (q.length - ix.k + 1) q.length
    filter rule lk ix p q selfAlign complement = if st.panic then .error .panic else .ok st.hits.reverse := by
  simp only []
  unfold filter
  rw [if_neg (by omega), if_neg (by omega)]
  unfold scanFrom
  simp only []
  rw [query_calls_any hlk ix.k hk hk2 q, forEachKmer_err lk ix.k q 0 q.length (by omega) (Nat.le_refl _)]
  simp only [Bool.false_eq_true, if_false, hrule, if_true]
  rw [scan_calls (c := mkCfg rule ix.k ix.seq.length p selfAlign complement) hoff hrule (wordAt lk ix.k q)
    (targetPositions ix) _ (by show 1 ≤ p.tubeOffset + p.maxError; omega) (q.length + 1 - ix.k)]
  rw [show q.length + 1 - ix.k = q.length - ix.k + 1 by omega]
  rfl

/-! ### the shared k-mers of a match as events of the scan -/

theorem sorted_head_le (l : List Nat) (h : l.Pairwise (· < ·)) (hne : l ≠ []) : ∀ x ∈ l, l.head hne ≤ x := by
  intro x hx
  cases l with
  | nil => exact absurd rfl hne
  | cons a as =>
    simp only [List.head_cons]
    rw [List.pairwise_cons] at h
    rcases List.mem_cons.mp hx with rfl | hx
    · exact Nat.le_refl _
    · exact Nat.le_of_lt (h.1 x hx)

theorem sorted_le_last (l : List Nat) (h : l.Pairwise (· < ·)) (hne : l ≠ []) : ∀ x ∈ l, x ≤ l.getLast hne := by
  induction l with
  | nil => exact absurd rfl hne
  | cons a as ih =>
    intro x hx
    rw [List.pairwise_cons] at h
    by_cases has : as = []
    · subst has; simp at hx; subst hx; simp
    · rw [List.getLast_cons has]
      rcases List.mem_cons.mp hx with rfl | hx
      · exact Nat.le_of_lt (h.1 _ (List.getLast_mem has))
      · exact ih h.2 has x hx

/-- the predicate of `sharedKmers` -/
def sharedAt (lk : Lookup) (k : Nat) (t q : List UInt8) (a b : Nat) (i : Nat) : Bool :=
  match wordAt lk k t (a + i), wordAt lk k q (b + i) with
  | some w, some w' => w == w'
  | _, _ => false

theorem sharedKmers_eq (lk : Lookup) (k : Nat) (t q : List UInt8) (a b n : Nat) :
    sharedKmers lk k t q a b n = (List.range (n + 1 - k)).filter (sharedAt lk k t q a b) := rfl

theorem sharedAt_words {lk : Lookup} {k : Nat} {t q : List UInt8} {a b i : Nat}
    (h : sharedAt lk k t q a b i = true) :
    ∃ w, wordAt lk k t (a + i) = some w ∧ wordAt lk k q (b + i) = some w := by
  unfold sharedAt at h
  cases hw : wordAt lk k t (a + i) with
  | none => simp [hw] at h
  | some w =>
    cases hw' : wordAt lk k q (b + i) with
    | none => simp [hw, hw'] at h
    | some w' =>
      simp only [hw, hw', beq_iff_eq] at h
      exact ⟨w, rfl, by rw [h]⟩

/-- query position `p` carries a shared k-mer of the match at `(a, b)` -/
def shPos (lk : Lookup) (k : Nat) (t q : List UInt8) (a b n : Nat) (p : Nat) : Bool :=
  decide (b ≤ p) && (decide (p - b < n + 1 - k) && sharedAt lk k t q a b (p - b))

theorem countP_range_shift (sh : Nat → Bool) (b j : Nat) (hlow : ∀ p, p < b → sh p = false) :
    (List.range (b + j)).countP sh = (List.range j).countP fun i => sh (b + i) := by
  induction j with
  | zero =>
    rw [Nat.add_zero, List.range_zero, List.countP_nil, List.countP_eq_zero]
    intro p hp; rw [List.mem_range] at hp; rw [hlow p hp]; simp
  | succ j ih =>
    rw [← Nat.add_assoc, List.range_succ, List.countP_append, ih, List.range_succ, List.countP_append]
    simp

theorem countP_const_after (S : Nat → Bool) (i₁ M : Nat) (h1 : i₁ < M)
    (hno : ∀ x, i₁ < x → x < M → S x = false) :
    (List.range M).countP S = (List.range (i₁ + 1)).countP S := by
  induction M with
  | zero => omega
  | succ M ih =>
    by_cases hM : M = i₁
    · rw [hM]
    · rw [List.range_succ, List.countP_append, ih (by omega) (fun x hx1 hx2 => hno x hx1 (by omega)),
        List.countP_singleton, hno M (by omega) (by omega)]
      simp

theorem sharedKmers_sorted (lk : Lookup) (k : Nat) (t q : List UInt8) (a b n : Nat) :
    (sharedKmers lk k t q a b n).Pairwise (· < ·) := by
  rw [sharedKmers_eq]; exact List.pairwise_lt_range.filter _

theorem mem_sharedKmers (lk : Lookup) (k : Nat) (t q : List UInt8) (a b n i : Nat) :
    i ∈ sharedKmers lk k t q a b n ↔ i < n + 1 - k ∧ sharedAt lk k t q a b i = true := by
  rw [sharedKmers_eq, List.mem_filter, List.mem_range]

theorem match_shared (lk : Lookup) (k : Nat) (t q : List UInt8) (a b n : Nat)
    (hne : sharedKmers lk k t q a b n ≠ []) :
    Shared (shPos lk k t q a b n) (b + (sharedKmers lk k t q a b n).head hne)
      (b + (sharedKmers lk k t q a b n).getLast hne) (sharedKmers lk k t q a b n).length := by
  have hsorted := sharedKmers_sorted lk k t q a b n
  have hhead := (mem_sharedKmers lk k t q a b n _).mp (List.head_mem hne)
  have hlast := (mem_sharedKmers lk k t q a b n _).mp (List.getLast_mem hne)
  constructor
  · intro p hp
    unfold shPos at hp
    simp only [Bool.and_eq_true, decide_eq_true_eq] at hp
    obtain ⟨h1, h2, h3⟩ := hp
    have hmem : p - b ∈ sharedKmers lk k t q a b n := (mem_sharedKmers lk k t q a b n _).mpr ⟨h2, h3⟩
    have := sorted_head_le _ hsorted hne _ hmem
    have := sorted_le_last _ hsorted hne _ hmem
    omega
  · unfold shPos
    simp only [Nat.le_add_right, decide_true, Bool.true_and, Nat.add_sub_cancel_left]
    simp [hhead.1, hhead.2]
  · unfold shPos
    simp only [Nat.le_add_right, decide_true, Bool.true_and, Nat.add_sub_cancel_left]
    simp [hlast.1, hlast.2]
  · unfold R
    rw [Nat.add_assoc, countP_range_shift _ b _ (by
      intro p hp; unfold shPos
      have : ¬ b ≤ p := by omega
      simp [this])]
    have hfun : (fun i => shPos lk k t q a b n (b + i)) =
        fun i => decide (i < n + 1 - k) && sharedAt lk k t q a b i := by
      funext i; unfold shPos; simp
    rw [hfun, countP_range_lt, Nat.min_eq_right (by omega)]
    rw [← countP_const_after (sharedAt lk k t q a b) _ (n + 1 - k) hlast.1 (by
      intro x hx1 hx2
      apply Classical.byContradiction; intro hS
      have hmem : x ∈ sharedKmers lk k t q a b n :=
        (mem_sharedKmers lk k t q a b n _).mpr ⟨hx2, by simpa using hS⟩
      have := sorted_le_last _ hsorted hne _ hmem
      omega)]
    rw [sharedKmers_eq, List.countP_eq_length_filter]

/-! ### completeness of `filter` -/

def repaired : Rule := { retireSubMaxError := true, flushFromLastTick := true, tickByPosition := true }

/-- a model hit as the spec reads it -/
def toSpec (h : Biogo.Filter.Hit) : Biogo.Spec.Filter.Hit := { from_ := h.from_, to := h.to, diagonal := h.diagonal }

theorem wordFn_lt {lk : Lookup} (hlk : FourLetter lk) (k : Nat) (q : List UInt8) (p : Nat) : wordFn lk k q p < 4 ^ k := by
  unfold wordFn
  cases h : wordAt lk k q p with
  | none => exact four_pow_pos k
  | some w => exact (wordOf_some hlk k _ _ h).2

theorem match_events {lk : Lookup} (hlk : FourLetter lk) (k : Nat) (hk1 : 1 ≤ k) (hk2 : 2 * k ≤ wordBits)
    (t q : List UInt8) (ht : k ≤ t.length) (p : Params) (selfAlign complement : Bool) (a b n : Nat)
    (hoff : 1 ≤ p.tubeOffset) (han : a + n ≤ t.length)
    (hreq : requiredC selfAlign complement t.length a b = true) :
    Events (mkCfg repaired k t.length p selfAlign complement) ((t.length - a + b) / p.tubeOffset)
      (shPos lk k t q a b n) (fun pos => a + (pos - b))
      (tsOf lk (builtIndex lk k t) q) := by
  constructor
  · intro pos x hx
    unfold tsOf at hx
    rw [builtIndex_k] at hx
    cases hwq : wordAt lk k q pos with
    | none => rw [hwq] at hx; cases hx
    | some wq =>
      rw [hwq] at hx
      simp only [] at hx
      rw [mem_targetPositions hlk k hk1 hk2 t ht _ (wordOf_some hlk k _ _ hwq).2] at hx
      have := (wordOf_some hlk k _ _ hx).1
      rw [List.length_drop] at this
      show x < t.length
      omega
  · intro pos hsh
    unfold shPos at hsh
    simp only [Bool.and_eq_true, decide_eq_true_eq] at hsh
    obtain ⟨h1, h2, h3⟩ := hsh
    obtain ⟨w, hw1, hw2⟩ := sharedAt_words h3
    rw [show b + (pos - b) = pos by omega] at hw2
    show a + (pos - b) ∈ tsOf lk (builtIndex lk k t) q pos
    unfold tsOf
    rw [builtIndex_k, hw2]
    simp only []
    rw [mem_targetPositions hlk k hk1 hk2 t ht w (wordOf_some hlk k _ _ hw1).2]
    exact hw1
  · intro pos hsh
    unfold shPos at hsh
    simp only [Bool.and_eq_true, decide_eq_true_eq] at hsh
    unfold selfCut mkCfg
    simp only []
    cases selfAlign with
    | false => rfl
    | true =>
      unfold requiredC at hreq
      simp only [Bool.not_true, Bool.false_or] at hreq
      cases complement with
      | false =>
        simp only [Bool.false_eq_true, if_false, decide_eq_true_eq] at hreq
        simp only [Bool.true_and, Bool.false_and, Bool.false_or, Bool.not_false, decide_eq_false_iff_not]
        omega
      | true =>
        simp only [if_true, decide_eq_true_eq] at hreq
        simp only [Bool.true_and, Bool.not_true, Bool.false_and, Bool.or_false, decide_eq_false_iff_not]
        omega
  · intro pos hsh
    unfold shPos at hsh
    simp only [Bool.and_eq_true, decide_eq_true_eq] at hsh
    unfold tubeIndex diagIndex mkCfg
    simp only []
    congr 1
    omega

theorem thr_pos_imp {n k e : Nat} (h : 0 < minWordsPerFilterHit n k e) (hk : 1 ≤ k) :
    k * (e + 1) ≤ n ∧ e + 1 ≤ n ∧ k ≤ n := by
  unfold minWordsPerFilterHit at h
  have h1 : ((k * (e + 1) : Nat) : Int) = (k : Int) * ((e : Int) + 1) := by simp
  have h2 : e + 1 ≤ k * (e + 1) := Nat.le_mul_of_pos_left _ hk
  have h3 : k ≤ k * (e + 1) := Nat.le_mul_of_pos_right _ (by omega)
  omega

/-- Completeness of the repaired filter, either strand, any query (letters outside the alphabet
    allowed; they count as mismatches in `EpsMatch`): every ε-match required on the strand
    (`requiredC`) is covered by a hit of `filter`. -/
theorem filter_complete_aux {lk : Lookup} (hlk : FourLetter lk) (t q : List UInt8) (k n e off : Nat)
    (selfAlign complement : Bool) (hk2' : 2 ≤ k) (hk2 : 2 * k ≤ wordBits) (ht : k ≤ t.length)
    (hthr : 0 < minWordsPerFilterHit n k e) (he : e ≤ off) (hoff : 1 ≤ off)
    (a b : Nat) (hm : EpsMatch lk t q n e a b) (hreq : requiredC selfAlign complement t.length a b = true) :
    ∃ hits, filter repaired lk (builtIndex lk k t) { minMatch := n, maxError := e, tubeOffset := off } q selfAlign complement
        = .ok hits ∧
      Covered (hits.map toSpec) (off + e) n a b := by
  have hk1 : 1 ≤ k := by omega
  obtain ⟨han, hbn, hmm⟩ := hm
  obtain ⟨hn1, hn2, hn3⟩ := thr_pos_imp hthr hk1
  -- the shared k-mers
  have hbound := sharedKmers_bound lk k hk1 t q a b n e hmm
  have hlen : minWordsPerFilterHit n k e ≤ ((sharedKmers lk k t q a b n).length : Int) := by
    unfold minWordsPerFilterHit
    have h2 : ((k * (e + 1) : Nat) : Int) = (k : Int) * ((e : Int) + 1) := by simp
    omega
  have hne : sharedKmers lk k t q a b n ≠ [] := by
    intro h0; rw [h0] at hlen; simp at hlen; omega
  have hhead := (mem_sharedKmers lk k t q a b n _).mp (List.head_mem hne)
  have hlast := (mem_sharedKmers lk k t q a b n _).mp (List.getLast_mem hne)
  have hsorted := sharedKmers_sorted lk k t q a b n
  have hhl := sorted_head_le _ hsorted hne _ (List.getLast_mem hne)
  -- the configuration
  let p : Params := { minMatch := n, maxError := e, tubeOffset := off }
  have hw : WF (mkCfg repaired k t.length p selfAlign complement) :=
    ⟨hoff, he, rfl, rfl⟩
  have hshared := match_shared lk k t q a b n hne
  have hevents := match_events hlk k hk1 hk2 t q ht p selfAlign complement a b n hoff han hreq
  -- the run
  have hdm := Nat.div_add_mod (t.length - a + b) off
  have hml := Nat.mod_lt (t.length - a + b) hoff
  have hdiv1 : (t.length - a + b) / off * off ≤ t.length - a + b := Nat.div_mul_le_self _ _
  have hdiv2 := lt_succ_div_mul (t.length - a + b) off hoff
  have hrun := run_complete hw ((t.length - a + b) / off) (b + (sharedKmers lk k t q a b n).head hne)
    (b + (sharedKmers lk k t q a b n).getLast hne) (sharedKmers lk k t q a b n).length
    (shPos lk k t q a b n) (fun pos => a + (pos - b))
    (tsOf lk (builtIndex lk k t) q) q.length
    hk2' ht (by show k ≤ q.length; omega) (by show e + 1 ≤ q.length; omega) hshared hevents
    (by show ((sharedKmers lk k t q a b n).length : Int) ≥ minWordsPerFilterHit n k e; omega)
    (by have : (sharedKmers lk k t q a b n).length ≠ 0 := fun h => hne (List.eq_nil_of_length_eq_zero h); omega)
    (by show ((b + (sharedKmers lk k t q a b n).getLast hne : Nat) : Int) - ((b + (sharedKmers lk k t q a b n).head hne : Nat) : Int)
            ≤ (n : Int) - k
        omega)
    (by show (t.length - a + b) / off * off ≤ t.length + (b + (sharedKmers lk k t q a b n).head hne); omega)
    (by show b + (sharedKmers lk k t q a b n).getLast hne ≤ ((t.length - a + b) / off + 1) * off + e - 1; omega)
    (by show b + (sharedKmers lk k t q a b n).getLast hne + k ≤ q.length; omega)
  obtain ⟨hpanic0, x, hx0, hxd, hxf, hxt⟩ := hrun
  have hpanic : (runFilter (mkCfg repaired k t.length p selfAlign complement)
      (tsOf lk (builtIndex lk k t) q) (q.length - k + 1) q.length).panic = false := hpanic0
  have hx : x ∈ (runFilter (mkCfg repaired k t.length p selfAlign complement)
      (tsOf lk (builtIndex lk k t) q) (q.length - k + 1) q.length).hits := hx0
  -- `filter` is that run
  have heq : filter repaired lk (builtIndex lk k t) p q selfAlign complement =
      if (runFilter (mkCfg repaired k t.length p selfAlign complement)
            (tsOf lk (builtIndex lk k t) q) (q.length - k + 1) q.length).panic
      then .error .panic
      else .ok (runFilter (mkCfg repaired k t.length p selfAlign complement)
            (tsOf lk (builtIndex lk k t) q) (q.length - k + 1) q.length).hits.reverse :=
    filter_eq_run hlk repaired (builtIndex lk k t) p q selfAlign complement rfl hk1 hk2
      (by show k ≤ q.length; omega) he hoff
  rw [hpanic] at heq
  simp only [Bool.false_eq_true, if_false] at heq
  refine ⟨_, heq, toSpec x, List.mem_map.mpr ⟨x, List.mem_reverse.mpr hx, rfl⟩, ?_⟩
  -- the hit covers the match
  unfold covers toSpec
  simp only [Bool.and_eq_true, decide_eq_true_eq]
  have hd' : x.diagonal = (t.length : Int) - ((((t.length - a + b) / off * off : Nat)) : Int) := by
    have h0 : x.diagonal = (t.length : Int) - (((t.length - a + b) / off : Nat) : Int) * (off : Int) := hxd
    rw [h0]; simp
  rw [Nat.add_mul, Nat.one_mul] at hdiv2
  have hxf' : x.from_ ≤ ((b + (sharedKmers lk k t q a b n).head hne : Nat) : Int) := hxf
  have hxt' : ((b + (sharedKmers lk k t q a b n).getLast hne : Nat) : Int) + (k : Int) ≤ x.to := hxt
  clear hdm hml hxd hxf hxt hevents hshared hw heq hx hx0 hpanic hpanic0
  generalize (t.length - a + b) / off * off = P at hdiv1 hdiv2 hd'
  refine ⟨⟨⟨?_, ?_⟩, ?_⟩, ?_⟩ <;> omega

/-! ### the ticker repair changes nothing on a query over the alphabet -/

/-- the same configuration with the other ticker -/
def withTicker (c : Cfg) (b : Bool) : Cfg := { c with rule := { c.rule with tickByPosition := b } }

theorem tickLoop_wt (c : Cfg) (b : Bool) (passed : Nat) : ∀ (fuel : Nat) (st : St) (ticker : Nat),
    tickLoop (withTicker c b) passed fuel st ticker = tickLoop c passed fuel st ticker := by
  intro fuel
  induction fuel with
  | zero => intro st ticker; rfl
  | succ n ih =>
    intro st ticker
    rw [tickLoop, tickLoop]
    by_cases h : ticker ≤ passed
    · rw [if_pos h, if_pos h]; exact ih _ _
    · rw [if_neg h, if_neg h]

theorem flushLoop_wt (c : Cfg) (b : Bool) : ∀ (n ti : Nat) (s : St),
    flushLoop (withTicker c b) n ti s = flushLoop c n ti s := by
  intro n
  induction n with
  | zero => intro ti s; rfl
  | succ n ih => intro ti s; rw [flushLoop, flushLoop]; exact ih _ _

theorem stepPos_wt (c : Cfg) (b : Bool) (l : Loop) (p : Nat) (ts : List Nat) :
    stepPos (withTicker c b) l p ts = stepPos c l p ts := by
  unfold stepPos tick
  rw [tickLoop_wt]
  rfl

theorem scanN_wt (c : Cfg) (b : Bool) (ts : Nat → List Nat) (l0 : Loop) (N : Nat) :
    scanN (withTicker c b) ts l0 N = scanN c ts l0 N := by
  induction N with
  | zero => rfl
  | succ N ih => rw [scanN_succ, scanN_succ, ih, stepPos_wt]

theorem scanN_congr (c : Cfg) (ts ts' : Nat → List Nat) (l0 : Loop) (N : Nat) (h : ∀ p, p < N → ts p = ts' p) :
    scanN c ts l0 N = scanN c ts' l0 N := by
  induction N with
  | zero => rfl
  | succ N ih => rw [scanN_succ, scanN_succ, ih (fun p hp => h p (by omega)), h N (by omega)]

theorem foldl_calls_count (c : Cfg) (ix : Index) (W : Nat → Nat) (N : Nat) (l0 : Loop) :
    ((List.range N).map fun p => (p, W p)).foldl (fun l call => onKmerCount c l call.1 (targetPositions ix call.2)) l0
      = scanCount c (fun p => targetPositions ix (W p)) l0 N := by
  unfold scanCount
  rw [List.foldl_map, List.foldl_map]

/-- on a query over the alphabet the code of the first wave (callback-counting ticker) and the
    repaired code (ticker on the query position) compute the same `Filter` result -/
theorem filter_countdown_eq {lk : Lookup} (hlk : FourLetter lk) (rule : Rule) (hrule : rule.tickByPosition = true)
    (ix : Index) (p : Params) (q : List UInt8) (selfAlign complement : Bool)
    (hk : 1 ≤ ix.k) (hk2 : 2 * ix.k ≤ wordBits) (hq : AllValid lk q) (hkq : ix.k ≤ q.length)
    (he : p.maxError ≤ p.tubeOffset) (hoff : 1 ≤ p.tubeOffset) :
    filter { rule with tickByPosition := false } lk ix p q selfAlign complement =
      filter rule lk ix p q selfAlign complement := by
  have hnew := filter_eq_run hlk rule ix p q selfAlign complement hrule hk hk2 hkq he hoff
  simp only [] at hnew
  rw [hnew]
  unfold filter
  rw [if_neg (by omega), if_neg (by omega)]
  unfold scanFrom
  simp only []
  rw [query_calls hlk ix.k hk hk2 q hq, forEachKmer_err lk ix.k q 0 q.length (by omega) (Nat.le_refl _)]
  simp only [Bool.false_eq_true, if_false]
  have hc : mkCfg { rule with tickByPosition := false } ix.k ix.seq.length p selfAlign complement
      = withTicker (mkCfg rule ix.k ix.seq.length p selfAlign complement) false := rfl
  rw [hc]
  have hfold : ∀ (l0 : Loop) (cs : List (Nat × Nat)),
      cs.foldl (fun l call => onKmer (withTicker (mkCfg rule ix.k ix.seq.length p selfAlign complement) false) l call.1
        (targetPositions ix call.2)) l0 =
      cs.foldl (fun l call => onKmerCount (withTicker (mkCfg rule ix.k ix.seq.length p selfAlign complement) false) l call.1
        (targetPositions ix call.2)) l0 := by
    intro l0 cs
    congr 1
  rw [hfold, foldl_calls_count]
  have hoff' : 1 ≤ (withTicker (mkCfg rule ix.k ix.seq.length p selfAlign complement) false).off := hoff
  have heq := scanCount_eq (withTicker (mkCfg rule ix.k ix.seq.length p selfAlign complement) false) hoff'
    (fun pos => targetPositions ix (wordFn lk ix.k q pos))
    { st := { tubes := Array.replicate (withTicker (mkCfg rule ix.k ix.seq.length p selfAlign complement) false).cap default, hits := [] },
      ticker := p.tubeOffset + p.maxError } (by show 1 ≤ p.tubeOffset + p.maxError; omega) (q.length + 1 - ix.k)
  have hvalid : ∀ pos, pos < q.length + 1 - ix.k →
      (fun pos => targetPositions ix (wordFn lk ix.k q pos)) pos = tsOf lk ix q pos := by
    intro pos hpos
    obtain ⟨w, hw⟩ := wordOf_of_valid lk ix.k (q.drop pos) (fun x hx => hq x (List.mem_of_mem_drop hx))
      (by rw [List.length_drop]; omega)
    show targetPositions ix (wordFn lk ix.k q pos) = tsOf lk ix q pos
    unfold tsOf wordFn wordAt
    rw [hw]
    rfl
  rw [scanN_wt, scanN_congr _ _ _ _ _ hvalid] at heq
  show (if (flushLoop _ _ _ (tubeEnd _ (scanCount _ _ _ _).st _)).panic = true then _ else _) = _
  rw [heq.1, show q.length + 1 - ix.k = q.length - ix.k + 1 by omega]
  simp only [flushLoop_wt]
  rfl

end Biogo.Proofs.FilterComplete
