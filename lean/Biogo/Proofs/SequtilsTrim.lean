/-
Kadane invariant for the modified-Mott running sum of `sequtils.Trim` (core only).
-/
import Biogo.Model.Sequtils

namespace Biogo.Sequtils

/-- prefix sum up to position `p` of a feature starting at `s0` -/
def pref (vs : List Int) (s0 p : Int) : Int := (vs.take (p - s0).toNat).sum

theorem sum_take_drop (l : List Int) : ∀ a m : Nat,
    ((l.drop a).take m).sum = (l.take (a + m)).sum - (l.take a).sum := by
  induction l with
  | nil => intro a m; simp
  | cons x xs ih =>
    intro a m
    cases a with
    | zero => simp
    | succ a =>
      have := ih a m
      simp only [List.drop_succ_cons, Nat.succ_add, List.take_succ_cons, List.sum_cons]
      omega

theorem windowSum_eq (vs : List Int) (s0 i j : Int) (h1 : s0 ≤ i) (h2 : i ≤ j) :
    windowSum vs s0 i j = pref vs s0 j - pref vs s0 i := by
  unfold windowSum pref
  rw [sum_take_drop]
  have : (i - s0).toNat + (j - i).toNat = (j - s0).toNat := by omega
  rw [this]

theorem pref_self (vs : List Int) (s0 : Int) : pref vs s0 s0 = 0 := by
  simp [pref]

theorem pref_step (pre rest : List Int) (v s0 : Int) :
    pref (pre ++ v :: rest) s0 (s0 + pre.length + 1) = pref (pre ++ v :: rest) s0 (s0 + pre.length) + v := by
  unfold pref
  have h1 : (s0 + pre.length + 1 - s0).toNat = pre.length + 1 := by omega
  have h2 : (s0 + pre.length - s0).toNat = pre.length := by omega
  rw [h1, h2]
  have e : pre ++ v :: rest = (pre ++ [v]) ++ rest := by simp
  have l1 : (pre ++ [v]).length = pre.length + 1 := by simp
  rw [List.take_left' (l₁ := pre) rfl]
  rw [e, List.take_left' (l₁ := pre ++ [v]) l1]
  simp

structure TrimInv (vs : List Int) (s0 : Int) (st : TrimSt Int) (i : Int) : Prop where
  cand_lo : s0 ≤ st.cand
  cand_hi : st.cand ≤ i
  sum_eq : st.sum = pref vs s0 i - pref vs s0 st.cand
  sum_max : ∀ a, s0 ≤ a → a ≤ i → pref vs s0 i - pref vs s0 a ≤ st.sum
  start_lo : s0 ≤ st.start
  start_stop : st.start ≤ st.stop
  stop_hi : st.stop ≤ i
  best_eq : st.best = pref vs s0 st.stop - pref vs s0 st.start
  best_max : ∀ a b, s0 ≤ a → a ≤ b → b ≤ i → pref vs s0 b - pref vs s0 a ≤ st.best

theorem trimStep_inv (vs : List Int) (s0 : Int) (st : TrimSt Int) (i v : Int)
    (inv : TrimInv vs s0 st i) (hi : s0 ≤ i)
    (hp : pref vs s0 (i + 1) = pref vs s0 i + v) :
    TrimInv vs s0 (trimStep st i v) (i + 1) := by
  obtain ⟨c1, c2, se, sm, s1, s2, s3, be, bm⟩ := inv
  have smax : ∀ a, s0 ≤ a → a ≤ i + 1 →
      pref vs s0 (i + 1) - pref vs s0 a ≤ (if st.sum + v < 0 then 0 else st.sum + v) := by
    intro a ha1 ha2
    by_cases h : a ≤ i
    · have := sm a ha1 h
      split <;> omega
    · have : a = i + 1 := by omega
      subst this
      split <;> omega
  unfold trimStep
  simp only
  by_cases hneg : st.sum + v < 0
  · simp only [hneg, if_true]
    by_cases hb : st.best ≤ 0
    · simp only [hb, if_true]
      simp only [hneg, if_true] at smax
      refine ⟨by (dsimp only; omega), by (dsimp only; omega), by (dsimp only; omega), (by dsimp only; exact smax), by (dsimp only; omega), by (dsimp only; omega), by (dsimp only; omega), by (dsimp only; omega), ?_⟩
      dsimp only
      intro a b h1 h2 h3
      by_cases h : b ≤ i
      · have := bm a b h1 h2 h; omega
      · have : b = i + 1 := by omega
        subst this
        exact smax a h1 h2
    · simp only [hb, if_false]
      simp only [hneg, if_true] at smax
      refine ⟨by (dsimp only; omega), by (dsimp only; omega), by (dsimp only; omega), (by dsimp only; exact smax), (by dsimp only; exact s1), (by dsimp only; exact s2), by (dsimp only; omega), (by dsimp only; exact be), ?_⟩
      dsimp only
      intro a b h1 h2 h3
      by_cases h : b ≤ i
      · exact bm a b h1 h2 h
      · have : b = i + 1 := by omega
        subst this
        have := smax a h1 h2
        omega
  · simp only [hneg, if_false]
    simp only [hneg, if_false] at smax
    by_cases hb : st.best ≤ st.sum + v
    · simp only [hb, if_true]
      refine ⟨(by dsimp only; exact c1), by (dsimp only; omega), by (dsimp only; omega), (by dsimp only; exact smax), (by dsimp only; exact c1), by (dsimp only; omega), by (dsimp only; omega), by (dsimp only; omega), ?_⟩
      dsimp only
      intro a b h1 h2 h3
      by_cases h : b ≤ i
      · have := bm a b h1 h2 h; omega
      · have : b = i + 1 := by omega
        subst this
        exact smax a h1 h2
    · simp only [hb, if_false]
      refine ⟨(by dsimp only; exact c1), by (dsimp only; omega), by (dsimp only; omega), (by dsimp only; exact smax), (by dsimp only; exact s1), (by dsimp only; exact s2), by (dsimp only; omega), (by dsimp only; exact be), ?_⟩
      dsimp only
      intro a b h1 h2 h3
      by_cases h : b ≤ i
      · exact bm a b h1 h2 h
      · have : b = i + 1 := by omega
        subst this
        have := smax a h1 h2
        omega

theorem trimFrom_inv (vs : List Int) (s0 : Int) : ∀ (rest pre : List Int) (st : TrimSt Int),
    vs = pre ++ rest → TrimInv vs s0 st (s0 + pre.length) →
    TrimInv vs s0 (trimFrom st (s0 + pre.length) rest) (s0 + vs.length) := by
  intro rest
  induction rest with
  | nil =>
    intro pre st h inv
    subst h
    simpa [trimFrom] using inv
  | cons v rest ih =>
    intro pre st h inv
    have hp := pref_step pre rest v s0
    rw [← h] at hp
    have inv' := trimStep_inv vs s0 st (s0 + pre.length) v inv (by omega) hp
    have h' : vs = (pre ++ [v]) ++ rest := by simp [h]
    have := ih (pre ++ [v]) (trimStep st (s0 + pre.length) v) h'
    simp only [List.length_append, List.length_singleton, Int.natCast_add, Int.natCast_one, ← Int.add_assoc] at this
    exact this inv'

theorem trim_inv (vs : List Int) (s0 : Int) :
    TrimInv vs s0 (trimFrom { sum := 0, best := 0, cand := s0, start := s0, stop := s0 } s0 vs) (s0 + vs.length) := by
  have h := trimFrom_inv vs s0 vs [] { sum := 0, best := 0, cand := s0, start := s0, stop := s0 } rfl
  simp only [List.length_nil, Int.natCast_zero, Int.add_zero] at h
  apply h
  refine ⟨by simp, by simp, by simp, ?_, by simp, by simp, by simp, by simp, ?_⟩
  · intro a h1 h2
    have : a = s0 := by omega
    subst this; simp
  · intro a b h1 h2 h3
    have : a = s0 := by omega
    have : b = s0 := by omega
    subst_vars; simp

end Biogo.Sequtils
