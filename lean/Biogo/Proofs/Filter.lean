/-
Helper lemmas for C14: the q-gram lemma (Ukkonen) for substitution-only matches.  Core-only.
-/
import Biogo.Spec.Kmer
import Biogo.Spec.Filter
import Biogo.Proofs.Kmer

set_option linter.unusedSimpArgs false

namespace Biogo.Proofs.Filter
open Biogo.Spec.Kmer Biogo.Spec.Filter Biogo.Proofs.Kmer

/-! ### combinatorial core: clean windows in a list of mismatch flags -/

/-- length of the leading run of `false` -/
def lead : List Bool → Nat
  | false :: ms => lead ms + 1
  | _ => 0

/-- number of positions at which a window of `k` flags, all `false`, starts -/
def cleanStarts (k : Nat) : List Bool → Nat
  | [] => 0
  | m :: ms => (if lead (m :: ms) ≥ k then 1 else 0) + cleanStarts k ms

/-- every mismatch destroys at most `k` of the `|ms| - k + 1` windows -/
theorem cleanStarts_bound (k : Nat) (hk : 1 ≤ k) (ms : List Bool) :
    cleanStarts k ms + k * ms.countP id + min (lead ms) (k - 1) ≥ ms.length := by
  induction ms with
  | nil => simp [cleanStarts]
  | cons m ms ih =>
    cases m with
    | true =>
      have hl : lead (true :: ms) = 0 := rfl
      have hc : (true :: ms).countP id = ms.countP id + 1 := by rw [List.countP_cons]; rfl
      rw [cleanStarts, if_neg (by rw [hl]; omega), hl, hc, Nat.mul_add, List.length_cons]
      omega
    | false =>
      have hl : lead (false :: ms) = lead ms + 1 := rfl
      have hc : (false :: ms).countP id = ms.countP id := by rw [List.countP_cons]; simp
      rw [cleanStarts, hc, List.length_cons]
      by_cases h : lead (false :: ms) ≥ k
      · rw [if_pos h]; rw [hl] at h ⊢; omega
      · rw [if_neg h]; rw [hl] at h ⊢; omega

theorem lead_le_length (ms : List Bool) : lead ms ≤ ms.length := by
  induction ms with
  | nil => simp [lead]
  | cons m ms ih => cases m <;> simp [lead]; omega

/-- `cleanStarts` as a count over start positions -/
theorem cleanStarts_eq (k : Nat) (ms : List Bool) :
    cleanStarts k ms = (List.range ms.length).countP fun i => decide (lead (ms.drop i) ≥ k) := by
  induction ms with
  | nil => simp [cleanStarts]
  | cons m ms ih =>
    rw [cleanStarts, ih, List.length_cons, List.range_succ_eq_map, List.countP_cons, List.countP_map]
    simp only [List.drop_zero, decide_eq_true_eq]
    have : ((fun i => decide (lead (List.drop i (m :: ms)) ≥ k)) ∘ Nat.succ)
        = fun i => decide (lead (ms.drop i) ≥ k) := by
      funext i; simp
    rw [this]; omega

theorem countP_range_lt (S : Nat → Bool) (m n : Nat) :
    (List.range n).countP (fun i => decide (i < m) && S i) = (List.range (min m n)).countP S := by
  induction n with
  | zero => simp
  | succ n ih =>
    rw [List.range_succ, List.countP_append, ih, List.countP_singleton]
    by_cases h : n < m
    · rw [Nat.min_eq_right (by omega), Nat.min_eq_right (by omega), List.range_succ, List.countP_append,
        List.countP_singleton]
      simp [h]
    · rw [Nat.min_eq_left (by omega), Nat.min_eq_left (by omega)]
      simp [h]

/-! ### from clean windows to shared k-mers -/

theorem flagsFrom_length (lk : Lookup) (t q : List UInt8) (a b n : Nat) :
    (flagsFrom lk t q a b n).length = n := by
  induction n generalizing a b with
  | zero => rfl
  | succ n ih => simp [flagsFrom, ih]

theorem drop_flagsFrom (lk : Lookup) (t q : List UInt8) (a b n i : Nat) :
    (flagsFrom lk t q a b n).drop i = flagsFrom lk t q (a + i) (b + i) (n - i) := by
  induction i generalizing a b n with
  | zero => simp
  | succ i ih =>
    cases n with
    | zero => simp [flagsFrom]
    | succ n =>
      rw [flagsFrom, List.drop_succ_cons, ih]
      congr 1 <;> omega

theorem lead_flagsFrom (lk : Lookup) (t q : List UInt8) (k a b m : Nat)
    (h : lead (flagsFrom lk t q a b m) ≥ k) :
    k ≤ m ∧ ∀ j, j < k → mismatchAt lk t q (a + j) (b + j) = false := by
  induction k generalizing a b m with
  | zero => exact ⟨Nat.zero_le _, fun j hj => absurd hj (Nat.not_lt_zero _)⟩
  | succ k ih =>
    cases m with
    | zero => simp [flagsFrom, lead] at h
    | succ m =>
      rw [flagsFrom] at h
      cases hm : mismatchAt lk t q a b with
      | true => rw [hm] at h; simp [lead] at h
      | false =>
        rw [hm] at h
        have h' : lead (flagsFrom lk t q (a + 1) (b + 1) m) ≥ k := by simp [lead] at h; omega
        obtain ⟨h1, h2⟩ := ih (a + 1) (b + 1) m h'
        refine ⟨by omega, ?_⟩
        intro j hj
        cases j with
        | zero => simpa using hm
        | succ j =>
          have := h2 j (by omega)
          rw [show a + (j + 1) = a + 1 + j by omega, show b + (j + 1) = b + 1 + j by omega]
          exact this

theorem wordOf_cons (lk : Lookup) (k : Nat) (x : UInt8) (l : List UInt8) :
    wordOf lk (k + 1) (x :: l) =
      match lk x, wordOf lk k l with
      | some d, some w => some (d * 4 ^ k + w)
      | _, _ => none := by
  unfold wordOf
  simp only [List.take_succ_cons, List.length_cons, Nat.add_right_cancel_iff]
  by_cases hlen : (l.take k).length = k
  · rw [if_pos hlen, if_pos hlen]
    cases hx : lk x with
    | none => simp [digits, hx]
    | some d =>
      cases hd : digits lk (l.take k) with
      | none => simp [digits, hx, hd]
      | some ds =>
        simp only [digits, hx, hd, Option.map_some]
        rw [encode_cons, digits_length hd, hlen]
  · rw [if_neg hlen, if_neg hlen]
    cases lk x <;> rfl

theorem words_of_no_mismatch (lk : Lookup) (t q : List UInt8) (k a b : Nat)
    (h : ∀ j, j < k → mismatchAt lk t q (a + j) (b + j) = false) :
    ∃ w, wordAt lk k t a = some w ∧ wordAt lk k q b = some w := by
  induction k generalizing a b with
  | zero => exact ⟨0, by simp [wordAt, wordOf, digits, encode], by simp [wordAt, wordOf, digits, encode]⟩
  | succ k ih =>
    have h0 := h 0 (by omega)
    simp only [Nat.add_zero] at h0
    unfold mismatchAt at h0
    cases hx : t[a]? with
    | none => simp [hx] at h0
    | some x =>
      cases hy : q[b]? with
      | none => simp [hx, hy] at h0
      | some y =>
        simp only [hx, hy] at h0
        cases hdx : lk x with
        | none => simp [hdx] at h0
        | some dx =>
          cases hdy : lk y with
          | none => simp [hdx, hdy] at h0
          | some dy =>
            simp only [hdx, hdy] at h0
            have hd : dx = dy := by simpa using h0
            obtain ⟨ha, hxa⟩ := List.getElem?_eq_some_iff.mp hx
            obtain ⟨hb, hyb⟩ := List.getElem?_eq_some_iff.mp hy
            obtain ⟨w, hw1, hw2⟩ := ih (a + 1) (b + 1) (by
              intro j hj
              have := h (j + 1) (by omega)
              rw [show a + (j + 1) = a + 1 + j by omega, show b + (j + 1) = b + 1 + j by omega] at this
              exact this)
            refine ⟨dx * 4 ^ k + w, ?_, ?_⟩
            · unfold wordAt at hw1 ⊢
              rw [List.drop_eq_getElem_cons ha, hxa, wordOf_cons, hdx, hw1]
            · unfold wordAt at hw2 ⊢
              rw [List.drop_eq_getElem_cons hb, hyb, wordOf_cons, hdy, hw2, hd]

/-- Ukkonen's q-gram lemma for substitution-only matches: two windows of `n` letters that differ
    in at most `e` columns share at least `n + 1 - k(e+1)` k-mers at equal offsets -/
theorem sharedKmers_bound (lk : Lookup) (k : Nat) (hk : 1 ≤ k) (t q : List UInt8) (a b n e : Nat)
    (hm : mismatches lk t q a b n ≤ e) :
    (sharedKmers lk k t q a b n).length + k * (e + 1) ≥ n + 1 := by
  have hb := cleanStarts_bound k hk (flagsFrom lk t q a b n)
  rw [flagsFrom_length, cleanStarts_eq, flagsFrom_length] at hb
  unfold mismatches at hm
  have hle : k * (flagsFrom lk t q a b n).countP id ≤ k * e := Nat.mul_le_mul_left k hm
  -- a clean window start is an offset below n + 1 - k at which the k-mers are shared
  have hmono : (List.range n).countP (fun i => decide (lead ((flagsFrom lk t q a b n).drop i) ≥ k)) ≤
      (List.range n).countP (fun i => decide (i < n + 1 - k) &&
        (match wordAt lk k t (a + i), wordAt lk k q (b + i) with
         | some w, some w' => w == w'
         | _, _ => false)) := by
    apply List.countP_mono_left
    intro i hi hP
    rw [List.mem_range] at hi
    simp only [decide_eq_true_eq] at hP
    rw [drop_flagsFrom] at hP
    obtain ⟨h1, h2⟩ := lead_flagsFrom lk t q k (a + i) (b + i) (n - i) hP
    obtain ⟨w, hw1, hw2⟩ := words_of_no_mismatch lk t q k (a + i) (b + i) h2
    rw [hw1, hw2]
    simp; omega
  rw [countP_range_lt] at hmono
  have hshared : (sharedKmers lk k t q a b n).length =
      (List.range (min (n + 1 - k) n)).countP (fun i =>
        match wordAt lk k t (a + i), wordAt lk k q (b + i) with
        | some w, some w' => w == w'
        | _, _ => false) := by
    unfold sharedKmers
    rw [← List.countP_eq_length_filter, Nat.min_eq_left (by omega)]
    rfl
  rw [Nat.mul_add]
  omega

end Biogo.Proofs.Filter
