/-
Lemmas about the container model (Biogo.Model.Containers): the two-pointer loop equals the
list specification, the heap loop refines the list loop, frame properties.  Core-only.
-/
import Biogo.Go.Slice
import Biogo.Model.Containers

namespace Biogo.Containers
open Biogo.Go

section twoptr
variable {α : Type}

theorem swapAt_append (f : α → α) (pre m post : List α) (x y : α) :
    swapAt f (pre ++ x :: (m ++ y :: post)) pre.length (pre.length + m.length + 1)
      = pre ++ f y :: (m ++ f x :: post) := by
  have h1 : (pre ++ x :: (m ++ y :: post))[pre.length]? = some x := by
    rw [List.getElem?_append_right (Nat.le_refl _)]; simp
  have h2 : (pre ++ x :: (m ++ y :: post))[pre.length + m.length + 1]? = some y := by
    rw [List.getElem?_append_right (by omega)]
    have : pre.length + m.length + 1 - pre.length = m.length + 1 := by omega
    rw [this, List.getElem?_cons_succ, List.getElem?_append_right (Nat.le_refl _)]; simp
  unfold swapAt
  rw [h1, h2]
  simp only
  rw [List.set_append, if_neg (Nat.lt_irrefl _), Nat.sub_self, List.set_cons_zero,
      List.set_append, if_neg (by omega)]
  have : pre.length + m.length + 1 - pre.length = m.length + 1 := by omega
  rw [this, List.set_cons_succ, List.set_append, if_neg (Nat.lt_irrefl _), Nat.sub_self,
      List.set_cons_zero]

theorem modAt_append (f : α → α) (pre post : List α) (x : α) :
    modAt f (pre ++ x :: post) pre.length = pre ++ f x :: post := by
  have h1 : (pre ++ x :: post)[pre.length]? = some x := by
    rw [List.getElem?_append_right (Nat.le_refl _)]; simp
  unfold modAt
  rw [h1]
  simp only
  rw [List.set_append, if_neg (Nat.lt_irrefl _), Nat.sub_self, List.set_cons_zero]

/-- The loop invariant in closed form: started at `i = |pre|`, `j+1 = |pre| + |mid|` the loop
    turns `pre ++ mid ++ post` into `pre ++ map f (reverse mid) ++ post`. -/
theorem twoPtr_window (f : α → α) :
    ∀ (fuel : Nat) (pre mid post : List α), mid.length / 2 + 1 ≤ fuel →
      twoPtr f true fuel pre.length (pre.length + mid.length) (pre ++ mid ++ post)
        = pre ++ (mid.reverse.map f) ++ post := by
  intro fuel
  induction fuel with
  | zero => intro pre mid post h; omega
  | succ fuel ih =>
    intro pre mid post hfuel
    unfold twoPtr
    match mid, hfuel with
    | [], _ =>
      have h1 : ¬ (pre.length + 1 < pre.length + ([] : List α).length) := by simp
      have h2 : (pre.length + 1 == pre.length + ([] : List α).length) = false := by simp
      simp only [h1, if_false, h2, Bool.and_false]
      simp
    | [x], _ =>
      have h1 : ¬ (pre.length + 1 < pre.length + [x].length) := by simp
      simp only [h1, if_false]
      simp only [List.length_singleton, beq_self_eq_true, Bool.and_self, if_true]
      simp only [List.append_assoc, List.singleton_append, List.reverse_singleton, List.map_cons,
        List.map_nil]
      exact modAt_append f pre post x
    | x :: y :: rest, hfuel =>
      -- mid = x :: (m ++ [z])
      rcases List.eq_nil_or_concat (y :: rest) with h | ⟨m, z, hm⟩
      · cases h
      · rw [hm, List.concat_eq_append]
        have hlen : (x :: (m ++ [z])).length = m.length + 2 := by simp
        have hlt : pre.length + 1 < pre.length + (x :: (m ++ [z])).length := by rw [hlen]; omega
        simp only [hlt, if_true]
        have e1 : pre ++ x :: (m ++ [z]) ++ post = pre ++ x :: (m ++ z :: post) := by simp
        have e2 : pre.length + (x :: (m ++ [z])).length - 1 = pre.length + m.length + 1 := by
          rw [hlen]; omega
        rw [e1, e2, swapAt_append]
        have e3 : pre ++ f z :: (m ++ f x :: post) = (pre ++ [f z]) ++ m ++ (f x :: post) := by simp
        have e4 : pre.length + 1 = (pre ++ [f z]).length := by simp
        have e5 : pre.length + m.length + 1 = (pre ++ [f z]).length + m.length := by simp; omega
        rw [e3, e4, e5, ih (pre ++ [f z]) m (f x :: post)]
        · simp
        · have hl : (y :: rest).length = m.length + 1 := by rw [hm]; simp
          simp only [List.length_cons] at hfuel hl
          omega

/-- **the two-pointer loop equals the list specification** (odd and even lengths alike):
    reverse, then apply `f` to every element. -/
theorem twoPtr_spec (f : α → α) (l : List α) :
    twoPtr f true (loopFuel l.length) 0 l.length l = l.reverse.map f := by
  have h := twoPtr_window f (loopFuel l.length) [] l [] (by simp [loopFuel])
  simpa using h

theorem set_getElem?_self (l : List α) (i : Nat) (x : α) (h : l[i]? = some x) : l.set i x = l := by
  apply List.ext_getElem?
  intro j
  rw [List.getElem?_set]
  split
  · next hij => subst hij; split <;> simp_all
  · rfl

theorem modAt_id (l : List α) (i : Nat) : modAt id l i = l := by
  unfold modAt
  cases h : l[i]? with
  | none => rfl
  | some x => exact set_getElem?_self l i x h

theorem twoPtr_id_mid (b : Bool) : ∀ (fuel i j1 : Nat) (l : List α),
    twoPtr id b fuel i j1 l = twoPtr id true fuel i j1 l := by
  intro fuel
  induction fuel with
  | zero => intro i j1 l; rfl
  | succ fuel ih =>
    intro i j1 l
    unfold twoPtr
    by_cases h : i + 1 < j1
    · simp only [h, if_true]; exact ih _ _ _
    · simp only [h, if_false]
      by_cases h2 : (i + 1 == j1) = true
      · cases b <;> simp [h2, modAt_id]
      · cases b <;> simp [h2]

/-- the loop of `Reverse` (no middle-element step) is list reversal -/
theorem twoPtr_reverse (l : List α) :
    twoPtr id false (loopFuel l.length) 0 l.length l = l.reverse := by
  rw [twoPtr_id_mid, twoPtr_spec]; simp

end twoptr
/-! ### the heap loop refines the list loop -/
section lift
variable {α : Type}

open Heap (length_set)

theorem read_hSwapAt (f : α → α) (h : Heap α) (s : Slice) (i j : Nat) (ha : s.arr < h.arrays.length) :
    (hSwapAt f h s i j).read s = swapAt f (h.read s) i j := by
  unfold hSwapAt swapAt
  rw [Heap.get?_eq_read, Heap.get?_eq_read]
  cases (h.read s)[i]? with
  | none => rfl
  | some x =>
    cases (h.read s)[j]? with
    | none => rfl
    | some y =>
      simp only
      rw [Heap.read_set_same _ _ _ _ (by rw [length_set]; exact ha), Heap.read_set_same _ _ _ _ ha]

theorem arr_hSwapAt (f : α → α) (h : Heap α) (s : Slice) (i j b : Nat) (hne : s.arr ≠ b) :
    (hSwapAt f h s i j).arr b = h.arr b := by
  unfold hSwapAt
  cases h.get? s i with
  | none => rfl
  | some x =>
    cases h.get? s j with
    | none => rfl
    | some y => simp only; rw [Heap.arr_set_other _ _ _ _ _ hne, Heap.arr_set_other _ _ _ _ _ hne]

theorem length_hSwapAt (f : α → α) (h : Heap α) (s : Slice) (i j : Nat) :
    (hSwapAt f h s i j).arrays.length = h.arrays.length := by
  unfold hSwapAt
  cases h.get? s i with
  | none => rfl
  | some x =>
    cases h.get? s j with
    | none => rfl
    | some y => simp only; rw [length_set, length_set]

theorem read_hModAt (f : α → α) (h : Heap α) (s : Slice) (i : Nat) (ha : s.arr < h.arrays.length) :
    (hModAt f h s i).read s = modAt f (h.read s) i := by
  unfold hModAt modAt
  rw [Heap.get?_eq_read]
  cases (h.read s)[i]? with
  | none => rfl
  | some x => simp only; rw [Heap.read_set_same _ _ _ _ ha]

theorem arr_hModAt (f : α → α) (h : Heap α) (s : Slice) (i b : Nat) (hne : s.arr ≠ b) :
    (hModAt f h s i).arr b = h.arr b := by
  unfold hModAt
  cases h.get? s i with
  | none => rfl
  | some x => simp only; rw [Heap.arr_set_other _ _ _ _ _ hne]

theorem length_hModAt (f : α → α) (h : Heap α) (s : Slice) (i : Nat) :
    (hModAt f h s i).arrays.length = h.arrays.length := by
  unfold hModAt
  cases h.get? s i with
  | none => rfl
  | some x => simp only; rw [length_set]

theorem arrlen_hSwapAt (f : α → α) (h : Heap α) (s : Slice) (i j b : Nat) :
    ((hSwapAt f h s i j).arr b).length = (h.arr b).length := by
  unfold hSwapAt
  cases h.get? s i with
  | none => rfl
  | some x =>
    cases h.get? s j with
    | none => rfl
    | some y => simp only; rw [Heap.length_arr_set, Heap.length_arr_set]

theorem arrlen_hModAt (f : α → α) (h : Heap α) (s : Slice) (i b : Nat) :
    ((hModAt f h s i).arr b).length = (h.arr b).length := by
  unfold hModAt
  cases h.get? s i with
  | none => rfl
  | some x => simp only; rw [Heap.length_arr_set]

theorem arrlen_hTwoPtr (f : α → α) (mid : Bool) (s : Slice) (b : Nat) :
    ∀ (fuel i j1 : Nat) (h : Heap α), ((hTwoPtr f mid s fuel i j1 h).arr b).length = (h.arr b).length := by
  intro fuel
  induction fuel with
  | zero => intro i j1 h; rfl
  | succ fuel ih =>
    intro i j1 h
    unfold hTwoPtr
    by_cases h1 : i + 1 < j1
    · simp only [h1, if_true]; rw [ih, arrlen_hSwapAt]
    · simp only [h1, if_false]
      by_cases h2 : (mid && i + 1 == j1) = true
      · simp only [h2, if_true]; exact arrlen_hModAt f h s i b
      · simp only [h2]; rfl

/-- the loop on the heap, seen through its slice, is the loop on the list -/
theorem read_hTwoPtr (f : α → α) (mid : Bool) (s : Slice) :
    ∀ (fuel i j1 : Nat) (h : Heap α), s.arr < h.arrays.length →
      (hTwoPtr f mid s fuel i j1 h).read s = twoPtr f mid fuel i j1 (h.read s) := by
  intro fuel
  induction fuel with
  | zero => intro i j1 h _; rfl
  | succ fuel ih =>
    intro i j1 h ha
    unfold hTwoPtr twoPtr
    by_cases h1 : i + 1 < j1
    · simp only [h1, if_true]
      rw [ih _ _ _ (by rw [length_hSwapAt]; exact ha), read_hSwapAt f h s _ _ ha]
    · simp only [h1, if_false]
      by_cases h2 : (mid && i + 1 == j1) = true
      · simp only [h2, if_true]; exact read_hModAt f h s i ha
      · simp only [h2]; rfl

/-- … and it touches no other backing array -/
theorem arr_hTwoPtr (f : α → α) (mid : Bool) (s : Slice) (b : Nat) (hne : s.arr ≠ b) :
    ∀ (fuel i j1 : Nat) (h : Heap α), (hTwoPtr f mid s fuel i j1 h).arr b = h.arr b := by
  intro fuel
  induction fuel with
  | zero => intro i j1 h; rfl
  | succ fuel ih =>
    intro i j1 h
    unfold hTwoPtr
    by_cases h1 : i + 1 < j1
    · simp only [h1, if_true]; rw [ih, arr_hSwapAt f h s _ _ b hne]
    · simp only [h1, if_false]
      by_cases h2 : (mid && i + 1 == j1) = true
      · simp only [h2, if_true]; exact arr_hModAt f h s i b hne
      · simp only [h2]; rfl

theorem length_hTwoPtr (f : α → α) (mid : Bool) (s : Slice) :
    ∀ (fuel i j1 : Nat) (h : Heap α), (hTwoPtr f mid s fuel i j1 h).arrays.length = h.arrays.length := by
  intro fuel
  induction fuel with
  | zero => intro i j1 h; rfl
  | succ fuel ih =>
    intro i j1 h
    unfold hTwoPtr
    by_cases h1 : i + 1 < j1
    · simp only [h1, if_true]; rw [ih, length_hSwapAt]
    · simp only [h1, if_false]
      by_cases h2 : (mid && i + 1 == j1) = true
      · simp only [h2, if_true]; exact length_hModAt f h s i
      · simp only [h2]; rfl

end lift

/-- reading a slice depends only on its own backing array -/
theorem read_congr_arr {α : Type} (h h' : Heap α) (t : Slice) (e : h'.arr t.arr = h.arr t.arr) :
    h'.read t = h.read t := by
  simp only [Heap.read, e]

/-! ### linear.Seq / QSeq -/

/-- the slice of a sequence lies in an allocated array that is long enough -/
def Lin.Valid (h : Cells) (l : Lin) : Prop :=
  l.s.arr < h.arrays.length ∧ l.s.off + l.s.len ≤ (h.arr l.s.arr).length

theorem length_read_of_valid (h : Cells) (l : Lin) (hv : l.Valid h) : (h.read l.s).length = l.s.len := by
  simp only [Heap.read, List.length_take, List.length_drop]
  have := hv.2
  omega

theorem shown_compQL (q : Bool) (comp : UInt8 → UInt8) (c : QL) :
    Lin.shown q (compQL comp c) = compQL comp (Lin.shown q c) := by
  cases q <;> rfl

/-- **revcomp_spec (linear.Seq, linear.QSeq)**: the letters reported by `At` over
    `[Start,End)` after `RevComp` are the reverse of those before with every letter
    complemented, each quality travelling with its letter; the strand is negated, the
    coordinates are unchanged. -/
theorem Lin.revComp_spec (cx : Ctx) (h : Cells) (l : Lin) (hv : l.Valid h) :
    let r := l.revComp cx h
    r.2.letters r.1 = (l.letters h).reverse.map (compQL cx.comp)
    ∧ r.2.strand = -l.strand ∧ r.2.start = l.start ∧ r.2.«end» = l.«end» := by
  refine ⟨?_, rfl, rfl, rfl⟩
  simp only [Lin.revComp, Lin.letters]
  rw [read_hTwoPtr _ _ _ _ _ _ _ hv.1]
  have hl := length_read_of_valid h l hv
  rw [← hl, twoPtr_spec, ← List.map_reverse, List.map_map, List.map_map]
  congr 1
  funext c
  exact shown_compQL l.q cx.comp c

/-- `Reverse` reverses the letters (qualities travelling) -/
theorem Lin.reverse_spec (h : Cells) (l : Lin) (hv : l.Valid h) :
    let r := l.reverse h
    r.2.letters r.1 = (l.letters h).reverse ∧ r.2.start = l.start ∧ r.2.«end» = l.«end» := by
  refine ⟨?_, rfl, rfl⟩
  simp only [Lin.reverse, Lin.letters]
  rw [read_hTwoPtr _ _ _ _ _ _ _ hv.1]
  have hl := length_read_of_valid h l hv
  rw [← hl, twoPtr_reverse, List.map_reverse]

theorem Lin.revComp_valid (cx : Ctx) (h : Cells) (l : Lin) (hv : l.Valid h) :
    (l.revComp cx h).2.Valid (l.revComp cx h).1 := by
  simp only [Lin.revComp, Lin.Valid]
  refine ⟨by rw [length_hTwoPtr]; exact hv.1, ?_⟩
  rw [arrlen_hTwoPtr]; exact hv.2

theorem Lin.reverse_valid (h : Cells) (l : Lin) (hv : l.Valid h) :
    (l.reverse h).2.Valid (l.reverse h).1 := by
  simp only [Lin.reverse, Lin.Valid]
  refine ⟨by rw [length_hTwoPtr]; exact hv.1, ?_⟩
  rw [arrlen_hTwoPtr]; exact hv.2

/-! ### folds over the rows of a multi -/

/-- two lists related element by element -/
inductive All2 {α β : Type} (R : α → β → Prop) : List α → List β → Prop
  | nil : All2 R [] []
  | cons {a b as bs} : R a b → All2 R as bs → All2 R (a :: as) (b :: bs)

theorem All2.imp_mem {α β : Type} {R S : α → β → Prop} {as : List α} {bs : List β}
    (h : All2 R as bs) (hi : ∀ a b, a ∈ as → R a b → S a b) : All2 S as bs := by
  induction h with
  | nil => exact .nil
  | cons hab _ ih =>
    exact .cons (hi _ _ List.mem_cons_self hab) (ih fun a b ha => hi a b (List.mem_cons_of_mem _ ha))

theorem All2.length_eq {α β : Type} {R : α → β → Prop} {as : List α} {bs : List β}
    (h : All2 R as bs) : as.length = bs.length := by
  induction h with
  | nil => rfl
  | cons _ _ ih => simp [ih]

theorem All2.get {α β : Type} {R : α → β → Prop} {as : List α} {bs : List β}
    (h : All2 R as bs) : ∀ (i : Nat) (a : α) (b : β), as[i]? = some a → bs[i]? = some b → R a b := by
  induction h with
  | nil => intro i a b ha; simp at ha
  | cons hab _ ih =>
    intro i a b ha hb
    cases i with
    | zero => simp at ha hb; subst ha; subst hb; exact hab
    | succ i => simp at ha hb; exact ih i a b ha hb

theorem All2.map_eq {α β γ : Type} {R : α → β → Prop} {as : List α} {bs : List β} (f : α → γ) (g : β → γ)
    (h : All2 R as bs) (hfg : ∀ a b, R a b → f a = g b) : as.map f = bs.map g := by
  induction h with
  | nil => rfl
  | cons hab _ ih => simp [hfg _ _ hab, ih]

theorem Lin.valid_congr {h h' : Cells} {l : Lin} (hl : h'.arrays.length = h.arrays.length)
    (ha : h'.arr l.s.arr = h.arr l.s.arr) (hv : l.Valid h) : l.Valid h' := by
  simp only [Lin.Valid, hl, ha]; exact hv

theorem Lin.letters_congr {h h' : Cells} {l : Lin} (ha : h'.arr l.s.arr = h.arr l.s.arr) :
    l.letters h' = l.letters h := by
  simp only [Lin.letters, read_congr_arr h h' l.s ha]

/-- `for _, r := range rows { r.g() }` with the heap threaded through -/
def rowsFold (g : Cells → Lin → Cells × Lin) (rows : List Lin) (acc : Cells × List Lin) :
    Cells × List Lin :=
  rows.foldl (fun acc r => ((g acc.1 r).1, acc.2 ++ [(g acc.1 r).2])) acc

/-- the rows of a multi own pairwise different backing arrays, all allocated and long enough -/
def RowsWF (h : Cells) (rows : List Lin) : Prop :=
  (∀ r ∈ rows, r.Valid h) ∧ rows.Pairwise (fun a b => a.s.arr ≠ b.s.arr)

/-- an operation on one row that works in place on the row's own backing array -/
structure InPlace (g : Cells → Lin → Cells × Lin) : Prop where
  arr : ∀ h r, (g h r).2.s.arr = r.s.arr
  frame : ∀ h r b, r.s.arr ≠ b → (g h r).1.arr b = h.arr b
  size : ∀ h r, (g h r).1.arrays.length = h.arrays.length
  valid : ∀ h r, r.Valid h → (g h r).2.Valid (g h r).1

theorem rowsFold_spec (g : Cells → Lin → Cells × Lin) (hg : InPlace g)
    (Rel : List QL → Lin → List QL → Lin → Prop)
    (hrel : ∀ h r, r.Valid h → Rel (r.letters h) r ((g h r).2.letters (g h r).1) (g h r).2) :
    ∀ (rows : List Lin) (h : Cells) (acc : List Lin), RowsWF h rows →
      ∃ rows', (rowsFold g rows (h, acc)).2 = acc ++ rows' ∧
        All2 (fun r r' => Rel (r.letters h) r (r'.letters (rowsFold g rows (h, acc)).1) r'
            ∧ r'.s.arr = r.s.arr ∧ r'.Valid (rowsFold g rows (h, acc)).1) rows rows' ∧
        (∀ b, (∀ r ∈ rows, r.s.arr ≠ b) → (rowsFold g rows (h, acc)).1.arr b = h.arr b) ∧
        (rowsFold g rows (h, acc)).1.arrays.length = h.arrays.length := by
  intro rows
  induction rows with
  | nil => intro h acc _; exact ⟨[], by simp [rowsFold], All2.nil, fun _ _ => rfl, rfl⟩
  | cons r rs ih =>
    intro h acc hwf
    have hvr : r.Valid h := hwf.1 r (List.mem_cons_self)
    have hpw := List.pairwise_cons.mp hwf.2
    -- the remaining rows are still well-formed in the heap after `g h r`
    have hwf' : RowsWF (g h r).1 rs := by
      refine ⟨fun x hx => ?_, hpw.2⟩
      exact Lin.valid_congr (hg.size h r) (hg.frame h r _ (hpw.1 x hx)) (hwf.1 x (List.mem_cons_of_mem _ hx))
    obtain ⟨rows', h2, hall, hframe, hsize⟩ := ih (g h r).1 (acc ++ [(g h r).2]) hwf'
    have hfold : rowsFold g (r :: rs) (h, acc) = rowsFold g rs ((g h r).1, acc ++ [(g h r).2]) := rfl
    rw [hfold]
    refine ⟨(g h r).2 :: rows', by rw [h2]; simp, ?_, ?_, by rw [hsize, hg.size]⟩
    · refine All2.cons ?_ ?_
      · -- the first row: later rows do not touch its array
        have hk : (rowsFold g rs ((g h r).1, acc ++ [(g h r).2])).1.arr (g h r).2.s.arr
            = (g h r).1.arr (g h r).2.s.arr := by
          apply hframe
          intro x hx
          rw [hg.arr]
          exact fun e => hpw.1 x hx e.symm
        refine ⟨?_, hg.arr h r, ?_⟩
        · rw [Lin.letters_congr hk]; exact hrel h r hvr
        · exact Lin.valid_congr (by rw [hsize]) hk (hg.valid h r hvr)
      · -- the other rows: `g h r` did not touch their arrays
        refine hall.imp_mem fun a b hmem hab => ?_
        rw [Lin.letters_congr (hg.frame h r _ (hpw.1 a hmem))] at hab
        exact hab
    · intro b hb
      rw [hframe b (fun x hx => hb x (List.mem_cons_of_mem _ hx)),
          hg.frame h r b (hb r List.mem_cons_self)]

/-! ### multi.Multi: RevComp / Reverse -/

/-- the body of the loop of `Multi.RevComp` for one row -/
def gRevComp (cx : Ctx) (st en : Int) (h : Cells) (r : Lin) : Cells × Lin :=
  ((r.revComp cx h).1, { (r.revComp cx h).2 with off := st + en - (r.revComp cx h).2.«end» })

def gReverse (st en : Int) (h : Cells) (r : Lin) : Cells × Lin :=
  ((r.reverse h).1, { (r.reverse h).2 with off := st + en - (r.reverse h).2.«end» })

theorem Multi.revComp_eq (cx : Ctx) (h : Cells) (m : Multi) :
    m.revComp cx h = ((rowsFold (gRevComp cx m.start m.«end») m.rows (h, [])).1,
      { m with rows := (rowsFold (gRevComp cx m.start m.«end») m.rows (h, [])).2 }) := rfl

theorem Multi.reverse_eq (h : Cells) (m : Multi) :
    m.reverse h = ((rowsFold (gReverse m.start m.«end») m.rows (h, [])).1,
      { m with rows := (rowsFold (gReverse m.start m.«end») m.rows (h, [])).2 }) := rfl

theorem inPlace_gRevComp (cx : Ctx) (st en : Int) : InPlace (gRevComp cx st en) where
  arr _ _ := rfl
  frame h r b hne := arr_hTwoPtr _ _ r.s b hne _ _ _ h
  size h r := length_hTwoPtr _ _ r.s _ _ _ h
  valid h r hv := Lin.revComp_valid cx h r hv

theorem inPlace_gReverse (st en : Int) : InPlace (gReverse st en) where
  arr _ _ := rfl
  frame h r b hne := arr_hTwoPtr _ _ r.s b hne _ _ _ h
  size h r := length_hTwoPtr _ _ r.s _ _ _ h
  valid h r hv := Lin.reverse_valid h r hv

/-- what `Multi.RevComp` does to one row: letters reversed and complemented (qualities
    travelling), strand negated, the row mirrored about the span `[S,E)` -/
def RevCompRel (comp : UInt8 → UInt8) (S E : Int) (bl : List QL) (r : Lin) (al : List QL) (r' : Lin) : Prop :=
  al = bl.reverse.map (compQL comp) ∧ r'.strand = -r.strand ∧
  r'.start = S + E - r.«end» ∧ r'.«end» = S + E - r.start ∧ r'.q = r.q ∧ r'.name = r.name

theorem gRevComp_rel (cx : Ctx) (S E : Int) (h : Cells) (r : Lin) (hv : r.Valid h) :
    RevCompRel cx.comp S E (r.letters h) r ((gRevComp cx S E h r).2.letters (gRevComp cx S E h r).1)
      (gRevComp cx S E h r).2 := by
  have hs := (Lin.revComp_spec cx h r hv).1
  refine ⟨hs, rfl, ?_, ?_, rfl, rfl⟩
  · simp only [gRevComp, Lin.start, Lin.«end», Lin.revComp]
  · simp only [gRevComp, Lin.start, Lin.«end», Lin.revComp]; omega

def ReverseRel (S E : Int) (bl : List QL) (r : Lin) (al : List QL) (r' : Lin) : Prop :=
  al = bl.reverse ∧ r'.start = S + E - r.«end» ∧ r'.«end» = S + E - r.start ∧ r'.q = r.q ∧ r'.name = r.name

theorem gReverse_rel (S E : Int) (h : Cells) (r : Lin) (hv : r.Valid h) :
    ReverseRel S E (r.letters h) r ((gReverse S E h r).2.letters (gReverse S E h r).1) (gReverse S E h r).2 := by
  have hs := (Lin.reverse_spec h r hv).1
  refine ⟨hs, ?_, ?_, rfl, rfl⟩
  · simp only [gReverse, Lin.start, Lin.«end», Lin.reverse]
  · simp only [gReverse, Lin.start, Lin.«end», Lin.reverse]; omega

theorem rowsWF_of_all2 {h h' : Cells} {rows rows' : List Lin}
    (hall : All2 (fun r r' => r'.s.arr = r.s.arr ∧ r'.Valid h') rows rows')
    (hwf : RowsWF h rows) : RowsWF h' rows' := by
  constructor
  · intro r' hr'
    obtain ⟨i, hi⟩ := List.getElem?_of_mem hr'
    have hlen := hall.length_eq
    have hil : i < rows.length := by
      have := (List.getElem?_eq_some_iff.mp hi).1; omega
    exact (hall.get i rows[i] r' (List.getElem?_eq_getElem hil) hi).2
  · have hm : rows.map (·.s.arr) = rows'.map (·.s.arr) :=
      hall.map_eq _ _ fun a b hab => hab.1.symm
    have := (List.pairwise_map (f := fun (r : Lin) => r.s.arr) (R := (· ≠ ·)) (l := rows)).mpr hwf.2
    rw [hm] at this
    exact List.pairwise_map.mp this

/-- **revcomp_spec (multi.Multi) and multi_revcomp_mirror**: every row of the result holds the
    reverse complement of the corresponding row (qualities travelling, strand negated) and
    occupies `[S+E-end_i, S+E-start_i)` where `[S,E)` is the span of the alignment before. -/
theorem Multi.revComp_rows (cx : Ctx) (h : Cells) (m : Multi) (hwf : RowsWF h m.rows) :
    All2 (fun r r' => RevCompRel cx.comp m.start m.«end» (r.letters h) r (r'.letters (m.revComp cx h).1) r')
      m.rows (m.revComp cx h).2.rows
    ∧ RowsWF (m.revComp cx h).1 (m.revComp cx h).2.rows := by
  obtain ⟨rows', h2, hall, _, _⟩ := rowsFold_spec (gRevComp cx m.start m.«end») (inPlace_gRevComp cx _ _)
    (RevCompRel cx.comp m.start m.«end») (fun h r hv => gRevComp_rel cx _ _ h r hv) m.rows h [] hwf
  rw [Multi.revComp_eq]
  simp only [List.nil_append] at h2
  simp only [h2]
  exact ⟨hall.imp_mem fun a b _ hab => hab.1,
         rowsWF_of_all2 (hall.imp_mem fun a b _ hab => ⟨hab.2.1, hab.2.2⟩) hwf⟩

theorem Multi.reverse_rows (h : Cells) (m : Multi) (hwf : RowsWF h m.rows) :
    All2 (fun r r' => ReverseRel m.start m.«end» (r.letters h) r (r'.letters (m.reverse h).1) r')
      m.rows (m.reverse h).2.rows
    ∧ RowsWF (m.reverse h).1 (m.reverse h).2.rows := by
  obtain ⟨rows', h2, hall, _, _⟩ := rowsFold_spec (gReverse m.start m.«end») (inPlace_gReverse _ _)
    (ReverseRel m.start m.«end») (fun h r hv => gReverse_rel _ _ h r hv) m.rows h [] hwf
  rw [Multi.reverse_eq]
  simp only [List.nil_append] at h2
  simp only [h2]
  exact ⟨hall.imp_mem fun a b _ hab => hab.1,
         rowsWF_of_all2 (hall.imp_mem fun a b _ hab => ⟨hab.2.1, hab.2.2⟩) hwf⟩

/-! ### the span of a multi -/

theorem All2.exists_right {α β : Type} {R : α → β → Prop} {as : List α} {bs : List β}
    (h : All2 R as bs) : ∀ a ∈ as, ∃ b ∈ bs, R a b := by
  induction h with
  | nil => intro a ha; simp at ha
  | cons hab _ ih =>
    intro a ha
    rcases List.mem_cons.mp ha with e | e
    · subst e; exact ⟨_, List.mem_cons_self, hab⟩
    · obtain ⟨b, hb, hr⟩ := ih a e; exact ⟨b, List.mem_cons_of_mem _ hb, hr⟩

theorem All2.exists_left {α β : Type} {R : α → β → Prop} {as : List α} {bs : List β}
    (h : All2 R as bs) : ∀ b ∈ bs, ∃ a ∈ as, R a b := by
  induction h with
  | nil => intro b hb; simp at hb
  | cons hab _ ih =>
    intro b hb
    rcases List.mem_cons.mp hb with e | e
    · subst e; exact ⟨_, List.mem_cons_self, hab⟩
    · obtain ⟨a, ha, hr⟩ := ih b e; exact ⟨a, List.mem_cons_of_mem _ ha, hr⟩

theorem foldl_min_spec (rows : List Lin) : ∀ (init : Int),
    let s := rows.foldl (fun s r => if r.start < s then r.start else s) init
    s ≤ init ∧ (∀ r ∈ rows, s ≤ r.start) ∧ (s = init ∨ ∃ r ∈ rows, s = r.start) := by
  induction rows with
  | nil => intro init; simp
  | cons r rs ih =>
    intro init
    simp only [List.foldl_cons]
    by_cases hc : r.start < init
    · simp only [hc, if_true]
      obtain ⟨h1, h2, h3⟩ := ih r.start
      refine ⟨by omega, ?_, ?_⟩
      · intro x hx
        rcases List.mem_cons.mp hx with e | e
        · subst e; exact h1
        · exact h2 x e
      · rcases h3 with e | ⟨x, hx, e⟩
        · exact Or.inr ⟨r, List.mem_cons_self, e⟩
        · exact Or.inr ⟨x, List.mem_cons_of_mem _ hx, e⟩
    · simp only [hc, if_false]
      obtain ⟨h1, h2, h3⟩ := ih init
      refine ⟨h1, ?_, ?_⟩
      · intro x hx
        rcases List.mem_cons.mp hx with e | e
        · subst e; omega
        · exact h2 x e
      · rcases h3 with e | ⟨x, hx, e⟩
        · exact Or.inl e
        · exact Or.inr ⟨x, List.mem_cons_of_mem _ hx, e⟩

theorem foldl_max_spec (rows : List Lin) : ∀ (init : Int),
    let e := rows.foldl (fun e r => if r.«end» > e then r.«end» else e) init
    init ≤ e ∧ (∀ r ∈ rows, r.«end» ≤ e) ∧ (e = init ∨ ∃ r ∈ rows, e = r.«end») := by
  induction rows with
  | nil => intro init; simp
  | cons r rs ih =>
    intro init
    simp only [List.foldl_cons]
    by_cases hc : r.«end» > init
    · simp only [hc, if_true]
      obtain ⟨h1, h2, h3⟩ := ih r.«end»
      refine ⟨by omega, ?_, ?_⟩
      · intro x hx
        rcases List.mem_cons.mp hx with e | e
        · subst e; exact h1
        · exact h2 x e
      · rcases h3 with e | ⟨x, hx, e⟩
        · exact Or.inr ⟨r, List.mem_cons_self, e⟩
        · exact Or.inr ⟨x, List.mem_cons_of_mem _ hx, e⟩
    · simp only [hc, if_false]
      obtain ⟨h1, h2, h3⟩ := ih init
      refine ⟨h1, ?_, ?_⟩
      · intro x hx
        rcases List.mem_cons.mp hx with e | e
        · subst e; omega
        · exact h2 x e
      · rcases h3 with e | ⟨x, hx, e⟩
        · exact Or.inl e
        · exact Or.inr ⟨x, List.mem_cons_of_mem _ hx, e⟩

/-- a multi with at least one row, all coordinates representable as Go `int`s -/
def Multi.InRange (m : Multi) : Prop :=
  m.rows ≠ [] ∧ ∀ r ∈ m.rows, minInt ≤ r.start ∧ r.«end» ≤ maxInt

theorem Lin.start_le_end (r : Lin) : r.start ≤ r.«end» := by
  simp only [Lin.start, Lin.«end»]; omega

theorem Multi.start_eq_of (m : Multi) (S : Int) (hS : S ≤ maxInt)
    (hle : ∀ r ∈ m.rows, S ≤ r.start) (hex : ∃ r ∈ m.rows, r.start = S) : m.start = S := by
  obtain ⟨h1, h2, h3⟩ := foldl_min_spec m.rows maxInt
  obtain ⟨r, hr, hrs⟩ := hex
  have := h2 r hr
  simp only [Multi.start]
  rcases h3 with e | ⟨x, hx, e⟩
  · omega
  · have := hle x hx; omega

theorem Multi.end_eq_of (m : Multi) (E : Int) (hE : minInt ≤ E)
    (hle : ∀ r ∈ m.rows, r.«end» ≤ E) (hex : ∃ r ∈ m.rows, r.«end» = E) : m.«end» = E := by
  obtain ⟨h1, h2, h3⟩ := foldl_max_spec m.rows minInt
  obtain ⟨r, hr, hrs⟩ := hex
  have := h2 r hr
  simp only [Multi.«end»]
  rcases h3 with e | ⟨x, hx, e⟩
  · omega
  · have := hle x hx; omega

/-- in range, `Start()` is the least row start and `End()` the greatest row end -/
theorem Multi.span_spec (m : Multi) (hr : m.InRange) :
    (∀ r ∈ m.rows, m.start ≤ r.start) ∧ (∃ r ∈ m.rows, r.start = m.start) ∧
    (∀ r ∈ m.rows, r.«end» ≤ m.«end») ∧ (∃ r ∈ m.rows, r.«end» = m.«end») ∧
    minInt ≤ m.start ∧ m.«end» ≤ maxInt := by
  obtain ⟨a1, a2, a3⟩ := foldl_min_spec m.rows maxInt
  obtain ⟨b1, b2, b3⟩ := foldl_max_spec m.rows minInt
  obtain ⟨r0, hr0⟩ := List.exists_mem_of_ne_nil _ hr.1
  have hr0r := hr.2 r0 hr0
  have hse := r0.start_le_end
  have ha := a2 r0 hr0
  have hb := b2 r0 hr0
  refine ⟨a2, ?_, b2, ?_, ?_, ?_⟩
  · rcases a3 with e | ⟨x, hx, e⟩
    · -- the sentinel survives only if some row starts at it
      refine ⟨r0, hr0, ?_⟩
      simp only [Multi.start]; omega
    · exact ⟨x, hx, e.symm⟩
  · rcases b3 with e | ⟨x, hx, e⟩
    · refine ⟨r0, hr0, ?_⟩
      simp only [Multi.«end»]; omega
    · exact ⟨x, hx, e.symm⟩
  · simp only [Multi.start]
    rcases a3 with e | ⟨x, hx, e⟩
    · rw [e]; decide
    · rw [e]; exact (hr.2 x hx).1
  · simp only [Multi.«end»]
    rcases b3 with e | ⟨x, hx, e⟩
    · rw [e]; decide
    · rw [e]; exact (hr.2 x hx).2

/-- mirroring every row about `[S,E)` keeps the span `[S,E)` -/
theorem Multi.span_mirror (m m' : Multi) (hr : m.InRange)
    (hall : All2 (fun r r' => r'.start = m.start + m.«end» - r.«end» ∧ r'.«end» = m.start + m.«end» - r.start)
      m.rows m'.rows) :
    m'.start = m.start ∧ m'.«end» = m.«end» ∧ m'.InRange := by
  obtain ⟨s1, s2, e1, e2, lo, hi⟩ := m.span_spec hr
  refine ⟨?_, ?_, ?_, ?_⟩
  · apply Multi.start_eq_of
    · obtain ⟨r, hr', e⟩ := s2
      have := (hr.2 r hr').2; have := r.start_le_end; omega
    · intro r' hr'
      obtain ⟨r, hrm, hrel⟩ := hall.exists_left r' hr'
      have := e1 r hrm; omega
    · obtain ⟨r, hrm, e⟩ := e2
      obtain ⟨r', hr', hrel⟩ := hall.exists_right r hrm
      exact ⟨r', hr', by omega⟩
  · apply Multi.end_eq_of
    · obtain ⟨r, hr', e⟩ := e2
      have := (hr.2 r hr').1; have := r.start_le_end; omega
    · intro r' hr'
      obtain ⟨r, hrm, hrel⟩ := hall.exists_left r' hr'
      have := s1 r hrm; omega
    · obtain ⟨r, hrm, e⟩ := s2
      obtain ⟨r', hr', hrel⟩ := hall.exists_right r hrm
      exact ⟨r', hr', by omega⟩
  · intro hnil
    have := hall.length_eq
    rw [hnil] at this
    exact hr.1 (List.length_eq_zero_iff.mp this)
  · intro r' hr'
    obtain ⟨r, hrm, hrel⟩ := hall.exists_left r' hr'
    have := e1 r hrm; have := s1 r hrm
    omega

/-! ### involutions -/

theorem All2.trans {α β γ : Type} {R : α → β → Prop} {S : β → γ → Prop} {as : List α} {bs : List β}
    {cs : List γ} (h1 : All2 R as bs) : All2 S bs cs → All2 (fun a c => ∃ b, R a b ∧ S b c) as cs := by
  induction h1 generalizing cs with
  | nil => intro h2; cases h2; exact .nil
  | cons hab _ ih =>
    intro h2
    cases h2 with
    | cons hbc h2' => exact .cons ⟨_, hab, hbc⟩ (ih h2')

theorem All2.imp {α β : Type} {R S : α → β → Prop} {as : List α} {bs : List β}
    (h : All2 R as bs) (hi : ∀ a b, R a b → S a b) : All2 S as bs :=
  h.imp_mem fun a b _ => hi a b

theorem map_comp_twice (comp : UInt8 → UInt8) (ls : List QL)
    (hinv : ∀ c ∈ ls, comp (comp c.L) = c.L) :
    ((ls.reverse.map (compQL comp)).reverse.map (compQL comp)) = ls := by
  rw [← List.map_reverse, List.reverse_reverse, List.map_map]
  conv => rhs; rw [← List.map_id ls]
  apply List.map_congr_left
  intro c hc
  simp only [Function.comp, compQL, id]
  rw [hinv c hc]

/-- **revcomp_involutive (linear)**: applying `RevComp` twice restores letters, qualities,
    strand and coordinates, for sequences made of letters on which the complement is an
    involution (all letters the alphabet pairs, see `builtin_complement_involutive`) -/
theorem Lin.revComp_twice (cx : Ctx) (h : Cells) (l : Lin) (hv : l.Valid h)
    (hinv : ∀ c ∈ l.letters h, cx.comp (cx.comp c.L) = c.L) :
    let r1 := l.revComp cx h
    let r2 := r1.2.revComp cx r1.1
    r2.2.letters r2.1 = l.letters h ∧ r2.2.strand = l.strand ∧ r2.2.start = l.start ∧ r2.2.«end» = l.«end» := by
  intro r1 r2
  have h1 := Lin.revComp_spec cx h l hv
  have hv1 := Lin.revComp_valid cx h l hv
  have h2 := Lin.revComp_spec cx r1.1 r1.2 hv1
  refine ⟨?_, ?_, ?_, ?_⟩
  · rw [h2.1, h1.1]; exact map_comp_twice cx.comp _ hinv
  · rw [h2.2.1, h1.2.1]; omega
  · rw [h2.2.2.1, h1.2.2.1]
  · rw [h2.2.2.2, h1.2.2.2]

/-- **reverse_involutive (linear)** -/
theorem Lin.reverse_twice (h : Cells) (l : Lin) (hv : l.Valid h) :
    let r1 := l.reverse h
    let r2 := r1.2.reverse r1.1
    r2.2.letters r2.1 = l.letters h ∧ r2.2.start = l.start ∧ r2.2.«end» = l.«end» := by
  intro r1 r2
  have h1 := Lin.reverse_spec h l hv
  have hv1 := Lin.reverse_valid h l hv
  have h2 := Lin.reverse_spec r1.1 r1.2 hv1
  refine ⟨?_, ?_, ?_⟩
  · rw [h2.1, h1.1, List.reverse_reverse]
  · rw [h2.2.1, h1.2.1]
  · rw [h2.2.2, h1.2.2]

/-- **revcomp_involutive (multi.Multi)**: letters, qualities, strand and the coordinates of
    every row are restored by a second `RevComp` -/
theorem Multi.revComp_twice (cx : Ctx) (h : Cells) (m : Multi) (hwf : RowsWF h m.rows) (hr : m.InRange)
    (hinv : ∀ r ∈ m.rows, ∀ c ∈ r.letters h, cx.comp (cx.comp c.L) = c.L) :
    let m1 := m.revComp cx h
    let m2 := m1.2.revComp cx m1.1
    All2 (fun r r2 => r2.letters m2.1 = r.letters h ∧ r2.strand = r.strand ∧ r2.start = r.start ∧
        r2.«end» = r.«end» ∧ r2.q = r.q ∧ r2.name = r.name) m.rows m2.2.rows
    ∧ m2.2.start = m.start ∧ m2.2.«end» = m.«end» := by
  intro m1 m2
  obtain ⟨a1, wf1⟩ := Multi.revComp_rows cx h m hwf
  obtain ⟨a2, _⟩ := Multi.revComp_rows cx m1.1 m1.2 wf1
  obtain ⟨s1, e1, r1⟩ := Multi.span_mirror m m1.2 hr (a1.imp fun a b hab => ⟨hab.2.2.1, hab.2.2.2.1⟩)
  obtain ⟨s2, e2, _⟩ := Multi.span_mirror m1.2 m2.2 r1 (a2.imp fun a b hab => ⟨hab.2.2.1, hab.2.2.2.1⟩)
  refine ⟨?_, by rw [s2, s1], by rw [e2, e1]⟩
  refine (a1.trans a2).imp_mem fun r r2 hrm ⟨r1', hab, hbc⟩ => ?_
  obtain ⟨l1, st1, b1, c1, q1, n1⟩ := hab
  obtain ⟨l2, st2, b2, c2, q2, n2⟩ := hbc
  refine ⟨?_, by omega, ?_, ?_, by rw [q2, q1], by rw [n2, n1]⟩
  · rw [l2, l1]; exact map_comp_twice cx.comp _ (hinv r hrm)
  · rw [b2, c1, s1, e1]; omega
  · rw [c2, b1, s1, e1]; omega

/-- **reverse_involutive (multi.Multi)**: letters (and the coordinates of every row) are restored -/
theorem Multi.reverse_twice (h : Cells) (m : Multi) (hwf : RowsWF h m.rows) (hr : m.InRange) :
    let m1 := m.reverse h
    let m2 := m1.2.reverse m1.1
    All2 (fun r r2 => r2.letters m2.1 = r.letters h ∧ r2.start = r.start ∧ r2.«end» = r.«end»)
      m.rows m2.2.rows := by
  intro m1 m2
  obtain ⟨a1, wf1⟩ := Multi.reverse_rows h m hwf
  obtain ⟨a2, _⟩ := Multi.reverse_rows m1.1 m1.2 wf1
  obtain ⟨s1, e1, r1⟩ := Multi.span_mirror m m1.2 hr (a1.imp fun a b hab => ⟨hab.2.1, hab.2.2.1⟩)
  refine (a1.trans a2).imp fun r r2 ⟨r1', hab, hbc⟩ => ?_
  obtain ⟨l1, b1, c1, _, _⟩ := hab
  obtain ⟨l2, b2, c2, _, _⟩ := hbc
  refine ⟨by rw [l2, l1, List.reverse_reverse], ?_, ?_⟩
  · rw [b2, c1, s1, e1]; omega
  · rw [c2, b1, s1, e1]; omega

end Biogo.Containers
