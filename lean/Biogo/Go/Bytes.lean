/-
Shared byte/line library for the sequence readers and writers (DESIGN.md §3.2).

* `splitLines`   — what a loop over `bufio.Reader.ReadLine` sees once the `isPrefix`
                   fragments of one physical line have been joined: lines end at LF, one CR
                   directly before the LF is dropped, an unterminated non-empty last line is
                   returned as it is.  (The 4096-byte fragmentation itself is in the trusted
                   base; the correspondence runs physical lines of 1…20000 bytes.)
* `trimSpace`    — `bytes.TrimSpace` with Go's semantics on arbitrary bytes: the ASCII space
                   set plus the UTF-8 encodings of the other `unicode.IsSpace` runes
                   (U+0085, U+00A0, U+1680, U+2000–U+200A, U+2028, U+2029, U+202F, U+205F,
                   U+3000); the right trim follows `utf8.DecodeLastRune`.
* `removeSpaces` — `bytes.Join(bytes.Fields(s), nil)`.
* `indexAnySpTab`— `bytes.IndexAny(s, " \t")`.
* explicit panics for slicing (`sliceFrom`, `slice`) and an in-memory `io.Writer` (`Sink`).

Core only (the driver links this file).
-/
namespace Biogo.Go.Bytes

abbrev Bytes := List UInt8

/-- a Go run-time panic, with the reason -/
inductive Panic
  | sliceBounds      -- slice bounds out of range
  | indexRange       -- index out of range
  | divideByZero     -- integer divide by zero
  | nilDeref         -- method call on a nil interface
  | illegalEncoding  -- panic("alphabet: illegal encoding")
  deriving DecidableEq, Repr

def Panic.code : Panic → String
  | .sliceBounds => "slice" | .indexRange => "index" | .divideByZero => "divzero"
  | .nilDeref => "nil" | .illegalEncoding => "encoding"

/-- `s[i:]` -/
def sliceFrom (s : Bytes) (i : Nat) : Except Panic Bytes :=
  if i ≤ s.length then .ok (s.drop i) else .error .sliceBounds

/-- `s[i:j]` -/
def slice (s : Bytes) (i j : Nat) : Except Panic Bytes :=
  if i ≤ j ∧ j ≤ s.length then .ok ((s.take j).drop i) else .error .sliceBounds

/-! ### white space -/

/-- the `asciiSpace` table of package bytes: `\t \n \v \f \r ' '` -/
def isAsciiSpace (b : UInt8) : Bool :=
  b == 9 || b == 10 || b == 11 || b == 12 || b == 13 || b == 32

/-- second byte of a two-byte space after the lead byte C2: U+0085, U+00A0 -/
def isSp2 (b : UInt8) : Bool := b == 0x85 || b == 0xA0

/-- a three-byte UTF-8 encoding of a `unicode.IsSpace` rune -/
def isSp3 (a b c : UInt8) : Bool :=
  (a == 0xE1 && b == 0x9A && c == 0x80) ||                                        -- U+1680
  (a == 0xE2 && b == 0x80 && ((0x80 ≤ c && c ≤ 0x8A) || c == 0xA8 || c == 0xA9 || c == 0xAF)) ||
                                                             -- U+2000–200A, 2028, 2029, 202F
  (a == 0xE2 && b == 0x81 && c == 0x9F) ||                                        -- U+205F
  (a == 0xE3 && b == 0x80 && c == 0x80)                                           -- U+3000

/-- `bytes.TrimLeftFunc(s, unicode.IsSpace)`: runes are decoded from the front; a byte that
    does not start the encoding of a space rune stops the trim (an invalid or incomplete
    sequence decodes to U+FFFD of width 1, which is not a space). -/
def trimLeft : Bytes → Bytes
  | [] => []
  | a :: rest =>
    if isAsciiSpace a then trimLeft rest
    else match rest with
      | [] => [a]
      | b :: r =>
        if a == 0xC2 && isSp2 b then trimLeft r
        else match r with
          | [] => a :: rest
          | c :: r' => if isSp3 a b c then trimLeft r' else a :: rest

/-- the right trim on the reversed slice (head = last byte).  `utf8.DecodeLastRune` walks
    back from the last byte to the first rune-start byte (at most 3 further bytes), decodes
    forward and accepts the rune only if it ends exactly at the end. -/
def trimRev : Bytes → Bytes
  | [] => []
  | z :: rest =>
    if z < 0x80 then (if isAsciiSpace z then trimRev rest else z :: rest)
    else match rest with
      | [] => [z]
      | y :: r =>
        if y == 0xC2 && isSp2 z then trimRev r
        else match r with
          | [] => z :: rest
          | x :: r' => if isSp3 x y z then trimRev r' else z :: rest

/-- `bytes.TrimRightFunc(s, unicode.IsSpace)` -/
def trimRight (s : Bytes) : Bytes := (trimRev s.reverse).reverse

/-- `bytes.TrimSpace` (= `TrimRightFunc(TrimLeftFunc(s))`; its ASCII fast path is equivalent) -/
def trimSpace (s : Bytes) : Bytes := trimRight (trimLeft s)

/-- `bytes.Join(bytes.Fields(s), nil)`: every space rune removed.  `FieldsFunc` advances by
    the width of the decoded rune; advancing one byte at a time over a non-space rune is
    equivalent because no continuation byte can start the encoding of a space. -/
def removeSpaces : Bytes → Bytes
  | [] => []
  | a :: rest =>
    if isAsciiSpace a then removeSpaces rest
    else match rest with
      | [] => [a]
      | b :: r =>
        if a == 0xC2 && isSp2 b then removeSpaces r
        else match r with
          | [] => a :: (if isAsciiSpace b then [] else [b])
          | c :: r' => if isSp3 a b c then removeSpaces r' else a :: removeSpaces (b :: c :: r')

/-- `bytes.IndexAny(s, " \t")` (`none` = -1) -/
def indexAnySpTab (s : Bytes) : Option Nat := s.findIdx? (fun b => b == 32 || b == 9)

/-- `bytes.HasPrefix` -/
def hasPrefix (s p : Bytes) : Bool := p.isPrefixOf s

/-! ### lines -/

/-- `ReadLine` drops `\n` and one `\r` directly before it; `cur` is the reversed line -/
def dropCR : Bytes → Bytes
  | 13 :: c => c
  | c => c

/-- lines as seen through `bufio.Reader.ReadLine` (fragments joined); `cur` accumulates the
    current line in reverse -/
def splitLinesAux : Bytes → Bytes → List Bytes
  | [], cur => if cur.isEmpty then [] else [cur.reverse]
  | b :: bs, cur =>
    if b == 10 then (dropCR cur).reverse :: splitLinesAux bs []
    else splitLinesAux bs (b :: cur)

def splitLines (bs : Bytes) : List Bytes := splitLinesAux bs []

/-- number of input lines (LF-terminated lines plus a non-empty unterminated last line) -/
def lineCount (bs : Bytes) : Nat := (splitLines bs).length

/-- `bufio`'s `defaultBufSize`: the size of the buffer behind `bufio.NewReader` -/
def bufSize : Nat := 4096

/-- How `ReadLine` delivers an unterminated last line `l`: in fragments of `bufSize` bytes
    flagged `isPrefix` (a fragment that would end in CR is cut one byte short and the CR is
    left for the next one).  A remainder of 1…`bufSize-1` bytes comes with `isPrefix = false`;
    if nothing remains, the next `ReadLine` returns `io.EOF` while the caller is still
    waiting for the end of the line.  `true` = that happens (`fuel` ≥ length of `l`). -/
def endsPendingAux : Nat → Bytes → Bool
  | 0, _ => false
  | fuel + 1, l =>
    if l.length == 0 then true
    else if l.length < bufSize then false
    else if (l.take bufSize).getLast? == some 13 then endsPendingAux fuel (l.drop (bufSize - 1))
    else endsPendingAux fuel (l.drop bufSize)

/-- an unterminated last line that a `ReadLine` loop sees only as `isPrefix` fragments
    followed by `io.EOF` (its length is a positive multiple of the buffer size, up to the
    CR adjustment) -/
def endsPending (l : Bytes) : Bool := l.length ≥ bufSize && endsPendingAux (l.length + 1) l

/-- The input as a `ReadLine` loop sees it: the lines delivered completely, and the bytes of
    a final line that is delivered only as `isPrefix` fragments before `io.EOF`
    (`[]` when there is none).  `eofWithData`: the underlying `io.Reader` returns `io.EOF`
    together with the last bytes (then `bufio` sees the pending error before it sees the
    full buffer and the last fragment is delivered as a complete line); `false` for a
    reader that reports `io.EOF` on the Read after the last data (files, `bytes.Reader`). -/
def readLineInput (eofWithData : Bool) (bs : Bytes) : List Bytes × Bytes :=
  let ls := splitLines bs
  if eofWithData then (ls, [])
  else match bs.getLast?, ls.getLast? with
    | some b, some l => if b != 10 && endsPending l then (ls.dropLast, l) else (ls, [])
    | _, _ => (ls, [])

/-! ### an in-memory `io.Writer` -/

structure Sink where
  out : Array UInt8 := #[]

/-- `w.Write(p)` on a writer that never fails: appends and returns `len(p)` -/
def Sink.write (s : Sink) (p : Bytes) : Sink × Nat := (⟨s.out.appendList p⟩, p.length)

def Sink.bytes (s : Sink) : Bytes := s.out.toList

/-- FNV-1a, 64 bit (used only to compare long outputs in the line protocol) -/
def fnv1a (bs : Bytes) : UInt64 :=
  bs.foldl (fun h b => (h ^^^ b.toUInt64) * 1099511628211) 14695981039346656037

/-- FNV-1a, 32 bit (the harness picks the behaviour of the `io.Reader` under test from it) -/
def fnv1a32 (bs : Bytes) : UInt32 :=
  bs.foldl (fun h b => (h ^^^ b.toUInt32) * 16777619) 2166136261

end Biogo.Go.Bytes
