/-
Goroutines as a labelled transition system (DESIGN.md §3.4), core Lean only.

`Sys σ ι`: states `σ`, actor ids `ι`; `step s i = none` means actor `i` is blocked (or
finished) in `s`.  The atomic blocks of a model are the pieces of code between two
blocking operations / `verif` hook points, so that a schedule of the model can be forced
on the implementation.

Provided: reachability, invariant induction (`inv_init` + `inv_step` ⇒ all reachable
states), strict runs (`run`), runs that skip blocked steps (`runSkip`), a variant lemma
(`run_length_le`) for termination arguments, and small helpers for lists used as
per-actor tables.
-/
namespace Biogo.LTS

structure Sys (σ ι : Type) where
  init : σ
  step : σ → ι → Option σ

variable {σ ι : Type}

/-- states reachable from `init` by any finite schedule -/
inductive Reach (S : Sys σ ι) : σ → Prop
  | init : Reach S S.init
  | step {s s' : σ} {i : ι} : Reach S s → S.step s i = some s' → Reach S s'

/-- states reachable from a given state -/
inductive ReachFrom (S : Sys σ ι) (s₀ : σ) : σ → Prop
  | refl : ReachFrom S s₀ s₀
  | step {s s' : σ} {i : ι} : ReachFrom S s₀ s → S.step s i = some s' → ReachFrom S s₀ s'

theorem ReachFrom.reach {S : Sys σ ι} {s₀ s : σ} (h₀ : Reach S s₀) (h : ReachFrom S s₀ s) :
    Reach S s := by
  induction h with
  | refl => exact h₀
  | step _ hs ih => exact Reach.step ih hs

theorem ReachFrom.head {S : Sys σ ι} {s s₁ t : σ} {i : ι} (hs : S.step s i = some s₁)
    (h : ReachFrom S s₁ t) : ReachFrom S s t := by
  induction h with
  | refl => exact .step .refl hs
  | step _ hs' ih => exact .step ih hs'

/-- invariant induction -/
theorem inv_induction {S : Sys σ ι} (Inv : σ → Prop)
    (inv_init : Inv S.init)
    (inv_step : ∀ s i s', Inv s → S.step s i = some s' → Inv s') :
    ∀ s, Reach S s → Inv s := by
  intro s h
  induction h with
  | init => exact inv_init
  | step _ hs ih => exact inv_step _ _ _ ih hs

/-- invariant induction that may use reachability of the source state (for stacking invariants) -/
theorem inv_induction' {S : Sys σ ι} (Inv : σ → Prop)
    (inv_init : Inv S.init)
    (inv_step : ∀ s i s', Reach S s → Inv s → S.step s i = some s' → Inv s') :
    ∀ s, Reach S s → Inv s := by
  intro s h
  induction h with
  | init => exact inv_init
  | step hr hs ih => exact inv_step _ _ _ hr ih hs

theorem inv_from {S : Sys σ ι} (Inv : σ → Prop) {s₀ : σ}
    (h0 : Inv s₀)
    (inv_step : ∀ s i s', Inv s → S.step s i = some s' → Inv s') :
    ∀ s, ReachFrom S s₀ s → Inv s := by
  intro s h
  induction h with
  | refl => exact h0
  | step _ hs ih => exact inv_step _ _ _ ih hs

/-- strict run: every step of the schedule must be enabled -/
def run (S : Sys σ ι) : σ → List ι → Option σ
  | s, [] => some s
  | s, i :: rest =>
    match S.step s i with
    | some s' => run S s' rest
    | none => none

/-- lenient run: a step of a blocked actor is skipped -/
def runSkip (S : Sys σ ι) : σ → List ι → σ
  | s, [] => s
  | s, i :: rest =>
    match S.step s i with
    | some s' => runSkip S s' rest
    | none => runSkip S s rest

theorem run_reachFrom {S : Sys σ ι} {s s' : σ} {sched : List ι}
    (h : run S s sched = some s') : ReachFrom S s s' := by
  induction sched generalizing s with
  | nil => simp [run] at h; subst h; exact .refl
  | cons i rest ih =>
    simp only [run] at h
    split at h
    · rename_i s₁ hs
      exact (ih h).head hs
    · cases h

theorem run_reach {S : Sys σ ι} {s' : σ} {sched : List ι}
    (h : run S S.init sched = some s') : Reach S s' :=
  (run_reachFrom h).reach .init

theorem runSkip_reachFrom {S : Sys σ ι} (s : σ) (sched : List ι) :
    ReachFrom S s (runSkip S s sched) := by
  induction sched generalizing s with
  | nil => exact .refl
  | cons i rest ih =>
    simp only [runSkip]
    split
    · rename_i s₁ hs
      exact (ih s₁).head hs
    · exact ih s

theorem runSkip_reach {S : Sys σ ι} (sched : List ι) : Reach S (runSkip S S.init sched) :=
  (runSkip_reachFrom S.init sched).reach .init

/-- every reachable state is the end of a strict run -/
theorem reach_exists_run {S : Sys σ ι} {s : σ} (h : Reach S s) :
    ∃ sched, run S S.init sched = some s := by
  induction h with
  | init => exact ⟨[], rfl⟩
  | step _ hs ih =>
    rename_i s₁ s₂ i _
    obtain ⟨sched, hr⟩ := ih
    refine ⟨sched ++ [i], ?_⟩
    have : ∀ (a : σ) (l : List ι), run S a l = some s₁ → run S a (l ++ [i]) = some s₂ := by
      intro a l
      induction l generalizing a with
      | nil => intro h; simp [run] at h; subst h; simp [run, hs]
      | cons j l ih2 =>
        intro h
        simp only [run, List.cons_append] at h ⊢
        split at h
        · rename_i a' ha; exact ih2 a' h
        · cases h
    exact this _ _ hr

/-- Variant: if every enabled step of the actors in `P` strictly decreases `μ` and the other
    steps do not increase it … here in the simple form: all steps decrease. A strict run
    then has length at most `μ` of its start. -/
theorem run_length_le {S : Sys σ ι} (μ : σ → Nat)
    (hdec : ∀ s i s', S.step s i = some s' → μ s' < μ s)
    {s s' : σ} {sched : List ι} (h : run S s sched = some s') :
    sched.length + μ s' ≤ μ s := by
  induction sched generalizing s with
  | nil => simp [run] at h; subst h; simp
  | cons i rest ih =>
    simp only [run] at h
    split at h
    · rename_i s₁ hs
      have := ih h
      have := hdec _ _ _ hs
      simp only [List.length_cons]; omega
    · cases h

/-- the same for a sub-system: steps satisfying a (stable) side condition `C` -/
theorem run_length_le_of {S : Sys σ ι} (μ : σ → Nat) (C : σ → Prop)
    (hC : ∀ s i s', C s → S.step s i = some s' → C s')
    (hdec : ∀ s i s', C s → S.step s i = some s' → μ s' < μ s)
    {s s' : σ} {sched : List ι} (hs0 : C s) (h : run S s sched = some s') :
    sched.length + μ s' ≤ μ s := by
  induction sched generalizing s with
  | nil => simp [run] at h; subst h; simp
  | cons i rest ih =>
    simp only [run] at h
    split at h
    · rename_i s₁ hs
      have := ih (hC _ _ _ hs0 hs) h
      have := hdec _ _ _ hs0 hs
      simp only [List.length_cons]; omega
    · cases h

/-! ### bounded channels -/

structure Chan (α : Type) where
  buf : List α := []
  cap : Nat
  closed : Bool := false
deriving Repr, DecidableEq

namespace Chan
variable {α : Type}
/-- buffered send: blocked when full (no rendezvous here; see the models for hand-off) -/
def send? (c : Chan α) (x : α) : Option (Chan α) :=
  if c.buf.length < c.cap then some { c with buf := c.buf ++ [x] } else none
/-- receive: a value, or `none` when empty (the caller looks at `closed`) -/
def recv? (c : Chan α) : Option (α × Chan α) :=
  match c.buf with
  | x :: rest => some (x, { c with buf := rest })
  | [] => none
end Chan

/-! ### lists as per-actor tables -/

theorem getElem?_set_self' {α : Type} (l : List α) (i : Nat) (a b : α) (h : l[i]? = some a) :
    (l.set i b)[i]? = some b := by
  have hi : i < l.length := by
    rcases Nat.lt_or_ge i l.length with h' | h'
    · exact h'
    · rw [List.getElem?_eq_none h'] at h; cases h
  simp [hi]

/-- counting a predicate after replacing entry `i` -/
theorem countP_set {α : Type} (p : α → Bool) (l : List α) (i : Nat) (a b : α) (h : l[i]? = some a) :
    (l.set i b).countP p + (if p a then 1 else 0) = l.countP p + (if p b then 1 else 0) := by
  induction l generalizing i with
  | nil => simp at h
  | cons x xs ih =>
    cases i with
    | zero =>
      simp at h; subst h
      simp only [List.set_cons_zero, List.countP_cons]
      omega
    | succ n =>
      simp at h
      have := ih n h
      simp only [List.set_cons_succ, List.countP_cons]
      omega

/-- a `filterMap` over a table, split at entry `i` -/
theorem perm_filterMap_split {α β : Type} (f : α → Option β) (l : List α) (i : Nat) (a : α)
    (h : l[i]? = some a) :
    (l.filterMap f).Perm ((f a).toList ++ (l.eraseIdx i).filterMap f) := by
  induction l generalizing i with
  | nil => simp at h
  | cons x xs ih =>
    cases i with
    | zero =>
      simp at h; subst h
      simp only [List.eraseIdx_cons_zero, List.filterMap_cons]
      cases f x <;> simp
    | succ n =>
      simp at h
      have := ih n h
      simp only [List.eraseIdx_cons_succ, List.filterMap_cons]
      cases hx : f x with
      | none => simpa using this
      | some y =>
        simp only
        exact (List.Perm.cons y this).trans (List.perm_middle.symm)

theorem eraseIdx_set_self {α : Type} (l : List α) (i : Nat) (b : α) :
    (l.set i b).eraseIdx i = l.eraseIdx i := by
  induction l generalizing i with
  | nil => simp
  | cons x xs ih =>
    cases i with
    | zero => simp
    | succ n => simp [ih n]

/-- replacing entry `i` of a table: the `filterMap`s differ by the entry's contribution -/
theorem perm_filterMap_set {α β : Type} (f : α → Option β) (l : List α) (i : Nat) (a b : α)
    (h : l[i]? = some a) :
    ((f a).toList ++ (l.set i b).filterMap f).Perm ((f b).toList ++ l.filterMap f) := by
  have h1 := perm_filterMap_split f l i a h
  have h2 := perm_filterMap_split f (l.set i b) i b (getElem?_set_self' l i a b h)
  rw [eraseIdx_set_self] at h2
  -- (f a) ++ set ~ (f a) ++ (f b) ++ erase ;  (f b) ++ l ~ (f b) ++ (f a) ++ erase
  refine ((List.Perm.append_left _ h2).trans ?_).trans (List.Perm.append_left _ h1).symm
  rw [← List.append_assoc, ← List.append_assoc]
  exact List.Perm.append_right _ List.perm_append_comm

/-- the same as an equation between element counts (convenient for `omega`) -/
theorem count_filterMap_set {α β : Type} [BEq β] (f : α → Option β) (l : List α) (i : Nat) (a b : α)
    (h : l[i]? = some a) (x : β) :
    (f a).toList.count x + ((l.set i b).filterMap f).count x
      = (f b).toList.count x + (l.filterMap f).count x := by
  have := (perm_filterMap_set f l i a b h).count_eq x
  simpa [List.count_append] using this

theorem countP_lt_length_of {α : Type} (p : α → Bool) (l : List α) (i : Nat) (a : α)
    (h : l[i]? = some a) (hp : p a = false) : l.countP p < l.length := by
  induction l generalizing i with
  | nil => simp at h
  | cons x xs ih =>
    cases i with
    | zero =>
      simp at h; subst h
      have := List.countP_le_length (p := p) (l := xs)
      simp only [List.countP_cons, hp, List.length_cons]
      simp; omega
    | succ n =>
      simp at h
      have := ih n h
      simp only [List.countP_cons, List.length_cons]
      split <;> omega

theorem countP_pos_of {α : Type} (p : α → Bool) (l : List α) (i : Nat) (a : α)
    (h : l[i]? = some a) (hp : p a = true) : 0 < l.countP p := by
  induction l generalizing i with
  | nil => simp at h
  | cons x xs ih =>
    cases i with
    | zero => simp at h; subst h; simp [hp]
    | succ n => simp at h; have := ih n h; simp only [List.countP_cons]; omega

end Biogo.LTS
