/-
A byte-level model of Go's `bufio.Reader` ($GOROOT/src/bufio/bufio.go, go1.23): `fill`,
`ReadSlice`, `ReadLine`, `collectFragments`/`ReadBytes`, over an underlying `io.Reader` that may
return short reads, empty reads, and its final error together with or after the last bytes.

What is kept of the Go struct

    type Reader struct { buf []byte; rd io.Reader; r, w int; err error; … }

* `size`  = `len(b.buf)` (fixed when the reader is made; `NewReaderSize` enforces ≥ 16),
* `r`     = `b.r`,
* `data`  = `b.buf[b.r:b.w]`, the buffered bytes not yet delivered (so `b.w = r + data.length`),
* `err`   = `b.err`, the pending error of the underlying reader,
* `src`   = `b.rd`.

The bytes of `b.buf` outside `[r, w)` are not modelled: they are never read again, except by
`ReadLine`'s `b.r--`, which puts back the byte it has just seen to be `'\r'` (the last byte of the
full buffer `ReadSlice` returned).  `lastByte`/`lastRuneSize` (for `UnreadByte`/`UnreadRune`) are
not modelled.  Slices returned by `ReadSlice`/`ReadLine` are returned as values (the four biogo
readers copy them with `append`/`bytes.TrimSpace`+`string(...)` before the next read).

The three `panic`s of the code are state-dependent "should be unreachable" checks.
`panicked` records that one was hit; `Proofs/Bufio.lean` proves it never is.
(`errNegativeRead` cannot arise: a `Src` returns a list.)

Loops of the Go code are structural recursions on a fuel argument computed from the state;
`Proofs/Bufio.lean` proves that the fuel given is never what stops them.

Core only (the driver links this file).
-/
namespace Biogo.Go.Bufio

abbrev Bytes := List UInt8

inductive Err
  | eof                  -- io.EOF
  | bufferFull           -- bufio.ErrBufferFull
  | noProgress           -- io.ErrNoProgress
  | other (code : Nat)   -- any other error of the underlying reader
  deriving DecidableEq, Repr

/-! ### the underlying `io.Reader` -/

/-- An `io.Reader` over a fixed byte string.  `pol k n` is the number of bytes it is willing to
    deliver at its `k`-th call when handed a slice of `n` bytes (short reads; `0` = an empty read
    with a nil error).  When the data are exhausted it reports `fin` (`io.EOF` for a file), and
    keeps doing so; `withData` = it reports `fin` already together with the last bytes
    (`iotest.DataErrReader`), otherwise by a separate `(0, fin)` (files, `bytes.Reader`).
    A reader that fails in the middle with another error is the reader over the bytes delivered
    before with that error as `fin`. -/
structure Src where
  rest : Bytes
  pol : Nat → Nat → Nat := fun _ n => n
  withData : Bool := false
  fin : Err := .eof
  calls : Nat := 0

/-- `n, err := rd.Read(p)` with `len(p) = cap`: the bytes stored in `p[:n]`, `err`, the reader after -/
def Src.read (s : Src) (cap : Nat) : Bytes × Option Err × Src :=
  if s.rest.isEmpty then ([], some s.fin, { s with calls := s.calls + 1 })
  else
    let n := min (s.pol s.calls cap) (min cap s.rest.length)
    let rest := s.rest.drop n
    (s.rest.take n, if rest.isEmpty && s.withData then some s.fin else none,
     { s with rest := rest, calls := s.calls + 1 })

/-! ### `bufio.Reader` -/

structure Reader where
  size : Nat
  src : Src
  r : Nat := 0
  data : Bytes := []
  err : Option Err := none
  panicked : Bool := false

/-- `b.w` -/
def Reader.w (b : Reader) : Nat := b.r + b.data.length

/-- `b.Buffered()` = `b.w - b.r` -/
def Reader.buffered (b : Reader) : Nat := b.data.length

/-- the bytes not yet delivered to the caller: buffered, then still in the underlying reader -/
def Reader.stream (b : Reader) : Bytes := b.data ++ b.src.rest

def minReadBufferSize : Nat := 16
def defaultBufSize : Nat := 4096
def maxConsecutiveEmptyReads : Nat := 100

/-- `bufio.NewReaderSize(rd, size)` for an `rd` that is not itself a `*bufio.Reader` -/
def newReaderSize (src : Src) (size : Nat) : Reader := { size := max size minReadBufferSize, src := src }

/-- `bufio.NewReader(rd)` -/
def newReader (src : Src) : Reader := newReaderSize src defaultBufSize

/-- the read loop of `fill`: `for i := maxConsecutiveEmptyReads; i > 0; i-- { … }; b.err = io.ErrNoProgress` -/
def fillLoop : Nat → Reader → Reader
  | 0, b => { b with err := some .noProgress }
  | i + 1, b =>
    let (p, e, src) := b.src.read (b.size - b.w)          -- n, err := b.rd.Read(b.buf[b.w:])
    let b := { b with data := b.data ++ p, src := src }    -- b.w += n
    match e with
    | some e => { b with err := some e }                   -- b.err = err; return
    | none => if p.length > 0 then b else fillLoop i b      -- if n > 0 { return }

/-- `b.fill()` -/
def fill (b : Reader) : Reader :=
  -- Slide existing data to beginning.
  let b := if b.r > 0 then { b with r := 0 } else b
  -- if b.w >= len(b.buf) { panic("bufio: tried to fill full buffer") }
  let b := if b.w ≥ b.size then { b with panicked := true } else b
  fillLoop maxConsecutiveEmptyReads b

/-- `bytes.IndexByte` -/
def indexByte : Bytes → UInt8 → Option Nat
  | [], _ => none
  | x :: xs, c => if x == c then some 0 else (indexByte xs c).map (· + 1)

/-- the `for` loop of `ReadSlice`; `s` is the search start index.  Result: `line`, `err`, the
    reader afterwards. -/
def readSliceLoop (delim : UInt8) : Nat → Reader → Nat → Bytes × Option Err × Reader
  | 0, b, _ => ([], some .noProgress, { b with panicked := true })   -- out of fuel: never (`readSlice_fuel`)
  | fuel + 1, b, s =>
    -- Search buffer.
    match indexByte (b.data.drop s) delim with
    | some i =>
      let i := i + s
      -- line = b.buf[b.r : b.r+i+1]; b.r += i + 1
      (b.data.take (i + 1), none, { b with r := b.r + i + 1, data := b.data.drop (i + 1) })
    | none =>
      -- Pending error?
      match b.err with
      | some e =>
        -- line = b.buf[b.r:b.w]; b.r = b.w; err = b.readErr()
        (b.data, some e, { b with r := b.w, data := [], err := none })
      | none =>
        -- Buffer full?
        if b.buffered ≥ b.size then
          -- b.r = b.w; line = b.buf; err = ErrBufferFull       (here b.r = 0 and b.w = len(b.buf))
          (b.data, some .bufferFull, { b with r := b.w, data := [] })
        else
          -- s = b.w - b.r; b.fill()
          readSliceLoop delim fuel (fill b) b.buffered

/-- `b.ReadSlice(delim)`.  Every iteration that does not return adds a byte to the buffer or
    sets `b.err`. -/
def readSlice (delim : UInt8) (b : Reader) : Bytes × Option Err × Reader :=
  readSliceLoop delim (b.size - b.buffered + 2) b 0

/-- what `ReadLine` returns: `line`, `isPrefix`, `err` -/
structure Line where
  line : Bytes
  isPrefix : Bool
  err : Option Err
  deriving DecidableEq, Repr

/-- `b.ReadLine()` -/
def readLine (b : Reader) : Line × Reader :=
  let (line, err, b) := readSlice 10 b
  if err == some .bufferFull then
    -- Handle the case where "\r\n" straddles the buffer.
    if line.getLast? == some 13 then
      -- Put the '\r' back on buf and drop it from line.
      -- if b.r == 0 { panic("bufio: tried to rewind past start of buffer") }; b.r--
      (⟨line.dropLast, true, none⟩,
       { b with r := b.r - 1, data := 13 :: b.data, panicked := b.panicked || b.r == 0 })
    else (⟨line, true, none⟩, b)
  else if line.length == 0 then
    (⟨[], false, err⟩, b)                 -- if err != nil { line = nil }; return
  else
    -- err = nil
    if line.getLast? == some 10 then
      let drop := if line.length > 1 && line[line.length - 2]? == some 13 then 2 else 1
      (⟨line.take (line.length - drop), false, none⟩, b)
    else (⟨line, false, none⟩, b)

/-- the `for` loop of `collectFragments`: `full` are the copies of the full buffers -/
def collectLoop (delim : UInt8) : Nat → Reader → List Bytes → List Bytes × Bytes × Option Err × Reader
  | 0, b, full => (full, [], some .noProgress, { b with panicked := true })   -- never (`readBytes_fuel`)
  | fuel + 1, b, full =>
    let (frag, e, b) := readSlice delim b
    match e with
    | none => (full, frag, none, b)                                  -- got final fragment
    | some .bufferFull => collectLoop delim fuel b (full ++ [frag])   -- fullBuffers = append(fullBuffers, bytes.Clone(frag))
    | some e => (full, frag, some e, b)                              -- unexpected error

/-- `b.ReadBytes(delim)`: the full pieces and the final fragment copied into one new slice.
    Every full buffer takes `size ≥ 1` bytes off the stream. -/
def readBytes (delim : UInt8) (b : Reader) : Bytes × Option Err × Reader :=
  let (full, frag, err, b) := collectLoop delim (b.stream.length + 1) b []
  (full.flatten ++ frag, err, b)

/-! ### the two ways the biogo readers use it -/

/-- The head of the loop of `fasta.Reader.Read` and `fastq.Reader.Read`:

        for { buff, isPrefix, err = r.r.ReadLine(); if err != nil { … }
              line = append(line, buff...); if isPrefix { continue }; … }

    run until a complete line is in `line` (`none`) or `ReadLine` returns an error (then `line`
    holds the fragments collected so far).  Every `isPrefix` fragment takes at least
    `size - 1 ≥ 1` bytes off the stream. -/
def collectLine : Nat → Reader → Bytes → Bytes × Option Err × Reader
  | 0, b, line => (line, some .noProgress, { b with panicked := true })   -- never (`nextLine_fuel`)
  | fuel + 1, b, line =>
    let (l, b) := readLine b
    match l.err with
    | some e => (line, some e, b)
    | none =>
      let line := line ++ l.line
      if l.isPrefix then collectLine fuel b line else (line, none, b)

def nextLine (b : Reader) : Bytes × Option Err × Reader := collectLine (b.stream.length + 1) b []

/-- all the lines a `ReadLine` loop collects up to the first error, the fragments pending
    then, and that error -/
def allLinesAux : Nat → Reader → List Bytes × Bytes × Option Err
  | 0, _ => ([], [], none)                                                -- never (`allLines_fuel`)
  | fuel + 1, b =>
    match nextLine b with
    | (line, some e, _) => ([], line, some e)
    | (line, none, b) =>
      let (ls, pend, e) := allLinesAux fuel b
      (line :: ls, pend, e)

def allLines (b : Reader) : List Bytes × Bytes × Option Err := allLinesAux (b.stream.length + 1) b

/-- the successive results of `ReadBytes('\n')` (as in `bed.Reader.Read`, `gff.Reader.Read`,
    `gff.Reader.metaSeq`) up to and including the first that comes with an error -/
def allReadBytesAux : Nat → Reader → List (Bytes × Option Err)
  | 0, _ => []                                                            -- never (`allReadBytes_fuel`)
  | fuel + 1, b =>
    match readBytes 10 b with
    | (line, some e, _) => [(line, some e)]
    | (line, none, b) => (line, none) :: allReadBytesAux fuel b

def allReadBytes (b : Reader) : List (Bytes × Option Err) := allReadBytesAux (b.stream.length + 1) b

end Biogo.Go.Bufio
