/-
Goroutines as a labelled transition system (DESIGN.md §3.4).  Generic, core Lean only.

* `Sys σ ι`: a state type, an initial state and a partial step function per actor
  (`none` = that actor is blocked or has nothing left to do);
* `Reach`, invariant induction (`inv_of_reach`);
* schedules: `run` (strict: every scheduled step must be enabled), `runSkip` (lenient: a
  blocked step is skipped and flagged — what a schedule-forcing harness can do), `finish`
  (run a fixed fair policy until nobody can move or the fuel is spent);
* `Stuck`, `Chan` (bounded FIFO channel with blocking send/receive), `Mutex`.

The atomic blocks of a model built on this are the code between two hook points, so a
schedule of the model can be forced on the implementation.
-/
namespace Biogo.Interleave

structure Sys (σ : Type) (ι : Type) where
  init : σ
  step : σ → ι → Option σ

variable {σ ι : Type}

/-- states reachable by some interleaving -/
inductive Reach (S : Sys σ ι) : σ → Prop where
  | init : Reach S S.init
  | step {s s' : σ} {i : ι} : Reach S s → S.step s i = some s' → Reach S s'

/-- invariant induction -/
theorem inv_of_reach (S : Sys σ ι) (Inv : σ → Prop) (h0 : Inv S.init)
    (hstep : ∀ s i s', Inv s → S.step s i = some s' → Inv s') : ∀ s, Reach S s → Inv s := by
  intro s hr
  induction hr with
  | init => exact h0
  | step _ hs ih => exact hstep _ _ _ ih hs

/-- invariant induction that may use reachability of the source state -/
theorem inv_of_reach' (S : Sys σ ι) (Inv : σ → Prop) (h0 : Inv S.init)
    (hstep : ∀ s i s', Reach S s → Inv s → S.step s i = some s' → Inv s') : ∀ s, Reach S s → Inv s := by
  intro s hr
  induction hr with
  | init => exact h0
  | step hr' hs ih => exact hstep _ _ _ hr' ih hs

def enabled (S : Sys σ ι) (s : σ) (i : ι) : Bool := (S.step s i).isSome

/-- nobody can move -/
def Stuck (S : Sys σ ι) (s : σ) : Prop := ∀ i, S.step s i = none

/-- strict schedule: `none` as soon as a scheduled actor is blocked -/
def runFrom (S : Sys σ ι) : σ → List ι → Option σ
  | s, [] => some s
  | s, i :: is =>
    match S.step s i with
    | some s' => runFrom S s' is
    | none => none

def run (S : Sys σ ι) (sched : List ι) : Option σ := runFrom S S.init sched

/-- lenient schedule: a blocked step is skipped; the flags say which steps ran -/
def runSkipFrom (S : Sys σ ι) : σ → List ι → σ × List Bool
  | s, [] => (s, [])
  | s, i :: is =>
    match S.step s i with
    | some s' => let (t, fl) := runSkipFrom S s' is; (t, true :: fl)
    | none => let (t, fl) := runSkipFrom S s is; (t, false :: fl)

def runSkip (S : Sys σ ι) (sched : List ι) : σ × List Bool := runSkipFrom S S.init sched

theorem reach_runFrom (S : Sys σ ι) : ∀ (sched : List ι) (s t : σ), Reach S s →
    runFrom S s sched = some t → Reach S t := by
  intro sched
  induction sched with
  | nil => intro s t hr h; simp only [runFrom, Option.some.injEq] at h; exact h ▸ hr
  | cons i is ih =>
    intro s t hr h
    simp only [runFrom] at h
    split at h
    · rename_i s' hs; exact ih s' t (Reach.step hr hs) h
    · simp at h

theorem reach_run (S : Sys σ ι) (sched : List ι) (t : σ) (h : run S sched = some t) : Reach S t :=
  reach_runFrom S sched S.init t Reach.init h

theorem reach_runSkipFrom (S : Sys σ ι) : ∀ (sched : List ι) (s : σ), Reach S s →
    Reach S (runSkipFrom S s sched).1 := by
  intro sched
  induction sched with
  | nil => intro s hr; exact hr
  | cons i is ih =>
    intro s hr
    simp only [runSkipFrom]
    split
    · rename_i s' hs; exact ih s' (Reach.step hr hs)
    · exact ih s hr

theorem reach_runSkip (S : Sys σ ι) (sched : List ι) : Reach S (runSkip S sched).1 :=
  reach_runSkipFrom S sched S.init Reach.init

/-- every reachable state is reached by a strict schedule -/
theorem reach_iff_run (S : Sys σ ι) (t : σ) : Reach S t ↔ ∃ sched, run S sched = some t := by
  constructor
  · intro hr
    induction hr with
    | init => exact ⟨[], rfl⟩
    | @step s s' i _ hs ih =>
      obtain ⟨sched, h⟩ := ih
      refine ⟨sched ++ [i], ?_⟩
      have aux : ∀ (l : List ι) (a : σ), runFrom S a l = some s → runFrom S a (l ++ [i]) = some s' := by
        intro l
        induction l with
        | nil => intro a h; simp only [runFrom, Option.some.injEq] at h; subst h; simp [runFrom, hs]
        | cons j js ihl =>
          intro a h
          cases ha : S.step a j with
          | none => simp [runFrom, ha] at h
          | some a' =>
            simp only [runFrom, ha, List.cons_append] at h ⊢
            exact ihl a' h
      exact aux sched S.init h
  · rintro ⟨sched, h⟩; exact reach_run S sched t h

/-- run a fixed policy: repeatedly step the first enabled actor of `actors s`, at most `fuel` times -/
def finish (S : Sys σ ι) (actors : σ → List ι) : Nat → σ → σ
  | 0, s => s
  | fuel + 1, s =>
    match (actors s).findSome? (fun i => S.step s i) with
    | some s' => finish S actors fuel s'
    | none => s

theorem reach_finish (S : Sys σ ι) (actors : σ → List ι) : ∀ (fuel : Nat) (s : σ), Reach S s →
    Reach S (finish S actors fuel s) := by
  intro fuel
  induction fuel with
  | zero => intro s hr; exact hr
  | succ n ih =>
    intro s hr
    simp only [finish]
    split
    · rename_i s' hs
      obtain ⟨i, _, hi⟩ := List.exists_of_findSome?_eq_some hs
      exact ih s' (Reach.step hr hi)
    · exact hr

/-! ### bounded FIFO channels -/

structure Chan (α : Type) where
  cap : Nat
  buf : List α
deriving Repr

namespace Chan
variable {α : Type}

def send (c : Chan α) (x : α) : Option (Chan α) :=
  if c.buf.length < c.cap then some { c with buf := c.buf ++ [x] } else none

def recv (c : Chan α) : Option (α × Chan α) :=
  match c.buf with
  | [] => none
  | x :: r => some (x, { c with buf := r })

theorem send_isSome (c : Chan α) (x : α) : (c.send x).isSome = decide (c.buf.length < c.cap) := by
  unfold send; split <;> simp [*]

theorem recv_isSome (c : Chan α) : c.recv.isSome = !c.buf.isEmpty := by
  unfold recv; cases c.buf <;> simp

theorem send_buf {c c' : Chan α} {x : α} (h : c.send x = some c') :
    c'.buf = c.buf ++ [x] ∧ c'.cap = c.cap ∧ c.buf.length < c.cap := by
  unfold send at h
  split at h
  · simp only [Option.some.injEq] at h; subst h; exact ⟨rfl, rfl, by assumption⟩
  · simp at h

theorem recv_buf {c c' : Chan α} {x : α} (h : c.recv = some (x, c')) :
    c.buf = x :: c'.buf ∧ c'.cap = c.cap := by
  unfold recv at h
  split at h
  · simp at h
  · rename_i y r hb
    simp only [Option.some.injEq, Prod.mk.injEq] at h
    obtain ⟨rfl, rfl⟩ := h
    exact ⟨hb, rfl⟩

end Chan

/-! ### mutex -/

abbrev Mutex (ι : Type) := Option ι

def Mutex.lock [DecidableEq ι] (m : Mutex ι) (i : ι) : Option (Mutex ι) :=
  match m with
  | none => some (some i)
  | some _ => none

def Mutex.unlock [DecidableEq ι] (m : Mutex ι) (i : ι) : Option (Mutex ι) :=
  if m = some i then some none else none

end Biogo.Interleave
