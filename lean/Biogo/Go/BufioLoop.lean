/-
The shape of the loops of `fasta.Reader.Read` and `fastq.Reader.Read` over a `bufio.Reader`:

    for {
        buff, isPrefix, err = r.r.ReadLine()
        if err != nil { …atErr(state, line, err)… }       // return, or go on (FASTA: pending line)
        line = append(line, buff...)
        if isPrefix { continue }
        …body(state, line)…                               // return, or `continue` with a new state
        line = line[:0]                                    // (or nil, or the empty TrimSpace result)
    }

`runLazy` runs it on the byte-level model, pulling one line at a time (`nextLine` is the
`ReadLine`/`append`/`isPrefix` part); `runDrained` runs the same `body`/`atErr` on the lines of a
list, as the line-level reader models of C01–C04 do.  `Proofs/BufioLazy.lean` proves they agree.
Core only.
-/
import Biogo.Go.Bufio

namespace Biogo.Go.Bufio

/-- one call of `Read`, lines pulled from the `bufio.Reader` as the loop goes; `none` = out of fuel -/
def runLazy {σ ρ : Type} (body : σ → Bytes → σ ⊕ ρ) (atErr : σ → Bytes → Err → σ ⊕ ρ) :
    Nat → σ → Reader → Option (ρ × Reader)
  | 0, _, _ => none
  | fuel + 1, s, b =>
    match nextLine b with
    | (line, some e, b') =>
      match atErr s line e with
      | .inl s' => runLazy body atErr fuel s' b'
      | .inr r => some (r, b')
    | (line, none, b') =>
      match body s line with
      | .inl s' => runLazy body atErr fuel s' b'
      | .inr r => some (r, b')

/-- the same on a drained input: the complete lines, the fragments pending at the final error
    `fin`; returns what is left of both -/
def runDrained {σ ρ : Type} (body : σ → Bytes → σ ⊕ ρ) (atErr : σ → Bytes → Err → σ ⊕ ρ) (fin : Err) :
    Nat → σ → List Bytes → Bytes → Option (ρ × List Bytes × Bytes)
  | 0, _, _, _ => none
  | fuel + 1, s, [], pend =>
    match atErr s pend fin with
    | .inl s' => runDrained body atErr fin fuel s' [] []
    | .inr r => some (r, [], [])
  | fuel + 1, s, l :: ls, pend =>
    match body s l with
    | .inl s' => runDrained body atErr fin fuel s' ls pend
    | .inr r => some (r, ls, pend)

end Biogo.Go.Bufio
