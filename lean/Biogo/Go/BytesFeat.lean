/-
Byte-level Go library functions used by the BED and GFF readers and writers
(`io/featio/bed`, `io/featio/gff`), modelled over `List UInt8`.  Core-only.

* `lines`        — the successive results of `bufio.Reader.ReadBytes('\n')`: every line keeps
                   its terminator; an unterminated non-empty tail is the last element.
* `trimSpace`    — `bytes.TrimSpace` = `TrimRightFunc (TrimLeftFunc s IsSpace) IsSpace` with
                   UTF-8 decoding: the white-space runes are the six ASCII ones, U+0085, U+00A0,
                   U+1680, U+2000–U+200A, U+2028, U+2029, U+202F, U+205F, U+3000.  A rune is
                   recognised exactly when its (shortest-form) encoding is present, so trimming
                   is "strip encodings of white-space runes from both ends".
* `removeSpaces` — `bytes.Join(bytes.Fields(s), nil)`.
* `splitOn`, `splitN`, `joinWith` — `bytes.Split`, `bytes.SplitN` (n > 0), `bytes.Join` with a
                   one-byte separator.
* `parseUint`, `parseInt` — `strconv.ParseUint(s, 0, bits)`, `strconv.ParseInt(s, 0, bits)`:
                   sign, `0x/0o/0b/0` prefixes, underscore rule, range errors.
* `formatInt`    — `strconv.FormatInt(i, 10)` / `%d`.
-/
namespace Biogo.BytesFeat

abbrev Bytes := List UInt8

/-- bytes of an ASCII string literal (keywords and separators of the formats) -/
def ofString (s : String) : Bytes := s.toList.map fun c => UInt8.ofNat c.toNat

/-! ### white space -/

/-- `asciiSpace` of package bytes: `\t \n \v \f \r` and space -/
def isAsciiSpace (c : UInt8) : Bool := c == 9 || c == 10 || c == 11 || c == 12 || c == 13 || c == 32

/-- `unicode.IsSpace(rune(b))` for one byte taken as a Latin-1 rune (used by gff `splitAnnot`) -/
def isSpaceByte (c : UInt8) : Bool := isAsciiSpace c || c == 0x85 || c == 0xA0

/-- two-byte encodings of white-space runes: U+0085, U+00A0 -/
def isSpace2 (a b : UInt8) : Bool := a == 0xC2 && (b == 0x85 || b == 0xA0)

/-- three-byte encodings of white-space runes -/
def isSpace3 (a b c : UInt8) : Bool :=
  (a == 0xE1 && b == 0x9A && c == 0x80) ||
  (a == 0xE2 && b == 0x80 && ((0x80 ≤ c && c ≤ 0x8A) || c == 0xA8 || c == 0xA9 || c == 0xAF)) ||
  (a == 0xE2 && b == 0x81 && c == 0x9F) ||
  (a == 0xE3 && b == 0x80 && c == 0x80)

/-- `bytes.TrimLeftFunc(s, unicode.IsSpace)` -/
def trimLeft : Bytes → Bytes
  | [] => []
  | a :: r =>
    if isAsciiSpace a then trimLeft r
    else match r with
      | [] => [a]
      | b :: r2 =>
        if isSpace2 a b then trimLeft r2
        else match r2 with
          | [] => [a, b]
          | c :: r3 => if isSpace3 a b c then trimLeft r3 else a :: b :: c :: r3

/-- the same on the reversed string (its head is the last byte) -/
def dropSpaceRev : Bytes → Bytes
  | [] => []
  | a :: r =>
    if isAsciiSpace a then dropSpaceRev r
    else match r with
      | [] => [a]
      | b :: r2 =>
        if isSpace2 b a then dropSpaceRev r2
        else match r2 with
          | [] => [a, b]
          | c :: r3 => if isSpace3 c b a then dropSpaceRev r3 else a :: b :: c :: r3

/-- `bytes.TrimRightFunc(s, unicode.IsSpace)` -/
def trimRight (s : Bytes) : Bytes := (dropSpaceRev s.reverse).reverse

/-- `bytes.TrimSpace` -/
def trimSpace (s : Bytes) : Bytes := trimRight (trimLeft s)

/-- length of the encoded white-space rune the string starts with (0: none) -/
def spaceLen : Bytes → Nat
  | [] => 0
  | a :: r =>
    if isAsciiSpace a then 1
    else match r with
      | [] => 0
      | b :: r2 =>
        if isSpace2 a b then 2
        else match r2 with
          | [] => 0
          | c :: _ => if isSpace3 a b c then 3 else 0

/-- the same on the reversed string: length of the encoded white-space rune the string ends with -/
def spaceLenRev : Bytes → Nat
  | [] => 0
  | a :: r =>
    if isAsciiSpace a then 1
    else match r with
      | [] => 0
      | b :: r2 =>
        if isSpace2 b a then 2
        else match r2 with
          | [] => 0
          | c :: _ => if isSpace3 c b a then 3 else 0

/-- `removeSpacesAux k s`: skip `k` bytes, then delete white space -/
def removeSpacesAux : Nat → Bytes → Bytes
  | _, [] => []
  | k + 1, _ :: r => removeSpacesAux k r
  | 0, a :: r =>
    match spaceLen (a :: r) with
    | 0 => a :: removeSpacesAux 0 r
    | n + 1 => removeSpacesAux n r

/-- `bytes.Join(bytes.Fields(s), nil)`: delete every encoded white-space rune.  (A rune that is
    not white space is kept; advancing by one byte instead of the rune's width is equivalent,
    because no white-space encoding starts with a continuation byte.) -/
def removeSpaces (s : Bytes) : Bytes := removeSpacesAux 0 s

/-! ### lines -/

/-- successive results of `ReadBytes('\n')` until `io.EOF` with no data -/
def lines : Bytes → List Bytes
  | [] => []
  | c :: r =>
    if c == 10 then [10] :: lines r
    else match lines r with
      | [] => [[c]]
      | l :: ls => (c :: l) :: ls

/-- LF → CRLF -/
def crlf : Bytes → Bytes
  | [] => []
  | c :: r => if c == 10 then 13 :: 10 :: crlf r else c :: crlf r

/-! ### split / join -/

/-- `bytes.Split(s, []byte{sep})`: always at least one piece -/
def splitOn (sep : UInt8) : Bytes → List Bytes
  | [] => [[]]
  | c :: r =>
    if c == sep then [] :: splitOn sep r
    else match splitOn sep r with
      | [] => [[c]]
      | p :: ps => (c :: p) :: ps

/-- `bytes.SplitN(s, []byte{sep}, n)` for `n ≥ 1`: at most `n` pieces, the last one unsplit -/
def splitN (sep : UInt8) : Nat → Bytes → List Bytes
  | 0, _ => []
  | 1, s => [s]
  | _ + 2, [] => [[]]
  | n + 2, c :: r =>
    if c == sep then [] :: splitN sep (n + 1) r
    else match splitN sep (n + 2) r with
      | [] => [[c]]
      | p :: ps => (c :: p) :: ps

/-- `bytes.Join(ps, []byte{sep})` -/
def joinWith (sep : UInt8) : List Bytes → Bytes
  | [] => []
  | [p] => p
  | p :: q :: ps => p ++ sep :: joinWith sep (q :: ps)

/-- `bytes.Join(ps, sep)` with a separator string -/
def joinWithS (sep : Bytes) : List Bytes → Bytes
  | [] => []
  | [p] => p
  | p :: q :: ps => p ++ sep ++ joinWithS sep (q :: ps)

def hasPrefix (p s : Bytes) : Bool := p.isPrefixOf s

/-! ### strconv integers -/

inductive NumErr | syntax | range
  deriving DecidableEq, Repr

/-- strconv's `lower` -/
def lower (c : UInt8) : UInt8 := c ||| 0x20

/-- value of a digit character in bases up to 36 -/
def digitVal (c : UInt8) : Option Nat :=
  if 48 ≤ c && c ≤ 57 then some (c.toNat - 48)
  else if 97 ≤ lower c && lower c ≤ 122 then some ((lower c).toNat - 97 + 10)
  else none

/-- the digit loop of `ParseUint` (base-0 call: underscores are skipped and remembered) -/
def uintLoop (base maxVal : Nat) : Bytes → Nat → Bool → Except NumErr (Nat × Bool)
  | [], n, us => .ok (n, us)
  | c :: r, n, us =>
    if c == 95 then uintLoop base maxVal r n true
    else match digitVal c with
      | none => .error .syntax
      | some d =>
        if d ≥ base then .error .syntax
        else if n ≥ (2 ^ 64 - 1) / base + 1 then .error .range
        else if n * base + d > maxVal then .error .range
        else uintLoop base maxVal r (n * base + d) us

/-- strconv's `underscoreOK` scanning loop; `saw`: 0 `^`, 1 digit/prefix, 2 `_`, 3 other -/
def usLoop (hex : Bool) : Bytes → Nat → Bool
  | [], saw => saw != 2
  | c :: r, saw =>
    if (48 ≤ c && c ≤ 57) || (hex && 97 ≤ lower c && lower c ≤ 102) then usLoop hex r 1
    else if c == 95 then (if saw != 1 then false else usLoop hex r 2)
    else if saw == 2 then false
    else usLoop hex r 3

def underscoreOK (s0 : Bytes) : Bool :=
  let s := match s0 with
    | c :: r => if c == 45 || c == 43 then r else s0
    | [] => s0
  match s with
  | z :: p :: r =>
    if z == 48 && (lower p == 98 || lower p == 111 || lower p == 120) then usLoop (lower p == 120) r 1
    else usLoop false s 0
  | _ => usLoop false s 0

/-- base and remaining digits chosen by the base-0 prefix rule of `ParseUint` -/
def basePrefix (s : Bytes) : Nat × Bytes :=
  match s with
  | z :: rest =>
    if z == 48 then
      match rest with
      | p :: r =>
        if r.length ≥ 1 && lower p == 98 then (2, r)
        else if r.length ≥ 1 && lower p == 111 then (8, r)
        else if r.length ≥ 1 && lower p == 120 then (16, r)
        else (8, rest)
      | [] => (8, rest)
    else (10, s)
  | [] => (10, s)

/-- `strconv.ParseUint(s, 0, bits)` -/
def parseUint (s : Bytes) (bits : Nat) : Except NumErr Nat :=
  if s.isEmpty then .error .syntax
  else
    let (base, ds) := basePrefix s
    match uintLoop base (2 ^ bits - 1) ds 0 false with
    | .error e => .error e
    | .ok (n, us) => if us && !underscoreOK s then .error .syntax else .ok n

/-- `strconv.ParseInt(s, 0, bits)` -/
def parseInt (s : Bytes) (bits : Nat) : Except NumErr Int :=
  match s with
  | [] => .error .syntax
  | c :: r =>
    let neg := c == 45
    let u := if c == 43 || c == 45 then r else s
    match parseUint u bits with
    | .error e => .error e
    | .ok un =>
      let cutoff := 2 ^ (bits - 1)
      if !neg && un ≥ cutoff then .error .range
      else if neg && un > cutoff then .error .range
      else .ok (if neg then -(un : Int) else (un : Int))

def digitChar (d : Nat) : UInt8 := UInt8.ofNat (48 + d)

/-- decimal digits of a natural number, most significant first, no leading zeros -/
def natDigits (n : Nat) : Bytes :=
  if n < 10 then [digitChar n] else natDigits (n / 10) ++ [digitChar (n % 10)]

/-- `strconv.FormatInt(i, 10)` -/
def formatInt (i : Int) : Bytes :=
  if i < 0 then 45 :: natDigits i.natAbs else natDigits i.natAbs

/-- comma separated integers (`-` never occurs: the empty list gives the empty string) -/
def commaInts (xs : List Int) : Bytes := joinWith 44 (xs.map formatInt)

/-- two's complement wrap to 64 bits (Go `int` arithmetic) -/
def wrap64 (i : Int) : Int := (i + 2 ^ 63) % 2 ^ 64 - 2 ^ 63

def minInt64 : Int := -(2 ^ 63)
def maxInt64 : Int := 2 ^ 63 - 1
def inInt64 (i : Int) : Bool := minInt64 ≤ i && i ≤ maxInt64

/-! ### panics -/

/-- what a Go panic carries -/
inductive PanicVal (ε : Type)
  | error (e : ε)                -- a value implementing `error` that is not a runtime.Error
  | runtime (what : String)      -- runtime.Error (index out of range, nil dereference, …)
  | value (what : String)        -- any other value (e.g. a string)
  deriving DecidableEq, Repr

/-- result of a Go function with a named error result that may also panic -/
inductive Res (ε α : Type)
  | ok (a : α)
  | ret (e : ε)
  | panic (p : PanicVal ε)
  deriving Repr

def Res.bind {ε α β} (r : Res ε α) (f : α → Res ε β) : Res ε β :=
  match r with
  | .ok a => f a
  | .ret e => .ret e
  | .panic p => .panic p

instance {ε} : Monad (Res ε) where
  pure := .ok
  bind := Res.bind

/-- `handlePanic` as written in both packages: a recovered value that implements `error` and
    is not a `runtime.Error` becomes the returned error (and the result is nil); everything
    else is re-raised -/
def handlePanic {ε α} : Res ε α → Res ε α
  | .panic (.error e) => .ret e
  | r => r

/-- slice indexing `f[i]` -/
def idx {ε} (f : List Bytes) (i : Nat) : Res ε Bytes :=
  match f[i]? with
  | some x => .ok x
  | none => .panic (.runtime "index out of range")

end Biogo.BytesFeat
