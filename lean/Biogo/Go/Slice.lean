/-
Go slices with aliasing, over an explicit heap of backing arrays (DESIGN.md §3.1).

A Go slice value is a header `(array, offset, len, cap)`; two slices alias exactly when they
name the same backing array and their windows overlap.  `Heap α` is the store of backing
arrays (array `a` is `arrays[a]`; allocation appends, nothing is ever freed).  Go functions
become state-passing functions over `Heap`.  `append` writes in place iff `len + n ≤ cap`,
otherwise it allocates; the capacity of the new array is `grow cap (len+n)` for a growth
policy `grow` that is a parameter (only `grow c n ≥ n` is ever assumed, and the model clamps it).

Backing arrays are `List`s (the heaps the models build hold at most a few hundred arrays of
at most a few hundred cells, and `List.set`/`take`/`drop` have the lemma library the frame
proofs need).  Core-only.
-/
namespace Biogo.Go

/-- a slice header: backing array id, offset of element 0, length, capacity
    (`off + cap` is the end of the backing array as seen from this slice) -/
structure Slice where
  arr : Nat
  off : Nat
  len : Nat
  cap : Nat
  deriving DecidableEq, Repr, Inhabited

/-- the nil slice (array id is irrelevant: length and capacity are 0) -/
def Slice.nil : Slice := ⟨0, 0, 0, 0⟩

structure Heap (α : Type) where
  arrays : List (List α)

namespace Heap
variable {α : Type}

def empty : Heap α := ⟨[]⟩

def size (h : Heap α) : Nat := h.arrays.length

/-- backing array `a` (empty when never allocated) -/
def arr (h : Heap α) (a : Nat) : List α := h.arrays[a]?.getD []

/-- the elements visible through a slice -/
def read (h : Heap α) (s : Slice) : List α := ((h.arr s.arr).drop s.off).take s.len

/-- `s[i]` (`none` = index out of range, a Go panic) -/
def get? (h : Heap α) (s : Slice) (i : Nat) : Option α :=
  if i < s.len then (h.arr s.arr)[s.off + i]? else none

/-- `s[i]` with a default for out-of-range reads (callers establish the range) -/
def get (h : Heap α) (s : Slice) (i : Nat) (d : α) : α := (h.get? s i).getD d

/-- `s[i] = v`; out of range leaves the heap unchanged (callers establish the range) -/
def set (h : Heap α) (s : Slice) (i : Nat) (v : α) : Heap α :=
  if i < s.len then ⟨h.arrays.modify s.arr (fun xs => xs.set (s.off + i) v)⟩ else h

/-- allocate a new backing array -/
def alloc (h : Heap α) (xs : List α) : Heap α × Nat := (⟨h.arrays ++ [xs]⟩, h.arrays.length)

/-- `make([]T, len, cap)` (cap is raised to len if smaller) -/
def make (h : Heap α) (len cap : Nat) (zero : α) : Heap α × Slice :=
  let cap := max len cap
  let (h', a) := h.alloc (List.replicate cap zero)
  (h', ⟨a, 0, len, cap⟩)

/-- a fresh slice holding `xs` with capacity `cap ≥ xs.length` -/
def ofList (h : Heap α) (xs : List α) (cap : Nat) (zero : α) : Heap α × Slice :=
  let cap := max xs.length cap
  let (h', a) := h.alloc (xs ++ List.replicate (cap - xs.length) zero)
  (h', ⟨a, 0, xs.length, cap⟩)

/-- overwrite the first `min s.len xs.length` elements of `s` with `xs` -/
def writeList (h : Heap α) (s : Slice) (xs : List α) : Heap α :=
  let n := min s.len xs.length
  ⟨h.arrays.modify s.arr (fun a => a.take s.off ++ xs.take n ++ a.drop (s.off + n))⟩

/-- `copy(dst, src)`: memmove semantics (the source is read before anything is written) -/
def copy (h : Heap α) (dst src : Slice) : Heap α × Nat :=
  (h.writeList dst (h.read src), min dst.len src.len)

/-- `append(s, xs...)`: in place iff `s.len + xs.length ≤ s.cap`, else a new array of
    capacity `max (grow s.cap need) need` holding the old elements then `xs`. -/
def append (grow : Nat → Nat → Nat) (h : Heap α) (s : Slice) (xs : List α) (zero : α) :
    Heap α × Slice :=
  let need := s.len + xs.length
  if need ≤ s.cap then
    (h.writeList ⟨s.arr, s.off + s.len, xs.length, s.cap - s.len⟩ xs, { s with len := need })
  else
    h.ofList (h.read s ++ xs) (grow s.cap need) zero

end Heap

/-- `s[lo:hi]` (`none` = slice bounds out of range, a Go panic) -/
def Slice.slice (s : Slice) (lo hi : Nat) : Option Slice :=
  if lo ≤ hi ∧ hi ≤ s.cap then some ⟨s.arr, s.off + lo, hi - lo, s.cap - lo⟩ else none

/-- exact-fit growth: the policy the executable driver uses -/
def growExact : Nat → Nat → Nat := fun _ need => need

/-- a slice lies inside an allocated array of the heap -/
def Slice.ValidIn {α : Type} (s : Slice) (h : Heap α) : Prop :=
  s.len ≤ s.cap ∧ s.off + s.cap ≤ (h.arr s.arr).length

/-! ### frame lemmas -/
namespace Heap
variable {α : Type}

theorem arr_modify_same (h : Heap α) (a : Nat) (f : List α → List α) (ha : a < h.arrays.length) :
    (Heap.mk (h.arrays.modify a f)).arr a = f (h.arr a) := by
  simp only [arr, List.getElem?_modify]
  rw [List.getElem?_eq_getElem ha]
  simp

theorem arr_modify_other (h : Heap α) (a b : Nat) (f : List α → List α) (hne : a ≠ b) :
    (Heap.mk (h.arrays.modify a f)).arr b = h.arr b := by
  simp only [arr, List.getElem?_modify]
  cases h.arrays[b]? <;> simp [hne]

theorem arr_lt_of_ne_nil {h : Heap α} {a : Nat} (hne : h.arr a ≠ []) : a < h.arrays.length := by
  simp only [arr] at hne
  cases hx : h.arrays[a]? with
  | none => simp [hx] at hne
  | some _ => exact (List.getElem?_eq_some_iff.mp hx).1

/-- a write through `s` is seen through `s` as `List.set` -/
theorem read_set_same (h : Heap α) (s : Slice) (i : Nat) (v : α)
    (ha : s.arr < h.arrays.length) :
    (h.set s i v).read s = (h.read s).set i v := by
  unfold set
  by_cases hi : i < s.len
  · simp only [hi, if_true, read]
    rw [arr_modify_same h s.arr _ ha, ← List.set_drop, List.take_set]
  · simp only [hi, if_false, read]
    rw [List.set_eq_of_length_le]
    simp only [List.length_take]
    omega

/-- a write through `s` is invisible through any slice on another array -/
theorem read_set_other (h : Heap α) (s t : Slice) (i : Nat) (v : α) (hne : s.arr ≠ t.arr) :
    (h.set s i v).read t = h.read t := by
  unfold set
  by_cases hi : i < s.len
  · simp only [hi, if_true, read, arr_modify_other h s.arr t.arr _ hne]
  · simp only [hi, if_false]

theorem arr_set_other (h : Heap α) (s : Slice) (i : Nat) (v : α) (b : Nat) (hne : s.arr ≠ b) :
    (h.set s i v).arr b = h.arr b := by
  unfold set
  by_cases hi : i < s.len
  · simp only [hi, if_true, arr_modify_other h s.arr b _ hne]
  · simp only [hi, if_false]

theorem size_set (h : Heap α) (s : Slice) (i : Nat) (v : α) : (h.set s i v).size = h.size := by
  unfold set size
  by_cases hi : i < s.len <;> simp [hi]

theorem get?_eq_read (h : Heap α) (s : Slice) (i : Nat) : h.get? s i = (h.read s)[i]? := by
  unfold get? read
  by_cases hi : i < s.len
  · simp [hi, List.getElem?_drop]
  · simp only [hi, if_false]
    rw [eq_comm, List.getElem?_eq_none_iff]
    simp only [List.length_take]
    omega

/-- allocation does not change any existing array -/
theorem arr_alloc_old (h : Heap α) (xs : List α) (a : Nat) (ha : a < h.arrays.length) :
    (h.alloc xs).1.arr a = h.arr a := by
  simp only [alloc, arr, List.getElem?_append_left ha]

theorem arr_alloc_new (h : Heap α) (xs : List α) : (h.alloc xs).1.arr (h.alloc xs).2 = xs := by
  simp [alloc, arr]

theorem size_alloc (h : Heap α) (xs : List α) : (h.alloc xs).1.size = h.size + 1 := by
  simp [alloc, size]

theorem read_alloc_old (h : Heap α) (xs : List α) (s : Slice) (ha : s.arr < h.arrays.length) :
    (h.alloc xs).1.read s = h.read s := by
  simp only [read, arr_alloc_old h xs s.arr ha]

/-- `ofList` returns a slice on a brand-new array that reads back `xs` -/
theorem read_ofList (h : Heap α) (xs : List α) (cap : Nat) (z : α) :
    (h.ofList xs cap z).1.read (h.ofList xs cap z).2 = xs := by
  simp only [ofList, read]
  rw [arr_alloc_new]
  simp

theorem ofList_arr (h : Heap α) (xs : List α) (cap : Nat) (z : α) :
    (h.ofList xs cap z).2.arr = h.arrays.length := rfl

theorem read_ofList_old (h : Heap α) (xs : List α) (cap : Nat) (z : α) (s : Slice)
    (ha : s.arr < h.arrays.length) : (h.ofList xs cap z).1.read s = h.read s := by
  simp only [ofList]
  exact read_alloc_old h _ s ha

theorem size_ofList (h : Heap α) (xs : List α) (cap : Nat) (z : α) :
    (h.ofList xs cap z).1.size = h.size + 1 := by
  simp only [ofList]
  exact size_alloc h _

/-- a write never changes the length of any backing array -/
theorem length_arr_set (h : Heap α) (s : Slice) (i : Nat) (v : α) (b : Nat) :
    ((h.set s i v).arr b).length = (h.arr b).length := by
  unfold set
  by_cases hi : i < s.len
  · simp only [hi, if_true, arr, List.getElem?_modify]
    cases h.arrays[b]? with
    | none => rfl
    | some xs =>
      by_cases e : s.arr = b <;> simp [e]
  · simp only [hi, if_false]

theorem length_set (h : Heap α) (s : Slice) (i : Nat) (v : α) :
    (h.set s i v).arrays.length = h.arrays.length := size_set h s i v

end Heap
end Biogo.Go
