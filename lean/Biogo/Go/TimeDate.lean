/-
`time.Parse("2006-1-02", s)` — the layout `gff.Astronomical` of the `##date` metadata line —
modelled exactly as to success or failure ($GOROOT/src/time/format.go, `parse`, go1.23).

The layout has three chunks (`nextStdChunk`): `stdLongYear` ("2006"), then the literal "-" and
`stdNumMonth` ("1"), then the literal "-" and `stdZeroDay` ("02"); after them nothing may be left.

* `stdLongYear`: `len(value) >= 4`, the first byte is a digit, and `atoi(value[0:4])` succeeds:
  all four bytes are digits (a sign is excluded by the first test).  Year 0000 is accepted.
* `skip(value, "-")`: the next byte is `-`.
* `stdNumMonth`: `getnum(value, false)`: one digit, or two when the second byte is a digit too
  (greedy); then `month <= 0 || 12 < month` is the error "month out of range".
* `stdZeroDay`: `getnum(value, true)`: exactly two digits.
* end: `len(value) != 0` is the error "extra text".
* finally `day < 1 || day > daysIn(Month(month), year)` is "day out of range" (`isLeap`: divisible
  by 4 and not by 100, or by 400).

Core only.
-/
namespace Biogo.Go.TimeDate

abbrev Bytes := List UInt8

def isDigit (b : UInt8) : Bool := 48 ≤ b && b ≤ 57

def dval (b : UInt8) : Nat := b.toNat - 48

/-- `time.isLeap` -/
def isLeap (year : Nat) : Bool := year % 4 == 0 && (year % 100 != 0 || year % 400 == 0)

/-- `time.daysIn` -/
def daysIn (month year : Nat) : Nat :=
  if month == 2 then (if isLeap year then 29 else 28)
  else if month == 4 || month == 6 || month == 9 || month == 11 then 30 else 31

/-- `getnum(s, false)`: the number and the rest, `none` = `errBad` -/
def getnum : Bytes → Option (Nat × Bytes)
  | [] => none
  | a :: r =>
    if !isDigit a then none
    else match r with
      | b :: r' => if isDigit b then some (dval a * 10 + dval b, r') else some (dval a, r)
      | [] => some (dval a, [])

/-- the date (year, month, day) `time.Parse("2006-1-02", s)` accepts, `none` = an error -/
def parseAstronomical (s : Bytes) : Option (Nat × Nat × Nat) :=
  match s with
  | y1 :: y2 :: y3 :: y4 :: rest =>
    if !(isDigit y1 && isDigit y2 && isDigit y3 && isDigit y4) then none
    else
      let year := dval y1 * 1000 + dval y2 * 100 + dval y3 * 10 + dval y4
      match rest with
      | 45 :: rest =>                               -- skip(value, "-")
        match getnum rest with                       -- stdNumMonth
        | none => none
        | some (month, rest) =>
          if month == 0 || 12 < month then none      -- month out of range
          else match rest with
            | [45, d1, d2] =>                        -- "-", stdZeroDay (two digits), no extra text
              if !(isDigit d1 && isDigit d2) then none
              else
                let day := dval d1 * 10 + dval d2
                if day < 1 || day > daysIn month year then none   -- day out of range
                else some (year, month, day)
            | _ => none
      | _ => none
  | _ => none

def dateOK (s : Bytes) : Bool := (parseAstronomical s).isSome

/-! ### `t.Format("2006-1-02")` for a year 0..9999 -/

def digit (n : Nat) : UInt8 := UInt8.ofNat (48 + n % 10)

/-- four-digit year, month without padding, two-digit day -/
def formatAstronomical (year month day : Nat) : Bytes :=
  [digit (year / 1000), digit (year / 100), digit (year / 10), digit year] ++ 45 ::
  (if month < 10 then [digit month] else [digit (month / 10), digit month]) ++ 45 ::
  [digit (day / 10), digit day]

end Biogo.Go.TimeDate
