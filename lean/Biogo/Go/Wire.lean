/-
Wire format helpers for the line protocol between the Go harness and the Lean driver.

One case per line:  `<input>\t<implementation observation>`.
Inputs and observations are space-separated tokens; byte strings are lower-case hex
(`-` stands for the empty byte string); integers are decimal with optional `-`.
The driver answers one line per case:  `<status>\t<tags>\t<detail>` with
status ∈ ok | diff | fail | known:<Kid> | skip.
Core-only: this file must not import Mathlib (the driver is linked as an executable).
-/
namespace Biogo.Wire

def hexDigit (n : Nat) : Char :=
  if n < 10 then Char.ofNat (48 + n) else Char.ofNat (87 + n)

def hexOfByte (b : UInt8) : String :=
  String.ofList [hexDigit (b.toNat / 16), hexDigit (b.toNat % 16)]

def hexOfBytes (bs : List UInt8) : String :=
  if bs.isEmpty then "-" else String.join (bs.map hexOfByte)

def hexVal (c : Char) : Option Nat :=
  if '0' ≤ c ∧ c ≤ '9' then some (c.toNat - 48)
  else if 'a' ≤ c ∧ c ≤ 'f' then some (c.toNat - 87)
  else if 'A' ≤ c ∧ c ≤ 'F' then some (c.toNat - 55)
  else none

def bytesOfHexAux : List Char → List UInt8 → Option (List UInt8)
  | [], acc => some acc.reverse
  | [_], _ => none
  | a :: b :: rest, acc =>
    match hexVal a, hexVal b with
    | some x, some y => bytesOfHexAux rest (UInt8.ofNat (x * 16 + y) :: acc)
    | _, _ => none

def bytesOfHex (s : String) : Option (List UInt8) :=
  if s == "-" then some [] else bytesOfHexAux s.toList []

def parseInt (s : String) : Option Int := s.toInt?

def parseNat (s : String) : Option Nat := s.toNat?

def parseBool (s : String) : Option Bool :=
  if s == "1" || s == "true" then some true
  else if s == "0" || s == "false" then some false
  else none

def showBool (b : Bool) : String := if b then "1" else "0"

/-- Split on single spaces, dropping empty tokens. -/
def tokens (s : String) : List String :=
  (s.splitOn " ").filter (· ≠ "")

/-- Split a case line into input and observation at the first tab. -/
def splitCase (line : String) : String × String :=
  match line.splitOn "\t" with
  | [] => ("", "")
  | [a] => (a, "")
  | a :: b :: _ => (a, b)

/-- comma separated list of integers, `-` for the empty list -/
def parseInts (s : String) : Option (List Int) :=
  if s == "-" then some [] else (s.splitOn ",").mapM parseInt

def showInts (xs : List Int) : String :=
  if xs.isEmpty then "-" else ",".intercalate (xs.map toString)

def parseNats (s : String) : Option (List Nat) :=
  if s == "-" then some [] else (s.splitOn ",").mapM parseNat

def showNats (xs : List Nat) : String :=
  if xs.isEmpty then "-" else ",".intercalate (xs.map toString)

structure Verdict where
  status : String
  tags : List String := []
  detail : String := ""

def Verdict.render (v : Verdict) : String :=
  v.status ++ "\t" ++ ",".intercalate v.tags ++ "\t" ++ v.detail

def ok (tags : List String := []) : Verdict := { status := "ok", tags }
def diff (model : String) (tags : List String := []) : Verdict :=
  { status := "diff", tags, detail := "model=" ++ model }
def fail (why : String) (tags : List String := []) : Verdict :=
  { status := "fail", tags, detail := why }
def known (kid why : String) (tags : List String := []) : Verdict :=
  { status := "known:" ++ kid, tags, detail := why }
def bad (why : String) : Verdict := { status := "bad-line", detail := why }

end Biogo.Wire
