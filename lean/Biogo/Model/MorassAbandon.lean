/-
C13, third wave — a sorter that is abandoned with `CleanUp` while chunk writers are in flight.

`Morass.CleanUp` is `os.RemoveAll(m.dir)`; it does not wait for the `write()` activations that
are still running.  This file extends the labelled transition system of `Model/MorassConc.lean`
by what happens once the temporary directory is gone:

* `ioutil.TempFile(m.dir, …)` in a directory that no longer exists fails (ENOENT), the failure is
  recorded with `setErr` and the activation returns its buffer (`wstepD`: the block `write.recv`
  when `dirExists = false`; the hook point `write.tempfile` is still passed, so an armed fault of
  that kind is counted).  A writer that created its file *before* the directory was removed goes
  on encoding into the unlinked file (`wstep` unchanged: `onDisk` is not touched).
* the caller may end its program with `CleanUp` (`abandon`): when it has returned from its last
  call — the last call of the program, or the call that returned an I/O error after which it
  gives up — it calls `CleanUp` (one more block of actor 0), whatever the writers are doing.

`sysA` coincides with `sys` as long as the directory exists (`Properties/C13_abandon.lean`).
The first-wave system `sys` is left as it is (its `TempFile` does not look at `dirExists`,
see notes/C13.md "AutoClean and continued use").  Core Lean only.
-/
import Biogo.Model.MorassConc

namespace Biogo.MorassConc
open Biogo.Morass Biogo.Interleave

/-- one atomic block of a `write()` activation, `TempFile` failing when the directory is gone -/
def wstepD (s : CState) (w : Writer) : Option (Writer × CState) :=
  if w.pc = .recv ∧ s.dirExists = false then
    match s.writable.recv with
    | none => none
    | some (r, ch) =>
      some ({ w with pc := .ret, todo := sortRun r },
            { s with writable := ch, flt := (tick s.flt .tempfile).2, m := setErr s.m .ioerr })
  else wstep s w

/-- one atomic block of the caller (the inline `m.write()` of `Finalise` uses `wstepD`) -/
def cstepD (s : CState) : Option CState :=
  if s.pc = .finWrite then
    match wstepD s s.inl with
    | none => none
    | some (w, s') => some { s' with inl := w, pc := if w.pc = .done then .finWait else .finWrite }
  else cstep s

structure AState where
  s : CState
  abandon : Bool := false     -- the caller ends with `CleanUp`
  cleaned : Bool := false     -- … and has done so
  inflight : Nat := 0         -- bookkeeping: `write()` activations that had not ended at that moment
deriving Repr

/-- actor 0 = caller (its last block is `CleanUp` when `abandon`), actor k+1 = k-th writer -/
def stepA (a : AState) : Nat → Option AState
  | 0 =>
    if finished a.s then
      if a.abandon && !a.cleaned then
        some { a with s := cleanUp a.s, cleaned := true, inflight := a.s.writers.countP (·.pc != .done) }
      else none
    else (cstepD a.s).map (fun s' => { a with s := s' })
  | k + 1 =>
    match a.s.writers[k]? with
    | none => none
    | some w =>
      match wstepD a.s w with
      | none => none
      | some (w', s') => some { a with s := { s' with writers := s'.writers.set k w' } }

def sysA (conc : Bool) (chunkSize : Nat) (autoClear autoClean : Bool) (prog : List Op) (flt : Fault)
    (reuse abandon : Bool) : Sys AState Nat :=
  { init := { s := initState conc chunkSize autoClear autoClean prog flt reuse, abandon }, step := stepA }

def actorsA (a : AState) : List Nat := actors a.s

/-- the caller has returned from every call, `CleanUp` included -/
def finishedA (a : AState) : Bool := finished a.s && (!a.abandon || a.cleaned)

end Biogo.MorassConc
