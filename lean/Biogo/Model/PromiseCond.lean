/-
`concurrent.Promise` with the condition variable spelled out (concurrent/promise.go after fix
F19), core Lean only.

`Biogo.Promise.sys` abstracts `Wait`'s first block — `p.m.Lock(); for len(p.message) == 0 {
p.set.Wait() }; r := <-p.message` — into "enabled iff the mutex is free and the mailbox is
full".  Here the sleep on `p.set` is a state of its own:

  Wait:  start | woken  --(mutex free)  mailbox full:  take the message            --> borrowed r   (hook b; mutex held)
                                        mailbox empty: `p.set.Wait()`: unlock, sleep --> sleeping
         sleeping       not enabled; a setter that places a message wakes it          --> woken
         borrowed r     put the message back, unlock                                 --> done

  Fulfill / Fail / Recover / Break: one atomic block under the mutex, as in `Biogo.Promise`;
  `fulfill` and `fail` — hence also `Recover` of a recoverable promise with a non-nil value —
  place a message and then wake the sleepers: `Wake.broadcast` (the code: `p.set.Broadcast()`)
  wakes all of them, `Wake.signal` (the seeded change C19-m2: `p.set.Signal()`) only one.

`abs` forgets the sleep (`sleeping`, `woken` ↦ `start`); Proofs/PromiseCond.lean shows that every
step here is a step of `Biogo.Promise.sys` or leaves the abstract state unchanged, so every
theorem about `Biogo.Promise.sys` holds for this protocol too, and proves what the abstraction
had assumed: nobody sleeps while the promise holds a Result.
-/
import Biogo.Model.Promise

namespace Biogo.PromiseCond
open Biogo.LTS Biogo.Promise

inductive FPc where
  | start | sleeping | woken | borrowed (r : Res) | done (ret : Ret)
deriving Repr, DecidableEq, Inhabited

structure FSt where
  box : Option Res
  mu : Option Nat
  pcs : List FPc
deriving Repr, DecidableEq

inductive Wake where
  | broadcast | signal
deriving Repr, DecidableEq

structure FCfg where
  flags : Flags
  calls : List Call
  wake : Wake
deriving Repr

def finit (c : FCfg) : FSt := { box := none, mu := none, pcs := List.replicate c.calls.length .start }

def wakePc : FPc → FPc
  | .sleeping => .woken
  | pc => pc

/-- `p.set.Broadcast()` -/
def wakeAll (pcs : List FPc) : List FPc := pcs.map wakePc

/-- `p.set.Signal()`: one sleeper (the first in the table) -/
def wakeOne : List FPc → List FPc
  | [] => []
  | .sleeping :: rest => .woken :: rest
  | pc :: rest => pc :: wakeOne rest

def wake : Wake → List FPc → List FPc
  | .broadcast => wakeAll
  | .signal => wakeOne

/-- does the call run `fulfill` or `fail` (which place a message and wake the sleepers)? -/
def places (f : Flags) : Call → Bool
  | .fulfill _ => true
  | .fail _ _ => true
  | .recover v => f.recoverable && v.isSome
  | _ => false

def fstep (c : FCfg) (s : FSt) (i : Nat) : Option FSt :=
  match c.calls[i]?, s.pcs[i]? with
  | some .wait, some (.borrowed r) =>
    some { box := some r, mu := none, pcs := s.pcs.set i (.done (.res r)) }
  | some .wait, some (.done _) => none
  | some .wait, some .sleeping => none
  | some .wait, some _ =>            -- start or woken: Lock, look at the mailbox
    match s.mu with
    | some _ => none
    | none =>
      match s.box with
      | some r => some { box := none, mu := some i, pcs := s.pcs.set i (.borrowed r) }
      | none => some { s with pcs := s.pcs.set i .sleeping }
  | some call, some .start =>
    match s.mu with
    | none =>
      let (b, ret) := atomicCall c.flags s.box call
      let pcs1 := s.pcs.set i (.done ret)
      some { s with box := b, pcs := if places c.flags call then wake c.wake pcs1 else pcs1 }
    | some _ => none
  | _, _ => none

def fsys (c : FCfg) : Sys FSt Nat := { init := finit c, step := fstep c }

/-! ### the abstraction to `Biogo.Promise` -/

def absPc : FPc → APc
  | .start | .sleeping | .woken => .start
  | .borrowed r => .borrowed r
  | .done ret => .done ret

def abs (s : FSt) : St := { box := s.box, mu := s.mu, pcs := s.pcs.map absPc }

def absCfg (c : FCfg) : Cfg := { flags := c.flags, calls := c.calls, fixed := true }

def FPc.isDone : FPc → Bool
  | .done _ => true
  | _ => false

def fallDone (s : FSt) : Bool := s.pcs.all FPc.isDone

end Biogo.PromiseCond
