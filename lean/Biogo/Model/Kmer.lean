/-
Model of /repo/index/kmerindex/kmerindex.go (and util.Pow4).  Core-only.

`Kmer` is `uint32`: words are `Nat`s, left shifts are truncated to `wordBits` bits exactly
where the Go code shifts a `Kmer`; `|`, `&`, `>>`, `^` are the `Nat` bit operations.
`finger` and `pos` are arrays read with `rd` (0 outside) — the Go code would panic on an
out-of-range access in `Build`/`KmerPositions`; the theorems show the accesses are in range.
`ForEachKmerOf` recovers a slice-index panic into its returned error: `Iter.err`.
-/
import Biogo.Spec.Kmer

namespace Biogo.Kmer
open Biogo.Spec.Kmer (Lookup)

/-- `type Kmer uint32` (tied to the source by `Biogo.Generated.KmerFacts.kmerBits`) -/
def wordBits : Nat := 32
/-- `MinKmerLen`, `MaxKmerLen` (64-bit `int`) -/
def minKmerLen : Nat := 4
def maxKmerLen : Nat := 16

/-- conversion to `Kmer` / overflow of a `Kmer` shift -/
def trunc (w : Nat) : Nat := w % 2 ^ wordBits
/-- `util.Pow4(n) = uint(1) << (2*uint(n))` -/
def pow4 (n : Nat) : Nat := 1 <<< (2 * n)
/-- `kMask: Kmer(util.Pow4(k) - 1)` -/
def kMask (k : Nat) : Nat := trunc (pow4 k - 1)

/-- `(kmer << 2) | Kmer(currentBase)` -/
def push (kmer c : Nat) : Nat := trunc (kmer <<< 2) ||| c

/-- loop state of `ForEachKmerOf`: the rolling word and the `high` watermark (first
    position whose window contains no invalid letter seen so far) -/
structure Roll where
  kmer : Nat
  high : Nat
  deriving Repr, DecidableEq

/-- one iteration of the preload loop, `basePosition = bp` -/
def preStep (lk : Lookup) (r : Roll) (bp : Nat) (b : UInt8) : Roll :=
  match lk b with
  | some c => { r with kmer := push r.kmer c }
  | none => { kmer := 0, high := bp + 1 }

/-- `for ; basePosition < start+k-1; basePosition++ { … }` over the letters it reads -/
def preload (lk : Lookup) : List UInt8 → Nat → Roll → Roll
  | [], _, r => r
  | b :: bs, bp, r => preload lk bs (bp + 1) (preStep lk r bp b)

/-- the body of the main loop up to the test `position >= high`; `bp` is `basePosition`
    before its increment -/
def mainStep (lk : Lookup) (k : Nat) (r : Roll) (bp : Nat) (b : UInt8) : Roll :=
  match lk b with
  | some c => { r with kmer := push r.kmer c &&& kMask k }
  | none => { kmer := 0, high := bp + 1 }

/-- `for position := basePosition-k+1; basePosition < end; position++ { … }` over the letters
    it reads; the result is the list of callback arguments `(position, kmer)` in call order -/
def mainLoop (lk : Lookup) (k : Nat) : List UInt8 → (bp position : Nat) → Roll → List (Nat × Nat)
  | [], _, _, _ => []
  | b :: bs, bp, position, r =>
    let r' := mainStep lk k r bp b
    let rest := mainLoop lk k bs (bp + 1) (position + 1) r'
    if position ≥ r'.high then (position, r'.kmer) :: rest else rest

structure Iter where
  calls : List (Nat × Nat)
  /-- an index into `s.Seq` was out of range (recovered, returned as the error) -/
  err : Bool
  deriving Repr, DecidableEq

/-- `ForEachKmerOf(s, start, end, f)` with `f` recording its arguments -/
def forEachKmer (lk : Lookup) (k : Nat) (s : List UInt8) (start end_ : Nat) : Iter :=
  let pre := (s.drop start).take (k - 1)
  if pre.length < k - 1 then { calls := [], err := true }
  else
    let r := preload lk pre start { kmer := 0, high := 0 }
    let bp := start + (k - 1)
    let body := (s.drop bp).take (end_ - bp)
    { calls := mainLoop lk k body bp (bp + 1 - k) r, err := decide (body.length < end_ - bp) }

/-! ### finger / pos tables -/

def rd (a : Array Nat) (i : Nat) : Nat := (a[i]?).getD 0
/-- `a[i]++` -/
def incr (a : Array Nat) (i : Nat) : Array Nat := a.modify i (· + 1)

/-- `buildKmerTable`: `finger[kmer]++` for every callback -/
def buildTable (k : Nat) (calls : List (Nat × Nat)) : Array Nat :=
  calls.foldl (fun f c => incr f c.2) (Array.replicate (pow4 k + 1) 0)

inductive Err
  | kTooLarge | kTooSmall | shortSeq | badAlphabet | badKmer | badKmerTextLen | badKmerText | notBuilt
  deriving DecidableEq, Repr

def Err.code : Err → String
  | .kTooLarge => "ktoolarge" | .kTooSmall => "ktoosmall" | .shortSeq => "shortseq"
  | .badAlphabet => "badalphabet" | .badKmer => "badkmer" | .badKmerTextLen => "textlen"
  | .badKmerText => "text" | .notBuilt => "notbuilt"

structure Index where
  k : Nat
  seq : List UInt8
  finger : Array Nat
  pos : Array Nat
  indexed : Bool

/-- the `switch` at the head of `New(k, s)`; `alphaLen = s.Alpha.Len()`, `len = s.Len()` -/
def newCheck (alphaLen k len : Nat) : Option Err :=
  if k > maxKmerLen then some .kTooLarge
  else if k < minKmerLen then some .kTooSmall
  else if k + 1 > len then some .shortSeq
  else if alphaLen ≠ 4 then some .badAlphabet
  else none

/-- `New(k, s)` -/
def new (lk : Lookup) (alphaLen k : Nat) (s : List UInt8) : Except Err Index :=
  match newCheck alphaLen k s.length with
  | some e => .error e
  | none => .ok { k, seq := s, finger := buildTable k (forEachKmer lk k s 0 s.length).calls,
                  pos := #[], indexed := false }

/-- `for i, v := range finger { finger[i], sum = sum, sum+v }` from index `i`, `n` iterations left -/
def prefixLoop : Nat → Array Nat → Nat → Nat → Array Nat
  | 0, f, _, _ => f
  | n + 1, f, i, sum =>
    let v := rd f i
    prefixLoop n (f.setIfInBounds i sum) (i + 1) (sum + v)

/-- `locatePositions`: `pos[finger[kmer]] = position; finger[kmer]++` -/
def place (st : Array Nat × Array Nat) (c : Nat × Nat) : Array Nat × Array Nat :=
  match st with
  | (finger, pos) =>
    let at_ := rd finger c.2
    (incr finger c.2, pos.setIfInBounds at_ c.1)

/-- `Build()` -/
def build (lk : Lookup) (ix : Index) : Index :=
  let f := prefixLoop ix.finger.size ix.finger 0 0
  let pos0 := Array.replicate (ix.seq.length - ix.k + 1) 0
  let st := (forEachKmer lk ix.k ix.seq 0 ix.seq.length).calls.foldl place (f, pos0)
  { ix with finger := st.1, pos := st.2, indexed := true }

/-- `KmerPositions(kmer)` -/
def kmerPositions (ix : Index) (kmer : Nat) : Except Err (List Nat) :=
  if kmer > kMask ix.k then .error .badKmer
  else
    let i := if kmer > 0 then rd ix.finger (kmer - 1) else 0
    let j := rd ix.finger kmer
    if i = j then .ok [] else .ok ((ix.pos.extract i j).toList)

/-- `for i := range finger { … }` collecting results by increasing `i` (`n` = number of entries) -/
def collect {α} (g : Nat → Option α) : Nat → List α → List α
  | 0, acc => acc
  | n + 1, acc => collect g n (match g n with | some x => x :: acc | none => acc)

/-- `KmerFrequencies()`: the non-zero finger entries, by increasing k-mer -/
def kmerFrequencies (ix : Index) : Option (List (Nat × Nat)) :=
  if ix.indexed then none
  else some (collect (fun i =>
    let f := rd ix.finger i
    if f > 0 then some (i, f) else none) ix.finger.size [])

/-- `KmerIndex()`: the non-empty position lists, by increasing k-mer -/
def kmerIndex (ix : Index) : Option (List (Nat × List Nat)) :=
  if !ix.indexed then none
  else some (collect (fun i =>
    match kmerPositions ix i with
    | .ok (p :: ps) => some (i, p :: ps)
    | _ => none) ix.finger.size [])

/-- the callback of `Check()` for one k-mer: is `position` among `pos[base : finger[kmer])` -/
def checkHit (ix : Index) (c : Nat × Nat) : Bool :=
  let base := if c.2 = 0 then 0 else rd ix.finger (c.2 - 1)
  let hi := rd ix.finger c.2
  (List.range (hi - base)).any fun j => rd ix.pos (base + j) == c.1

/-- `Check()`: `(ok, found)` -/
def check (lk : Lookup) (ix : Index) : Bool × Nat :=
  let it := forEachKmer lk ix.k ix.seq 0 ix.seq.length
  let hits := it.calls.map (checkHit ix)
  (hits.all id && !it.err, hits.countP id)

/-! ### words and strings -/

def kmerOfLoop (lk : Lookup) : List UInt8 → Nat → Except Err Nat
  | [], w => .ok w
  | v :: vs, w =>
    match lk v with
    | some x => kmerOfLoop lk vs (push w x)
    | none => .error .badKmerText

/-- `KmerOf(k, lookUp, kmertext)` for ASCII text (one rune per byte) -/
def kmerOf (lk : Lookup) (k : Nat) (text : List UInt8) : Except Err Nat :=
  if text.length ≠ k then .error .badKmerTextLen else kmerOfLoop lk text 0

/-- `for i := k-1; i >= 0; i, kmer = i-1, kmer>>2 { kmertext[i] = alpha.Letter(int(kmer&3)) }`;
    `n` iterations left, `acc` = the letters already written (positions `n … k-1`) -/
def formatLoop (letter : Nat → UInt8) : Nat → Nat → List UInt8 → List UInt8
  | 0, _, acc => acc
  | n + 1, kmer, acc => formatLoop letter n (kmer >>> 2) (letter (kmer &&& 3) :: acc)

/-- `Format(kmer, k, alpha)` for a four-letter alphabet -/
def format (letter : Nat → UInt8) (k kmer : Nat) : List UInt8 := formatLoop letter k kmer []

/-- `gc += int((kmer & 1) ^ ((kmer & 2) >> 1))` for `k` digits; the numerator of `GCof` -/
def gcLoop : Nat → Nat → Nat → Nat
  | 0, _, gc => gc
  | n + 1, kmer, gc => gcLoop n (kmer >>> 2) (gc + ((kmer &&& 1) ^^^ ((kmer &&& 2) >>> 1)))

def gcOf (k kmer : Nat) : Nat := gcLoop k kmer 0

/-- `^x` on `uint32` -/
def not32 (x : Nat) : Nat := x ^^^ (2 ^ wordBits - 1)

/-- one iteration of `ComplementOf`'s loop body -/
def compStep (kmer i j c : Nat) : Nat :=
  c ||| ((not32 (kmer >>> (j - i)) &&& trunc (3 <<< i)) ||| trunc ((not32 (kmer >>> i) &&& 3) <<< j))

/-- `for i, j := uint(0), uint(k-1)*2; i <= j; i, j = i+2, j-2 { c |= … }`.
    `j - 2` on `j < 2` would wrap around in Go (only reachable for `k = 1`); the model stops. -/
def compLoop (kmer : Nat) : Nat → Nat → Nat → Nat → Nat
  | 0, _, _, c => c
  | fuel + 1, i, j, c =>
    if i ≤ j then
      let c' := compStep kmer i j c
      if j < 2 then c' else compLoop kmer fuel (i + 2) (j - 2) c'
    else c

/-- `ComplementOf(k, kmer)` for `k ≥ 2` -/
def complementOf (k kmer : Nat) : Nat := compLoop kmer k 0 ((k - 1) * 2) 0

end Biogo.Kmer
