/-
Model of the banded x-drop kernel of PALS, `align/pals/dp/kernel.go` (`traceForward`,
`traceReverse`, `alignRecursion`) and of the driver loop of `AlignTraps` (`align.go`).  Core-only.

Coordinates: `i` = boundary in the query (row), `j` = boundary in the target (column).
`traceForward` and `traceReverse` are the same dynamic program run in opposite directions; the
source spells it out twice.  Here the program is written once (`traceCore`, in the forward form)
over two letter accessors, and `traceReverse` is `traceCore` on the mirrored coordinates
`i' = Qlen - i`, `j' = Tlen - j` (letters `query[Qlen-1-i']`, `target[Tlen-j']`), results mapped
back.  The correspondence (`Drive/C15.lean`) compares every hit of the model with the
implementation's, which is what checks the transcription, mirror included.

What is *not* represented: the two re-used vectors and their re-allocation (a row here is a fresh
array; the code only reads cells of the previous row that were written in that row — columns
`low … high` after pruning — so stale contents are never read), integer overflow, and the `float64`
arithmetic of the identity test and of the coverage test (exact rationals here).
-/
import Biogo.Model.PalsOracle
import Biogo.Model.PalsMerge

namespace Biogo.PalsKernel
open Biogo.PalsOracle (Hit)
open Biogo.PalsMerge (Trap)

/-- `dp.Costs` as far as the kernel reads it -/
structure Costs where
  maxIGap : Int
  diffCost : Int
  matchCost : Int
  blockCost : Int
  /-- `RMatchCost`, integral -/
  rMatchCost : Int
  deriving Repr

/-- `valueToCode[letter] >= 0` for `alphabet.DNA` -/
def validLetter (c : Nat) : Bool :=
  c == 97 || c == 99 || c == 103 || c == 116 || c == 65 || c == 67 || c == 71 || c == 84

/-- `k.query.Seq[i] == k.target.Seq[j] && k.valueToCode[k.query.Seq[i]] >= 0` -/
def isMatch (q t : Nat) : Bool := q == t && validLetter q

/-- one row of the table: `vals[j - lo]` is the cell of column `j` -/
structure Row where
  lo : Int
  vals : Array Int
  deriving Repr

def Row.at (r : Row) (j : Int) : Int := r.vals.getD (j - r.lo).toNat 0

/-- the directed view of the two sequences the program runs on: the sequences themselves and the
    direction (`rev = true`: mirrored coordinates `i' = Qlen - i`, `j' = Tlen - j`).  The letters are
    read through `View.qAt` / `View.tAt` (arrays and a flag rather than two closures: the accessors
    are on the hot path of the compiled driver). -/
structure View where
  q : Array Nat
  t : Array Nat
  rev : Bool
  qlen : Int
  tlen : Int
  /-- the x-drop allowance in force while the step from row `i` is processed -/
  xf : Int → Int
  /-- `maxJ` starts at the basis end that was extended by `MaxIGap` (`traceReverse`: `maxJ = low`
      after `low -= MaxIGap`) rather than at the other one (`traceForward`: `maxJ = low`) -/
  bestAtExtended : Bool
  /-- the two pruning loops run `high` first (the mirror image of `traceReverse`'s `low` first);
      it matters only when every cell of the row is pruned -/
  pruneHighFirst : Bool

/-- the query letter consumed by the step from row `i` to row `i+1` (mirrored: `query[Qlen-1-i']`) -/
@[inline] def View.qAt (v : View) (i : Int) : Nat :=
  if v.rev then v.q.getD (v.qlen - 1 - i).toNat 0 else v.q.getD i.toNat 0

/-- the target letter consumed by the step from column `j-1` to column `j` (mirrored: `target[Tlen-j']`) -/
@[inline] def View.tAt (v : View) (j : Int) : Nat :=
  if v.rev then v.t.getD (v.tlen - j).toNat 0 else v.t.getD (j - 1).toNat 0

structure Best where
  score : Int
  i : Int
  j : Int
  deriving Repr

/-- the inner loop `for j = low+1; j <= high; j++` of one row; `cost` = the cell just written
    (`thisVector[j-1]`), `score` = `thatVector[j-1]` -/
def innerLoop (c : Costs) (v : View) (prev : Row) (i : Int) : Nat → Int → Int → Int → Array Int → Best →
    Int × Int × Array Int × Best
  | 0, _, cost, score, vals, best => (cost, score, vals, best)
  | n + 1, j, cost, score, vals, best =>
    let temp := cost
    let up := prev.at j
    let d := if isMatch (v.qAt i) (v.tAt j) then score + c.matchCost else score
    let ratchet := if up > d then up else d
    let ratchet := if temp > ratchet then temp else ratchet
    let cost' := ratchet - c.diffCost
    let best' : Best := if cost' ≥ best.score then ⟨cost', i + 1, j⟩ else best
    innerLoop c v prev i n (j + 1) cost' up (vals.push cost') best'

/-- `for j++; j <= tlen; j++ { score -= DiffCost; if score < maxScore-x { break }; this[j] = score }`;
    returns the row and the `j` at which the loop stopped -/
def extendLoop (c : Costs) (x maxScore tlen : Int) : Nat → Int → Int → Array Int → Array Int × Int
  | 0, j, _, vals => (vals, j)
  | n + 1, j, score, vals =>
    if j > tlen then (vals, j)
    else
      let score' := score - c.diffCost
      if score' < maxScore - x then (vals, j)
      else extendLoop c x maxScore tlen n (j + 1) score' (vals.push score')

/-- `for low <= high && this[low] < maxScore-x { low++ }` -/
def pruneLow (r : Row) (bound : Int) : Nat → Int → Int → Int
  | 0, low, _ => low
  | n + 1, low, high => if low ≤ high && r.at low < bound then pruneLow r bound n (low + 1) high else low

/-- `for low <= high && this[high] < maxScore-x { high-- }` -/
def pruneHigh (r : Row) (bound : Int) : Nat → Int → Int → Int
  | 0, _, high => high
  | n + 1, low, high => if low ≤ high && r.at high < bound then pruneHigh r bound n low (high - 1) else high

structure TState where
  row : Row
  low : Int
  high : Int
  best : Best
  maxLeft : Int
  maxRight : Int
  deriving Repr

/-- one iteration of `for i = mid; low <= high && i < Qlen; i++` -/
def rowStep (c : Costs) (v : View) (s : TState) (i : Int) : TState :=
  let x := v.xf i
  let score0 := s.row.at s.low
  let cost0 := score0 - c.diffCost
  let (cost, score, vals, best) :=
    innerLoop c v s.row i (s.high - s.low).toNat (s.low + 1) cost0 score0 #[cost0] s.best
  let j := s.high + 1
  let (vals, best, jEnd) :=
    if j ≤ v.tlen then
      let d := if isMatch (v.qAt i) (v.tAt j) then score + c.matchCost else score
      let ratchet := if cost > d then cost else d
      let sc := ratchet - c.diffCost
      let best' : Best := if sc > best.score then ⟨sc, i + 1, j⟩ else best
      let (vals', je) := extendLoop c x best'.score v.tlen (v.tlen - j).toNat (j + 1) sc (vals.push sc)
      (vals', best', je)
    else (vals, best, j)
  let row : Row := ⟨s.low, vals⟩
  let high := jEnd - 1
  let bound := best.score - x
  let (low', high') :=
    if v.pruneHighFirst then
      let h := pruneHigh row bound (high + 1 - s.low).toNat s.low high
      (pruneLow row bound (h + 1 - s.low).toNat s.low h, h)
    else
      let l := pruneLow row bound (high + 1 - s.low).toNat s.low high
      (l, pruneHigh row bound (high + 1 - l).toNat l high)
  { row := row, low := low', high := high', best := best
    maxRight := if (i + 1) - low' > s.maxRight then (i + 1) - low' else s.maxRight
    maxLeft := if (i + 1) - high' < s.maxLeft then (i + 1) - high' else s.maxLeft }

def rowLoop (c : Costs) (v : View) : Nat → Int → TState → TState
  | 0, _, s => s
  | n + 1, i, s => if s.low ≤ s.high && i < v.qlen then rowLoop c v n (i + 1) (rowStep c v s i) else s

/-- `for ; j <= high; j++ { this[j] = this[j-1] - DiffCost }` of the basis -/
def basisTail (c : Costs) : Nat → Int → Array Int → Array Int
  | 0, _, vals => vals
  | n + 1, last, vals => basisTail c n (last - c.diffCost) (vals.push (last - c.diffCost))

structure TraceOut where
  maxJ : Int
  maxI : Int
  maxLeft : Int
  maxRight : Int
  maxScore : Int
  deriving Repr, DecidableEq

/-- the program from the basis on, for clamped `0 ≤ low ≤ high ≤ tlen` -/
def traceCore (c : Costs) (v : View) (mid low high : Int) : TraceOut :=
  let zeros : Array Int := Array.replicate (high + 1 - low).toNat 0
  let high' := if high + c.maxIGap > v.tlen then v.tlen else high + c.maxIGap
  let vals := basisTail c (high' - high).toNat 0 zeros
  let s0 : TState :=
    { row := ⟨low, vals⟩, low := low, high := high', best := ⟨0, mid, if v.bestAtExtended then high' else low⟩
      maxRight := mid - low, maxLeft := mid - high' }
  let s := rowLoop c v (v.qlen - mid).toNat mid s0
  { maxJ := s.best.j, maxI := s.best.i, maxLeft := s.maxLeft, maxRight := s.maxRight, maxScore := s.best.score }

/-- the clamping at the head of both trace functions -/
def clampBounds (tlen low high : Int) : Int × Int :=
  let low := if low < 0 then 0 else low
  let low := if low > tlen then tlen else low
  let high := if high > tlen then tlen else high
  let high := if high < low then low else high
  (low, high)

structure Seqs where
  target : Array Nat
  query : Array Nat

def Seqs.tlen (s : Seqs) : Int := s.target.size
def Seqs.qlen (s : Seqs) : Int := s.query.size

/-- the view `traceForward` runs on -/
def fwdView (c : Costs) (s : Seqs) : View :=
  { q := s.query, t := s.target, rev := false, qlen := s.qlen, tlen := s.tlen,
    xf := fun _ => c.blockCost, bestAtExtended := false, pruneHighFirst := false }

/-- the view `traceReverse` runs on.  Mirrored: row `i'` stands for `i = Qlen - i'`, column `j'` for
    `j = Tlen - j'`; the step from row `i'` consumes `query[Qlen-1-i']`, i.e. it is the source's
    iteration `i = Qlen-1-i'`, which runs under `x0` down to `i = bottom` inclusive, then under
    `BlockCost`. -/
def revView (c : Costs) (s : Seqs) (bottom x0 : Int) : View :=
  { q := s.query, t := s.target, rev := true, qlen := s.qlen, tlen := s.tlen
    xf := fun i' => if s.qlen - 1 - i' ≥ bottom then x0 else c.blockCost
    bestAtExtended := true, pruneHighFirst := true }

/-- `traceForward(mid, low, high)`: `lowEnd` -/
def traceForward (c : Costs) (s : Seqs) (mid low high : Int) : TraceOut :=
  let (low, high) := clampBounds s.tlen low high
  traceCore c (fwdView c s) mid low high

/-- `traceReverse(top, low, high, bottom, xfactor)`: `highEnd`, on the mirrored view -/
def traceReverse (c : Costs) (s : Seqs) (top low high bottom xfactor : Int) : TraceOut :=
  let (low, high) := clampBounds s.tlen low high
  let x0 := if top - 1 ≤ bottom then c.blockCost else xfactor
  let o := traceCore c (revView c s bottom x0) (s.qlen - top) (s.tlen - high) (s.tlen - low)
  { maxJ := s.tlen - o.maxJ, maxI := s.qlen - o.maxI
    -- `i - j = (Qlen - Tlen) - (i' - j')`
    maxLeft := (s.qlen - s.tlen) - o.maxRight, maxRight := (s.qlen - s.tlen) - o.maxLeft
    maxScore := o.maxScore }

/-! ### `alignRecursion` and `AlignTraps` -/

/-- `dp.Hit` -/
structure KHit where
  h : Hit
  lowDiagonal : Int
  highDiagonal : Int
  /-- numerator of `Error = errNum / (RMatchCost * blen)` -/
  errNum : Int
  deriving Repr, DecidableEq

/-- the `for x := 1; x == 1 || …; x++` loop around `traceReverse`; `x` = the value for the next call -/
def reverseLoop (c : Costs) (s : Seqs) (mid : Int) (lowEnd : TraceOut) : Nat → Int → TraceOut → TraceOut
  | 0, _, r => r
  | n + 1, x, r =>
    if r.maxI > mid + x * c.maxIGap && r.maxScore < lowEnd.maxScore then
      reverseLoop c s mid lowEnd n (x + 1)
        (traceReverse c s lowEnd.maxI lowEnd.maxJ lowEnd.maxJ (mid + c.maxIGap) (c.blockCost + 2 * x * c.diffCost))
    else r

structure AState where
  covered : Array Bool
  /-- hits in the order they are sent to the result channel -/
  hits : Array KHit

/-- the coverage loop over `k.trapezoids[k.slot+1:]`; `lowD`, `highD` = `highEnd.LowDiagonal`,
    `highEnd.HighDiagonal` before the swap (query − target) -/
def coverLoop (traps : Array Trap) (bepos lowD highD : Int) : Nat → Nat → Array Bool → Array Bool
  | 0, _, cov => cov
  | n + 1, idx, cov =>
    match traps[idx]? with
    | none => cov
    | some trap =>
      if trap.bottom ≥ bepos then cov
      else
        let trapB := trap.top - trap.bottom + 1
        let trapA := trap.right - trap.left + 1
        let cA := if trap.left < lowD then lowD else trap.left
        let cB := if trap.right > highD then highD else trap.right
        if cA > cB then coverLoop traps bepos lowD highD n (idx + 1) cov
        else
          let coverageA := cB - cA + 1
          let coverageB := if trap.top > bepos then bepos - trap.bottom + 1 else trapB
          -- (coverageA/trapA)*(coverageB/trapB) > 0.99, denominators positive
          let cov := if coverageA * coverageB * 100 > 99 * (trapA * trapB) then cov.setIfInBounds idx true else cov
          coverLoop traps bepos lowD highD n (idx + 1) cov

/-- `alignRecursion(t)`; `num/den = 1 - minId`; `fuel` bounds the recursion depth.

    `split = false` is the recursion of the source: after the alignment through the middle row it
    recurses into the rows below and above the alignment, over the whole width of the trapezoid.
    `split = true` is the recursion the source does *not* have (finding K6; the candidate repair in
    `notes/C15.md`): it also recurses into the diagonals to the left and to the right of the band
    `[maxLeft, maxRight]` the reverse trace kept, over the rows the two row-wise recursions leave
    out.  The driver compares `split = false` with the implementation and uses `split = true` only
    in the recogniser of K6; the soundness theorems hold for both. -/
def alignRecursion (c : Costs) (s : Seqs) (traps : Array Trap) (slot : Nat) (minLen num den : Int) (split : Bool) :
    Nat → Trap → AState → AState
  | 0, _, st => st
  | fuel + 1, t, st =>
    let mid := (t.bottom + t.top).tdiv 2
    let lowEnd := traceForward c s mid (mid - t.right) (mid - t.left)
    let r1 := traceReverse c s lowEnd.maxI lowEnd.maxJ lowEnd.maxJ (mid + c.maxIGap) (c.blockCost + 2 * 1 * c.diffCost)
    let highEnd := reverseLoop c s mid lowEnd (s.query.size + 2) 2 r1
    let h : Hit := { abpos := highEnd.maxJ, bbpos := highEnd.maxI, aepos := lowEnd.maxJ, bepos := lowEnd.maxI,
                     score := highEnd.maxScore }
    let lowTop := h.bbpos - c.maxIGap
    let highBottom := h.bepos + c.maxIGap
    let st :=
      if Biogo.PalsOracle.accept minLen c.rMatchCost num den h then
        let cov := coverLoop traps h.bepos highEnd.maxLeft highEnd.maxRight (traps.size - (slot + 1)) (slot + 1) st.covered
        { covered := cov
          hits := st.hits.push { h := h, lowDiagonal := -highEnd.maxRight, highDiagonal := -highEnd.maxLeft,
                                 errNum := h.errNum } }
      else st
    let st :=
      if lowTop - t.bottom > minLen && lowTop < t.top - c.maxIGap then
        alignRecursion c s traps slot minLen num den split fuel { t with top := lowTop } st
      else st
    let st :=
      if t.top - highBottom > minLen then
        alignRecursion c s traps slot minLen num den split fuel { t with bottom := highBottom } st
      else st
    if split then
      let sideBottom := if lowTop > t.bottom then lowTop else t.bottom
      let sideTop := if highBottom < t.top then highBottom else t.top
      let leftRight := highEnd.maxLeft - 1
      let rightLeft := highEnd.maxRight + 1
      let st :=
        if sideTop - sideBottom > minLen && t.left ≤ leftRight && leftRight < t.right then
          alignRecursion c s traps slot minLen num den split fuel
            { t with bottom := sideBottom, top := sideTop, right := leftRight } st
        else st
      if sideTop - sideBottom > minLen && rightLeft ≤ t.right && t.left < rightLeft then
        alignRecursion c s traps slot minLen num den split fuel
          { t with bottom := sideBottom, top := sideTop, left := rightLeft } st
      else st
    else st

/-- recursion fuel for one trapezoid: every level removes at least one row (row-wise calls) or at
    least one diagonal (the calls of `split = true`) -/
def recursionFuel (s : Seqs) (split : Bool) (t : Trap) : Nat :=
  s.query.size + 2 + (if split then (t.right - t.left + 1).toNat else 0)

/-- the loop of `AlignTraps` over the trapezoids: the hits in emission order -/
def alignLoop (c : Costs) (s : Seqs) (traps : Array Trap) (k minLen num den : Int) (split : Bool) :
    Nat → Nat → AState → AState
  | 0, _, st => st
  | n + 1, i, st =>
    match traps[i]? with
    | none => st
    | some t =>
      let st :=
        if !(st.covered.getD i false) && t.top - t.bottom ≥ k then
          alignRecursion c s traps i minLen num den split (recursionFuel s split t) t st
        else st
      alignLoop c s traps k minLen num den split n (i + 1) st

/-- the hits in emission order, for either recursion -/
def emittedWith (split : Bool) (c : Costs) (s : Seqs) (traps : List Trap) (k minLen num den : Int) : List KHit :=
  let ta := traps.toArray
  (alignLoop c s ta k minLen num den split ta.size 0 { covered := Array.replicate ta.size false, hits := #[] }).hits.toList

/-- the hits `AlignTraps` collects from the result channel (the recursion of the source) -/
def emitted (c : Costs) (s : Seqs) (traps : List Trap) (k minLen num den : Int) : List KHit :=
  emittedWith false c s traps k minLen num den

/-- `starts.Less` as the `≤` of a merge sort: by `Abpos`, ties by `Bbpos` (the seventh repair; before
    it `Abpos` alone, which let a hit with the same `Abpos` and another `Bbpos` sort between two
    hits with the same start) -/
def startLe (a b : Hit) : Bool := if a.abpos ≠ b.abpos then decide (a.abpos < b.abpos) else decide (a.bbpos ≤ b.bbpos)

/-- `ends.Less`: by `Aepos`, ties by `Bepos` -/
def endLe (a b : Hit) : Bool := if a.aepos ≠ b.aepos then decide (a.aepos < b.aepos) else decide (a.bepos ≤ b.bepos)

/-- the second half of `AlignTraps`: the suppression applied to the hits collected from the channel -/
def suppressed (em : List KHit) : List Hit :=
  Biogo.PalsOracle.suppress (fun l => l.mergeSort startLe) (fun l => l.mergeSort endLe) (em.map (·.h))

/-- **`AlignTraps`**: the kernel on every trapezoid that is not yet covered and at least `k` high,
    then the removal of hits that begin or end at the same point as a higher scoring hit
    (`Biogo.PalsOracle.suppress`, with the two sorts as stable merge sorts — `sort.Sort` may order
    equal keys differently, which `alignTraps_sound` does not depend on) -/
def alignTraps (c : Costs) (s : Seqs) (traps : List Trap) (k minLen num den : Int) : List Hit :=
  suppressed (emitted c s traps k minLen num den)

end Biogo.PalsKernel
