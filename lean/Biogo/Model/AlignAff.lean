/-
Model of the three affine-gap aligners of /repo/align:
`NWAffine` (nw_affine_type.got), `SWAffine` (sw_affine_type.got), `FittedAffine`
(fitted_affine_type.got) and of the `Align` wrappers (nw_affine.go, sw_affine.go,
fitted_affine.go), as they are after the `fix:` commits F11, F12, K2b, K5, K1 and K3.

Conventions
* Letters are alphabet indices (`Int`, negative = not in the alphabet); the scoring matrix is
  `List (List Int)` (`a.Matrix`), read through `sc M x y = M[x][y]` which is what the code's
  flattened `la[x*let+y]` is once the matrix has been checked square.
* The Go `int` is an unbounded `Int`; the sentinel `minInt` (used as −∞ by the NW and fitted
  aligners, with the guard in `add`) is `none : V`.  `vadd` is the guarded `add`; an unguarded
  `minInt + x` (which would wrap in Go) is also `none`: it never arises on legal inputs
  (`Proofs/AlignAff`), and overflow of real scores is outside the model (DESIGN.md §7).
* The DP table is the flat `Array Cell` of the code (`table[i*c+j]`, three layers per cell);
  `table[p-c]`, `table[p-1]`, `table[p-c-1]` are written `(i-1,j)`, `(i,j-1)`, `(i-1,j-1)`.
  It is produced row by row in the order the code writes it (each cell is written once and
  reads only cells written before it).
* Tracebacks follow the `switch` of the template case by case, in source order.  Since the
  repair of K5 every `case` is guarded by the layer it is a legal predecessor of
  (`case layer == up && table[p][up] == …`): this is `aware = true`, the model of the code.
  `aware = false` is the switch as it was before the repair (every `case` compared with
  `table[p][layer]` whatever the layer, so a numeric tie could move the path to another
  layer); it is kept for the recogniser of a regression and for the refutation witness.
* Since the repair of K1 each gap layer of a cell is the `max3` of three predecessors: the
  match layer and the other gap layer with `gapOpen`, the same gap layer without (Gotoh's
  recurrences with all nine transitions), and the traceback switch has the two corresponding
  `case`s: this is `cross = true`, the model of the code.  `cross = false` is the fill and the
  switch before the repair (`max2`, no `up ↔ left` transition).
* Since the repair of K3 `FittedAffine` takes its end from the best of the three layers of the
  last column (`ends = true`, `fitEnd3`, the code); `ends = false` is the end selection before
  the repair (match layer only, `fitEnd`).
  The variants `cross = false` / `ends = false` are kept for the theorems about the class the
  old fill explores, the refutation witnesses and the recognisers of a regression
  (`nwAlignNoCross`, `swAlignNoCross`, `fitAlignLegacy`).
Core only.
-/
import Biogo.Spec.Alignment

namespace Biogo.AlignAff
open Biogo.Spec.Alignment (Kind Matrix)

/-! ### values with the `minInt` sentinel -/

/-- a table entry: `none` is the sentinel `minInt` (−∞) -/
abbrev V := Option Int

/-- the literal value of the sentinel, used only where the code would report it as a score -/
def minInt : Int := -9223372036854775808

/-- `add(a, b)` of align.go with `b` an ordinary number: `minInt` is absorbing -/
def vadd (a : V) (x : Int) : V :=
  match a with
  | some v => some (v + x)
  | none => none

/-- `a > b` on table entries -/
def vgt (a b : V) : Bool :=
  match a, b with
  | some x, some y => decide (x > y)
  | some _, none => true
  | none, _ => false

/-- `max2` of align.go: `if a > b { return a }; return b` -/
def max2 (a b : V) : V := if vgt a b then a else b

/-- `max3` of align.go: `if b > a { a = b }; if c > a { return c }; return a` -/
def max3 (a b c : V) : V :=
  let a := if vgt b a then b else a
  if vgt c a then c else a

def vget (a : V) : Int := match a with | some v => v | none => minInt

/-- one table cell `[3]int{diag, up, left}` -/
structure Cell where
  d : V
  u : V
  l : V
  deriving DecidableEq, Repr

/-- `table[p][layer]` with `diag = m`, `up = u`, `left = l` -/
def Cell.get (c : Cell) : Kind → V
  | .m => c.d
  | .u => c.u
  | .l => c.l

def noCell : Cell := ⟨none, none, none⟩
def zeroCell : Cell := ⟨some 0, some 0, some 0⟩

/-- `a.Matrix[x][y]` (`la[x*let+y]` once the matrix is known to be `let × let`) -/
def sc (M : List (List Int)) : Matrix := fun x y => (M.getD x []).getD y 0

/-! ### the table -/

structure Table where
  c : Nat                 -- number of columns, `qSeq.Len()+1`
  cells : Array Cell

/-- `table[i*c+j]` -/
def Table.at (t : Table) (i j : Nat) : Cell := t.cells.getD (i * t.c + j) noCell

def mkTable (c : Nat) (rows : List (List Cell)) : Table := ⟨c, rows.flatten.toArray⟩

/-- Fill the cells `j = 1 …` of one row from the row above (`prev`, starting at column
    `j-1`) and the cell to the left; `f pd pu lc y` is the body of the inner loop with
    `pd = table[p-c-1]`, `pu = table[p-c]`, `lc = table[p-1]`, `y = qVal`. -/
def scanRow (f : Cell → Cell → Cell → Nat → Cell) : List Cell → Cell → List Nat → List Cell
  | pd :: pu :: rest, lc, y :: ys =>
    let cell := f pd pu lc y
    cell :: scanRow f (pu :: rest) cell ys
  | _, _, _ => []

/-- Rows `i = 1 …`: `first isFirst prevFirst x` is the column-0 cell of the row for reference
    letter `x`, `f x` the inner loop body. -/
def fillRows (first : Bool → Cell → Nat → Cell) (f : Nat → Cell → Cell → Cell → Nat → Cell)
    (q : List Nat) : Bool → List Cell → List Nat → List (List Cell)
  | _, _, [] => []
  | isFirst, prev, x :: xs =>
    let fc := first isFirst (prev.headD noCell) x
    let row := fc :: scanRow (f x) prev fc q
    row :: fillRows first f q false row xs

/-! ### NWAffine / FittedAffine recurrences (same inner loop) -/

/-- one gap layer of a cell from the three layers of its predecessor cell: `pd` the match
    layer, `ps` the same gap layer, `po` the other gap layer; `g` the gap score of the letter.
    `cross = true` (the code): `max3(add(pd, open+g), add(ps, g), add(po, open+g))`;
    `cross = false` (before the repair of K1): `max2(add(pd, open+g), add(ps, g))`. -/
def gapLayer (cross : Bool) (gapOpen g : Int) (pd ps po : V) : V :=
  if cross then max3 (vadd pd (gapOpen + g)) (vadd ps g) (vadd po (gapOpen + g))
  else max2 (vadd pd (gapOpen + g)) (vadd ps g)

/-- inner loop body of `NWAffine` and `FittedAffine`:
    `diag = max3(diag', up', left') + S[r][q]`,
    `up = max3(add(diag↑, open+S[r][gap]), add(up↑, S[r][gap]), add(left↑, open+S[r][gap]))`,
    `left` alike. -/
def nwCell (cross : Bool) (S : Matrix) (gapOpen : Int) (x : Nat) (pd pu lc : Cell) (y : Nat) : Cell :=
  { d := vadd (max3 pd.d pd.u pd.l) (S x y)
    u := gapLayer cross gapOpen (S x 0) pu.d pu.u pu.l
    l := gapLayer cross gapOpen (S 0 y) lc.d lc.l lc.u }

/-- `table[j+2].left = table[j+1].left + S[gap][q[j+1]]` -/
def row0Tail (S : Matrix) : V → List Nat → List Cell
  | _, [] => []
  | l, y :: ys => let l' := vadd l (S 0 y); ⟨none, none, l'⟩ :: row0Tail S l' ys

/-- first row of `NWAffine` and `FittedAffine`: `table[0] = {0,−∞,−∞}`,
    `table[1].left = open + S[gap][q[0]]`, then extension -/
def nwRow0 (S : Matrix) (gapOpen : Int) : List Nat → List Cell
  | [] => [⟨some 0, none, none⟩]
  | y :: ys =>
    let l := some (gapOpen + S 0 y)
    ⟨some 0, none, none⟩ :: ⟨none, none, l⟩ :: row0Tail S l ys

/-- first column of `NWAffine`: `table[c].up = open + S[r[0]][gap]`,
    `table[i*c].up = table[(i-1)*c].up + S[r[i-1]][gap]` -/
def nwFirst (S : Matrix) (gapOpen : Int) (isFirst : Bool) (prevFirst : Cell) (x : Nat) : Cell :=
  if isFirst then ⟨none, some (gapOpen + S x 0), none⟩
  else ⟨none, vadd prevFirst.u (S x 0), none⟩

/-- first column of `FittedAffine`: `{diag: −∞, up: 0 (zero value), left: −∞}` -/
def fitFirst (_isFirst : Bool) (_prevFirst : Cell) (_x : Nat) : Cell := ⟨none, some 0, none⟩

def nwRows (cross : Bool) (S : Matrix) (gapOpen : Int) (r q : List Nat) : List (List Cell) :=
  let r0 := nwRow0 S gapOpen q
  r0 :: fillRows (nwFirst S gapOpen) (nwCell cross S gapOpen) q true r0 r

/-- the table of `NWAffine` after the fill -/
def nwTable (cross : Bool) (S : Matrix) (gapOpen : Int) (r q : List Nat) : Table :=
  mkTable (q.length + 1) (nwRows cross S gapOpen r q)

def fitRows (cross : Bool) (S : Matrix) (gapOpen : Int) (r q : List Nat) : List (List Cell) :=
  let r0 := nwRow0 S gapOpen q
  r0 :: fillRows fitFirst (nwCell cross S gapOpen) q true r0 r

/-- the table of `FittedAffine` after the fill -/
def fitTable (cross : Bool) (S : Matrix) (gapOpen : Int) (r q : List Nat) : Table :=
  mkTable (q.length + 1) (fitRows cross S gapOpen r q)

/-! ### SWAffine recurrences -/

def clip0 (v : V) : V :=
  match v with
  | some x => if x < 0 then some 0 else some x
  | none => some 0

/-- inner loop body of `SWAffine` (plain `+`, no sentinel: the table is zero-initialised) -/
def swCell (cross : Bool) (S : Matrix) (gapOpen : Int) (x : Nat) (pd pu lc : Cell) (y : Nat) : Cell :=
  let score := vadd (max3 pd.d pd.u pd.l) (S x y)
  { d := if vgt score (some 0) then score else some 0
    u := clip0 (gapLayer cross gapOpen (S x 0) pu.d pu.u pu.l)
    l := clip0 (gapLayer cross gapOpen (S 0 y) lc.d lc.l lc.u) }

def swFirst (_isFirst : Bool) (_prevFirst : Cell) (_x : Nat) : Cell := zeroCell

def swRows (cross : Bool) (S : Matrix) (gapOpen : Int) (r q : List Nat) : List (List Cell) :=
  let r0 := List.replicate (q.length + 1) zeroCell
  r0 :: fillRows swFirst (swCell cross S gapOpen) q true r0 r

/-- the table of `SWAffine` after the fill -/
def swTable (cross : Bool) (S : Matrix) (gapOpen : Int) (r q : List Nat) : Table :=
  mkTable (q.length + 1) (swRows cross S gapOpen r q)

/-- `maxS, maxI, maxJ` of `SWAffine` after the fill: the cells are visited in row-major order
    and a cell replaces the current best when `score > 0 && score >= maxS`
    (after fix F11; the pinned tree also required `matched`). -/
def swBestStep (i j : Nat) (cell : Cell) (best : Int × Nat × Nat) : Int × Nat × Nat :=
  match cell.d with
  | some s => if s > 0 ∧ s ≥ best.1 then (s, i, j) else best
  | none => best

def swBestRow (i : Nat) : List Cell → Nat → (Int × Nat × Nat) → (Int × Nat × Nat)
  | [], _, best => best
  | cell :: cs, j, best => swBestRow i cs (j + 1) (swBestStep i j cell best)

def swBestRows : List (List Cell) → Nat → (Int × Nat × Nat) → (Int × Nat × Nat)
  | [], _, best => best
  | row :: rows, i, best => swBestRows rows (i + 1) (swBestRow i (row.drop 1) 1 best)

/-- rows `1 …`, columns `1 …` in row-major order -/
def swBest (rows : List (List Cell)) : Int × Nat × Nat :=
  swBestRows (rows.drop 1) 1 (0, 0, 0)

/-! ### tracebacks -/

/-- one returned `feat.Pair`: `[rs,re)` in the reference, `[qs,qe)` in the query, `Score()` -/
structure Pair where
  rs : Nat
  re : Nat
  qs : Nat
  qe : Nat
  score : Int
  deriving DecidableEq, Repr

inductive Err
  | noAlphabet | alphabets | noGap | types
  | size | notSquare
  | letterR (pos : Nat) | letterQ (pos : Nat)
  | panicEmpty                       -- empty sequence: the code indexes `qSeq[0]` / `table[c]`
  | panicNoPath (i j : Nat)          -- the `default:` branch of a traceback switch
  deriving DecidableEq, Repr

instance : DecidableEq (Except Err (List Pair)) := fun a b =>
  match a, b with
  | .ok x, .ok y => if h : x = y then isTrue (by rw [h]) else isFalse (fun e => h (by cases e; rfl))
  | .error x, .error y => if h : x = y then isTrue (by rw [h]) else isFalse (fun e => h (by cases e; rfl))
  | .ok _, .error _ => isFalse (fun e => by cases e)
  | .error _, .ok _ => isFalse (fun e => by cases e)

/-- traceback state: the local variables of the loop -/
structure TB where
  i : Nat
  j : Nat
  layer : Kind
  last : Kind
  score : Int
  maxI : Nat
  maxJ : Nat
  aln : List Pair        -- most recently appended first (= the order after the final reversal)
  tie : Bool := false    -- ghost (not a variable of the code): some step so far took a `case`
                         -- that does not belong to the current layer (see `TB.move`)
  deriving Repr

/-- the `case` expressions of the traceback switch in source order:
    (move, layer of the predecessor cell, amount added to it).
    NW/Fitted: up-extend, left-extend, up-open, left-open, (since the repair of K1, `cross`:)
    up-open from `left`, left-open from `up`, then diag from up / left / diag;
    SW: the same gaps, then diag from diag / up / left. -/
def cands (cross sw : Bool) (S : Matrix) (gapOpen : Int) (x y : Nat) : List (Kind × Kind × Int) :=
  [(.u, .u, S x 0), (.l, .l, S 0 y), (.u, .m, gapOpen + S x 0), (.l, .m, gapOpen + S 0 y)] ++
    (if cross then [(.u, .l, gapOpen + S x 0), (.l, .u, gapOpen + S 0 y)] else []) ++
    (if sw then [(.m, .m, S x y), (.m, .u, S x y), (.m, .l, S x y)]
     else [(.m, .u, S x y), (.m, .l, S x y), (.m, .m, S x y)])

/-- the cell a move comes from -/
def predOf (t : Table) (i j : Nat) : Kind → Cell
  | .u => t.at (i - 1) j
  | .l => t.at i (j - 1)
  | .m => t.at (i - 1) (j - 1)

/-- append the finished segment and start a new one -/
def TB.emit (st : TB) : TB :=
  { st with aln := ⟨st.i, st.maxI, st.j, st.maxJ, st.score⟩ :: st.aln,
            maxI := st.i, maxJ := st.j, score := 0 }

/-- one iteration of the traceback loop body after a `case` has matched.  The value in layer
    `diag`/`up`/`left` of a cell was produced by a diagonal/up/left move; the ghost flag `tie`
    is raised when the `case` taken belongs to another layer than the current one (possible
    only for the layer-blind switch before the repair of K5, on a numeric tie). -/
def TB.move (st : TB) (isEnd : Bool) (mv pl : Kind) (v pv : Int) : TB :=
  let tie := st.tie || decide (st.layer ≠ mv)
  let st := if st.last ≠ mv ∧ (mv = .m ∨ ¬ isEnd) then st.emit else st
  { st with score := st.score + (v - pv),
            i := if mv = .l then st.i else st.i - 1,
            j := if mv = .u then st.j else st.j - 1,
            layer := pl, last := mv, tie := tie }

/-- does `case` `cd` of the switch fire in state `st`, whose current value `table[p][layer]` is
    `v`?  The repaired switch (`aware = true`) reads `case layer == up && table[p][up] == …`:
    a `case` is only considered when it is a legal predecessor of the current layer, as the
    fill computed that layer's value.  The switch before the repair (`aware = false`) compared
    every `case` with `table[p][layer]` whatever the layer (finding K5). -/
def caseHit (aware : Bool) (t : Table) (st : TB) (v : Int) (cd : Kind × Kind × Int) : Bool :=
  (!aware || decide (cd.1 = st.layer)) &&
    (vadd ((predOf t st.i st.j cd.1).get cd.2.1) cd.2.2 == some v)

/-- `for i > 0 && j > 0 { switch … }`; `fuel` bounds the number of iterations (`i + j`). -/
def tbLoop (aware cross sw : Bool) (t : Table) (S : Matrix) (gapOpen : Int) (r q : List Nat) (R C : Nat) :
    Nat → TB → Except Err TB
  | 0, st => .ok st
  | fuel + 1, st =>
    if st.i = 0 ∨ st.j = 0 then .ok st else
    let x := r.getD (st.i - 1) 0
    let y := q.getD (st.j - 1) 0
    match (t.at st.i st.j).get st.layer with
    | none => .error (.panicNoPath st.i st.j)
    | some v =>
      if sw ∧ v = 0 then .ok st else
      match (cands cross sw S gapOpen x y).find? (caseHit aware t st v) with
      | none => .error (.panicNoPath st.i st.j)
      | some (mv, pl, _) =>
        let pv := vget ((predOf t st.i st.j mv).get pl)
        tbLoop aware cross sw t S gapOpen r q R C fuel (st.move (st.i = R ∧ st.j = C) mv pl v pv)

def total (ps : List Pair) : Int := (ps.map (·.score)).sum

/-! ### the three `alignType` bodies on legal, non-empty letters -/

/-- the layer holding the best value of a cell: `best := t[0]; for i, s := range t[1:] { if s >
    best { best, layer = s, i+1 } }` (`diag` unless a later layer is strictly larger) -/
def bestLayer (e : Cell) : Kind :=
  if vgt e.u e.d then (if vgt e.l e.u then .l else .u) else (if vgt e.l e.d then .l else .m)

/-- `NWAffine.alignType` after the letter checks: fill, pick the best layer of the last cell
    (`diag` unless a later layer is strictly larger), trace back, append the leading gap. -/
def nwAlignT (aware cross : Bool) (S : Matrix) (gapOpen : Int) (r q : List Nat) :
    Except Err (List Pair × Bool) :=
  let R := r.length
  let C := q.length
  let t := nwTable cross S gapOpen r q
  let layer : Kind := bestLayer (t.at R C)
  match tbLoop aware cross false t S gapOpen r q R C (R + C)
      { i := R, j := C, layer, last := .m, score := 0, maxI := R, maxJ := C, aln := [] } with
  | .error e => .error e
  | .ok st =>
    let st' := st.emit
    if st.i ≠ st.j then
      let last : Kind := if st.i = 0 then .l else .u
      .ok (⟨0, st.i, 0, st.j, vget ((t.at st.i st.j).get last)⟩ :: st'.aln, st.tie)
    else .ok (st'.aln, st.tie)

def nwAlign (S : Matrix) (gapOpen : Int) (r q : List Nat) : Except Err (List Pair) :=
  (nwAlignT true true S gapOpen r q).map (·.1)

/-- `NWAffine` before the repair of K1 (no `up ↔ left` transition), layer-aware traceback -/
def nwAlignNoCross (S : Matrix) (gapOpen : Int) (r q : List Nat) : Except Err (List Pair) :=
  (nwAlignT true false S gapOpen r q).map (·.1)

/-- `SWAffine.alignType` after the letter checks -/
def swAlignT (aware cross : Bool) (S : Matrix) (gapOpen : Int) (r q : List Nat) :
    Except Err (List Pair × Bool) :=
  let R := r.length
  let C := q.length
  let t := swTable cross S gapOpen r q
  let (_, mi, mj) := swBest (swRows cross S gapOpen r q)
  match tbLoop aware cross true t S gapOpen r q R C (mi + mj)
      { i := mi, j := mj, layer := .m, last := .m, score := 0, maxI := mi, maxJ := mj, aln := [] } with
  | .error e => .error e
  | .ok st => .ok (st.emit.aln, st.tie)

def swAlign (S : Matrix) (gapOpen : Int) (r q : List Nat) : Except Err (List Pair) :=
  (swAlignT true true S gapOpen r q).map (·.1)

/-- `SWAffine` before the repair of K1 (no `up ↔ left` transition), layer-aware traceback -/
def swAlignNoCross (S : Matrix) (gapOpen : Int) (r q : List Nat) : Except Err (List Pair) :=
  (swAlignT true false S gapOpen r q).map (·.1)

/-- end row of `FittedAffine` before the repair of K3: the last `y ≥ 1` maximising
    `table[y*c+c-1][diag]` (`max := minInt; if v >= max { i = y; max = v }`) -/
def fitEnd (t : Table) (C : Nat) : Nat → Nat → (Nat × V) → Nat
  | 0, _, best => best.1
  | n + 1, y, best =>
    let v := (t.at y C).d
    fitEnd t C n (y + 1) (if vgt best.2 v then best else (y, v))

/-- end row and start layer of `FittedAffine` (since the repair of K3): the last `y ≥ 1`
    maximising the best of the three layers of `table[y*c+c-1]`, and the layer holding it
    (`v, l := t[diag], diag; for k, s := range t[1:] { if s > v { v, l = s, k+1 } };
      if v >= max { i, layer = y, l; max = v }`) -/
def fitEnd3 (t : Table) (C : Nat) : Nat → Nat → (Nat × Kind × V) → Nat × Kind
  | 0, _, best => (best.1, best.2.1)
  | n + 1, y, best =>
    let e := t.at y C
    let lay := bestLayer e
    let v := e.get lay
    fitEnd3 t C n (y + 1) (if vgt best.2.2 v then best else (y, lay, v))

/-- `FittedAffine.alignType` after the checks.  `ends = true`: the end row and the start layer
    are the best of the three layers of the last column (the code); `ends = false`: the match
    layer only (before the repair of K3).  `last = layer`: the traceback starts in the run of
    its start layer, so that no empty segment is emitted before a trailing gap. -/
def fitAlignT (aware cross ends : Bool) (S : Matrix) (gapOpen : Int) (r q : List Nat) :
    Except Err (List Pair × Bool) :=
  let R := r.length
  let C := q.length
  let t := fitTable cross S gapOpen r q
  let start : Nat × Kind := if ends then fitEnd3 t C R 1 (0, .m, none) else (fitEnd t C R 1 (0, none), .m)
  let i := start.1
  match tbLoop aware cross false t S gapOpen r q R C (i + C)
      { i := i, j := C, layer := start.2, last := start.2, score := 0, maxI := i, maxJ := C, aln := [] } with
  | .error e => .error e
  | .ok st =>
    -- the loop stopped in row 0 with query letters left: they are a leading gap (fix K2b)
    if st.j ≠ 0 then .ok (⟨st.i, st.i, 0, st.j, vget (t.at st.i st.j).l⟩ :: st.emit.aln, st.tie)
    else .ok (st.emit.aln, st.tie)

def fitAlign (S : Matrix) (gapOpen : Int) (r q : List Nat) : Except Err (List Pair) :=
  (fitAlignT true true true S gapOpen r q).map (·.1)

/-- `FittedAffine` before the repairs of K1 and K3 (no `up ↔ left` transition, end taken from
    the match layer only), layer-aware traceback -/
def fitAlignLegacy (S : Matrix) (gapOpen : Int) (r q : List Nat) : Except Err (List Pair) :=
  (fitAlignT true false false S gapOpen r q).map (·.1)

/-! ### argument validation (the `Align` wrappers and the head of `alignType`) -/

inductive Which | nw | sw | fit deriving DecidableEq, Repr

/-- what the wrapper sees of one `AlphabetSlicer` -/
structure SeqArg where
  alpha : Option String     -- identity of the alphabet (`nil` = none)
  alen : Nat                -- `alpha.Len()`
  gapIdx : Int              -- `alpha.IndexOf(alpha.Gap())`
  quality : Bool            -- `alphabet.QLetters` rather than `alphabet.Letters`
  idx : List Int            -- `index[letter]` for each letter, negative when illegal

def firstNeg : List Int → Nat → Option Nat
  | [], _ => none
  | x :: xs, i => if x < 0 then some i else firstNeg xs (i + 1)

/-- the order in which each aligner meets an illegal letter:
    NW and Fitted (F12): every letter of `qSeq` while the first row is initialised, then
    `rSeq` (NW: while the first column is initialised; Fitted: in the main loop);
    SW: the main loop, row-major (`rSeq[i-1]` before `qSeq[j-1]`). -/
def letterCheck (w : Which) (r q : List Int) : Except Err Unit :=
  match w with
  | .nw | .fit =>
    match firstNeg q 0 with
    | some p => .error (.letterQ p)
    | none =>
      match firstNeg r 0 with
      | some p => .error (.letterR p)
      | none => .ok ()
  | .sw =>
    if r.isEmpty ∨ q.isEmpty then .ok () else
    if r.headD 0 < 0 then .error (.letterR 0) else
    match firstNeg q 0 with
    | some p => .error (.letterQ p)
    | none => match firstNeg r 0 with
      | some p => .error (.letterR p)
      | none => .ok ()

/-- the three `alignType` bodies with the traceback switch of the given kind (on the fill of
    the code, `cross = true`, `ends = true`), and the ghost flag -/
def alignT (aware : Bool) (w : Which) (S : Matrix) (gapOpen : Int) (r q : List Nat) :
    Except Err (List Pair × Bool) :=
  match w with
  | .nw => nwAlignT aware true S gapOpen r q
  | .sw => swAlignT aware true S gapOpen r q
  | .fit => fitAlignT aware true true S gapOpen r q

/-- the pairs the traceback *before the repair of K5* (layer-blind switch) returns -/
def legacyPairs (w : Which) (S : Matrix) (gapOpen : Int) (r q : List Nat) : Except Err (List Pair) :=
  (alignT false w S gapOpen r q).map (·.1)

/-- the three aligners *before the repairs of K1 and K3* (fill without `up ↔ left` transitions,
    FittedAffine ending in the match layer only), with the layer-aware traceback -/
def legacyFillAlign (w : Which) (S : Matrix) (gapOpen : Int) (r q : List Nat) : Except Err (List Pair) :=
  match w with
  | .nw => nwAlignNoCross S gapOpen r q
  | .sw => swAlignNoCross S gapOpen r q
  | .fit => fitAlignLegacy S gapOpen r q

/-- did the layer-blind traceback (before the repair of K5) take a `case` of another layer
    (ghost flag, `TB.tie`)?  The repaired traceback never does (`Proofs/TraceFaith`). -/
def tieSwitched (w : Which) (S : Matrix) (gapOpen : Int) (r q : List Nat) : Bool :=
  match alignT false w S gapOpen r q with
  | .ok (_, t) => t
  | .error _ => false

/-- `Align` of nw_affine.go / sw_affine.go / fitted_affine.go followed by `alignType`. -/
def align (w : Which) (M : List (List Int)) (gapOpen : Int) (ref qry : SeqArg) :
    Except Err (List Pair) :=
  match ref.alpha with
  | none => .error .noAlphabet
  | some ra =>
    if qry.alpha ≠ some ra then .error .alphabets
    else if ref.gapIdx ≠ 0 then .error .noGap
    else if ref.quality ≠ qry.quality then .error .types
    else if M.length < ref.alen then .error .size
    else if M.any (fun row => row.length ≠ M.length) then .error .notSquare
    else
      match letterCheck w ref.idx qry.idx with
      | .error e => .error e
      | .ok () =>
        let r := ref.idx.map Int.toNat
        let q := qry.idx.map Int.toNat
        match w with
        | .sw => if r.isEmpty ∨ q.isEmpty then .ok [⟨0, 0, 0, 0, 0⟩] else swAlign (sc M) gapOpen r q
        | .nw => if r.isEmpty ∨ q.isEmpty then .error .panicEmpty else nwAlign (sc M) gapOpen r q
        | .fit => if r.isEmpty ∨ q.isEmpty then .error .panicEmpty else fitAlign (sc M) gapOpen r q

end Biogo.AlignAff
