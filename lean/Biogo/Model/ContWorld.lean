/-
Histories of container operations (C05, C07): a world of objects over one heap of cells,
the operations the harness can request, their interpretation on the model, the observation
(`ObjV`) both sides report after every operation, and its wire format.  Core-only.
-/
import Biogo.Go.Wire
import Biogo.Model.Containers

namespace Biogo.Containers
open Biogo.Go Biogo.Alphabet Biogo.Wire

inductive Obj
  | lin (l : Lin)
  | aln (a : Aln)
  | multi (m : Multi)
  | set (m : Multi)
  deriving Repr, Inhabited

structure World where
  cells : Cells
  objs : List Obj
  bufs : List Slice      -- caller-owned `[]alphabet.QLetter` buffers

/-- a linear sequence as written in an input: QSeq?, offset, strand, name, letters -/
structure SeqSpec where
  q : Bool
  off : Int
  strand : Int
  name : Nat
  cells : List QL
  deriving DecidableEq, Repr, Inhabited

inductive Op
  | revComp (k : Nat)
  | reverse (k : Nat)
  | clone (k : Nat)
  | set (k r : Nat) (pos : Int) (c : QL)
  | rowRevComp (k r : Nat)
  | rowReverse (k r : Nat)
  | mkbuf (cells : List QL) (extra : Nat)
  | mutbuf (b i : Nat) (c : QL)
  | appendCols (k : Nat) (bs : List Nat)
  | appendEach (k : Nat) (bs : List Nat)
  | add (k : Nat) (seqs : List SeqSpec)
  | delete (k i : Nat)
  | flush (k wh : Nat) (fill : UInt8)
  | subseq (k : Nat) (st en : Int)
  | truncate (k : Nat) (st en : Int)
  deriving DecidableEq, Repr, Inhabited

/-- `linear.NewSeq` / `linear.NewQSeq` + `SetOffset` + strand: the letters are copied into a
    new array -/
def newLin (cx : Ctx) (h : Cells) (sp : SeqSpec) : Cells × Lin :=
  let (h', s) := h.ofList (sp.cells.map (Lin.stored sp.q)) (cx.grow 0 sp.cells.length) zeroQL
  (h', { q := sp.q, name := sp.name, off := sp.off, strand := sp.strand, s := s })

def newLins (cx : Ctx) (h : Cells) (sps : List SeqSpec) : Cells × List Lin :=
  sps.foldl (fun (acc : Cells × List Lin) sp =>
    let (h1, l) := newLin cx acc.1 sp
    (h1, acc.2 ++ [l])) (h, [])

/-- transpose rows of equal length into columns -/
def transposeRows (rows : List (List QL)) : List (List QL) :=
  match rows with
  | [] => []
  | r0 :: _ => (List.range r0.length).map fun i => rows.map fun r => r.getD i zeroQL

/-- the initial object of a history -/
def initWorld (cx : Ctx) (kind : String) (strand : Int) (rows : List SeqSpec) : World :=
  let h0 : Cells := Heap.empty
  match kind with
  | "lin" | "qlin" =>
    match rows with
    | sp :: _ => let (h, l) := newLin cx h0 { sp with q := kind == "qlin" }; ⟨h, [.lin l], []⟩
    | [] => ⟨h0, [], []⟩
  | "aln" | "qaln" =>
    let q := kind == "qaln"
    let cols := transposeRows (rows.map (·.cells))
    let (h, slices) := cols.foldl (fun (acc : Cells × List Slice) c =>
      let (h1, s) := acc.1.ofList (c.map (Lin.stored q)) c.length zeroQL
      (h1, acc.2 ++ [s])) (h0, [])
    ⟨h, [.aln { q, strand, off := 0, cols := slices,
                subs := if cols.isEmpty then [] else rows.map fun sp => ⟨sp.name, 0, sp.strand⟩ }], []⟩
  | "multi" => let (h, ls) := newLins cx h0 rows; ⟨h, [.multi ⟨ls⟩], []⟩
  | "set" => let (h, ls) := newLins cx h0 rows; ⟨h, [.set ⟨ls⟩], []⟩
  | _ => ⟨h0, [], []⟩

def World.setObj (w : World) (k : Nat) (h : Cells) (o : Obj) : World :=
  { w with cells := h, objs := w.objs.set k o }

def World.bufCells (w : World) (bs : List Nat) : List (List QL) :=
  bs.map fun b => match w.bufs[b]? with | some s => w.cells.read s | none => []

/-- interpretation of one operation; the string is the outcome the harness reports
    (`ok`, `err` = error return, `panic`) -/
def apply (cx : Ctx) (w : World) (op : Op) : World × String :=
  match op with
  | .mkbuf cells extra =>
    let (h, s) := w.cells.ofList cells (cells.length + extra) zeroQL
    ({ w with cells := h, bufs := w.bufs ++ [s] }, "ok")
  | .mutbuf b i c =>
    match w.bufs[b]? with
    | some s => ({ w with cells := w.cells.set s i c }, "ok")
    | none => (w, "panic")
  | .revComp k =>
    match w.objs[k]? with
    | some (.lin l) => let (h, l') := l.revComp cx w.cells; (w.setObj k h (.lin l'), "ok")
    | some (.aln a) => let (h, a') := a.revComp cx w.cells; (w.setObj k h (.aln a'), "ok")
    | some (.multi m) => let (h, m') := m.revComp cx w.cells; (w.setObj k h (.multi m'), "ok")
    | some (.set m) => let (h, m') := m.setRevComp cx w.cells; (w.setObj k h (.set m'), "ok")
    | none => (w, "panic")
  | .reverse k =>
    match w.objs[k]? with
    | some (.lin l) => let (h, l') := l.reverse w.cells; (w.setObj k h (.lin l'), "ok")
    | some (.aln a) => (w.setObj k w.cells (.aln a.reverse), "ok")
    | some (.multi m) => let (h, m') := m.reverse w.cells; (w.setObj k h (.multi m'), "ok")
    | some (.set m) => let (h, m') := m.setReverse w.cells; (w.setObj k h (.set m'), "ok")
    | none => (w, "panic")
  | .clone k =>
    match w.objs[k]? with
    | some (.lin l) => let (h, l') := l.clone cx w.cells; ({ w with cells := h, objs := w.objs ++ [.lin l'] }, "ok")
    | some (.aln a) => let (h, a') := a.clone cx w.cells; ({ w with cells := h, objs := w.objs ++ [.aln a'] }, "ok")
    | some (.multi m) => let (h, m') := m.clone cx w.cells; ({ w with cells := h, objs := w.objs ++ [.multi m'] }, "ok")
    | _ => (w, "panic")
  | .set k r pos c =>
    match w.objs[k]? with
    | some (.lin l) =>
      if (l.at? w.cells pos).isNone then (w, "panic") else (w.setObj k (l.set w.cells pos c) (.lin l), "ok")
    | some (.aln a) =>
      if (a.at? w.cells r pos).isNone then (w, "panic") else (w.setObj k (a.set w.cells r pos c) (.aln a), "ok")
    | some (.multi m) =>
      if ((m.rows[r]?).bind (·.at? w.cells pos)).isNone then (w, "panic") else
      let (h, m') := m.onRow w.cells r fun h l => (l.set h pos c, l); (w.setObj k h (.multi m'), "ok")
    | some (.set m) =>
      if ((m.rows[r]?).bind (·.at? w.cells pos)).isNone then (w, "panic") else
      let (h, m') := m.onRow w.cells r fun h l => (l.set h pos c, l); (w.setObj k h (.set m'), "ok")
    | none => (w, "panic")
  | .rowRevComp k r =>
    match w.objs[k]? with
    | some (.aln a) =>
      if r < a.rows then let (h, a') := a.rowRevComp cx w.cells r; (w.setObj k h (.aln a'), "ok") else (w, "panic")
    | some (.multi m) =>
      if r < m.nrows then let (h, m') := m.onRow w.cells r (fun h l => l.revComp cx h); (w.setObj k h (.multi m'), "ok")
      else (w, "panic")
    | some (.set m) =>
      if r < m.nrows then let (h, m') := m.onRow w.cells r (fun h l => l.revComp cx h); (w.setObj k h (.set m'), "ok")
      else (w, "panic")
    | _ => (w, "panic")
  | .rowReverse k r =>
    match w.objs[k]? with
    | some (.aln a) =>
      if r < a.rows then let (h, a') := a.rowReverse w.cells r; (w.setObj k h (.aln a'), "ok") else (w, "panic")
    | some (.multi m) =>
      if r < m.nrows then let (h, m') := m.onRow w.cells r (fun h l => l.reverse h); (w.setObj k h (.multi m'), "ok")
      else (w, "panic")
    | some (.set m) =>
      if r < m.nrows then let (h, m') := m.onRow w.cells r (fun h l => l.reverse h); (w.setObj k h (.set m'), "ok")
      else (w, "panic")
    | _ => (w, "panic")
  | .appendCols k bs =>
    let colsIn := w.bufCells bs
    match w.objs[k]? with
    | some (.aln a) =>
      match a.rows? with
      | none => (w, "panic")
      | some rows =>
        match a.appendColumns cx w.cells rows colsIn with
        | some (h, a') => (w.setObj k h (.aln a'), "ok")
        | none => (w, "err")
    | some (.multi m) =>
      match m.appendColumns cx w.cells colsIn with
      | some (h, m') => (w.setObj k h (.multi m'), "ok")
      | none => (w, "err")
    | _ => (w, "panic")
  | .appendEach k bs =>
    let runs := w.bufCells bs
    match w.objs[k]? with
    | some (.aln a) =>
      match a.rows? with
      | none => (w, "panic")
      | some rows =>
        match a.appendEach cx w.cells rows runs with
        | some (h, a') => (w.setObj k h (.aln a'), "ok")
        | none => (w, "err")
    | some (.multi m) =>
      match m.appendEach cx w.cells runs with
      | some (h, m') => (w.setObj k h (.multi m'), "ok")
      | none => (w, "err")
    | _ => (w, "panic")
  | .add k seqs =>
    let (h1, ls) := newLins cx w.cells seqs
    match w.objs[k]? with
    | some (.aln a) => let (h, a') := a.add cx h1 ls; (w.setObj k h (.aln a'), "ok")
    | some (.multi m) => (w.setObj k h1 (.multi (m.add ls)), "ok")
    | _ => (w, "panic")
  | .delete k i =>
    match w.objs[k]? with
    | some (.aln a) =>
      if i < a.rows then let (h, a') := a.delete w.cells i; (w.setObj k h (.aln a'), "ok") else (w, "panic")
    | some (.multi m) =>
      if i < m.nrows then (w.setObj k w.cells (.multi (m.delete i)), "ok") else (w, "panic")
    | _ => (w, "panic")
  | .flush k wh fill =>
    match w.objs[k]? with
    | some (.multi m) => let (h, m') := m.flush cx w.cells wh fill; (w.setObj k h (.multi m'), "ok")
    | _ => (w, "panic")
  | .truncate k st en =>
    match w.objs[k]? with
    | some (.multi m) =>
      let (m', ok) := m.truncate st en
      (w.setObj k w.cells (.multi m'), if ok then "ok" else "err")
    | _ => (w, "panic")
  | .subseq k st en =>
    match w.objs[k]? with
    | some (.multi m) =>
      match m.subseq cx w.cells st en with
      | (h, some m') => ({ w with cells := h, objs := w.objs ++ [.multi m'] }, "ok")
      | (h, none) => ({ w with cells := h }, "err")
    | _ => (w, "panic")

/-! ### observations -/

structure RowV where
  start : Int
  «end» : Int
  strand : Int
  name : Nat
  q : Bool              -- a quality-carrying row (linear.QSeq, alignment.QRow)
  cells : List QL
  deriving DecidableEq, Repr, Inhabited

structure ObjV where
  kind : String
  strand : Int
  start : Int
  «end» : Int
  nrows : Nat
  len : Int
  rows : List RowV
  cols : List (List UInt8)     -- Column(pos, true), pos = Start … End-1
  colsQL : List (List QL)      -- ColumnQL(pos, true)
  colsNF : List (List UInt8)   -- Column(pos, false) (row-stored only)
  cons : List UInt8            -- Consensus(false) letters
  deriving DecidableEq, Repr, Inhabited

def linRowV (h : Cells) (l : Lin) : RowV :=
  ⟨l.start, l.«end», l.strand, l.name, l.q, l.letters h⟩

def intRange (a b : Int) : List Int := (List.range (b - a).toNat).map fun (k : Nat) => a + (k : Int)

def viewObj (cx : Ctx) (h : Cells) : Obj → ObjV
  | .lin l =>
    { kind := if l.q then "qlin" else "lin", strand := l.strand, start := l.start, «end» := l.«end»,
      nrows := 1, len := l.len, rows := [linRowV h l], cols := [], colsQL := [], colsNF := [], cons := [] }
  | .aln a =>
    let n := a.rows
    let idx := List.range a.cols.length
    let cols := idx.map (a.column cx h)
    { kind := if a.q then "qaln" else "aln", strand := a.strand, start := a.start, «end» := a.«end»,
      nrows := n, len := a.len,
      rows := (List.range n).map fun r =>
        let s := a.subs.getD r ⟨0, 0, 0⟩
        ⟨s.off, s.off + a.len, s.strand, s.name, a.q, a.rowLetters h r⟩,
      cols := cols, colsQL := idx.map (a.columnQL h), colsNF := [],
      cons := cols.map (consensusLetter cx.alpha) }
  | .multi m =>
    let ps := intRange m.start m.«end»
    { kind := "multi", strand := 0, start := m.start, «end» := m.«end», nrows := m.nrows, len := m.len,
      rows := m.rows.map (linRowV h),
      cols := ps.map fun p => m.column cx h p true,
      colsQL := ps.map fun p => m.columnQL cx h p true,
      colsNF := ps.map fun p => m.column cx h p false,
      cons := ps.map fun p => consensusLetter cx.alpha (m.column cx h p false) }
  | .set m =>
    { kind := "set", strand := 0, start := 0, «end» := 0, nrows := m.nrows,
      len := m.rows.foldl (fun mx r => if (r.len : Int) > mx then r.len else mx) minInt,
      rows := m.rows.map (linRowV h), cols := [], colsQL := [], colsNF := [], cons := [] }

def World.view (cx : Ctx) (w : World) : List ObjV := w.objs.map (viewObj cx w.cells)

/-- run a history: the snapshot after construction and after every operation -/
def runHistory (cx : Ctx) (w : World) (ops : List Op) : List (String × List ObjV) :=
  let (_, acc) := ops.foldl (fun (st : World × List (String × List ObjV)) op =>
    let (w', res) := apply cx st.1 op
    (w', st.2 ++ [(res, w'.view cx)])) (w, [("ok", w.view cx)])
  acc

/-! ### wire format -/

def hexL (cs : List QL) : String := hexOfBytes (cs.map (·.L))
def hexQ (cs : List QL) : String := hexOfBytes (cs.map (·.Q))

def joinWith (sep : String) (xs : List String) : String := sep.intercalate xs

def renderRow (r : RowV) : String :=
  s!"{r.start},{r.«end»},{r.strand},{r.name},{showBool r.q},{hexL r.cells},{hexQ r.cells}"

def renderObj (o : ObjV) : String :=
  joinWith "!" [
    s!"{o.kind},{o.strand},{o.start},{o.«end»},{o.nrows},{o.len}",
    joinWith ";" (o.rows.map renderRow),
    joinWith ";" (o.cols.map hexOfBytes),
    joinWith ";" (o.colsQL.map fun c => hexL c ++ "." ++ hexQ c),
    joinWith ";" (o.colsNF.map hexOfBytes),
    if o.cons.isEmpty then "" else hexOfBytes o.cons]

def zipQL (ls qs : List UInt8) : List QL := List.zipWith (fun l q => ⟨l, q⟩) ls qs

def parseQLs (hl hq : String) : Option (List QL) :=
  match bytesOfHex hl, bytesOfHex hq with
  | some ls, some qs => if ls.length == qs.length then some (zipQL ls qs) else none
  | _, _ => none

def splitNE (s : String) (sep : String) : List String := if s.isEmpty then [] else s.splitOn sep

def parseRow (s : String) : Option RowV :=
  match s.splitOn "," with
  | [a, b, c, d, q, hl, hq] =>
    match parseInt a, parseInt b, parseInt c, parseNat d, parseBool q, parseQLs hl hq with
    | some a, some b, some c, some d, some q, some cs => some ⟨a, b, c, d, q, cs⟩
    | _, _, _, _, _, _ => none
  | _ => none

def parseObj (s : String) : Option ObjV :=
  match s.splitOn "!" with
  | [head, rows, cols, colsQL, colsNF, cons] =>
    match head.splitOn "," with
    | [kind, st, a, b, n, len] =>
      match parseInt st, parseInt a, parseInt b, parseNat n, parseInt len,
            (splitNE rows ";").mapM parseRow, (splitNE cols ";").mapM bytesOfHex,
            (splitNE colsQL ";").mapM (fun c => match c.splitOn "." with
              | [hl, hq] => parseQLs hl hq | _ => none),
            (splitNE colsNF ";").mapM bytesOfHex,
            (if cons.isEmpty then some [] else bytesOfHex cons) with
      | some st, some a, some b, some n, some len, some rows, some cols, some cq, some nf, some cons =>
        some { kind, strand := st, start := a, «end» := b, nrows := n, len, rows, cols,
               colsQL := cq, colsNF := nf, cons }
      | _, _, _, _, _, _, _, _, _, _ => none
    | _ => none
  | _ => none

/-- snapshots `status/obj/obj…` separated by `|`; an object written `=` is unchanged since
    the previous snapshot -/
def expandSnapshots (obs : String) : List (String × List String) :=
  let snaps := obs.splitOn "|"
  let (_, acc) := snaps.foldl (fun (st : List String × List (String × List String)) sn =>
    match sn.splitOn "/" with
    | [] => st
    | status :: objs =>
      let objs' := objs.zipIdx.map fun (o, i) => if o == "=" then st.1.getD i "" else o
      (objs', st.2 ++ [(status, objs')])) ([], [])
  acc

def parseSnapshots (obs : String) : Option (List (String × List ObjV)) :=
  (expandSnapshots obs).mapM fun (st, objs) =>
    match objs.mapM parseObj with
    | some os => some (st, os)
    | none => none

def renderSnapshots (snaps : List (String × List ObjV)) : List (String × List String) :=
  snaps.map fun (st, os) => (st, os.map renderObj)

/-! ### inputs -/

def parseSeqSpec (s : String) : Option SeqSpec :=
  match s.splitOn "," with
  | [q, off, st, nm, hl, hq] =>
    match parseBool q, parseInt off, parseInt st, parseNat nm, parseQLs hl hq with
    | some q, some off, some st, some nm, some cs => some ⟨q, off, st, nm, cs⟩
    | _, _, _, _, _ => none
  | _ => none

def parseSeqSpecs (s : String) : Option (List SeqSpec) :=
  if s == "-" then some [] else (s.splitOn "+").mapM parseSeqSpec

def parseQL1 (l q : String) : Option QL :=
  match parseNat l, parseNat q with
  | some l, some q => some ⟨UInt8.ofNat l, UInt8.ofNat q⟩
  | _, _ => none

def parseOp (s : String) : Option Op :=
  match s.splitOn "." with
  | ["rc", k] => (parseNat k).map .revComp
  | ["rv", k] => (parseNat k).map .reverse
  | ["cl", k] => (parseNat k).map .clone
  | ["st", k, r, pos, l, q] =>
    match parseNat k, parseNat r, parseInt pos, parseQL1 l q with
    | some k, some r, some pos, some c => some (.set k r pos c)
    | _, _, _, _ => none
  | ["rrc", k, r] => match parseNat k, parseNat r with | some k, some r => some (.rowRevComp k r) | _, _ => none
  | ["rrv", k, r] => match parseNat k, parseNat r with | some k, some r => some (.rowReverse k r) | _, _ => none
  | ["mkb", hl, hq, extra] =>
    match parseQLs hl hq, parseNat extra with
    | some cs, some e => some (.mkbuf cs e)
    | _, _ => none
  | ["mut", b, i, l, q] =>
    match parseNat b, parseNat i, parseQL1 l q with
    | some b, some i, some c => some (.mutbuf b i c)
    | _, _, _ => none
  | ["ac", k, bs] => match parseNat k, parseNats bs with | some k, some bs => some (.appendCols k bs) | _, _ => none
  | ["ae", k, bs] => match parseNat k, parseNats bs with | some k, some bs => some (.appendEach k bs) | _, _ => none
  | ["add", k, specs] => match parseNat k, parseSeqSpecs specs with | some k, some sp => some (.add k sp) | _, _ => none
  | ["del", k, i] => match parseNat k, parseNat i with | some k, some i => some (.delete k i) | _, _ => none
  | ["fl", k, wh, fill] =>
    match parseNat k, parseNat wh, parseNat fill with
    | some k, some wh, some f => some (.flush k wh (UInt8.ofNat f))
    | _, _, _ => none
  | ["sub", k, a, b] => match parseNat k, parseInt a, parseInt b with | some k, some a, some b => some (.subseq k a b) | _, _, _ => none
  | ["tr", k, a, b] => match parseNat k, parseInt a, parseInt b with | some k, some a, some b => some (.truncate k a b) | _, _, _ => none
  | _ => none

/-- the alphabet context of a built-in alphabet (`comp` is the identity for an alphabet
    without a pairing; RevComp is then never requested) -/
def ctxOfDef (d : Def) : Option (Ctx × (UInt8 → Bool)) :=
  match d.build with
  | .ok (a, some p) =>
    some ({ comp := p.complements, gap := d.gap, amb := d.ambiguous, alpha := a, grow := growExact }, p.ok)
  | .ok (a, none) =>
    some ({ comp := id, gap := d.gap, amb := d.ambiguous, alpha := a, grow := growExact }, fun _ => false)
  | _ => none

structure History where
  cx : Ctx
  pairs : UInt8 → Bool       -- letters the alphabet pairs
  kind : String
  strand : Int
  rows : List SeqSpec
  ops : List Op

/-- `<tag> <alphabet> <kind> <strand> <rows> <op>…` -/
def parseHistory (defs : List Def) (toks : List String) : Option History :=
  match toks with
  | _ :: alpha :: kind :: strand :: rows :: ops =>
    match defs.find? (·.name == alpha) with
    | none => none
    | some d =>
      match ctxOfDef d, parseInt strand, parseSeqSpecs rows, ops.mapM parseOp with
      | some (cx, pairs), some st, some rows, some ops => some { cx, pairs, kind, strand := st, rows, ops }
      | _, _, _, _ => none
  | _ => none

def History.init (hist : History) : World := initWorld hist.cx hist.kind hist.strand hist.rows

end Biogo.Containers
