/-
Model of the quality-score code of /repo/alphabet/letters.go:
`Encoding.DecodeToQphred`, `Encoding.DecodeToQsolexa`, `Qphred.Encode`, `Qsolexa.Encode`
(integer only: `byte` is `UInt8`, `int8` is `Int8`, conversions between them are the
two's-complement reinterpretations Go performs), and the four lookup tables as data.

The case lists and literals of the four switch statements (`Source`) and the tables
(`Tables`) are parameters: their values live in `Biogo.Generated.QualTables`, rewritten from
the source and from the running package on every check.  What is fixed here is the shape of a
case: "take the score (or its converted value), add the offset when it is at most the
threshold, raise to the floor", with the threshold test made on the score *in its own type*
(unsigned for a Phred score, signed for a Solexa score).  Core-only.
-/
namespace Biogo.Quality

/-- A float64 probability read exactly: `val m k` is `m / 2^k`. -/
inductive Prob
  | nan
  | val (m k : Nat)
  | bad            -- negative, infinite or ≥ 2^53: never a probability
  deriving DecidableEq, Repr

/-- IEEE-754 binary64 → exact value (non-negative finite values below 2^53 only). -/
def Prob.ofBits (b : Nat) : Prob :=
  let sign := b / 2 ^ 63
  let ex := (b / 2 ^ 52) % 2048
  let fr := b % 2 ^ 52
  if ex = 2047 then (if fr = 0 then .bad else .nan)
  else if sign ≠ 0 then (if ex = 0 ∧ fr = 0 then .val 0 0 else .bad)
  else if ex = 0 then (if fr = 0 then .val 0 0 else .val fr 1074)
  else if ex > 1075 then .bad
  else .val (fr + 2 ^ 52) (1075 - ex)

/-- body of one `case` of an `Encode` switch -/
inductive EncKind
  /-- `q = byte(score)`, `if score <= thr { q += off }`, `if q < floor { q = floor }`;
      `conv` = the score is first converted to the other score type through its table -/
  | offset (conv : Bool) (thr off floor : Nat)
  /-- `return b` -/
  | const (b : Nat)
  deriving DecidableEq, Repr

structure EncClause where
  encs : List Int
  kind : EncKind
  deriving Repr

/-- body of one `case` of a `DecodeTo…` switch -/
inductive DecKind
  /-- `return T(q) - off`, through the conversion table when `conv` -/
  | sub (conv : Bool) (off : Nat)
  /-- `return v` -/
  | const (v : Int)
  deriving DecidableEq, Repr

structure DecClause where
  encs : List Int
  kind : DecKind
  deriving Repr

structure Source where
  phredSpecial : List (Int × Nat)     -- `if qp == a { return b }`
  phredEnc : List EncClause
  solexaSpecial : List (Int × Nat)
  solexaEnc : List EncClause
  decPhred : List DecClause
  decSolexa : List DecClause

structure Tables where
  phredE : List Prob        -- phredETable, index q
  solexaE : List Prob       -- solexaETable, index qs + 128
  phredSolexa : List Int    -- phredSolexaTable, index q
  solexaPhred : List Nat    -- solexaPhredTable, index qs + 128

/-- `Qphred.Qsolexa` -/
def Tables.toSolexa (T : Tables) (q : UInt8) : Int8 := Int8.ofInt (T.phredSolexa.getD q.toNat 0)
/-- `Qsolexa.Qphred`: `solexaPhredTable[int(qs)+128]` -/
def Tables.toPhred (T : Tables) (qs : Int8) : UInt8 :=
  UInt8.ofNat (T.solexaPhred.getD (qs.toInt + 128).toNat 0)
/-- `Qphred.ProbE` -/
def Tables.probPhred (T : Tables) (q : UInt8) : Prob := T.phredE.getD q.toNat .bad
/-- `Qsolexa.ProbE` -/
def Tables.probSolexa (T : Tables) (qs : Int8) : Prob := T.solexaE.getD (qs.toInt + 128).toNat .bad

def raise (floor : Nat) (q : UInt8) : UInt8 :=
  if q < UInt8.ofNat floor then UInt8.ofNat floor else q

/-- the offset rule applied to a Phred score (threshold test on the unsigned byte) -/
def offsetU (thr off floor : Nat) (qp : UInt8) : UInt8 :=
  raise floor (if qp ≤ UInt8.ofNat thr then qp + UInt8.ofNat off else qp)

/-- the offset rule applied to a Solexa score (threshold test on the signed score,
    the byte is its two's-complement reinterpretation) -/
def offsetS (thr off floor : Nat) (qs : Int8) : UInt8 :=
  raise floor (if qs ≤ Int8.ofNat thr then qs.toUInt8 + UInt8.ofNat off else qs.toUInt8)

def findEnc (cs : List EncClause) (e : Int) : Option EncKind :=
  (cs.find? (fun c => c.encs.contains e)).map (·.kind)

def findDec (cs : List DecClause) (e : Int) : Option DecKind :=
  (cs.find? (fun c => c.encs.contains e)).map (·.kind)

/-- `Qphred.Encode`.  An encoding without a case leaves the named result at 0. -/
def encodePhred (S : Source) (T : Tables) (e : Int) (qp : UInt8) : UInt8 :=
  match S.phredSpecial.lookup (qp.toNat : Int) with
  | some b => UInt8.ofNat b
  | none =>
    match findEnc S.phredEnc e with
    | none => 0
    | some (.const b) => UInt8.ofNat b
    | some (.offset false thr off floor) => offsetU thr off floor qp
    | some (.offset true thr off floor) => offsetS thr off floor (T.toSolexa qp)

/-- `Qsolexa.Encode`. -/
def encodeSolexa (S : Source) (T : Tables) (e : Int) (qs : Int8) : UInt8 :=
  match S.solexaSpecial.lookup qs.toInt with
  | some b => UInt8.ofNat b
  | none =>
    match findEnc S.solexaEnc e with
    | none => 0
    | some (.const b) => UInt8.ofNat b
    | some (.offset false thr off floor) => offsetS thr off floor qs
    | some (.offset true thr off floor) => offsetU thr off floor (T.toPhred qs)

/-- `Encoding.DecodeToQphred`; `none` = the default clause (panic). -/
def decodePhred (S : Source) (T : Tables) (e : Int) (b : UInt8) : Option UInt8 :=
  match findDec S.decPhred e with
  | none => none
  | some (.const v) => some (UInt8.ofInt v)
  | some (.sub false off) => some (b - UInt8.ofNat off)
  | some (.sub true off) => some (T.toPhred (b.toInt8 - Int8.ofNat off))

/-- `Encoding.DecodeToQsolexa`. -/
def decodeSolexa (S : Source) (T : Tables) (e : Int) (b : UInt8) : Option Int8 :=
  match findDec S.decSolexa e with
  | none => none
  | some (.const v) => some (Int8.ofInt v)
  | some (.sub false off) => some (b.toInt8 - Int8.ofNat off)
  | some (.sub true off) => some (T.toSolexa (b - UInt8.ofNat off))

end Biogo.Quality
