/-
Model of `io/featio/gff/gff.go` and `feat/position.go` (after the `fix:` commits for F1–F4):
`Reader.Read` with `commentMetaline` and `metaSeq`, `Writer.Write` for features, regions and
inline sequences, attribute formatting and parsing.  Core-only.

`strconv.ParseFloat`, `fmt`'s `%v` on float64 and `time.Parse` are not modelled: they are the
fields of `Oracles`, and every definition and theorem is parametric in them (the driver fills
them with values sampled from the standard library on the same input).
A float64 is represented by its 64 bits (`Nat`).
-/
import Biogo.Go.BytesFeat

namespace Biogo.Gff
open Biogo.BytesFeat

structure Oracles where
  /-- `strconv.ParseFloat(s, 64)`: bits of the value, `none` on error -/
  parseFloat : Bytes → Option Nat
  /-- `fmt.Sprintf("%v", x)` -/
  formatFloat : Nat → Bytes
  /-- `time.Parse(Astronomical, s)` succeeds -/
  parseDate : Bytes → Bool

/-! ### feat.OneToZero / feat.ZeroToOne -/

/-- `feat.OneToZero`; `none` is the string panic on 0 -/
def oneToZero (p : Int) : Option Int :=
  if p == 0 then none else if p > 0 then some (p - 1) else some p

def zeroToOne (p : Int) : Int := if p ≥ 0 then p + 1 else p

/-! ### values -/

inductive Err
  | missing (col : Nat)          -- ErrFieldMissing
  | num (col : Nat)              -- *strconv.NumError
  | zero (col : Nat)             -- start position 0 (error added by the fix for F3)
  | strandField (col : Nat)
  | strand (col : Nat)
  | tag (col : Nat)              -- ErrBadTag
  | metaline                     -- ErrBadMetaLine
  | notHandled                   -- ErrNotHandled
  | badSeq                       -- ErrBadSequence
  | badMoltype                   -- ErrBadMoltype (not a csv.ParseError)
  | date                         -- *time.ParseError
  deriving DecidableEq, Repr

abbrev Res := BytesFeat.Res Err
abbrev PanicVal := BytesFeat.PanicVal Err

structure Attr where
  tag : Bytes
  value : Bytes
  deriving DecidableEq, Repr

structure Feature where
  seqName : Bytes
  source : Bytes
  feature : Bytes
  start : Int
  stop : Int
  score : Option Nat := none          -- bits of the float64; `none` = nil pointer
  strand : Int := 0
  frame : Int := -1
  attrs : Option (List Attr) := none  -- `none` = nil slice
  comments : Bytes := []
  deriving DecidableEq, Repr

def Feature.len (f : Feature) : Int := wrap64 (f.stop - f.start)

inductive Item
  | feature (f : Feature)
  | region (name : Bytes) (moltype : Int) (start stop : Int)
  | sequence (id : Bytes) (moltype : Int) (letters : Bytes)
  deriving DecidableEq, Repr

structure Meta where
  version : Int := 0
  sourceVersion : Bytes := []
  moltype : Int := -1
  name : Bytes := []
  deriving DecidableEq, Repr

structure St where
  line : Nat := 0
  md : Meta := {}
  deriving DecidableEq, Repr

inductive Call
  | item (i : Item)
  | err (e : Err) (line : Nat)
  | panicked (p : PanicVal)
  | eof
  deriving DecidableEq, Repr

/-! ### field parsers -/

def mustAtoi (f : List Bytes) (i : Nat) : Res Int := do
  let x ← idx f i
  match parseInt x 64 with
  | .ok v => .ok v
  | .error _ => .panic (.error (.num i))

/-- one-based position column → zero-based (the fix for F3 reports 0 as an error instead of
    letting `feat.OneToZero` panic with a string) -/
def mustAtoPos (f : List Bytes) (i : Nat) : Res Int := do
  let v ← mustAtoi f i
  match oneToZero v with
  | some p => .ok p
  | none => .panic (.error (.zero i))

def mustAtofPtr (o : Oracles) (f : List Bytes) (i : Nat) : Res (Option Nat) := do
  let x ← idx f i
  if x == [46] then .ok none
  else match o.parseFloat x with
    | some v => .ok (some v)
    | none => .panic (.error (.num i))

def mustAtoFr (f : List Bytes) (i : Nat) : Res Int := do
  let x ← idx f i
  if x == [46] then .ok (-1)
  else match parseInt x 8 with
    | .ok v => .ok v
    | .error _ => .panic (.error (.num i))

def mustAtos (f : List Bytes) (i : Nat) : Res Int := do
  let x ← idx f i
  match x with
  | [c] =>
    if c == 43 then .ok 1 else if c == 46 then .ok 0 else if c == 45 then .ok (-1)
    else .panic (.error (.strand i))
  | _ => .panic (.error (.strandField i))

/-- the `alphaNum` table: letters and underscore (no digits) -/
def alphaNum (c : UInt8) : Bool := (97 ≤ c && c ≤ 122) || (65 ≤ c && c ≤ 90) || c == 95

/-- `splitAnnot`: `acc` is the tag read so far, reversed.  Value `none` = nil slice. -/
def splitAnnotAux (col : Nat) : Bytes → Bytes → Res (Bytes × Option Bytes)
  | [], acc => .ok (acc.reverse, none)
  | b :: r, acc =>
    if isSpaceByte b then
      let v := r.dropWhile isSpaceByte
      -- the loop variable stops on the first non-space byte, or stays on the last byte
      .ok (acc.reverse, some (if v.isEmpty then [(b :: r).getLastD b] else v))
    else if alphaNum b then splitAnnotAux col r (b :: acc)
    else .panic (.error (.tag col))

def splitAnnot (f : Bytes) (col : Nat) : Res (Bytes × Option Bytes) := splitAnnotAux col f []

def attrLoop (col : Nat) : List Bytes → Res (List Attr)
  | [] => .ok []
  | p :: ps =>
    let f := trimSpace p
    if f.isEmpty then attrLoop col ps
    else do
      let (tag, value) ← splitAnnot f col
      if tag.isEmpty then .panic (.error (.tag col))
      else do
        let rest ← attrLoop col ps
        .ok ({ tag, value := value.getD [] } :: rest)

def mustAtoa (f : List Bytes) (i : Nat) : Res (List Attr) := do
  let x ← idx f i
  attrLoop i (splitOn 59 x)

/-- `feat.ParseMoltype` -/
def parseMoltype (s : Bytes) : Int :=
  if s == ofString "DNA" || s == ofString "dna" then 0
  else if s == ofString "RNA" || s == ofString "rna" then 1
  else if s == ofString "Protein" || s == ofString "protein" then 2
  else -1

/-! ### reader -/

/-- the feature-line part of `Read` (after the line loop) -/
def parseFeature (o : Oracles) (line : Bytes) : Res Feature :=
  let fields := splitN 9 10 line
  if fields.length ≤ 7 then .ret (.missing fields.length) else do
  let seqName ← idx fields 0
  let source ← idx fields 1
  let feature ← idx fields 2
  let start ← mustAtoPos fields 3
  let stop ← mustAtoi fields 4
  let score ← mustAtofPtr o fields 5
  let strand ← mustAtos fields 6
  let frame ← mustAtoFr fields 7
  let g : Feature := { seqName, source, feature, start, stop, score, strand, frame }
  if fields.length ≤ 8 then pure g else do
  let attrs ← mustAtoa fields 8
  let g := { g with attrs := some attrs }
  if fields.length ≤ 9 then pure g else do
  let comments ← idx fields 9
  -- `if gff.FeatStart >= gff.FeatEnd { err = ErrBadFeature }; return gff, nil`: the error is lost
  pure { g with comments }

/-- what `commentMetaline` decides for one `##` line -/
inductive MetaStep
  | continue_ (md : Meta)                 -- `return r.Read()`
  | done (r : Res Item)                   -- a region, an error or a panic
  | metaSeq (moltype id : Bytes)

def isSeqKeyword (k : Bytes) : Bool :=
  k == ofString "DNA" || k == ofString "RNA" || k == ofString "Protein" ||
  k == ofString "dna" || k == ofString "rna" || k == ofString "protein"

/-- `commentMetaline(line)`, `line` without the leading `##` -/
def commentMetaline (o : Oracles) (md : Meta) (line : Bytes) : MetaStep :=
  let fields := splitOn 32 line
  match fields with
  | [] => .done (.ret .metaline)      -- ErrEmptyMetaLine; unreachable, Split returns ≥ 1 piece
  | k :: args =>
    if k == ofString "gff-version" then
      if fields.length ≤ 1 then .done (.ret .metaline)
      else match mustAtoi fields 1 with
        | .ok v => if v > 2 then .done (.ret .notHandled) else .continue_ { md with version := 2 }
        | .ret e => .done (.ret e)
        | .panic p => .done (.panic p)
    else if k == ofString "source-version" then
      if fields.length ≤ 1 then .done (.ret .metaline)
      else .continue_ { md with sourceVersion := joinWith 32 args }
    else if k == ofString "date" then
      if fields.length ≤ 1 then .done (.ret .metaline)
      else if o.parseDate (joinWith 32 args) then .continue_ md
      else .done (.ret .date)
    else if k == ofString "Type" || k == ofString "type" then
      match args with
      | [] => .done (.ret .metaline)
      | t :: rest =>
        let md := { md with moltype := parseMoltype t }
        match rest with
        | [] => .continue_ md
        | nm :: _ => .continue_ { md with name := nm }
    else if k == ofString "sequence-region" then
      if fields.length ≤ 3 then .done (.ret .metaline)
      else .done (do
        let name ← idx fields 1
        let start ← mustAtoPos fields 2
        let stop ← mustAtoi fields 3
        pure (Item.region name md.moltype start stop))
    else if isSeqKeyword k then
      match args with
      | [] => .done (.ret .metaline)
      | id :: _ => .metaSeq k id
    else .done (.ret .notHandled)

/-- the line loop of `metaSeq` over the lines already passed through `bytes.TrimSpace` (both
    loops do `line, err = ReadBytes('\n'); r.line++; line = bytes.TrimSpace(line)`);
    `body` is the sequence read so far -/
def metaSeq (moltype id : Bytes) : List Bytes → St → Bytes → Call × List Bytes × St
  | [], st, _ => (.eof, [], st)
  | line :: ls, st, body =>
    let st := { st with line := st.line + 1 }
    if line.isEmpty then metaSeq moltype id ls st body
    else if line.length < 2 || !hasPrefix [35, 35] line then (.err .badSeq st.line, ls, st)
    else
      let line := trimSpace (line.drop 2)
      if line == ofString "end-" ++ moltype then
        let m := parseMoltype moltype
        if m == -1 then (.err .badMoltype 0, ls, st)
        else (.item (.sequence id m body), ls, st)
      else metaSeq moltype id ls st (body ++ removeSpaces line)

def resToCall (r : Res Item) (line : Nat) : Call :=
  match handlePanic r with
  | .ok i => .item i
  | .ret e => .err e (match e with | .badMoltype => 0 | .date => 0 | _ => line)
  | .panic p => .panicked p

/-- one call of `Reader.Read` on the trimmed lines: the outcome, the lines not yet consumed, the
    reader state -/
def read (o : Oracles) : List Bytes → St → Call × List Bytes × St
  | [], st => (.eof, [], st)
  | line :: ls, st =>
    let st := { st with line := st.line + 1 }
    if line.isEmpty then read o ls st
    else if hasPrefix [35, 35] line then
      match commentMetaline o st.md (line.drop 2) with
      | .continue_ md => read o ls { st with md }
      | .done r => (resToCall r st.line, ls, st)
      | .metaSeq moltype id => metaSeq moltype id ls st []
    else if line.head? == some 35 then read o ls st
    else (resToCall ((parseFeature o line).bind (fun f => .ok (Item.feature f))) st.line, ls, st)

/-- successive calls until `io.EOF` (a panic ends the list); `fuel` bounds the number of calls
    and is always given as `lines + 1`, which `Properties/C03_feat` proves sufficient -/
def readCalls (o : Oracles) : Nat → List Bytes → St → List Call × St
  | 0, _, st => ([], st)
  | fuel + 1, ls, st =>
    match read o ls st with
    | (.eof, _, st') => ([.eof], st')
    | (.panicked p, _, st') => ([.panicked p], st')
    | (c, ls', st') =>
      let (cs, st'') := readCalls o fuel ls' st'
      (c :: cs, st'')

/-- the lines as the reader sees them: `ReadBytes('\n')` followed by `bytes.TrimSpace` -/
def trimmedLines (bs : Bytes) : List Bytes := (lines bs).map trimSpace

def readAll (o : Oracles) (bs : Bytes) : List Call × St :=
  let ls := trimmedLines bs
  readCalls o (ls.length + 1) ls {}

/-! ### writer -/

inductive WErr | badFeature | notHandled
  deriving DecidableEq, Repr

def strandText (s : Int) : Bytes :=
  if s == 1 then [43] else if s == 0 then [46] else if s == -1 then [45] else ofString "undefined"

/-- `Frame.String` -/
def frameText (f : Int) : Bytes :=
  if f ≤ -1 || f > 2 then [46] else natDigits f.toNat

/-- bits of a float64 that is a NaN -/
def isNaN (bits : Nat) : Bool := (bits / 2 ^ 52) % 2 ^ 11 == 2047 && bits % 2 ^ 52 != 0

def scoreText (o : Oracles) (s : Option Nat) : Bytes :=
  match s with
  | some x => if isNaN x then [46] else o.formatFloat x
  | none => [46]

/-- `Attributes.Format` -/
def attrsText (as : List Attr) : Bytes :=
  joinWithS [59, 32] (as.map fun a => a.tag ++ 32 :: a.value)

/-- the text of a feature line without its terminator -/
def featureText (o : Oracles) (f : Feature) : Bytes :=
  joinWith 9 [f.seqName, f.source, f.feature, formatInt (zeroToOne f.start), formatInt f.stop,
              scoreText o f.score, strandText f.strand, frameText f.frame]
  ++ (match f.attrs with
      | some as => 9 :: attrsText as
      | none => if f.comments.isEmpty then [] else [9])
  ++ (if f.comments.isEmpty then [] else 9 :: f.comments)

/-- `Writer.Write(*Feature)`: text emitted and reported count -/
def writeFeature (o : Oracles) (f : Feature) : Except WErr (Bytes × Nat) :=
  if f.start ≥ f.stop then .error .badFeature
  else
    let t := featureText o f
    .ok (t ++ [10], t.length + 1)

/-- `##sequence-region` line written for a `*Region`, a `*Feature` passed to `WriteMetaData`, or
    any other feature -/
def writeRegion (name : Bytes) (start stop : Int) : Except WErr (Bytes × Nat) :=
  if start ≥ stop then .error .badFeature
  else
    let t := ofString "##sequence-region " ++ name ++ 32 :: formatInt (zeroToOne start) ++ 32 :: formatInt stop ++ [10]
    .ok (t, t.length)

def molName (m : Nat) : Bytes :=
  if m == 0 then ofString "DNA" else if m == 1 then ofString "RNA" else ofString "Protein"

/-- the letter loop of the FASTA writer with `SeqPrefix = "##"`: `i` is the index of the next letter -/
def seqBody (width : Nat) : Bytes → Nat → Bytes
  | [], _ => []
  | c :: r, i => (if i % width == 0 then [10, 35, 35] else []) ++ c :: seqBody width r (i + 1)

/-- `Writer.Write(seq.Sequence)` for a molecule type 0..2 and `width ≥ 1` -/
def writeSeq (width m : Nat) (id desc letters : Bytes) : Except WErr (Bytes × Nat) :=
  if letters.isEmpty then .error .badFeature      -- Start() >= End()
  else if m > 2 then .error .notHandled
  else
    let t := [35, 35] ++ molName m ++ 32 :: id ++ (if desc.isEmpty then [] else 32 :: desc)
             ++ seqBody width letters 0 ++ [10] ++ ofString "##end-" ++ molName m ++ [10]
    .ok (t, t.length)

def headerText : Bytes := ofString "##gff-version 2\n"

end Biogo.Gff
