/-
Model of the linear-gap aligners of /repo/align: `NW`, `SW` and `Fitted`
(`nw.go`, `sw.go`, `fitted.go` and the templates `nw_type.got`, `sw_type.got`,
`fitted_type.got`, from which the `*_letters.go` / `*_qletters.go` files are generated).

What is mirrored
* `Align` (outer): alphabet nil / alphabet identity / gap letter at index 0 / slice types.
* `alignType`: matrix size check, squareness check while flattening `a` into `la`,
  the letter checks in the order the code makes them, the row-major fill of the flat
  `table` (`max3`; SW's clipping at 0 and its end-cell rule `score >= maxS && score ==
  diagScore`; Fitted's free first column and its end-row rule with `minInt`), and the
  traceback loop with its `switch` order (SW: `case 0` first; then diagonal, up, left),
  the emission of a feature pair on every change of direction (with the
  `p != len(table)-1` guard of NW/Fitted), and the blocks appended after the loop.
* Go's `append` + final reversal of `aln` is modelled by consing onto the front.
* `table[p]` with `p = i*c+j` is indexed literally on the flattened table.
* `int` is modelled by unbounded `Int` (overflow is outside the model, DESIGN §7).
* The letter checks abort the fill and discard the table, so the model performs them first
  (in the code's order) and then runs the fill on alphabet indices.

Core-only.
-/
import Biogo.Spec.Alignment
import Biogo.Spec.AlignPairs

namespace Biogo.AlignLin
open Biogo.Spec.Alignment
open Biogo.Spec.AlignPairs (Pair)

/-- `max3` of align.go: `if b > a { a = b }; if c > a { return c }; return a` -/
def max3 (a b c : Int) : Int :=
  let a' := if b > a then b else a
  if c > a' then c else a'

/-- `minInt` of align.go on a 64-bit platform -/
def minInt : Int := -9223372036854775808

inductive Dir | diag | up | left
  deriving DecidableEq, Repr

/-- the flattened matrix `la` (row length `n`) as a scoring function: `la[a*n+b]` -/
def matOf (la : Array Int) (n : Nat) : Matrix := fun a b => la.getD (a * n + b) 0

/-! ### Fill (NW and Fitted) -/

/-- `for j := range table[1:c] { table[j+1] = table[j] + la[index[qSeq[j]]] }` -/
def firstRowGo (S : Matrix) (acc : Int) : List Nat → List Int
  | [] => []
  | b :: q => (acc + S 0 b) :: firstRowGo S (acc + S 0 b) q

def firstRow (S : Matrix) (q : List Nat) : List Int := 0 :: firstRowGo S 0 q

/-- the inner loop `for j := 1; j < c; j++` for the row of reference letter `a`:
    `d` is `table[p-c-1]`, `l` is `table[p-1]`, the list is the previous row from column `j` on
    (its head is `table[p-c]`). -/
def rowGo (S : Matrix) (a : Nat) : Int → Int → List Int → List Nat → List Int
  | d, l, u :: prev, b :: q =>
    let v := max3 (d + S a b) (u + S a 0) (l + S 0 b)
    v :: rowGo S a u v prev q
  | _, _, _, _ => []

/-- one table row from the previous one.  `free = false` (NW): column 0 is
    `table[(i-1)*c] + la[rVal*let]`; `free = true` (Fitted): column 0 stays 0. -/
def nextRow (S : Matrix) (free : Bool) (a : Nat) (prev : List Int) (q : List Nat) : List Int :=
  match prev with
  | [] => []
  | p0 :: prev' =>
    let v0 := if free then 0 else p0 + S a 0
    v0 :: rowGo S a p0 v0 prev' q

def rowsFrom (S : Matrix) (free : Bool) (q : List Nat) : List Int → List Nat → List (List Int)
  | _, [] => []
  | prev, a :: r => nextRow S free a prev q :: rowsFrom S free q (nextRow S free a prev q) r

/-- all rows of the table, row `i` for the reference prefix of length `i` -/
def fill (S : Matrix) (free : Bool) (r q : List Nat) : List (List Int) :=
  firstRow S q :: rowsFrom S free q (firstRow S q) r

/-! ### Fill (SW) with the running best end cell -/

structure Best where
  s : Int
  i : Nat
  j : Nat
  deriving DecidableEq, Repr

/-- SW inner loop: the cell is `max3` clipped at 0; the end cell is replaced when
    `score > 0 && score >= maxS && score == diagScore`. -/
def swRowGo (S : Matrix) (a : Nat) (i : Nat) :
    Nat → Int → Int → List Int → List Nat → Best → List Int × Best
  | j, d, l, u :: prev, b :: q, best =>
    let ds := d + S a b
    let sc := max3 ds (u + S a 0) (l + S 0 b)
    let v := if sc > 0 then sc else 0
    let best' := if sc > 0 ∧ sc ≥ best.s ∧ sc = ds then ⟨sc, i, j⟩ else best
    let res := swRowGo S a i (j + 1) u v prev q best'
    (v :: res.1, res.2)
  | _, _, _, _, _, best => ([], best)

def swRowsFrom (S : Matrix) (q : List Nat) : Nat → List Int → List Nat → Best → List (List Int) × Best
  | _, _, [], best => ([], best)
  | i, prev, a :: r, best =>
    match prev with
    | [] => ([], best)
    | p0 :: prev' =>
      let res := swRowGo S a i 1 p0 0 prev' q best
      let rest := swRowsFrom S q (i + 1) (0 :: res.1) r res.2
      ((0 :: res.1) :: rest.1, rest.2)

def swFill (S : Matrix) (r q : List Nat) : List (List Int) × Best :=
  let r0 := List.replicate (q.length + 1) 0
  let res := swRowsFrom S q 1 r0 r ⟨0, 0, 0⟩
  (r0 :: res.1, res.2)

/-! ### Traceback -/

structure LoopOut where
  i : Nat
  j : Nat
  score : Int
  maxI : Nat
  maxJ : Nat
  acc : List Pair
  deriving Repr

/-- `if <cond> { aln = append(aln, &featPair{[i,maxI),[j,maxJ),score}); maxI, maxJ = i, j; score = 0 }` -/
def emitIf (cond : Bool) (i j : Nat) (score : Int) (maxI maxJ : Nat) (acc : List Pair) :
    Int × Nat × Nat × List Pair :=
  if cond then (0, i, j, ⟨i, maxI, j, maxJ, score⟩ :: acc) else (score, maxI, maxJ, acc)

/-- the traceback loop `for i > 0 && j > 0 { switch p := i*c + j; table[p] { … } }`.
    `loc = true` is SW's loop (`case 0: break loop` first, no corner guard); `loc = false` is
    the loop of NW and Fitted (corner guard `p != len(table)-1` on the gap cases).
    `none` is the `default: panic("internal error: no path")`.  The fuel is `i + j`. -/
def traceLoop (S : Matrix) (r q : List Nat) (tab : Array Int) (c : Nat) (loc : Bool) :
    Nat → Nat → Nat → Dir → Int → Nat → Nat → List Pair → Option LoopOut
  | 0, i, j, _, score, maxI, maxJ, acc => some ⟨i, j, score, maxI, maxJ, acc⟩
  | fuel + 1, i, j, last, score, maxI, maxJ, acc =>
    if i > 0 ∧ j > 0 then
      let rv := r.getD (i - 1) 0
      let qv := q.getD (j - 1) 0
      let p := i * c + j
      let t := tab.getD p 0
      if loc ∧ t = 0 then some ⟨i, j, score, maxI, maxJ, acc⟩
      else if t = tab.getD (p - c - 1) 0 + S rv qv then
        let e := emitIf (last != .diag) i j score maxI maxJ acc
        traceLoop S r q tab c loc fuel (i - 1) (j - 1) .diag (e.1 + (t - tab.getD (p - c - 1) 0)) e.2.1 e.2.2.1 e.2.2.2
      else if t = tab.getD (p - c) 0 + S rv 0 then
        let e := emitIf (last != .up && (loc || p != tab.size - 1)) i j score maxI maxJ acc
        traceLoop S r q tab c loc fuel (i - 1) j .up (e.1 + (t - tab.getD (p - c) 0)) e.2.1 e.2.2.1 e.2.2.2
      else if t = tab.getD (p - 1) 0 + S 0 qv then
        let e := emitIf (last != .left && (loc || p != tab.size - 1)) i j score maxI maxJ acc
        traceLoop S r q tab c loc fuel i (j - 1) .left (e.1 + (t - tab.getD (p - 1) 0)) e.2.1 e.2.2.1 e.2.2.2
      else none
    else some ⟨i, j, score, maxI, maxJ, acc⟩

/-- the flat `table` -/
def flat (rows : List (List Int)) : Array Int := rows.flatten.toArray

/-! ### The three aligners on alphabet indices -/

def nwTable (S : Matrix) (r q : List Nat) : Array Int := flat (fill S false r q)

/-- the bottom-right cell: the value NW's alignment must total -/
def nwScore (S : Matrix) (r q : List Nat) : Int :=
  (nwTable S r q).getD (r.length * (q.length + 1) + q.length) 0

/-- NW after the fill: traceback from the corner, the pending block, then the leading gap
    block `if i != j`. -/
def nwCore (S : Matrix) (r q : List Nat) : Option (List Pair) :=
  let c := q.length + 1
  let tab := nwTable S r q
  match traceLoop S r q tab c false (r.length + q.length) r.length q.length .diag 0 r.length q.length [] with
  | none => none
  | some o =>
    let aln := (⟨o.i, o.maxI, o.j, o.maxJ, o.score⟩ : Pair) :: o.acc
    some (if o.i ≠ o.j then ⟨0, o.i, 0, o.j, tab.getD (o.i * c + o.j) 0⟩ :: aln else aln)

def swTable (S : Matrix) (r q : List Nat) : Array Int := flat (swFill S r q).1

/-- `maxS`: the value SW's alignment must total -/
def swScore (S : Matrix) (r q : List Nat) : Int := (swFill S r q).2.s

def swCore (S : Matrix) (r q : List Nat) : Option (List Pair) :=
  let c := q.length + 1
  let best := (swFill S r q).2
  match traceLoop S r q (swTable S r q) c true (best.i + best.j) best.i best.j .diag 0 best.i best.j [] with
  | none => none
  | some o => some ((⟨o.i, o.maxI, o.j, o.maxJ, o.score⟩ : Pair) :: o.acc)

def fitTable (S : Matrix) (r q : List Nat) : Array Int := flat (fill S true r q)

/-- last-column cell of row `e`: the value a query-consuming Fitted alignment ending at
    reference position `e` must total -/
def fitScoreAt (S : Matrix) (r q : List Nat) (e : Nat) : Int :=
  (fitTable S r q).getD (e * (q.length + 1) + q.length) 0

/-- `for y := 1; y < r; y++ { v := table[y*c+c-1]; if v >= max && la[rVal*let+qVal] >= 0 { i = y; max = v } }` -/
def fitEndGo (S : Matrix) (tab : Array Int) (c : Nat) (qv : Nat) : List Nat → Nat → Nat → Int → Nat
  | [], _, i, _ => i
  | a :: r, y, i, mx =>
    let v := tab.getD (y * c + c - 1) 0
    if v ≥ mx ∧ S a qv ≥ 0 then fitEndGo S tab c qv r (y + 1) y v
    else fitEndGo S tab c qv r (y + 1) i mx

def fitEnd (S : Matrix) (r q : List Nat) : Nat :=
  fitEndGo S (fitTable S r q) (q.length + 1) (q.getD (q.length - 1) 0) r 1 0 minInt

/-- Fitted after the fill (query non-empty): end-row selection, traceback, the pending block,
    then the leading query block `if j != 0` (the repair of K2b). -/
def fitCore (S : Matrix) (r q : List Nat) : Option (List Pair) :=
  let c := q.length + 1
  let tab := fitTable S r q
  let e := fitEnd S r q
  match traceLoop S r q tab c false (e + q.length) e q.length .diag 0 e q.length [] with
  | none => none
  | some o =>
    let aln := (⟨o.i, o.maxI, o.j, o.maxJ, o.score⟩ : Pair) :: o.acc
    some (if o.j ≠ 0 then ⟨o.i, o.i, 0, o.j, tab.getD (o.i * c + o.j) 0⟩ :: aln else aln)

/-! ### Validation and the `Align` entry points -/

inductive Err
  | noAlphabet | alphabets | notGapped | types | notSquare
  | wrongSize (size len : Nat)
  | illegalR (pos : Nat) | illegalQ (pos : Nat)
  deriving DecidableEq, Repr

inductive Res
  | ok (ps : List Pair)
  | error (e : Err)
  | panic (why : String)
  deriving DecidableEq, Repr

inductive Aligner | nw | sw | fit
  deriving DecidableEq, Repr

/-- everything an `Align` call sees -/
structure Call where
  refAlpha : Option Nat      -- identity of the reference's alphabet object (`none` = nil)
  qryAlpha : Option Nat
  gapIndex : Int             -- `alpha.IndexOf(alpha.Gap())`
  refQ : Bool                -- reference slice is `alphabet.QLetters` (else `Letters`)
  qryQ : Bool
  alphaLen : Nat             -- `alpha.Len()`
  index : UInt8 → Int        -- `alpha.LetterIndex()`
  mat : List (List Int)
  r : List UInt8
  q : List UInt8

/-- `for _, row := range a { if len(row) != let { return ErrMatrixNotSquare } … }` -/
def isSquare (mat : List (List Int)) : Bool := mat.all (fun row => row.length == mat.length)

/-- first illegal letter of a sequence scanned left to right from position `i` -/
def firstIllegal (index : UInt8 → Int) : List UInt8 → Nat → Option Nat
  | [], _ => none
  | l :: ls, i => if index l < 0 then some i else firstIllegal index ls (i + 1)

/-- the letter checks of the main loop `for i { for j { if rVal < 0 …; if qVal < 0 … } }` -/
def checkInner (index : UInt8 → Int) (a : UInt8) (i : Nat) : List UInt8 → Nat → Option Err
  | [], _ => none
  | b :: q, j =>
    if index a < 0 then some (.illegalR i)
    else if index b < 0 then some (.illegalQ j)
    else checkInner index a i q (j + 1)

def checkOuter (index : UInt8 → Int) (q : List UInt8) : List UInt8 → Nat → Option Err
  | [], _ => none
  | a :: r, i =>
    match checkInner index a i q 0 with
    | some e => some e
    | none => checkOuter index q r (i + 1)

/-- the letter checks of each aligner in the order the code performs them -/
def checkLetters (al : Aligner) (index : UInt8 → Int) (r q : List UInt8) : Option Err :=
  match al with
  | .sw => checkOuter index q r 0
  | .nw =>
    -- first-row initialisation (query), first-column initialisation (reference), main loop
    match firstIllegal index q 0 with
    | some j => some (.illegalQ j)
    | none =>
      match firstIllegal index r 0 with
      | some i => some (.illegalR i)
      | none => checkOuter index q r 0
  | .fit =>
    -- first-row initialisation (query), main loop
    match firstIllegal index q 0 with
    | some j => some (.illegalQ j)
    | none => checkOuter index q r 0

def toIdx (index : UInt8 → Int) (ls : List UInt8) : List Nat := ls.map fun l => (index l).toNat

def alignType (al : Aligner) (c : Call) : Res :=
  let n := c.mat.length
  if n < c.alphaLen then .error (.wrongSize n c.alphaLen)
  else if !isSquare c.mat then .error .notSquare
  else
    match checkLetters al c.index c.r c.q with
    | some e => .error e
    | none =>
      let S := matOf c.mat.flatten.toArray n
      let r := toIdx c.index c.r
      let q := toIdx c.index c.q
      match al with
      | .nw => match nwCore S r q with
        | some ps => .ok ps
        | none => .panic "align: nw internal error: no path"
      | .sw => match swCore S r q with
        | some ps => .ok ps
        | none => .panic "align: sw internal error: no path"
      | .fit =>
        if q.isEmpty then .panic "index out of range [-1]"   -- `qSeq[j-1]` with `j = c-1 = 0`
        else match fitCore S r q with
        | some ps => .ok ps
        | none => .panic "align: fitted nw internal error: no path"

/-- `NW.Align`, `SW.Align`, `Fitted.Align` -/
def align (al : Aligner) (c : Call) : Res :=
  if c.refAlpha.isNone then .error .noAlphabet
  else if c.refAlpha ≠ c.qryAlpha then .error .alphabets
  else if c.gapIndex ≠ 0 then .error .notGapped
  else if c.refQ ≠ c.qryQ then .error .types
  else alignType al c

end Biogo.AlignLin
