/-
Model of `concurrent.Promise` (concurrent/promise.go), core Lean only.

Sequential layer: the mailbox (`message chan Result`, capacity 1) is `Option Res`; the
methods `fulfill`, `fail`, `Recover`, `Break` are pure functions on it that mirror the code
.  `fail` tests the `set` flag of `messageState` (fix 0095d35; as found it tested
"value and error both nil", so a promise fulfilled with nil could still be failed); `Recover`
touches the mailbox only when the promise is recoverable (fix 5f9d169; as found a refused
Recover dropped the message).

Concurrent layer: a labelled transition system (Biogo.Go.LTS).  Every actor performs one
call.  Fulfill/Fail/Recover/Break run entirely under the promise's mutex and contain no hook,
so each is one atomic step that needs the mutex to be free.  `Wait` has two steps, separated
by hook `promise.wait.borrowed`:

  `fixed = true` (after fix F19): Wait locks the mutex, sleeps on the condition variable
      while the mailbox is empty (= the step is not enabled), takes the message  --> borrowed
      (mutex held); then puts it back, unlocks                                   --> done
  `fixed = false` (code as found): Wait takes the message without the mutex      --> borrowed;
      then puts it back (blocked while the mailbox is full)                      --> done
-/
import Biogo.Go.LTS

namespace Biogo.Promise
open Biogo.LTS

/-- the `Err` field of a Result: a caller's error, or the relayed "already set" error -/
inductive ErrV where
  | user (k : Nat) | alreadySet
deriving Repr, DecidableEq, Inhabited

/-- `Result{Value, Err}`; `none` is Go's nil -/
structure Res where
  val : Option Nat
  err : Option ErrV
deriving Repr, DecidableEq, Inhabited

structure Flags where
  mutable : Bool
  recoverable : Bool
  relay : Bool
deriving Repr, DecidableEq

/-- the error returned by `Fulfill` -/
inductive FErr where
  | failedPromise | alreadySet | cannotRelay
deriving Repr, DecidableEq

def zero : Res := ⟨none, none⟩

/-- `messageState`: non-blocking take -/
def messageState (box : Option Res) : Res × Bool :=
  match box with
  | some r => (r, true)
  | none => (zero, false)

/-- `(*Promise).fulfill`; returns the new mailbox and the error (`none` = nil) -/
def fulfill (f : Flags) (box : Option Res) (v : Option Nat) : Option Res × Option FErr :=
  let (r, set) := messageState box
  let (r1, e1) : Res × Option FErr :=
    if r.err.isSome then (r, some .failedPromise)
    else if !set || f.mutable then ({ r with val := v }, none)
    else (r, some .alreadySet)
  let (r2, e2) : Res × Option FErr :=
    if e1.isSome && f.relay then
      if r1.err.isSome then (r1, some .cannotRelay) else ({ r1 with err := some .alreadySet }, e1)
    else (r1, e1)
  (some r2, e2)

/-- `(*Promise).fail` -/
def fail (box : Option Res) (v : Option Nat) (e : Option ErrV) : Option Res × Bool :=
  let (r, set) := messageState box
  if !set then
    (some { val := (if v.isSome then v else r.val), err := e }, true)
  else (some r, false)

/-- `(*Promise).Recover` -/
def recover (f : Flags) (box : Option Res) (v : Option Nat) : Option Res × Bool :=
  if f.recoverable then
    -- the message is taken and not put back; a non-nil value is then `fulfill`ed into the
    -- empty mailbox
    if v.isSome then ((fulfill f none v).1, true) else (none, true)
  else (box, false)

/-- `(*Promise).Break` -/
def brk (_box : Option Res) : Option Res := none

inductive Call where
  | fulfill (v : Option Nat)
  | fail (v : Option Nat) (e : Option ErrV)
  | recover (v : Option Nat)
  | brk
  | wait
deriving Repr, DecidableEq, Inhabited

inductive Ret where
  | ferr (e : Option FErr)     -- Fulfill's error
  | bool (b : Bool)            -- Fail / Recover
  | unit                       -- Break
  | res (r : Res)              -- the Result a Wait delivers
deriving Repr, DecidableEq, Inhabited

inductive APc where
  | start | borrowed (r : Res) | done (ret : Ret)
deriving Repr, DecidableEq, Inhabited

structure Cfg where
  flags : Flags
  calls : List Call
  fixed : Bool
deriving Repr

structure St where
  box : Option Res
  mu : Option Nat
  pcs : List APc
deriving Repr, DecidableEq

def init (c : Cfg) : St := { box := none, mu := none, pcs := List.replicate c.calls.length .start }

/-- a call other than Wait, executed under the mutex -/
def atomicCall (f : Flags) (box : Option Res) : Call → Option Res × Ret
  | .fulfill v => let (b, e) := fulfill f box v; (b, .ferr e)
  | .fail v e => let (b, ok) := fail box v e; (b, .bool ok)
  | .recover v => let (b, ok) := recover f box v; (b, .bool ok)
  | .brk => (brk box, .unit)
  | .wait => (box, .unit)   -- not used

def step (c : Cfg) (s : St) (i : Nat) : Option St :=
  match c.calls[i]?, s.pcs[i]? with
  | some .wait, some .start =>
    if c.fixed then
      match s.mu, s.box with
      | none, some r => some { box := none, mu := some i, pcs := s.pcs.set i (.borrowed r) }
      | _, _ => none
    else
      match s.box with
      | some r => some { s with box := none, pcs := s.pcs.set i (.borrowed r) }
      | none => none
  | some .wait, some (.borrowed r) =>
    if c.fixed then some { box := some r, mu := none, pcs := s.pcs.set i (.done (.res r)) }
    else
      match s.box with
      | none => some { s with box := some r, pcs := s.pcs.set i (.done (.res r)) }
      | some _ => none
  | some call, some .start =>
    match s.mu with
    | none =>
      let (b, ret) := atomicCall c.flags s.box call
      some { s with box := b, pcs := s.pcs.set i (.done ret) }
    | some _ => none
  | _, _ => none

def sys (c : Cfg) : Sys St Nat := { init := init c, step := step c }

/-- the promise's logical content: the mailbox, or (repaired protocol) the message that the
    waiter holding the mutex has borrowed -/
def cur (s : St) : Option Res :=
  match s.box with
  | some r => some r
  | none =>
    match s.mu with
    | some i =>
      match s.pcs[i]? with
      | some (.borrowed r) => some r
      | _ => none
    | none => none

/-- a call within the scope of the single-assignment property: Fulfill, Fail (any values, nil
    included: the message `{nil, nil}` counts as set), Wait -/
def Call.inScope : Call → Bool
  | .fulfill _ => true
  | .fail _ _ => true
  | .wait => true
  | _ => false

def Call.isSetter : Call → Bool
  | .wait => false
  | _ => true

/-- a Result that counts as settled: a value or an error is present -/
def Res.settled (r : Res) : Bool := r.val.isSome || r.err.isSome

/-- the call reported success: Fulfill returned nil / Fail returned true -/
def APc.isWin : APc → Bool
  | .done (.ferr none) => true
  | .done (.bool true) => true
  | _ => false

def APc.isDone : APc → Bool
  | .done _ => true
  | _ => false

def allDone (s : St) : Bool := s.pcs.all APc.isDone

/-! ### the sequential specification that every schedule refines (Properties/C19_promise.lean) -/

/-- one call executed atomically on the promise (the sequential semantics of promise.go);
    `none`: a Wait on an empty promise blocks -/
def seqCall (f : Flags) (box : Option Res) : Call → Option (Option Res × Ret)
  | .wait => box.map fun r => (some r, .res r)
  | call => some (atomicCall f box call)

/-- a sequential history: the events `(call index, return value)` executed one after another;
    the result is the final content, `none` if some event is impossible at its place -/
def seqExec (f : Flags) (calls : List Call) : Option Res → List (Nat × Ret) → Option (Option Res)
  | b, [] => some b
  | b, (i, ret) :: rest =>
    match calls[i]? with
    | some call =>
      match seqCall f b call with
      | some (b', ret') => if ret' = ret then seqExec f calls b' rest else none
      | none => none
    | none => none

/-- the return value of a call that has passed its linearisation point (for a Wait: the take) -/
def lp : APc → Option Ret
  | .start => none
  | .borrowed r => some (.res r)
  | .done ret => some ret

end Biogo.Promise
