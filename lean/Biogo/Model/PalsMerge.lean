/-
Model of `align/pals/filter/merge.go` and `trapezoid.go`: the merger that turns the sorted stream
of filter hits into the trapezoids handed to the DP aligner.  Core-only.

The Go code keeps three singly linked lists of `*trapezoid` nodes (the active list `trapOrder`,
terminated by the sentinel `eoTerm`; the finished list `trapList`; the node pool `freeTraps`) and
mutates nodes in place.  Here

* `St.active` is `trapOrder` *without* the sentinel, in list order (ascending diagonals),
* `St.done` is `trapList` in list order (`base.join(m.trapList)` prepends),
* the pool is not represented (its nodes are unreachable from the other two lists; every node
  taken from it is overwritten before it is read),
* the sentinel `eoTerm = {Left: Qlen+1+leftPadding, Right: Qlen+1, Bottom: -1, Top: Qlen+1}` is
  implicit: `mergeHit` answers `none` ("outside the modelled domain") exactly when the Go code
  would read or write the sentinel as anything but an inert end marker — a hit with
  `From - bottomPadding > Qlen + 1` (no hit of `filter.Filter`: `filter_hits_in_merger_domain`), or a
  trapezoid whose right edge reaches `Qlen + 1 + leftPadding - diagonalPadding` (excluded since the
  repair of the sixth defect: a hit with `-Diagonal > Qlen` is dropped at the head of `MergeFilterHit`).
  In all other cases walking onto the sentinel selects the `default` branch (a new trapezoid is
  linked in before it) and the test `temp.Left-diagonalPadding <= base.Right` against it is false.

Go `int` is `Int` (no overflow modelled), `/` is truncated division (`Int.tdiv`).
`diagonalPadding = 2` is compared with the constant regenerated from the source
(`Biogo.Generated.PalsMergeFacts`, theorem `merge_source_facts`).
-/
namespace Biogo.PalsMerge

/-- `filter.Trapezoid` -/
structure Trap where
  top : Int
  bottom : Int
  left : Int
  right : Int
  deriving DecidableEq, Repr, Inhabited

/-- `filter.Hit` -/
structure FHit where
  from_ : Int
  to : Int
  diagonal : Int
  deriving DecidableEq, Repr

/-- what `NewMerger` reads from its arguments: validity (`valueToCode[letter] >= 0`) of every
    query and target letter, `filterParams`, `ki.K()`, `maxIGap`, `selfCompare` -/
structure Cfg where
  qv : Array Bool
  tv : Array Bool
  k : Int
  maxError : Int
  tubeOffset : Int
  maxIGap : Int
  selfComparison : Bool
  deriving Repr

/-- `const diagonalPadding = 2` -/
def diagonalPadding : Int := 2

namespace Cfg
def qlen (c : Cfg) : Int := c.qv.size
def tlen (c : Cfg) : Int := c.tv.size
def tubeWidth (c : Cfg) : Int := c.tubeOffset + c.maxError
def binWidth (c : Cfg) : Int := c.tubeWidth - 1
def leftPadding (c : Cfg) : Int := diagonalPadding + c.binWidth
def bottomPadding (c : Cfg) : Int := c.k + 2
end Cfg

structure St where
  /-- `trapOrder` without the sentinel -/
  active : List Trap
  /-- `trapList` -/
  done : List Trap
  deriving Repr, DecidableEq

def St.init : St := ⟨[], []⟩

/-- the three updates of the `Left+m.leftPadding >= base.Left` branch -/
def widen (c : Cfg) (L T : Int) (base : Trap) : Trap :=
  { base with
    right := if L + c.binWidth > base.right then L + c.binWidth else base.right
    left := if L < base.left then L else base.left
    top := if T > base.top then T else base.top }

/-- `x.Right = y.Right; if x.Bottom > y.Bottom {x.Bottom = y.Bottom}; if x.Top < y.Top {x.Top = y.Top}` -/
def absorb (x y : Trap) : Trap :=
  { x with
    right := y.right
    bottom := if x.bottom > y.bottom then y.bottom else x.bottom
    top := if x.top < y.top then y.top else x.top }

/-- the trapezoid of a single hit (the `default` branch) -/
def fresh (c : Cfg) (L T B : Int) : Trap := { top := T, bottom := B, left := L, right := L + c.binWidth }

/-- the `else if temp != nil && temp.Left-diagonalPadding <= base.Right` arm, `b` = the widened
    `base`: `temp` is absorbed into `b` when it has come within `diagonalPadding` of it -/
def bridge (c : Cfg) (b : Trap) (pre temp done : List Trap) : Option St :=
  match temp with
  | [] =>
    -- `temp` is the sentinel
    if c.qlen + 1 + c.leftPadding - diagonalPadding ≤ b.right then none
    else some ⟨pre.reverse ++ [b], done⟩
  | t :: tt =>
    if t.left - diagonalPadding ≤ b.right then some ⟨pre.reverse ++ absorb b t :: tt, done⟩
    else some ⟨pre.reverse ++ b :: t :: tt, done⟩

/-- The loop of `MergeFilterHit` from `base` on.  `pre` = the nodes kept so far, last first
    (`pre.head?` is `free`); `rest` = `base`, `base.next`, … up to the sentinel. -/
def walk (c : Cfg) (L T B : Int) : List Trap → List Trap → List Trap → Option St
  | pre, [], done =>
    -- `base` is the sentinel: `default` branch
    some ⟨pre.reverse ++ [fresh c L T B], done⟩
  | pre, base :: temp, done =>
    if B - c.bottomPadding > base.top then
      walk c L T B pre temp (base :: done)
    else if L - diagonalPadding > base.right then
      walk c L T B (base :: pre) temp done
    else if L + c.leftPadding ≥ base.left then
      match pre with
      | [] => bridge c (widen c L T base) pre temp done
      | free :: pre' =>
        if free.right + diagonalPadding ≥ (widen c L T base).left then
          some ⟨pre'.reverse ++ absorb free (widen c L T base) :: temp, done⟩
        else bridge c (widen c L T base) pre temp done
    else
      some ⟨pre.reverse ++ fresh c L T B :: base :: temp, done⟩

/-- the self-comparison cut at the head of `MergeFilterHit` -/
def selfCut (c : Cfg) (h : FHit) : Bool :=
  c.selfComparison && decide (-h.diagonal - c.maxIGap ≤ c.maxError)

/-- `if Left > m.query.Len() { return }`: the band of the hit lies beyond the last query row -/
def beyondQuery (c : Cfg) (h : FHit) : Bool := decide (-h.diagonal > c.qlen)

/-- the two tests at the head of `MergeFilterHit` that return without touching the lists -/
def dropped (c : Cfg) (h : FHit) : Bool := beyondQuery c h || selfCut c h

/-- the hit leaves the sentinel inert as `base` -/
def inDomain (c : Cfg) (h : FHit) : Bool :=
  decide (h.from_ - c.bottomPadding ≤ c.qlen + 1)

/-- `MergeFilterHit` -/
def mergeHit (c : Cfg) (s : St) (h : FHit) : Option St :=
  if dropped c h then some s
  else if !inDomain c h then none
  else walk c (-h.diagonal) h.to h.from_ [] s.active s.done

def mergeAll (c : Cfg) : St → List FHit → Option St
  | s, [] => some s
  | s, h :: hs => match mergeHit c s h with
    | none => none
    | some s' => mergeAll c s' hs

/-! ### `FinaliseMerge` -/

def validAt (v : Array Bool) (pos : Int) : Bool := v.getD pos.toNat false

/-- the scan of `clipVertical` over one trapezoid: `out` = pieces already split off (last
    first), `base` = the piece being scanned -/
def cvLoop (c : Cfg) : Nat → Int → Int → Trap → List Trap → Int × Int × Trap × List Trap
  | 0, pos, lag, base, out => (pos, lag, base, out)
  | n + 1, pos, lag, base, out =>
    if validAt c.qv pos then
      if pos - lag ≥ c.maxIGap then
        if lag - base.bottom > 0 then
          cvLoop c n (pos + 1) (pos + 1) { base with bottom := pos } ({ base with top := lag } :: out)
        else
          cvLoop c n (pos + 1) (pos + 1) { base with bottom := pos } out
      else cvLoop c n (pos + 1) (pos + 1) base out
    else cvLoop c n (pos + 1) lag base out

/-- `clipVertical` on one trapezoid: the pieces in list order -/
def clipVertical1 (c : Cfg) (base : Trap) : List Trap :=
  let lag0 := if base.bottom - c.maxIGap + 1 < 0 then 0 else base.bottom - c.maxIGap + 1
  let last := if base.top + c.maxIGap > c.qlen then c.qlen else base.top + c.maxIGap
  let (pos, lag, b, out) := cvLoop c (last - lag0).toNat lag0 lag0 base []
  let b := if pos - lag ≥ c.maxIGap then { b with top := lag } else b
  (b :: out).reverse

def clipVertical (c : Cfg) (l : List Trap) : List Trap := l.flatMap (clipVertical1 c)

/-- `(*trapezoid).clip` -/
def clip (tr : Trap) (lagPosition lagClip : Int) : Trap :=
  let bottom := if tr.bottom < lagClip + tr.left then lagClip + tr.left else tr.bottom
  let top := if tr.top > lagPosition + tr.right then lagPosition + tr.right else tr.top
  let mid := (bottom + top).tdiv 2
  let left := if tr.left < mid - lagPosition then mid - lagPosition else tr.left
  let right := if tr.right > mid - lagClip then mid - lagClip else tr.right
  { top := top, bottom := bottom, left := left, right := right }

/-- the scan of `clipTrapezoids` over one trapezoid -/
def ctLoop (c : Cfg) : Nat → Int → Int → Int → Trap → List Trap → Int × Int × Int × List Trap
  | 0, pos, lag, lagClip, _, out => (pos, lag, lagClip, out)
  | n + 1, pos, lag, lagClip, base, out =>
    if validAt c.tv pos then
      if pos - lag ≥ c.maxIGap then
        if lag > lagClip then
          ctLoop c n (pos + 1) (pos + 1) pos base (clip base lag lagClip :: out)
        else
          ctLoop c n (pos + 1) (pos + 1) pos base out
      else ctLoop c n (pos + 1) (pos + 1) lagClip base out
    else ctLoop c n (pos + 1) lag lagClip base out

/-- `clipTrapezoids` on one trapezoid -/
def clipTrap1 (c : Cfg) (base : Trap) : List Trap :=
  if base.top - base.bottom < c.bottomPadding - 2 then [base]
  else
    let aBottom := base.bottom - base.right
    let aTop := base.top - base.left
    let lag0 := if aBottom - c.maxIGap + 1 < 0 then 0 else aBottom - c.maxIGap + 1
    let last := if aTop + c.maxIGap > c.tlen then c.tlen else aTop + c.maxIGap
    let (pos, lag, lagClip, out) := ctLoop c (last - lag0).toNat lag0 lag0 aBottom base []
    let lag := if pos - lag < c.maxIGap then aTop else lag
    (clip base lag lagClip :: out).reverse

def clipTrapezoids (c : Cfg) (l : List Trap) : List Trap := l.flatMap (clipTrap1 c)

/-- stable insertion by `Bottom` (`sort.Sort(traps)` returns *some* permutation sorted by
    `Bottom`; the driver compares the two lists up to the order of equal bottoms) -/
def insertByBottom (x : Trap) : List Trap → List Trap
  | [] => [x]
  | y :: ys => if y.bottom ≤ x.bottom then y :: insertByBottom x ys else x :: y :: ys

def sortByBottom : List Trap → List Trap
  | [] => []
  | x :: xs => insertByBottom x (sortByBottom xs)

/-- the list `FinaliseMerge` copies into the result slice, before sorting -/
def finalList (c : Cfg) (s : St) : List Trap :=
  clipTrapezoids c (clipVertical c (s.active.reverse ++ s.done))

/-- `FinaliseMerge` -/
def finalise (c : Cfg) (s : St) : List Trap := sortByBottom (finalList c s)

/-- `NewMerger`, every `MergeFilterHit`, `FinaliseMerge` -/
def merge (c : Cfg) (hits : List FHit) : Option (List Trap) :=
  (mergeAll c St.init hits).map (finalise c)

/-- the pre-screen of `dp.AlignTraps` (`align.go`): a trapezoid that is not already marked as
    covered is handed to `alignRecursion` iff `t.Top-t.Bottom >= a.k`, `a.k` being the word size
    (`Align` passes `FilterParams.WordSize`) -/
def preScreen (k : Int) (t : Trap) : Bool := decide (t.top - t.bottom ≥ k)

end Biogo.PalsMerge
