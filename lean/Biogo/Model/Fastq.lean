/-
Model of /repo/io/seqio/fastq/fastq.go: `Reader.Read`, `Reader.readHeader`, `Writer.Write`,
`Writer.writeHeader`, and of `alphabet.Qphred.Encode` / `alphabet.Encoding.DecodeToQphred`
(/repo/alphabet/letters.go).

One call of `read` is one call of `Reader.Read`: the four-state line classifier
`id1 → letters → id2 → quality` of the code, with the look-ahead in state `letters` that
recognises a `+` line directly after the header (empty sequence), so that in state `quality`
any line — also one starting with `@` or `+` — is quality data.  The loop runs over whole
lines (`Biogo.Go.Bytes.splitLines` stands for the `ReadLine`/`isPrefix` loop); every slice
expression and the method call on the possibly-nil `t` are explicit `Except Panic`.

The two float-generated conversion tables (`phredSolexaTable`, `solexaPhredTable`) are a
parameter (`QTables`); the driver passes the tables dumped from the running package.  The
theorems about the Phred-offset encodings do not depend on them.

Core only (linked into the driver).
-/
import Biogo.Go.Bytes

namespace Biogo.Fastq
open Biogo.Go.Bytes

/-! ### quality encodings -/

/-- `alphabet.Encoding` (`None = -1`, `Sanger = 0`, …, `Illumina1_9 = 5`) -/
inductive Encoding
  | none | sanger | solexa | illumina1_3 | illumina1_5 | illumina1_8 | illumina1_9
  deriving DecidableEq, Repr

/-- `phredSolexaTable` (entries are `int8`, kept as their two's-complement byte) and
    `solexaPhredTable` (index `int(qs)+128`) -/
structure QTables where
  phredSolexa : UInt8 → UInt8
  solexaPhred : UInt8 → UInt8

/-- `Qphred.Encode` -/
def encode (tabs : QTables) (e : Encoding) (qp : UInt8) : UInt8 :=
  if qp == 254 then 126            -- '~'
  else if qp == 255 then 32        -- ' '
  else match e with
    | .sanger | .illumina1_8 | .illumina1_9 => if qp ≤ 93 then qp + 33 else qp
    | .illumina1_3 => if qp ≤ 62 then qp + 64 else qp
    | .illumina1_5 =>
      let q := if qp ≤ 62 then qp + 64 else qp
      if q < 66 then 66 else q     -- 'B'
    | .solexa =>
      let q := tabs.phredSolexa qp -- byte(qs) with qs := qp.Qsolexa()
      -- `if qs <= 62` on the signed score (after the fix of negative Solexa encoding):
      -- bytes ≥ 128 are negative int8 values
      if q ≤ 62 || q ≥ 128 then q + 64 else q
    | .none => 32

/-- `Encoding.DecodeToQphred` (`Qphred` is a byte: the subtraction wraps) -/
def decode (tabs : QTables) (e : Encoding) (q : UInt8) : UInt8 :=
  match e with
  | .sanger | .illumina1_8 | .illumina1_9 => q - 33
  | .illumina1_3 | .illumina1_5 => q - 64
  | .solexa => tabs.solexaPhred (q - 64 + 128)   -- solexaPhredTable[int(int8(q)-64)+128]
  | .none => 0xff

/-! ### records -/

/-- what the property observes of a sequence; `quals` is empty for a plain `linear.Seq` -/
structure QRec where
  name : Bytes
  desc : Bytes
  letters : Bytes
  quals : Bytes
  deriving DecidableEq, Repr

/-- the reader's template: a `*linear.Seq` (no `Encoding` method: the reader decodes with
    `alphabet.None` and `AppendQLetters` drops the scores) or a `*linear.QSeq` -/
inductive Template
  | seq
  | qseq (enc : Encoding)
  deriving DecidableEq, Repr

def Template.enc : Template → Encoding
  | .seq => .none
  | .qseq e => e

/-- `t.AppendQLetters(seqBuff...)` -/
def appendQLetters (tmpl : Template) (t : QRec) (ls qs : Bytes) : QRec :=
  match tmpl with
  | .seq => { t with letters := t.letters ++ ls }
  | .qseq _ => { t with letters := t.letters ++ ls, quals := t.quals ++ qs }

inductive Err
  | eof                 -- io.EOF
  | noHeader            -- "fastq: no header line parsed before +line in fastq format"
  | qualHeader          -- "fastq: quality header does not match sequence header"
  | lengthMismatch      -- "fastq: sequence/quality length mismatch"
  | header              -- an error of SetName/SetDescription (never, for the linear types)
  deriving DecidableEq, Repr

/-- the pair `(seq.Sequence, error)` returned by one call of `Read` -/
structure Ret where
  s : Option QRec
  e : Option Err
  deriving DecidableEq, Repr

structure Cfg where
  tmpl : Template
  tabs : QTables

inductive State
  | id1 | letters | id2 | quality
  deriving DecidableEq, Repr

/-- the local variables of `Read` that live across loop iterations -/
structure LoopSt where
  state : State := .id1
  t : Option QRec := none     -- `t seqio.SequenceAppender`, nil until a header is read
  label : Bytes := []
  seqBuff : Bytes := []       -- the `L` fields of `seqBuff []alphabet.QLetter`
  err : Option Err := none

def maybeID1 (l : Bytes) : Bool := match l with | 64 :: _ => true | _ => false   -- '@'
def maybeID2 (l : Bytes) : Bool := match l with | 43 :: _ => true | _ => false   -- '+'

/-- the package's own `isSpace(b byte)` -/
def isSpace (b : UInt8) : Bool :=
  b == 9 || b == 10 || b == 11 || b == 12 || b == 13 || b == 32 || b == 0x85 || b == 0xA0

/-- `Reader.readHeader` -/
def readHeader (line : Bytes) : Except Panic (QRec × Option Err) :=
  -- s := r.t.Clone().(seqio.SequenceAppender)      (empty template)
  match indexAnySpTab line with
  | none => do
    let name ← sliceFrom line 1                         -- line[1:]
    pure ({ name := name, desc := [], letters := [], quals := [] }, none)
  | some fieldMark => do
    let name ← slice line 1 fieldMark                    -- line[1:fieldMark]
    let desc ← sliceFrom line (fieldMark + 1)           -- line[fieldMark+1:]
    pure ({ name := name, desc := desc, letters := [], quals := [] }, none)

/-- the code after the loop: strip blanks from the quality line, compare lengths, decode -/
def finish (cfg : Cfg) (st : LoopSt) (line : Bytes) (rest : List Bytes × Bytes) :
    Except Panic (Ret × List Bytes × Bytes) :=
  let line := removeSpaces line                           -- bytes.Join(bytes.Fields(line), nil)
  if line.length != st.seqBuff.length then
    pure (⟨none, some .lengthMismatch⟩, rest)
  else
    let quals := line.map (decode cfg.tabs cfg.tmpl.enc)  -- seqBuff[i].Q = r.enc.DecodeToQphred(line[i])
    match st.t with
    | none => throw .nilDeref                             -- t.AppendQLetters on a nil interface
    | some t => pure (⟨some (appendQLetters cfg.tmpl t st.seqBuff quals), st.err⟩, rest)

/-- `bytes.Compare(label[1:], line[1:]) == 0` -/
def sameLabel (label line : Bytes) : Except Panic Bool := do
  let a ← sliceFrom label 1
  let b ← sliceFrom line 1
  pure (a == b)

/-- The `for` loop of `Read` over the remaining input: the complete lines, and `pend`, the
    bytes of a final line that `ReadLine` delivers only as `isPrefix` fragments before
    `io.EOF` (`Biogo.Go.Bytes.readLineInput`; `[]` in all but that corner).  The fragments
    are in `line` when `io.EOF` arrives: in state `quality` they are used as the quality
    line (untrimmed), otherwise they are dropped with the incomplete record.  The result
    carries the input that is left. -/
def loop (cfg : Cfg) (pend : Bytes) : LoopSt → List Bytes → Except Panic (Ret × List Bytes × Bytes)
  | st, [] =>
    -- ReadLine returned io.EOF
    if st.t.isSome && st.state == .quality then
      finish cfg { st with err := none } pend ([], [])     -- err = nil; break
    else pure (⟨none, some .eof⟩, [], [])
  | st, raw :: rest =>
    let st := { st with err := none }                      -- buff, isPrefix, err = r.r.ReadLine()
    let line := trimSpace raw
    if st.state == .id1 && maybeID1 line then do
      let (t, _err) ← readHeader line
      loop cfg pend { st with state := .letters, t := some t, err := _err, label := line } rest
    else if st.state == .id2 && maybeID2 line then do
      if st.label.length == 0 then pure (⟨none, some .noHeader⟩, rest, pend)
      else
        let same ← (if line.length != 1 then sameLabel st.label line else pure true)
        if !same then pure (⟨none, some .qualHeader⟩, rest, pend)
        else loop cfg pend { st with state := .quality } rest
    else if st.state == .letters && line.length > 0 then do
      let plus ← (if maybeID2 line then
                    (if line.length == 1 then pure true else sameLabel st.label line)
                  else pure false)
      if plus then loop cfg pend { st with state := .quality } rest
      else loop cfg pend { st with state := .id2, seqBuff := line.filter (fun b => !isSpace b) } rest
    else if st.state == .quality then
      if line.length == 0 && st.seqBuff.length != 0 then loop cfg pend st rest   -- continue
      else finish cfg st line (rest, pend)                                       -- break loop
    else loop cfg pend st rest

/-- one call of `Reader.Read`: the returned pair and the input not yet consumed -/
def read (cfg : Cfg) (lines : List Bytes) (pend : Bytes) : Except Panic (Ret × List Bytes × Bytes) :=
  loop cfg pend {} lines

/-- one entry of the call history of a reader -/
inductive Call
  | ret (r : Ret)
  | panic (p : Panic)
  | unfinished
  deriving DecidableEq, Repr

/-- Call `read` until it returns io.EOF, at most `fuel` times. -/
def readAllAux (cfg : Cfg) : Nat → List Bytes → Bytes → List Call
  | 0, _, _ => [.unfinished]
  | fuel + 1, lines, pend =>
    match read cfg lines pend with
    | .error p => [.panic p]
    | .ok (ret, rest, pend') =>
      if ret.e = some .eof then [.ret ret] else .ret ret :: readAllAux cfg fuel rest pend'

/-- All calls of `Read` on a fresh reader over `bs`, one call per input line plus one.
    `eofWithData` describes the underlying `io.Reader` (`Biogo.Go.Bytes.readLineInput`). -/
def readAll (cfg : Cfg) (eofWithData : Bool) (bs : Bytes) : List Call :=
  let (lines, pend) := readLineInput eofWithData bs
  readAllAux cfg (lineCount bs + 1) lines pend

/-! ### writer -/

/-- `Writer.writeHeader` -/
def writeHeader (sink : Sink) (pfx : UInt8) (r : QRec) : Sink × Nat :=
  let (sink, n) := sink.write [pfx]                      -- n, err = w.w.Write([]byte{prefix})
  let (sink, _n) := sink.write r.name                    -- io.WriteString(w.w, s.Name())
  let n := n + _n
  let (sink, n) :=
    if r.desc.length != 0 then
      let (sink, _n) := sink.write [32]
      let n := n + _n
      let (sink, _n) := sink.write r.desc
      (sink, n + _n)
    else (sink, n)
  let (sink, _n) := sink.write [10]
  (sink, n + _n)

/-- `for i := 0; i < s.Len(); i++ { _n, err = w.w.Write([]byte{f(s.At(i))}); n += _n }` -/
def writeEach (f : UInt8 → UInt8) : Bytes → Sink → Nat → Sink × Nat
  | [], sink, n => (sink, n)
  | x :: xs, sink, n =>
    let (sink, _n) := sink.write [f x]
    writeEach f xs sink (n + _n)

/-- `Writer.Write` for a sequence with encoding `enc` (`QID`: repeat the id on the `+` line) -/
def write (tabs : QTables) (qid : Bool) (enc : Encoding) (sink : Sink) (r : QRec) : Sink × Nat :=
  let (sink, n) := writeHeader sink 64 r                 -- '@'
  let (sink, n) := writeEach id r.letters sink n
  let (sink, _n) := sink.write [10]
  let n := n + _n
  let (sink, n) :=
    if qid then
      let (sink, _n) := writeHeader sink 43 r            -- '+'
      (sink, n + _n)
    else
      let (sink, _n) := sink.write [43, 10]              -- "+\n"
      (sink, n + _n)
  let (sink, n) := writeEach (encode tabs enc) r.quals sink n
  let (sink, _n) := sink.write [10]
  (sink, n + _n)

/-- a plain `linear.Seq` seen through `At(i)`: every score is `seq.DefaultQphred` (40);
    the writer then uses `alphabet.Sanger` -/
def ofPlain (r : QRec) : QRec := { r with quals := List.replicate r.letters.length 40 }

def writeAll (tabs : QTables) (qid : Bool) (enc : Encoding) : Sink → List QRec → Sink × List Nat
  | sink, [] => (sink, [])
  | sink, r :: rs =>
    let (sink, n) := write tabs qid enc sink r
    let (sink, ns) := writeAll tabs qid enc sink rs
    (sink, n :: ns)

end Biogo.Fastq
