/-
Model of `concurrent.Processor` (concurrent/processor.go) and of the chunking of
`concurrent.Map` (concurrent/map.go), core Lean only.

The Processor is a labelled transition system (Biogo.Go.LTS) whose atomic blocks are the
pieces of worker code between two blocking channel operations / `verif` hook points:

  worker i:  idle      --(hook worker.start)  take a token                        --> recv
             recv      receive an operation from `in` (blocked while `in` is empty and open);
                       run it                                                      --> send r | sendErr r
                       or see `in` closed and drained: return the token            --> tokret
             send r    --(hook worker.result) send r on `out` (blocked while full and no
                       receiver waits); poll `stop`                                --> recv | tokret (token returned)
             sendErr r (the operation panicked; deferred recover) send the error
                       result on `out`; return the token                           --> tokret
             tokret    --(hook worker.token_returned) decide whether to close `out`;
                       wg.Done                                                     --> done

  `fixed = true`  (after fix F18): the worker increments the exit counter and closes `out`
                  iff it is the `threads`-th to do so;
  `fixed = false` (code as found): it closes `out` iff all tokens are back (`len(work) == threads`).

Environment actors, any number of each: producers (producer `p` submits its list
`prods[p]` in order with `Process`; producer 0 closes `in` with `Close`, if asked, once every
producer has submitted everything), collectors (each receives from `out` with `Result` until it
sees it closed), a stopper (`Stop`), a waiter (`Wait`).  `out` with several receivers: a
collector that finds the buffer empty joins the queue `recvq` of waiting receivers (oldest
first, as in the Go runtime); a sender hands its value to the oldest waiting receiver, else
buffers it, else blocks; closing `out` wakes every waiting receiver.

A runtime panic (`close of closed channel`, `send on closed channel`) is recorded in
`crashed`; nothing moves afterwards (the process is dead).  `subm` is a ghost variable: the
sequence of submissions `(producer, operation)` in the order in which they entered `in`.
-/
import Biogo.Go.LTS

namespace Biogo.Processor
open Biogo.LTS

/-- an operation: returns `(k, nil)`, returns `(k, error k)`, or panics with `k` -/
inductive Op where
  | val (k : Nat) | err (k : Nat) | pan (k : Nat)
deriving Repr, DecidableEq, Inhabited

/-- the result sent for an operation: its value, its error, or the recovered panic as error -/
inductive Res where
  | val (k : Nat) | err (k : Nat) | pan (k : Nat)
deriving Repr, DecidableEq, Inhabited

def eval : Op → Res
  | .val k => .val k
  | .err k => .err k
  | .pan k => .pan k

def Op.isPan : Op → Bool
  | .pan _ => true
  | _ => false

inductive WPc where
  | idle | recv | send (r : Res) | sendErr (r : Res) | tokret | done
deriving Repr, DecidableEq, Inhabited

inductive CPc where
  | ready | receiving | closedSeen
deriving Repr, DecidableEq, Inhabited

inductive Crash where
  | doubleClose | sendOnClosed
deriving Repr, DecidableEq

inductive Actor where
  | worker (i : Nat) | producer (p : Nat) | collector (k : Nat) | stopper | waiter
deriving Repr, DecidableEq

structure Cfg where
  threads : Nat
  outCap : Nat
  inCap : Nat
  /-- the operations of each producer, in its submission order -/
  prods : List (List Op)
  /-- number of collectors -/
  ncoll : Nat
  wantClose : Bool
  fixed : Bool
deriving Repr

/-- the configuration with one producer and one collector -/
def Cfg.single (threads outCap inCap : Nat) (ops : List Op) (wantClose fixed : Bool) : Cfg :=
  { threads := threads, outCap := outCap, inCap := inCap, prods := [ops], ncoll := 1,
    wantClose := wantClose, fixed := fixed }

/-- every operation of the configuration -/
def Cfg.ops (c : Cfg) : List Op := c.prods.flatten

structure St where
  todo : List (List Op)
  inq : List Op
  inClosed : Bool
  outq : List Res
  /-- per collector: the value a sender handed to it while it was waiting -/
  handoff : List (Option Res)
  /-- collectors blocked in a receive on `out`, oldest first -/
  recvq : List Nat
  closes : Nat
  crashed : Option Crash
  stop : Bool
  work : Nat
  exited : Nat
  wgDone : Nat
  ws : List WPc
  cpcs : List CPc
  /-- per collector: what it has received -/
  delivered : List (List Res)
  taken : List Op
  subm : List (Nat × Op)
  waitReturned : Bool
deriving Repr, DecidableEq

def init (c : Cfg) : St :=
  { todo := c.prods, inq := [], inClosed := false, outq := [],
    handoff := List.replicate c.ncoll none, recvq := [],
    closes := 0, crashed := none, stop := false, work := c.threads, exited := 0, wgDone := 0,
    ws := List.replicate c.threads .idle, cpcs := List.replicate c.ncoll .ready,
    delivered := List.replicate c.ncoll [], taken := [], subm := [],
    waitReturned := false }

/-- `out <- r` by a worker: crash if closed, hand over to the oldest waiting receiver, else
    buffer, else blocked -/
def sendOut (c : Cfg) (s : St) (r : Res) : Option St :=
  if s.closes > 0 then some { s with crashed := some .sendOnClosed }
  else
    match s.recvq with
    | k :: rest => some { s with handoff := s.handoff.set k (some r), recvq := rest }
    | [] => if s.outq.length < c.outCap then some { s with outq := s.outq ++ [r] } else none

/-- the exit block after hook `worker.token_returned` -/
def exitBlock (c : Cfg) (s : St) (i : Nat) : St :=
  let exited' := s.exited + 1
  let closeNow := if c.fixed then exited' == c.threads else s.work == c.threads
  let s1 := { s with exited := exited' }
  if closeNow then
    if s.closes > 0 then { s1 with crashed := some .doubleClose }
    else { s1 with closes := 1, wgDone := s.wgDone + 1, ws := s.ws.set i .done }
  else { s1 with wgDone := s.wgDone + 1, ws := s.ws.set i .done }

def workerStep (c : Cfg) (s : St) (i : Nat) : Option St :=
  match s.ws[i]? with
  | none => none
  | some .idle =>
    if s.work > 0 then some { s with work := s.work - 1, ws := s.ws.set i .recv } else none
  | some .recv =>
    match s.inq with
    | op :: rest =>
      some { s with inq := rest, taken := s.taken ++ [op],
                    ws := s.ws.set i (if op.isPan then .sendErr (eval op) else .send (eval op)) }
    | [] =>
      if s.inClosed then some { s with work := s.work + 1, ws := s.ws.set i .tokret } else none
  | some (.send r) =>
    match sendOut c s r with
    | none => none
    | some s1 =>
      if s1.crashed.isSome then some s1
      else if s1.stop then some { s1 with work := s1.work + 1, ws := s1.ws.set i .tokret }
      else some { s1 with ws := s1.ws.set i .recv }
  | some (.sendErr r) =>
    match sendOut c s r with
    | none => none
    | some s1 =>
      if s1.crashed.isSome then some s1
      else some { s1 with work := s1.work + 1, ws := s1.ws.set i .tokret }
  | some .tokret => some (exitBlock c s i)
  | some .done => none

/-- every producer has submitted everything -/
def allSubmitted (s : St) : Bool := s.todo.all List.isEmpty

def producerStep (c : Cfg) (s : St) (p : Nat) : Option St :=
  match s.todo[p]? with
  | none => none
  | some (op :: rest) =>
    if s.inClosed then none
    else if s.inq.length < c.inCap then
      some { s with todo := s.todo.set p rest, inq := s.inq ++ [op], subm := s.subm ++ [(p, op)] }
    else none
  | some [] =>
    if p == 0 && c.wantClose && !s.inClosed && allSubmitted s then some { s with inClosed := true } else none

def collectorStep (s : St) (k : Nat) : Option St :=
  match s.cpcs[k]? with
  | none => none
  | some .ready =>
    match s.outq with
    | r :: rest => some { s with outq := rest, delivered := s.delivered.set k (s.delivered.getD k [] ++ [r]) }
    | [] =>
      if s.closes > 0 then some { s with cpcs := s.cpcs.set k .closedSeen }
      else some { s with recvq := s.recvq ++ [k], cpcs := s.cpcs.set k .receiving }
  | some .receiving =>
    match s.handoff.getD k none with
    | some r =>
      some { s with handoff := s.handoff.set k none,
                    delivered := s.delivered.set k (s.delivered.getD k [] ++ [r]),
                    cpcs := s.cpcs.set k .ready }
    | none =>
      if s.closes > 0 then some { s with recvq := s.recvq.erase k, cpcs := s.cpcs.set k .closedSeen }
      else none
  | some .closedSeen => none

def step (c : Cfg) (s : St) (a : Actor) : Option St :=
  if s.crashed.isSome then none else
  match a with
  | .worker i => workerStep c s i
  | .producer p => producerStep c s p
  | .collector k => collectorStep s k
  | .stopper => if s.stop then none else some { s with stop := true }
  | .waiter => if !s.waitReturned && s.wgDone == c.threads then some { s with waitReturned := true } else none

def sys (c : Cfg) : Sys St Actor := { init := init c, step := step c }

def WPc.isDone : WPc → Bool
  | .done => true
  | _ => false

/-- the worker holds a token (it has taken one and not yet returned it) -/
def WPc.holds : WPc → Bool
  | .recv | .send _ | .sendErr _ => true
  | _ => false

/-- the worker has left its loop -/
def WPc.exiting : WPc → Bool
  | .tokret | .done => true
  | _ => false

def allDone (s : St) : Bool := s.ws.all WPc.isDone

/-- every collector has seen `out` closed -/
def allSeen (s : St) : Bool := s.cpcs.all (· == .closedSeen)

/-- results a worker is holding (computed, not yet sent) -/
def heldOf : WPc → Option Res
  | .send r => some r
  | .sendErr r => some r
  | _ => none

def held (s : St) : List Res := s.ws.filterMap heldOf

/-- values in hand-over to a waiting collector -/
def handed (s : St) : List Res := s.handoff.filterMap id

/-- everything the collectors have received -/
def allDelivered (s : St) : List Res := s.delivered.flatten

/-- every result that exists anywhere: held by a worker, in `out`, in hand-over, delivered -/
def results (s : St) : List Res := held s ++ s.outq ++ handed s ++ allDelivered s

/-- what producer `p` has submitted so far, in order -/
def submittedBy (s : St) (p : Nat) : List Op := (s.subm.filter (·.1 == p)).map Prod.snd

/-! ### Map: chunking (concurrent/map.go) -/

/-- `util.Min(int(math.Ceil(float64(n)/float64(threads))), maxChunkSize)` for `threads ≥ 1`
    (exact for n < 2^52) -/
def chunkSize (n threads maxChunk : Nat) : Nat := min ((n + threads - 1) / threads) maxChunk

/-- the producer loop `for s := 0; s*chunk < n; s++ { Slice(chunk*s, min(chunk*(s+1), n)) }`,
    with fuel `n` (at most `n` chunks when `chunk ≥ 1`) -/
def chunksFrom (n chunk : Nat) : Nat → Nat → List (Nat × Nat)
  | 0, _ => []
  | fuel + 1, s =>
    if s * chunk < n then (chunk * s, min (chunk * (s + 1)) n) :: chunksFrom n chunk fuel (s + 1)
    else []

def chunks (n chunk : Nat) : List (Nat × Nat) := chunksFrom n chunk n 0

/-- the number of results Map waits for: `for r := 0; r*chunk < n; r++` -/
def chunkCount (n chunk : Nat) : Nat := (chunksFrom n chunk n 0).length

/-- executable statement of "the chunks partition `[0, n)`": in order they start where the
    previous one ended, none is empty, the last ends at `n` -/
def tiles (n : Nat) : Nat → List (Nat × Nat) → Bool
  | pos, [] => pos == n
  | pos, (a, b) :: rest => a == pos && a < b && tiles n b rest

/-- the sub-slice `xs[a:b]` -/
def slice {α : Type} (xs : List α) (p : Nat × Nat) : List α := (xs.drop p.1).take (p.2 - p.1)

end Biogo.Processor
