/-
Model of the integer part of `PALS.Optimise` (align/pals/pals.go): the search for filter
parameters.  The two float computations at its head
  `minWordSize = int(Log4(Tlen) - Log4(MaxAvgIndexListLen) + 0.5)`,
  `seedDiffs   = int(float64(minHitLen) * (1 - minId))`
are inputs (`minWordSize`, `seedDiffs0`); `AvgIndexListLength(k) > MaxAvgIndexListLen` is the
exact integer test `Tlen > 15 * 4^k`; `MemRequired` is the integer formula of the source with
`unsafe.Sizeof(tubeState{}) = 24`, `Sizeof(uint32) = 4`, `Sizeof(int) = 8`, `Sizeof(pointer) = 8`.
Core-only.
-/
namespace Biogo.PalsOptimise

structure FParams where
  wordSize : Int
  minMatch : Int
  maxError : Int
  tubeOffset : Int
  deriving DecidableEq, Repr

structure OptIn where
  tlen : Int
  /-- length of the query when it is a different sequence, 0 when query = target -/
  qlen : Int
  minHitLen : Int
  seedDiffs0 : Int
  minWordSize : Int
  /-- the `tubeOffset` argument of `pals.New` (0 = derive from MaxError) -/
  tubeOffsetArg : Int
  /-- `*maxMem` in bytes, `none` for a nil pointer -/
  maxMem : Option Int

def maxKmerLen : Int := 15
def maxAvgIndexListLen : Int := 15
def tubeOffsetDelta : Int := 32

/-- `filter.MinWordsPerFilterHit` -/
def minWords (hitLength wordLength maxErrors : Int) : Int := hitLength + 1 - wordLength * (maxErrors + 1)

def pow4 (k : Int) : Int := (4 : Int) ^ k.toNat

/-- `PALS.MemRequired` -/
def memRequired (i : OptIn) (p : FParams) : Int :=
  let tubeWidth := p.tubeOffset + p.maxError
  let maxActiveTubes := (i.tlen + tubeWidth - 1) / p.tubeOffset + 1
  let filter := 4 * pow4 p.wordSize + 8 * i.tlen + maxActiveTubes * 24
  let sequence := i.tlen + 8 + (if i.qlen > 0 then i.qlen + 8 else 0)
  filter + sequence

def mkParams (i : OptIn) (k sl sd : Int) : FParams :=
  { wordSize := k, minMatch := sl, maxError := sd,
    tubeOffset := if i.tubeOffsetArg > 0 then i.tubeOffsetArg else sd + tubeOffsetDelta }

/-- is word size `k` acceptable for seed length `sl` and seed differences `sd`? -/
def wordOK (i : OptIn) (k sl sd : Int) : Bool :=
  let p := mkParams i k sl sd
  (match i.maxMem with
   | some m => decide (memRequired i p ≤ m)
   | none => true) &&
  decide (minWords sl k sd > 0) &&
  decide (i.tlen ≤ maxAvgIndexListLen * pow4 k)

/-- the inner `for wordSize := MaxKmerLen; wordSize >= minWordSize; wordSize--` loop:
    `n` candidates left, the current one is `k` -/
def inner (i : OptIn) (sl sd : Int) : Nat → Int → Option FParams
  | 0, _ => none
  | n + 1, k => if wordOK i k sl sd then some (mkParams i k sl sd) else inner i sl sd n (k - 1)

/-- the outer `for` loop: halve the seed while it is at least a quarter of the hit length, then
    lower the number of differences, then give up -/
def outer (i : OptIn) : Nat → Int → Int → Option FParams
  | 0, _, _ => none
  | f + 1, sl, sd =>
    match inner i sl sd (maxKmerLen - i.minWordSize + 1).toNat maxKmerLen with
    | some p => some p
    | none =>
      if sl ≥ i.minHitLen / 4 then outer i f (sl / 2) sd
      else if sd > 0 then outer i f sl (sd - 1)
      else none

/-- `PALS.Optimise` after its argument checks; `none` = "failed to find filter parameters" -/
def optimise (i : OptIn) : Option FParams :=
  outer i (80 + i.seedDiffs0.toNat) i.minHitLen i.seedDiffs0

end Biogo.PalsOptimise
