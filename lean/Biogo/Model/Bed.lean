/-
Model of `io/featio/bed/bed.go` (after the `fix:` commit for F4): `format` (the reflect-driven
column loop unrolled over the twelve fixed fields), `parseBedN` for N ∈ {3,4,5,6,12},
`Reader.Read`, `Writer.Write` for Bed types.  Core-only.

Every Go operation that can panic is explicit: `Res` distinguishes a returned error, a panic
carrying an `error` value (the `mustAto*` helpers), and a panic carrying a runtime error or a
non-error value; `handlePanic` is modelled as written.
-/
import Biogo.Go.BytesFeat

namespace Biogo.Bed
open Biogo.BytesFeat

/-- error values of package bed (the column is the `csv.ParseError.Column`) -/
inductive Err
  | badType                      -- ErrBadBedType
  | num (col : Nat)              -- *strconv.NumError inside a csv.ParseError
  | strandField (col : Nat)      -- ErrBadStrandField
  | strand (col : Nat)           -- ErrBadStrand
  | color (col : Nat)            -- ErrBadColorField
  | blocks                       -- ErrMissingBlockValues
  deriving DecidableEq, Repr

abbrev Res := BytesFeat.Res Err
abbrev PanicVal := BytesFeat.PanicVal Err

structure Rgb where
  r : UInt8 := 0
  g : UInt8 := 0
  b : UInt8 := 0
  a : UInt8 := 0
  deriving DecidableEq, Repr

/-- a BED record; `width` ∈ {3,4,5,6,12} is the Go type (Bed3 … Bed12), the columns beyond it
    hold their default values -/
structure Rec where
  width : Nat := 12
  chrom : Bytes := []
  start : Int := 0
  stop : Int := 0
  name : Bytes := []
  score : Int := 0
  strand : Int := 0
  thickStart : Int := 0
  thickEnd : Int := 0
  rgb : Rgb := {}
  blockCount : Int := 0
  blockSizes : List Int := []
  blockStarts : List Int := []
  deriving DecidableEq, Repr

def mustAtoi (f : Bytes) (col : Nat) : Res Int :=
  match parseInt f 64 with
  | .ok i => .ok i
  | .error _ => .panic (.error (.num col))

def mustAtob (f : Bytes) (col : Nat) : Res UInt8 :=
  match parseUint f 8 with
  | .ok n => .ok (UInt8.ofNat n)
  | .error _ => .panic (.error (.num col))

def mustAtos (f : Bytes) (col : Nat) : Res Int :=
  match f with
  | [c] =>
    if c == 43 then .ok 1 else if c == 46 then .ok 0 else if c == 45 then .ok (-1)
    else .panic (.error (.strand col))
  | _ => .panic (.error (.strandField col))

def mustAtoRgb (f : Bytes) (col : Nat) : Res Rgb :=
  let c := splitN 44 4 f
  match c with
  | [] => .ok {}
  | [x] => do
    let v ← mustAtoi x col
    if v == 0 then .ok {} else .panic (.error (.color col))
  | [_, _] => .panic (.error (.color col))
  | x :: y :: z :: _ => do
    let r ← mustAtob x col
    let g ← mustAtob y col
    let b ← mustAtob z col
    .ok { r, g, b, a := 255 }

def mustAtoaLoop (col : Nat) : List Bytes → Res (List Int)
  | [] => .ok []
  | p :: ps =>
    if p.isEmpty then .ok []
    else do
      let v ← mustAtoi p col
      let rest ← mustAtoaLoop col ps
      .ok (v :: rest)

def mustAtoa (f : Bytes) (col : Nat) : Res (List Int) := mustAtoaLoop col (splitOn 44 f)

/-- columns 1–3 (`parseBed3` after its guard); the wider parsers read the same leading columns
    in the same left-to-right order, so each is written as an extension of the previous one -/
def parse3 (f : List Bytes) : Res Rec := do
  let chrom ← idx f 0
  let start ← (do mustAtoi (← idx f 1) 1)
  let stop ← (do mustAtoi (← idx f 2) 2)
  pure { width := 3, chrom, start, stop }

def parse4 (f : List Bytes) : Res Rec := do
  let r ← parse3 f
  let name ← idx f 3
  pure { r with width := 4, name }

def parse5 (f : List Bytes) : Res Rec := do
  let r ← parse4 f
  let score ← (do mustAtoi (← idx f 4) 4)
  pure { r with width := 5, score }

def parse6 (f : List Bytes) : Res Rec := do
  let r ← parse5 f
  let strand ← (do mustAtos (← idx f 5) 5)
  pure { r with width := 6, strand }

def parse12 (f : List Bytes) : Res Rec := do
  let r ← parse6 f
  let thickStart ← (do mustAtoi (← idx f 6) 6)
  let thickEnd ← (do mustAtoi (← idx f 7) 7)
  let rgb ← (do mustAtoRgb (← idx f 8) 8)
  let blockCount ← (do mustAtoi (← idx f 9) 9)
  let blockSizes ← (do mustAtoa (← idx f 10) 10)
  let blockStarts ← (do mustAtoa (← idx f 11) 11)
  if blockCount != blockSizes.length || blockCount != blockStarts.length then .ret .blocks
  else pure { r with width := 12, thickStart, thickEnd, rgb, blockCount, blockSizes, blockStarts }

/-- body of `parseBedN` (before the deferred `handlePanic`) -/
def parseBody (n : Nat) (line : Bytes) : Res Rec :=
  let f := splitN 9 (n + 1) line
  if f.length < n then .ret .badType
  else if n == 3 then parse3 f
  else if n == 4 then parse4 f
  else if n == 5 then parse5 f
  else if n == 6 then parse6 f
  else parse12 f

/-- `parseBed3` … `parseBed12` -/
def parseBed (n : Nat) (line : Bytes) : Res Rec := handlePanic (parseBody n line)

def validWidth (n : Nat) : Bool := n == 3 || n == 4 || n == 5 || n == 6 || n == 12

/-- one call of `Reader.Read` that got a line from `ReadBytes` -/
inductive Call
  | record (r : Rec)
  | err (e : Err) (line : Nat)
  | panicked (p : PanicVal)
  | eof
  deriving DecidableEq, Repr

/-- `Reader.Read` once `line = bytes.TrimSpace(line)` has been done; `lineNo` = `r.line` after
    the increment -/
def readLine (n : Nat) (line : Bytes) (lineNo : Nat) : Call :=
  match parseBed n line with
  | .ok r => .record r
  | .ret e => .err e lineNo
  | .panic p => .panicked p

/-- successive calls of `Read` until `io.EOF` on the trimmed lines; a panic ends the list -/
def readLines (n : Nat) : List Bytes → Nat → List Call
  | [], _ => [.eof]
  | l :: ls, k =>
    match readLine n l (k + 1) with
    | .panicked p => [.panicked p]
    | c => c :: readLines n ls (k + 1)

/-- the lines as the reader sees them: `ReadBytes('\n')` followed by `bytes.TrimSpace` -/
def trimmedLines (bs : Bytes) : List Bytes := (lines bs).map trimSpace

def readAll (n : Nat) (bs : Bytes) : List Call := readLines n (trimmedLines bs) 0

/-! ### writer -/

def strandText (s : Int) : Bytes :=
  if s == 1 then [43] else if s == 0 then [46] else if s == -1 then [45] else ofString "undefined"

def rgbText (c : Rgb) : Bytes :=
  if c == {} then [48]
  else natDigits c.r.toNat ++ 44 :: natDigits c.g.toNat ++ 44 :: natDigits c.b.toNat

/-- the twelve columns as `format` prints them -/
def cols (b : Rec) : List Bytes :=
  [b.chrom, formatInt b.start, formatInt b.stop, b.name, formatInt b.score, strandText b.strand,
   formatInt b.thickStart, formatInt b.thickEnd, rgbText b.rgb, formatInt b.blockCount,
   commaInts b.blockSizes, commaInts b.blockStarts]

/-- `fmt.Sprintf("%*s", w, b)` for `w ≤ b.width` -/
def format (w : Nat) (b : Rec) : Bytes := joinWith 9 ((cols b).take w)

/-- `Writer.Write` on a Bed value: text emitted and reported count, or `ErrBadBedType` -/
def write (w : Nat) (b : Rec) : Except Err (Bytes × Nat) :=
  if w > b.width then .error .badType
  else
    let t := format w b
    .ok (t ++ [10], t.length + 1)

/-- the record made of the first `m` columns -/
def firstCols (m : Nat) (b : Rec) : Rec :=
  { width := m, chrom := b.chrom, start := b.start, stop := b.stop,
    name := if m ≥ 4 then b.name else [],
    score := if m ≥ 5 then b.score else 0,
    strand := if m ≥ 6 then b.strand else 0,
    thickStart := if m ≥ 12 then b.thickStart else 0,
    thickEnd := if m ≥ 12 then b.thickEnd else 0,
    rgb := if m ≥ 12 then b.rgb else {},
    blockCount := if m ≥ 12 then b.blockCount else 0,
    blockSizes := if m ≥ 12 then b.blockSizes else [],
    blockStarts := if m ≥ 12 then b.blockStarts else [] }

end Biogo.Bed
