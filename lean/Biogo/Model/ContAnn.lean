/-
Storage of `SubAnnotations` (`[]seq.Annotation`) of the column-stored alignments on a heap.

`Biogo.Model.Containers` keeps the row annotations of an `alignment.Seq/QSeq` as a *value*
(`Aln.subs : List Ann`).  In the Go code they are a slice: a header `(array, off, len, cap)` held
by the alignment, pointing into a backing array that `Row(i).RevComp()`, `Row(i).Reverse()`
write in place, `Delete(i)` compacts in place (`sa[:i+copy(sa[i:], sa[i+1:])]`), `Add` extends
with Go `append` (in place iff capacity) and `Clone` copies
(`append([]seq.Annotation(nil), s.SubAnnotations...)`, fix F6) — or, before that fix, shared
(`c := *s` copies the header only).

This file models that storage: `AnnStore` = a heap of annotation arrays + the slice header of
every object; `applyAnn pinned` is the effect of one operation of the histories on it, with
`pinned = true` for `Clone` as it was before fix F6.  The driver observes the row annotations
(name, offset, strand of every row) by *reading the heap* (`viewA`, `runHistoryA`).
Properties/C05_ann.lean proves that with the fixed `Clone` the heap storage is observed exactly
as the value model (`annotation_store_refines_values`), and that with the old `Clone` it is not
(`pinned_clone_shares_annotations`).  Core-only.
-/
import Biogo.Model.ContWorld

namespace Biogo.Containers
open Biogo.Go

def zeroAnn : Ann := ⟨0, 0, 0⟩

/-- the annotation heap and, per object of the world, the `SubAnnotations` slice header it holds
    (`Slice.nil` for objects that are not column-stored alignments) -/
structure AnnStore where
  anns : Heap Ann
  subs : List Slice

/-- `s[:i+copy(s[i:], s[i+1:])]` on any heap -/
def delSlice {α : Type} (h : Heap α) (c : Slice) (i : Nat) : Heap α × Slice :=
  match c.slice i c.len, c.slice (i + 1) c.len with
  | some d, some s => ((h.copy d s).1, { c with len := i + (h.copy d s).2 })
  | _, _ => (h, c)

/-- `s[r] = f(s[r])` -/
def modSlice {α : Type} (h : Heap α) (s : Slice) (r : Nat) (f : α → α) : Heap α :=
  match h.get? s r with
  | some x => h.set s r (f x)
  | none => h

/-- `for i := range n { s.SubAnnotations = append(s.SubAnnotations, *n[i].CloneAnnotation()) }` -/
def appendAnns (grow : Nat → Nat → Nat) (h : Heap Ann) (s : Slice) (xs : List Ann) : Heap Ann × Slice :=
  xs.foldl (fun (acc : Heap Ann × Slice) x => acc.1.append grow acc.2 [x] zeroAnn) (h, s)

def AnnStore.pad (st : AnnStore) (n : Nat) : AnnStore :=
  { st with subs := st.subs ++ List.replicate (n - st.subs.length) Slice.nil }

def negStrand (x : Ann) : Ann := { x with strand := -x.strand }
def noStrand (x : Ann) : Ann := { x with strand := 0 }

/-- the effect of one operation on the annotation storage (`w` is the world before it).
    Only column-stored alignments have row annotations; objects created by the operation that
    have none get the nil slice. -/
def applyAnn (pinned : Bool) (cx : Ctx) (w : World) (st : AnnStore) (op : Op) : AnnStore :=
  let st' : AnnStore :=
    match op with
    | .clone k =>
      match w.objs[k]?, st.subs[k]? with
      | some (.aln _), some s =>
        if pinned then { st with subs := st.subs ++ [s] }          -- `c := *s`: the header is copied
        else { anns := (st.anns.ofList (st.anns.read s) (cx.grow 0 s.len) zeroAnn).1,
               subs := st.subs ++ [(st.anns.ofList (st.anns.read s) (cx.grow 0 s.len) zeroAnn).2] }
      | _, _ => st
    | .rowRevComp k r =>
      match w.objs[k]?, st.subs[k]? with
      | some (.aln a), some s => if r < a.rows then { st with anns := modSlice st.anns s r negStrand } else st
      | _, _ => st
    | .rowReverse k r =>
      match w.objs[k]?, st.subs[k]? with
      | some (.aln a), some s => if r < a.rows then { st with anns := modSlice st.anns s r noStrand } else st
      | _, _ => st
    | .delete k i =>
      match w.objs[k]?, st.subs[k]? with
      | some (.aln a), some s =>
        if i < a.rows then { anns := (delSlice st.anns s i).1, subs := st.subs.set k (delSlice st.anns s i).2 } else st
      | _, _ => st
    | .add k seqs =>
      match w.objs[k]?, st.subs[k]? with
      | some (.aln _), some s =>
        { anns := (appendAnns cx.grow st.anns s (seqs.map fun sp => ⟨sp.name, sp.off, sp.strand⟩)).1,
          subs := st.subs.set k (appendAnns cx.grow st.anns s (seqs.map fun sp => ⟨sp.name, sp.off, sp.strand⟩)).2 }
      | _, _ => st
    | _ => st
  st'.pad (apply cx w op).1.objs.length

/-- `make([]seq.Annotation, n)` filled by the constructor, for every alignment of the world -/
def initAnn (w : World) : AnnStore :=
  w.objs.foldl (fun (st : AnnStore) o =>
    match o with
    | .aln a => { anns := (st.anns.ofList a.subs a.subs.length zeroAnn).1,
                  subs := st.subs ++ [(st.anns.ofList a.subs a.subs.length zeroAnn).2] }
    | _ => { st with subs := st.subs ++ [Slice.nil] }) ⟨Heap.empty, []⟩

/-- an object with its row annotations replaced -/
def Obj.withSubs (o : Obj) (subs : List Ann) : Obj :=
  match o with
  | .aln a => .aln { a with subs := subs }
  | o => o

/-- the observation of every object, the row annotations read from the annotation heap -/
def viewA (cx : Ctx) (w : World) (st : AnnStore) : List ObjV :=
  w.objs.zipIdx.map fun ok => viewObj cx w.cells (ok.1.withSubs (st.anns.read (st.subs.getD ok.2 Slice.nil)))

/-- run a history on the value model and the annotation storage in lockstep -/
def runHistoryA (pinned : Bool) (cx : Ctx) (w : World) (ops : List Op) : List (String × List ObjV) :=
  (ops.foldl (fun (acc : (World × AnnStore) × List (String × List ObjV)) op =>
    (((apply cx acc.1.1 op).1, applyAnn pinned cx acc.1.1 acc.1.2 op),
     acc.2 ++ [((apply cx acc.1.1 op).2, viewA cx (apply cx acc.1.1 op).1 (applyAnn pinned cx acc.1.1 acc.1.2 op))]))
    ((w, initAnn w), [("ok", viewA cx w (initAnn w))])).2

end Biogo.Containers
