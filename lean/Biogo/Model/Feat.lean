/-
Model of /repo/feat/feature.go (BasePositionOf, PositionWithin, BaseOrientationOf,
OrientationWithin) and /repo/feat/position.go (OneToZero, ZeroToOne).  Core-only.

A feature is seen through the chain of its locations: `f, f.Location(), f.Location().Location(), …`
up to the first `nil`.  A chain is a list of nodes; the empty chain is the `nil` feature.
Each node carries an identity (`id`, Go's interface equality `f == ref`), its `Start()` and,
when it implements `feat.Orienter`, its `Orientation()` (`-1` reverse, `0` not oriented,
`1` forward).  A location cycle is an infinite chain; the driver unrolls it beyond the depth
limit, which is all the code can see of it.

The `for n := 0; n < 1000; n++` loops are modelled with a fuel argument that counts the
iterations left, so that the "chain too long" panic is explicit and happens at exactly the
iteration at which the code panics.  Nil dereferences (a method call on a nil interface) are
explicit too.
-/
namespace Biogo.Feat

inductive Panic
  | nilDeref   -- method call on a nil feature
  | tooLong    -- "feat: feature chain too long"
  | zeroIndex  -- "feat: 1-based index == 0"
  | badOrient  -- "gene: invalid base orientation for transcript"
  deriving DecidableEq, Repr

def Panic.code : Panic → String
  | .nilDeref => "nil" | .tooLong => "toolong" | .zeroIndex => "zeroindex" | .badOrient => "badorient"

structure Node where
  id : Nat                 -- identity of the feature value (never 0; 0 is used for `nil`)
  start : Int              -- Start()
  orient : Option Int      -- `none`: does not implement Orienter
  deriving DecidableEq, Repr

abbrev Chain := List Node

/-- the documented depth limit -/
def limit : Nat := 1000

/-- `o, ok := f.(Orienter); ok && o.Orientation() != NotOriented` -/
def Node.oriented (x : Node) : Bool :=
  match x.orient with
  | some o => o != 0
  | none => false

/-- `o.Orientation()` for an Orienter (0 when the node is not one; only used under `oriented`) -/
def Node.ori (x : Node) : Int := x.orient.getD 0

/-! ### BasePositionOf -/

/-- One run of the loop of `BasePositionOf`; the result names the reference by its id. -/
def basePosLoop : Nat → Chain → Int → Except Panic (Int × Nat)
  | 0, _, _ => .error .tooLong
  | _ + 1, [], _ => .error .nilDeref
  | fuel + 1, x :: rest, pos =>
    let pos := pos + x.start
    match rest with
    | [] => .ok (pos, x.id)
    | _ :: _ => basePosLoop fuel rest pos

def basePositionOf (c : Chain) (pos : Int) : Except Panic (Int × Nat) :=
  basePosLoop limit c pos

/-! ### PositionWithin — `ref = none` is the nil reference -/

def posWithinLoop : Nat → Chain → Option Nat → Int → Except Panic (Int × Bool)
  | 0, _, _, _ => .error .tooLong
  | _ + 1, [], ref, pos => if ref = none then .ok (pos, false) else .error .nilDeref
  | fuel + 1, x :: rest, ref, pos =>
    if ref = some x.id then .ok (pos, true)
    else
      let pos := pos + x.start
      match rest with
      | [] => .ok (0, false)
      | _ :: _ => posWithinLoop fuel rest ref pos

def positionWithin (c : Chain) (ref : Option Nat) (pos : Int) : Except Panic (Int × Bool) :=
  posWithinLoop limit c ref pos

/-! ### BaseOrientationOf -/

/-- first branch: `f` is not orientable; walk up to the first orientable location -/
def baseOriNotLoop : Nat → Node → Chain → Except Panic (Int × Nat)
  | 0, _, _ => .error .tooLong
  | _ + 1, f, [] => .ok (0, f.id)
  | fuel + 1, _, y :: rest => if y.oriented then .ok (0, y.id) else baseOriNotLoop fuel y rest

/-- second branch: multiply orientations along the maximal run of orientable features -/
def baseOriLoop : Nat → Int → Node → Chain → Except Panic (Int × Nat)
  | 0, _, _, _ => .error .tooLong
  | fuel + 1, ori, f, rest =>
    let ori := ori * f.ori
    match rest with
    | [] => .ok (ori, f.id)
    | y :: rest' => if y.oriented then baseOriLoop fuel ori y rest' else .ok (ori, y.id)

def baseOrientationOf : Chain → Except Panic (Int × Nat)
  | [] => .error .nilDeref
  | f :: rest => if f.oriented then baseOriLoop limit 1 f rest else baseOriNotLoop limit f rest

/-! ### OrientationWithin -/

def headId : Chain → Option Nat
  | [] => none
  | y :: _ => some y.id

/-- the loop of `OrientationWithin` for a non-nil reference `ref` -/
def oriWithinLoop : Nat → Int → Chain → Nat → Except Panic Int
  | 0, _, _, _ => .error .tooLong
  | _ + 1, _, [], _ => .ok 0                       -- nil is not an Orienter
  | fuel + 1, ori, f :: rest, ref =>
    if f.oriented then
      if f.id = ref then .ok ori
      else
        let ori := ori * f.ori
        if headId rest = some ref then .ok ori else oriWithinLoop fuel ori rest ref
    else .ok 0

def orientationWithin (c : Chain) (ref : Option Nat) : Except Panic Int :=
  match ref with
  | none => .ok 0
  | some r => oriWithinLoop limit 1 c r

/-! ### changes of a chain between two queries

The functions above keep nothing between calls: every query walks the chain as it is *now*.  A caller may,
between two queries, give a feature of the chain another orientation (`g.Orient = feat.Reverse`) or
another start (`g.Offset = 500`); the identity of the feature stays what it was.  `chainApply` is that
assignment on the chain seen from the bottom feature (`k = 0`) — the histories of the driver carry
the current chain through it and query the functions above on the result. -/

/-- `x.Orient = o` for a feature that implements `Orienter` (a feature that does not has no
    orientation to assign) -/
def Node.setOrient (x : Node) (o : Int) : Node :=
  match x.orient with
  | some _ => { x with orient := some o }
  | none => x

/-- `x.Offset = s` -/
def Node.setStart (x : Node) (s : Int) : Node := { x with start := s }

/-- apply `f` to the `k`-th feature of the chain (nothing beyond its end) -/
def modifyAt (f : Node → Node) : Nat → Chain → Chain
  | _, [] => []
  | 0, x :: rest => f x :: rest
  | k + 1, x :: rest => x :: modifyAt f k rest

inductive ChainOp
  | orient (k : Nat) (o : Int)   -- the `k`-th feature's orientation becomes `o`
  | move (k : Nat) (s : Int)     -- the `k`-th feature's start becomes `s`
  deriving DecidableEq, Repr

/-- the feature assigned to -/
def ChainOp.index : ChainOp → Nat
  | .orient k _ => k
  | .move k _ => k

def chainApply (c : Chain) : ChainOp → Chain
  | .orient k o => modifyAt (·.setOrient o) k c
  | .move k s => modifyAt (·.setStart s) k c

/-! ### 1-based / 0-based conversion -/

def oneToZero (pos : Int) : Except Panic Int :=
  if pos = 0 then .error .zeroIndex
  else if pos > 0 then .ok (pos - 1) else .ok pos

def zeroToOne (pos : Int) : Int :=
  if pos ≥ 0 then pos + 1 else pos

/-! ### the same over `Int64`: Go's `int` on the 64-bit platforms, `pos--` / `pos++` wrap around

A second, bit-exact model (the one the driver runs): it differs from the unbounded one at exactly one
argument, `ZeroToOne(math.MaxInt64)`, which wraps to `math.MinInt64`. -/

def oneToZero64 (pos : Int64) : Except Panic Int64 :=
  if pos = 0 then .error .zeroIndex
  else if pos > 0 then .ok (pos - 1) else .ok pos

def zeroToOne64 (pos : Int64) : Int64 :=
  if pos ≥ 0 then pos + 1 else pos

end Biogo.Feat
