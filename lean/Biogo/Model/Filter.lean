/-
Model of /repo/align/pals/filter/filter.go: the q-gram filter of PALS as a state machine over
the circular array of tubes, driven by the k-mer index model (`Biogo.Kmer`).  Core-only.

Go `int`s that can be negative (`minKmersPerHit`, `maxKmerDist`, the argument of `tubeIndex`
in `tubeEnd` and in the final flush) are `Int` with Go's truncated division (`Int.tdiv`,
`Int.tmod`); query/target positions, diagonal indices of common k-mers and slot numbers are `Nat`.
Hits are collected in push order; the morass only re-orders them.

`Rule` records the places where the retirement logic of the source is regenerated as a fact
(`Biogo.Generated.FilterFacts`): what `tubeEnd` subtracts from the diagonal index, where the
final flush starts, and whether the ticker follows the query position delivered by the callback
or counts callbacks.
-/
import Biogo.Model.Kmer

namespace Biogo.Filter
open Biogo.Spec.Kmer (Lookup)

/-- `MinWordsPerFilterHit(hitLength, wordLength, maxErrors)` (Ukkonen's lemma) -/
def minWordsPerFilterHit (n k e : Nat) : Int := (n : Int) + 1 - (k : Int) * ((e : Int) + 1)

structure Params where
  minMatch : Nat
  maxError : Nat
  tubeOffset : Nat
  deriving Repr, DecidableEq

/-- the variants of the retirement logic (which one the source has is a regenerated fact) -/
structure Rule where
  /-- `tubeEnd` computes `diagIndex(Tlen-1, q-1) - maxError` (true) or `diagIndex(Tlen-1, q-1)` (false) -/
  retireSubMaxError : Bool
  /-- the final flush starts at the tube of `diagIndex(Tlen-1, Qlen-k) - maxError` (true: the first
      tube no tick has retired) or of `diagIndex(Tlen-1, Qlen-1) - tubeWidth` (false) -/
  flushFromLastTick : Bool
  /-- the ticker: `ticker` is the number of query positions after which the next tube ends, and
      `tick(passed)` — called with the position of every callback and with `Qlen-k+1` after the scan —
      retires every tube that has ended (true); or `ticker` is a countdown decremented once per
      *callback*, the tube of the callback's position being retired when it reaches 0 (false: a
      k-mer holding a letter outside the alphabet gets no callback, so the countdown runs late) -/
  tickByPosition : Bool := true
  /-- the tube list between two calls of `Filter` on one `*Filter`: `f.tubes = make([]tubeState,
      maxActiveTubes)` before every scan and `f.tubes = nil` after it (true); or allocated only when
      `len(f.tubes) != maxActiveTubes` and kept (false — the variant in which a scan starts from
      whatever the previous scan left in the tubes) -/
  remakeTubes : Bool := true
  deriving Repr, DecidableEq

/-- the pinned tree -/
def Rule.pinned : Rule := { retireSubMaxError := false, flushFromLastTick := false, tickByPosition := false }

structure Tube where
  qLo : Nat
  qHi : Nat
  count : Nat
  deriving Repr, DecidableEq, Inhabited

structure Hit where
  from_ : Int
  to : Int
  diagonal : Int
  deriving Repr, DecidableEq

structure Cfg where
  rule : Rule
  tlen : Nat
  k : Nat
  maxError : Nat
  off : Nat
  maxKmerDist : Int
  minKmers : Int
  selfAlign : Bool
  complement : Bool
  /-- `cap(f.tubes)` -/
  cap : Nat
  deriving Repr

structure St where
  tubes : Array Tube
  /-- pushed hits, most recent first -/
  hits : List Hit
  /-- a slot number was negative (`f.tubes[negative]` panics) -/
  panic : Bool := false
  deriving Repr

def getTube (s : St) (slot : Nat) : Tube := (s.tubes[slot]?).getD default

/-- `addHit(tubeIndex, QLo, QHi)` -/
def addHit (c : Cfg) (s : St) (tubeIndex : Int) (qLo qHi : Nat) : St :=
  { s with hits := { from_ := qLo, to := (qHi : Int) + c.k,
                     diagonal := (c.tlen : Int) - tubeIndex * c.off } :: s.hits }

/-- `diagIndex(t, q) = Tlen - t + q` for a target position `t < Tlen` -/
def diagIndex (c : Cfg) (t q : Nat) : Nat := c.tlen - t + q

/-- `tubeIndex(d) = d / tubeOffset` for a non-negative diagonal index -/
def tubeIndex (c : Cfg) (d : Nat) : Nat := d / c.off

/-- `hitTube(tubeIndex, q)` -/
def hitTube (c : Cfg) (s : St) (ti : Nat) (q : Nat) : St :=
  let slot := ti % c.cap
  let tube := getTube s slot
  if tube.count = 0 then
    { s with tubes := s.tubes.setIfInBounds slot { qLo := q, qHi := q, count := 1 } }
  else if (q : Int) - tube.qHi > c.maxKmerDist then
    let s := if (tube.count : Int) ≥ c.minKmers then addHit c s ti tube.qLo tube.qHi else s
    { s with tubes := s.tubes.setIfInBounds slot { qLo := q, qHi := q, count := 1 } }
  else
    { s with tubes := s.tubes.setIfInBounds slot { tube with count := tube.count + 1, qHi := q } }

/-- the self-comparison cut at the head of `commonKmer` -/
def selfCut (c : Cfg) (t q : Nat) : Bool :=
  c.selfAlign && ((c.complement && decide (q < c.tlen - t)) || (!c.complement && decide (q ≤ t)))

/-- `commonKmer(t, q)`: a k-mer common to `SeqT[t]` and `SeqQ[q]` -/
def commonKmer (c : Cfg) (s : St) (t q : Nat) : St :=
  if selfCut c t q then s
  else
    let d := diagIndex c t q
    let ti := tubeIndex c d
    let s := hitTube c s ti q
    if d % c.off < c.maxError then
      hitTube c s (if ti = 0 then c.cap - 1 else ti - 1) q
    else s

/-- the tube index computed by `tubeEnd(q)` -/
def tubeEndIndex (c : Cfg) (q : Nat) : Int :=
  -- diagIndex(Tlen-1, q-1) = Tlen - (Tlen-1) + (q-1)
  let d : Int := (c.tlen : Int) - ((c.tlen : Int) - 1) + ((q : Int) - 1)
  let d := if c.rule.retireSubMaxError then d - c.maxError else d
  d.tdiv c.off

/-- retire the tube with index `ti`: emit if `Count ≥ minKmersPerHit`, then `Count = 0` -/
def retire (c : Cfg) (s : St) (ti : Int) : St :=
  let slotI := ti.tmod c.cap
  if slotI < 0 then { s with panic := true }
  else
    let slot := slotI.toNat
    let tube := getTube s slot
    let s := if (tube.count : Int) ≥ c.minKmers then addHit c s ti tube.qLo tube.qHi else s
    { s with tubes := s.tubes.setIfInBounds slot { tube with count := 0 } }

/-- `tubeEnd(q)` -/
def tubeEnd (c : Cfg) (s : St) (q : Nat) : St := retire c s (tubeEndIndex c q)

/-- `tubeFlush(tubeIndex)`: like `retire`, but `Count` is reset only when a hit is emitted -/
def tubeFlush (c : Cfg) (s : St) (ti : Nat) : St :=
  let slot := ti % c.cap
  let tube := getTube s slot
  if (tube.count : Int) < c.minKmers then s
  else
    let s := addHit c s ti tube.qLo tube.qHi
    { s with tubes := s.tubes.setIfInBounds slot { tube with count := 0 } }

/-- loop state of the callback in `Filter`: tubes, hits and the ticker -/
structure Loop where
  st : St
  ticker : Nat
  deriving Repr

/-- `for ; ticker <= passed; ticker += f.tubeOffset { f.tubeEnd(ticker - 1) }` with `fuel`
    iterations left (for `tubeOffset ≥ 1` the loop ends within `passed + 1 - ticker` iterations;
    `tubeOffset = 0` never reaches this loop: `Filter` has panicked before) -/
def tickLoop (c : Cfg) (passed : Nat) : Nat → St → Nat → Loop
  | 0, st, ticker => { st, ticker }
  | fuel + 1, st, ticker =>
    if ticker ≤ passed then tickLoop c passed fuel (tubeEnd c st (ticker - 1)) (ticker + c.off)
    else { st, ticker }

/-- `tick(passed)`: retire the tubes that have ended once `passed` query positions lie behind -/
def tick (c : Cfg) (l : Loop) (passed : Nat) : Loop := tickLoop c passed (passed + 1 - l.ticker) l.st l.ticker

/-- the loop over the target positions of one k-mer: `commonKmer(ki.PosAt(i), position)` -/
def kmers (c : Cfg) (l : Loop) (position : Nat) (ts : List Nat) : Loop :=
  { l with st := ts.foldl (fun s t => commonKmer c s t position) l.st }

/-- the callback of the first wave's code, whose ticker is a countdown of *callbacks*:
    `if ticker--; ticker == 0 { tubeEnd(position); ticker = f.tubeOffset }` after the k-mers (the
    ticker starts at `tubeWidth ≥ 1` and is reset to `tubeOffset ≥ 1`, so it never passes below 0) -/
def onKmerCount (c : Cfg) (l : Loop) (position : Nat) (ts : List Nat) : Loop :=
  let st := (kmers c l position ts).st
  let ticker := l.ticker - 1
  if ticker = 0 then { st := tubeEnd c st position, ticker := c.off }
  else { st, ticker }

/-- the callback for one k-mer of the query at `position`, `ts` = its positions in the target in
    index order -/
def onKmer (c : Cfg) (l : Loop) (position : Nat) (ts : List Nat) : Loop :=
  if c.rule.tickByPosition then kmers c (tick c l position) position ts
  else onKmerCount c l position ts

/-- positions of `kmer` in the target, read as the callback does (`FingerAt`, `PosAt`) -/
def targetPositions (ix : Biogo.Kmer.Index) (kmer : Nat) : List Nat :=
  let from_ := if kmer > 0 then Biogo.Kmer.rd ix.finger (kmer - 1) else 0
  let to := Biogo.Kmer.rd ix.finger kmer
  (ix.pos.extract from_ to).toList

/-- `for tubeIndex := tubeFrom; tubeIndex <= tubeTo; tubeIndex++ { tubeFlush(tubeIndex) }`,
    `n` iterations left -/
def flushLoop (c : Cfg) : Nat → Nat → St → St
  | 0, _, s => s
  | n + 1, ti, s => flushLoop c n (ti + 1) (tubeFlush c s ti)

inductive FErr
  | offsetLtError      -- "filter: TubeOffset < MaxError"
  | iter               -- error returned by ForEachKmerOf (query shorter than k-1)
  | panic              -- division by zero (TubeOffset = 0) or negative slot
  deriving Repr, DecidableEq

def FErr.code : FErr → String
  | .offsetLtError => "offset" | .iter => "iter" | .panic => "panic"

/-- first and last tube index of the final flush -/
def flushRange (c : Cfg) (qlen : Nat) : Nat × Int :=
  let tubeWidth : Int := (c.off : Int) + c.maxError
  -- diagIndex(Tlen-1, q) = q + 1
  let diagFrom : Int :=
    if c.rule.flushFromLastTick then ((qlen : Int) - c.k + 1) - c.maxError
    else (qlen : Int) - tubeWidth
  let diagTo : Int := (c.tlen : Int) + ((qlen : Int) - 1) + tubeWidth
  let tubeFrom := diagFrom.tdiv c.off
  ((if tubeFrom < 0 then 0 else tubeFrom).toNat, diagTo.tdiv c.off)

/-- the derived quantities `Filter` computes before the scan -/
def mkCfg (rule : Rule) (k tlen : Nat) (p : Params) (selfAlign complement : Bool) : Cfg :=
  { rule, tlen, k, maxError := p.maxError, off := p.tubeOffset,
    maxKmerDist := (p.minMatch : Int) - k,
    minKmers := minWordsPerFilterHit p.minMatch k p.maxError,
    selfAlign, complement,
    cap := (tlen + (p.tubeOffset + p.maxError) - 1) / p.tubeOffset + 1 }

/-- the body of `Filter` from the scan on, started on the tube list `tubes0`: the result (hits in
    push order) and the tube list it leaves in `f.tubes` if nothing resets it -/
def scanFrom (rule : Rule) (lk : Lookup) (ix : Biogo.Kmer.Index) (p : Params) (query : List UInt8)
    (selfAlign complement : Bool) (tubes0 : Array Tube) : Except FErr (List Hit) × Array Tube :=
  let tubeWidth := p.tubeOffset + p.maxError
  let c := mkCfg rule ix.k ix.seq.length p selfAlign complement
  let it := Biogo.Kmer.forEachKmer lk ix.k query 0 query.length
  let l0 : Loop := { st := { tubes := tubes0, hits := [] }, ticker := tubeWidth }
  let l := it.calls.foldl (fun l call => onKmer c l call.1 (targetPositions ix call.2)) l0
  if it.err then (.error .iter, l.st.tubes)
  else
    -- `tick(query.Len() - f.k + 1)` (an `int` ≤ 0 retires nothing, like the truncated `Nat`)
    let l := if rule.tickByPosition then tick c l (query.length + 1 - ix.k) else l
    let st := tubeEnd c l.st (query.length - 1)
    let (tubeFrom, tubeTo) := flushRange c query.length
    let st := flushLoop c ((tubeTo + 1 - tubeFrom).toNat) tubeFrom st
    (if st.panic then .error .panic else .ok st.hits.reverse, st.tubes)

/-- `Filter(query, selfAlign, complement, morass)` on a fresh tube list: the hits in push order -/
def filter (rule : Rule) (lk : Lookup) (ix : Biogo.Kmer.Index) (p : Params) (query : List UInt8)
    (selfAlign complement : Bool) : Except FErr (List Hit) :=
  if p.tubeOffset < p.maxError then .error .offsetLtError
  else if p.tubeOffset = 0 then .error .panic
  else
    let c := mkCfg rule ix.k ix.seq.length p selfAlign complement
    (scanFrom rule lk ix p query selfAlign complement (Array.replicate c.cap default)).1

/-! ### usage histories: one `*Filter`, many calls of `Filter`

What a `*Filter` carries from one call to the next.  `New` sets `ki`, `target`, `minMatch`,
`maxError`, `tubeOffset`, and nothing assigns them again; `Filter` assigns `selfAlign`, `complement`,
`morass`, `k`, `minKmersPerHit`, `maxKmerDist` at its head, before any use (regenerated fact
`Biogo.Generated.FilterFacts.perCallFields`).  What is left is `f.tubes`. -/

/-- the state of a `*Filter` between calls: `f.tubes` (`nil` = empty) -/
structure FState where
  tubes : Array Tube := #[]
  deriving Repr

/-- after `filter.New` -/
def FState.new : FState := {}

/-- `Filter(query, selfAlign, complement, morass)` on a `*Filter` in state `prev`: the result and the
    state it leaves.  An error return leaves `f.tubes` as it is at that point (the two parameter
    errors come before it is touched). -/
def filterFrom (rule : Rule) (lk : Lookup) (ix : Biogo.Kmer.Index) (p : Params) (prev : FState)
    (query : List UInt8) (selfAlign complement : Bool) : Except FErr (List Hit) × FState :=
  if p.tubeOffset < p.maxError then (.error .offsetLtError, prev)
  else if p.tubeOffset = 0 then (.error .panic, prev)
  else
    let c := mkCfg rule ix.k ix.seq.length p selfAlign complement
    let tubes0 :=
      if rule.remakeTubes then Array.replicate c.cap default
      else if prev.tubes.size ≠ c.cap then Array.replicate c.cap default else prev.tubes
    let r := scanFrom rule lk ix p query selfAlign complement tubes0
    match r.1 with
    | .error e => (.error e, { tubes := r.2 })
    | .ok hs => (.ok hs, { tubes := if rule.remakeTubes then #[] else r.2 })

/-- the state after a history of calls `(query, selfAlign, complement)` on a new `*Filter` -/
def afterHistory (rule : Rule) (lk : Lookup) (ix : Biogo.Kmer.Index) (p : Params)
    (calls : List (List UInt8 × Bool × Bool)) : FState :=
  calls.foldl (fun s call => (filterFrom rule lk ix p s call.1 call.2.1 call.2.2).2) FState.new

end Biogo.Filter
