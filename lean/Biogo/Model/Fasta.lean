/-
Model of /repo/io/seqio/fasta/fasta.go: `Reader.Read`, `Reader.header`, `Writer.Write`.

The reader is the state machine of the code: the fields `working` (record being accumulated
across calls) and `err` (its deferred header error) persist between calls to `read`; one call
of `read` is one call of `Reader.Read`, looping over whole lines (`Biogo.Go.Bytes.splitLines`
stands for the `ReadLine`/`isPrefix` loop).  Every slice expression is an explicit
`Except Panic`.  The sequence template is an empty `linear.Seq`/`linear.QSeq`, whose
`SetName`/`SetDescription`/`AppendLetters` never fail.

The writer mirrors `Writer.Write` statement by statement on an in-memory `io.Writer`
(`Sink`), including the running byte count `n`.

Core only (linked into the driver).
-/
import Biogo.Go.Bytes

namespace Biogo.Fasta
open Biogo.Go.Bytes

/-- what the property observes of a sequence: name, description, letters -/
structure Rec where
  name : Bytes
  desc : Bytes
  letters : Bytes
  deriving DecidableEq, Repr

/-- the record being accumulated (`r.working`); letters in an array so that
    `AppendLetters` is an append in place -/
structure Working where
  name : Bytes
  desc : Bytes
  letters : Array UInt8

def Working.toRec (w : Working) : Rec := ⟨w.name, w.desc, w.letters.toList⟩

inductive Err
  | eof                      -- io.EOF
  | badLine (line : Bytes)   -- fmt.Errorf("fasta: badly formed line %q", line)
  | header                   -- an error of SetName/SetDescription (never, for the linear types)
  deriving DecidableEq, Repr

/-- the pair `(seq.Sequence, error)` returned by one call of `Read` -/
structure Ret where
  s : Option Rec
  e : Option Err
  deriving DecidableEq, Repr

/-- `Reader.IDPrefix`, `Reader.SeqPrefix` / `Writer.IDPrefix`, `Writer.SeqPrefix` -/
structure Cfg where
  idPrefix : Bytes := [62]     -- DefaultIDPrefix  = ">"
  seqPrefix : Bytes := []      -- DefaultSeqPrefix = ""

/-- the reader fields that persist between calls -/
structure St where
  working : Option Working := none
  err : Option Err := none

/-- `Reader.header`: the prefix is cut off, the rest is split at the first space or tab -/
def header (cfg : Cfg) (line : Bytes) : Except Panic (Working × Option Err) := do
  -- s := r.t.Clone().(seqio.SequenceAppender)      (empty template)
  let line ← sliceFrom line cfg.idPrefix.length             -- line = line[len(r.IDPrefix):]
  match indexAnySpTab line with
  | none => pure ({ name := line, desc := [], letters := #[] }, none)     -- string(line)
  | some fieldMark => do
    let name ← slice line 0 fieldMark                        -- line[:fieldMark]
    let desc ← sliceFrom line (fieldMark + 1)               -- line[fieldMark+1:]
    pure ({ name := name, desc := desc, letters := #[] }, none)

/-- the deferred function of `Read`: `if r.working == nil { r.err = nil }` -/
def deferred (st : St) : St := if st.working.isNone then { st with err := none } else st

/-- One call of `Reader.Read` on the remaining lines: the returned pair, the reader state
    after the call, and the lines not yet consumed. -/
def read (cfg : Cfg) : St → List Bytes → Except Panic (Ret × St × List Bytes)
  | st, [] =>
    -- ReadLine returned io.EOF
    match st.working with
    | none => pure (⟨none, some .eof⟩, deferred st, [])
    | some w => pure (⟨some w.toRec, st.err⟩, deferred { st with working := none }, [])
  | st, raw :: rest =>
    let line := trimSpace raw
    if line.length == 0 then read cfg st rest
    else if hasPrefix line cfg.idPrefix then
      match st.working with
      | none => do
        let (w, e) ← header cfg line
        read cfg { working := some w, err := e } rest
      | some w => do
        let (w', e') ← header cfg line
        pure (⟨some w.toRec, st.err⟩, deferred { working := some w', err := e' }, rest)
    else if hasPrefix line cfg.seqPrefix then
      match st.working with
      | none => pure (⟨none, some (.badLine line)⟩, deferred st, rest)
      | some w => do
        let body ← sliceFrom line cfg.seqPrefix.length      -- line[len(r.SeqPrefix):]
        -- r.working.AppendLetters(bytes.Join(bytes.Fields(body), nil)...)
        read cfg { st with working := some { w with letters := w.letters.appendList (removeSpaces body) } } rest
    else pure (⟨none, some (.badLine line)⟩, deferred st, rest)

/-- one entry of the call history of a reader -/
inductive Call
  | ret (r : Ret)        -- the call returned
  | panic (p : Panic)    -- the call panicked
  | unfinished           -- the call budget ran out before io.EOF (`progress`: never)
  deriving DecidableEq, Repr

/-- Call `read` until it returns io.EOF, at most `fuel` times. -/
def readAllAux (cfg : Cfg) : Nat → St → List Bytes → List Call
  | 0, _, _ => [.unfinished]
  | fuel + 1, st, lines =>
    match read cfg st lines with
    | .error p => [.panic p]
    | .ok (ret, st', rest) =>
      if ret.e = some .eof then [.ret ret] else .ret ret :: readAllAux cfg fuel st' rest

/-- All calls of `Read` on a fresh reader over the bytes `bs`, with a budget of one call per
    input line plus one. -/
def readAll (cfg : Cfg) (bs : Bytes) : List Call :=
  let lines := splitLines bs
  readAllAux cfg (lines.length + 1) {} lines

/-! ### writer -/

structure Writer where
  cfg : Cfg := {}
  width : Nat

/-- `for i := 0; i < s.Len(); i++ { if i%w.Width == 0 { write prefix }; write letter }`
    from index `i` on, threading the sink and the running count `n` -/
def writeLoop (width : Nat) (pfx : Bytes) : Nat → Bytes → Sink → Nat → Except Panic (Sink × Nat)
  | _, [], sink, n => pure (sink, n)
  | i, l :: ls, sink, n =>
    if width == 0 then throw .divideByZero          -- i % 0
    else
      let (sink, n) :=
        if i % width == 0 then
          let (sink, _n) := sink.write pfx             -- _n, err = w.w.Write(prefix); n += _n
          (sink, n + _n)
        else (sink, n)
      let (sink, _n) := sink.write [l]                 -- w.w.Write([]byte{byte(s.At(i).L)})
      writeLoop width pfx (i + 1) ls sink (n + _n)

/-- `Writer.Write`: the sink afterwards and the returned `n` -/
def write (w : Writer) (sink : Sink) (r : Rec) : Except Panic (Sink × Nat) := do
  let pfx := 10 :: w.cfg.seqPrefix                     -- append([]byte{'\n'}, w.SeqPrefix...)
  let header := w.cfg.idPrefix ++ r.name ++ (if r.desc.length > 0 then 32 :: r.desc else [])
  let (sink, n) := sink.write header                   -- n, err = w.w.Write(header)
  let (sink, n) ← writeLoop w.width pfx 0 r.letters sink n
  let (sink, _n) := sink.write [10]                    -- w.w.Write([]byte{'\n'})
  pure (sink, n + _n)

/-- write the records one after the other; the list of returned counts -/
def writeAll (w : Writer) : Sink → List Rec → Except Panic (Sink × List Nat)
  | sink, [] => pure (sink, [])
  | sink, r :: rs => do
    let (sink, n) ← write w sink r
    let (sink, ns) ← writeAll w sink rs
    pure (sink, n :: ns)

end Biogo.Fasta
