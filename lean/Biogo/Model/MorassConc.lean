/-
Model of `morass.Morass` with its background chunk writers, as a labelled transition system
on `Biogo.Go.Interleave` (C12), with a fault oracle for the file-system / gob steps and the
residue of the temporary directory (C13).

Actors: `0` = the caller (the goroutine that calls Push/Finalise/Pull/Clear), `k+1` = the k-th
goroutine spawned by `go m.write()`.  An atomic block is the code between two `verif` hook
points at which the schedule-forcing harness parks goroutines:

  caller   op boundary · push.send · push.recv · finalise.write · (write.* of the inline
           `m.write()`) · finalise.wait
  writer   write.recv · write.register · write.encode (once per element) · write.sync ·
           write.return

`pool` (cap 2) is the counter of `Morass.State`; `writable` (cap 1) is a bounded channel;
`filesLock`/`errLock` protect sections without hook points and are therefore atomic here.
With `conc = false` the `pool` channel starts empty and the same system describes the
sequential mode (the caller is then blocked at push.recv until the writer has returned).

The model mirrors the code after the `fix:` commits of C11, C12 (`Finalise` waits for the
outstanding writers: `wg`) and C13 (a successful `Sync` no longer overwrites `_err`).
`Pull` and `Clear` without a pending fault are the functions of the sequential model
(`pullF_nofault`, `clearF_nofault` in `Proofs/MorassConc.lean`).  Core Lean only.
-/
import Biogo.Go.Interleave
import Biogo.Model.Morass

namespace Biogo.MorassConc
open Biogo.Morass Biogo.Interleave

/-- fault points: the n-th execution of one of these operations fails -/
inductive Pt where
  | tempfile | encode | sync | seek | fdecode | pdecode | close | remove
deriving DecidableEq, Repr

/-- The fault oracle: a *list* of faults, armed one after the other.  Only the head is armed: it
    fires at the `n`-th execution (from 0) of its operation kind `p`, counted from the moment it
    became armed (the start of the run for the first one, the firing of its predecessor for the
    others); when it has fired the next one becomes armed.  `[]` = no fault; a singleton is the
    single fault of the first two waves.  (In sequential mode no temp-file / Encode / Sync / Seek /
    Decode operation is executed between the firing of a fault and the end of the `Clear` with
    which the caller recovers, so there the count of a later fault is the count over the cycles
    that follow the recovery.) -/
abbrev Fault := List (Pt × Nat)

/-- one execution of an operation of kind `pt`: does it fail, and the remaining oracle -/
def tick (f : Fault) (pt : Pt) : Bool × Fault :=
  match f with
  | (p, k) :: rest =>
    if p = pt then (match k with | 0 => (true, rest) | k + 1 => (false, (p, k) :: rest))
    else (false, f)
  | [] => (false, [])

inductive WPc where
  | recv | register | encode | sync | ret | done
deriving DecidableEq, Repr

/-- one activation of `write()` -/
structure Writer where
  pc : WPc := .recv
  todo : List Elem := []     -- elements of `writing` not yet encoded
  file : Nat := 0            -- index of its file in `m.files` (after register)
deriving Repr

inductive CPc where
  | idle | pushSend | pushRecv | finSend | finWrite | finWait
deriving DecidableEq, Repr

structure CState where
  m : Morass.State
  conc : Bool := false                -- background writing enabled (`New(..., concurrent)`)
  autoClean : Bool := false
  writable : Chan (List Elem) := { cap := 1, buf := [] }
  writers : List Writer := []
  wg : Nat := 0                       -- `m.writers` (sync.WaitGroup counter)
  pc : CPc := .idle
  inl : Writer := {}                  -- the caller's own `m.write()` during Finalise
  prog : List Op := []                -- API calls still to make (head = current)
  outs : List Out := []               -- what the caller has observed so far (reversed)
  flt : Fault := []
  onDisk : Nat := 0                   -- run files present in the temporary directory
  dirExists : Bool := true
  reuse : Bool := false               -- the concurrent caller, too, recovers with `Clear` after an error
deriving Repr

def initState (conc : Bool) (chunkSize : Nat) (autoClear autoClean : Bool) (prog : List Op)
    (flt : Fault) (reuse : Bool := false) : CState :=
  { m := { chunkSize, autoClear, pool := if conc then 1 else 0 }, conc, autoClean, prog, flt, reuse }

/-- `setErr` is only ever called with a non-nil error (after the fix for C13 a successful Sync
    no longer stores nil) -/
def setErr (m : Morass.State) (e : Res) : Morass.State := { m with err := some e }

def appendData (fs : List File) (i : Nat) (e : Elem) : List File :=
  fs.modify i (fun f => { f with data := f.data ++ [e] })

/-- one atomic block of a `write()` activation; `none` = blocked (or finished) -/
def wstep (s : CState) (w : Writer) : Option (Writer × CState) :=
  match w.pc with
  | .recv =>
    -- writing := <-m.writable; sort; ioutil.TempFile
    match s.writable.recv with
    | none => none
    | some (r, ch) =>
      let (bad, flt) := tick s.flt .tempfile
      if bad then some ({ w with pc := .ret, todo := sortRun r }, { s with writable := ch, flt, m := setErr s.m .ioerr })
      else some ({ w with pc := .register, todo := sortRun r }, { s with writable := ch, flt, onDisk := s.onDisk + 1 })
  | .register =>
    -- filesLock; m.files = append(m.files, f)
    some ({ w with pc := if w.todo.isEmpty then .sync else .encode, file := s.m.files.length },
          { s with m := { s.m with files := s.m.files ++ [mkFile []] } })
  | .encode =>
    match w.todo with
    | [] => some ({ w with pc := .sync }, s)
    | e :: t =>
      let (bad, flt) := tick s.flt .encode
      if bad then some ({ w with pc := .ret }, { s with flt, m := setErr s.m .ioerr })
      else some ({ w with pc := if t.isEmpty then .sync else .encode, todo := t },
                 { s with flt, m := { s.m with files := appendData s.m.files w.file e } })
  | .sync =>
    let (bad, flt) := tick s.flt .sync
    some ({ w with pc := .ret }, { s with flt, m := if bad then setErr s.m .ioerr else s.m })
  | .ret =>
    -- m.pool <- writing[:0]; then (deferred first, so last) m.writers.Done()
    if s.m.pool < 2 then some ({ w with pc := .done }, { s with m := { s.m with pool := s.m.pool + 1 }, wg := s.wg - 1 })
    else none
  | .done => none

/-- `Seek(0,0)` and `Decode(&head)` for every file in turn; stops at the first failure -/
def primeAll : Fault → List File → Fault × List File × Bool
  | flt, [] => (flt, [], true)
  | flt, f :: fs =>
    let (bad1, flt1) := tick flt .seek
    if bad1 then (flt1, f :: fs, false) else
    let (bad2, flt2) := tick flt1 .fdecode
    if bad2 then (flt2, { f with rest := f.data } :: fs, false) else
    let (flt3, fs', ok) := primeAll flt2 fs
    (flt3, primeFile f :: fs', ok)

/-- `Clear` with faults: close and remove every file in turn; `none` result = success.
    A failing Close/Remove returns at once, leaving `m.files` as it was. -/
def clearLoop : Fault → Nat → List File → Fault × Nat × Bool
  | flt, disk, [] => (flt, disk, true)
  | flt, disk, _ :: fs =>
    let (bad1, flt1) := tick flt .close
    if bad1 then (flt1, disk, false) else
    let (bad2, flt2) := tick flt1 .remove
    -- the hook overrides the result after the real Remove has happened
    if bad2 then (flt2, disk - 1, false) else
    clearLoop flt2 (disk - 1) fs

def clearF (s : CState) : CState × Res :=
  let (flt, disk, ok) := clearLoop s.flt s.onDisk s.m.files
  if ok then ({ s with flt, onDisk := disk, m := clear s.m }, .ok)
  else ({ s with flt, onDisk := disk }, .ioerr)

/-- `if m.AutoClean { os.RemoveAll(m.dir) }` when `Pull` reports `io.EOF` -/
def atEof (s : CState) : CState :=
  if s.autoClean then { s with onDisk := 0, dirExists := false } else s

/-- `Pull` with faults and residue -/
def pullF (s : CState) : CState × Res × Option Elem :=
  let m := s.m
  if m.fast then
    match m.chunk with
    | some ch =>
      match ch[m.pos]? with
      | some e => ({ s with m := { m with pos := m.pos + 1 } }, .ok, some e)
      | none =>
        if 2 ≤ m.pool then (s, .hang, none) else
        let s1 := { s with m := { m with pool := m.pool + 1, chunk := none } }
        (atEof (if m.autoClear then (clearF s1).1 else s1), .eof, none)
    | none => (atEof (if m.autoClear then (clearF s).1 else s), .eof, none)
  else
    match popMin m.files with
    | some (low, others) =>
      let (bad, flt) := tick s.flt .pdecode
      -- the file is closed (and removed under AutoClear) on io.EOF and on a decode error
      let gone : CState := { s with flt, m := { m with files := others, pos := m.pos + 1 },
                                    onDisk := if m.autoClear then s.onDisk - 1 else s.onDisk }
      let s' : CState :=
        if bad then gone else
        match low.rest with
        | n :: r => { s with flt, m := { m with files := { low with head := some n, rest := r } :: others, pos := m.pos + 1 } }
        | [] => gone
      if bad then (s', .ioerr, none) else
      match low.head with
      | none => (s', .panic, none)
      | some e => (s', .ok, some e)
    | none =>
      (atEof (if m.autoClear then (clearF s).1 else s), .eof, none)

/-- the caller finishes its current call with result `r` (and value `v`) -/
def finishOp (s : CState) (r : Res) (v : Option Elem) : CState :=
  { s with pc := .idle, outs := ⟨r, v, s.m.len, s.m.pos⟩ :: s.outs,
           -- a panic (or a call that never returns) ends the caller's program; after an I/O error
           -- the caller gives up the cycle: it makes no further call until its next `Clear`
           -- (sequential mode), or gives up altogether (concurrent mode: writers of the failed
           -- cycle may still be running, and `Clear` does not wait for them).  With `reuse` the
           -- concurrent caller recovers like the sequential one (third wave: the model is tied to
           -- the code for this only under schedules in which every writer of the failed cycle has
           -- ended before that `Clear`, see notes/C13.md)
           prog := if r = .panic ∨ r = .hang then []
                   else if r = .ioerr then (if s.conc && !s.reuse then [] else s.prog.tail.dropWhile (· != Op.clear))
                   else s.prog.tail }

/-- one atomic block of the caller -/
def cstep (s : CState) : Option CState :=
  match s.pc with
  | .idle =>
    match s.prog with
    | [] => none
    | .push e :: _ =>
      match s.m.err with
      | some r => some (finishOp s r none)
      | none =>
        match s.m.chunk with
        | none => some (finishOp s .finalised none)
        | some ch =>
          if ch.length = s.m.chunkSize then some { s with pc := .pushSend }
          else some (finishOp { s with m := (push s.m e).1 } .ok none)
    | .finalise :: _ =>
      match s.m.err with
      | some r => some (finishOp s r none)
      | none =>
        match s.m.chunk with
        | none => some (finishOp s .ok none)
        | some ch =>
          if s.m.pos < s.m.chunkSize then some (finishOp { s with m := (finalise s.m).1 } .ok none)
          else if 0 < ch.length then some { s with m := { s.m with fast := false }, pc := .finSend }
          else
            -- (unreachable for chunk size ≥ 1) nothing to write: no wait, no error check
            let (flt, fs, ok) := primeAll s.flt s.m.files
            some (finishOp { s with flt, m := { s.m with fast := false, pos := 0, files := fs } }
                    (if ok then .ok else .ioerr) none)
    | .pull :: _ => let (s', r, v) := pullF s; some (finishOp s' r v)
    | .clear :: _ => let (s', r) := clearF s; some (finishOp s' r none)
    -- a Push of a value of another type returns its error before touching anything
    | .reject :: _ => some (finishOp s .rejected none)
  | .pushSend =>
    -- m.writable <- m.chunk; m.writers.Add(1); go m.write()
    match s.m.chunk with
    | none => none
    | some ch =>
      match s.writable.send ch with
      | none => none
      | some wr => some { s with writable := wr, wg := s.wg + 1, writers := s.writers ++ [{}], pc := .pushRecv }
  | .pushRecv =>
    -- m.chunk = <-m.pool; error check; append
    if s.m.pool = 0 then none else
    match s.prog with
    | .push e :: _ =>
      let m1 := { s.m with pool := s.m.pool - 1, chunk := some [] }
      match m1.err with
      | some r => some (finishOp { s with m := m1 } r none)
      | none => some (finishOp { s with m := { m1 with chunk := some [e], pos := m1.pos + 1, len := m1.len + 1 } } .ok none)
    | _ => none
  | .finSend =>
    match s.m.chunk with
    | none => none
    | some ch =>
      match s.writable.send ch with
      | none => none
      | some wr => some { s with writable := wr, wg := s.wg + 1, m := { s.m with chunk := none }, inl := {}, pc := .finWrite }
  | .finWrite =>
    match wstep s s.inl with
    | none => none
    | some (w, s') => some { s' with inl := w, pc := if w.pc = .done then .finWait else .finWrite }
  | .finWait =>
    -- m.writers.Wait(); error check; pos = 0; prime every file; heap.Init
    if s.wg ≠ 0 then none else
    match s.m.err with
    | some r => some (finishOp s r none)
    | none =>
      let (flt, fs, ok) := primeAll s.flt s.m.files
      let s' := { s with flt, m := { s.m with pos := 0, files := fs } }
      some (finishOp s' (if ok then .ok else .ioerr) none)

/-- actor 0 = caller, actor k+1 = k-th spawned writer -/
def step (s : CState) : Nat → Option CState
  | 0 => cstep s
  | k + 1 =>
    match s.writers[k]? with
    | none => none
    | some w =>
      match wstep s w with
      | none => none
      | some (w', s') => some { s' with writers := s'.writers.set k w' }

def sys (conc : Bool) (chunkSize : Nat) (autoClear autoClean : Bool) (prog : List Op) (flt : Fault)
    (reuse : Bool := false) : Sys CState Nat :=
  { init := initState conc chunkSize autoClear autoClean prog flt reuse, step := step }

/-- actors that exist in a state (for the fixed finishing policy): writers first, oldest first,
    then the caller — so that the free run after a forced schedule terminates quickly -/
def actors (s : CState) : List Nat := (List.range s.writers.length).map (· + 1) ++ [0]

/-- `CleanUp`: `os.RemoveAll(m.dir)` -/
def cleanUp (s : CState) : CState := { s with onDisk := 0, dirExists := false }

/-- the caller has returned from every call of its program -/
def finished (s : CState) : Bool := s.prog.isEmpty && s.pc == .idle

end Biogo.MorassConc
