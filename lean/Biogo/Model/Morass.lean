/-
Model of `morass.Morass` (morass/morass.go) in its non-concurrent mode, for C11.

State = the struct's fields that the sequential mode uses.  `write()` is inlined: with
`concurrent == false` the `pool` channel is empty when `Push` hands a run to `write`, so the
caller blocks on `<-m.pool` until the writer has finished, and the hand-off is synchronous.

Abstractions (trusted base, DESIGN.md §7):
* a temporary file is the list of elements that were gob-encoded into it (`data`), a read
  cursor (`rest` = not yet decoded) and the decoded head element;
* `sort.Sort` is a sorting function (here: insertion sort; only "sorted permutation" is used
  by the theorems);
* `container/heap` over `files` is "pop takes a file whose head key is minimal" (here: the
  first such file in list order).  Which of several equal-key elements comes first is below
  the level of the observation (the key sequence);
* a channel of recycled buffers is the number of buffers in it (every buffer in `pool` is a
  `[:0]` slice of capacity `chunkSize`); a send to the full channel (cap 2) is `hang`.

The model mirrors the code after the `fix:` commits of C11 (`Finalise` assigns `fast` on both
branches; `Clear` truncates a chunk that is still held).  Core Lean only.
-/
namespace Biogo.Morass

/-- An element: `Less` compares `key` only (`intLesser`: tag 0; `structLesser{A,B}`: key A, tag B). -/
structure Elem where
  key : Int
  tag : Nat
deriving DecidableEq, Repr, Inhabited

/-- `sort.Sort` on a run. -/
def insertSorted (e : Elem) : List Elem → List Elem
  | [] => [e]
  | x :: xs => if x.key ≤ e.key then x :: insertSorted e xs else e :: x :: xs

def sortRun (xs : List Elem) : List Elem := xs.foldr insertSorted []

/-- One temporary run file with its decoder state. -/
structure File where
  data : List Elem          -- everything encoded into the file, in order
  rest : List Elem          -- not yet decoded
  head : Option Elem        -- `file.head` (nil until primed by Finalise)
deriving Repr

/-- result kinds of one API call -/
inductive Res where
  | ok | eof | finalised | hang | panic | ioerr
  | rejected      -- `Push` of a value of another type: "morass: type mismatch" (checked first)
deriving DecidableEq, Repr

structure State where
  chunkSize : Nat
  autoClear : Bool
  pos : Nat := 0
  len : Nat := 0
  fast : Bool := false
  chunk : Option (List Elem) := some []     -- `none` = nil slice
  pool : Nat := 0                           -- buffers waiting in `m.pool` (cap 2)
  files : List File := []
  err : Option Res := none                  -- `m._err` (never set without I/O faults)
deriving Repr

def init (chunkSize : Nat) (autoClear : Bool) : State := { chunkSize, autoClear }

/-- a freshly written run file: the write offset is at the end, nothing decoded -/
def mkFile (run : List Elem) : File := { data := run, rest := [], head := none }

/-- `Push`. -/
def push (s : State) (e : Elem) : State × Res :=
  match s.err with
  | some r => (s, r)
  | none =>
    match s.chunk with
    | none => (s, .finalised)
    | some ch =>
      if ch.length = s.chunkSize then
        -- writable <- chunk; go write(); chunk = <-pool   (synchronous in this mode)
        ({ s with files := s.files ++ [mkFile (sortRun ch)], chunk := some [e],
                  pos := s.pos + 1, len := s.len + 1 }, .ok)
      else
        ({ s with chunk := some (ch ++ [e]), pos := s.pos + 1, len := s.len + 1 }, .ok)

/-- `Seek(0,0)` then `Decode(&head)`; `io.EOF` is tolerated and leaves `head` as it was. -/
def primeFile (f : File) : File :=
  match f.data with
  | [] => { f with rest := [] }
  | e :: r => { f with head := some e, rest := r }

/-- `Finalise`. -/
def finalise (s : State) : State × Res :=
  match s.err with
  | some r => (s, r)
  | none =>
    match s.chunk with
    | none => (s, .ok)
    | some ch =>
      if s.pos < s.chunkSize then
        ({ s with fast := true, chunk := some (sortRun ch), pos := 0 }, .ok)
      else if 0 < ch.length then
        if 2 ≤ s.pool then (s, .hang) else
        ({ s with fast := false, chunk := none, pool := s.pool + 1, pos := 0,
                  files := (s.files ++ [mkFile (sortRun ch)]).map primeFile }, .ok)
      else
        ({ s with fast := false, pos := 0, files := s.files.map primeFile }, .ok)

/-- `Clear` (no I/O faults: always returns nil). -/
def clear (s : State) : State :=
  if 0 < s.pool then
    { s with files := [], err := none, pos := 0, len := 0, chunk := some [], pool := s.pool - 1 }
  else
    { s with files := [], err := none, pos := 0, len := 0, chunk := s.chunk.map fun _ => [] }

def headKey (f : File) : Int := match f.head with | some e => e.key | none => 0

/-- `heap.Pop`: a file with minimal head key (the first one in list order), and the others. -/
def popMin : List File → Option (File × List File)
  | [] => none
  | f :: fs =>
    match popMin fs with
    | none => some (f, [])
    | some (g, gs) => if headKey f ≤ headKey g then some (f, fs) else some (g, f :: gs)

/-- `Pull`: new state, result kind, value delivered. -/
def pull (s : State) : State × Res × Option Elem :=
  if s.fast then
    match s.chunk with
    | some ch =>
      match ch[s.pos]? with
      | some e => ({ s with pos := s.pos + 1 }, .ok, some e)
      | none =>
        if 2 ≤ s.pool then (s, .hang, none) else
        let s1 := { s with pool := s.pool + 1, chunk := none }
        (if s.autoClear then clear s1 else s1, .eof, none)
    | none => (if s.autoClear then clear s else s, .eof, none)
  else
    match popMin s.files with
    | some (low, others) =>
      -- e = low.head; pos++; Decode(&low.head): next element, or io.EOF and the file is closed
      let s' : State := match low.rest with
        | n :: r => { s with files := { low with head := some n, rest := r } :: others, pos := s.pos + 1 }
        | [] => { s with files := others, pos := s.pos + 1 }
      match low.head with
      | none => (s', .panic, none)      -- a head that was never decoded: reflect.Value.Set panics
      | some e => (s', .ok, some e)
    | none => (if s.autoClear then clear s else s, .eof, none)

/-- Operations of a usage history. -/
inductive Op where
  | push (e : Elem) | finalise | pull | clear
  | reject      -- `Push` of a value whose type is not the sorter's element type
deriving DecidableEq, Repr

/-- What the caller sees after one call. -/
structure Out where
  res : Res
  val : Option Elem
  len : Nat
  pos : Nat
deriving DecidableEq, Repr

def step (s : State) : Op → State × Out
  | .push e => let (s', r) := push s e; (s', ⟨r, none, s'.len, s'.pos⟩)
  | .finalise => let (s', r) := finalise s; (s', ⟨r, none, s'.len, s'.pos⟩)
  | .pull => let (s', r, v) := pull s; (s', ⟨r, v, s'.len, s'.pos⟩)
  | .clear => let s' := clear s; (s', ⟨.ok, none, s'.len, s'.pos⟩)
  -- the type check is the first thing `Push` does: the error is returned, nothing changes
  | .reject => (s, ⟨.rejected, none, s.len, s.pos⟩)

/-- Run a history; a `hang` or `panic` ends it (the caller never gets control back). -/
def run (s : State) : List Op → State × List Out
  | [] => (s, [])
  | op :: ops =>
    let (s', o) := step s op
    if o.res = .hang ∨ o.res = .panic then (s', [o])
    else let (s'', os) := run s' ops; (s'', o :: os)

end Biogo.Morass
