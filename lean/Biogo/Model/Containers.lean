/-
Executable model of the sequence containers of biogo (C05, C07):

  seq/linear/seq.go, qseq.go          `Lin`   (q = false / true)
  seq/alignment/alignment.go, qalignment.go   `Aln` (column-stored; q = false / true), rows `Row/QRow`
  seq/multi/multi.go                  `Multi` (row-stored, every row a `Lin` with its own offset)
  seq/multi/set.go                    `Multi` used as `Set`

Letters and qualities live in one heap of backing arrays `Cells = Heap QL` (Biogo.Go.Slice);
a `[]alphabet.Letter` is a slice of cells whose `Q` is 0 and is never reported (`At` reports
`seq.DefaultQphred` = 40 for it).  Every `[]Letter` / `[]QLetter` value of the Go code is a
`Slice` into that heap, so `Clone`, `AppendColumns`, `Delete`, `Truncate`, `Flush` share or copy
storage exactly as the code does.  The outer slices (`[][]Letter` column headers,
`[]seq.Sequence` row pointers, `[]seq.Annotation`) are values here: in the code as it is after
the fix commits each of them is freshly allocated by every operation that copies a container
(Clone, Subseq, NewSeq), so no two containers ever share one (stated in notes/C05.md).

Loops are mirrored as loops: the two-pointer swap-and-complement loop with its separate
middle element (`twoPtr`), `range` loops as folds in source order.  Core-only.
-/
import Biogo.Go.Slice
import Biogo.Model.Alphabet

namespace Biogo.Containers
open Biogo.Go Biogo.Alphabet

/-- `alphabet.QLetter` -/
structure QL where
  L : UInt8
  Q : UInt8
  deriving DecidableEq, Repr, Inhabited

abbrev Cells := Heap QL

def zeroQL : QL := ⟨0, 0⟩

/-- `seq.DefaultQphred` -/
def defaultQ : UInt8 := 40

/-- what the operations need to know about the sequence's alphabet -/
structure Ctx where
  comp : UInt8 → UInt8          -- `ComplementTable()`
  gap : UInt8
  amb : UInt8
  alpha : Alpha
  grow : Nat → Nat → Nat         -- slice growth policy (any; the driver uses exact fit)

/-- complement the letter, keep the quality -/
def compQL (comp : UInt8 → UInt8) (c : QL) : QL := ⟨comp c.L, c.Q⟩

/-! ### the two-pointer loop (list level and heap level) -/

section twoptr
variable {α : Type}

/-- `l[i], l[j] = f(l[j]), f(l[i])` -/
def swapAt (f : α → α) (l : List α) (i j : Nat) : List α :=
  match l[i]?, l[j]? with
  | some x, some y => (l.set i (f y)).set j (f x)
  | _, _ => l

/-- `l[i] = f(l[i])` -/
def modAt (f : α → α) (l : List α) (i : Nat) : List α :=
  match l[i]? with
  | some x => l.set i (f x)
  | none => l

/-- `i, j := 0, len(l)-1; for ; i < j; i, j = i+1, j-1 { l[i], l[j] = f(l[j]), f(l[i]) };
    if i == j { l[i] = f(l[i]) }`.  The second index is kept as `j1 = j + 1` so that it is a
    natural number also for the empty sequence (`j = -1`); `mid = false` is the loop without
    the trailing `if` (Reverse). -/
def twoPtr (f : α → α) (mid : Bool) : Nat → Nat → Nat → List α → List α
  | 0, _, _, l => l
  | fuel + 1, i, j1, l =>
    if i + 1 < j1 then twoPtr f mid fuel (i + 1) (j1 - 1) (swapAt f l i (j1 - 1))
    else if mid && i + 1 == j1 then modAt f l i
    else l

/-- the same loop on a slice of the heap -/
def hSwapAt (f : α → α) (h : Heap α) (s : Slice) (i j : Nat) : Heap α :=
  match h.get? s i, h.get? s j with
  | some x, some y => (h.set s i (f y)).set s j (f x)
  | _, _ => h

def hModAt (f : α → α) (h : Heap α) (s : Slice) (i : Nat) : Heap α :=
  match h.get? s i with
  | some x => h.set s i (f x)
  | none => h

def hTwoPtr (f : α → α) (mid : Bool) (s : Slice) : Nat → Nat → Nat → Heap α → Heap α
  | 0, _, _, h => h
  | fuel + 1, i, j1, h =>
    if i + 1 < j1 then hTwoPtr f mid s fuel (i + 1) (j1 - 1) (hSwapAt f h s i (j1 - 1))
    else if mid && i + 1 == j1 then hModAt f h s i
    else h

/-- enough iterations for a sequence of length `n` (⌊n/2⌋ swaps and the exit test) -/
def loopFuel (n : Nat) : Nat := n / 2 + 1

end twoptr

/-! ### linear.Seq / linear.QSeq -/

structure Lin where
  q : Bool            -- QSeq?
  name : Nat          -- stands for the ID
  off : Int           -- Annotation.Offset
  strand : Int        -- Annotation.Strand
  s : Slice           -- Seq
  deriving Repr, Inhabited

namespace Lin

def len (l : Lin) : Nat := l.s.len
def start (l : Lin) : Int := l.off
def «end» (l : Lin) : Int := l.off + l.s.len

/-- what `At` reports for a stored cell -/
def shown (q : Bool) (c : QL) : QL := if q then c else ⟨c.L, defaultQ⟩
/-- what `Set`/`Append…` store for a given quality letter -/
def stored (q : Bool) (c : QL) : QL := if q then c else ⟨c.L, 0⟩

/-- `At(i)`; `none` is an index panic -/
def at? (h : Cells) (l : Lin) (i : Int) : Option QL :=
  if i < l.off then none else (h.get? l.s (i - l.off).toNat).map (shown l.q)

/-- all of `At(Start()) … At(End()-1)` -/
def letters (h : Cells) (l : Lin) : List QL := (h.read l.s).map (shown l.q)

/-- `Set(i, ql)` -/
def set (h : Cells) (l : Lin) (i : Int) (c : QL) : Cells :=
  if i < l.off then h else h.set l.s (i - l.off).toNat (stored l.q c)

/-- `RevComp()` -/
def revComp (cx : Ctx) (h : Cells) (l : Lin) : Cells × Lin :=
  (hTwoPtr (compQL cx.comp) true l.s (loopFuel l.s.len) 0 l.s.len h, { l with strand := -l.strand })

/-- `Reverse()` -/
def reverse (h : Cells) (l : Lin) : Cells × Lin :=
  (hTwoPtr id false l.s (loopFuel l.s.len) 0 l.s.len h, { l with strand := 0 })

/-- `Clone()`: `c := *s; c.Seq = append([]T(nil), s.Seq...)` — always a new backing array -/
def clone (cx : Ctx) (h : Cells) (l : Lin) : Cells × Lin :=
  let (h', s') := h.ofList (h.read l.s) (cx.grow 0 l.s.len) zeroQL
  (h', { l with s := s' })

/-- `AppendQLetters(a...)` -/
def appendQL (cx : Ctx) (h : Cells) (l : Lin) (a : List QL) : Cells × Lin :=
  let (h', s') := h.append cx.grow l.s (a.map (stored l.q)) zeroQL
  (h', { l with s := s' })

/-- `sequtils.Truncate(r, r, start, end)` on a linear (non-circular) sequence:
    `none` is the error return, the sequence is then unchanged -/
def truncate (l : Lin) (st en : Int) : Option Lin :=
  if st < l.start || en > l.«end» then none
  else if st ≤ en then
    match l.s.slice (st - l.off).toNat (en - l.off).toNat with
    | some s' => some { l with s := s', off := st }
    | none => none
  else none

end Lin

/-! ### alignment.Seq / alignment.QSeq (column-stored) -/

/-- the fields of a `seq.Annotation` in `SubAnnotations` that are observed -/
structure Ann where
  name : Nat
  off : Int
  strand : Int
  deriving DecidableEq, Repr, Inhabited

structure Aln where
  q : Bool
  strand : Int
  off : Int                 -- Annotation.Offset (the harness keeps it 0)
  cols : List Slice         -- Seq: one slice of `rows` cells per column
  subs : List Ann           -- SubAnnotations
  deriving Repr, Inhabited

/-- `QSeq.Threshold` as set by `NewQSeq` -/
def alnThreshold : UInt8 := 2

namespace Aln

def len (a : Aln) : Nat := a.cols.length
/-- `Rows()` = `len(s.Seq[0])`; `none` is the index panic on an alignment without columns -/
def rows? (a : Aln) : Option Nat := a.cols.head?.map (·.len)
def rows (a : Aln) : Nat := (a.rows?).getD 0
def start (a : Aln) : Int := a.off
def «end» (a : Aln) : Int := a.off + a.cols.length

/-- `Row(r).At(i)` -/
def at? (h : Cells) (a : Aln) (r : Nat) (i : Int) : Option QL :=
  if i < a.off then none else
  match a.cols[(i - a.off).toNat]? with
  | some c => (h.get? c r).map (Lin.shown a.q)
  | none => none

/-- `Row(r).Set(i, ql)` -/
def set (h : Cells) (a : Aln) (r : Nat) (i : Int) (c : QL) : Cells :=
  if i < a.off then h else
  match a.cols[(i - a.off).toNat]? with
  | some col => h.set col r (Lin.stored a.q c)
  | none => h

/-- the letters of row `r` over the alignment's span -/
def rowLetters (h : Cells) (a : Aln) (r : Nat) : List QL :=
  a.cols.map fun c => Lin.shown a.q (h.get c r zeroQL)

/-- `for r := range ci { ci[r], cj[r] = f(cj[r]), f(ci[r]) }` -/
def swapCols (f : QL → QL) (h : Cells) (ci cj : Slice) : Cells :=
  (List.range ci.len).foldl (fun h r =>
    match h.get? ci r, h.get? cj r with
    | some x, some y => (h.set ci r (f y)).set cj r (f x)
    | _, _ => h) h

/-- `for r := range c { c[r] = f(c[r]) }` -/
def mapCol (f : QL → QL) (h : Cells) (c : Slice) : Cells :=
  (List.range c.len).foldl (fun h r => hModAt f h c r) h

/-- the two-pointer loop of `Seq.RevComp` over columns (same index convention as `twoPtr`) -/
def colLoop (f : QL → QL) (cols : List Slice) : Nat → Nat → Nat → Cells → Cells
  | 0, _, _, h => h
  | fuel + 1, i, j1, h =>
    if i + 1 < j1 then
      match cols[i]?, cols[j1 - 1]? with
      | some ci, some cj => colLoop f cols fuel (i + 1) (j1 - 1) (swapCols f h ci cj)
      | _, _ => h
    else if i + 1 == j1 then
      match cols[i]? with
      | some ci => mapCol f h ci
      | none => h
    else h

/-- `RevComp()` -/
def revComp (cx : Ctx) (h : Cells) (a : Aln) : Cells × Aln :=
  (colLoop (compQL cx.comp) a.cols (loopFuel a.cols.length) 0 a.cols.length h,
   { a with strand := -a.strand })

/-- `Reverse()`: swaps the column headers -/
def reverse (a : Aln) : Aln :=
  { a with cols := twoPtr id false (loopFuel a.cols.length) 0 a.cols.length a.cols, strand := 0 }

/-- `rs[i][r], rs[j][r] = f(rs[j][r]), f(rs[i][r])` for one row `r` -/
def rowSwap (f : QL → QL) (h : Cells) (ci cj : Slice) (r : Nat) : Cells :=
  match h.get? ci r, h.get? cj r with
  | some x, some y => (h.set ci r (f y)).set cj r (f x)
  | _, _ => h

def rowLoop (f : QL → QL) (mid : Bool) (cols : List Slice) (r : Nat) : Nat → Nat → Nat → Cells → Cells
  | 0, _, _, h => h
  | fuel + 1, i, j1, h =>
    if i + 1 < j1 then
      match cols[i]?, cols[j1 - 1]? with
      | some ci, some cj => rowLoop f mid cols r fuel (i + 1) (j1 - 1) (rowSwap f h ci cj r)
      | _, _ => h
    else if mid && i + 1 == j1 then
      match cols[i]? with
      | some ci => hModAt f h ci r
      | none => h
    else h

def modSub (subs : List Ann) (r : Nat) (f : Ann → Ann) : List Ann := subs.modify r f

/-- `Row(r).RevComp()` -/
def rowRevComp (cx : Ctx) (h : Cells) (a : Aln) (r : Nat) : Cells × Aln :=
  (rowLoop (compQL cx.comp) true a.cols r (loopFuel a.cols.length) 0 a.cols.length h,
   { a with subs := modSub a.subs r fun s => { s with strand := -s.strand } })

/-- `Row(r).Reverse()` -/
def rowReverse (h : Cells) (a : Aln) (r : Nat) : Cells × Aln :=
  (rowLoop id false a.cols r (loopFuel a.cols.length) 0 a.cols.length h,
   { a with subs := modSub a.subs r fun s => { s with strand := 0 } })

/-- `Clone()`: every column copied into a new array; SubAnnotations copied (fix F6) -/
def clone (cx : Ctx) (h : Cells) (a : Aln) : Cells × Aln :=
  let (h', cols') := a.cols.foldl (fun (acc : Cells × List Slice) c =>
    let (h1, c') := acc.1.ofList (acc.1.read c) (cx.grow 0 c.len) zeroQL
    (h1, acc.2 ++ [c'])) (h, [])
  (h', { a with cols := cols' })

/-- one column of `Delete(i)`: `c[:i+copy(c[i:], c[i+1:])]` -/
def delCol (h : Cells) (c : Slice) (i : Nat) : Cells × Slice :=
  match c.slice i c.len, c.slice (i + 1) c.len with
  | some d, some s =>
    let (h', n) := h.copy d s
    (h', { c with len := i + n })
  | _, _ => (h, c)

/-- `Delete(i)` (the caller establishes `i < Rows()`) -/
def delete (h : Cells) (a : Aln) (i : Nat) : Cells × Aln :=
  let (h', cols') := a.cols.foldl (fun (acc : Cells × List Slice) c =>
    let (h1, c') := delCol acc.1 c i
    (h1, acc.2 ++ [c'])) (h, [])
  (h', { a with cols := cols', subs := a.subs.eraseIdx i })

/-- one appended column of `AppendColumns`: a new array holding the caller's letters
    (`Seq`: `c[i] = r[i].L`; `QSeq` after fix F9: a copy of the caller's column) -/
def newColumn (cx : Ctx) (q : Bool) (h : Cells) (col : List QL) : Cells × Slice :=
  h.ofList (col.map (Lin.stored q)) (cx.grow 0 col.length) zeroQL

/-- `AppendColumns(a...)`; `none` is the error return (a column of the wrong height),
    the alignment is then unchanged.  `rows` is `Rows()`. -/
def appendColumns (cx : Ctx) (h : Cells) (a : Aln) (rows : Nat) (colsIn : List (List QL)) :
    Option (Cells × Aln) :=
  if colsIn.any (fun c => c.length != rows) then none else
  let (h', cols') := colsIn.foldl (fun (acc : Cells × List Slice) c =>
    let (h1, c') := newColumn cx a.q acc.1 c
    (h1, acc.2 ++ [c'])) (h, a.cols)
  some (h', { a with cols := cols' })

/-- the `i`-th scratch column `b` of `AppendEach` -/
def eachColumn (cx : Ctx) (runs : List (List QL)) (i : Nat) : List QL :=
  runs.map fun ss => match ss[i]? with | some c => c | none => ⟨cx.gap, 0⟩

/-- one iteration of the loop of `AppendEach`: the scratch column `b` for position `i` is
    handed to `AppendColumns` -/
def eachStep (cx : Ctx) (rows : Nat) (runs : List (List QL)) (acc : Option (Cells × Aln)) (i : Nat) :
    Option (Cells × Aln) :=
  match acc with
  | some (h1, a1) => appendColumns cx h1 a1 rows [eachColumn cx runs i]
  | none => none

/-- `AppendEach(a)`; `none` is the error return -/
def appendEach (cx : Ctx) (h : Cells) (a : Aln) (rows : Nat) (runs : List (List QL)) :
    Option (Cells × Aln) :=
  if runs.length != rows then none else
  let max := runs.foldl (fun m ss => Nat.max m ss.length) 0
  (List.range max).foldl (eachStep cx rows runs) (some (h, a))

/-- `s.column(n, pos)`: the entries the added sequences contribute at `pos` -/
def addColumn (cx : Ctx) (h : Cells) (q : Bool) (seqs : List Lin) (pos : Int) : List QL :=
  seqs.map fun ss =>
    if ss.start ≤ pos && pos < ss.«end» then Lin.stored q ((ss.at? h pos).getD zeroQL)
    else ⟨cx.gap, 0⟩

/-- `Add(n...)` for linear sequences `n`:
    `for i := s.Start(); i < s.End(); i++ { s.Seq[i] = append(s.Seq[i], s.column(n, i)...) }`
    (the column is indexed by the position itself, as in the code), then the annotations -/
def add (cx : Ctx) (h : Cells) (a : Aln) (seqs : List Lin) : Cells × Aln :=
  let (h', cols') := (List.range a.cols.length).foldl (fun (acc : Cells × List Slice) (k : Nat) =>
    let pos : Int := a.off + (k : Int)
    match acc.2[pos.toNat]? with
    | some c =>
      let (h1, c') := acc.1.append cx.grow c (addColumn cx acc.1 a.q seqs pos) zeroQL
      (h1, acc.2.set pos.toNat c')
    | none => acc) (h, a.cols)
  (h', { a with cols := cols', subs := a.subs ++ seqs.map fun ss => ⟨ss.name, ss.off, ss.strand⟩ })

end Aln

/-! ### multi.Multi (row-stored) and multi.Set -/

structure Multi where
  rows : List Lin
  deriving Repr, Inhabited

def maxInt : Int := 9223372036854775807
def minInt : Int := -9223372036854775808

namespace Multi

def start (m : Multi) : Int := m.rows.foldl (fun s r => if r.start < s then r.start else s) maxInt
def «end» (m : Multi) : Int := m.rows.foldl (fun e r => if r.«end» > e then r.«end» else e) minInt
def nrows (m : Multi) : Nat := m.rows.length
def len (m : Multi) : Int := m.«end» - m.start

/-- `RevComp()` after fix F5: every row reverse-complemented and mirrored about the span
    `start, end := m.Start(), m.End(); for r { r.RevComp(); r.SetOffset(start + end - r.End()) }` -/
def revComp (cx : Ctx) (h : Cells) (m : Multi) : Cells × Multi :=
  let st := m.start
  let en := m.«end»
  let (h', rows') := m.rows.foldl (fun (acc : Cells × List Lin) r =>
    let (h1, r1) := r.revComp cx acc.1
    (h1, acc.2 ++ [{ r1 with off := st + en - r1.«end» }])) (h, [])
  (h', { m with rows := rows' })

/-- `Reverse()` after fix F5 -/
def reverse (h : Cells) (m : Multi) : Cells × Multi :=
  let st := m.start
  let en := m.«end»
  let (h', rows') := m.rows.foldl (fun (acc : Cells × List Lin) r =>
    let (h1, r1) := r.reverse acc.1
    (h1, acc.2 ++ [{ r1 with off := st + en - r1.«end» }])) (h, [])
  (h', { m with rows := rows' })

/-- `Set.RevComp()` / `Set.Reverse()`: rows only, no offsets -/
def setRevComp (cx : Ctx) (h : Cells) (m : Multi) : Cells × Multi :=
  let (h', rows') := m.rows.foldl (fun (acc : Cells × List Lin) r =>
    let (h1, r1) := r.revComp cx acc.1
    (h1, acc.2 ++ [r1])) (h, [])
  (h', { m with rows := rows' })

def setReverse (h : Cells) (m : Multi) : Cells × Multi :=
  let (h', rows') := m.rows.foldl (fun (acc : Cells × List Lin) r =>
    let (h1, r1) := r.reverse acc.1
    (h1, acc.2 ++ [r1])) (h, [])
  (h', { m with rows := rows' })

/-- `Clone()`: every row cloned -/
def clone (cx : Ctx) (h : Cells) (m : Multi) : Cells × Multi :=
  let (h', rows') := m.rows.foldl (fun (acc : Cells × List Lin) r =>
    let (h1, r1) := r.clone cx acc.1
    (h1, acc.2 ++ [r1])) (h, [])
  (h', { m with rows := rows' })

/-- apply a heap-and-row transformer to row `i` -/
def onRow (h : Cells) (m : Multi) (i : Nat) (f : Cells → Lin → Cells × Lin) : Cells × Multi :=
  match m.rows[i]? with
  | some r => let (h', r') := f h r; (h', { m with rows := m.rows.set i r' })
  | none => (h, m)

/-- `Delete(i)` -/
def delete (m : Multi) (i : Nat) : Multi := { m with rows := m.rows.eraseIdx i }

/-- `AppendColumns(a...)`: row `i` receives `a[0][i], a[1][i], …`; `none` = error return -/
def appendColumns (cx : Ctx) (h : Cells) (m : Multi) (colsIn : List (List QL)) : Option (Cells × Multi) :=
  if colsIn.any (fun c => c.length != m.nrows) then none else
  let (h', rows', _) := m.rows.foldl (fun (acc : Cells × List Lin × Nat) r =>
    let b := colsIn.map fun c => c.getD acc.2.2 zeroQL
    let (h1, r1) := r.appendQL cx acc.1 b
    (h1, acc.2.1 ++ [r1], acc.2.2 + 1)) (h, [], 0)
  some (h', { m with rows := rows' })

/-- `AppendEach(a)`: row `i` receives `a[i]`; `none` = error return -/
def appendEach (cx : Ctx) (h : Cells) (m : Multi) (runs : List (List QL)) : Option (Cells × Multi) :=
  if runs.length != m.nrows then none else
  let (h', rows', _) := m.rows.foldl (fun (acc : Cells × List Lin × Nat) r =>
    let (h1, r1) := r.appendQL cx acc.1 (runs.getD acc.2.2 [])
    (h1, acc.2.1 ++ [r1], acc.2.2 + 1)) (h, [], 0)
  some (h', { m with rows := rows' })

def covers (r : Lin) (pos : Int) : Bool := r.start ≤ pos && pos < r.«end»

/-- `ColumnQL(pos, fill)` (the caller establishes `Start() ≤ pos < End()`) -/
def columnQL (cx : Ctx) (h : Cells) (m : Multi) (pos : Int) (fill : Bool) : List QL :=
  m.rows.foldl (fun c r =>
    if covers r pos then c ++ [(r.at? h pos).getD zeroQL]
    else if fill then c ++ [⟨cx.gap, 0⟩] else c) []

/-- `Column(pos, fill)` -/
def column (cx : Ctx) (h : Cells) (m : Multi) (pos : Int) (fill : Bool) : List UInt8 :=
  m.rows.foldl (fun c r =>
    if covers r pos then c ++ [((r.at? h pos).getD zeroQL).L]
    else if fill then c ++ [cx.gap] else c) []

/-- `IsFlush(where)`: bit 0 = seq.Start, bit 1 = seq.End -/
def isFlush (m : Multi) (wh : Nat) : Bool :=
  if m.nrows ≤ 1 then true else
  match m.rows with
  | [] => true
  | r0 :: rest =>
    rest.all fun r => !((r.start != r0.start && wh % 2 == 1) || (r.«end» != r0.«end» && (wh / 2) % 2 == 1))

/-- `for _, r := range rows { g(r) }` with the heap threaded through -/
def foldRows (g : Cells → Lin → Cells × Lin) (rows : List Lin) (h : Cells) : Cells × List Lin :=
  rows.foldl (fun (acc : Cells × List Lin) r => ((g acc.1 r).1, acc.2 ++ [(g acc.1 r).2])) (h, [])

/-- one row of the `seq.Start` pass of `Flush`:
    `if r.Start()-start < 1 { continue }; r.SetSlice(append(fill.Repeat(n), sl...)); r.SetOffset(start)`
    (`Repeat`'s array is exactly full, so the append allocates) -/
def flushStartStep (cx : Ctx) (st : Int) (fill : UInt8) (h : Cells) (r : Lin) : Cells × Lin :=
  if r.start - st < 1 then (h, r) else
  ((h.ofList (List.replicate (r.start - st).toNat ⟨fill, 0⟩ ++ h.read r.s)
      (cx.grow (r.start - st).toNat ((r.start - st).toNat + r.s.len)) zeroQL).1,
   { r with s := (h.ofList (List.replicate (r.start - st).toNat ⟨fill, 0⟩ ++ h.read r.s)
                    (cx.grow (r.start - st).toNat ((r.start - st).toNat + r.s.len)) zeroQL).2,
            off := st })

/-- one row of the `seq.End` pass:
    `if end-r.End() < 1 { continue }; r.AppendQLetters(QLetter{L: fill}.Repeat(end - r.End())...)` -/
def flushEndStep (cx : Ctx) (en : Int) (fill : UInt8) (h : Cells) (r : Lin) : Cells × Lin :=
  if en - r.«end» < 1 then (h, r) else r.appendQL cx h (List.replicate (en - r.«end»).toNat ⟨fill, 0⟩)

/-- `Flush(where, fill)` -/
def flush (cx : Ctx) (h : Cells) (m : Multi) (wh : Nat) (fill : UInt8) : Cells × Multi :=
  if m.isFlush wh then (h, m) else
  let p1 := if wh % 2 == 1 then foldRows (flushStartStep cx m.start fill) m.rows h else (h, m.rows)
  let en := ({ m with rows := p1.2 } : Multi).«end»
  let p2 := if (wh / 2) % 2 == 1 then foldRows (flushEndStep cx en fill) p1.2 p1.1 else p1
  (p2.1, { m with rows := p2.2 })

/-- one row of `Truncate`: after an error nothing more is done -/
def truncStep (st en : Int) (acc : List Lin × Bool) (r : Lin) : List Lin × Bool :=
  if !acc.2 then (acc.1 ++ [r], false) else
  match r.truncate st en with
  | some r' => (acc.1 ++ [r'], true)
  | none => (acc.1 ++ [r], false)

/-- `Truncate(start, end)`: rows are truncated in order; at the first row that does not
    cover the range the error is returned and the rows before it stay truncated
    (`false` = error return) -/
def truncate (m : Multi) (st en : Int) : Multi × Bool :=
  let res := m.rows.foldl (truncStep st en) ([], true)
  ({ m with rows := res.1 }, res.2)

/-- one row of `Subseq`: clone, truncate the clone in place -/
def subseqStep (cx : Ctx) (st en : Int) (acc : Cells × List Lin × Bool) (r : Lin) : Cells × List Lin × Bool :=
  if !acc.2.2 then acc else
  match ((r.clone cx acc.1).2).truncate st en with
  | some c' => ((r.clone cx acc.1).1, acc.2.1 ++ [c'], true)
  | none => ((r.clone cx acc.1).1, acc.2.1, false)

/-- `Subseq(start, end)` after fix F10: every row cloned, the clone truncated in place;
    `none` = error return (nothing is retained) -/
def subseq (cx : Ctx) (h : Cells) (m : Multi) (st en : Int) : Cells × Option Multi :=
  let res := m.rows.foldl (subseqStep cx st en) (h, [], true)
  (res.1, if res.2.2 then some { m with rows := res.2.1 } else none)

/-- `Add(n...)` (same alphabet) -/
def add (m : Multi) (seqs : List Lin) : Multi := { m with rows := m.rows ++ seqs }

end Multi

/-! ### consensus (seq.DefaultConsensus; letters only) -/

/-- `w[alpha.IndexOf(l)]++` for the valid letters of the column, then the first maximum -/
def consensusLetter (a : Alpha) (col : List UInt8) : UInt8 :=
  let w := col.foldl (fun (w : List Nat) l =>
    if a.valid l then w.modify (a.index l).toNat (· + 1) else w) (List.replicate a.length 0)
  let (_, maxi, _) := w.foldl (fun (acc : Nat × Nat × Nat) v =>
    if v > acc.1 then (v, acc.2.2, acc.2.2 + 1) else (acc.1, acc.2.1, acc.2.2 + 1)) (0, 0, 0)
  (a.letter maxi).getD 0

/-- `alignment.Seq.Column(pos)` / `alignment.QSeq.Column(pos)` (quality filter) by column index -/
def Aln.column (cx : Ctx) (h : Cells) (a : Aln) (i : Nat) : List UInt8 :=
  match a.cols[i]? with
  | some c => (h.read c).map fun x => if a.q then (if x.Q ≥ alnThreshold then x.L else cx.amb) else x.L
  | none => []

/-- `ColumnQL(pos)` by column index -/
def Aln.columnQL (h : Cells) (a : Aln) (i : Nat) : List QL :=
  match a.cols[i]? with
  | some c => (h.read c).map (Lin.shown a.q)
  | none => []

end Biogo.Containers
