/-
Model of /repo/feat/gene/gene.go: `Exons.Add`, `buildExonsFor`, `SetExons`, `Exons.Introns`,
`CodingTranscript.UTR5/CDS/UTR3`, `Gene.SetFeatures`.  Core-only.

`Exons.Add` is about *storage*: whether a rejected call can be seen through the receiver
depends on the receiver's spare capacity.  So the model is state passing over an explicit heap
of backing arrays.  A Go slice value is `(array, offset, length)`; its capacity is the
array's length minus the offset.  `make`, `copy`, `append` (in place iff the result fits the
capacity, otherwise a new array whose size is chosen by a growth policy `grow` — a parameter,
the theorems hold for every policy) and `sort.Sort` (a parameter too: any function returning a
permutation sorted by `Start`; the driver instantiates it with the stable insertion sort
that `sort.Sort` runs on up to 12 elements) are the primitives; `add` is written with them line
by line, and returns the heap afterwards together with the result.

`addPinned` is `Exons.Add` as it was on the pinned tree (append first, sort in place, check
afterwards); it is kept for the refutation witness of defect F20 only.
-/
import Biogo.Model.Feat

namespace Biogo.Gene
open Biogo.Feat (Panic Node Chain)

/-- `gene.Exon`.  `loc` is the identity of the `Transcript` field (0 = nil interface),
    `tag` stands for `Desc` and makes individual exons distinguishable. -/
structure Exon where
  loc : Nat
  start : Int     -- Offset / Start()
  len : Int       -- Length / Len()
  tag : Nat
  deriving DecidableEq, Repr

/-- `End()` -/
def Exon.stop (e : Exon) : Int := e.start + e.len

/-- the zero value `Exon{}` -/
def zeroExon : Exon := ⟨0, 0, 0, 0⟩

inductive Err
  | overlap         -- "exons overlap"
  | locDiffer       -- "exons location differ"
  | newLocDiffer    -- "new exons locations differ from old ones"
  | notTranscript   -- "exon location is not the transcript"
  | noZeroStart     -- "no exon with a zero start"
  | featLoc         -- "transcript location does not match the gene"
  | noZeroFeat      -- "no transcript with 0 start on gene"
  deriving DecidableEq, Repr

def Err.code : Err → String
  | .overlap => "overlap" | .locDiffer => "locdiffer" | .newLocDiffer => "newlocdiffer"
  | .notTranscript => "nottranscript" | .noZeroStart => "nozerostart"
  | .featLoc => "featloc" | .noZeroFeat => "nozerofeat"

/-! ### Go slices over a heap of backing arrays -/

structure Slice where
  arr : Nat
  off : Nat
  len : Nat
  deriving DecidableEq, Repr

abbrev Heap := List (List Exon)

/-- By convention array 0 of the heaps the driver builds is the empty array, and the nil
    slice points at it (length 0, capacity 0). -/
def Heap.init : Heap := [[]]
def Slice.nil : Slice := ⟨0, 0, 0⟩

def Heap.arr (h : Heap) (a : Nat) : List Exon := h.getD a []

/-- the cells of the backing array from the slice's offset to its capacity: `s[:cap(s)]` -/
def cells (h : Heap) (s : Slice) : List Exon := (h.arr s.arr).drop s.off

/-- the elements of the slice: `s[:len(s)]` -/
def read (h : Heap) (s : Slice) : List Exon := (cells h s).take s.len

def cap (h : Heap) (s : Slice) : Nat := (cells h s).length

/-- overwrite cells `i ..< i + xs.length` of array `a` -/
def writeAt (h : Heap) (a i : Nat) (xs : List Exon) : Heap :=
  h.set a ((h.arr a).take i ++ xs ++ (h.arr a).drop (i + xs.length))

/-- `make(Exons, len, cap)` -/
def goMake (h : Heap) (len cap : Nat) : Heap × Slice :=
  (h ++ [List.replicate cap zeroExon], ⟨h.length, 0, len⟩)

/-- `copy(dst, src)` -/
def goCopy (h : Heap) (dst src : Slice) : Heap :=
  writeAt h dst.arr dst.off ((read h src).take dst.len)

/-- `append(s, xs...)`: in place iff it fits the capacity, else a new array of capacity
    `grow (cap s) (len s + len xs)` (at least the needed length). -/
def goAppend (grow : Nat → Nat → Nat) (h : Heap) (s : Slice) (xs : List Exon) : Heap × Slice :=
  if s.len + xs.length ≤ cap h s then
    (writeAt h s.arr (s.off + s.len) xs, { s with len := s.len + xs.length })
  else
    let need := s.len + xs.length
    (h ++ [read h s ++ xs ++ List.replicate (grow (cap h s) need - need) zeroExon],
     ⟨h.length, 0, need⟩)

/-- `sort.Sort(s)`: the elements of `s` are permuted in place -/
def goSort (sort : List Exon → List Exon) (h : Heap) (s : Slice) : Heap :=
  writeAt h s.arr s.off (sort (read h s))

/-- exact-fit growth, used by the driver -/
def exactGrow (_ need : Nat) : Nat := need

/-- stable insertion by `Start` (what `sort.Sort` does on at most 12 elements) -/
def insertByStart (e : Exon) : List Exon → List Exon
  | [] => [e]
  | x :: xs => if e.start ≤ x.start then e :: x :: xs else x :: insertByStart e xs

def sortByStart : List Exon → List Exon
  | [] => []
  | e :: l => insertByStart e (sortByStart l)

/-! ### Exons.Add -/

/-- the body of `for i, e := range newSlice` for `i ≥ 1`, `p` being `newSlice[i-1]` -/
def checkAdj : Exon → List Exon → Option Err
  | _, [] => none
  | p, e :: rest =>
    if e.start < p.stop then some .overlap
    else if e.loc ≠ p.loc then some .locDiffer
    else checkAdj e rest

def checkSorted : List Exon → Option Err
  | [] => none
  | e :: rest => checkAdj e rest

/-- `Exons.Location()` (0 = nil) -/
def locOf : List Exon → Nat
  | [] => 0
  | e :: _ => e.loc

/-- `Exons.Start()` -/
def startOf : List Exon → Int
  | [] => 0
  | e :: _ => e.start

/-- `Exons.End()` -/
def endOf : List Exon → Int
  | [] => 0
  | [e] => e.stop
  | _ :: e :: rest => endOf (e :: rest)

/-- the checks of `Add` after sorting; `s` is the receiver, `ns` the new slice -/
def addChecks (h : Heap) (s ns : Slice) : Heap × Slice × Option Err :=
  match checkSorted (read h ns) with
  | some e => (h, s, some e)
  | none =>
    if locOf (read h s) ≠ 0 ∧ locOf (read h s) ≠ locOf (read h ns) then (h, s, some .newLocDiffer)
    else (h, ns, none)

/-- `func (s Exons) Add(exons ...Exon) (Exons, error)` as it is after fix F20:
    ```
    newSlice := make(Exons, len(s), len(s)+len(exons))
    copy(newSlice, s)
    newSlice = append(newSlice, exons...)
    sort.Sort(newSlice)
    … checks …
    ```
    Returns the heap afterwards, the returned slice and the error. -/
def addWith (grow : Nat → Nat → Nat) (sort : List Exon → List Exon)
    (h : Heap) (s : Slice) (xs : List Exon) : Heap × Slice × Option Err :=
  let (h1, ns) := goMake h s.len (s.len + xs.length)
  let h2 := goCopy h1 ns s
  let (h3, ns) := goAppend grow h2 ns xs
  let h4 := goSort sort h3 ns
  addChecks h4 s ns

def add (h : Heap) (s : Slice) (xs : List Exon) : Heap × Slice × Option Err :=
  addWith exactGrow sortByStart h s xs

/-- `Exons.Add` on the pinned tree (`699d15a`): `newSlice := append(s, exons...)`, then sort in
    place.  Only used for the refutation witness of F20. -/
def addPinnedWith (grow : Nat → Nat → Nat) (sort : List Exon → List Exon)
    (h : Heap) (s : Slice) (xs : List Exon) : Heap × Slice × Option Err :=
  let (h1, ns) := goAppend grow h s xs
  let h2 := goSort sort h1 ns
  addChecks h2 s ns

/-! ### buildExonsFor / SetExons -/

/-- `buildExonsFor(t, exons...)`; `tid` is the identity of `t` (non-zero). -/
def buildExonsForWith (grow : Nat → Nat → Nat) (sort : List Exon → List Exon)
    (h : Heap) (tid : Nat) (xs : List Exon) : Heap × Slice × Option Err :=
  match addWith grow sort h Slice.nil xs with
  | (h1, ns, some e) => (h1, ns, some e)
  | (h1, ns, none) =>
    if locOf (read h1 ns) ≠ tid then (h1, ns, some .notTranscript)
    else if startOf (read h1 ns) ≠ 0 then (h1, ns, some .noZeroStart)
    else (h1, ns, none)

/-- the part of a transcript that `SetExons` touches -/
structure Tx where
  id : Nat
  exons : Slice
  deriving DecidableEq, Repr

/-- `(*CodingTranscript).SetExons` / `(*NonCodingTranscript).SetExons` -/
def setExonsWith (grow : Nat → Nat → Nat) (sort : List Exon → List Exon)
    (h : Heap) (t : Tx) (xs : List Exon) : Heap × Tx × Option Err :=
  match buildExonsForWith grow sort h t.id xs with
  | (h1, _, some e) => (h1, t, some e)
  | (h1, ns, none) => (h1, { t with exons := ns }, none)

def setExons (h : Heap) (t : Tx) (xs : List Exon) : Heap × Tx × Option Err :=
  setExonsWith exactGrow sortByStart h t xs

/-! ### histories (what the `xs` and `tx` cases of the harness run) -/

/-- one step of a history on a bare `Exons` variable `s` -/
inductive XsOp
  | add (xs : List Exon) (keep : Bool)   -- `r, err := s.Add(xs...)`, then `s = r` if `keep`
  | upTo (j : Nat)                       -- `s = s[:min(j, cap(s))]`
  | drop (j : Nat)                       -- `s = s[min(j, len(s)):]`

def xsApply (st : Heap × Slice) : XsOp → Heap × Slice
  | .add xs keep =>
    match add st.1 st.2 xs with
    | (h', r, _) => (h', if keep then r else st.2)
  | .upTo j => (st.1, { st.2 with len := min j (cap st.1 st.2) })
  | .drop j => (st.1, { st.2 with off := st.2.off + min j st.2.len, len := st.2.len - min j st.2.len })

/-- `s := make(Exons, n, len(cells0)); copy(s[:cap(s)], cells0)` in the initial heap -/
def xsInit (n : Nat) (cells0 : List Exon) : Heap × Slice := (Heap.init ++ [cells0], ⟨1, 0, n⟩)

def xsRun (st : Heap × Slice) (ops : List XsOp) : Heap × Slice := ops.foldl xsApply st

/-- histories with a second variable `held`: besides the steps on `s`, `held = s` — the idiom
    `held := s; s = s[:0]; s, err = s.Add(…)`, where the receiver is empty and its spare capacity
    is the array `held` still reads -/
inductive XhOp
  | op (o : XsOp)     -- a step on `s`
  | hold              -- `held = s`

/-- state: (heap, `s`) and `held` -/
def xhApply (st : (Heap × Slice) × Slice) : XhOp → (Heap × Slice) × Slice
  | .op o => (xsApply st.1 o, st.2)
  | .hold => (st.1, st.1.2)

/-- `var held Exons` (nil) next to `s` as in `xsInit` -/
def xhInit (n : Nat) (cells0 : List Exon) : (Heap × Slice) × Slice := (xsInit n cells0, Slice.nil)

def xhRun (st : (Heap × Slice) × Slice) (ops : List XhOp) : (Heap × Slice) × Slice := ops.foldl xhApply st

/-- one step of a history on a transcript `t` -/
inductive TxOp
  | set (xs : List Exon)       -- `err := t.SetExons(xs...)`
  | addDrop (xs : List Exon)   -- `_, err := t.Exons().Add(xs...)`
  | addSet (xs : List Exon)    -- `r, err := t.Exons().Add(xs...); if err == nil { err = t.SetExons(r...) }`
  | resliceAdd (j : Nat) (xs : List Exon)
                               -- `ex := t.Exons(); _, err := ex[:min(j, cap(ex))].Add(xs...)`; `j = 0` is the
                               -- reset idiom `t.Exons()[:0].Add(…)`: an empty receiver whose spare capacity
                               -- is the transcript's live exon array

/-- `s[:min(j, cap(s))]` -/
def resliceTo (h : Heap) (s : Slice) (j : Nat) : Slice := { s with len := min j (cap h s) }

def txApply (st : Heap × Tx) : TxOp → (Heap × Tx) × Option Err
  | .set xs =>
    match setExons st.1 st.2 xs with
    | (h', t', e) => ((h', t'), e)
  | .addDrop xs =>
    match add st.1 st.2.exons xs with
    | (h', _, e) => ((h', st.2), e)
  | .addSet xs =>
    match add st.1 st.2.exons xs with
    | (h', _, some e) => ((h', st.2), some e)
    | (h', r, none) =>
      match setExons h' st.2 (read h' r) with
      | (h'', t', e) => ((h'', t'), e)
  | .resliceAdd j xs =>
    match add st.1 (resliceTo st.1 st.2.exons j) xs with
    | (h', _, e) => ((h', st.2), e)

def txInit (id : Nat) : Heap × Tx := (Heap.init, { id := id, exons := Slice.nil })

def txRun (st : Heap × Tx) (ops : List TxOp) : Heap × Tx := ops.foldl (fun st op => (txApply st op).1) st

/-! ### Introns -/

structure Intron where
  loc : Nat
  start : Int
  len : Int
  deriving DecidableEq, Repr

def Intron.stop (i : Intron) : Int := i.start + i.len

/-- `Exons.Introns()` -/
def introns : List Exon → List Intron
  | [] => []
  | [_] => []
  | a :: b :: rest => ⟨b.loc, a.stop, b.start - a.stop⟩ :: introns (b :: rest)

/-! ### UTR5 / CDS / UTR3 of a coding transcript -/

structure Coding where
  node : Node        -- the transcript as a feature: identity, Offset, Orient
  loc : Chain        -- t.Loc and its locations
  cdsStart : Int
  cdsEnd : Int
  len : Int          -- t.Len() = t.exons.End()

/-- a `TranscriptFeature` as (Offset, Length) -/
abbrev TF := Int × Int
def TF.start (f : TF) : Int := f.1
def TF.stop (f : TF) : Int := f.1 + f.2

def utr5 (t : Coding) : Except Panic TF :=
  match Biogo.Feat.baseOrientationOf (t.node :: t.loc) with
  | .error p => .error p
  | .ok (o, _) =>
    if o = 1 then .ok (0, t.cdsStart)
    else if o = -1 then .ok (t.cdsEnd, t.len - t.cdsEnd)
    else .error .badOrient

def cds (t : Coding) : TF := (t.cdsStart, t.cdsEnd - t.cdsStart)

def utr3 (t : Coding) : Except Panic TF :=
  match Biogo.Feat.baseOrientationOf (t.node :: t.loc) with
  | .error p => .error p
  | .ok (o, _) =>
    if o = 1 then .ok (t.cdsEnd, t.len - t.cdsEnd)
    else if o = -1 then .ok (0, t.cdsStart)
    else .error .badOrient

/-! ### histories of a coding transcript *and* its location chain

Between two operations on the transcript a caller may change the orientation (or the start) of the
transcript itself or of any feature above it (`g.Orient = feat.Reverse`, a contig's orientation …).
`UTR5` / `UTR3` call `feat.BaseOrientationOf(t)` on every query, so the model keeps no orientation:
the state carries the chain as it is now and the queries are computed from it. -/

/-- heap, transcript, and the chain as it is now: the transcript as a feature (`node`: identity,
    `Offset`, `Orient`) and `t.Loc` with its locations (`loc`) -/
structure TcState where
  h : Heap
  t : Tx
  node : Node
  loc : Chain

/-- one step: an operation on the exon set, or an assignment to a feature of the chain
    (`k = 0`: the transcript, `k ≥ 1`: the `k`-th location above it) -/
inductive TcOp
  | tx (op : TxOp)
  | chain (op : Biogo.Feat.ChainOp)

def tcApply (st : TcState) : TcOp → TcState × Option Err
  | .tx op =>
    match txApply (st.h, st.t) op with
    | ((h', t'), e) => ({ st with h := h', t := t' }, e)
  | .chain op =>
    let c := Biogo.Feat.chainApply (st.node :: st.loc) op
    ({ st with node := c.headD st.node, loc := c.tail }, none)

def tcInit (id : Nat) (node : Node) (loc : Chain) : TcState :=
  { h := (txInit id).1, t := (txInit id).2, node, loc }

def tcRun (st : TcState) (ops : List TcOp) : TcState := ops.foldl (fun st op => (tcApply st op).1) st

/-- the coding transcript as `UTR5` / `CDS` / `UTR3` see it in this state -/
def TcState.coding (st : TcState) (cdsStart cdsEnd : Int) : Coding :=
  { node := st.node, loc := st.loc, cdsStart, cdsEnd, len := endOf (read st.h st.t.exons) }

/-- what the three queries answer in this state -/
def layout (st : TcState) (cdsStart cdsEnd : Int) : Except Panic TF × TF × Except Panic TF :=
  (utr5 (st.coding cdsStart cdsEnd), cds (st.coding cdsStart cdsEnd), utr3 (st.coding cdsStart cdsEnd))

/-! ### the memoised base orientation of seeded change C20-m5 (kept for the refutation witness only)

The seeded change gives `CodingTranscript` a field that remembers the base orientation together with
the `Loc` and `Orient` it was computed for; `UTR5` / `UTR3` call `baseOrientation()`, which walks the
chain again only if nothing is remembered or `t.Loc` / `t.Orient` are not the remembered ones. -/

structure OriMemo where
  loc : Option Nat     -- identity of the remembered `t.Loc` (`none`: nil)
  orient : Int         -- the remembered `t.Orient`
  ori : Int            -- the remembered base orientation (0: nothing remembered)
  deriving DecidableEq, Repr

def OriMemo.empty : OriMemo := ⟨none, 0, 0⟩

def memoBaseOrientation (m : OriMemo) (node : Node) (loc : Chain) : OriMemo × Except Panic Int :=
  if m.ori = 0 ∨ m.loc ≠ Biogo.Feat.headId loc ∨ m.orient ≠ node.ori then
    match Biogo.Feat.baseOrientationOf (node :: loc) with
    | .ok (o, _) => (⟨Biogo.Feat.headId loc, node.ori, o⟩, .ok o)
    | .error p => (m, .error p)
  else (m, .ok m.ori)

/-- `UTR5` with the memoised orientation: the memo afterwards and the answer -/
def utr5Memo (m : OriMemo) (t : Coding) : OriMemo × Except Panic TF :=
  match memoBaseOrientation m t.node t.loc with
  | (m', .error p) => (m', .error p)
  | (m', .ok o) =>
    if o = 1 then (m', .ok (0, t.cdsStart))
    else if o = -1 then (m', .ok (t.cdsEnd, t.len - t.cdsEnd))
    else (m', .error .badOrient)

/-! ### Gene.SetFeatures -/

structure FeatIv where
  loc : Nat
  start : Int
  stop : Int
  tag : Nat
  deriving DecidableEq, Repr

structure GeneSt where
  length : Int
  feats : List FeatIv
  deriving DecidableEq, Repr

def maxInt : Int := 9223372036854775807

/-- the loop of `SetFeatures`: (pos, end) after the features, or the location error -/
def scanFeats (gid : Nat) : List FeatIv → Int → Int → Except Err (Int × Int)
  | [], pos, e => .ok (pos, e)
  | f :: fs, pos, e =>
    if f.loc ≠ gid then .error .featLoc
    else scanFeats gid fs (if f.start < pos then f.start else pos) (if f.stop > e then f.stop else e)

def setFeatures (gid : Nat) (g : GeneSt) (feats : List FeatIv) : GeneSt × Option Err :=
  match scanFeats gid feats maxInt 0 with
  | .error e => (g, some e)
  | .ok (pos, e) =>
    if pos ≠ 0 then (g, some .noZeroFeat)
    else ({ length := e - pos, feats := feats }, none)

end Biogo.Gene
