/-
Model of /repo/alphabet/alphabet.go: newAlphabet, NewPairing, NewComplementor and the
accessor methods.  Tables `[256]bool`, `[256]int`, `[256]Letter` are modelled as total
functions on `UInt8`; the fill loops are folds in source order (so "last write wins" is
modelled, not assumed away).  Core-only.
-/
namespace Biogo.Alphabet

abbrev Letter := UInt8

/-- `strings.ToLower` restricted to one ASCII byte. -/
def toLower (b : UInt8) : UInt8 := if 65 ≤ b ∧ b ≤ 90 then b + 32 else b
/-- `strings.ToUpper` restricted to one ASCII byte. -/
def toUpper (b : UInt8) : UInt8 := if 97 ≤ b ∧ b ≤ 122 then b - 32 else b

def set {β} (f : UInt8 → β) (k : UInt8) (v : β) : UInt8 → β :=
  fun x => if x = k then v else f x

structure Alpha where
  letters : List UInt8        -- field `letters` (both cases when not case sensitive)
  length : Nat                -- field `length` = len(definition)
  valid : UInt8 → Bool
  index : UInt8 → Int
  gap : UInt8
  ambiguous : UInt8
  cased : Bool

structure Tabs where
  valid : UInt8 → Bool
  index : UInt8 → Int

/-- `for i, l := range ls { valid[l] = true; index[l] = i }` starting at position `i`. -/
def fillDirect : List UInt8 → Nat → Tabs → Tabs
  | [], _, t => t
  | l :: ls, i, t => fillDirect ls (i + 1) { valid := set t.valid l true, index := set t.index l i }

/-- `for i, l := range upper { valid[l] = true; index[l] = index[lower[i]] }`
    (reads the table as it currently is). -/
def fillUpper : List UInt8 → List UInt8 → Tabs → Tabs
  | u :: us, lo :: los, t =>
      fillUpper us los { valid := set t.valid u true, index := set t.index u (t.index lo) }
  | _, _, t => t

def emptyTabs : Tabs := { valid := fun _ => false, index := fun _ => -1 }

inductive Err
  | nonASCII | lengthMismatch | pairNonASCII | notBijection | invalidPairing
  deriving DecidableEq, Repr

def Err.code : Err → String
  | .nonASCII => "nonascii" | .lengthMismatch => "lenmismatch" | .pairNonASCII => "pairnonascii"
  | .notBijection => "notbijection" | .invalidPairing => "invalidpairing"

def newAlphabet (letters : List UInt8) (gap ambiguous : UInt8) (cased : Bool) : Except Err Alpha :=
  if letters.any (fun b => b ≥ 128) then .error .nonASCII
  else if cased then
    let t := fillDirect letters 0 emptyTabs
    .ok { letters := letters, length := letters.length, valid := t.valid, index := t.index,
          gap, ambiguous, cased }
  else
    let lo := letters.map toLower
    let up := letters.map toUpper
    let t := fillUpper up lo (fillDirect lo 0 emptyTabs)
    .ok { letters := lo ++ up, length := letters.length, valid := t.valid, index := t.index,
          gap, ambiguous, cased }

/-- membership of a letter in a definition — in either case for case-insensitive alphabets
    ("a letter is valid exactly when it appears in the definition") -/
def inDefinition (cased : Bool) (letters : List UInt8) (l : UInt8) : Bool :=
  if cased then letters.contains l else letters.any fun x => toLower x == toLower l

def Alpha.isValid (a : Alpha) (l : Letter) : Bool := a.valid l
def Alpha.indexOf (a : Alpha) (l : Letter) : Int := a.index l
/-- `Letter(i)`: `a.letters[:a.length][i]`, which panics out of range (→ `none`). -/
def Alpha.letter (a : Alpha) (i : Nat) : Option Letter :=
  if i < a.length then a.letters[i]? else none

/-- `AllValid`: `(true, -1)` or `(false, first invalid position)`. -/
def Alpha.allValidFrom (a : Alpha) : List Letter → Nat → Bool × Int
  | [], _ => (true, -1)
  | l :: ls, i => if a.valid l then a.allValidFrom ls (i + 1) else (false, i)

def Alpha.allValid (a : Alpha) (ls : List Letter) : Bool × Int := a.allValidFrom ls 0

structure Pairing where
  pair : UInt8 → UInt8
  ok : UInt8 → Bool
  complements : UInt8 → UInt8

structure PTabs where
  pair : UInt8 → UInt8
  ok : UInt8 → Bool

def fillPairs : List UInt8 → List UInt8 → PTabs → PTabs
  | v :: s, c :: cs, t => fillPairs s cs { pair := set t.pair v c, ok := set t.ok v true }
  | _, _, t => t

def checkBijection (pair : UInt8 → UInt8) : List UInt8 → List UInt8 → Bool
  | l :: s, c :: cs =>
      (l == pair (pair l)) && (c == pair (pair c)) && checkBijection pair s cs
  | _, _ => true

/-- the tables before the fill loop: `pair[i] = i`, `ok[i] = false` -/
def initPairs : PTabs := { pair := fun b => b, ok := fun _ => false }

def newPairing (s c : List UInt8) : Except Err Pairing :=
  if s.length ≠ c.length then .error .lengthMismatch
  else if s.any (· ≥ 128) || c.any (· ≥ 128) then .error .pairNonASCII
  else
    let t := fillPairs s c initPairs
    if checkBijection t.pair s c then
      .ok { pair := t.pair, ok := t.ok,
            complements := fun b => if t.ok b then t.pair b else t.pair b ||| 128 }
    else .error .notBijection

def Pairing.complement (p : Pairing) (l : Letter) : Letter × Bool := (p.pair l, p.ok l)

structure Nucleic where
  alpha : Alpha
  pairing : Pairing

def allBytes : List UInt8 := (List.range 256).map UInt8.ofNat

/-- the acceptance test of `NewComplementor` for one table entry -/
def pairAcceptable (a : Alpha) (p : Pairing) (i : UInt8) : Bool :=
  let v := p.pair i
  !( !(p.ok i || (i &&& 127) == (v &&& 127)) && !(a.valid i && a.valid v) )

def newComplementor (letters : List UInt8) (p : Pairing) (gap ambiguous : UInt8) (cased : Bool) :
    Except Err Nucleic :=
  match newAlphabet letters gap ambiguous cased with
  | .error e => .error e
  | .ok a =>
    if allBytes.all (pairAcceptable a p) then .ok { alpha := a, pairing := p }
    else .error .invalidPairing

/-- A built-in alphabet as written in the source: definition literal, optional pairing
    literals, gap, ambiguous letter, case sensitivity. Instances live in
    `Biogo.Generated.Alphabets`, regenerated from `/repo/alphabet/alphabet.go`. -/
structure Def where
  name : String
  letters : List UInt8
  pairS : Option (List UInt8)
  pairC : Option (List UInt8)
  gap : UInt8
  ambiguous : UInt8
  cased : Bool
  nucleotide4 : Bool     -- a four-letter nucleotide alphabet (index complement law applies)

def Def.build (d : Def) : Except Err (Alpha × Option Pairing) :=
  match d.pairS, d.pairC with
  | some s, some c =>
    match newPairing s c with
    | .error e => .error e
    | .ok p =>
      match newComplementor d.letters p d.gap d.ambiguous d.cased with
      | .error e => .error e
      | .ok n => .ok (n.alpha, some n.pairing)
  | _, _ =>
    match newAlphabet d.letters d.gap d.ambiguous d.cased with
    | .error e => .error e
    | .ok a => .ok (a, none)

end Biogo.Alphabet
