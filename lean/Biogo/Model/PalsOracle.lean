/-
The proved oracle for C15 and the PALS decision logic as pure functions.  Core-only.

* `nwRec S r q` — optimal global alignment score under a linear-gap matrix `S`
  (`Biogo.Spec.Alignment`: index 0 is the gap letter), by the textbook recursion;
  `globalScore S r q` — the same number computed row by row (two rows of memory, what the driver
  runs on hit regions hundreds of letters long).  `Biogo/Proofs/PalsOracle.lean` proves
  `globalScore = nwRec` and that `nwRec` is the maximum of `scoreLin S` over all global
  alignments.
* `palsS same diff` — the PALS scoring (match `+same`, mismatch and indel `-diff`);
  `editS` — unit-cost edit scoring, `editDist` — the edit distance.
* `Hit`, `lengthOK`, `errNum`, `accept` — the acceptance test of `dp.alignRecursion`
  (length test, then `identity <= maxDiff` with
  `identity = 1/RMatchCost - (Score-indel)/(RMatchCost*(Bepos-Bbpos))`), over exact rationals;
  `markRuns`, `suppress` — the duplicate-start/duplicate-end suppression of `AlignTraps`.
-/
import Biogo.Spec.Alignment

namespace Biogo.PalsOracle
open Biogo.Spec.Alignment

/-! ### optimal global score -/

def nwRec (S : Matrix) : List Nat → List Nat → Int
  | [], [] => 0
  | [], q :: qs => S 0 q + nwRec S [] qs
  | r :: rs, [] => S r 0 + nwRec S rs []
  | r :: rs, q :: qs =>
    max (max (S r q + nwRec S rs qs) (S r 0 + nwRec S rs (q :: qs))) (S 0 q + nwRec S (r :: rs) qs)
termination_by r q => r.length + q.length

/-- the DP row of reference suffix `rs`: optimal scores against every suffix of the query,
    longest suffix first -/
def rowOf (S : Matrix) (rs : List Nat) : List Nat → List Int
  | [] => [nwRec S rs []]
  | x :: xs => nwRec S rs (x :: xs) :: rowOf S rs xs

/-- the row of the empty reference suffix -/
def baseRow (S : Matrix) : List Nat → List Int
  | [] => [0]
  | x :: xs =>
    let t := baseRow S xs
    (S 0 x + t.headD 0) :: t

/-- the row of `r :: rs` from the row of `rs` -/
def stepRow (S : Matrix) (r : Nat) : List Nat → List Int → List Int
  | [], prev => [S r 0 + prev.headD 0]
  | x :: xs, prev =>
    let cur := stepRow S r xs prev.tail
    max (max (S r x + prev.tail.headD 0) (S r 0 + prev.headD 0)) (S 0 x + cur.headD 0) :: cur

def globalRow (S : Matrix) (r q : List Nat) : List Int :=
  r.foldr (fun c row => stepRow S c q row) (baseRow S q)

/-- optimal global alignment score, row by row -/
def globalScore (S : Matrix) (r q : List Nat) : Int := (globalRow S r q).headD 0

/-- PALS scoring: identical (non-gap) letters `+same`, anything else `-diff` -/
def palsS (same diff : Int) : Matrix := fun r q => if r = q ∧ r ≠ 0 then same else -diff

/-- unit-cost edit scoring: identical letters 0, substitution / insertion / deletion −1 -/
def editS : Matrix := fun r q => if r = q ∧ r ≠ 0 then 0 else -1

/-- edit (Levenshtein) distance of two letter strings -/
def editDist (r q : List Nat) : Nat := (-(globalScore editS r q)).toNat

/-- is the column an exact match of two identical letters? -/
def Col.exact : Col → Bool
  | .m r q => r == q && r != 0
  | _ => false

/-- number of exact-match columns -/
def nmatch : Aln → Nat
  | [] => 0
  | c :: a => (if Col.exact c then 1 else 0) + nmatch a

/-- number of edit operations of an alignment (columns that are not exact matches) -/
def cost : Aln → Nat
  | [] => 0
  | c :: a => (if Col.exact c then 0 else 1) + cost a

/-! ### the decision logic of `dp.alignRecursion` and `AlignTraps` -/

/-- the fields of `dp.Hit` the decisions read -/
structure Hit where
  abpos : Int
  bbpos : Int
  aepos : Int
  bepos : Int
  score : Int
  deriving DecidableEq, Repr

def Hit.alen (h : Hit) : Int := h.aepos - h.abpos
def Hit.blen (h : Hit) : Int := h.bepos - h.bbpos

/-- `indel := |(Abpos-Bbpos) - (Aepos-Bepos)|` -/
def Hit.indel (h : Hit) : Int := ((h.abpos - h.bbpos) - (h.aepos - h.bepos)).natAbs

/-- numerator of the reported error: `identity = errNum / (RMatchCost * blen)`
    (from `1/R - (Score-indel)/(R*blen)`) -/
def Hit.errNum (h : Hit) : Int := h.blen - (h.score - h.indel)

/-- the length test -/
def lengthOK (minLen : Int) (h : Hit) : Bool := decide (h.blen ≥ minLen) && decide (h.alen ≥ minLen)

/-- `identity <= maxDiff` for `maxDiff = num/den` (`den > 0`), cross-multiplied
    (`blen > 0` after the length test) -/
def errorOK (rMatchCost num den : Int) (h : Hit) : Bool :=
  decide (h.errNum * den ≤ num * (rMatchCost * h.blen))

/-- a hit is sent to the result channel exactly when both tests pass -/
def accept (minLen rMatchCost num den : Int) (h : Hit) : Bool :=
  lengthOK minLen h && errorOK rMatchCost num den h

/-- One pass of the suppression loop of `AlignTraps` over hits already sorted: within a run of
    adjacent hits with equal `key`, the first hit of maximal score keeps its score and the
    others get score −1; positions are kept.  `acc` = the hits before `segs[i]` (reversed),
    `best` = `segs[i]`, `mid` = the hits after `segs[i]` already marked (reversed). -/
def markRun (key : Hit → Int × Int) (acc : List Hit) (best : Hit) (mid : List Hit) : List Hit → List Hit
  | [] => acc.reverse ++ best :: mid.reverse
  | h :: rest =>
    if key h ≠ key best then
      -- the run ends (`break`, then `i = j`)
      markRun key (mid ++ best :: acc) h [] rest
    else if h.score > best.score then
      -- `segs[i].Score = -1; i = j`
      markRun key (mid ++ { best with score := -1 } :: acc) h [] rest
    else
      -- `segs[j].Score = -1`
      markRun key acc best ({ h with score := -1 } :: mid) rest

def markRuns (key : Hit → Int × Int) : List Hit → List Hit
  | [] => []
  | h :: rest => markRun key [] h [] rest

/-- `AlignTraps` after the kernel: sort by start, mark, sort by end, mark, keep scores ≥ 0.
    `sort.Sort` is not stable; the two sorts are parameters that return a permutation
    sorted by `Abpos`, resp. `Aepos`. -/
def suppress (sortStart sortEnd : List Hit → List Hit) (segs : List Hit) : List Hit :=
  let s1 := markRuns (fun h => (h.abpos, h.bbpos)) (sortStart segs)
  let s2 := markRuns (fun h => (h.aepos, h.bepos)) (sortEnd s1)
  s2.filter fun h => decide (h.score ≥ 0)

end Biogo.PalsOracle
