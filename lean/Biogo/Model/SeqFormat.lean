/-
Model of the `%a` (FASTA) and `%q` (FASTQ) verbs of `(*linear.Seq).Format` and
`(*linear.QSeq).Format` (/repo/seq/linear/seq.go, qseq.go) — the second, formatting writer
named by the anchors of C01.  Output goes through `fmt.Fprintf(fs, "%c", …)`: a byte below 0x80
is written as it is, a byte from 0x80 on as the two-byte UTF-8 encoding of that code point.
For a `QSeq` every letter passes the sequence's `QFilter` (default `seq.AmbigFilter` with
`Threshold` 3): a letter that is not the gap and whose score is below the threshold is
replaced by the alphabet's ambiguous letter.  Core only.
-/
import Biogo.Go.Bytes

namespace Biogo.SeqFormat
open Biogo.Go.Bytes

/-- `fmt.Fprintf(fs, "%c", b)` for a byte-sized value -/
def fmtC (b : UInt8) : Bytes :=
  if b < 0x80 then [b] else [(0xC0 : UInt8) ||| (b >>> 6), (0x80 : UInt8) ||| (b &&& 0x3F)]

/-- `formatDescLineTo(fs, p)` -/
def descLine (p : UInt8) (id desc : Bytes) : Bytes :=
  fmtC p ++ id ++ (if desc.length != 0 then 32 :: desc else []) ++ [10]

/-- `seq.AmbigFilter` -/
def ambigFilter (gap ambiguous thresh : UInt8) (l q : UInt8) : UInt8 :=
  if l == gap || q ≥ thresh then l else ambiguous

/-- `wOk && i < s.Len()-1 && i%w == w-1` (width 0: integer divide by zero) -/
def breakAfter (w : Option Nat) (len i : Nat) : Except Panic Bool :=
  match w with
  | none => pure false
  | some w =>
    if i + 1 < len then (if w == 0 then throw .divideByZero else pure (i % w == w - 1)) else pure false

/-- the letter loop of verb `a`: `for i, l := range buf { "%c"; if wOk && i < s.Len()-1 && i%w == w-1 { "\n" } }` -/
def wrapLetters (w : Option Nat) (len : Nat) : Nat → Bytes → Except Panic Bytes
  | _, [] => pure []
  | i, l :: ls => do
    let nl ← breakAfter w len i
    let rest ← wrapLetters w len (i + 1) ls
    pure (fmtC l ++ (if nl then [10] else []) ++ rest)

/-- verb `a`; `letters` are the letters after the quality filter, `prec` the precision -/
def formatA (w prec : Option Nat) (id desc letters : Bytes) : Except Panic Bytes := do
  let buf := match prec with | some p => letters.take (min p letters.length) | none => letters
  let body ← wrapLetters w letters.length 0 buf
  let dots := match prec with | some p => if p < letters.length then [46, 46, 46] else [] | none => []
  pure (descLine 62 id desc ++ body ++ dots)

/-- verb `q`; `quals` are the bytes `Q.Encode(enc)` of the scores, clamped below 0x7F -/
def formatQ (plus : Bool) (prec : Option Nat) (id desc letters quals : Bytes) : Bytes :=
  let cut (xs : Bytes) := match prec with | some p => xs.take (min p letters.length) | none => xs
  let trunc : Bool := match prec with | some p => decide (p < letters.length) | none => false
  descLine 64 id desc ++ (cut letters).flatMap fmtC ++ (if trunc then [46, 46, 46, 10] else [10]) ++
  (if plus then descLine 43 id desc else [43, 10]) ++
  (cut quals).flatMap (fun e => fmtC (if e ≥ 127 then 126 else e)) ++ (if trunc then [46, 46, 46] else [])

end Biogo.SeqFormat
