/-
Model of /repo/seq/sequtils/utils.go: Join, Truncate, Stitch, Compose, Trim (core only).

Storage.  The property talks about sharing ("when destination and source differ the source
is unchanged and shares no storage with the result"), so letters do not live in the slice
values: a `Heap` is the list of backing arrays allocated so far, a slice value `Sl` names an
array and a window `[off, off+len)` of it with capacity `cap` (Go's slice header).  The
`alphabet.Slice` methods become

  `mk`     Make(len, cap)  — allocates a new zeroed array; negative sizes are a panic
  `slice`  Slice(a, b)     — re-slices, no copying; `0 ≤ a ≤ b ≤ cap` or a panic
  `append` Append(src)     — writes behind `len` in place when the capacity suffices,
                             otherwise allocates a new array (exact fit; no theorem or
                             observation depends on the growth policy)
  `copy`   Copy(src)       — overwrites the first `min(len, len src)` elements in place

`linear.Seq.RevComp/Reverse` (an in-place swap loop, the subject of C05) is `revInPlace`:
the window is overwritten with its reversal mapped through `rc`.

The functions mirror the code as it is after the `fix:` commits (DESIGN.md §5 F7, F8 and the
clipping of features that lie entirely outside the sequence in Compose), branch by branch.
`int` is modelled as unbounded `Int`.
-/
import Biogo.Spec.Sequtils

namespace Biogo.Sequtils

inductive Err
  | error (code : String)     -- a returned `error`
  | panic (what : String)     -- a run-time panic
  deriving Repr, DecidableEq

/-- a Go slice header: backing array id, window, capacity -/
structure Sl where
  arr : Nat
  off : Nat
  len : Nat
  cap : Nat
  deriving Repr, DecidableEq

abbrev Heap (α : Type) := List (List α)

section Storage
variable {α : Type} [Inhabited α]

def Heap.arr (h : Heap α) (i : Nat) : List α := h.getD i []

/-- the elements a slice shows -/
def read (h : Heap α) (s : Sl) : List α := ((h.arr s.arr).drop s.off).take s.len

def mk (h : Heap α) (len cap : Int) : Except Err (Heap α × Sl) :=
  if len < 0 ∨ cap < len then .error (.panic "makeslice: len or cap out of range")
  else .ok (h ++ [List.replicate cap.toNat default],
            { arr := h.length, off := 0, len := len.toNat, cap := cap.toNat })

def slice (s : Sl) (a b : Int) : Except Err Sl :=
  if 0 ≤ a ∧ a ≤ b ∧ b ≤ s.cap then
    .ok { arr := s.arr, off := s.off + a.toNat, len := (b - a).toNat, cap := s.cap - a.toNat }
  else .error (.panic "slice bounds out of range")

def writeAt (xs : List α) (p : Nat) (vs : List α) : List α :=
  xs.take p ++ vs ++ xs.drop (p + vs.length)

def Heap.write (h : Heap α) (a p : Nat) (vs : List α) : Heap α :=
  h.set a (writeAt (h.arr a) p vs)

def append (h : Heap α) (t s : Sl) : Heap α × Sl :=
  let vs := read h s
  if t.len + vs.length ≤ t.cap then
    (h.write t.arr (t.off + t.len) vs, { t with len := t.len + vs.length })
  else
    (h ++ [read h t ++ vs],
     { arr := h.length, off := 0, len := t.len + vs.length, cap := t.len + vs.length })

def copy (h : Heap α) (t s : Sl) : Heap α :=
  h.write t.arr t.off ((read h s).take t.len)

/-- `RevComp` (`rc` = complement table) / `Reverse` (`rc = id`) on the window of `t` -/
def revInPlace (rc : α → α) (h : Heap α) (t : Sl) : Heap α :=
  h.write t.arr t.off (revComp rc (read h t))

end Storage

/-- what `sequtils` sees of a sequence: `Slice()`, `Start()`, `Conformation()` -/
structure Seq where
  sl : Sl
  offset : Int
  conf : Int
  deriving Repr, DecidableEq

/-- `End()` -/
def Seq.stop (s : Seq) : Int := s.offset + s.sl.len

section Ops
variable {α : Type} [Inhabited α]

/-! ### Truncate (utils.go:63-99).  `same` is the test `dst == src`; the result is `dst`. -/
def truncate (h : Heap α) (src : Seq) (same : Bool) (start stop : Int) : Except Err (Heap α × Seq) :=
  let sl := src.sl
  let offset := src.offset
  if start < offset ∨ stop > src.stop then .error (.error "range")
  else if start ≤ stop then
    if same then do
      let s ← slice sl (start - offset) (stop - offset)
      pure (h, { sl := s, offset := start, conf := confLinear })
    else do
      let (h1, t) ← mk h 0 (stop - start)
      let s ← slice sl (start - offset) (stop - offset)
      let (h2, t') := append h1 t s
      pure (h2, { sl := t', offset := start, conf := confLinear })
  else if src.conf = confLinear then .error (.error "linear")
  else if stop < offset ∨ start > src.stop then .error (.error "range")
  else do
    let (h1, t) ← mk h (sl.len - start + offset) (sl.len + stop - start)
    let s1 ← slice sl (start - offset) sl.len
    let h2 := copy h1 t s1
    let s2 ← slice sl 0 (stop - offset)
    let (h3, t') := append h2 t s2
    pure (h3, { sl := t', offset := start, conf := confLinear })

/-! ### Join (utils.go:27-48).  The result is the new state of `dst`. -/
def join (h : Heap α) (dst src : Seq) (wh : Int) : Except Err (Heap α × Seq) :=
  if dst.conf > confLinear ∨ src.conf > confLinear then .error (.error "circular")
  else
    -- after `if where == seq.End { src, dst = dst, src }`: `fst` is copied first, `snd` appended
    let fst := if wh = whereEnd then dst else src
    let snd := if wh = whereEnd then src else dst
    let srcLen : Int := fst.sl.len
    let off := if wh = whereStart then -srcLen else dst.offset
    do
      let (h1, t) ← mk h srcLen (srcLen + snd.sl.len)
      let h2 := copy h1 t fst.sl
      let (h3, t') := append h2 t snd.sl
      pure (h3, { sl := t', offset := off, conf := dst.conf })

/-! ### Stitch (utils.go:123-178) -/

def insertByStart (f : Feat) : List Feat → List Feat
  | [] => [f]
  | g :: gs => if f.s < g.s then f :: g :: gs else g :: insertByStart f gs

/-- `sort.Sort(ff)` (`Less` compares `Start()`); any sorted permutation gives the same result,
    which is what `stitch_spec` is proved for -/
def sortByStart : List Feat → List Feat
  | [] => []
  | f :: fs => insertByStart f (sortByStart fs)

/-- the merge loop with `csp = (cs, ce)` the interval being extended -/
def mergeFrom (cs ce : Int) : List Feat → List (Int × Int)
  | [] => [(cs, ce)]
  | f :: fs => if f.s > ce then (cs, ce) :: mergeFrom f.s f.e fs else mergeFrom cs (max ce f.e) fs

def mergeFeats : List Feat → List (Int × Int)
  | [] => []
  | f :: fs => mergeFrom f.s f.e fs

/-- the append loop over the merged intervals -/
def stitchAppend (sl : Sl) (offset pLen : Int) : Heap α × Sl → List (Int × Int) → Except Err (Heap α × Sl)
  | st, [] => .ok st
  | (h, t), (s, e) :: rest =>
    let fs := max (s - offset) 0
    let fe := min (e - offset) pLen
    if fs ≥ fe then stitchAppend sl offset pLen (h, t) rest
    else
      match slice sl fs fe with
      | .error x => .error x
      | .ok x => stitchAppend sl offset pLen (append h t x) rest

/-- Stitch after the order check, on the sorted feature list `ff` -/
def stitchSorted (h : Heap α) (src : Seq) (ff : List Feat) : Except Err (Heap α × Seq) :=
  let sl := src.sl
  let offset := src.offset
  let pLen : Int := sl.len
  let stop := pLen + offset
  let fsp := mergeFeats ff
  let l : Int := (fsp.map fun (iv : Int × Int) => max 0 (min iv.2 stop - max iv.1 offset)).sum
  do
    let (h1, t) ← mk h 0 l
    let (h2, t') ← stitchAppend sl offset pLen (h1, t) fsp
    pure (h2, { sl := t', offset := 0, conf := confLinear })

def stitch (h : Heap α) (src : Seq) (fs : List Feat) : Except Err (Heap α × Seq) :=
  if fs.any (fun f => decide (f.e < f.s)) then .error (.error "featorder")
  else stitchSorted h src (sortByStart fs)

/-! ### Compose (utils.go:196-251) -/

/-- first loop: one clipped copy per feature, in feature order -/
def composeCopy (sl : Sl) (offset pLen : Int) : Heap α → List Feat → Except Err (Heap α × List Sl)
  | h, [] => .ok (h, [])
  | h, f :: fs =>
    if f.e < f.s then .error (.error "featorder")
    else
      let l := max 0 (min f.e (pLen + offset) - max f.s offset)
      match mk h l l with
      | .error x => .error x
      | .ok (h1, t) =>
        if l > 0 then
          match slice sl (max (f.s - offset) 0) (min (f.e - offset) pLen) with
          | .error x => .error x
          | .ok x =>
            match composeCopy sl offset pLen (copy h1 t x) fs with
            | .error x => .error x
            | .ok (h2, ts) => .ok (h2, t :: ts)
        else
          match composeCopy sl offset pLen h1 fs with
          | .error x => .error x
          | .ok (h2, ts) => .ok (h2, t :: ts)

/-- second loop: append each copy, reverse features after `RevComp`/`Reverse` in place.
    `rev = none`: `src` is not a `SliceReverser`. -/
def composeAppend (rev : Option (α → α)) : Heap α × Sl → List (Feat × Sl) → Except Err (Heap α × Sl)
  | st, [] => .ok st
  | (h, c), (f, ts) :: rest =>
    if f.o = orientReverse then
      match rev with
      | none => .error (.error "noreverse")
      | some rc => composeAppend rev (append (revInPlace rc h ts) c ts) rest
    else composeAppend rev (append h c ts) rest

def compose (rev : Option (α → α)) (h : Heap α) (src : Seq) (fs : List Feat) : Except Err (Heap α × Seq) :=
  let sl := src.sl
  let offset := src.offset
  let pLen : Int := sl.len
  do
    let (h1, ts) ← composeCopy sl offset pLen h fs
    let tl : Int := (ts.map fun (t : Sl) => (t.len : Int)).sum
    let (h2, c) ← mk h1 0 tl
    let (h3, c') ← composeAppend rev (h2, c) (fs.zip ts)
    pure (h3, { sl := c', offset := 0, conf := confLinear })

end Ops

/-! ### Trim (utils.go:263-277): the modified-Mott running sum over the values `limit − E(i)`.
    Generic in the number type: the theorems are about `β = Int` (exact dyadic values), the
    driver also runs it at `Float` next to real `QSeq`s. -/

structure TrimSt (β : Type) where
  sum : β
  best : β
  cand : Int      -- start of the window the running sum belongs to
  start : Int
  stop : Int

section Trim
variable {β : Type} [Add β] [OfNat β 0] [LT β] [LE β]
  [∀ a b : β, Decidable (a < b)] [∀ a b : β, Decidable (a ≤ b)]

/-- one iteration at position `i` with `v = limit − E(i)` -/
def trimStep (st : TrimSt β) (i : Int) (v : β) : TrimSt β :=
  let sum := st.sum + v
  let sum' := if sum < 0 then 0 else sum
  let cand' := if sum < 0 then i + 1 else st.cand
  if st.best ≤ sum' then { sum := sum', best := sum', cand := cand', start := cand', stop := i + 1 }
  else { st with sum := sum', cand := cand' }

def trimFrom (st : TrimSt β) (i : Int) : List β → TrimSt β
  | [] => st
  | v :: vs => trimFrom (trimStep st i v) (i + 1) vs

/-- `Trim` on a feature starting at `s0` with values `vs` -/
def trim (s0 : Int) (vs : List β) : Int × Int :=
  let st := trimFrom ({ sum := 0, best := 0, cand := s0, start := s0, stop := s0 } : TrimSt β) s0 vs
  (st.start, st.stop)

end Trim

end Biogo.Sequtils
