/-
Model of `align/pals/piler.go` (zero overlap slack), core-only.

* A location's interval tree is modelled by its contract: the list of stored intervals in
  ascending start order (the tree's in-order traversal).  `DoMatching fn q` visits exactly the
  stored intervals `a` with `q.Overlap(a.Range())`, in that order; `Delete` removes the
  visited ones; `Insert` puts the new interval at its sorted position (after equal starts,
  because the tree orders by (start, id) and the new id is the largest).  This contract is
  in the trusted base and is exercised against the real `store/interval` tree by the
  correspondence.
* `Piler.intervals` (a Go map from location to tree) is a total function from location to
  list, with `locs` the keys present.
* Features are identified by ids chosen by the caller: pair `p` has features `2p` (A) and
  `2p+1` (B); this stands for the identity of the `*Feature` pointers.
-/
namespace Biogo.Piler

/-- `(location, start, end)` of a feature: what `Piler.Add` reads through
    `Location()`, `Start()`, `End()` (the Go type `sf`) -/
structure Key where
  loc : Nat
  s : Int
  e : Int
  deriving DecidableEq, Repr

/-- a stored `pileInterval`: start, end and the images absorbed so far -/
structure Iv where
  s : Int
  e : Int
  imgs : List Nat
  deriving DecidableEq, Repr

/-- `qi.Overlap(a.Range())` with zero slack on both sides:
    `i.end-i.overlap >= b.Start && i.start <= b.End-i.overlap` -/
def touchesQ (qs qe : Int) (a : Iv) : Bool := decide (qe ≥ a.s) && decide (qs ≤ a.e)

/-- the callback of `merge`, run over the matches in visiting order: images are appended,
    the start is lowered to the *first* match's start only (`f` flag), the end is raised
    by every match -/
def absorb (pi : Iv) (first : Bool) : List Iv → Iv
  | [] => pi
  | m :: ms =>
    absorb { s := if first then min m.s pi.s else pi.s,
             e := max m.e pi.e,
             imgs := pi.imgs ++ m.imgs } false ms

/-- `IntTree.Insert`: position by start, after intervals with an equal start -/
def insertIv (x : Iv) : List Iv → List Iv
  | [] => [x]
  | a :: t => if a.s ≤ x.s then a :: insertIv x t else x :: a :: t

/-- `Piler.merge` on one location's tree -/
def mergeLoc (t : List Iv) (pi : Iv) : List Iv :=
  let r := t.filter (touchesQ pi.s pi.e)
  insertIv (absorb pi true r) (t.filter (fun a => !touchesQ pi.s pi.e a))

/-- one call of `Piler.Add` -/
structure PairIn where
  id : Nat
  a : Key
  b : Key
  deriving DecidableEq, Repr

structure Piler where
  trees : Nat → List Iv
  locs : List Nat
  seen : List (Key × Key)
  /-- accepted features `(id, key)`: the `*Feature` objects now reachable from the trees -/
  feats : List (Nat × Key)

def Piler.new : Piler := { trees := fun _ => [], locs := [], seen := [], feats := [] }

def Piler.merge (p : Piler) (loc : Nat) (pi : Iv) : Piler :=
  { p with
    trees := fun l => if l = loc then mergeLoc (p.trees loc) pi else p.trees l
    locs := if loc ∈ p.locs then p.locs else p.locs ++ [loc] }

/-- `Piler.Add`; the Boolean is `err == nil` -/
def Piler.add (p : Piler) (x : PairIn) : Piler × Bool :=
  if p.seen.contains (x.a, x.b) || p.seen.contains (x.b, x.a) then (p, false)
  else
    let p1 := p.merge x.a.loc { s := x.a.s, e := x.a.e, imgs := [2 * x.id] }
    let p2 := p1.merge x.b.loc { s := x.b.s, e := x.b.e, imgs := [2 * x.id + 1] }
    ({ p2 with seen := (x.a, x.b) :: p.seen,
               feats := p.feats ++ [(2 * x.id, x.a), (2 * x.id + 1, x.b)] }, true)

/-- all `Add` calls of a history, with the list of results -/
def Piler.addAll (p : Piler) : List PairIn → Piler × List Bool
  | [] => (p, [])
  | x :: xs =>
    let (p', ok) := p.add x
    let (p'', oks) := p'.addAll xs
    (p'', ok :: oks)

def adds (xs : List PairIn) : Piler := (Piler.new.addAll xs).1

structure Pile where
  loc : Nat
  s : Int
  e : Int
  imgs : List Nat
  deriving DecidableEq, Repr

/-- `Piler.Piles(f)`: one pile per stored interval; the filter (on the pair of an image,
    `none` = nil filter) selects images and never changes the pile's interval -/
def Piler.piles (p : Piler) (f : Option (Nat → Bool)) : List Pile :=
  p.locs.flatMap fun l =>
    (p.trees l).map fun a =>
      { loc := l, s := a.s, e := a.e,
        imgs := match f with
          | none => a.imgs
          | some f => a.imgs.filter fun i => f (i / 2) }

/-! ### filters that inspect the piles of a pair's images

`Piles` locates every image in its pile (`im.Loc = pa.pile`, first pass of the first call)
before the filter is asked about any pair, so a filter that reads `p.A.Loc` / `p.B.Loc`
(`Len()`, `Start()`, `End()`, identity) reads the FINAL piles — on the first call and on every
later one. -/

/-- `Feature.Loc` of image `i` once piled: the pile of `Piles(nil)` that lists it -/
def locateIn (ps : List Pile) (i : Nat) : Option Pile := ps.find? fun q => q.imgs.contains i

def Piler.locate (p : Piler) (i : Nat) : Option Pile := locateIn (p.piles none) i

/-- a pair filter that may look at the pair (its id) and at the piles of its images A and B -/
abbrev LocFilter := Nat → Option Pile → Option Pile → Bool

/-- the filter on pair ids that `g` amounts to when the images sit in the piles `ps` -/
def LocFilter.on (g : LocFilter) (ps : List Pile) : Nat → Bool :=
  fun id => g id (locateIn ps (2 * id)) (locateIn ps (2 * id + 1))

/-- `Piler.Piles(f)` for a pile-inspecting `f`: evaluated on the final piles -/
def Piler.pilesLoc (p : Piler) (g : LocFilter) : List Pile := p.piles (some (g.on (p.piles none)))

end Biogo.Piler
