/-
The line-level view of a `bufio.Reader`, for any buffer size: what the byte-level model of
`Biogo.Go.Bufio` is proved to deliver (`Proofs/Bufio.lean`, `Properties/C04_bufio.lean`).

* `lineInput size withData bs` — what a `ReadLine` loop that joins `isPrefix` fragments sees of
  the input `bs`: the complete lines, and the bytes of an unterminated last line that arrives
  only as `isPrefix` fragments before the final error.  At `size = 4096` this is
  `Biogo.Go.Bytes.readLineInput`, which the FASTA/FASTQ reader models consume.
* the view of a `ReadBytes('\n')` loop is `Biogo.BytesFeat.lines`.

Core only.
-/
import Biogo.Go.Bytes
import Biogo.Go.Bufio
import Biogo.Go.BytesFeat

namespace Biogo.Spec.Bufio
open Biogo.Go.Bytes

/-- `Biogo.Go.Bytes.endsPendingAux` for a buffer of `size` bytes -/
def endsPendingAux (size : Nat) : Nat → Bytes → Bool
  | 0, _ => false
  | fuel + 1, l =>
    if l.length == 0 then true
    else if l.length < size then false
    else if (l.take size).getLast? == some 13 then endsPendingAux size fuel (l.drop (size - 1))
    else endsPendingAux size fuel (l.drop size)

/-- an unterminated last line that a `ReadLine` loop over a buffer of `size` bytes sees only as
    `isPrefix` fragments followed by the final error -/
def endsPending (size : Nat) (l : Bytes) : Bool := l.length ≥ size && endsPendingAux size (l.length + 1) l

/-- `Biogo.Go.Bytes.readLineInput` for a buffer of `size` bytes -/
def lineInput (size : Nat) (withData : Bool) (bs : Bytes) : List Bytes × Bytes :=
  let ls := splitLines bs
  if withData then (ls, [])
  else match bs.getLast?, ls.getLast? with
    | some b, some l => if b != 10 && endsPending size l then (ls.dropLast, l) else (ls, [])
    | _, _ => (ls, [])

/-! ### the methods as functions of the undelivered byte stream

`st` is everything not yet handed to the caller (buffered or still in the underlying reader),
`size` the buffer size, `fin` the final error of the underlying reader and `early` whether that
error arrives together with the last bytes.  `Proofs/Bufio.lean` proves that the byte-level
model computes exactly these, whatever the chunking of the underlying reads. -/

open Biogo.Go.Bufio (Err Line indexByte)

/-- `ReadSlice(delim)`: the slice, the error, the stream afterwards -/
def sliceOf (size : Nat) (delim : UInt8) (fin : Err) (early : Bool) (st : Bytes) : Bytes × Option Err × Bytes :=
  match indexByte (st.take size) delim with
  | some i => (st.take (i + 1), none, st.drop (i + 1))
  | none =>
    if st.length < size ∨ (st.length = size ∧ early = true) then (st, some fin, [])
    else (st.take size, some .bufferFull, st.drop size)

/-- `ReadLine()` -/
def lineOf (size : Nat) (fin : Err) (early : Bool) (st : Bytes) : Line × Bytes :=
  match sliceOf size 10 fin early st with
  | (line, err, st') =>
    if err = some .bufferFull then
      if line.getLast? = some 13 then (⟨line.dropLast, true, none⟩, 13 :: st')
      else (⟨line, true, none⟩, st')
    else if line.length = 0 then (⟨[], false, err⟩, st')
    else if line.getLast? = some 10 then
      (⟨line.take (line.length - (if line.length > 1 ∧ line[line.length - 2]? = some 13 then 2 else 1)), false, none⟩, st')
    else (⟨line, false, none⟩, st')

/-- What a loop of `ReadBytes('\n')` calls returns, up to and including the first error: every
    element of `Biogo.BytesFeat.lines bs` (the lines with their terminators), the error `fin`
    coming with an unterminated last line, or with no data after an input that ends in LF (or is
    empty).  The BED and GFF reader models consume `lines bs`: the data of the calls they go on
    to process (`err == nil`, or `io.EOF` with `len(line) > 0`). -/
def readBytesCalls (fin : Err) (bs : Bytes) : List (Bytes × Option Err) :=
  (Biogo.BytesFeat.lines bs).map (fun l => (l, if l.getLast? = some 10 then none else some fin))
    ++ (if bs.getLast? = some 10 ∨ bs = [] then [([], some fin)] else [])

end Biogo.Spec.Bufio
