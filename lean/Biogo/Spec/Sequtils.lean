/-
The positional vocabulary in which property C06 is stated (core only).

A sequence with letters `xs` and offset `o` occupies the positions `o, o+1, …, o + xs.length - 1`;
`letterAt xs o p` is the letter at position `p`.  Every clause of C06 is a statement
"the result is the list of letters at these positions (possibly reverse-complemented)":

* `truncatePositions` : `start … stop-1`, or `start … End-1, Start … stop-1` through the origin;
* `stitchPositions`   : the positions of `[Start,End)` covered by some feature, ascending;
* `segPositions`      : one feature clipped to `[Start,End)`; `composeSpec` concatenates the
                        segments in feature order, each reverse feature reversed and mapped
                        through `rc` (the complement table, or `id` for a non-complementing alphabet);
* `windowSum`         : the sum of `limit − E(k)` over a window, `isMaxWindow` its optimality.

The driver evaluates these definitions on the implementation's output; the theorems of
`Biogo/Properties/C06.lean` relate the model to them.
-/
namespace Biogo.Sequtils

/-- a feature: interval `[s,e)` and `feat.Orientation` (-1 reverse, 0 not oriented, 1 forward) -/
structure Feat where
  s : Int
  e : Int
  o : Int
  deriving Repr, DecidableEq

def orientReverse : Int := -1
def confLinear : Int := 0
def confCircular : Int := 1
def whereStart : Int := 1
def whereEnd : Int := 2

/-- the positions `a, a+1, …, b-1` in ascending order (empty when `b ≤ a`) -/
def intRange (a b : Int) : List Int := (List.range (b - a).toNat).map (fun (k : Nat) => a + (k : Int))

variable {α : Type}

/-- the letter at position `p` of a sequence with letters `xs` starting at `offset` -/
def letterAt (xs : List α) (offset p : Int) : Option α :=
  if offset ≤ p then xs[(p - offset).toNat]? else none

/-- the letters at the listed positions (positions outside the sequence contribute nothing;
    `lettersAt_map_some` in the proofs shows that none is dropped when all are inside) -/
def lettersAt (xs : List α) (offset : Int) (ps : List Int) : List α :=
  ps.filterMap (letterAt xs offset)

/-- the positions named by `Truncate(start, stop)` on a sequence occupying `[offset, stop_)` -/
def truncatePositions (offset stop_ start stop : Int) : List Int :=
  if start ≤ stop then intRange start stop else intRange start stop_ ++ intRange offset stop

/-- position `p` lies in some feature interval -/
def covered (fs : List Feat) (p : Int) : Bool := fs.any (fun f => decide (f.s ≤ p) && decide (p < f.e))

/-- the union of the feature intervals clipped to `[offset, stop_)`, ascending -/
def stitchPositions (offset stop_ : Int) (fs : List Feat) : List Int :=
  (intRange offset stop_).filter (covered fs)

/-- one feature clipped to `[offset, stop_)` -/
def segPositions (offset stop_ : Int) (f : Feat) : List Int :=
  intRange (max f.s offset) (min f.e stop_)

/-- reverse complement of a segment (`rc = id` for a non-complementing alphabet) -/
def revComp (rc : α → α) (seg : List α) : List α := seg.reverse.map rc

/-- what `Compose` must yield -/
def composeSpec (rc : α → α) (xs : List α) (offset : Int) (fs : List Feat) : List α :=
  fs.flatMap fun f =>
    let seg := lettersAt xs offset (segPositions offset (offset + xs.length) f)
    if f.o = orientReverse then revComp rc seg else seg

/-- what `Stitch` must yield -/
def stitchSpec (xs : List α) (offset : Int) (fs : List Feat) : List α :=
  lettersAt xs offset (stitchPositions offset (offset + xs.length) fs)

/-- what `Truncate` must yield when the range is inside the sequence -/
def truncateSpec (xs : List α) (offset start stop : Int) : List α :=
  lettersAt xs offset (truncatePositions offset (offset + xs.length) start stop)

/-- `Truncate`'s range is inside a sequence occupying `[offset, stop_)`
    (`circular`: ranges with `start > stop` wrap through the origin) -/
def truncateInside (offset stop_ : Int) (circular : Bool) (start stop : Int) : Bool :=
  if start ≤ stop then decide (offset ≤ start) && decide (stop ≤ stop_)
  else circular && decide (offset ≤ stop) && decide (start ≤ stop_)

/-- what `Join` must yield -/
def joinSpec (dst src : List α) (wh : Int) : List α :=
  if wh = whereEnd then dst ++ src else src ++ dst

/-! ### Trim -/

/-- sum of the values at positions `i ≤ k < j` of a feature starting at `s0` -/
def windowSum (vs : List Int) (s0 i j : Int) : Int :=
  ((vs.drop (i - s0).toNat).take (j - i).toNat).sum

/-- `(i, j)` is a window of a feature occupying `[s0, s0 + n)` (the empty window is one) -/
def isWindow (s0 : Int) (n : Nat) (i j : Int) : Bool :=
  decide (s0 ≤ i) && decide (i ≤ j) && decide (j ≤ s0 + n)

/-- every window of the feature -/
def allWindows (s0 : Int) (n : Nat) : List (Int × Int) :=
  (intRange s0 (s0 + n + 1)).flatMap fun i => (intRange i (s0 + n + 1)).map fun j => (i, j)

/-- brute-force optimality of the window `(a, b)` -/
def isMaxWindow (vs : List Int) (s0 a b : Int) : Bool :=
  (allWindows s0 vs.length).all fun w => decide (windowSum vs s0 w.1 w.2 ≤ windowSum vs s0 a b)

end Biogo.Sequtils
