/-
The statements of C05 and C07 as executable predicates on observations.

Everything here speaks about *observations* (`ObjV`: what `At`, `Start`, `End`, the strand,
`Column`, `ColumnQL` and the consensus report) before and after one operation; nothing refers
to the heap model.  The driver evaluates these predicates on the implementation's own
observations (verdict `fail` when one is false); the theorems of Properties/C05, C07 prove
them of the model for all inputs.  Core-only.
-/
import Biogo.Model.ContWorld

namespace Biogo.Containers.Laws
open Biogo.Containers Biogo.Alphabet

/-- reverse, complement every letter, qualities travel with their letters -/
def revCompCells (comp : UInt8 → UInt8) (cs : List QL) : List QL := cs.reverse.map (compQL comp)

def allPaired (pairs : UInt8 → Bool) (o : ObjV) : Bool :=
  o.rows.all fun r => r.cells.all fun c => pairs c.L

abbrev Why := Option String

def Why.and (a : Why) (b : Unit → Why) : Why := match a with | some w => some w | none => b ()

def check (c : Bool) (why : String) : Why := if c then none else some why

def allIdx (n : Nat) (f : Nat → Why) : Why :=
  (List.range n).foldl (fun acc i => match acc with | some w => some w | none => f i) none

/-! ### C05 -/

/-- RevComp of one row: letters reversed and complemented, qualities reversed, strand negated -/
def rowRevComped (comp : UInt8 → UInt8) (b a : RowV) : Bool :=
  a.cells == revCompCells comp b.cells && a.strand == -b.strand && a.name == b.name

/-- `RevComp()` on a whole object -/
def lawRevComp (comp : UInt8 → UInt8) (b a : ObjV) : Why :=
  (check (a.kind == b.kind && a.nrows == b.nrows && a.rows.length == b.rows.length) "revcomp-shape").and fun _ =>
  (check ((List.zip b.rows a.rows).all fun (rb, ra) => ra.cells == revCompCells comp rb.cells && ra.name == rb.name)
    "revcomp-letters-not-reverse-complement").and fun _ =>
  match b.kind with
  | "aln" | "qaln" =>
    (check (a.strand == -b.strand) "revcomp-strand-not-negated").and fun _ =>
    check (a.start == b.start && a.«end» == b.«end») "revcomp-coordinates"
  | "multi" =>
    (check ((List.zip b.rows a.rows).all fun (rb, ra) => ra.strand == -rb.strand) "revcomp-strand-not-negated").and fun _ =>
    (check ((List.zip b.rows a.rows).all fun (rb, ra) =>
        ra.start == b.start + b.«end» - rb.«end» && ra.«end» == b.start + b.«end» - rb.start)
      "multi-revcomp-rows-not-mirrored-about-span").and fun _ =>
    check (a.start == b.start && a.«end» == b.«end») "revcomp-coordinates"
  | _ =>  -- lin, qlin, set: rows keep their coordinates
    (check ((List.zip b.rows a.rows).all fun (rb, ra) => ra.strand == -rb.strand) "revcomp-strand-not-negated").and fun _ =>
    check ((List.zip b.rows a.rows).all fun (rb, ra) => ra.start == rb.start && ra.«end» == rb.«end») "revcomp-coordinates"

/-- the part of an observation the involution laws speak about -/
def sameLettersCoords (x y : ObjV) : Bool :=
  x.rows.length == y.rows.length &&
  (List.zip x.rows y.rows).all fun (rx, ry) =>
    rx.cells == ry.cells && rx.start == ry.start && rx.«end» == ry.«end» && rx.strand == ry.strand

def sameLetters (x y : ObjV) : Bool :=
  x.rows.length == y.rows.length &&
  (List.zip x.rows y.rows).all fun (rx, ry) => rx.cells == ry.cells

/-- row `r` reverse-complemented, every other row as it was -/
def lawRowRevComp (comp : UInt8 → UInt8) (b a : ObjV) (r : Nat) : Why :=
  (check (a.rows.length == b.rows.length) "row-revcomp-shape").and fun _ =>
  allIdx b.rows.length fun i =>
    match b.rows[i]?, a.rows[i]? with
    | some rb, some ra =>
      if i == r then
        check (rowRevComped comp rb ra && ra.start == rb.start && ra.«end» == rb.«end») "row-revcomp-wrong"
      else check (ra == rb) "row-revcomp-touched-another-row"
    | _, _ => some "row-revcomp-shape"

/-- the position of a row's first cell: the alignment's start for the rows of a column-stored
    alignment, the row's own start otherwise -/
def setBase (b : ObjV) (rb : RowV) : Int := match b.kind with | "aln" | "qaln" => b.start | _ => rb.start

/-- `Set(pos, c)` through row `r`: that cell shows `c`, nothing else changes -/
def lawSet (b a : ObjV) (r : Nat) (pos : Int) (c : QL) : Why :=
  (check (a.rows.length == b.rows.length) "set-shape").and fun _ =>
  allIdx b.rows.length fun i =>
    match b.rows[i]?, a.rows[i]? with
    | some rb, some ra =>
      if i == r then
        let idx := (pos - setBase b rb).toNat
        let want := if rb.q then c else ⟨c.L, defaultQ⟩
        check (ra.cells[idx]? == some want &&
               ra.cells.length == rb.cells.length &&
               (List.range rb.cells.length).all (fun j => j == idx || ra.cells[j]? == rb.cells[j]?) &&
               ra.start == rb.start && ra.«end» == rb.«end» && ra.strand == rb.strand &&
               ra.name == rb.name && ra.q == rb.q)
          "set-wrong-cell"
      else check (ra == rb) "set-touched-another-row"
    | _, _ => some "set-shape"

/-- every object except `k` (and objects created by the operation) is observed unchanged:
    the independence of copies -/
def lawFrame (before after : List ObjV) (k : Option Nat) : Why :=
  allIdx before.length fun j =>
    if some j == k then none else
    check (after[j]? == before[j]?) s!"write-visible-through-another-object obj={j}"

/-! ### C07 -/

/-- what `At` reports once `c` has been stored in a row that does / does not carry qualities -/
def shownAs (q : Bool) (c : QL) : QL := if q then c else ⟨c.L, defaultQ⟩

def isAligned (o : ObjV) : Bool := o.kind == "aln" || o.kind == "qaln" || o.kind == "multi"

/-- the cell row `r` shows at absolute position `pos` (`none`: the row does not cover it) -/
def rowCell (o : ObjV) (r : RowV) (pos : Int) : Option QL :=
  if o.kind == "multi" then
    if r.start ≤ pos && pos < r.«end» then r.cells[(pos - r.start).toNat]? else none
  else r.cells[(pos - o.start).toNat]?

/-- **row_eq_column**: at every position of the span the column view equals the row view,
    the gap letter standing for rows that do not cover the position; `Column` of a quality
    alignment applies the documented filter `Q ≥ Threshold` (ambiguity letter below it). -/
def lawRowEqColumn (gap amb : UInt8) (o : ObjV) : Why :=
  if !isAligned o then none else
  let n := (o.«end» - o.start).toNat
  (check (o.nrows == o.rows.length && o.len == o.«end» - o.start) "rows-len-inconsistent").and fun _ =>
  (check (o.cols.length == n && o.colsQL.length == n && (o.kind != "multi" || o.colsNF.length == n))
    "column-count-differs-from-span").and fun _ =>
  allIdx n fun p =>
    let pos : Int := o.start + (p : Int)
    let cells := o.rows.map fun r => rowCell o r pos
    let wantQL := cells.map fun c => c.getD ⟨gap, 0⟩
    let wantL := cells.map fun c => match c with
      | some c => if o.kind == "qaln" && c.Q < alnThreshold then amb else c.L
      | none => gap
    (check (o.colsQL[p]? == some wantQL) s!"ColumnQL-differs-from-Row.At pos={pos}").and fun _ =>
    (check (o.cols[p]? == some wantL) s!"Column-differs-from-Row.At pos={pos}").and fun _ =>
    if o.kind == "multi" then
      check (o.colsNF[p]? == some (cells.filterMap fun c => c.map (·.L))) s!"Column-nofill-differs pos={pos}"
    else none

/-- **unanimous_consensus**: a column in which every row holds the same valid letter has that
    letter, up to case, as its count-based consensus -/
def lawConsensus (valid : UInt8 → Bool) (o : ObjV) : Why :=
  if !isAligned o || o.rows.isEmpty then none else
  let n := (o.«end» - o.start).toNat
  allIdx n fun p =>
    let pos : Int := o.start + (p : Int)
    let cells := o.rows.map fun r => rowCell o r pos
    match cells with
    | some c0 :: _ =>
      if cells.all (fun c => match c with
            | some c => toLower c.L == toLower c0.L && valid c.L && (o.kind != "qaln" || c.Q ≥ alnThreshold)
            | none => false) then
        check ((o.cons[p]?).map toLower == some (toLower c0.L)) s!"unanimous-column-consensus-differs pos={pos}"
      else none
    | _ => none

def sameMeta (b a : RowV) : Bool := a.name == b.name && a.strand == b.strand && a.q == b.q

/-- **append_exact** for `AppendColumns(cols...)` (every column as high as the alignment):
    row `i` is extended by `cols[0][i], cols[1][i], …`; nothing before moves -/
def lawAppendCols (b a : ObjV) (cols : List (List QL)) : Why :=
  (check (a.rows.length == b.rows.length && a.nrows == b.nrows) "append-changed-row-count").and fun _ =>
  allIdx b.rows.length fun i =>
    match b.rows[i]?, a.rows[i]? with
    | some rb, some ra =>
      check (ra.cells == rb.cells ++ cols.map (fun c => shownAs rb.q (c.getD i zeroQL)) &&
             ra.start == rb.start && ra.«end» == rb.«end» + cols.length && sameMeta rb ra)
        s!"AppendColumns-row-not-extended-exactly row={i}"
    | _, _ => some "append-shape"

/-- **append_exact** for `AppendEach(runs)` (one run per row): column-stored alignments pad the
    shorter runs with the gap letter, row-stored ones extend every row by its own run -/
def lawAppendEach (gap : UInt8) (b a : ObjV) (runs : List (List QL)) : Why :=
  let mx := runs.foldl (fun m r => Nat.max m r.length) 0
  (check (a.rows.length == b.rows.length && a.nrows == b.nrows) "append-changed-row-count").and fun _ =>
  allIdx b.rows.length fun i =>
    match b.rows[i]?, a.rows[i]? with
    | some rb, some ra =>
      let run := runs.getD i []
      -- the run itself (letters and qualities), then for column-stored alignments gap letters
      -- up to the longest run (the quality of the padding is not specified)
      let npad := if b.kind == "multi" then 0 else mx - run.length
      let tail := ra.cells.drop rb.cells.length
      check (ra.cells.take rb.cells.length == rb.cells &&
             tail.take run.length == run.map (shownAs rb.q) &&
             (tail.drop run.length).map (·.L) == List.replicate npad gap &&
             ra.start == rb.start && ra.«end» == rb.«end» + (run.length + npad) && sameMeta rb ra)
        s!"AppendEach-row-not-extended-exactly row={i}"
    | _, _ => some "append-shape"

/-- **delete_exact** -/
def lawDelete (b a : ObjV) (i : Nat) : Why :=
  check (a.rows == b.rows.eraseIdx i && a.nrows + 1 == b.nrows) "Delete-did-not-remove-exactly-the-indexed-row"

/-- **flush_preserves**: rows are padded with the fill letter up to the span's start / end
    (bit 0 / bit 1 of `where`); every original letter keeps its position -/
def lawFlush (b a : ObjV) (wh : Nat) (fill : UInt8) : Why :=
  (check (a.rows.length == b.rows.length) "flush-changed-row-count").and fun _ =>
  allIdx b.rows.length fun i =>
    match b.rows[i]?, a.rows[i]? with
    | some rb, some ra =>
      let st := if wh % 2 == 1 then b.start else rb.start
      let en := if (wh / 2) % 2 == 1 then b.«end» else rb.«end»
      let nl := (rb.start - st).toNat
      let nr := (en - rb.«end»).toNat
      -- fill letters on both sides (their quality is not specified), the original letters
      -- and qualities in between, at their old positions
      check (ra.start == st && ra.«end» == en && sameMeta rb ra &&
             (ra.cells.take nl).map (·.L) == List.replicate nl fill &&
             (ra.cells.drop nl).take rb.cells.length == rb.cells &&
             ((ra.cells.drop nl).drop rb.cells.length).map (·.L) == List.replicate nr fill)
        s!"Flush-row-not-padded-in-place row={i}"
    | _, _ => some "flush-shape"

/-- the range `[st,en)` is covered by every row -/
def allCover (o : ObjV) (st en : Int) : Bool :=
  st ≤ en && o.rows.all fun r => r.start ≤ st && en ≤ r.«end»

/-- **subseq_truncate_exact**: exactly the requested columns are kept -/
def lawRange (b a : ObjV) (st en : Int) : Why :=
  (check (a.rows.length == b.rows.length) "range-changed-row-count").and fun _ =>
  allIdx b.rows.length fun i =>
    match b.rows[i]?, a.rows[i]? with
    | some rb, some ra =>
      check (ra.start == st && ra.«end» == en && sameMeta rb ra &&
             ra.cells == (rb.cells.drop (st - rb.start).toNat).take (en - st).toNat)
        s!"range-row-not-exactly-the-requested-columns row={i}"
    | _, _ => some "range-shape"

end Biogo.Containers.Laws
