/-
The statements of C05 and C07 as executable predicates on observations.

Everything here speaks about *observations* (`ObjV`: what `At`, `Start`, `End`, the strand,
`Column`, `ColumnQL` and the consensus report) before and after one operation; nothing refers
to the heap model.  The driver evaluates these predicates on the implementation's own
observations (verdict `fail` when one is false); the theorems of Properties/C05, C07 prove
them of the model for all inputs.  Core-only.
-/
import Biogo.Model.ContWorld

namespace Biogo.Containers.Laws
open Biogo.Containers Biogo.Alphabet

/-- reverse, complement every letter, qualities travel with their letters -/
def revCompCells (comp : UInt8 → UInt8) (cs : List QL) : List QL := cs.reverse.map (compQL comp)

def allPaired (pairs : UInt8 → Bool) (o : ObjV) : Bool :=
  o.rows.all fun r => r.cells.all fun c => pairs c.L

abbrev Why := Option String

def Why.and (a : Why) (b : Unit → Why) : Why := match a with | some w => some w | none => b ()

def check (c : Bool) (why : String) : Why := if c then none else some why

def allIdx (n : Nat) (f : Nat → Why) : Why :=
  (List.range n).foldl (fun acc i => match acc with | some w => some w | none => f i) none

/-! ### C05 -/

/-- RevComp of one row: letters reversed and complemented, qualities reversed, strand negated -/
def rowRevComped (comp : UInt8 → UInt8) (b a : RowV) : Bool :=
  a.cells == revCompCells comp b.cells && a.strand == -b.strand && a.name == b.name

/-- `RevComp()` on a whole object -/
def lawRevComp (comp : UInt8 → UInt8) (b a : ObjV) : Why :=
  (check (a.kind == b.kind && a.nrows == b.nrows && a.rows.length == b.rows.length) "revcomp-shape").and fun _ =>
  (check ((List.zip b.rows a.rows).all fun (rb, ra) => ra.cells == revCompCells comp rb.cells && ra.name == rb.name)
    "revcomp-letters-not-reverse-complement").and fun _ =>
  match b.kind with
  | "aln" | "qaln" =>
    (check (a.strand == -b.strand) "revcomp-strand-not-negated").and fun _ =>
    check (a.start == b.start && a.«end» == b.«end») "revcomp-coordinates"
  | "multi" =>
    (check ((List.zip b.rows a.rows).all fun (rb, ra) => ra.strand == -rb.strand) "revcomp-strand-not-negated").and fun _ =>
    (check ((List.zip b.rows a.rows).all fun (rb, ra) =>
        ra.start == b.start + b.«end» - rb.«end» && ra.«end» == b.start + b.«end» - rb.start)
      "multi-revcomp-rows-not-mirrored-about-span").and fun _ =>
    check (a.start == b.start && a.«end» == b.«end») "revcomp-coordinates"
  | _ =>  -- lin, qlin, set: rows keep their coordinates
    (check ((List.zip b.rows a.rows).all fun (rb, ra) => ra.strand == -rb.strand) "revcomp-strand-not-negated").and fun _ =>
    check ((List.zip b.rows a.rows).all fun (rb, ra) => ra.start == rb.start && ra.«end» == rb.«end») "revcomp-coordinates"

/-- the part of an observation the involution laws speak about -/
def sameLettersCoords (x y : ObjV) : Bool :=
  x.rows.length == y.rows.length &&
  (List.zip x.rows y.rows).all fun (rx, ry) =>
    rx.cells == ry.cells && rx.start == ry.start && rx.«end» == ry.«end» && rx.strand == ry.strand

def sameLetters (x y : ObjV) : Bool :=
  x.rows.length == y.rows.length &&
  (List.zip x.rows y.rows).all fun (rx, ry) => rx.cells == ry.cells

/-- row `r` reverse-complemented, every other row as it was -/
def lawRowRevComp (comp : UInt8 → UInt8) (b a : ObjV) (r : Nat) : Why :=
  (check (a.rows.length == b.rows.length) "row-revcomp-shape").and fun _ =>
  allIdx b.rows.length fun i =>
    match b.rows[i]?, a.rows[i]? with
    | some rb, some ra =>
      if i == r then
        check (rowRevComped comp rb ra && ra.start == rb.start && ra.«end» == rb.«end») "row-revcomp-wrong"
      else check (ra == rb) "row-revcomp-touched-another-row"
    | _, _ => some "row-revcomp-shape"

/-- `Set(pos, c)` through row `r`: that cell shows `c`, nothing else changes -/
def lawSet (b a : ObjV) (r : Nat) (pos : Int) (c : QL) : Why :=
  (check (a.rows.length == b.rows.length) "set-shape").and fun _ =>
  allIdx b.rows.length fun i =>
    match b.rows[i]?, a.rows[i]? with
    | some rb, some ra =>
      if i == r then
        let base : Int := match b.kind with | "aln" | "qaln" => b.start | _ => rb.start
        let idx := (pos - base).toNat
        let want := if rb.q then c else ⟨c.L, defaultQ⟩
        check (ra.cells[idx]? == some want &&
               ra.cells.length == rb.cells.length &&
               (List.range rb.cells.length).all (fun j => j == idx || ra.cells[j]? == rb.cells[j]?) &&
               ra.start == rb.start && ra.«end» == rb.«end» && ra.strand == rb.strand &&
               ra.name == rb.name && ra.q == rb.q)
          "set-wrong-cell"
      else check (ra == rb) "set-touched-another-row"
    | _, _ => some "set-shape"

/-- every object except `k` (and objects created by the operation) is observed unchanged:
    the independence of copies -/
def lawFrame (before after : List ObjV) (k : Option Nat) : Why :=
  allIdx before.length fun j =>
    if some j == k then none else
    check (after[j]? == before[j]?) s!"write-visible-through-another-object obj={j}"

end Biogo.Containers.Laws
