/-
What C09 demands of the feature pairs returned by an affine aligner, as executable
predicates on the returned list (they are evaluated on the implementation's own output by
`Drive/C09_aff`, and proved of the model's output in `Properties/C09_aff`).  Core only.
-/
import Biogo.Model.AlignAff

namespace Biogo.Spec.AffPairs
open Biogo.Spec.Alignment (Matrix Col Aln)
open Biogo.AlignAff (Pair)

/-- one pair is an equal-length ungapped block, a gap in exactly one sequence, or empty with
    zero score -/
def pairShape (p : Pair) : Bool :=
  decide (p.rs ≤ p.re) && decide (p.qs ≤ p.qe) &&
    (let lr := p.re - p.rs
     let lq := p.qe - p.qs
     (lr == lq && lr != 0) || (lr == 0 && lq != 0) || (lq == 0 && lr != 0) ||
       (lr == 0 && lq == 0 && p.score == 0))

/-- consecutive pairs abut in both sequences -/
def chain : List Pair → Bool
  | p :: p' :: ps => (p.re == p'.rs && p.qe == p'.qs) && chain (p' :: ps)
  | _ => true

def firstStart (ps : List Pair) : Nat × Nat := match ps.head? with | some p => (p.rs, p.qs) | none => (0, 0)
def lastEnd (ps : List Pair) : Nat × Nat := match ps.getLast? with | some p => (p.re, p.qe) | none => (0, 0)

/-- one monotone path of well-shaped pairs -/
def wellFormed (ps : List Pair) : Bool := !ps.isEmpty && ps.all pairShape && chain ps

/-- a global alignment spans both sequences entirely -/
def spansAll (ps : List Pair) (R C : Nat) : Bool :=
  firstStart ps == (0, 0) && lastEnd ps == (R, C)

/-- a local (or fitted) alignment stays within bounds -/
def inBounds (ps : List Pair) (R C : Nat) : Bool :=
  (lastEnd ps).1 ≤ R && (lastEnd ps).2 ≤ C

/-- the alignment columns a pair stands for -/
def pairCols (r q : List Nat) (p : Pair) : Aln :=
  let lr := p.re - p.rs
  let lq := p.qe - p.qs
  if lr = lq then
    (List.range lr).map fun k => Col.m (r.getD (p.rs + k) 0) (q.getD (p.qs + k) 0)
  else if lq = 0 then (List.range lr).map fun k => Col.u (r.getD (p.rs + k) 0)
  else if lr = 0 then (List.range lq).map fun k => Col.l (q.getD (p.qs + k) 0)
  else []

/-- the alignment a list of pairs describes -/
def colsOf (r q : List Nat) (ps : List Pair) : Aln := (ps.map (pairCols r q)).flatten

def sumRange (n : Nat) (f : Nat → Int) : Int := ((List.range n).map f).sum

/-- the score of one pair recomputed from the letters, the matrix and the gap parameters:
    a block is the sum of its letter pairs, a gap is `gapOpen` plus its per-letter gap
    scores, an empty pair is 0 -/
def pairScore (S : Matrix) (gapOpen : Int) (r q : List Nat) (p : Pair) : Int :=
  let lr := p.re - p.rs
  let lq := p.qe - p.qs
  if lr = 0 ∧ lq = 0 then 0
  else if lr = lq then sumRange lr fun k => S (r.getD (p.rs + k) 0) (q.getD (p.qs + k) 0)
  else if lq = 0 then gapOpen + sumRange lr fun k => S (r.getD (p.rs + k) 0) 0
  else if lr = 0 then gapOpen + sumRange lq fun k => S 0 (q.getD (p.qs + k) 0)
  else 0

/-- every reported score is the recomputed one -/
def faithful (S : Matrix) (gapOpen : Int) (r q : List Nat) (ps : List Pair) : Bool :=
  ps.all fun p => p.score == pairScore S gapOpen r q p

end Biogo.Spec.AffPairs
