/-
Spec for C10, part two: the plain scan of `Biogo.Spec.Kmer` arranged the way the implementation
reports an index — windows grouped by word (`KmerIndex`, `KmerFrequencies`, `KmerPositions`) or by
their lower-cased text (`StringKmerIndex`, `KmerPositionsString`), groups by increasing key,
positions increasing inside a group.  Core-only; these are the functions the driver evaluates on
the implementation's output, and `Properties/C10_checker.lean` proves what they compute
(`byWord_spec`, `byWord_lookup`, `byText_spec`, `byText_lookup`).
-/
import Biogo.Model.Alphabet

namespace Biogo.Spec.KmerGroup

/-- `(key, value)` pairs ordered by key (strict order `lt`), then by value -/
def lexLe {κ : Type} [BEq κ] (lt : κ → κ → Bool) (a b : κ × Nat) : Bool :=
  lt a.1 b.1 || (a.1 == b.1 && decide (a.2 ≤ b.2))

/-- the maximal runs of equal keys of a list, each as `(key, values in list order)` -/
def groupSorted {κ ν : Type} [BEq κ] : List (κ × ν) → List (κ × List ν)
  | [] => []
  | (k, v) :: xs =>
    match groupSorted xs with
    | (k', vs) :: rest => if k == k' then (k', v :: vs) :: rest else (k, [v]) :: (k', vs) :: rest
    | [] => [(k, [v])]

/-- sort by `(key, value)`, then group: `(key, increasing values)` by increasing key -/
def groupBy {κ : Type} [BEq κ] (lt : κ → κ → Bool) (keyed : List (κ × Nat)) : List (κ × List Nat) :=
  groupSorted (keyed.mergeSort (lexLe lt))

/-- the windows `(position, word)` of a plain scan grouped by word: `(word, positions)` by
    increasing word -/
def byWord (ws : List (Nat × Nat)) : List (Nat × List Nat) :=
  groupBy (fun a b => decide (a < b)) (ws.map fun c => (c.2, c.1))

/-- lexicographic order on byte strings -/
def ltBytes : List UInt8 → List UInt8 → Bool
  | [], [] => false
  | [], _ :: _ => true
  | _ :: _, [] => false
  | a :: as, b :: bs => a < b || (a == b && ltBytes as bs)

/-- the lower-cased `k` letters at position `p` -/
def textAt (s : Array UInt8) (k p : Nat) : List UInt8 :=
  (s.extract p (p + k)).toList.map Biogo.Alphabet.toLower

/-- the windows of a plain scan grouped by their lower-cased text -/
def byText (s : Array UInt8) (k : Nat) (ws : List (Nat × Nat)) : List (List UInt8 × List Nat) :=
  groupBy ltBytes (ws.map fun c => (textAt s k c.1, c.1))

end Biogo.Spec.KmerGroup
