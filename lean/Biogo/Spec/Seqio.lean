/-
The domain of C01/C04 (seq part): which records the properties quantify over, as explicit
decidable predicates shared by the theorems (`Biogo.Properties.C01`, `C04_seq`) and by the
driver (which evaluates the statement on the implementation's own output).  Core only.

* name: no white space — every byte is ASCII and not in Go's `asciiSpace` set;
* description: single line (no LF), ASCII, trimmed (first and last byte are not blanks);
  inner blanks and tabs are allowed;
* letters: ASCII non-blank bytes; for FASTA none is `>` (a wrapped line may start anywhere),
  for FASTQ the first is not `+`.  Every letter of every built-in nucleotide and protein
  alphabet satisfies this (`Biogo.Properties.C01.alphabet_letters_ok`);
* quality scores: inside the printable range of the encoding — `0..93` for the Phred+33
  encodings (Sanger, Illumina 1.8, 1.9), `0..62` for Illumina 1.3 and `2..62` for
  Illumina 1.5 (whose scores 0 and 1 are written as `B`), one score per letter.
-/
import Biogo.Model.Fasta
import Biogo.Model.Fastq

namespace Biogo.Spec.Seqio
open Biogo.Go.Bytes

/-- an ASCII byte that is not white space -/
def visible (b : UInt8) : Bool := b < 0x80 && !isAsciiSpace b

def nameOK (n : Bytes) : Bool := n.all visible

def descOK (d : Bytes) : Bool :=
  d.all (fun b => b < 0x80 && b != 10) &&
  (match d.head? with | some b => !isAsciiSpace b | none => true) &&
  (match d.getLast? with | some b => !isAsciiSpace b | none => true)

def fastaLettersOK (l : Bytes) : Bool := l.all (fun b => visible b && b != 62)

def fastqLettersOK (l : Bytes) : Bool := l.all visible && l.head? != some 43

/-- well-formed FASTA record -/
def wfFasta (r : Biogo.Fasta.Rec) : Bool := nameOK r.name && descOK r.desc && fastaLettersOK r.letters

open Biogo.Fastq in
/-- the printable score range `[lo, hi]` of a Phred-offset encoding and its offset -/
def phredRange : Encoding → Option (UInt8 × UInt8 × UInt8)
  | .sanger | .illumina1_8 | .illumina1_9 => some (0, 93, 33)
  | .illumina1_3 => some (0, 62, 64)
  | .illumina1_5 => some (2, 62, 64)
  | .solexa | .none => none

def qualsOK (e : Biogo.Fastq.Encoding) (qs : Bytes) : Bool :=
  match phredRange e with
  | some (lo, hi, _) => qs.all (fun q => lo ≤ q && q ≤ hi)
  | none => false

/-- well-formed FASTQ record of a `linear.QSeq` with encoding `e` -/
def wfFastq (e : Biogo.Fastq.Encoding) (r : Biogo.Fastq.QRec) : Bool :=
  nameOK r.name && descOK r.desc && fastqLettersOK r.letters &&
  qualsOK e r.quals && r.quals.length == r.letters.length

/-- well-formed record of a plain `linear.Seq` written as FASTQ (no scores of its own) -/
def wfFastqPlain (r : Biogo.Fastq.QRec) : Bool :=
  nameOK r.name && descOK r.desc && fastqLettersOK r.letters && r.quals.isEmpty

/-! ### layouts (C04; C01 is the special case "the writer's layout")

A file is a list of raw lines, each ended by LF except possibly the last (`Terminated`).
A raw line shows its content followed by any number of trailing blanks (`Padded`): the blanks
of Go's `asciiSpace` other than LF — so the CR of a CRLF terminator is a trailing blank, and
CRLF files, files with mixed terminators and files with trailing white space are all covered
by the same relation. -/

/-- blanks that may trail a line: tab, VT, FF, CR, space -/
def isBlank (b : UInt8) : Bool := b == 9 || b == 11 || b == 12 || b == 13 || b == 32

/-- `raw` is `c` followed by trailing blanks -/
def Padded (c raw : Bytes) : Prop := ∃ post, raw = c ++ post ∧ ∀ b ∈ post, isBlank b = true

/-- `bs` consists of the lines `lines`, each followed by LF; the last one may lack it
    (it is then non-empty: there is no line after a final LF) -/
inductive Terminated : List Bytes → Bytes → Prop
  | nil : Terminated [] []
  | last (l : Bytes) : l ≠ [] → (∀ b ∈ l, b ≠ 10) → Terminated [l] l
  | lf (l : Bytes) (ls : List Bytes) (bs : Bytes) :
      (∀ b ∈ l, b ≠ 10) → Terminated ls bs → Terminated (l :: ls) (l ++ 10 :: bs)

/-- every line followed by LF -/
def joinLF (lines : List Bytes) : Bytes := lines.flatMap (· ++ [10])

/-- the header line of a record: prefix, name, and ` description` if there is one -/
def headerLine (pfx : UInt8) (name desc : Bytes) : Bytes :=
  pfx :: name ++ (if desc.isEmpty then [] else 32 :: desc)

/-- FASTA: the sequence lines of one record are pieces of its letters in order, cut anywhere
    (any wrap width, also one single line); an empty piece is a blank line -/
inductive SeqLines : Bytes → List Bytes → Prop
  | nil : SeqLines [] []
  | cons (c raw ls : Bytes) (raws : List Bytes) :
      Padded c raw → SeqLines ls raws → SeqLines (c ++ ls) (raw :: raws)

/-- FASTA: the lines of a file holding exactly the records `recs` -/
inductive FastaLines : List Biogo.Fasta.Rec → List Bytes → Prop
  | nil : FastaLines [] []
  | blank (raw : Bytes) (recs : List Biogo.Fasta.Rec) (lines : List Bytes) :
      Padded [] raw → FastaLines recs lines → FastaLines recs (raw :: lines)
  | record (r : Biogo.Fasta.Rec) (h : Bytes) (body : List Bytes) (rs : List Biogo.Fasta.Rec) (rest : List Bytes) :
      Padded (headerLine 62 r.name r.desc) h → SeqLines r.letters body → FastaLines rs rest →
      FastaLines (r :: rs) (h :: body ++ rest)

/-- the bytes `bs` are the FASTA records `recs` in some layout: any wrapping of the sequence
    lines, blank lines anywhere, trailing blanks, LF or CRLF, final terminator or not -/
def FastaRenders (recs : List Biogo.Fasta.Rec) (bs : Bytes) : Prop :=
  ∃ lines, FastaLines recs lines ∧ Terminated lines bs

/-- FASTQ: the lines of a file holding exactly the records `recs`, whose quality lines are
    `qline r` (the encoded scores): four lines per record — header, letters, `+` or `+` with
    the header repeated, quality — and blank lines between records -/
inductive FastqLines (qline : Biogo.Fastq.QRec → Bytes) : List Biogo.Fastq.QRec → List Bytes → Prop
  | nil : FastqLines qline [] []
  | blank (raw : Bytes) (recs : List Biogo.Fastq.QRec) (lines : List Bytes) :
      Padded [] raw → FastqLines qline recs lines → FastqLines qline recs (raw :: lines)
  | record (r : Biogo.Fastq.QRec) (h s p q : Bytes) (rs : List Biogo.Fastq.QRec) (rest : List Bytes) :
      Padded (headerLine 64 r.name r.desc) h → Padded r.letters s →
      (Padded [43] p ∨ Padded (headerLine 43 r.name r.desc) p) → Padded (qline r) q →
      FastqLines qline rs rest → FastqLines qline (r :: rs) (h :: s :: p :: q :: rest)

/-- the bytes `bs` are the FASTQ records `recs` in some layout: blank lines between records,
    trailing blanks, LF or CRLF, final terminator or not.  The second alternative is the
    file whose last record has no letters and whose final newline is missing: its empty
    quality line has disappeared with the newline. -/
def FastqRenders (qline : Biogo.Fastq.QRec → Bytes) (recs : List Biogo.Fastq.QRec) (bs : Bytes) : Prop :=
  (∃ lines, FastqLines qline recs lines ∧ Terminated lines bs) ∨
  (∃ lines, FastqLines qline recs (lines ++ [[]]) ∧ bs = joinLF lines)

end Biogo.Spec.Seqio
