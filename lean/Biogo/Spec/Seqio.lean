/-
The domain of C01/C04 (seq part): which records the properties quantify over, as explicit
decidable predicates shared by the theorems (`Biogo.Properties.C01`, `C04_seq`) and by the
driver (which evaluates the statement on the implementation's own output).  Core only.

* name: no white space — every byte is ASCII and not in Go's `asciiSpace` set;
* description: single line (no LF), ASCII, trimmed (first and last byte are not blanks);
  inner blanks and tabs are allowed;
* letters: ASCII non-blank bytes; for FASTA none is `>` (a wrapped line may start anywhere),
  for FASTQ the first is not `+`.  Every letter of every built-in nucleotide and protein
  alphabet satisfies this (`Biogo.Properties.C01.alphabet_letters_ok`);
* quality scores: inside the printable range of the encoding — `0..93` for the Phred+33
  encodings (Sanger, Illumina 1.8, 1.9), `0..62` for Illumina 1.3 and `2..62` for
  Illumina 1.5 (whose scores 0 and 1 are written as `B`), one score per letter.
-/
import Biogo.Model.Fasta
import Biogo.Model.Fastq

namespace Biogo.Spec.Seqio
open Biogo.Go.Bytes

/-- an ASCII byte that is not white space -/
def visible (b : UInt8) : Bool := b < 0x80 && !isAsciiSpace b

def nameOK (n : Bytes) : Bool := n.all visible

def descOK (d : Bytes) : Bool :=
  d.all (fun b => b < 0x80 && b != 10) &&
  (match d.head? with | some b => !isAsciiSpace b | none => true) &&
  (match d.getLast? with | some b => !isAsciiSpace b | none => true)

def fastaLettersOK (l : Bytes) : Bool := l.all (fun b => visible b && b != 62)

def fastqLettersOK (l : Bytes) : Bool := l.all visible && l.head? != some 43

/-- well-formed FASTA record -/
def wfFasta (r : Biogo.Fasta.Rec) : Bool := nameOK r.name && descOK r.desc && fastaLettersOK r.letters

open Biogo.Fastq in
/-- the printable score range `[lo, hi]` of a Phred-offset encoding and its offset -/
def phredRange : Encoding → Option (UInt8 × UInt8 × UInt8)
  | .sanger | .illumina1_8 | .illumina1_9 => some (0, 93, 33)
  | .illumina1_3 => some (0, 62, 64)
  | .illumina1_5 => some (2, 62, 64)
  | .solexa | .none => none

def qualsOK (e : Biogo.Fastq.Encoding) (qs : Bytes) : Bool :=
  match phredRange e with
  | some (lo, hi, _) => qs.all (fun q => lo ≤ q && q ≤ hi)
  | none => false

/-- well-formed FASTQ record of a `linear.QSeq` with encoding `e` -/
def wfFastq (e : Biogo.Fastq.Encoding) (r : Biogo.Fastq.QRec) : Bool :=
  nameOK r.name && descOK r.desc && fastqLettersOK r.letters &&
  qualsOK e r.quals && r.quals.length == r.letters.length

/-- well-formed record of a plain `linear.Seq` written as FASTQ (no scores of its own) -/
def wfFastqPlain (r : Biogo.Fastq.QRec) : Bool :=
  nameOK r.name && descOK r.desc && fastqLettersOK r.letters && r.quals.isEmpty

end Biogo.Spec.Seqio
