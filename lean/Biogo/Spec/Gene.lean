/-
The statement of C20 as short executable predicates.  They are evaluated by the driver on the
implementation's output, and the theorems of `Properties/C20.lean` say that the model's output
satisfies them for all inputs.  Core-only.
-/
import Biogo.Model.Gene

namespace Biogo.Spec.Gene
open Biogo.Gene Biogo.Feat

/-! ### exons -/

/-- consecutive exons: sorted by start, the earlier one ends before the later one starts,
    both on the same transcript -/
def adjOK (a b : Exon) : Bool :=
  decide (a.start ≤ b.start) && decide (a.stop ≤ b.start) && decide (a.loc = b.loc)

/-- sorted, non-overlapping, on one location (checked on consecutive exons) -/
def sortedDisjoint : List Exon → Bool
  | [] => true
  | [_] => true
  | a :: b :: rest => adjOK a b && sortedDisjoint (b :: rest)

/-- a half-open interval `[start, stop)` -/
abbrev Piece := Int × Int

def Piece.has (x : Piece) (p : Int) : Bool := decide (x.1 ≤ p) && decide (p < x.2)

/-- The pieces abut, none has negative length, the first starts at `a` and the last ends
    at `b`: an exact tiling of `[a, b)` in the given order. -/
def tiles : Int → Int → List Piece → Bool
  | a, b, [] => decide (a = b)
  | a, b, x :: rest => decide (x.1 = a) && decide (x.1 ≤ x.2) && tiles x.2 b rest

/-- like `tiles` without the demand that pieces have non-negative length -/
def abuts : Int → Int → List Piece → Bool
  | a, b, [] => decide (a = b)
  | a, b, x :: rest => decide (x.1 = a) && abuts x.2 b rest

/-- exon, intron, exon, … in order -/
def interleave : List Exon → List Intron → List Piece
  | [], _ => []
  | e :: es, [] => (e.start, e.stop) :: interleave es []
  | e :: es, i :: is => (e.start, e.stop) :: (i.start, i.stop) :: interleave es is

/-- exons and introns alternate: one intron between two consecutive exons, none elsewhere -/
def alternate (es : List Exon) (is : List Intron) : Bool :=
  is.length + 1 == es.length || (es.isEmpty && is.isEmpty)

/-- introns are exactly the gaps between consecutive exons -/
def intronsFit : List Exon → List Intron → Bool
  | a :: b :: rest, i :: is =>
    decide (i.start = a.stop) && decide (i.stop = b.start) && decide (i.loc = b.loc) && intronsFit (b :: rest) is
  | _, _ => true

/-- every exon has non-negative length -/
def nonNeg (es : List Exon) : Bool := es.all fun e => decide (0 ≤ e.len)

/-- how many of the pieces contain position `p` -/
def cover (ps : List Piece) (p : Int) : Nat := (ps.filter (·.has p)).length

/-! ### UTR / CDS -/

/-- the three regions in the order in which they lie on the transcript -/
def utrOrder (o : Int) (u5 cds u3 : Piece) : List Piece :=
  if o = -1 then [u3, cds, u5] else [u5, cds, u3]

/-- a `TranscriptFeature` (Offset, Length) as the interval `[Start, End)` -/
def pieceOf (f : TF) : Piece := (f.start, f.stop)

/-! ### nested positions and orientations: closed forms -/

/-- the product of the orientations along the maximal run of orientable features from the
    bottom of the chain (what "base orientation" means) -/
def orientProduct : Chain → Int
  | [] => 1
  | x :: rest => if x.oriented then x.ori * orientProduct rest else 1

/-- the sum of the `Start()`s of a list of nodes -/
def startSum : List Node → Int
  | [] => 0
  | x :: rest => x.start + startSum rest

/-- the product of the orientations of a list of nodes, 0 if one of them is not orientable -/
def orientAll : List Node → Int
  | [] => 1
  | x :: rest => if x.oriented then x.ori * orientAll rest else 0

/-- the reference `BaseOrientationOf` names when the feature is orientable: the feature after
    the run of orientable features, or the last feature of the chain -/
def runRef : Node → Chain → Nat
  | f, [] => f.id
  | _, y :: rest => if y.oriented then runRef y rest else y.id

/-- the reference when the feature is not orientable: the first orientable location, or the
    last feature of the chain -/
def notRef : Node → Chain → Nat
  | f, [] => f.id
  | _, y :: rest => if y.oriented then y.id else notRef y rest

/-- `BaseOrientationOf` in closed form (no depth limit) -/
def baseOrientSpec : Chain → Option (Int × Nat)
  | [] => none
  | f :: rest =>
    if f.oriented then some (orientProduct (f :: rest), runRef f rest) else some (0, notRef f rest)

/-- the last feature of a chain -/
def lastId : Node → Chain → Nat
  | f, [] => f.id
  | _, y :: rest => lastId y rest

end Biogo.Spec.Gene
