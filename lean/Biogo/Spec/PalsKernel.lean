/-
The contract of the banded x-drop kernel of PALS (`align/pals/dp/kernel.go`), written as Lean
predicates: what `alignRecursion` may assume of `traceForward` and `traceReverse`, and what
follows for the hit it assembles from the two.  The kernel itself is not modelled here; the
predicates are validated per run on the implementation's hits (`Drive/C15.lean`) through the
consequences proved in `Properties/C15_kernel.lean`.  Core-only.

Coordinates: `i` = query position (row), `j` = target position (column), both counted as
boundaries between letters (`0 … len`).  `traceForward(mid, low, high)` starts on row `mid` with
score 0 in the columns `[low, high]` (clamped to the target) and a gap penalty per column beyond
`high` up to `MaxIGap` further; it extends downwards and returns the best cell.
`traceReverse(top, a, a, …)` starts at the single cell `(top, a)` — the forward end — with the
columns down to `a - MaxIGap` reachable at a gap penalty each, extends upwards and returns the
best cell.  A cell's value is the score of a path from the basis to that cell under
match `+SameCost` (`MatchCost - DiffCost`), mismatch / gap letter `-DiffCost`.
-/
import Biogo.Model.PalsOracle
import Biogo.Model.PalsKernel
import Biogo.Generated.PalsConsts

namespace Biogo.Spec.PalsKernel
open Biogo.Spec.Alignment Biogo.PalsOracle

/-- the letters of `s` between the boundaries `b` and `e` -/
def slice (s : List Nat) (b e : Int) : List Nat := (s.drop b.toNat).take (e - b).toNat

/-- `lowEnd` after `traceForward` -/
structure Fwd where
  aepos : Int
  bepos : Int
  score : Int
  deriving Repr, DecidableEq

/-- `highEnd` after `traceReverse`; `minDiag`/`maxDiag` are the least and greatest `i - j` over the
    cells kept in the band (`maxLeft`, `maxRight` in the source) -/
structure Rev where
  abpos : Int
  bbpos : Int
  score : Int
  minDiag : Int
  maxDiag : Int
  deriving Repr, DecidableEq

def clamp (x lo hi : Int) : Int := if x < lo then lo else if x > hi then hi else x

/-- **what `alignRecursion` may assume of `traceForward(mid, low, high)`**: the end cell lies in
    the sequences, not above the seed row; its score is non-negative and is the score of a path
    from the basis: an alignment of `target[j0, Aepos)` with `query[mid, Bepos)` for a start column
    `j0` between the clamped `low` and `high + MaxIGap`, minus the gap penalty for starting beyond
    `high`. -/
structure FwdOK (S : Matrix) (diffCost maxIGap : Int) (target query : List Nat) (mid low high : Int)
    (r : Fwd) : Prop where
  rows : mid ≤ r.bepos ∧ r.bepos ≤ query.length
  cols : 0 ≤ r.aepos ∧ r.aepos ≤ target.length
  nonneg : 0 ≤ r.score
  path : ∃ (j0 : Int) (a : Aln),
    clamp low 0 target.length ≤ j0 ∧ j0 ≤ max (clamp low 0 target.length) (clamp high 0 target.length) + maxIGap ∧
    j0 ≤ r.aepos ∧
    IsGlobal a (slice target j0 r.aepos) (slice query mid r.bepos) ∧
    r.score = scoreLin S a - diffCost * max 0 (j0 - max (clamp low 0 target.length) (clamp high 0 target.length))

/-- **what `alignRecursion` may assume of `traceReverse(top, a, a, bottom, xfactor)`** (whatever
    `bottom` and `xfactor`): the start cell lies in the sequences, at or before `(top, a)`; the score
    is non-negative; unless nothing was found (`Bbpos = top`, score 0, where `Abpos` is just the
    lower end of the basis) it is the score of a global alignment of `target[Abpos, a)` with
    `query[Bbpos, top)` — the basis cells left of `a` are target letters against gaps, so the
    alignment covers the target up to `a` itself; both corner cells lie within the recorded
    diagonal range. -/
structure RevOK (S : Matrix) (target query : List Nat) (top a : Int) (r : Rev) : Prop where
  rows : 0 ≤ r.bbpos ∧ r.bbpos ≤ top
  cols : 0 ≤ r.abpos ∧ r.abpos ≤ a
  nonneg : 0 ≤ r.score
  path : r.bbpos < top → ∃ aln : Aln,
    IsGlobal aln (slice target r.abpos a) (slice query r.bbpos top) ∧ scoreLin S aln = r.score
  diagStart : r.minDiag ≤ r.bbpos - r.abpos ∧ r.bbpos - r.abpos ≤ r.maxDiag
  diagEnd : r.minDiag ≤ top - a ∧ top - a ≤ r.maxDiag

/-- a hit as `alignRecursion` sends it to the result channel: `LowDiagonal`/`HighDiagonal` are
    `-maxDiag`/`-minDiag` ("diagonals to this point are query-target, not target-query") -/
structure KHit where
  h : Hit
  lowDiagonal : Int
  highDiagonal : Int
  deriving Repr, DecidableEq

/-- `k.highEnd` after `k.highEnd.Aepos, k.highEnd.Bepos = k.lowEnd.Aepos, k.lowEnd.Bepos` and
    the swap of the diagonals -/
def assemble (f : Fwd) (r : Rev) : KHit :=
  { h := { abpos := r.abpos, bbpos := r.bbpos, aepos := f.aepos, bepos := f.bepos, score := r.score }
    lowDiagonal := -r.maxDiag
    highDiagonal := -r.minDiag }

/-- **the contract of a reported hit**: both regions lie in the sequences, the score is
    non-negative and — for a hit with a non-empty query region, as every reported hit is — the score
    of some global alignment of the two regions; the diagonals `A - B` of both ends lie in
    `[LowDiagonal, HighDiagonal]`. -/
structure HitOK (S : Matrix) (target query : List Nat) (k : KHit) : Prop where
  aRegion : 0 ≤ k.h.abpos ∧ k.h.abpos ≤ k.h.aepos ∧ k.h.aepos ≤ target.length
  bRegion : 0 ≤ k.h.bbpos ∧ k.h.bbpos ≤ k.h.bepos ∧ k.h.bepos ≤ query.length
  nonneg : 0 ≤ k.h.score
  path : k.h.bbpos < k.h.bepos → ∃ aln : Aln,
    IsGlobal aln (slice target k.h.abpos k.h.aepos) (slice query k.h.bbpos k.h.bepos) ∧
    scoreLin S aln = k.h.score
  diagStart : k.lowDiagonal ≤ k.h.abpos - k.h.bbpos ∧ k.h.abpos - k.h.bbpos ≤ k.highDiagonal
  diagEnd : k.lowDiagonal ≤ k.h.aepos - k.h.bepos ∧ k.h.aepos - k.h.bepos ≤ k.highDiagonal

/-! ### the per-hit consistency conditions the driver evaluates (consequences of `HitOK`,
`Properties/C15_kernel.lean`) -/

/-- is `s·(alen+blen) − 2·Score = (s+2d)·g + (2s+2d)·x` solvable with `g ≥ indel`, `g ≡ indel (2)`,
    `x ≥ 0`?  (`g` = gap letters, `x` = mismatch columns of the alignment; `s = SameCost`,
    `d = DiffCost`; for `s = 1, d = 3`: `7g + 8x`.) -/
def representable (s d : Int) (total indel : Int) : Bool :=
  (List.range (total.toNat + 1)).any fun t =>
    let g := indel + 2 * (t : Int)
    decide ((s + 2 * d) * g ≤ total) && decide ((total - (s + 2 * d) * g) % (2 * s + 2 * d) = 0)

/-- the conditions, for scoring `+s / −d`: `0 ≤ Score ≤ s·min(alen, blen) − d·indel`;
    `errNum = blen − (Score − indel) ≥ (d + s)·indel − (s − 1)·…` is implied and not listed;
    the representability of `s·(alen+blen) − 2·Score`; both ends inside the diagonal range. -/
def consistent (s d : Int) (k : KHit) : Bool :=
  let alen := k.h.alen
  let blen := k.h.blen
  decide (0 ≤ k.h.score) &&
  decide (k.h.score ≤ s * min alen blen - d * k.h.indel) &&
  representable s d (s * (alen + blen) - 2 * k.h.score) k.h.indel &&
  decide (k.lowDiagonal ≤ k.h.abpos - k.h.bbpos) && decide (k.h.abpos - k.h.bbpos ≤ k.highDiagonal) &&
  decide (k.lowDiagonal ≤ k.h.aepos - k.h.bepos) && decide (k.h.aepos - k.h.bepos ≤ k.highDiagonal)

/-- `pals.defaultCosts` as the kernel model reads it, from the regenerated constants (the driver
    runs the kernel model with exactly this record) -/
def palsCosts : Biogo.PalsKernel.Costs :=
  { maxIGap := Biogo.Generated.Pals.MaxIGap, diffCost := Biogo.Generated.Pals.DiffCost,
    matchCost := Biogo.Generated.Pals.MatchCost, blockCost := Biogo.Generated.Pals.BlockCost,
    rMatchCost := Biogo.Generated.Pals.RMatchCost }

end Biogo.Spec.PalsKernel
