/-
What C16 states, independently of the piler: features, the "overlap or abut" relation, chains,
and `IsComponents fs ps` — the piles `ps` are exactly the overlap-connected components of the
accepted features `fs`.  Also the executable checker `checkPiles` that the driver runs on the
implementation's output (proved sound in `Biogo/Proofs/PilesCheck.lean`).  Core-only.
-/
import Biogo.Model.Piler

namespace Biogo.Spec.Piles
open Biogo.Piler

/-- two features on the same location overlap or abut (closed overlap, zero slack);
    features are half-open `[s,e)`, so `[0,5)` and `[5,9)` abut and touch -/
def touches (a b : Key) : Bool := a.loc == b.loc && decide (a.s ≤ b.e) && decide (b.s ≤ a.e)

/-- accepted features: `(id, key)` -/
abbrev Feats := List (Nat × Key)

def Touch (fs : Feats) (i j : Nat) : Prop :=
  ∃ ki kj, (i, ki) ∈ fs ∧ (j, kj) ∈ fs ∧ touches ki kj = true

/-- linked by a chain of overlapping or abutting features on the same location -/
inductive Linked (fs : Feats) : Nat → Nat → Prop
  | refl {i k} : (i, k) ∈ fs → Linked fs i i
  | tail {i j k} : Linked fs i j → Touch fs j k → Linked fs i k

def SamePile (ps : List Pile) (i j : Nat) : Prop := ∃ p ∈ ps, i ∈ p.imgs ∧ j ∈ p.imgs

/-- The statement of C16 for one `Piles(nil)` result `ps` over accepted features `fs`. -/
structure IsComponents (fs : Feats) (ps : List Pile) : Prop where
  /-- every added feature appears in exactly one pile -/
  once : (ps.flatMap (·.imgs)).Perm (fs.map (·.1))
  /-- piles of one location are pairwise disjoint (and do not even abut) -/
  disjoint : ps.Pairwise fun p q => p.loc = q.loc → p.e < q.s ∨ q.e < p.s
  /-- members lie on the pile's location and inside its interval -/
  inside : ∀ p ∈ ps, ∀ i ∈ p.imgs, ∀ k, (i, k) ∈ fs → k.loc = p.loc ∧ p.s ≤ k.s ∧ k.e ≤ p.e
  /-- the pile's interval is the union of its members' intervals (half-open) -/
  union : ∀ p ∈ ps, ∀ x : Int, p.s ≤ x → x < p.e →
            ∃ i k, i ∈ p.imgs ∧ (i, k) ∈ fs ∧ k.s ≤ x ∧ x < k.e
  /-- the pile's end points are end points of members -/
  ends : ∀ p ∈ ps, (∃ i k, i ∈ p.imgs ∧ (i, k) ∈ fs ∧ k.s = p.s) ∧
                    (∃ i k, i ∈ p.imgs ∧ (i, k) ∈ fs ∧ k.e = p.e)
  /-- two features share a pile exactly when a chain links them -/
  share_iff : ∀ i j ki kj, (i, ki) ∈ fs → (j, kj) ∈ fs → (SamePile ps i j ↔ Linked fs i j)

/-! ### executable checker -/

def resolve (fs : Feats) : List Nat → Option (List (Nat × Key))
  | [] => some []
  | i :: is =>
    match fs.lookup i, resolve fs is with
    | some k, some r => some ((i, k) :: r)
    | _, _ => none

/-- walk the members in the given order: each must touch an earlier one; returns the hull -/
def chainHull (seen : List (Nat × Key)) (lo hi : Int) : List (Nat × Key) → Option (Int × Int)
  | [] => some (lo, hi)
  | x :: rest =>
    if seen.any (fun y => touches y.2 x.2) then
      chainHull (x :: seen) (min lo x.2.s) (max hi x.2.e) rest
    else none

def checkPile (fs : Feats) (p : Pile) : Bool :=
  match resolve fs p.imgs with
  | none => false
  | some ms =>
    ms.all (fun m => m.2.loc == p.loc) &&
    match ms.mergeSort (fun a b => decide (a.2.s ≤ b.2.s)) with
    | [] => false
    | m :: rest => chainHull [m] m.2.s m.2.e rest == some (p.s, p.e)

def sepPile (p q : Pile) : Bool := p.loc != q.loc || decide (p.e < q.s) || decide (q.e < p.s)

def sepAll : List Pile → Bool
  | [] => true
  | p :: ps => ps.all (sepPile p) && sepAll ps

def nodupIds : List Nat → Bool
  | [] => true
  | i :: is => !is.contains i && nodupIds is

def featsOK (fs : Feats) : Bool := nodupIds (fs.map (·.1)) && fs.all fun f => decide (f.2.s ≤ f.2.e)

def onceOK (fs : Feats) (ps : List Pile) : Bool := (ps.flatMap (·.imgs)).isPerm (fs.map (·.1))

/-- the statement of C16 evaluated on a reported list of piles -/
def checkPiles (fs : Feats) (ps : List Pile) : Bool :=
  featsOK fs && onceOK fs ps && ps.all (checkPile fs) && sepAll ps

end Biogo.Spec.Piles
