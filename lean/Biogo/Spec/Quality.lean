/-
Executable statements of C18, in exact integer arithmetic (no floating point, no real
powers).  Each predicate below is an inequality between the analytic quantity named in the
property and the value under test, with every irrational power removed by raising both sides
to the 10th or 20th power, or — for the Phred/Solexa conversion, where a sum sits under the
logarithm — by enclosing t = 10^(1/20) between two rationals whose 20th powers are compared
with 10 exactly.  The driver evaluates these predicates on the implementation's outputs; the
theorems of `Biogo.Properties.C18` say they hold for every entry of the regenerated tables.
Core-only.
-/
import Biogo.Model.Quality

namespace Biogo.Quality

/-- `p1 ≤ p2` for exact values -/
def Prob.le : Prob → Prob → Bool
  | .val m1 k1, .val m2 k2 => m1 * 2 ^ k2 ≤ m2 * 2 ^ k1
  | _, _ => false

def Prob.isZero : Prob → Bool
  | .val 0 _ => true
  | _ => false

/-- scale `p` by `(1 + s·2^-40)`, s = ±1 -/
def Prob.nudge (up : Bool) : Prob → Prob
  | .val m k => .val (if up then m * (2 ^ 40 + 1) else m * (2 ^ 40 - 1)) (k + 40)
  | p => p

end Biogo.Quality

namespace Biogo.Quality.Spec
open Biogo.Quality

/-! ### printable ranges (from the Encoding documentation: Phred+33, Phred+64, Solexa+64,
    printable bytes '!' … '~'; Illumina 1.5 starts at 'B') -/

def codeNone : Int := -1
def codeSanger : Int := 0
def codeSolexa : Int := 1
def codeIllumina1_3 : Int := 2
def codeIllumina1_5 : Int := 3
def codeIllumina1_8 : Int := 4
def codeIllumina1_9 : Int := 5

def allEncodings : List Int := [-1, 0, 1, 2, 3, 4, 5]
/-- the encodings that store a Phred score plus an offset -/
def phredOffsetEncodings : List Int := [0, 2, 3, 4, 5]

/-- offset of an encoding, from its documentation -/
def docOffset (e : Int) : Nat := if e = 0 ∨ e = 4 ∨ e = 5 then 33 else 64
/-- lowest byte an encoding uses -/
def docLowest (e : Int) : Nat := if e = 3 then 66 else 33

/-- Phred score `q` has a printable byte under Phred-offset encoding `e` -/
def printablePhred (e : Int) (q : Nat) : Bool :=
  phredOffsetEncodings.contains e && docLowest e ≤ q + docOffset e && q + docOffset e ≤ 126

/-- Solexa score `qs` has a printable byte under the Solexa encoding: -31 … 62 -/
def printableSolexa (qs : Int) : Bool := 33 ≤ qs + 64 && qs + 64 ≤ 126

/-! ### error probabilities -/

/-- `10^e ≤ a/b` for an integer exponent (b > 0) -/
def pow10Le (e : Int) (a b : Nat) : Bool :=
  if e ≥ 0 then 10 ^ e.toNat * b ≤ a else b ≤ a * 10 ^ (-e).toNat
/-- `a/b ≤ 10^e` -/
def lePow10 (a b : Nat) (e : Int) : Bool :=
  if e ≥ 0 then a ≤ 10 ^ e.toNat * b else a * 10 ^ (-e).toNat ≤ b
/-- `10^e < a/b` -/
def pow10Lt (e : Int) (a b : Nat) : Bool :=
  if e ≥ 0 then 10 ^ e.toNat * b < a else b < a * 10 ^ (-e).toNat

/-- `p` is `10^(-q/10)` to relative accuracy δ = 2^-47:
    `(p(1-δ))^10 ≤ 10^-q ≤ (p(1+δ))^10`, with p = m/2^k. -/
def phredProbClose (q : Nat) : Prob → Bool
  | .val m k =>
    (m * (2 ^ 47 - 1)) ^ 10 * 10 ^ q ≤ 2 ^ (10 * (k + 47)) &&
    2 ^ (10 * (k + 47)) ≤ (m * (2 ^ 47 + 1)) ^ 10 * 10 ^ q
  | _ => false

/-- `p` is `1/(1+10^(qs/10))` to relative accuracy δ = 2^-47.  With x = 10^(qs/10):
    `p(1-δ) ≤ 1/(1+x) ≤ p(1+δ)`  ⇔  `1/(p(1+δ)) - 1 ≤ x ≤ 1/(p(1-δ)) - 1`, and each side is
    raised to the 10th power (a negative lower bound holds trivially).  With p = m/2^k,
    A = 2^(k+47), B± = m(2^47 ± 1):  `1/(p(1±δ)) - 1 = (A - B±)/B±`. -/
def solexaProbClose (qs : Int) : Prob → Bool
  | .val m k =>
    let A := 2 ^ (k + 47)
    let Bp := m * (2 ^ 47 + 1)
    let Bm := m * (2 ^ 47 - 1)
    m ≠ 0 && Bm < A &&
    (A ≤ Bp || lePow10 ((A - Bp) ^ 10) (Bp ^ 10) qs) &&
    pow10Le qs ((A - Bm) ^ 10) (Bm ^ 10)
  | _ => false

/-- `q` is the Phred score nearest to `-10·log10 p`, capped at 254 as `Ephred` does:
    `q - 1/2 ≤ -10·log10 p < q + 1/2`  ⇔  `10^-(2q+1) < p^20 ≤ 10^-(2q-1)`;
    the cap 254 has no lower bound; p = 0 ↦ 254 and NaN ↦ 255 by definition. -/
def phredNearest (p : Prob) (q : Nat) : Bool :=
  match p with
  | .nan => q == 255
  | .bad => false
  | .val 0 _ => q == 254
  | .val m k =>
    q ≤ 254 &&
    (q == 254 || pow10Lt (-(2 * (q : Int) + 1)) (m ^ 20) (2 ^ (20 * k))) &&
    lePow10 (m ^ 20) (2 ^ (20 * k)) (-(2 * (q : Int) - 1))

/-- `qs` is the Solexa score nearest to `-10·log10 odds` for odds = a/b (a, b > 0), kept within
    -127 … 127: `10^-(2qs+1) ≤ odds^20 ≤ 10^-(2qs-1)`; at the ends of the range one side is
    dropped. -/
def oddsNearest (a b : Nat) (qs : Int) : Bool :=
  -127 ≤ qs && qs ≤ 127 &&
  (qs == 127 || pow10Le (-(2 * qs + 1)) (a ^ 20) (b ^ 20)) &&
  (qs == -127 || lePow10 (a ^ 20) (b ^ 20) (-(2 * qs - 1)))

/-- `qs` is the Solexa score nearest to `-10·log10 (p/(1-p))`, kept within -127 … 127.
    p = 0 ↦ 127 and NaN ↦ -128 by definition; p = 1 ↦ -127 (the odds are infinite). -/
def solexaNearest (p : Prob) (qs : Int) : Bool :=
  match p with
  | .nan => qs == -128
  | .bad => false
  | .val 0 _ => qs == 127
  | .val m k => if 2 ^ k ≤ m then qs == -127 else oddsNearest m (2 ^ k - m) qs

/-- `phredNearest`, or the probability is within relative 2^-40 of a rounding boundary and
    `q` is the score on the other side (what is asked of the float function `Ephred`) -/
def phredNearestTol (p : Prob) (q : Nat) : Bool :=
  phredNearest p q || phredNearest (p.nudge true) q || phredNearest (p.nudge false) q

/-- `solexaNearest`, or the odds are within relative 2^-40 of a rounding boundary and `qs` is
    the score on the other side (what is asked of the float function `Esolexa`) -/
def solexaNearestTol (p : Prob) (qs : Int) : Bool :=
  solexaNearest p qs ||
  (match p with
   | .val m k =>
     m ≠ 0 && m < 2 ^ k &&
     (oddsNearest (m * (2 ^ 40 + 1)) ((2 ^ k - m) * 2 ^ 40) qs ||
      oddsNearest (m * (2 ^ 40 - 1)) ((2 ^ k - m) * 2 ^ 40) qs)
   | _ => false)

/-! ### Phred ↔ Solexa conversion

With t = 10^(1/20):  Solexa(q) = 10·log10(10^(q/10) - 1) and qs is nearest to it iff
`t^(2qs-1) + 1 ≤ t^(2q) ≤ t^(2qs+1) + 1`; Phred(qs) = 10·log10(10^(qs/10) + 1) and q is
nearest to it iff `t^(2q-1) ≤ t^(2qs) + 1 ≤ t^(2q+1)`.  t is enclosed by `tLo/tDen < t <
tHi/tDen` (`enclosure_ok`: `tLo^20 < 10·tDen^20 < tHi^20`), which gives rational lower and
upper bounds of every integer power of t; the predicates below hold only if the inequalities
hold for *every* value in the enclosure. -/

def tLo : Nat := 1122018454301
def tHi : Nat := 1122018454302
def tDen : Nat := 1000000000000

def enclosureOK : Bool := tLo ^ 20 < 10 * tDen ^ 20 && 10 * tDen ^ 20 < tHi ^ 20

/-- a lower bound (numerator, denominator) of t^n -/
def tPowLo (n : Int) : Nat × Nat :=
  if n ≥ 0 then (tLo ^ n.toNat, tDen ^ n.toNat) else (tDen ^ (-n).toNat, tHi ^ (-n).toNat)
/-- an upper bound of t^n -/
def tPowHi (n : Int) : Nat × Nat :=
  if n ≥ 0 then (tHi ^ n.toNat, tDen ^ n.toNat) else (tDen ^ (-n).toNat, tLo ^ (-n).toNat)

/-- `x + 1 ≤ y` for fractions -/
def fracSuccLe (x y : Nat × Nat) : Bool := (x.1 + x.2) * y.2 ≤ y.1 * x.2
/-- `x ≤ y + 1` -/
def fracLeSucc (x y : Nat × Nat) : Bool := x.1 * y.2 ≤ (y.1 + y.2) * x.2
/-- `x ≤ y` -/
def fracLe (x y : Nat × Nat) : Bool := x.1 * y.2 ≤ y.1 * x.2

/-- `qs` is the integer nearest to the analytic Solexa value of Phred score `q ≥ 1` -/
def phredToSolexaNearest (q : Nat) (qs : Int) : Bool :=
  fracSuccLe (tPowHi (2 * qs - 1)) (tPowLo (2 * (q : Int))) &&
  fracLeSucc (tPowHi (2 * (q : Int))) (tPowLo (2 * qs + 1))

/-- `q` is the integer nearest to the analytic Phred value of Solexa score `qs` -/
def solexaToPhredNearest (qs : Int) (q : Nat) : Bool :=
  fracLeSucc (tPowHi (2 * (q : Int) - 1)) (tPowLo (2 * qs)) &&
  fracSuccLe (tPowHi (2 * qs)) (tPowLo (2 * (q : Int) + 1))

/-! ### "so they agree with each other's error probabilities"

A score rounded to nearest is at most half a score from the analytic value, i.e. its
probability (Phred) or its odds (Solexa) is within a factor 10^(1/20) of the probability it was
converted from: `(ratio)^20 ∈ [1/10, 10]`, widened by 2^-40 for the accuracy of the float
tables. -/

/-- `(N/D)^20 ∈ [1/10, 10]` up to relative 2^-40 -/
def withinHalfScore (N D : Nat) : Bool :=
  D ^ 20 * (2 ^ 40 - 1) ≤ 10 * 2 ^ 40 * N ^ 20 && N ^ 20 * 2 ^ 40 ≤ 10 * (2 ^ 40 + 1) * D ^ 20

/-- Phred q ↦ Solexa qs: the odds of the Solexa probability against the odds of the Phred
    probability -/
def oddsAgree : Prob → Prob → Bool
  | .val ms ks, .val mp kp => ms < 2 ^ ks && mp < 2 ^ kp && mp ≠ 0 &&
      withinHalfScore (ms * (2 ^ kp - mp)) ((2 ^ ks - ms) * mp)
  | _, _ => false

/-- Solexa qs ↦ Phred q: the Phred probability against the Solexa probability -/
def probsAgree : Prob → Prob → Bool
  | .val mp kp, .val ms ks => ms ≠ 0 && withinHalfScore (mp * 2 ^ ks) (ms * 2 ^ kp)
  | _, _ => false

end Biogo.Quality.Spec
