/-
The class of alignments `FittedAffine` actually explores for a given end (what remains of
finding K3 once the traceback is layer-aware), stated on alignments only — independent of
any dynamic program.  Core only.

The fill of `FittedAffine`
  * takes the end value from the match layer of the last column only: the alignment ends with
    a letter pair;
  * keeps the free reference prefix in the `up` layer of column 0 (`{−∞, 0, −∞}`), which feeds
    the match layer of column 1 but not its `left` layer: after a skipped reference prefix the
    alignment starts with a letter pair; only when it starts at reference position 0 may it
    start with a gap in the reference (row 0), and it never starts with a gap in the query;
  * has no `up ↔ left` transition (K1).
-/
import Biogo.Spec.Alignment

namespace Biogo.Spec.FittedRestricted
open Biogo.Spec.Alignment

/-- kind of the first column -/
def firstKind (a : Aln) : Option Kind := a.head?.map Col.kind

/-- kind of the last column -/
def lastKind (a : Aln) : Option Kind := a.getLast?.map Col.kind

/-- `a` aligns all of `q` with a reference segment ending just before `e`, has no gap directly
    next to a gap in the other sequence, ends with a letter pair, and starts with a letter pair
    — or, when its reference segment starts at position 0, with a gap in the reference -/
def IsFittedRestricted (a : Aln) (r q : List Nat) (e : Nat) : Prop :=
  IsFitted a r q e ∧ NoAdj a ∧ lastKind a = some .m ∧
    (firstKind a = some .m ∨ (firstKind a = some .l ∧ (projR a).length = e))

end Biogo.Spec.FittedRestricted
