/-
Reference dynamic programs for the affine gap model of `Biogo.Spec.Alignment.scoreAff`,
independent of the aligners' code: the optimum over *all* alignments (Gotoh's recurrences
with the `up → left` and `left → up` transitions, `cross = true`) and the optimum over the
alignments with no gap directly next to a gap in the other sequence (`cross = false`, the
class the aligners explore, finding K1), for the three alignment classes

  global            freeR = false, freeQ = false     value of the last cell
  fitted, end e     freeR = true,  freeQ = false     value of cell (e, |q|)
  local             freeR = true,  freeQ = true      maximum over all cells (≥ 0)

The drivers of C08 use these as the yardstick for the implementation's total;
`Biogo.Proofs.AffineOpt` proves them optimal.  Core only.
-/
import Biogo.Model.AlignAff

namespace Biogo.Spec.AffineOpt
open Biogo.Spec.Alignment (Kind Matrix)
open Biogo.AlignAff (V Cell vadd max2 max3 scanRow fillRows noCell)

structure Flags where
  cross : Bool      -- a gap may directly follow a gap in the other sequence
  freeR : Bool      -- the alignment may start anywhere in the reference
  freeQ : Bool      -- the alignment may start anywhere in the query
  deriving DecidableEq, Repr

/-- value of the empty alignment when it is admissible at a cell -/
def emptyAt (ok : Bool) : V := if ok then some 0 else none

def gapVal (fl : Flags) (gapOpen g : Int) (pd ps po : V) : V :=
  max3 (vadd pd (gapOpen + g)) (vadd ps g) (if fl.cross then vadd po (gapOpen + g) else none)

/-- cell `(i, j)`, `i, j ≥ 1`.  The `d` layer holds the best alignment that is empty or ends
    with a match column, `u` / `l` the best ending with a gap in the query / reference. -/
def optCell (fl : Flags) (S : Matrix) (gapOpen : Int) (x : Nat) (pd pu lc : Cell) (y : Nat) : Cell :=
  { d := max2 (emptyAt (fl.freeR && fl.freeQ)) (vadd (max3 pd.d pd.u pd.l) (S x y))
    u := gapVal fl gapOpen (S x 0) pu.d pu.u pu.l
    l := gapVal fl gapOpen (S 0 y) lc.d lc.l lc.u }

/-- cell `(i, 0)`, `i ≥ 1` -/
def optFirst (fl : Flags) (S : Matrix) (gapOpen : Int) (_ : Bool) (prevFirst : Cell) (x : Nat) : Cell :=
  { d := emptyAt fl.freeR
    u := gapVal fl gapOpen (S x 0) prevFirst.d prevFirst.u prevFirst.l
    l := none }

/-- cells `(0, j)`, `j ≥ 1` -/
def optRow0Tail (fl : Flags) (S : Matrix) (gapOpen : Int) : Cell → List Nat → List Cell
  | _, [] => []
  | lc, y :: ys =>
    let cell : Cell := { d := emptyAt fl.freeQ, u := none, l := gapVal fl gapOpen (S 0 y) lc.d lc.l lc.u }
    cell :: optRow0Tail fl S gapOpen cell ys

def origin : Cell := ⟨some 0, none, none⟩

def optRows (fl : Flags) (S : Matrix) (gapOpen : Int) (r q : List Nat) : List (List Cell) :=
  let r0 := origin :: optRow0Tail fl S gapOpen origin q
  r0 :: fillRows (optFirst fl S gapOpen) (optCell fl S gapOpen) q true r0 r

def cellBest (c : Cell) : V := max3 c.d c.u c.l

def rowAt (rows : List (List Cell)) (i j : Nat) : Cell := (rows.getD i []).getD j noCell

/-- optimum over global alignments of `r` and `q` -/
def globalOpt (cross : Bool) (S : Matrix) (gapOpen : Int) (r q : List Nat) : V :=
  cellBest (rowAt (optRows ⟨cross, false, false⟩ S gapOpen r q) r.length q.length)

/-- optimum over alignments of all of `q` with a segment of `r` ending just before `e` -/
def fittedOpt (cross : Bool) (S : Matrix) (gapOpen : Int) (r q : List Nat) (e : Nat) : V :=
  cellBest (rowAt (optRows ⟨cross, true, false⟩ S gapOpen r q) e q.length)

def maxOver (cells : List Cell) (init : V) : V := cells.foldl (fun acc c => max2 acc (cellBest c)) init

/-- optimum over local alignments (the empty alignment scores 0) -/
def localOpt (cross : Bool) (S : Matrix) (gapOpen : Int) (r q : List Nat) : V :=
  (optRows ⟨cross, true, true⟩ S gapOpen r q).foldl (fun acc row => maxOver row acc) (some 0)

end Biogo.Spec.AffineOpt
