/-
Spec for C14 (PALS q-gram filter completeness): ε-matches, coverage of a match by a filter hit,
and the executable checker the driver runs on the implementation's hits.  Core-only.

Sequences are compared through the alphabet's lookup (so `A` and `a` are the same letter and
two invalid letters never match), which is how the k-mer index sees them.
-/
import Biogo.Spec.Kmer
import Std.Data.HashMap

namespace Biogo.Spec.Filter
open Biogo.Spec.Kmer (Lookup)

/-- letters at target position `i` and query position `j` differ (or are missing/invalid) -/
def mismatchAt (lk : Lookup) (t q : List UInt8) (i j : Nat) : Bool :=
  match t[i]?, q[j]? with
  | some x, some y =>
    match lk x, lk y with
    | some dx, some dy => dx != dy
    | _, _ => true
  | _, _ => true

/-- the mismatch flags of the `n` columns of the diagonal from `(a, b)` -/
def flagsFrom (lk : Lookup) (t q : List UInt8) : Nat → Nat → Nat → List Bool
  | _, _, 0 => []
  | a, b, n + 1 => mismatchAt lk t q a b :: flagsFrom lk t q (a + 1) (b + 1) n

/-- number of mismatching columns between `t[a : a+n]` and `q[b : b+n]` -/
def mismatches (lk : Lookup) (t q : List UInt8) (a b n : Nat) : Nat :=
  (flagsFrom lk t q a b n).countP id

/-- `t[a : a+n]` and `q[b : b+n]` are windows inside the sequences that differ in at most `e`
    substitutions -/
def EpsMatch (lk : Lookup) (t q : List UInt8) (n e a b : Nat) : Prop :=
  a + n ≤ t.length ∧ b + n ≤ q.length ∧ mismatches lk t q a b n ≤ e

instance (lk : Lookup) (t q : List UInt8) (n e a b : Nat) : Decidable (EpsMatch lk t q n e a b) := by
  unfold EpsMatch; infer_instance

/-- offsets `i ≤ n - k` at which the match shares a k-mer: the words at `t[a+i]` and `q[b+i]`
    are defined and equal (the pair lies on the diagonal of the match) -/
def sharedKmers (lk : Lookup) (k : Nat) (t q : List UInt8) (a b n : Nat) : List Nat :=
  (List.range (n + 1 - k)).filter fun i =>
    match Biogo.Spec.Kmer.wordAt lk k t (a + i), Biogo.Spec.Kmer.wordAt lk k q (b + i) with
    | some w, some w' => w == w'
    | _, _ => false

/-- a reported filter hit: query interval `[from, to)` and the diagonal `a - b` of the upper edge
    of its band; the band is `tubeWidth = TubeOffset + MaxError` diagonals wide (this is how
    `MergeFilterHit` reads a hit: `Left = -Diagonal`, `Right = Left + tubeWidth - 1`) -/
structure Hit where
  from_ : Int
  to : Int
  diagonal : Int
  deriving Repr, DecidableEq

/-- hit `h` covers the match at target `a`, query `b`: its diagonal band contains the match
    diagonal and its query interval overlaps the match -/
def covers (tubeWidth n : Nat) (h : Hit) (a b : Nat) : Bool :=
  let d : Int := (a : Int) - b
  decide (h.diagonal - ((tubeWidth : Int) - 1) ≤ d) && decide (d ≤ h.diagonal) &&
  decide (h.from_ < (b : Int) + n) && decide ((b : Int) < h.to)

def Covered (hits : List Hit) (tubeWidth n a b : Nat) : Prop :=
  ∃ h ∈ hits, covers tubeWidth n h a b = true

/-- in self-comparison only matches strictly above the main diagonal are required -/
def required (selfAlign : Bool) (a b : Nat) : Bool := !selfAlign || decide (a < b)

/-- what is required of one strand of a comparison, as `pals.go` drives the filter
    (`Filter(working, selfCompare, complement, …)`, `working` = the reverse complement of the query on
    the complement strand).  Forward strand: `required`.  Complement strand of a self comparison
    (`q = revcomp t`, `Tlen = Qlen = L`): the window pair `(a, b)` is the pair of regions
    `X = [a, a+n)`, `Y = [L-b-n, L-b)` of the one sequence (X read forward against Y read as its
    reverse complement), and the same pair of regions appears a second time, mirrored about the
    anti-diagonal, as `(L-b-n, L-a-n)`.  The filter cuts every k-mer below the anti-diagonal
    (`q < Tlen - t`); the matches none of whose k-mers is cut are those with `Tlen ≤ a + b`, and of
    the two images of a pair of *disjoint* regions exactly one satisfies it (`a + b ≥ L` or
    `a + b + 2n ≤ L`; the mirror image of the latter has `a' + b' ≥ L`).  So requiring these makes
    every inverted repeat with disjoint arms found exactly once; together with the forward strand
    (`a < b`) every repeat pair is found once. -/
def requiredC (selfAlign complement : Bool) (tlen a b : Nat) : Bool :=
  !selfAlign || (if complement then decide (tlen ≤ a + b) else decide (a < b))

theorem requiredC_false (selfAlign : Bool) (tlen a b : Nat) :
    requiredC selfAlign false tlen a b = required selfAlign a b := rfl

/-! ### executable checker: all ε-matches by a scan along every diagonal

Letters are first coded once (`0` = invalid, `digit + 1` otherwise); along a diagonal the
number of mismatching columns of a window is a difference of two prefix counts. -/

def code (lk : Lookup) (b : UInt8) : Nat := match lk b with | some d => d + 1 | none => 0
def codes (lk : Lookup) (s : List UInt8) : Array Nat := (s.map (code lk)).toArray
def mismC (x y : Nat) : Bool := x == 0 || y == 0 || x != y

/-- prefix mismatch counts along the diagonal from `(a, b)`: pushes, for each of the next
    `len` columns, the number of mismatching columns so far -/
def prefixLoop (tc qc : Array Nat) : Nat → Nat → Nat → Nat → Array Nat → Array Nat
  | 0, _, _, _, acc => acc
  | len + 1, a, b, cnt, acc =>
    let cnt' := if mismC tc[a]! qc[b]! then cnt + 1 else cnt
    prefixLoop tc qc len (a + 1) (b + 1) cnt' (acc.push cnt')

/-- window starts `i` (from `i` up, `m` of them) on a diagonal whose prefix counts are `pm`
    with at most `e` mismatches in columns `i … i+n-1` -/
def windowsLoop (pm : Array Nat) (n e : Nat) : Nat → Nat → List Nat → List Nat
  | 0, _, acc => acc.reverse
  | m + 1, i, acc => windowsLoop pm n e m (i + 1) (if pm[i + n]! - pm[i]! ≤ e then i :: acc else acc)

/-- the ε-matches `(a, b)` on the diagonal through `(a0, b0)` (one of them is 0) -/
def matchesOnDiagonal (tc qc : Array Nat) (n e a0 b0 : Nat) : List (Nat × Nat) :=
  let len := min (tc.size - a0) (qc.size - b0)
  if len < n then []
  else
    let pm := prefixLoop tc qc len a0 b0 0 #[0]
    (windowsLoop pm n e (len + 1 - n) 0 []).map fun i => (a0 + i, b0 + i)

/-- the diagonals of the comparison, each by its first cell -/
def diagonalStarts (tlen qlen : Nat) : List (Nat × Nat) :=
  ((List.range tlen).reverse.map fun a0 => (a0, 0)) ++ ((List.range qlen).tail.map fun b0 => (0, b0))

/-- every ε-match of the pair, diagonal by diagonal -/
def allMatches (lk : Lookup) (t q : List UInt8) (n e : Nat) : List (Nat × Nat) :=
  let tc := codes lk t
  let qc := codes lk q
  (diagonalStarts tc.size qc.size).flatMap fun s => matchesOnDiagonal tc qc n e s.1 s.2

/-- `(number of required ε-matches, those that no hit covers)` for the requirement `req`.  Hits are
    bucketed by their diagonal; a match on diagonal `d` can only be covered by a hit whose diagonal
    is one of `d … d + tubeWidth - 1`. -/
def uncoveredBy (lk : Lookup) (t q : List UInt8) (n e tubeWidth : Nat) (req : Nat → Nat → Bool)
    (hits : List Hit) : Nat × List (Nat × Nat) :=
  let tc := codes lk t
  let qc := codes lk q
  let buckets : Std.HashMap Int (List Hit) :=
    hits.foldl (fun m h => m.insert h.diagonal (h :: m.getD h.diagonal [])) {}
  let r := (diagonalStarts tc.size qc.size).foldl (fun (acc : Nat × List (List (Nat × Nat))) s =>
    let ms := (matchesOnDiagonal tc qc n e s.1 s.2).filter fun m => req m.1 m.2
    if ms.isEmpty then acc
    else
      let d : Int := (s.1 : Int) - s.2
      let hs := (List.range tubeWidth).flatMap fun (j : Nat) => buckets.getD (d + j) []
      let unc := ms.filter fun m => !(hs.any fun h => covers tubeWidth n h m.1 m.2)
      (acc.1 + ms.length, if unc.isEmpty then acc.2 else unc :: acc.2)) (0, [])
  (r.1, r.2.reverse.flatten)

/-- the checker of the forward strand (`required`) -/
def uncovered (lk : Lookup) (t q : List UInt8) (n e tubeWidth : Nat) (selfAlign : Bool)
    (hits : List Hit) : Nat × List (Nat × Nat) :=
  uncoveredBy lk t q n e tubeWidth (required selfAlign) hits

/-- the checker of either strand (`requiredC`); this is what the driver evaluates -/
def uncoveredC (lk : Lookup) (t q : List UInt8) (n e tubeWidth : Nat) (selfAlign complement : Bool)
    (hits : List Hit) : Nat × List (Nat × Nat) :=
  uncoveredBy lk t q n e tubeWidth (requiredC selfAlign complement t.length) hits

end Biogo.Spec.Filter
