/-
Spec for C10 (k-mer index): what "the word at position p" and "the occurrences of a word"
mean, by a plain scan of the letters.  Words are digit lists (most significant digit first)
read as base-4 numerals.  Core-only; these are the functions the driver evaluates on the
implementation's output and the functions the theorems of `Properties/C10.lean` mention.
-/
namespace Biogo.Spec.Kmer

/-- `lookUp[b]` of a four-letter alphabet: `some index` for a letter of the alphabet,
    `none` for every other byte (the Go table holds a negative number there). -/
abbrev Lookup := UInt8 → Option Nat

/-- base-4 numeral, most significant digit first -/
def encode (ds : List Nat) : Nat := ds.foldl (fun w d => w * 4 + d) 0

/-- the `k` base-4 digits of `w`, most significant first -/
def toDigits : Nat → Nat → List Nat
  | 0, _ => []
  | k + 1, w => toDigits k (w / 4) ++ [w % 4]

/-- the digits of the letters, if every letter is in the alphabet -/
def digits (lk : Lookup) : List UInt8 → Option (List Nat)
  | [] => some []
  | b :: bs =>
    match lk b, digits lk bs with
    | some d, some ds => some (d :: ds)
    | _, _ => none

/-- the word spelled by the first `k` letters of `s`: defined iff there are `k` letters and
    none of them is invalid -/
def wordOf (lk : Lookup) (k : Nat) (s : List UInt8) : Option Nat :=
  let w := s.take k
  if w.length = k then (digits lk w).map encode else none

/-- the word at position `p` of `s` -/
def wordAt (lk : Lookup) (k : Nat) (s : List UInt8) (p : Nat) : Option Nat :=
  wordOf lk k (s.drop p)

/-- plain scan: `(p + i, word at i)` for every position `i` of `s` that has a word, in increasing
    order (`p` is the position of the head of `s` in the whole sequence) -/
def wordsFrom (lk : Lookup) (k : Nat) : List UInt8 → Nat → List (Nat × Nat)
  | [], _ => []
  | b :: bs, p =>
    match wordOf lk k (b :: bs) with
    | some w => (p, w) :: wordsFrom lk k bs (p + 1)
    | none => wordsFrom lk k bs (p + 1)

/-- what iterating over `[start, end)` must visit: the valid windows that lie inside the range -/
def validWindows (lk : Lookup) (k : Nat) (s : List UInt8) (start end_ : Nat) : List (Nat × Nat) :=
  (wordsFrom lk k (s.drop start) start).filter fun c => c.1 + k ≤ end_

/-- every valid window of the sequence -/
def allWindows (lk : Lookup) (k : Nat) (s : List UInt8) : List (Nat × Nat) := wordsFrom lk k s 0

/-- positions where word `w` occurs with no invalid letter inside it, increasing -/
def occurrences (lk : Lookup) (k : Nat) (s : List UInt8) (w : Nat) : List Nat :=
  ((allWindows lk k s).filter (fun c => c.2 == w)).map (·.1)

/-- number of occurrences -/
def frequency (lk : Lookup) (k : Nat) (s : List UInt8) (w : Nat) : Nat :=
  (allWindows lk k s).countP (fun c => c.2 == w)

/-- reverse complement on digit lists: reverse, and `0,1,2,3 ↦ 3,2,1,0` -/
def revComp (ds : List Nat) : List Nat := ds.reverse.map (3 - ·)

/-- number of G/C letters: digits 1 (`c`) and 2 (`g`) -/
def gcCount (ds : List Nat) : Nat := ds.countP (fun d => d == 1 || d == 2)

end Biogo.Spec.Kmer
