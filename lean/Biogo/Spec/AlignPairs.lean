/-
Feature-pair descriptions of alignments (the `[]feat.Pair` the aligners return) and the
executable spec checkers evaluated on the implementation's output (C08, C09):

* `Pair`        one `featPair`: `[a0,a1)` in the reference, `[b0,b1)` in the query, a score;
* `wellFormed`  the pairs form one monotone path (consecutive pairs abut in both sequences;
                each is an equal-length block, a gap in exactly one sequence, or empty with
                score 0); global paths span both sequences, local / fitted ones stay in bounds;
* `decode`      the alignment (`Spec.Alignment.Aln`) a pair list describes;
* `pairScoresOk` each pair's score equals the score recomputed from letters and matrix;
* `formatRows`  what `align.Format` renders for a pair list.

Soundness of the checkers against `Spec.Alignment` is proved in `Proofs/AlignPairs.lean`.
Core-only.
-/
import Biogo.Spec.Alignment

namespace Biogo.Spec.AlignPairs
open Biogo.Spec.Alignment

structure Pair where
  a0 : Nat
  a1 : Nat
  b0 : Nat
  b1 : Nat
  score : Int
  deriving DecidableEq, Repr, Inhabited

/-- an equal-length block, a gap in one sequence, or empty (then with score 0) -/
def Pair.okShape (p : Pair) : Bool :=
  decide (p.a0 ≤ p.a1) && decide (p.b0 ≤ p.b1) &&
  (decide (p.a1 - p.a0 = p.b1 - p.b0) || decide (p.a0 = p.a1) || decide (p.b0 = p.b1)) &&
  (!(decide (p.a0 = p.a1) && decide (p.b0 = p.b1)) || decide (p.score = 0))

/-- follow the pairs from `(i, j)`: each must start where the previous one ended -/
def chainEnd : Nat → Nat → List Pair → Option (Nat × Nat)
  | i, j, [] => some (i, j)
  | i, j, p :: ps =>
    if p.a0 = i ∧ p.b0 = j ∧ p.okShape = true then chainEnd p.a1 p.b1 ps else none

/-- start and end of the path: `(i, j, e₁, e₂)` — reference `[i, e₁)`, query `[j, e₂)` -/
def span : List Pair → Option (Nat × Nat × Nat × Nat)
  | [] => none
  | p :: ps =>
    match chainEnd p.a0 p.b0 (p :: ps) with
    | some (e1, e2) => some (p.a0, p.b0, e1, e2)
    | none => none

inductive Class | global | loc | fitted
  deriving DecidableEq, Repr

/-- the path predicate of C09 for sequences of lengths `n` (reference) and `m` (query) -/
def wellFormed (k : Class) (n m : Nat) (ps : List Pair) : Bool :=
  match span ps with
  | none => false
  | some (i, j, e1, e2) =>
    match k with
    | .global => decide (i = 0) && decide (j = 0) && decide (e1 = n) && decide (e2 = m)
    | .loc => decide (e1 ≤ n) && decide (e2 ≤ m)
    | .fitted => decide (e1 ≤ n) && decide (e2 ≤ m)

/-- the path covers the whole query `[0, m)` -/
def consumesQuery (m : Nat) (ps : List Pair) : Bool :=
  match span ps with
  | some (_, j, _, e2) => decide (j = 0) && decide (e2 = m)
  | none => false

/-- reference position at which the path ends -/
def endRef (ps : List Pair) : Nat :=
  match span ps with
  | some (_, _, e1, _) => e1
  | none => 0

/-- the columns a pair stands for -/
def Pair.cols (r q : List Nat) (p : Pair) : Aln :=
  if p.b0 = p.b1 then ((r.take p.a1).drop p.a0).map Col.u
  else if p.a0 = p.a1 then ((q.take p.b1).drop p.b0).map Col.l
  else List.zipWith Col.m ((r.take p.a1).drop p.a0) ((q.take p.b1).drop p.b0)

/-- the alignment described by a pair list -/
def decode (r q : List Nat) : List Pair → Aln
  | [] => []
  | p :: ps => p.cols r q ++ decode r q ps

/-- every pair's reported score is the score of its columns under the linear gap model -/
def pairScoresOk (S : Matrix) (r q : List Nat) (ps : List Pair) : Bool :=
  ps.all fun p => decide (p.score = scoreLin S (p.cols r q))

def total (ps : List Pair) : Int := (ps.map (·.score)).sum

/-- `align.Format`: a feature of length 0 is rendered as gap letters for the length of the
    other feature, anything else as the letters of the feature. -/
def formatRows {α} (gap : α) (r q : List α) : List Pair → List α × List α
  | [] => ([], [])
  | p :: ps =>
    let rest := formatRows gap r q ps
    ((if p.a1 - p.a0 = 0 then List.replicate (p.b1 - p.b0) gap else (r.take p.a1).drop p.a0) ++ rest.1,
     (if p.b1 - p.b0 = 0 then List.replicate (p.a1 - p.a0) gap else (q.take p.b1).drop p.b0) ++ rest.2)

end Biogo.Spec.AlignPairs
