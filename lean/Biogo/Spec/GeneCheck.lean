/-
The statement of C20 as the driver evaluates it on one parsed observation of the
implementation: for one `Exons.Add` call (`addStatement`), for a transcript after one update
(`txStatement`) and for a gene after one `SetFeatures` (`gfStatement`).  Each is an ordered list of
(violated?, message) built from the predicates of `Biogo.Spec.Gene`; the first violated clause
is reported.  `Properties/C20_checker.lean` proves that "no clause violated" implies the
declarative statements (and, for `Add`, is equivalent to them).  Core-only.
-/
import Biogo.Model.Gene
import Biogo.Model.Feat
import Biogo.Spec.Gene

namespace Biogo.Spec.GeneCheck
open Biogo.Gene Biogo.Feat Biogo.Spec.Gene

/-- the message of the first violated clause -/
def firstViolation : List (Bool × String) → Option String
  | [] => none
  | (c, m) :: rest => if c then some m else firstViolation rest

/-! ### one `Exons.Add` call -/

/-- `accepted`: the call returned no error; `old` the receiver's exons before the call,
    `afterOld` the same cells read after it, `res` the returned slice, `args` the arguments;
    `heldOld` / `heldAfter`: what a second variable `held` (an earlier value of `s`, e.g. taken
    before `s = s[:0]`, so that the receiver's spare capacity is `held`'s live data) reads before
    and after the call — the previous exon set a rejected `Add` must leave as it was -/
def addClauses (accepted : Bool) (old afterOld res args heldOld heldAfter : List Exon) : List (Bool × String) :=
  [ (!accepted && decide (afterOld ≠ old), "rejected-Add-changed-the-receiver"),
    (!accepted && decide (res ≠ old), "rejected-Add-does-not-return-the-old-slice"),
    (!accepted && decide (heldAfter ≠ heldOld), "rejected-Add-changed-a-held-slice-of-the-same-array"),
    (accepted && !sortedDisjoint res, "accepted-exons-not-sorted-disjoint"),
    (accepted && !(res.isPerm (old ++ args)), "accepted-exons-are-not-old-plus-new") ]

def addStatement (accepted : Bool) (old afterOld res args heldOld heldAfter : List Exon) : Option String :=
  firstViolation (addClauses accepted old afterOld res args heldOld heldAfter)

/-! ### a transcript after one update -/

/-- `A` and `Z`: an `Add` on (a re-slice of) `t.Exons()` whose result is dropped — not an update
    of the transcript -/
def dropped (kind : String) : Bool := kind == "A" || kind == "Z"

/-- `O` and `M`: an assignment to a feature of the location chain (the transcript's own `Orient` /
    `Offset`, the gene's, a contig's …) between two operations — not an update of the exon set -/
def chainChange (kind : String) : Bool := kind == "O" || kind == "M"

/-- the exons the transcript must show after an accepted operation: the ones given to `SetExons`
    (`S`: the arguments; `R`: the previous set plus the arguments); after an `Add` whose result is
    dropped and after a change of the location chain, the set accepted last, i.e. the previous one -/
def givenExons (kind : String) (args prev : List Exon) : List Exon :=
  if kind == "R" then prev ++ args else if dropped kind || chainChange kind then prev else args

/-- Operation kinds: `S` = `SetExons(args)`, `A` = `t.Exons().Add(args)` with the result dropped,
    `R` = `Add` then `SetExons` of the result, `Z` = `t.Exons()[:j].Add(args)` with the result
    dropped (the reset idiom for `j = 0`), `O` / `M` = the orientation / the start of a feature of the
    location chain was assigned (`node`, `loc` are the chain as it is *now*, after the operation; such
    an operation is never rejected).  `prev` is the exon set the transcript showed
    before the operation, `es`/`is` the exons and introns it shows now, `tstart, tend, tlen` its
    `Start/End/Len`, `utr` the pieces `(UTR5, CDS, UTR3)` if all three are defined, `sh` the
    rendering of `UTR5start,UTR5end,UTR3start,UTR3end`.

    After a rejected operation of any kind the transcript shows exactly the previous exon set.
    After every operation — `A` and `Z` included: the transcript is still one whose exons are
    accepted — its exons and introns alternate and tile it and the UTR/CDS clauses hold; after an
    accepted one its exons are sorted, non-overlapping, on the transcript, start at 0 and are (a
    permutation of) `givenExons`. -/
def txClauses (coding : Bool) (node : Node) (loc : Chain) (cdsStart cdsEnd : Int)
    (kind : String) (accepted : Bool) (args prev es : List Exon) (is : List Intron)
    (tstart tend tlen : Int) (utr : Option (Piece × Piece × Piece)) (sh : String) : List (Bool × String) :=
  let acc := accepted
  let cod := coding && node.oriented
  let o := orientProduct (node :: loc)
  let u := utr.getD ((0, 0), (0, 0), (0, 0))
  let order := utrOrder o u.1 u.2.1 u.2.2
  let cod' := cod && utr.isSome
  [ (!accepted && decide (es ≠ prev), "rejected-update-changed-the-exon-set"),
    (acc && !(sortedDisjoint es), "accepted-exons-not-sorted-disjoint"),
    (acc && !(es.all (·.loc == 1)), "accepted-exons-not-on-the-transcript"),
    (acc && decide (startOf es ≠ 0), "accepted-exons-do-not-start-at-zero"),
    (acc && !(es.isPerm (givenExons kind args prev)),
      if dropped kind then "dropped-Add-changed-the-accepted-exon-set"
      else if chainChange kind then "change-of-the-location-chain-changed-the-exon-set"
      else "accepted-exons-are-not-the-given-ones"),
    (!(alternate es is), "exons-and-introns-do-not-alternate"),
    (!(intronsFit es is), "intron-is-not-the-gap-between-exons"),
    (nonNeg es && !(tiles 0 tlen (interleave es is)), "exons-and-introns-do-not-tile-the-transcript"),
    ((decide (tstart ≠ node.start) || decide (tend ≠ tstart + tlen)), "transcript-start-end-len-inconsistent"),
    (cod && utr.isNone, "UTR-or-CDS-missing-for-an-oriented-transcript"),
    (cod' && decide (u.2.1 ≠ (cdsStart, cdsEnd)), "CDS-is-not-CDSstart-CDSend"),
    (cod' && !(abuts 0 tlen order), "UTR-CDS-do-not-tile-in-orientation-order"),
    (cod' && decide (0 ≤ cdsStart) && decide (cdsStart ≤ cdsEnd) && decide (cdsEnd ≤ tlen)
      && !(tiles 0 tlen order), "UTR-CDS-do-not-tile-in-orientation-order"),
    (cod' && decide (sh ≠ s!"{u.1.1},{u.1.2},{u.2.2.1},{u.2.2.2}"), "UTR-shorthands-disagree") ]

def txStatement (coding : Bool) (node : Node) (loc : Chain) (cdsStart cdsEnd : Int)
    (kind : String) (accepted : Bool) (args prev es : List Exon) (is : List Intron)
    (tstart tend tlen : Int) (utr : Option (Piece × Piece × Piece)) (sh : String) : Option String :=
  firstViolation (txClauses coding node loc cdsStart cdsEnd kind accepted args prev es is tstart tend tlen utr sh)

/-! ### a gene after one `SetFeatures` -/

def maxStop : List FeatIv → Int
  | [] => 0
  | f :: fs => max f.stop (maxStop fs)

/-- `fs` the features given, `off` the gene's offset, `s, en, l` its `Start/End/Len` now, `plen`
    its `Len` before; `tagsSame` / `tagsGiven`: the feature list it shows is the one shown before /
    the one given -/
def gfClauses (accepted : Bool) (fs : List FeatIv) (off s en l plen : Int) (tagsSame tagsGiven : Bool) :
    List (Bool × String) :=
  [ (!accepted && (decide (l ≠ plen) || !tagsSame), "rejected-SetFeatures-changed-the-gene"),
    (accepted && !tagsGiven, "accepted-features-are-not-the-given-ones"),
    (accepted && !(fs.all (·.loc == 1)), "accepted-feature-not-on-the-gene"),
    (accepted && (!(fs.any (·.start == 0)) || fs.any (fun f => decide (f.start < 0))), "accepted-features-do-not-start-at-zero"),
    (accepted && decide (l ≠ maxStop fs), "gene-length-is-not-the-largest-end"),
    (accepted && (decide (s ≠ off) || decide (en ≠ s + l)), "gene-start-end-len-inconsistent") ]

def gfStatement (accepted : Bool) (fs : List FeatIv) (off s en l plen : Int) (tagsSame tagsGiven : Bool) :
    Option String :=
  firstViolation (gfClauses accepted fs off s en l plen tagsSame tagsGiven)

end Biogo.Spec.GeneCheck
