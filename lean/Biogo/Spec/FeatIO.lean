/-
Well-formedness predicates of property C02 (the hypotheses of the round-trip theorems and the
condition under which the driver demands a round trip from the implementation).  Core-only.
-/
import Biogo.Model.Bed
import Biogo.Model.Gff

namespace Biogo.FeatIO
open Biogo.BytesFeat

/-- the string starts with an encoded white-space rune -/
def startsWithSpace (s : Bytes) : Bool := spaceLen s != 0

/-- the string ends with an encoded white-space rune -/
def endsWithSpace (s : Bytes) : Bool := spaceLenRev s.reverse != 0

/-- "trimmed": `bytes.TrimSpace` would not change it -/
def trimmed (s : Bytes) : Bool := !startsWithSpace s && !endsWithSpace s

/-- a well-formed text field: non-empty, free of tabs and newlines, trimmed, not starting with `#` -/
def textField (s : Bytes) : Bool :=
  !s.isEmpty && !s.contains 9 && !s.contains 10 && trimmed s && s.head? != some 35

def int64s (xs : List Int) : Bool := xs.all inInt64

def strandOK (s : Int) : Bool := s == -1 || s == 0 || s == 1

/-- colour zero or opaque -/
def rgbOK (c : Bed.Rgb) : Bool := c == {} || c.a == 255

/-- well-formed BED record for the columns `< n` (n = number of columns of its Go type) -/
def bedWF (n : Nat) (b : Bed.Rec) : Bool :=
  textField b.chrom && inInt64 b.start && inInt64 b.stop &&
  (n < 4 || textField b.name) &&
  (n < 5 || inInt64 b.score) &&
  (n < 6 || strandOK b.strand) &&
  (n < 12 ||
    (inInt64 b.thickStart && inInt64 b.thickEnd && rgbOK b.rgb &&
     -- at least one block, the count agrees with both lists
     b.blockSizes.length ≥ 1 && inInt64 b.blockCount && b.blockCount == b.blockSizes.length &&
     b.blockStarts.length == b.blockSizes.length &&
     int64s b.blockSizes && int64s b.blockStarts))

/-- tag over the reader's tag alphabet `[A-Za-z_]+` -/
def tagOK (t : Bytes) : Bool := !t.isEmpty && t.all Gff.alphaNum

/-- attribute value: free of `;`, tab, newline; trimmed; and (a condition that every valid UTF-8
    string meets) not starting with a stray byte 0x85 / 0xA0, which `splitAnnot` would take for
    white space because it tests bytes, not runes -/
def valueOK (v : Bytes) : Bool :=
  !v.contains 59 && !v.contains 9 && !v.contains 10 && trimmed v &&
  (match v with | [] => true | b :: _ => !isSpaceByte b)

def attrOK (a : Gff.Attr) : Bool := tagOK a.tag && valueOK a.value

/-- comments: empty (absent) or a tab-free, newline-free, trimmed text -/
def commentOK (c : Bytes) : Bool := !c.contains 9 && !c.contains 10 && trimmed c

def gffWF (f : Gff.Feature) : Bool :=
  textField f.seqName && textField f.source && textField f.feature &&
  inInt64 f.start && inInt64 f.stop && f.start < f.stop &&
  (match f.score with | some x => !Gff.isNaN x && x < 2 ^ 64 | none => true) &&
  strandOK f.strand && (-1 ≤ f.frame && f.frame ≤ 2) &&
  (match f.attrs with | some as => as.all attrOK | none => true) &&
  commentOK f.comments

/-- the text of a formatted float must be one clean token that is not the nil marker `.` -/
def floatTokenOK (t : Bytes) : Bool :=
  !t.isEmpty && t != [46] && !t.contains 9 && !t.contains 10 && trimmed t

/-- nil and empty attribute lists are the same thing in the text -/
def normAttrs (a : Option (List Gff.Attr)) : List Gff.Attr := a.getD []

/-- a feature with the nil / empty attribute list distinction erased -/
def norm (f : Gff.Feature) : Gff.Feature := { f with attrs := some (normAttrs f.attrs) }

/-- names of regions and inline sequences: non-empty, no ASCII white space, trimmed -/
def nameOK (s : Bytes) : Bool := !s.isEmpty && !s.any isAsciiSpace && trimmed s

/-- description of an inline sequence: single line, trimmed (possibly empty) -/
def descOK (d : Bytes) : Bool := !d.contains 10 && trimmed d

/-- sequence letters: ASCII, no white space -/
def lettersOK (s : Bytes) : Bool := !s.isEmpty && s.all (fun c => c < 128 && !isAsciiSpace c)

/-- the letters cut into the physical lines the FASTA writer produces: `i` is the index of the next
    letter, `cur` the current line -/
def chunksAux (width : Nat) : Bytes → Nat → Bytes → List Bytes
  | [], _, cur => if cur.isEmpty then [] else [cur]
  | c :: r, i, cur =>
    if i % width == 0 && !cur.isEmpty then cur :: chunksAux width r (i + 1) [c]
    else chunksAux width r (i + 1) (cur ++ [c])

def chunks (width : Nat) (letters : Bytes) : List Bytes := chunksAux width letters 0 []

/-- no line of sequence data is the end marker `end-<Mol>` itself -/
def noEndMarker (width m : Nat) (letters : Bytes) : Bool :=
  !(chunks width letters).contains (ofString "end-" ++ Gff.molName m)

end Biogo.FeatIO
