/-
What "an alignment" and "its score" mean, independently of any dynamic program
(DESIGN.md §3.3).  Letters are alphabet indices (`Nat`); the scoring matrix is a total
function `S : Nat → Nat → Int` with row/column 0 standing for the gap letter, exactly as
the aligners index their matrices (`S[r][0]` = gap in the query against reference letter r,
`S[0][q]` = gap in the reference against query letter q).  Core-only.
-/
namespace Biogo.Spec.Alignment

/-- one alignment column: match/mismatch, reference letter against a gap, gap against a
    query letter -/
inductive Col
  | m (r q : Nat)
  | u (r : Nat)        -- reference letter, gap in the query   ("up" move in the table)
  | l (q : Nat)        -- query letter, gap in the reference   ("left" move)
  deriving DecidableEq, Repr

abbrev Aln := List Col

def projR : Aln → List Nat
  | [] => []
  | .m r _ :: a => r :: projR a
  | .u r :: a => r :: projR a
  | .l _ :: a => projR a

def projQ : Aln → List Nat
  | [] => []
  | .m _ q :: a => q :: projQ a
  | .u _ :: a => projQ a
  | .l q :: a => q :: projQ a

abbrev Matrix := Nat → Nat → Int

def colScore (S : Matrix) : Col → Int
  | .m r q => S r q
  | .u r => S r 0
  | .l q => S 0 q

/-- linear gap model: every gap letter is scored by the matrix -/
def scoreLin (S : Matrix) : Aln → Int
  | [] => 0
  | c :: a => colScore S c + scoreLin S a

inductive Kind | m | u | l deriving DecidableEq, Repr

def Col.kind : Col → Kind
  | .m _ _ => .m | .u _ => .u | .l _ => .l

/-- affine gap model: `gapOpen` is added once for every maximal run of `u` columns and once
    for every maximal run of `l` columns; `prev` is the kind of the preceding column. -/
def scoreAffFrom (S : Matrix) (gapOpen : Int) : Kind → Aln → Int
  | _, [] => 0
  | prev, c :: a =>
    (if c.kind ≠ .m ∧ c.kind ≠ prev then gapOpen else 0) + colScore S c
      + scoreAffFrom S gapOpen c.kind a

def scoreAff (S : Matrix) (gapOpen : Int) (a : Aln) : Int := scoreAffFrom S gapOpen .m a

/-- `a` aligns all of `r` with all of `q` -/
def IsGlobal (a : Aln) (r q : List Nat) : Prop := projR a = r ∧ projQ a = q

/-- `a` aligns a contiguous segment of `r` with a contiguous segment of `q` -/
def IsLocal (a : Aln) (r q : List Nat) : Prop :=
  ∃ r₁ r₂ r₃ q₁ q₂ q₃, r = r₁ ++ r₂ ++ r₃ ∧ q = q₁ ++ q₂ ++ q₃ ∧ IsGlobal a r₂ q₂

/-- `a` aligns all of `q` with a segment of `r` that ends just before reference position `e` -/
def IsFitted (a : Aln) (r q : List Nat) (e : Nat) : Prop :=
  ∃ i, i ≤ e ∧ e ≤ r.length ∧ IsGlobal a ((r.take e).drop i) q

/-- no gap in one sequence directly next to a gap in the other -/
def noAdj : Aln → Bool
  | .u _ :: .l _ :: _ => false
  | .l _ :: .u _ :: _ => false
  | _ :: a => noAdj a
  | [] => true

def NoAdj (a : Aln) : Prop := noAdj a = true

end Biogo.Spec.Alignment
