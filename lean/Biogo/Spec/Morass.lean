/-
Abstract specification of the external sorter for C11: usage histories as lists of cycles,
well-formedness, and the outputs the property demands.  Core Lean only.
-/
import Biogo.Model.Morass

namespace Biogo.Morass

/-- One use cycle: push `pushes`, `Finalise`, `Pull` `pulls` times, optionally `Clear`. -/
structure Cycle where
  pushes : List Elem
  pulls : Nat
  clear : Bool
deriving DecidableEq, Repr

def Cycle.ops (cy : Cycle) : List Op :=
  cy.pushes.map Op.push ++ (Op.finalise :: (List.replicate cy.pulls Op.pull ++ (if cy.clear then [Op.clear] else [])))

/-- A cycle leaves the sorter ready for the next one when it ends with `Clear`, or when
    `AutoClear` is set and the cycle was pulled to `io.EOF`. -/
def Cycle.closed (ac : Bool) (cy : Cycle) : Bool :=
  cy.clear || (ac && decide (cy.pushes.length < cy.pulls))

/-- Well-formed history: every cycle but the last is closed. -/
def wellFormed (ac : Bool) : List Cycle → Bool
  | [] => true
  | [_] => true
  | cy :: rest => cy.closed ac && wellFormed ac rest

def histOps (h : List Cycle) : List Op := h.flatMap Cycle.ops

/-- Outputs of one cycle according to the property, given the sorted enumeration `ys` of the
    pushed multiset: `Len` = number pushed; `Pos` = number pushed, then pulled, so far;
    the j-th pull delivers `ys[j]`, after `ys` is exhausted `io.EOF`. -/
def specCycle (ac : Bool) (ys : List Elem) (cy : Cycle) : List Out :=
  let n := cy.pushes.length
  (List.range n).map (fun i => ⟨.ok, none, i + 1, i + 1⟩)
  ++ (⟨.ok, none, n, 0⟩ ::
      ((List.range cy.pulls).map (fun j =>
          match ys[j]? with
          | some e => (⟨.ok, some e, n, j + 1⟩ : Out)
          | none => ⟨.eof, none, if ac then 0 else n, if ac then 0 else n⟩)
       ++ (if cy.clear then [⟨.ok, none, 0, 0⟩] else [])))

/-- non-decreasing by key -/
def Sorted (l : List Elem) : Prop := l.Pairwise (fun a b => a.key ≤ b.key)

/-- `ys` is the sorted enumeration of the multiset `xs`. -/
def SortedPermOf (ys xs : List Elem) : Prop := ys.Perm xs ∧ Sorted ys

/-- The property, for a whole history: the outputs are, cycle by cycle, those of `specCycle`
    for some sorted enumeration of that cycle's pushed multiset. -/
def HistorySpec (ac : Bool) : List Cycle → List Out → Prop
  | [], outs => outs = []
  | cy :: rest, outs =>
    ∃ ys outs', SortedPermOf ys cy.pushes ∧ outs = specCycle ac ys cy ++ outs' ∧ HistorySpec ac rest outs'

/-- the same outputs with values reduced to their keys (the observation level of the tie) -/
structure KOut where
  res : Res
  key : Option Int
  len : Nat
  pos : Nat
deriving DecidableEq, Repr

def Out.keyed (o : Out) : KOut := ⟨o.res, o.val.map (·.key), o.len, o.pos⟩

/-- sorted keys of a multiset of keys -/
def insertKey (k : Int) : List Int → List Int
  | [] => [k]
  | x :: xs => if x ≤ k then x :: insertKey k xs else k :: x :: xs
def sortKeys (ks : List Int) : List Int := ks.foldr insertKey []

def specCycleKeys (ac : Bool) (cy : Cycle) : List KOut :=
  let n := cy.pushes.length
  let ks := sortKeys (cy.pushes.map (·.key))
  (List.range n).map (fun i => ⟨.ok, none, i + 1, i + 1⟩)
  ++ (⟨.ok, none, n, 0⟩ ::
      ((List.range cy.pulls).map (fun j =>
          match ks[j]? with
          | some k => (⟨.ok, some k, n, j + 1⟩ : KOut)
          | none => ⟨.eof, none, if ac then 0 else n, if ac then 0 else n⟩)
       ++ (if cy.clear then [⟨.ok, none, 0, 0⟩] else [])))

def specKeys (ac : Bool) (h : List Cycle) : List KOut := h.flatMap (specCycleKeys ac)

/-! ### rejected pushes

A `Push` of a value whose type is not the sorter's element type returns the "type mismatch"
error before it touches anything: it is a no-op of the history.  A program is a history with
such calls inserted anywhere. -/

/-- the program without its rejected pushes -/
def dropRejects (ops : List Op) : List Op := ops.filter (· != Op.reject)

/-- the outputs of the accepted calls -/
def dropRejOuts (outs : List Out) : List Out := outs.filter (·.res != Res.rejected)

/-- The outputs of a program with rejected pushes, from the outputs `outs` of the same program
    without them: a rejected `Push` returns its error, delivers nothing, and `Len`/`Pos` are what
    the previous call left (`l`, `p`: 0 before the first call). -/
def weave : List Op → List Out → Nat → Nat → List Out
  | [], _, _, _ => []
  | .reject :: ops, outs, l, p => ⟨.rejected, none, l, p⟩ :: weave ops outs l p
  | .push _ :: ops, o :: outs, _, _ => o :: weave ops outs o.len o.pos
  | .finalise :: ops, o :: outs, _, _ => o :: weave ops outs o.len o.pos
  | .pull :: ops, o :: outs, _, _ => o :: weave ops outs o.len o.pos
  | .clear :: ops, o :: outs, _, _ => o :: weave ops outs o.len o.pos
  | _ :: _, [], _, _ => []

/-! ### grouping a flat operation list into cycles (driver side) -/

def splitPushes : List Op → List Elem × List Op
  | .push e :: r => let (es, r') := splitPushes r; (e :: es, r')
  | r => ([], r)

def splitPulls : List Op → Nat × List Op
  | .pull :: r => let (n, r') := splitPulls r; (n + 1, r')
  | r => (0, r)

def groupCycles : Nat → List Op → Option (List Cycle)
  | _, [] => some []
  | 0, _ => none
  | fuel + 1, ops =>
    let (es, r1) := splitPushes ops
    match r1 with
    | .finalise :: r2 =>
      let (k, r3) := splitPulls r2
      match r3 with
      | .clear :: r4 => (groupCycles fuel r4).map (⟨es, k, true⟩ :: ·)
      | r4 => (groupCycles fuel r4).map (⟨es, k, false⟩ :: ·)
    | _ => none

/-- the history of a flat operation list, when it is a well-formed one -/
def historyOf (ac : Bool) (ops : List Op) : Option (List Cycle) :=
  match groupCycles (ops.length + 1) ops with
  | some h => if histOps h = ops ∧ wellFormed ac h then some h else none
  | none => none

end Biogo.Morass
