/-
C15 — PALS hits are real alignments; planted repeats are found.

Level `other`: what is *proved* here is (a) the oracle the driver validates every hit against —
an optimal global alignment score under the PALS scoring with a proof of optimality, computed
row by row — (b) the arithmetic that turns `Score ≤ oracle` into a bound on the edit distance of
the hit regions in terms of the reported `Error`, (c) the acceptance test of
`dp.alignRecursion` and the duplicate suppression of `AlignTraps` as pure functions, and
(d) the facts about the regenerated cost constants these depend on.  The banded x-drop kernel
itself is modelled by its contract only (each hit is validated per run against the oracle), and
recall of planted repeats is explored per run, not proved.
-/
import Biogo.Proofs.PalsOracle
import Biogo.Proofs.PalsSuppress
import Biogo.Proofs.PalsOptimise
import Biogo.Generated.PalsConsts

namespace Biogo.Properties.C15
open Biogo.PalsOracle Biogo.Spec.Alignment
open Biogo.Generated.Pals

/-! ### constants regenerated from `align/pals/pals.go` -/

/-- The scoring the property names (match +1, mismatch and indel −3) is the one in the source,
    and the derived constants are consistent: `MatchCost = DiffCost + SameCost` (so the kernel's
    `+MatchCost-DiffCost` per match is `+SameCost`), `BlockCost = DiffCost*MaxIGap`,
    `RMatchCost = DiffCost + 1`. -/
theorem pals_constants :
    SameCost = 1 ∧ DiffCost = 3 ∧ MatchCost = DiffCost + SameCost ∧ MatchCost - DiffCost = 1 ∧
    BlockCost = DiffCost * MaxIGap ∧ RMatchCost = DiffCost + 1 ∧ MaxIGap = 5 := by decide


/-- the PALS matrix of the property -/
def palsMatrix : Matrix := palsS SameCost DiffCost

theorem palsMatrix_is_plus1_minus3 (r q : Nat) :
    palsMatrix r q = if r = q ∧ r ≠ 0 then 1 else -3 := by
  simp [palsMatrix, palsS, SameCost, DiffCost]

/-- the oracle the driver evaluates on the letters of the two hit regions -/
def palsGlobal (r q : List Nat) : Int := globalScore palsMatrix r q

/-! ### (a) the oracle is the optimal global alignment score -/

/-- **`palsGlobal_opt`**: no global alignment of the two regions scores more than `palsGlobal`,
    and some global alignment scores exactly `palsGlobal` (for all regions, any length). -/
theorem palsGlobal_opt (r q : List Nat) :
    (∀ a : Aln, IsGlobal a r q → scoreLin palsMatrix a ≤ palsGlobal r q) ∧
    (∃ a : Aln, IsGlobal a r q ∧ scoreLin palsMatrix a = palsGlobal r q) := by
  unfold palsGlobal
  rw [globalScore_eq]
  constructor
  · rintro a ⟨h1, h2⟩
    have := nwRec_upper palsMatrix a
    rwa [h1, h2] at this
  · obtain ⟨a, h1, h2, h3⟩ := nwRec_attained palsMatrix r q
    exact ⟨a, ⟨h1, h2⟩, h3⟩

example : palsGlobal [1, 2, 3, 4] [1, 2, 4] = 0 := by decide

/-- the same for every linear-gap matrix (the row-by-row evaluator is generic) -/
theorem globalScore_opt (S : Matrix) (r q : List Nat) :
    (∀ a : Aln, IsGlobal a r q → scoreLin S a ≤ globalScore S r q) ∧
    (∃ a : Aln, IsGlobal a r q ∧ scoreLin S a = globalScore S r q) := by
  rw [globalScore_eq]
  constructor
  · rintro a ⟨h1, h2⟩
    have := nwRec_upper S a
    rwa [h1, h2] at this
  · obtain ⟨a, h1, h2, h3⟩ := nwRec_attained S r q
    exact ⟨a, ⟨h1, h2⟩, h3⟩

/-- `editDist` is the edit distance: the least number of edit operations (columns that are not
    exact matches) of a global alignment. -/
theorem editDist_opt (r q : List Nat) :
    (∀ a : Aln, IsGlobal a r q → editDist r q ≤ cost a) ∧
    (∃ a : Aln, IsGlobal a r q ∧ cost a = editDist r q) := by
  obtain ⟨up, a, ha, hs⟩ := globalScore_opt editS r q
  have hd : (editDist r q : Int) = -(globalScore editS r q) := by
    unfold editDist
    rw [← hs, scoreLin_edit]
    simp
  constructor
  · intro b hb
    have := up b hb
    rw [scoreLin_edit] at this
    omega
  · refine ⟨a, ha, ?_⟩
    rw [scoreLin_edit] at hs
    omega

/-! ### (b) score, lengths, edit distance, reported error -/

/-- **`score_bounds_edit`**: a score that does not exceed the optimal global score of the two
    regions bounds their edit distance: `DiffCost·edit ≤ SameCost·min(|A|,|B|) − Score`
    (with the constants: `3·edit ≤ min(|A|,|B|) − Score`). -/
theorem score_bounds_edit (r q : List Nat) (s : Int) (h : s ≤ palsGlobal r q) :
    DiffCost * (editDist r q : Int) ≤ SameCost * (min r.length q.length : Nat) - s := by
  obtain ⟨_, a, ha, hs⟩ := palsGlobal_opt r q
  have hc := (editDist_opt r q).1 a ha
  have hsc := scoreLin_pals SameCost DiffCost a
  have m1 := nmatch_le_projR a
  have m2 := nmatch_le_projQ a
  rw [ha.1] at m1
  rw [ha.2] at m2
  have e1 : scoreLin palsMatrix a = scoreLin (palsS SameCost DiffCost) a := rfl
  simp only [SameCost, DiffCost] at *
  omega

/-- In terms of what a hit reports: with `errNum = blen − (Score − indel)`, i.e.
    `Error = errNum / (RMatchCost·blen)`, a hit whose score does not exceed the oracle of its
    regions satisfies `DiffCost·edit + indel ≤ errNum = RMatchCost·blen·Error`. -/
theorem error_bounds_edit (h : Hit) (A B : List Nat) (hB : (B.length : Int) = h.blen)
    (hs : h.score ≤ palsGlobal A B) :
    DiffCost * (editDist A B : Int) + h.indel ≤ h.errNum := by
  have := score_bounds_edit A B h.score hs
  simp only [Hit.errNum, SameCost, DiffCost] at *
  omega

/-! ### (c) the acceptance test -/

/-- **`accepted_hit_meets_thresholds`**: a hit that `alignRecursion` emits is at least
    `minLen` long on both sequences and its error `errNum/(RMatchCost·blen)` is at most
    `maxDiff = num/den` (cross-multiplied; `blen > 0` because `minLen > 0`). -/
theorem accepted_hit_meets_thresholds (minLen num den : Int) (h : Hit)
    (acc : accept minLen RMatchCost num den h = true) :
    h.alen ≥ minLen ∧ h.blen ≥ minLen ∧ h.errNum * den ≤ num * (RMatchCost * h.blen) := by
  simp only [accept, lengthOK, errorOK, Bool.and_eq_true, decide_eq_true_eq] at acc
  exact ⟨acc.1.2, acc.1.1, acc.2⟩

/-- and conversely the test rejects nothing else -/
theorem rejected_hit_misses_a_threshold (minLen num den : Int) (h : Hit)
    (rej : accept minLen RMatchCost num den h = false) :
    h.alen < minLen ∨ h.blen < minLen ∨ h.errNum * den > num * (RMatchCost * h.blen) := by
  simp only [accept, lengthOK, errorOK, Bool.and_eq_false_iff, decide_eq_false_iff_not] at rej
  omega

example : accept 100 RMatchCost 60 1000 ⟨10, 20, 210, 221, 180⟩ = true := by decide

/-- Putting (a)–(c) together: an emitted hit whose score is at most the oracle of its regions
    has `DiffCost·edit·den ≤ num·RMatchCost·blen`, i.e. the edit distance of the regions is at
    most `(RMatchCost/DiffCost)·(1−minId)·blen`. -/
theorem edit_bounded_by_threshold (minLen num den : Int) (hden : 0 < den) (h : Hit) (A B : List Nat)
    (hB : (B.length : Int) = h.blen) (hs : h.score ≤ palsGlobal A B)
    (acc : accept minLen RMatchCost num den h = true) :
    DiffCost * (editDist A B : Int) * den ≤ num * (RMatchCost * h.blen) := by
  have e := error_bounds_edit h A B hB hs
  have t := (accepted_hit_meets_thresholds minLen num den h acc).2.2
  have hi : 0 ≤ h.indel := by simp [Hit.indel]
  have : DiffCost * (editDist A B : Int) ≤ h.errNum := by omega
  exact Int.le_trans (Int.mul_le_mul_of_nonneg_right this (Int.le_of_lt hden)) t


/-! ### (c') the duplicate suppression of `AlignTraps` -/

/-- a sort as far as the suppression needs it: the same elements -/
def KeepsElems (sort : List Hit → List Hit) : Prop := ∀ l x, x ∈ sort l ↔ x ∈ l

/-- **The suppression only removes hits**: whatever the two (unstable) sorts do, every hit that
    `AlignTraps` returns is one of the hits the kernel emitted, unchanged — so it still meets
    the thresholds of `accepted_hit_meets_thresholds`. -/
theorem suppression_returns_emitted_hits (sortStart sortEnd : List Hit → List Hit)
    (h1 : KeepsElems sortStart) (h2 : KeepsElems sortEnd) (segs : List Hit) :
    ∀ h ∈ suppress sortStart sortEnd segs, h ∈ segs ∧ 0 ≤ h.score := by
  intro h hh
  simp only [suppress, List.mem_filter, decide_eq_true_eq] at hh
  obtain ⟨hm, hs⟩ := hh
  obtain ⟨x, hx, mx⟩ := markRuns_marked _ _ h hm
  have e1 := mx.eq_of_nonneg hs
  subst e1
  have hx' := (h2 _ _).mp hx
  obtain ⟨y, hy, my⟩ := markRuns_marked _ _ h hx'
  have e2 := my.eq_of_nonneg hs
  subst e2
  exact ⟨(h1 _ _).mp hy, hs⟩

/-- **`suppression_keeps_best`**: for every emitted hit `g` (score ≥ 0) a hit `b₁` with the same
    start and at least its score survives the first pass, and a hit `b₂` with the same end as
    `b₁` and at least `b₁`'s score is returned. -/
theorem suppression_keeps_best (sortStart sortEnd : List Hit → List Hit)
    (h1 : KeepsElems sortStart) (h2 : KeepsElems sortEnd) (segs : List Hit) :
    ∀ g ∈ segs, 0 ≤ g.score → ∃ b₁ b₂, b₁ ∈ segs ∧ b₂ ∈ suppress sortStart sortEnd segs ∧
      (b₁.abpos, b₁.bbpos) = (g.abpos, g.bbpos) ∧ (b₂.aepos, b₂.bepos) = (b₁.aepos, b₁.bepos) ∧
      g.score ≤ b₁.score ∧ b₁.score ≤ b₂.score := by
  intro g hg hs
  obtain ⟨b1, m1, o1, k1, s1⟩ :=
    markRuns_keeps_best (fun h => (h.abpos, h.bbpos)) (sortStart segs) g ((h1 _ _).mpr hg)
  obtain ⟨b2, m2, _, k2, s2⟩ :=
    markRuns_keeps_best (fun h => (h.aepos, h.bepos))
      (sortEnd (markRuns (fun h => (h.abpos, h.bbpos)) (sortStart segs))) b1 ((h2 _ _).mpr m1)
  refine ⟨b1, b2, (h1 _ _).mp o1, ?_, k1, k2, s1, s2⟩
  simp only [suppress, List.mem_filter, decide_eq_true_eq]
  exact ⟨m2, by omega⟩

example : suppress id id [⟨1, 1, 50, 50, 40⟩, ⟨1, 1, 60, 61, 45⟩, ⟨7, 9, 60, 61, 30⟩] =
    [⟨1, 1, 60, 61, 45⟩] := by decide


/-! ### (d) `Optimise`: every accepted parameter set is usable by the filter -/

open Biogo.PalsOptimise in
/-- **`optimise_sound`**: whenever the parameter search of `Optimise` succeeds (the float
    prefilter values `minWordSize`, `seedDiffs0` being inputs), the chosen parameters have a
    positive q-gram threshold (`MinWordsPerFilterHit > 0`), a word size within
    `[minWordSize, MaxKmerLen]`, `0 ≤ MaxError ≤ seedDiffs0`, `MinMatch ≤ minHitLen`, an average
    index list length within `MaxAvgIndexListLen`, respect the memory cap, and — with the default
    `tubeOffset = 0` argument — `TubeOffset = MaxError + TubeOffsetDelta ≥ MaxError`, which is
    what `filter.Filter` requires. -/
theorem optimise_sound (i : OptIn) (p : FParams) (h : optimise i = some p)
    (hsd : 0 ≤ i.seedDiffs0) (hml : 0 ≤ i.minHitLen) :
    minWords p.minMatch p.wordSize p.maxError > 0 ∧
    i.minWordSize ≤ p.wordSize ∧ p.wordSize ≤ maxKmerLen ∧
    0 ≤ p.maxError ∧ p.maxError ≤ i.seedDiffs0 ∧ 0 ≤ p.minMatch ∧ p.minMatch ≤ i.minHitLen ∧
    i.tlen ≤ maxAvgIndexListLen * pow4 p.wordSize ∧
    (∀ m, i.maxMem = some m → memRequired i p ≤ m) ∧
    (i.tubeOffsetArg ≤ 0 → p.tubeOffset = p.maxError + tubeOffsetDelta ∧ p.tubeOffset ≥ p.maxError) := by
  obtain ⟨k', sl', sd', a1, a2, a3, a4, a5, a6, a7, a8⟩ := outer_sound h hsd hml
  subst a7
  simp only [wordOK, Bool.and_eq_true, decide_eq_true_eq] at a8
  obtain ⟨⟨b1, b2⟩, b3⟩ := a8
  refine ⟨b2, a1, a2, a3, a4, a5, a6, b3, ?_, ?_⟩
  · intro m hm
    rw [hm] at b1
    simpa using b1
  · intro ht
    have : ¬ i.tubeOffsetArg > 0 := by omega
    simp only [mkParams, this, if_false, tubeOffsetDelta]
    exact ⟨trivial, by omega⟩

open Biogo.PalsOptimise in
example : optimise (⟨29940, 0, 400, 39, 6, 0, none⟩ : OptIn) = some ⟨10, 400, 39, 71⟩ := by decide

end Biogo.Properties.C15
