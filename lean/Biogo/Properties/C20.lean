/-
C20 — gene models keep exons, introns and coding regions as exact partitions; nested
positions compose; rejected updates leave the exon set as it was.  Property theorems only
(helper lemmas are in `Biogo/Proofs/Gene.lean` and `Biogo/Proofs/Feat.lean`).

The theorems are about the definitions the driver executes (`Biogo.Gene.add`, `setExons`,
`introns`, `utr5/cds/utr3`, `Biogo.Feat.basePositionOf` …); where the code depends on something
the model takes as a parameter (the growth policy of `append`, `sort.Sort`) the theorem is
stated for every value of the parameter.
-/
import Biogo.Model.Gene
import Biogo.Model.Feat
import Biogo.Spec.Gene
import Biogo.Proofs.Gene
import Biogo.Proofs.Feat
import Biogo.Generated.GeneFacts

namespace Biogo.Properties.C20
open Biogo.Gene Biogo.Feat Biogo.Spec.Gene Biogo.Proofs.Gene Biogo.Proofs.Feat


/-! ## Accepted exons are sorted and non-overlapping -/

/-- **"For any transcript whose exons are accepted, the exons are sorted and non-overlapping"**,
    at the level of `Exons.Add`: for every heap, every well-formed receiver (any offset, length and
    spare capacity), every growth policy and every `sort.Sort` that returns a sorted
    permutation, an accepted `Add` returns a slice whose exons are sorted by start, pairwise
    non-overlapping (each ends no later than every later one starts), on one location, and are
    exactly the old exons plus the new ones. -/
theorem accepted_sorted_disjoint (grow : Nat → Nat → Nat) (sort : List Exon → List Exon)
    (hsort : SortSpec sort) (h : Heap) (s : Slice) (xs : List Exon) (w : WF h s)
    (h' : Heap) (r : Slice) (hacc : addWith grow sort h s xs = (h', r, none)) :
    sortedDisjoint (read h' r) = true ∧ Disjoint (read h' r) ∧ (read h' r).Perm (read h s ++ xs) := by
  rw [addWith_cases grow sort hsort.length h s xs w.readable] at hacc
  have hn : (sort (read h s ++ xs)).length = s.len + xs.length := by
    rw [hsort.length, List.length_append, w.readable.len]
  cases hcs : checkSorted (sort (read h s ++ xs)) with
  | some e => rw [hcs] at hacc; simp only [] at hacc; cases hacc
  | none =>
    rw [hcs] at hacc
    simp only [] at hacc
    split at hacc
    · cases hacc
    · simp only [Prod.mk.injEq] at hacc
      obtain ⟨rfl, rfl, _⟩ := hacc
      rw [read_new h _ _ hn]
      have hsd := sortedDisjoint_of_checkSorted _ (hsort.sorted _) hcs
      exact ⟨hsd, disjoint_of_sortedDisjoint _ hsd, hsort.perm _⟩

/-- the same for the function the driver runs -/
theorem accepted_sorted_disjoint_add (h : Heap) (s : Slice) (xs : List Exon) (w : WF h s)
    (h' : Heap) (r : Slice) (hacc : add h s xs = (h', r, none)) :
    sortedDisjoint (read h' r) = true ∧ Disjoint (read h' r) ∧ (read h' r).Perm (read h s ++ xs) :=
  accepted_sorted_disjoint exactGrow sortByStart sortByStart_spec h s xs w h' r hacc

-- non-vacuity: an accepted Add on a receiver with spare capacity
example :
    let st := xsInit 2 [⟨1, 0, 10, 1⟩, ⟨1, 20, 10, 2⟩, zeroExon, zeroExon]
    let res := add st.1 st.2 [⟨1, 12, 5, 3⟩]
    res.2.2 = none ∧ read res.1 res.2.1 = [⟨1, 0, 10, 1⟩, ⟨1, 12, 5, 3⟩, ⟨1, 20, 10, 2⟩] := by decide

/-! ## Exons and introns tile the transcript -/

/-- **"exons and introns alternate and together tile the transcript from 0 to its length"**:
    after an accepted `SetExons` (any heap, any previous exon set, any growth policy, any correct
    `sort.Sort`) the stored exons are the given ones, sorted, non-overlapping, all located on the
    transcript, the first starting at 0; `Introns()` has exactly one intron between consecutive
    exons, each intron spanning exactly the gap; and when no exon has negative length the
    sequence exon, intron, exon, … is an exact tiling of `[0, Len)` (`Len` = end of the last
    exon = `t.Len()`): every position of the transcript lies in exactly one of them. -/
theorem exons_introns_tile (grow : Nat → Nat → Nat) (sort : List Exon → List Exon)
    (hsort : SortSpec sort) (h : Heap) (t : Tx) (ht : t.id ≠ 0) (xs : List Exon)
    (h' : Heap) (t' : Tx) (hacc : setExonsWith grow sort h t xs = (h', t', none)) :
    let es := read h' t'.exons
    es.Perm xs ∧ es ≠ [] ∧ sortedDisjoint es = true ∧ Disjoint es ∧ (∀ e ∈ es, e.loc = t.id) ∧
    startOf es = 0 ∧
    alternate es (introns es) = true ∧ intronsFit es (introns es) = true ∧
    (nonNeg xs = true →
      tiles 0 (endOf es) (interleave es (introns es)) = true ∧
      ∀ p, cover (interleave es (introns es)) p = if 0 ≤ p ∧ p < endOf es then 1 else 0) := by
  obtain ⟨_, hread, hcs, hloc, hstart, _, _⟩ := setExons_ok hsort hacc
  simp only [hread]
  have hsd := sortedDisjoint_of_checkSorted _ (hsort.sorted xs) hcs
  have hne : sort xs ≠ [] := by
    intro h0; rw [h0] at hloc; exact ht hloc.symm
  refine ⟨hsort.perm xs, hne, hsd, disjoint_of_sortedDisjoint _ hsd, ?_, hstart,
    alternate_introns _, intronsFit_introns _, ?_⟩
  · cases hsx : sort xs with
    | nil => exact absurd hsx hne
    | cons e l =>
      rw [hsx] at hsd hloc
      intro x hx
      rw [sortedDisjoint_loc e l hsd x hx]; exact hloc
  · intro hnn
    have hnn' : nonNeg (sort xs) = true := by
      simp only [nonNeg, List.all_eq_true] at hnn ⊢
      intro x hx; exact hnn x ((hsort.perm xs).mem_iff.mp hx)
    cases hsx : sort xs with
    | nil => exact absurd hsx hne
    | cons e l =>
      rw [hsx] at hsd hstart hnn'
      have ht := tiles_interleave e l hsd hnn'
      have he : e.start = 0 := hstart
      rw [he] at ht
      exact ⟨ht, tiles_cover _ _ _ ht⟩

-- non-vacuity: three exons given out of order, one pair abutting
example :
    let res := setExons (txInit 1).1 (txInit 1).2 [⟨1, 30, 5, 3⟩, ⟨1, 0, 10, 1⟩, ⟨1, 10, 5, 2⟩]
    res.2.2 = none ∧ introns (read res.1 res.2.1.exons) = [⟨1, 10, 0⟩, ⟨1, 15, 15⟩] := by decide


/-! ## Rejected updates leave the previous exon set exactly as it was -/

/-- **"Rejected updates … leave the previous exon set exactly as it was"**, for `Exons.Add`
    and *every capacity history*: for every heap `h` (the sum of everything that happened
    before), every receiver `s` in it (any array, offset, length and spare capacity), every
    growth policy of `append` and every sorting function whatsoever, a rejected `Add` returns
    the receiver itself, and no array that existed before the call has changed — in particular
    the receiver's whole backing array `s[:cap(s)]`, hence its exons `s[:len(s)]`, and the
    backing arrays of the arguments and of every other slice. -/
theorem rejected_add_unchanged (grow : Nat → Nat → Nat) (sort : List Exon → List Exon)
    (h : Heap) (s : Slice) (xs : List Exon) (hs : s.arr < h.length)
    (h' : Heap) (r : Slice) (e : Err) (hrej : addWith grow sort h s xs = (h', r, some e)) :
    r = s ∧ cells h' s = cells h s ∧ read h' s = read h s ∧
      ∀ a < h.length, Heap.arr h' a = Heap.arr h a := by
  have hk := addWith_keeps grow sort h s xs
  rw [hrej] at hk
  exact ⟨addWith_err_slice hrej, cells_of_keeps hk s hs, read_of_keeps hk s hs, hk.2⟩

/-- The same holds for accepted calls: `Add` never writes to the receiver's array (this is what
    fix F20 established; before it the accepted result shared the receiver's array). -/
theorem add_never_writes_receiver (grow : Nat → Nat → Nat) (sort : List Exon → List Exon)
    (h : Heap) (s : Slice) (xs : List Exon) (hs : s.arr < h.length) :
    cells (addWith grow sort h s xs).1 s = cells h s :=
  cells_of_keeps (addWith_keeps grow sort h s xs) s hs

/-- … spelled out over histories: start from `make(Exons, n, cap)` filled in any way, apply any
    sequence of `Add`s (accepted or rejected, result kept or dropped) and re-slicings
    (`s[:j]` up to the capacity, `s[j:]`); in the state reached, a rejected `Add` leaves the
    exon set and the whole backing array of the receiver as they were. -/
theorem rejected_add_unchanged_history (n : Nat) (cells0 : List Exon) (hn : n ≤ cells0.length)
    (ops : List XsOp) (xs : List Exon) (h' : Heap) (r : Slice) (e : Err) :
    let st := xsRun (xsInit n cells0) ops
    add st.1 st.2 xs = (h', r, some e) →
      r = st.2 ∧ read h' st.2 = read st.1 st.2 ∧ cells h' st.2 = cells st.1 st.2 := by
  intro st hrej
  have w : WF st.1 st.2 := xsRun_wf (xsInit_wf n cells0 hn) ops
  obtain ⟨h1, h2, h3, _⟩ := rejected_add_unchanged exactGrow sortByStart st.1 st.2 xs w.arr_lt h' r e hrej
  exact ⟨h1, h3, h2⟩

-- non-vacuity: the witness of F20 is a rejected Add on a receiver with spare capacity
example :
    let st := xsInit 2 [⟨1, 0, 10, 1⟩, ⟨1, 20, 10, 2⟩, zeroExon, zeroExon]
    (add st.1 st.2 [⟨1, 5, 10, 3⟩]).2.2 = some .overlap := by decide

/-- **"… including slices with spare capacity"**, the reset idiom on bare `Exons` values: over every
    history of a variable `s` (kept / dropped `Add`s, `s[:j]`, `s[j:]`) and a second variable `held`
    (`held = s` at any points) — so in particular `held := s; s = s[:0]`, after which the receiver is
    empty and its spare capacity is the array `held` still reads — an `Add` on `s`, rejected or
    accepted, leaves what `held` reads (its exons and its whole backing array) exactly as it was, and
    a rejected one also leaves `s` itself as it was. -/
theorem add_keeps_held_history (n : Nat) (cells0 : List Exon) (hn : n ≤ cells0.length)
    (ops : List XhOp) (xs : List Exon) :
    let st := xhRun (xhInit n cells0) ops
    let res := add st.1.1 st.1.2 xs
    read res.1 st.2 = read st.1.1 st.2 ∧ cells res.1 st.2 = cells st.1.1 st.2 ∧
      (∀ e, res.2.2 = some e →
        res.2.1 = st.1.2 ∧ read res.1 st.1.2 = read st.1.1 st.1.2 ∧ cells res.1 st.1.2 = cells st.1.1 st.1.2) := by
  intro st res
  obtain ⟨w, wh⟩ := xhRun_wf (xhInit_wf n cells0 hn).1 (xhInit_wf n cells0 hn).2 ops
  have hk : Keeps st.1.1.length st.1.1 res.1 := addWith_keeps exactGrow sortByStart st.1.1 st.1.2 xs
  refine ⟨read_of_keeps hk _ wh, cells_of_keeps hk _ wh, ?_⟩
  intro e he
  have hrej : addWith exactGrow sortByStart st.1.1 st.1.2 xs = (res.1, res.2.1, some e) := by
    rw [← he]; rfl
  obtain ⟨h1, h2, h3, _⟩ := rejected_add_unchanged exactGrow sortByStart st.1.1 st.1.2 xs w.arr_lt _ _ e hrej
  exact ⟨h1, h3, h2⟩

-- non-vacuity: `held := s; s = s[:0]`, then a rejected Add of two exons that fit the capacity
example :
    let st := xhRun (xhInit 3 [⟨1, 0, 15, 1⟩, ⟨1, 15, 50, 2⟩, ⟨1, 94, 15, 3⟩]) [.hold, .op (.upTo 0)]
    st.1.2.len = 0 ∧ cap st.1.1 st.1.2 = 3 ∧ read st.1.1 st.2 = [⟨1, 0, 15, 1⟩, ⟨1, 15, 50, 2⟩, ⟨1, 94, 15, 3⟩] ∧
    (add st.1.1 st.1.2 [⟨1, 4, 7, 4⟩, ⟨1, 8, 28, 5⟩]).2.2 = some .overlap := by decide

/-- Refutation witness for seeded change C20-m3 on bare `Exons` values: with `Add` appending into
    the receiver (as on the pinned tree, and as the seeded change does for an empty receiver), after
    `held := s; s = s[:0]` the rejected `s.Add(4–11, 8–36)` leaves `s` (empty) as it was but `held`
    reads `[4–11, 8–36, 94–109]`: the statement of `add_keeps_held_history` is false of it, while
    "the receiver's contents are as they were" is not violated. -/
theorem pinned_reset_add_corrupts_held :
    let st := xhRun (xhInit 3 [⟨1, 0, 15, 1⟩, ⟨1, 15, 50, 2⟩, ⟨1, 94, 15, 3⟩]) [.hold, .op (.upTo 0)]
    let res := addPinnedWith exactGrow sortByStart st.1.1 st.1.2 [⟨1, 4, 7, 4⟩, ⟨1, 8, 28, 5⟩]
    res.2.2 = some .overlap ∧ read res.1 st.1.2 = read st.1.1 st.1.2 ∧
      read res.1 st.2 = [⟨1, 4, 7, 4⟩, ⟨1, 8, 28, 5⟩, ⟨1, 94, 15, 3⟩] := by decide

/-- Refutation witness for the pinned tree (defect F20): with `Add` as it was (append into
    the receiver, sort in place, then check), `s = [0–10, 20–30]` with capacity 4 and
    `Add(5–15)` is rejected and `s` then reads `[0–10, 5–15]`.  The statement
    `rejected_add_unchanged` is false of `addPinnedWith`. -/
theorem pinned_rejected_add_corrupts :
    let st := xsInit 2 [⟨1, 0, 10, 1⟩, ⟨1, 20, 10, 2⟩, zeroExon, zeroExon]
    let res := addPinnedWith exactGrow sortByStart st.1 st.2 [⟨1, 5, 10, 3⟩]
    res.2.2 = some .overlap ∧ res.2.1 = st.2 ∧
      read st.1 st.2 = [⟨1, 0, 10, 1⟩, ⟨1, 20, 10, 2⟩] ∧
      read res.1 st.2 = [⟨1, 0, 10, 1⟩, ⟨1, 5, 10, 3⟩] := by decide

/-- **Rejected `SetExons`** (overlapping exons, foreign location, no zero start): the
    transcript keeps its exon slice, and no array that existed before the call has changed, so
    `t.Exons()` reads exactly as before.  For every heap, growth policy and sorting function. -/
theorem rejected_setExons_unchanged (grow : Nat → Nat → Nat) (sort : List Exon → List Exon)
    (h : Heap) (t : Tx) (xs : List Exon) (ht : t.exons.arr < h.length)
    (h' : Heap) (t' : Tx) (e : Err) (hrej : setExonsWith grow sort h t xs = (h', t', some e)) :
    t' = t ∧ read h' t'.exons = read h t.exons ∧ cells h' t.exons = cells h t.exons ∧
      ∀ a < h.length, Heap.arr h' a = Heap.arr h a := by
  have hk := setExons_keeps grow sort h t xs
  rw [hrej] at hk
  have ht' := setExons_err hrej
  subst ht'
  exact ⟨rfl, read_of_keeps hk _ ht, cells_of_keeps hk _ ht, hk.2⟩

/-- … over histories of a transcript: after any sequence of `SetExons`, `t.Exons().Add(…)`
    (result dropped), `Add`-then-`SetExons` and `t.Exons()[:j].Add(…)` (result dropped; `j = 0` is
    the reset idiom, whose receiver is empty and has the transcript's live exon array as spare
    capacity) calls, accepted or rejected, a rejected update of any of the four kinds leaves
    `t.Exons()` exactly as it was. -/
theorem rejected_update_unchanged_history (id : Nat) (ops : List TxOp) (op : TxOp) (e : Err) :
    let st := txRun (txInit id) ops
    (txApply st op).2 = some e →
      (txApply st op).1.2 = st.2 ∧ read (txApply st op).1.1 st.2.exons = read st.1 st.2.exons := by
  intro st hrej
  have w : WF st.1 st.2.exons := txRun_wf (txInit_wf id) ops
  cases op with
  | set xs =>
    simp only [txApply] at hrej ⊢
    cases hres : setExons st.1 st.2 xs with
    | mk h' p =>
      obtain ⟨t', e'⟩ := p
      rw [hres] at hrej
      simp only [] at hrej ⊢
      subst hrej
      obtain ⟨h1, h2, _⟩ := rejected_setExons_unchanged exactGrow sortByStart st.1 st.2 xs w.arr_lt h' t' e hres
      subst h1
      exact ⟨rfl, h2⟩
  | addDrop xs =>
    simp only [txApply] at hrej ⊢
    have hk := addWith_keeps exactGrow sortByStart st.1 st.2.exons xs
    cases hres : add st.1 st.2.exons xs with
    | mk h' p =>
      obtain ⟨r, e'⟩ := p
      unfold add at hres
      rw [hres] at hk
      exact ⟨by first | rfl | trivial, read_of_keeps hk _ w.arr_lt⟩
  | addSet xs =>
    simp only [txApply] at hrej ⊢
    have hk := addWith_keeps exactGrow sortByStart st.1 st.2.exons xs
    cases hres : add st.1 st.2.exons xs with
    | mk h' p =>
      obtain ⟨r, e'⟩ := p
      have hres' := hres
      unfold add at hres'
      rw [hres'] at hk
      rw [hres] at hrej
      cases e' with
      | some e' => exact ⟨by first | rfl | trivial, read_of_keeps hk _ w.arr_lt⟩
      | none =>
        simp only [] at hrej ⊢
        cases hres2 : setExons h' st.2 (read h' r) with
        | mk h'' p2 =>
          obtain ⟨t', e2⟩ := p2
          rw [hres2] at hrej
          simp only [] at hrej ⊢
          subst hrej
          have ht : st.2.exons.arr < h'.length := Nat.lt_of_lt_of_le w.arr_lt hk.1
          obtain ⟨h1, h2, _⟩ := rejected_setExons_unchanged exactGrow sortByStart h' st.2 _ ht h'' t' e hres2
          subst h1
          exact ⟨rfl, h2.trans (read_of_keeps hk _ w.arr_lt)⟩
  | resliceAdd j xs =>
    simp only [txApply] at hrej ⊢
    have hk := addWith_keeps exactGrow sortByStart st.1 (resliceTo st.1 st.2.exons j) xs
    cases hres : add st.1 (resliceTo st.1 st.2.exons j) xs with
    | mk h' p =>
      obtain ⟨r, e'⟩ := p
      unfold add at hres
      rw [hres] at hk
      exact ⟨by first | rfl | trivial, read_of_keeps hk _ w.arr_lt⟩

-- non-vacuity: SetExons accepted, then a rejected Add through Exons(), then a rejected SetExons
example :
    let st := txRun (txInit 1) [.set [⟨1, 0, 10, 1⟩, ⟨1, 20, 10, 2⟩]]
    (txApply st (.addDrop [⟨1, 5, 10, 3⟩])).2 = some .overlap ∧
    (txApply st (.set [⟨1, 3, 10, 4⟩])).2 = some .noZeroStart ∧
    (txApply st (.set [⟨2, 0, 10, 5⟩])).2 = some .notTranscript ∧
    read st.1 st.2.exons = [⟨1, 0, 10, 1⟩, ⟨1, 20, 10, 2⟩] := by decide

/-- **`t.Exons()[:j].Add(xs…)` never writes a cell of the transcript's array** — for every heap,
    every transcript whose exon slice lies in it, every `j` (clamped to the capacity as Go demands,
    so the receiver may reach into all of the transcript's spare capacity; `j = 0`: the reset idiom
    `t.Exons()[:0].Add(…)`, an empty receiver whose spare capacity is the transcript's live exon
    array), every argument list, growth policy and sorting function, whether the call is accepted or
    rejected: the transcript's whole backing array `t.Exons()[:cap]`, hence the exon set it shows,
    reads as before, a rejected call returns the re-sliced receiver, and no other array that existed
    changed either.  (Seeded change C20-m3 — no defensive copy for an empty receiver — falsifies
    exactly this: the arguments are appended and sorted inside the transcript's array.) -/
theorem reslice_add_never_writes_transcript (grow : Nat → Nat → Nat) (sort : List Exon → List Exon)
    (h : Heap) (t : Tx) (j : Nat) (xs : List Exon) (ht : t.exons.arr < h.length) :
    let res := addWith grow sort h (resliceTo h t.exons j) xs
    cells res.1 t.exons = cells h t.exons ∧ read res.1 t.exons = read h t.exons ∧
      (∀ a < h.length, Heap.arr res.1 a = Heap.arr h a) ∧
      (∀ e, res.2.2 = some e → res.2.1 = resliceTo h t.exons j) := by
  intro res
  have hk : Keeps h.length h res.1 := addWith_keeps grow sort h (resliceTo h t.exons j) xs
  refine ⟨cells_of_keeps hk _ ht, read_of_keeps hk _ ht, hk.2, ?_⟩
  intro e he
  have : addWith grow sort h (resliceTo h t.exons j) xs = (res.1, res.2.1, some e) := by
    rw [← he]
  exact addWith_err_slice this

/-- … and the re-sliced receiver is a well-formed slice of the same array, so the theorems about
    `Add` on well-formed receivers (`accepted_sorted_disjoint`, `rejected_add_unchanged`) apply to it:
    an accepted `t.Exons()[:j].Add(xs…)` returns the first `min j cap` cells of the transcript's array
    plus `xs`, sorted and non-overlapping, in a new array. -/
theorem reslice_add_accepted (grow : Nat → Nat → Nat) (sort : List Exon → List Exon) (hsort : SortSpec sort)
    (h : Heap) (t : Tx) (j : Nat) (xs : List Exon) (w : WF h t.exons)
    (h' : Heap) (r : Slice) (hacc : addWith grow sort h (resliceTo h t.exons j) xs = (h', r, none)) :
    Disjoint (read h' r) ∧ (read h' r).Perm ((cells h t.exons).take (min j (cap h t.exons)) ++ xs) ∧
      r.arr = h.length := by
  have wr := resliceTo_wf w j
  obtain ⟨_, hd, hp⟩ := accepted_sorted_disjoint grow sort hsort h _ xs wr h' r hacc
  refine ⟨hd, hp, ?_⟩
  rw [addWith_cases grow sort hsort.length h _ xs wr.readable] at hacc
  split at hacc
  · cases hacc
  · split at hacc
    · cases hacc
    · simp only [Prod.mk.injEq] at hacc
      rw [← hacc.2.1]

/-- **An `Add` whose result is dropped is not an update**: over every history of a transcript, a
    `t.Exons().Add(…)` or `t.Exons()[:j].Add(…)` with the result dropped — accepted or rejected —
    leaves the transcript and the exon set it shows exactly as they were (what the driver demands
    after an accepted `A` / `Z`: the exons shown are still the ones accepted last). -/
theorem dropped_add_unchanged_history (id : Nat) (ops : List TxOp) (xs : List Exon) :
    let st := txRun (txInit id) ops
    (∀ j, (txApply st (.resliceAdd j xs)).1.2 = st.2 ∧
        read (txApply st (.resliceAdd j xs)).1.1 st.2.exons = read st.1 st.2.exons ∧
        cells (txApply st (.resliceAdd j xs)).1.1 st.2.exons = cells st.1 st.2.exons) ∧
    ((txApply st (.addDrop xs)).1.2 = st.2 ∧
        read (txApply st (.addDrop xs)).1.1 st.2.exons = read st.1 st.2.exons ∧
        cells (txApply st (.addDrop xs)).1.1 st.2.exons = cells st.1 st.2.exons) := by
  intro st
  have w : WF st.1 st.2.exons := txRun_wf (txInit_wf id) ops
  constructor
  · intro j
    have hk : Keeps st.1.length st.1 (add st.1 (resliceTo st.1 st.2.exons j) xs).1 :=
      addWith_keeps exactGrow sortByStart st.1 (resliceTo st.1 st.2.exons j) xs
    simp only [txApply]
    generalize add st.1 (resliceTo st.1 st.2.exons j) xs = p at hk
    obtain ⟨h', r, e⟩ := p
    exact ⟨by first | rfl | trivial, read_of_keeps hk _ w.arr_lt, cells_of_keeps hk _ w.arr_lt⟩
  · have hk : Keeps st.1.length st.1 (add st.1 st.2.exons xs).1 :=
      addWith_keeps exactGrow sortByStart st.1 st.2.exons xs
    simp only [txApply]
    generalize add st.1 st.2.exons xs = p at hk
    obtain ⟨h', r, e⟩ := p
    exact ⟨by first | rfl | trivial, read_of_keeps hk _ w.arr_lt, cells_of_keeps hk _ w.arr_lt⟩

-- non-vacuity: the reset idiom on a transcript with three exons; two arguments fit the capacity and
-- overlap (rejected), one fits and is accepted, four exceed it
example :
    let st := txRun (txInit 1) [.set [⟨1, 0, 15, 1⟩, ⟨1, 15, 50, 2⟩, ⟨1, 94, 15, 3⟩]]
    (txApply st (.resliceAdd 0 [⟨1, 4, 7, 4⟩, ⟨1, 8, 28, 5⟩])).2 = some .overlap ∧
    (txApply st (.resliceAdd 0 [⟨1, 4, 7, 4⟩])).2 = none ∧
    (txApply st (.resliceAdd 2 [⟨1, 70, 7, 4⟩])).2 = none ∧
    (txApply st (.resliceAdd 2 [⟨1, 60, 7, 4⟩])).2 = some .overlap ∧
    cap st.1 (resliceTo st.1 st.2.exons 0) = 3 ∧ (resliceTo st.1 st.2.exons 0).len = 0 ∧
    read (txApply st (.resliceAdd 0 [⟨1, 4, 7, 4⟩, ⟨1, 8, 28, 5⟩])).1.1 st.2.exons
      = [⟨1, 0, 15, 1⟩, ⟨1, 15, 50, 2⟩, ⟨1, 94, 15, 3⟩] := by decide

/-- Refutation witness for seeded change C20-m3 (`newSlice := s` for an empty receiver, i.e. `Add` as
    on the pinned tree when `len(s) = 0`): on the transcript above, `t.Exons()[:0].Add(4–11, 8–36)`
    is rejected (overlap) and the transcript then shows `[4–11, 8–36, 94–109]` — the statement of
    `reslice_add_never_writes_transcript` is false of `addPinnedWith`. -/
theorem pinned_reset_add_corrupts_transcript :
    let st := txRun (txInit 1) [.set [⟨1, 0, 15, 1⟩, ⟨1, 15, 50, 2⟩, ⟨1, 94, 15, 3⟩]]
    let res := addPinnedWith exactGrow sortByStart st.1 (resliceTo st.1 st.2.exons 0) [⟨1, 4, 7, 4⟩, ⟨1, 8, 28, 5⟩]
    res.2.2 = some .overlap ∧
      read st.1 st.2.exons = [⟨1, 0, 15, 1⟩, ⟨1, 15, 50, 2⟩, ⟨1, 94, 15, 3⟩] ∧
      read res.1 st.2.exons = [⟨1, 4, 7, 4⟩, ⟨1, 8, 28, 5⟩, ⟨1, 94, 15, 3⟩] := by decide


/-! ## Gene.SetFeatures -/

/-- **Rejected `SetFeatures`** (a feature located elsewhere, no feature starting at 0): the
    gene's length and features are exactly as before. -/
theorem rejected_setFeatures_unchanged (gid : Nat) (g g' : GeneSt) (feats : List FeatIv) (e : Err)
    (hrej : setFeatures gid g feats = (g', some e)) : g' = g := by
  unfold setFeatures at hrej
  split at hrej
  · cases hrej; rfl
  · split at hrej
    · cases hrej; rfl
    · cases hrej

/-- An accepted `SetFeatures` stores the given features; all are located on the gene and lie
    within `[0, Len)` … `Len` being the largest end; one of them starts at 0 (the analogue for
    genes of "one exon starts at 0 and the last one ends at the transcript's end"). -/
theorem accepted_setFeatures (gid : Nat) (g g' : GeneSt) (feats : List FeatIv)
    (hacc : setFeatures gid g feats = (g', none)) :
    g'.feats = feats ∧ (∀ f ∈ feats, f.loc = gid ∧ 0 ≤ f.start ∧ f.stop ≤ g'.length) ∧
      (∃ f ∈ feats, f.start = 0) ∧ 0 ≤ g'.length ∧
      (g'.length = 0 ∨ ∃ f ∈ feats, f.stop = g'.length) := by
  unfold setFeatures at hacc
  split at hacc
  · cases hacc
  · rename_i pos e hscan
    split at hacc
    · cases hacc
    · rename_i hpos
      have hpos : pos = 0 := by simpa using hpos
      simp only [Prod.mk.injEq, and_true] at hacc
      subst hacc
      subst hpos
      obtain ⟨h1, _, h3, h4, h5⟩ := scanFeats_ok gid feats maxInt 0 0 e hscan
      refine ⟨rfl, ?_, ?_, ?_, ?_⟩
      · intro f hf
        have := h1 f hf
        exact ⟨this.1, this.2.1, by simp only [Int.sub_zero]; exact this.2.2⟩
      · rcases h4 with h4 | h4
        · exact absurd h4 (by decide)
        · exact h4
      · simp only [Int.sub_zero]; exact h3
      · simp only [Int.sub_zero]
        rcases h5 with h5 | h5
        · exact Or.inl h5
        · exact Or.inr h5

-- non-vacuity
example : (setFeatures 1 ⟨0, []⟩ [⟨1, 5, 20, 1⟩, ⟨1, 0, 10, 2⟩]).2 = none ∧
    (setFeatures 1 ⟨0, []⟩ [⟨1, 5, 20, 1⟩, ⟨1, 0, 10, 2⟩]).1.length = 20 ∧
    (setFeatures 1 ⟨7, []⟩ [⟨1, 5, 20, 1⟩]).2 = some .noZeroFeat ∧
    (setFeatures 1 ⟨7, []⟩ [⟨2, 0, 20, 1⟩]).2 = some .featLoc := by decide

/-! ## Nested positions compose additively -/

/-- `BasePositionOf` in closed form: on a chain of at most 1000 features (the documented
    limit) the position is shifted by the sum of the `Start`s of the feature and all its
    locations, and the reference is the last feature of the chain. -/
theorem basePositionOf_eq (f : Node) (rest : Chain) (p : Int) (hlen : (f :: rest).length ≤ limit) :
    basePositionOf (f :: rest) p = .ok (p + startSum (f :: rest), lastId f rest) :=
  basePosLoop_closed limit f rest p hlen

/-- … and beyond the limit it is the documented panic. -/
theorem basePositionOf_tooLong (c : Chain) (p : Int) (hlen : limit < c.length) :
    basePositionOf c p = .error .tooLong :=
  basePosLoop_tooLong limit c p hlen

/-- **"positions … mapped through nested locations compose additively"**: the base position of
    `p` in a feature `x` is the base position of `p + x.Start()` in its location — one nesting
    level (exon → transcript → gene → chromosome …) adds one start. -/
theorem basePosition_additive (x y : Node) (rest : Chain) (p : Int)
    (hlen : (x :: y :: rest).length ≤ limit) :
    basePositionOf (x :: y :: rest) p = basePositionOf (y :: rest) (p + x.start) := by
  rw [basePositionOf_eq x (y :: rest) p hlen,
    basePositionOf_eq y rest (p + x.start) (by simp at hlen ⊢; omega)]
  simp only [startSum, lastId]
  congr 2; omega

/-- `PositionWithin` an enclosing location `m` (first occurrence on the chain, at most 999 links
    up) adds the starts of the features below it. -/
theorem positionWithin_eq (pre : List Node) (m : Node) (rest : Chain) (p : Int)
    (hne : ∀ x ∈ pre, x.id ≠ m.id) (hlen : pre.length < limit) :
    positionWithin (pre ++ m :: rest) (some m.id) p = .ok (p + startSum pre, true) :=
  posWithinLoop_found limit pre m rest p hne hlen

/-- a feature is not located within a reference that is not on its chain -/
theorem positionWithin_absent (f : Node) (rest : Chain) (r : Nat) (p : Int)
    (hne : ∀ x ∈ f :: rest, x.id ≠ r) (hlen : (f :: rest).length ≤ limit) :
    positionWithin (f :: rest) (some r) p = .ok (0, false) :=
  posWithinLoop_absent limit f rest r p hne hlen

/-- **Composition through a middle location** (`within_compose`, positions): if `m` encloses
    the feature and `k` encloses `m` (an acyclic stretch of the chain within the depth limit),
    mapping `p` into `m` and the result into `k` is the same as mapping `p` into `k` directly;
    all three calls succeed. -/
theorem within_compose (pre : List Node) (m : Node) (mid : List Node) (k : Node) (rest : Chain) (p : Int)
    (hm : ∀ x ∈ pre, x.id ≠ m.id) (hk : ∀ x ∈ pre ++ m :: mid, x.id ≠ k.id)
    (hlen : (pre ++ m :: mid).length < limit) :
    ∃ q r, positionWithin (pre ++ m :: mid ++ k :: rest) (some m.id) p = .ok (q, true) ∧
      positionWithin (m :: mid ++ k :: rest) (some k.id) q = .ok (r, true) ∧
      positionWithin (pre ++ m :: mid ++ k :: rest) (some k.id) p = .ok (r, true) ∧
      q = p + startSum pre ∧ r = p + startSum (pre ++ m :: mid) := by
  simp only [List.length_append, List.length_cons] at hlen
  refine ⟨p + startSum pre, p + startSum (pre ++ m :: mid), ?_, ?_, ?_, rfl, rfl⟩
  · have := positionWithin_eq pre m (mid ++ k :: rest) p hm (by omega)
    simpa [List.append_assoc] using this
  · have := positionWithin_eq (m :: mid) k rest (p + startSum pre)
      (fun x hx => hk x (List.mem_append_right _ hx)) (by simp; omega)
    rw [startSum_append]
    simpa [Int.add_assoc] using this
  · have := positionWithin_eq (pre ++ m :: mid) k rest p hk (by simp; omega)
    simpa [List.append_assoc] using this

/-- the base position does not change when moving to an enclosing location -/
theorem basePosition_within (pre : List Node) (m : Node) (rest : Chain) (f : Node) (tl : Chain) (p : Int)
    (hc : pre ++ m :: rest = f :: tl)
    (hm : ∀ x ∈ pre, x.id ≠ m.id) (hlen : (pre ++ m :: rest).length ≤ limit) :
    ∃ q, positionWithin (pre ++ m :: rest) (some m.id) p = .ok (q, true) ∧
      basePositionOf (pre ++ m :: rest) p = basePositionOf (m :: rest) q := by
  simp only [List.length_append, List.length_cons] at hlen
  refine ⟨p + startSum pre, positionWithin_eq pre m rest p hm (by omega), ?_⟩
  rw [basePositionOf_eq m rest _ (by simp; omega)]
  have hl : (f :: tl).length ≤ limit := by rw [← hc]; simp; omega
  rw [hc, basePositionOf_eq f tl p hl, ← hc, startSum_append]
  have : lastId f tl = lastId m rest := by
    clear hl hlen hm
    induction pre generalizing f tl with
    | nil => simp at hc; obtain ⟨rfl, rfl⟩ := hc; rfl
    | cons x xs ih =>
      simp only [List.cons_append, List.cons.injEq] at hc
      obtain ⟨rfl, rfl⟩ := hc
      cases hxs : xs ++ m :: rest with
      | nil => simp at hxs
      | cons y ys => simp only [lastId]; exact ih y ys hxs
  rw [this]
  congr 2; omega

-- non-vacuity: exon (start 20) in transcript (100) in gene (1000) on a chromosome (0)
example : positionWithin [⟨1, 20, some 1⟩, ⟨2, 100, some (-1)⟩, ⟨3, 1000, some 1⟩, ⟨4, 0, none⟩] (some 3) 5 = .ok (125, true)
    ∧ basePositionOf [⟨1, 20, some 1⟩, ⟨2, 100, some (-1)⟩, ⟨3, 1000, some 1⟩, ⟨4, 0, none⟩] 5 = .ok (1125, 4) := by
  constructor <;> rfl

/-! ## Orientations compose multiplicatively -/

/-- `BaseOrientationOf` in closed form (chains within the depth limit): for an orientable
    feature the product of the orientations along the maximal run of orientable features,
    relative to the feature after the run (or the last one); for a feature that is not
    orientable, `NotOriented` and the first orientable location (or the last feature). -/
theorem baseOrientationOf_eq (f : Node) (rest : Chain) (hlen : (f :: rest).length ≤ limit) :
    baseOrientationOf (f :: rest) = .ok (baseOrientSpec (f :: rest) |>.getD (0, 0)) := by
  unfold baseOrientationOf baseOrientSpec
  by_cases hf : f.oriented = true
  · simp only [hf, if_true, Option.getD_some]
    rw [baseOriLoop_closed limit 1 f rest hf hlen, Int.one_mul]
  · simp only [hf, Bool.false_eq_true, if_false, Option.getD_some]
    exact baseOriNotLoop_closed limit f rest hlen

/-- **"orientations … compose multiplicatively"**: the base orientation of an orientable
    feature `x` whose location `y` is orientable is `x.Orientation()` times the base orientation
    of `y`, relative to the same reference. -/
theorem baseOrientation_multiplicative (x y : Node) (rest : Chain)
    (hx : x.oriented = true) (hy : y.oriented = true) (hlen : (x :: y :: rest).length ≤ limit) :
    ∃ o r, baseOrientationOf (y :: rest) = .ok (o, r) ∧
      baseOrientationOf (x :: y :: rest) = .ok (x.ori * o, r) := by
  refine ⟨orientProduct (y :: rest), runRef y rest, ?_, ?_⟩
  · rw [baseOrientationOf_eq y rest (by simp at hlen ⊢; omega)]
    simp [baseOrientSpec, hy]
  · rw [baseOrientationOf_eq x (y :: rest) hlen]
    simp only [baseOrientSpec, hx, if_true, Option.getD_some, runRef, hy]
    congr 2
    conv => lhs; rw [orientProduct]
    simp [hx]

/-- `OrientationWithin` an enclosing location `m` above a non-empty stretch `x :: pre`: the
    product of the orientations of the features below `m` (`NotOriented` if one of them is not
    orientable). -/
theorem orientationWithin_eq (x : Node) (pre : List Node) (m : Node) (rest : Chain)
    (hne : ∀ y ∈ x :: pre, y.id ≠ m.id) (hlen : (x :: pre).length ≤ limit) :
    orientationWithin (x :: pre ++ m :: rest) (some m.id) = .ok (orientAll (x :: pre)) := by
  show oriWithinLoop limit 1 (x :: pre ++ m :: rest) m.id = _
  rw [oriWithinLoop_found limit 1 x pre m rest hne hlen, Int.one_mul]

/-- **Composition through a middle location** (`within_compose`, orientations): the orientation
    of the feature within `k` is its orientation within `m` times the orientation of `m`
    within `k`. -/
theorem orientationWithin_compose (x : Node) (pre : List Node) (m : Node) (mid : List Node) (k : Node)
    (rest : Chain)
    (hm : ∀ y ∈ x :: pre, y.id ≠ m.id) (hk : ∀ y ∈ x :: pre ++ m :: mid, y.id ≠ k.id)
    (hlen : (x :: pre ++ m :: mid).length ≤ limit) :
    ∃ a b, orientationWithin (x :: pre ++ m :: mid ++ k :: rest) (some m.id) = .ok a ∧
      orientationWithin (m :: mid ++ k :: rest) (some k.id) = .ok b ∧
      orientationWithin (x :: pre ++ m :: mid ++ k :: rest) (some k.id) = .ok (a * b) := by
  simp only [List.cons_append, List.length_cons, List.length_append] at hlen
  refine ⟨orientAll (x :: pre), orientAll (m :: mid), ?_, ?_, ?_⟩
  · have := orientationWithin_eq x pre m (mid ++ k :: rest) hm (by simp; omega)
    simpa [List.append_assoc] using this
  · exact orientationWithin_eq m mid k rest
      (fun y hy => hk y (by simp only [List.cons_append]; exact List.mem_cons_of_mem _ (List.mem_append_right _ hy)))
      (by simp; omega)
  · have := orientationWithin_eq x (pre ++ m :: mid) k rest
      (by simpa [List.cons_append] using hk) (by simp; omega)
    rw [← orientAll_append]
    simpa [List.append_assoc] using this

-- non-vacuity: exon (+) in transcript (−) in gene (−) on a chromosome: forward within the chromosome
example : orientationWithin [⟨1, 20, some 1⟩, ⟨2, 100, some (-1)⟩, ⟨3, 1000, some (-1)⟩, ⟨4, 0, none⟩] (some 4) = .ok 1
    ∧ orientationWithin [⟨1, 20, some 1⟩, ⟨2, 100, some (-1)⟩, ⟨3, 1000, some (-1)⟩, ⟨4, 0, none⟩] (some 3) = .ok (-1)
    ∧ baseOrientationOf [⟨1, 20, some 1⟩, ⟨2, 100, some (-1)⟩, ⟨3, 1000, some (-1)⟩, ⟨4, 0, none⟩] = .ok (1, 4) := by
  refine ⟨rfl, rfl, rfl⟩

/-! ## 5'UTR, CDS, 3'UTR tile the transcript in orientation order -/

/-- **"the 5'UTR, CDS and 3'UTR tile it in the order dictated by its orientation"**: for a
    coding transcript whose base orientation is forward or reverse, `UTR5`, `CDS`, `UTR3` are
    defined, abut in the order 5'UTR–CDS–3'UTR (forward) or 3'UTR–CDS–5'UTR (reverse) from 0 to
    `Len`, and — when `0 ≤ CDSstart ≤ CDSend ≤ Len`, which the code does not enforce — form an
    exact tiling of `[0, Len)`: every position lies in exactly one of the three. -/
theorem utr_cds_tile (t : Coding) (o : Int) (ref : Nat)
    (hbo : baseOrientationOf (t.node :: t.loc) = .ok (o, ref)) (ho : o = 1 ∨ o = -1) :
    ∃ u5 u3, utr5 t = .ok u5 ∧ utr3 t = .ok u3 ∧
      abuts 0 t.len (utrOrder o (pieceOf u5) (pieceOf (cds t)) (pieceOf u3)) = true ∧
      pieceOf (cds t) = (t.cdsStart, t.cdsEnd) ∧
      (0 ≤ t.cdsStart → t.cdsStart ≤ t.cdsEnd → t.cdsEnd ≤ t.len →
        tiles 0 t.len (utrOrder o (pieceOf u5) (pieceOf (cds t)) (pieceOf u3)) = true ∧
        ∀ p, cover (utrOrder o (pieceOf u5) (pieceOf (cds t)) (pieceOf u3)) p
              = if 0 ≤ p ∧ p < t.len then 1 else 0) := by
  have hcds : pieceOf (cds t) = (t.cdsStart, t.cdsEnd) := by
    simp only [pieceOf, cds, TF.start, TF.stop]; congr 1; omega
  rcases ho with rfl | rfl
  · refine ⟨(0, t.cdsStart), (t.cdsEnd, t.len - t.cdsEnd), ?_, ?_, ?_, hcds, ?_⟩
    · simp [utr5, hbo]
    · simp [utr3, hbo]
    · rw [utrOrder_fwd]; exact abuts3 _ _ _
    · intro h1 h2 h3
      have ht := tiles3 t.cdsStart t.cdsEnd t.len h1 h2 h3
      rw [utrOrder_fwd]
      exact ⟨ht, tiles_cover _ _ _ ht⟩
  · refine ⟨(t.cdsEnd, t.len - t.cdsEnd), (0, t.cdsStart), ?_, ?_, ?_, hcds, ?_⟩
    · simp [utr5, hbo]
    · simp [utr3, hbo]
    · rw [utrOrder_rev]; exact abuts3 _ _ _
    · intro h1 h2 h3
      have ht := tiles3 t.cdsStart t.cdsEnd t.len h1 h2 h3
      rw [utrOrder_rev]
      exact ⟨ht, tiles_cover _ _ _ ht⟩

/-- the orientation that dictates the order is the product of the orientations from the
    transcript up through its orientable locations (gene, contigs …) -/
theorem utr_orientation (t : Coding) (ht : t.node.oriented = true) (hlen : (t.node :: t.loc).length ≤ limit) :
    baseOrientationOf (t.node :: t.loc) = .ok (orientProduct (t.node :: t.loc), runRef t.node t.loc) := by
  rw [baseOrientationOf_eq t.node t.loc hlen]
  simp [baseOrientSpec, ht]

-- non-vacuity: forward transcript on a reverse gene: 3'UTR comes first
example :
    let t : Coding := { node := ⟨1, 20, some 1⟩, loc := [⟨2, 100, some (-1)⟩, ⟨3, 0, none⟩], cdsStart := 100, cdsEnd := 500, len := 800 }
    baseOrientationOf (t.node :: t.loc) = .ok (-1, 3) ∧ utr3 t = .ok (0, 100) ∧ utr5 t = .ok (500, 300) := by
  refine ⟨rfl, rfl, rfl⟩

/-! ## Facts regenerated from the source on every run -/

/-- every depth loop of `BasePositionOf`, `PositionWithin`, `BaseOrientationOf` (two loops) and
    `OrientationWithin` in `feat/feature.go` is `for n := 0; n < 1000; n++`: the fuel the model
    runs with, and the bound the theorems above are stated for, is the one in the source. -/
theorem source_depth_limits :
    Biogo.Generated.featLoopBounds =
      [("BasePositionOf", limit), ("PositionWithin", limit), ("BaseOrientationOf", limit),
       ("BaseOrientationOf", limit), ("OrientationWithin", limit)] := by decide

/-- before its checking loop `Exons.Add` calls `make`, `copy`, `append`, `sort.Sort`, in this
    order — the sequence `addWith` is written with (on the pinned tree it was `append`,
    `sort.Sort`: `addPinnedWith`). -/
theorem source_add_prologue :
    Biogo.Generated.addPrologue = ["make", "copy", "append", "sort.Sort"] := by decide

/-! ## 1-based / 0-based conversions are mutually inverse -/

/-- `OneToZero ∘ ZeroToOne` is the identity: 0-based → 1-based → 0-based. -/
theorem oneToZero_zeroToOne (p : Int) : oneToZero (zeroToOne p) = .ok p := by
  unfold oneToZero zeroToOne
  by_cases h : p ≥ 0
  · simp only [h, if_true]
    have h1 : ¬ (p + 1 = 0) := by omega
    have h2 : p + 1 > 0 := by omega
    simp only [h1, h2, if_false, if_true]
    congr 1; omega
  · simp only [h, if_false]
    have h1 : ¬ (p = 0) := by omega
    have h2 : ¬ (p > 0) := by omega
    simp only [h1, h2, if_false]

/-- `ZeroToOne ∘ OneToZero` is the identity on valid 1-based positions (`p ≠ 0`);
    `OneToZero 0` panics. -/
theorem zeroToOne_oneToZero (p : Int) (hp : p ≠ 0) : (oneToZero p).map zeroToOne = .ok p := by
  unfold oneToZero zeroToOne
  simp only [hp, if_false]
  by_cases h : p > 0
  · have h1 : p - 1 ≥ 0 := by omega
    simp only [h, if_true, Except.map, h1]
    congr 1; omega
  · have h1 : ¬ (p ≥ 0) := by omega
    simp only [h, if_false, Except.map, h1]

/-- and `OneToZero 0` is the documented panic -/
theorem oneToZero_zero : oneToZero 0 = .error .zeroIndex := rfl

end Biogo.Properties.C20
