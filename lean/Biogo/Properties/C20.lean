/-
C20 — gene models keep exons, introns and coding regions as exact partitions; nested
positions compose; rejected updates leave the exon set as it was.  Property theorems only.
-/
import Biogo.Model.Gene
import Biogo.Model.Feat
import Biogo.Spec.Gene

namespace Biogo.Properties.C20
open Biogo.Gene Biogo.Feat Biogo.Spec.Gene

/-- `OneToZero ∘ ZeroToOne` is the identity: 0-based → 1-based → 0-based. -/
theorem oneToZero_zeroToOne (p : Int) : oneToZero (zeroToOne p) = .ok p := by
  unfold oneToZero zeroToOne
  by_cases h : p ≥ 0
  · simp only [h, if_true]
    have h1 : ¬ (p + 1 = 0) := by omega
    have h2 : p + 1 > 0 := by omega
    simp only [h1, h2, if_false, if_true]
    congr 1; omega
  · simp only [h, if_false]
    have h1 : ¬ (p = 0) := by omega
    have h2 : ¬ (p > 0) := by omega
    simp only [h1, h2, if_false]

/-- `ZeroToOne ∘ OneToZero` is the identity on valid 1-based positions (`p ≠ 0`);
    `OneToZero 0` panics. -/
theorem zeroToOne_oneToZero (p : Int) (hp : p ≠ 0) : (oneToZero p).map zeroToOne = .ok p := by
  unfold oneToZero zeroToOne
  simp only [hp, if_false]
  by_cases h : p > 0
  · have h1 : p - 1 ≥ 0 := by omega
    simp only [h, if_true, Except.map, h1]
    congr 1; omega
  · have h1 : ¬ (p ≥ 0) := by omega
    simp only [h, if_false, Except.map, h1]

/-- and `OneToZero 0` is the documented panic -/
theorem oneToZero_zero : oneToZero 0 = .error .zeroIndex := rfl

end Biogo.Properties.C20
