/-
C03 — **source-shape facts** of the four readers (advisory; not obligations of the property).

The two theorems below pin the *text* of the functions the reader models transcribe: which
index / slice / division / type-assertion expressions they contain (`panic_sites_modelled`) and
which length guards and constant field indices (`source_guards_as_modelled`).  No model definition
and no property theorem depends on them: the models are tied to the code by the differential
correspondence, which is aimed at exactly these guards.  They used to be obligations of C03; a round
of behaviour-preserving rewrites by independent engineers (renamed locals, `append` instead of an
index fill, a helper extracted, a `range` value instead of `line[i]`) showed that they fail on code
for which the property holds, and every seeded defect of C03 is found by the correspondence with
a concrete failing input.  They are therefore kept as *advisory* facts (`advisory_targets` in
`propcfg/C03.*.json`): when one of them no longer checks, `check` widens the generation, runs the
deep search, and records the change in the evidence; it reports a violation only if a failing
input or a model/implementation disagreement is found.
-/
import Biogo.Generated.Seqio
import Biogo.Generated.FeatIO

namespace Biogo.Properties.C03_shape

/-- **The model makes every panic site of the code explicit.**  The list — regenerated from the
    source on every run — of all index, slice, division/remainder and single-valued type-assertion
    expressions in the modelled functions is exactly the one the models were written against:

    * `fasta.Reader.Read`: `line[len(r.SeqPrefix):]` — `sliceFrom` in `Fasta.read`;
    * `fasta.Reader.header` / `fastq.Reader.readHeader`: the three slices — `slice`/`sliceFrom` in
      `header` / `readHeader` (in `header`, since fix `501e905`, the prefix is cut off first and the
      separator is looked for in the rest); `r.t.Clone().(seqio.SequenceAppender)` — assumption: the template
      is a `linear.Seq`/`linear.QSeq`, whose `Clone` returns the same type;
    * `fasta.Writer.Write`: `i % w.Width` — `.divideByZero` in `writeLoop`;
    * `fastq.Reader.Read`: `label[1:]`, `line[1:]` (twice each) — `sameLabel`; `seqBuff[i]`,
      `seqBuff[:i]` in the fill loop (`i` counts the non-blank bytes of `line`, `seqBuff` has
      `len(line)` elements) — modelled as `filter`; `line[:0]` — always in range; `seqBuff[i]`,
      `line[i]` in the decode loop, after the check `len(line) == len(seqBuff)` — modelled as
      `map`; the call on the possibly-nil `t` is `.nilDeref` in `finish`;
    * `maybeID1` / `maybeID2`: `l[0]` behind `len(l) > 0 &&` — a pattern match.

    A new or changed expression of these kinds in the source breaks this theorem, and the
    check then searches for a failing input. -/
theorem panic_sites_modelled :
    Biogo.Generated.Seqio.panicSites = [
      ("fasta.Reader.Read", ["line[len(r.SeqPrefix):]"]),
      ("fasta.Reader.header", ["r.t.Clone().(seqio.SequenceAppender)", "line[len(r.IDPrefix):]",
        "line[:fieldMark]", "line[fieldMark+1:]"]),
      ("fasta.Writer.Write", ["i % w.Width"]),
      ("fastq.Reader.Read", ["label[1:]", "line[1:]", "label[1:]", "line[1:]", "seqBuff[i]", "seqBuff[:i]",
        "line[:0]", "seqBuff[i]", "line[i]"]),
      ("fastq.Reader.readHeader", ["r.t.Clone().(seqio.SequenceAppender)", "line[1:]", "line[1:fieldMark]",
        "line[fieldMark+1:]"]),
      ("fastq.Writer.Write", []),
      ("fastq.Writer.writeHeader", []),
      ("fastq.maybeID1", ["l[0]"]),
      ("fastq.maybeID2", ["l[0]"])] := by
  decide

/-! ## the guards of the source, regenerated on every run

The models index `fields[k]` exactly where the code does and guard exactly as the code does;
these are the length guards and constant index expressions found in the reader functions of the
working tree (`harness gen`, go/ast).  A guard that disappears, weakens or moves, or a field
constant that changes position, makes this theorem fail before any input is run (advisory, see
the header of this file). -/

open Biogo.Generated.FeatIO in
theorem source_guards_as_modelled :
    gffFields = ["nameField", "sourceField", "featureField", "startField", "endField", "scoreField",
                 "strandField", "frameField", "attributeField", "commentField", "lastField"] ∧
    bedFields = ["chromField", "startField", "endField", "nameField", "scoreField", "strandField",
                 "thickStartField", "thickEndField", "rgbField", "blockCountField", "blockSizesField",
                 "blockStartsField"] ∧
    gffVersion = "2" ∧
    gff_Read =
      ["guard len(line) == 0", "guard len(line) == 0", "index line[0]",
       "guard len(fields) <= frameField",
       "index fields[nameField]", "index fields[sourceField]", "index fields[featureField]",
       "index fields[startField] via mustAtoPos", "index fields[endField] via mustAtoi",
       "index fields[scoreField] via mustAtofPtr", "index fields[strandField] via mustAtos",
       "index fields[frameField] via mustAtoFr",
       "guard len(fields) <= attributeField", "index fields[attributeField] via mustAtoa",
       "guard len(fields) <= commentField", "index fields[commentField]"] ∧
    gff_commentMetaline =
      ["guard len(fields) < 1", "index fields[0]",
       "guard len(fields) <= 1", "index fields[1] via mustAtoi",
       "guard len(fields) <= 1",
       "guard len(fields) <= 1", "guard len(r.TimeFormat) > 0",
       "guard len(fields) <= 1", "index fields[1]", "guard len(fields) > 2", "index fields[2]",
       "guard len(fields) <= 3", "index fields[1]", "index fields[2] via mustAtoPos", "index fields[3] via mustAtoi",
       "guard len(fields) <= 1", "index fields[0]", "index fields[1]"] ∧
    gff_metaSeq = ["guard len(line) == 0", "guard len(line) == 0", "guard len(line) < 2"] ∧
    gff_mustAtoa = ["guard len(f) == 0", "guard len(tag) == 0"] ∧
    gff_mustAtos = ["guard len(f[index]) != 1", "index f[index][0]"] ∧
    gff_mustAtofPtr = ["guard len(f[index]) == 1", "index f[index][0]"] ∧
    gff_mustAtoFr = ["guard len(f[index]) == 1", "index f[index][0]"] ∧
    bed_parseBed3 = ["guard len(f) < n", "index f[chromField]", "index f[startField]", "index f[endField]"] ∧
    bed_parseBed4 = ["guard len(f) < n", "index f[chromField]", "index f[startField]", "index f[endField]",
                     "index f[nameField]"] ∧
    bed_parseBed5 = ["guard len(f) < n", "index f[chromField]", "index f[startField]", "index f[endField]",
                     "index f[nameField]", "index f[scoreField]"] ∧
    bed_parseBed6 = ["guard len(f) < n", "index f[chromField]", "index f[startField]", "index f[endField]",
                     "index f[nameField]", "index f[scoreField]", "index f[strandField]"] ∧
    bed_parseBed12 = ["guard len(f) < n", "index f[chromField]", "index f[startField]", "index f[endField]",
                      "index f[nameField]", "index f[scoreField]", "index f[strandField]", "index f[thickStartField]",
                      "index f[thickEndField]", "index f[rgbField]", "index f[blockCountField]",
                      "index f[blockSizesField]", "index f[blockStartsField]"] ∧
    bed_mustAtoRgb = ["guard l == 0", "guard l == 1", "index c[0]", "guard l < 3", "index c[0]", "index c[1]",
                      "index c[2]"] ∧
    bed_mustAtos = ["guard len(f) != 1", "index f[0]"] ∧
    bed_mustAtoa = ["guard len(f) == 0"] ∧
    bed_Read = ["guard len(line) == 0"] := by
  decide

end Biogo.Properties.C03_shape
