/-
C19 — the promise protocol with the condition variable spelled out.

`Biogo.Promise.sys` (Properties/C19.lean, C19_promise.lean) treats `Wait`'s first block as
"enabled iff the mutex is free and the mailbox is full".  `Biogo.PromiseCond.fsys` — the
transition system the driver executes for every `pp` case — has the sleep on `p.set` as a state
of its own, and `fulfill`/`fail` wake the sleepers after placing the message (`Wake.broadcast`:
the code; `Wake.signal`: the seeded change C19-m2).  Property theorems only:

* the refinement that carries every theorem about `Biogo.Promise.sys` over;
* what the abstraction had assumed: with Broadcast nobody sleeps while the promise holds a
  Result, the only blocked states are Waits asleep before an empty promise, and sleeping and
  waking cannot go on for ever;
* with Signal a wake-up is lost.
-/
import Biogo.Proofs.PromiseCond
import Biogo.Properties.C19_promise
import Biogo.Properties.C19

namespace Biogo.Properties.C19_cond
open Biogo.LTS Biogo.Promise Biogo.PromiseCond

variable {c : FCfg} {s s' : FSt} {i : Nat}

/-- Every reachable state of the protocol with the condition variable is, with the sleep
    forgotten (`sleeping`, `woken` ↦ not yet taken), a reachable state of `Biogo.Promise.sys`
    — whichever way the sleepers are woken.  So every safety theorem of Properties/C19.lean and
    C19_promise.lean holds for it: the two instances below, and likewise the others. -/
theorem cond_refines_protocol (hr : Reach (fsys c) s) : Reach (Promise.sys (absCfg c)) (abs s) :=
  abs_reach s hr

/-- one step: a step of `Biogo.Promise.sys`, or invisible (a Wait going to sleep) -/
theorem cond_step_refines (h : fstep c s i = some s') :
    Promise.step (absCfg c) (abs s) i = some (abs s') ∨ abs s' = abs s :=
  abs_step h

/-- instance: every schedule is explained by a sequential history (all flags, all calls) -/
theorem cond_linearizable (hr : Reach (fsys c) s) :
    ∃ hist : List (Nat × Ret),
      seqExec c.flags c.calls none hist = some (cur (abs s)) ∧
      (hist.map Prod.fst).Nodup ∧
      ∀ (j : Nat) (ret : Ret), (j, ret) ∈ hist ↔ ((abs s).pcs[j]?).bind lp = some ret :=
  C19_promise.promise_linearizable (c := absCfg c) rfl (abs_reach s hr)

/-- instance: single assignment of the immutable promise, any values, any relay flag -/
theorem cond_immutable_single_assignment (hm : c.flags.mutable = false) (hN : NoReset (absCfg c))
    (hr : Reach (fsys c) s) :
    (abs s).pcs.countP APc.isWin ≤ 1 ∧ (cur (abs s) ≠ none ↔ (abs s).pcs.countP APc.isWin = 1) :=
  C19_promise.immutable_single_assignment (c := absCfg c) rfl hm hN (abs_reach s hr)

/-- the runs of the driver: a `pp` case is executed on `fsys`; with the sleep forgotten its
    state is reachable in `Biogo.Promise.sys` -/
theorem driver_promise_runs_refine (qc : FCfg) (sched order : List Nat) :
    Reach (Promise.sys (absCfg qc)) (abs (Biogo.Drive.C19.runMacro (Biogo.Drive.C19.promMacro qc) sched order).st) :=
  abs_reach _ (Biogo.Properties.C19.runMacro_reach (Biogo.Drive.C19.promMacro qc) sched order)

/-- "without blocking forever": no lost wake-up.  With `Broadcast`, a Wait is asleep on the
    condition variable only while the mailbox is empty and nobody holds the mutex — i.e. while
    the promise holds nothing. -/
theorem no_lost_wakeup (hw : c.wake = .broadcast) (hr : Reach (fsys c) s) {j : Nat}
    (hj : s.pcs[j]? = some .sleeping) : s.box = none ∧ s.mu = none ∧ cur (abs s) = none := by
  obtain ⟨h1, h2⟩ := noSleeper_reach hw s hr j hj
  exact ⟨h1, h2, cur_none_of (s := abs s) h1 h2⟩

/-- "without … deadlock", with the condition variable: in every reachable state either some
    goroutine can take a step, or the mutex is free and every call that has not returned is a
    Wait asleep on the condition variable before an empty promise. -/
theorem no_deadlock_cond (hw : c.wake = .broadcast) (hr : Reach (fsys c) s) :
    (∃ i, (fstep c s i).isSome = true) ∨
    (s.mu = none ∧
      ∀ (i : Nat) (pc : FPc), s.pcs[i]? = some pc → pc.isDone = false →
        c.calls[i]? = some .wait ∧ pc = .sleeping ∧ s.box = none) := by
  have hG := ginv_reach (c := absCfg c) rfl _ (abs_reach s hr)
  have hlen : s.pcs.length = c.calls.length := by have := hG.len; simpa [abs, absCfg] using this
  -- search the finitely many actors
  have hsearch : ∀ n, (∃ i, (fstep c s i).isSome = true) ∨ (∀ i, i < n → fstep c s i = none) := by
    intro n
    induction n with
    | zero => right; intro i hi; omega
    | succ n ih =>
      rcases ih with h | h
      · exact Or.inl h
      · cases hs : fstep c s n with
        | some t => left; exact ⟨n, by simp [hs]⟩
        | none =>
          right; intro i hi
          rcases Nat.lt_succ_iff_lt_or_eq.1 hi with h' | h'
          · exact h i h'
          · subst h'; exact hs
  rcases hsearch c.calls.length with h | h
  · exact Or.inl h
  · right
    have hstuck : ∀ i, fstep c s i = none := by
      intro i
      rcases Nat.lt_or_ge i c.calls.length with hi | hi
      · exact h i hi
      · have : c.calls[i]? = none := List.getElem?_eq_none hi
        simp [fstep, this]
    obtain ⟨hmu, hall⟩ := fstuck_shape hG (waitOnly_reach s hr) hstuck
    refine ⟨hmu, ?_⟩
    intro i pc hpc hnd
    obtain ⟨h1, h2⟩ := hall i pc hpc hnd
    subst h2
    exact ⟨h1, rfl, (noSleeper_reach hw s hr i hpc).1⟩

/-- sleeping and waking cannot go on for ever: every step (with either way of waking) decreases
    `fmu`, so a run from the initial state has at most `n·(n+3)` steps for `n` calls. -/
theorem cond_terminates {sched : List Nat} (h : run (fsys c) (finit c) sched = some s) :
    sched.length + fmu c s ≤ c.calls.length * (c.calls.length + 3) := by
  have := run_length_le_of (S := fsys c) (fmu c) (fun s => s.pcs.length = c.calls.length)
    (fun _ _ _ hl hs => flen_step hl hs) (fun _ _ _ hl hs => fmu_step hl hs)
    (s := finit c) (by simp [finit]) h
  have hrep : ∀ m : Nat, ((List.replicate m FPc.start).map (frank c.calls.length)).sum = m * (c.calls.length + 3) := by
    intro m
    induction m with
    | zero => simp
    | succ m ih =>
      simp only [List.replicate_succ, List.map_cons, List.sum_cons, ih, frank, Nat.succ_mul]; omega
  have h0 : fmu c (finit c) = c.calls.length * (c.calls.length + 3) := by
    simp only [fmu, finit]; exact hrep _
  omega

/-- the seeded change C19-m2 (`p.set.Signal()` in `fail`): two Waits asleep, one Fail — only one
    of them is woken; the other sleeps for ever although the promise holds a Result. -/
theorem signal_loses_wakeup :
    let c : FCfg := { flags := ⟨false, false, false⟩, calls := [.wait, .wait, .fail none (some (.user 7))], wake := .signal }
    ∃ sched : List Nat, ∃ s, run (fsys c) (finit c) sched = some s ∧
      (∀ i ∈ [0, 1, 2], fstep c s i = none) ∧ s.box = some ⟨none, some (.user 7)⟩ ∧
      s.pcs[1]? = some .sleeping :=
  ⟨[0, 1, 2, 0, 0], _, rfl, by decide, by decide, by decide⟩

/-- the same schedule with Broadcast: both Waits return the failure -/
example :
    let c : FCfg := { flags := ⟨false, false, false⟩, calls := [.wait, .wait, .fail none (some (.user 7))], wake := .broadcast }
    (runSkip (fsys c) (finit c) [0, 1, 2, 0, 0, 1, 1]).pcs =
      [.done (.res ⟨none, some (.user 7)⟩), .done (.res ⟨none, some (.user 7)⟩), .done (.bool true)] := by
  decide

/-- a Wait that sleeps, is woken, finds the promise emptied again by Break, and goes back to
    sleep (the `for` loop around `p.set.Wait()`); Recover(3) finally releases it -/
example :
    let c : FCfg := { flags := ⟨true, true, false⟩, calls := [.wait, .fulfill (some 1), .brk, .recover (some 3)], wake := .broadcast }
    (runSkip (fsys c) (finit c) [0, 1, 2]).pcs[0]? = some .woken ∧
    (runSkip (fsys c) (finit c) [0, 1, 2, 0]).pcs[0]? = some .sleeping ∧
    (runSkip (fsys c) (finit c) [0, 1, 2, 0, 3, 0, 0]).pcs[0]? = some (.done (.res ⟨some 3, none⟩)) := by
  decide

end Biogo.Properties.C19_cond
