/-
C20 — the executable statement the driver evaluates on the implementation's output
(`Spec.GeneCheck.addStatement`, `txStatement`, `gfStatement`, built from `sortedDisjoint`, `tiles`,
`abuts`, `alternate`, `intronsFit`, `cover`, `utrOrder`, `maxStop`) implies the declarative
statements of C20: sorted and pairwise non-overlapping, introns are exactly the gaps, every
position of `[0, Len)` lies in exactly one piece, rejected updates change nothing.
-/
import Biogo.Spec.Gene
import Biogo.Spec.GeneCheck
import Biogo.Proofs.Gene
import Biogo.Drive.C20
import Biogo.Properties.C20

namespace Biogo.Properties.C20_checker
open Biogo.Gene Biogo.Feat Biogo.Spec.Gene Biogo.Spec.GeneCheck Biogo.Proofs.Gene

/-! ### the clause list -/

theorem firstViolation_none (l : List (Bool × String)) :
    firstViolation l = none ↔ ∀ x ∈ l, x.1 = false := by
  induction l with
  | nil => simp [firstViolation]
  | cons x xs ih =>
    obtain ⟨c, m⟩ := x
    simp only [firstViolation, List.mem_cons, forall_eq_or_imp]
    cases c <;> simp [ih]

/-! ### the predicates, declaratively -/

/-- `sortedDisjoint` (a test of consecutive exons) is the pairwise statement: every earlier exon
    starts no later than, and ends no later than the start of, every later one, on one location -/
theorem sortedDisjoint_iff : ∀ (l : List Exon), sortedDisjoint l = true ↔ Disjoint l
  | [] => by simp [sortedDisjoint, Disjoint]
  | [_] => by simp [sortedDisjoint, Disjoint]
  | a :: b :: rest => by
    constructor
    · exact disjoint_of_sortedDisjoint _
    · intro h
      unfold Disjoint at h
      rw [List.pairwise_cons] at h
      simp only [sortedDisjoint, adjOK, Bool.and_eq_true, decide_eq_true_eq]
      have hab := h.1 b List.mem_cons_self
      exact ⟨⟨⟨hab.1, hab.2.1⟩, hab.2.2⟩, (sortedDisjoint_iff (b :: rest)).mpr h.2⟩

/-- position `p` lies in exactly one piece of the list (one occurrence) -/
def CoveredOnce (ps : List Piece) (p : Int) : Prop :=
  ∃ l1 x l2, ps = l1 ++ x :: l2 ∧ (x.1 ≤ p ∧ p < x.2) ∧
    (∀ y ∈ l1, ¬ (y.1 ≤ p ∧ p < y.2)) ∧ (∀ y ∈ l2, ¬ (y.1 ≤ p ∧ p < y.2))

theorem has_iff (x : Piece) (p : Int) : x.has p = true ↔ (x.1 ≤ p ∧ p < x.2) := by
  simp [Piece.has]

theorem cover_cons (x : Piece) (ps : List Piece) (p : Int) :
    cover (x :: ps) p = (if x.has p then 1 else 0) + cover ps p := by
  unfold cover
  rw [List.filter_cons]
  split <;> simp <;> omega

theorem cover_zero_iff (ps : List Piece) (p : Int) :
    cover ps p = 0 ↔ ∀ y ∈ ps, ¬ (y.1 ≤ p ∧ p < y.2) := by
  unfold cover
  rw [List.length_eq_zero_iff, List.filter_eq_nil_iff]
  constructor
  · intro h y hy; rw [← has_iff]; exact h y hy
  · intro h y hy; rw [has_iff]; exact h y hy

/-- the count the checker's lemma `tiles_cover` speaks of is 1 exactly when one piece holds `p` -/
theorem cover_one_iff (ps : List Piece) (p : Int) : cover ps p = 1 ↔ CoveredOnce ps p := by
  induction ps with
  | nil =>
    simp only [cover, List.filter_nil, List.length_nil]
    constructor
    · intro h; cases h
    · rintro ⟨l1, x, l2, h, _⟩; cases l1 <;> cases h
  | cons x ps ih =>
    rw [cover_cons]
    by_cases hx : x.has p = true
    · rw [if_pos hx]
      constructor
      · intro h
        have h0 : cover ps p = 0 := by omega
        exact ⟨[], x, ps, rfl, (has_iff x p).mp hx, by simp, (cover_zero_iff ps p).mp h0⟩
      · rintro ⟨l1, y, l2, heq, hy, h1, h2⟩
        cases l1 with
        | nil =>
          simp only [List.nil_append, List.cons.injEq] at heq
          have : cover ps p = 0 := (cover_zero_iff ps p).mpr (heq.2 ▸ h2)
          omega
        | cons z l1 =>
          simp only [List.cons_append, List.cons.injEq] at heq
          exact absurd ((has_iff x p).mp hx) (heq.1 ▸ h1 z List.mem_cons_self)
    · rw [if_neg hx, Nat.zero_add, ih]
      have hx' : ¬ (x.1 ≤ p ∧ p < x.2) := fun h => hx ((has_iff x p).mpr h)
      constructor
      · rintro ⟨l1, y, l2, heq, hy, h1, h2⟩
        refine ⟨x :: l1, y, l2, by rw [heq]; rfl, hy, ?_, h2⟩
        intro z hz
        rw [List.mem_cons] at hz
        rcases hz with rfl | hz
        · exact hx'
        · exact h1 z hz
      · rintro ⟨l1, y, l2, heq, hy, h1, h2⟩
        cases l1 with
        | nil =>
          simp only [List.nil_append, List.cons.injEq] at heq
          exact absurd (heq.1 ▸ hy) hx'
        | cons z l1 =>
          simp only [List.cons_append, List.cons.injEq] at heq
          exact ⟨l1, y, l2, heq.2, hy, fun w hw => h1 w (List.mem_cons_of_mem _ hw), h2⟩

/-- **`tiles` gives the partition**: if the pieces tile `[a, b)` in order, every position of
    `[a, b)` lies in exactly one piece and every position outside in none -/
theorem tiles_partition (a b : Int) (ps : List Piece) (h : tiles a b ps = true) (p : Int) :
    (a ≤ p ∧ p < b → CoveredOnce ps p) ∧ (¬ (a ≤ p ∧ p < b) → ∀ y ∈ ps, ¬ (y.1 ≤ p ∧ p < y.2)) := by
  have hc := tiles_cover a b ps h p
  constructor
  · intro hp; rw [if_pos hp] at hc; exact (cover_one_iff ps p).mp hc
  · intro hp; rw [if_neg hp] at hc; exact (cover_zero_iff ps p).mp hc

/-- the introns are exactly the gaps between consecutive exons: intron `i` runs from the end of
    exon `i` to the start of exon `i+1`, on the location of the latter -/
def IntronsAreGaps (es : List Exon) (is : List Intron) : Prop :=
  ∀ i (h1 : i < is.length) (h2 : i + 1 < es.length),
    is[i].start = es[i].stop ∧ is[i].stop = es[i + 1].start ∧ is[i].loc = es[i + 1].loc

theorem intronsFit_iff : ∀ (es : List Exon) (is : List Intron),
    intronsFit es is = true ↔ IntronsAreGaps es is
  | [], is => by
    simp only [intronsFit, true_iff]
    intro i _ h2; simp at h2
  | [_], is => by
    simp only [intronsFit, true_iff]
    intro i _ h2; simp at h2
  | _ :: _ :: _, [] => by
    simp only [intronsFit, true_iff]
    intro i h1; simp at h1
  | a :: b :: rest, i :: is => by
    simp only [intronsFit, Bool.and_eq_true, decide_eq_true_eq]
    rw [intronsFit_iff (b :: rest) is]
    constructor
    · rintro ⟨⟨⟨h1, h2⟩, h3⟩, h4⟩ j hj1 hj2
      cases j with
      | zero => exact ⟨h1, h2, h3⟩
      | succ j =>
        simp only [List.length_cons] at hj1 hj2
        have := h4 j (by omega) (by simp only [List.length_cons]; omega)
        simpa using this
    · intro h
      have h0 := h 0 (by simp) (by simp)
      refine ⟨⟨⟨h0.1, h0.2.1⟩, h0.2.2⟩, ?_⟩
      intro j hj1 hj2
      simp only [List.length_cons] at hj2
      have := h (j + 1) (by simp only [List.length_cons]; omega) (by simp only [List.length_cons]; omega)
      simpa using this

/-- `alternate`: one intron between consecutive exons, none elsewhere -/
theorem alternate_iff (es : List Exon) (is : List Intron) :
    alternate es is = true ↔ (is.length + 1 = es.length ∨ (es = [] ∧ is = [])) := by
  simp [alternate, List.isEmpty_iff]

/-- the gene length the checker demands: the largest end, 0 at least -/
theorem maxStop_iff (fs : List FeatIv) (l : Int) :
    l = maxStop fs ↔ ((∀ f ∈ fs, f.stop ≤ l) ∧ 0 ≤ l ∧ (l = 0 ∨ ∃ f ∈ fs, f.stop = l)) := by
  induction fs generalizing l with
  | nil =>
    simp only [maxStop, List.not_mem_nil, false_and, exists_false, or_false]
    constructor
    · intro h; subst h; exact ⟨fun _ h => absurd h id, Int.le_refl _, rfl⟩
    · intro h; exact h.2.2
  | cons f fs ih =>
    simp only [maxStop, List.mem_cons, forall_eq_or_imp, exists_eq_or_imp]
    have ihm := ih (maxStop fs)
    have hm := ihm.mp rfl
    constructor
    · intro h
      subst h
      refine ⟨⟨Int.le_max_left _ _, fun g hg => Int.le_trans (hm.1 g hg) (Int.le_max_right _ _)⟩,
        Int.le_trans hm.2.1 (Int.le_max_right _ _), ?_⟩
      by_cases hle : f.stop ≤ maxStop fs
      · rw [Int.max_eq_right hle]
        rcases hm.2.2 with h0 | ⟨g, hg, hgs⟩
        · exact Or.inl h0
        · exact Or.inr (Or.inr ⟨g, hg, hgs⟩)
      · rw [Int.max_eq_left (by omega)]
        exact Or.inr (Or.inl rfl)
    · rintro ⟨⟨h1, h2⟩, h3, h4⟩
      have hle : maxStop fs ≤ l := by
        rcases hm.2.2 with h0 | ⟨g, hg, hgs⟩
        · omega
        · rw [← hgs]; exact h2 g hg
      have hmax : max f.stop (maxStop fs) ≤ l := Int.max_le.mpr ⟨h1, hle⟩
      have hge : l ≤ max f.stop (maxStop fs) := by
        rcases h4 with h0 | h5 | ⟨g, hg, hgs⟩
        · have := Int.le_max_right f.stop (maxStop fs); omega
        · rw [← h5]; exact Int.le_max_left _ _
        · rw [← hgs]; exact Int.le_trans (hm.1 g hg) (Int.le_max_right _ _)
      omega

/-! ### nested positions: the closed forms `specQuery` compares with

`specQuery` compares the implementation's answers (as strings) with `p + startSum (segment nodes i j)`,
`orientAll (segment nodes i j)`, `startSum`/`lastId`/`baseOrientSpec` of `nodes.drop i`.  The last three are
the right-hand sides of `basePositionOf_eq` / `baseOrientationOf_eq` verbatim (the chain seen from node `i`
*is* `nodes.drop i`).  For the first two, the chain of the theorems is `pre ++ m :: rest`; the lemmas below
say that this is the driver's `segment`: for nodes numbered `1, 2, …` as `parseChainFrom 1` numbers them,
the model's answers are the closed forms the driver demands. -/

open Biogo.Drive.C20 in
theorem chain_split (nodes : List Node) (i j : Nat) (hij : i ≤ j) (hj : j < nodes.length) :
    nodes.drop i = segment nodes i j ++ nodes[j] :: nodes.drop (j + 1) := by
  unfold segment
  conv => lhs; rw [← List.take_append_drop (j - i) (nodes.drop i)]
  rw [List.drop_drop, show i + (j - i) = j by omega, List.drop_eq_getElem_cons hj]

open Biogo.Drive.C20 in
theorem mem_segment (nodes : List Node) (hid : ∀ idx (h : idx < nodes.length), nodes[idx].id = idx + 1)
    (i j : Nat) (hj : j < nodes.length) (x : Node) (hx : x ∈ segment nodes i j) : x.id ≠ j + 1 := by
  unfold segment at hx
  rw [List.mem_take_iff_getElem] at hx
  obtain ⟨t, ht, rfl⟩ := hx
  rw [List.length_drop] at ht
  rw [List.getElem_drop, hid]
  omega

open Biogo.Drive.C20 in
/-- clause "PositionWithin-is-not-the-sum-of-starts": what the driver demands of
    `PositionWithin(node i, node j, p)` for `i ≤ j`, fewer than 1000 links apart, is what the model
    answers (`positionWithin_eq`) -/
theorem query_positionWithin (nodes : List Node)
    (hid : ∀ idx (h : idx < nodes.length), nodes[idx].id = idx + 1)
    (i j : Nat) (p : Int) (hij : i ≤ j) (hj : j < nodes.length) (hlim : j - i < limit) :
    positionWithin (nodes.drop i) (some (j + 1)) p = .ok (p + startSum (segment nodes i j), true) := by
  rw [chain_split nodes i j hij hj]
  have := Biogo.Properties.C20.positionWithin_eq (segment nodes i j) nodes[j] (nodes.drop (j + 1)) p
    (fun x hx => by rw [hid j hj]; exact mem_segment nodes hid i j hj x hx)
    (by unfold segment; rw [List.length_take, List.length_drop]; omega)
  rw [hid j hj] at this
  exact this

open Biogo.Drive.C20 in
/-- clause "OrientationWithin-is-not-the-product", for a proper ancestor `i < j` -/
theorem query_orientationWithin (nodes : List Node)
    (hid : ∀ idx (h : idx < nodes.length), nodes[idx].id = idx + 1)
    (i j : Nat) (hij : i < j) (hj : j < nodes.length) (hlim : j - i ≤ limit) :
    orientationWithin (nodes.drop i) (some (j + 1)) = .ok (orientAll (segment nodes i j)) := by
  rw [chain_split nodes i j (by omega) hj]
  cases hseg : segment nodes i j with
  | nil =>
    have := congrArg List.length hseg
    unfold segment at this
    rw [List.length_take, List.length_drop] at this
    simp at this; omega
  | cons x pre =>
    have hlen : (x :: pre).length ≤ limit := by
      rw [← hseg]; unfold segment; rw [List.length_take, List.length_drop]; omega
    have := Biogo.Properties.C20.orientationWithin_eq x pre nodes[j] (nodes.drop (j + 1))
      (fun y hy => by rw [hid j hj]; exact mem_segment nodes hid i j hj y (hseg ▸ hy)) hlen
    rw [hid j hj] at this
    exact this

/-! ### property theorems -/

/-- **`Exons.Add`, checker = statement**: the driver reports no violation for one `Add` call
    exactly when — rejected: the receiver's cells read as before, the returned slice is the old
    one (`rejected_add_unchanged`) and a held earlier value of the variable (whose live data may be
    the receiver's spare capacity) reads as before (`add_keeps_held_history`); accepted: the returned
    exons are pairwise sorted and non-overlapping on one location and are a permutation of the old
    exons plus the arguments (`accepted_sorted_disjoint`). -/
theorem add_checker_iff (accepted : Bool) (old afterOld res args heldOld heldAfter : List Exon) :
    addStatement accepted old afterOld res args heldOld heldAfter = none ↔
      (accepted = false → afterOld = old ∧ res = old ∧ heldAfter = heldOld) ∧
      (accepted = true → Disjoint res ∧ res.Perm (old ++ args)) := by
  unfold addStatement addClauses
  rw [firstViolation_none]
  simp only [List.mem_cons, List.not_mem_nil, or_false, forall_eq_or_imp, forall_eq]
  cases accepted
  · simp
  · simp only [Bool.not_true, Bool.false_and, Bool.true_and, Bool.not_eq_false', true_and,
      reduceCtorEq, false_implies, forall_const]
    rw [sortedDisjoint_iff, List.isPerm_iff]

/-- what is demanded of a transcript after every operation (`S`, `R`: updates; `A`, `Z`: an `Add`
    on (a re-slice of) `t.Exons()` whose result is dropped; `O`, `M`: the orientation / the start of a
    feature of the location chain was assigned — `node`, `loc` are the chain after the operation, so
    `utr_cds` demands the order dictated by the *current* product of orientations) -/
structure TxOK (coding : Bool) (node : Node) (loc : Chain) (cdsStart cdsEnd : Int)
    (kind : String) (accepted : Bool) (args prev es : List Exon) (is : List Intron)
    (tstart tend tlen : Int) (utr : Option (Piece × Piece × Piece)) (sh : String) : Prop where
  /-- after an accepted operation the exons are sorted and pairwise non-overlapping, on the
      transcript, start at 0, and are the given ones: the arguments of `SetExons`, or — after an
      `Add` whose result is dropped or a change of the location chain — still the set accepted last -/
  accepted_exons : accepted = true →
    Disjoint es ∧ (∀ e ∈ es, e.loc = 1) ∧ startOf es = 0 ∧
      es.Perm (if kind = "R" then prev ++ args
       else if kind = "A" ∨ kind = "Z" ∨ kind = "O" ∨ kind = "M" then prev else args)
  /-- exons and introns alternate, the introns are the gaps -/
  alternate : is.length + 1 = es.length ∨ (es = [] ∧ is = [])
  gaps : IntronsAreGaps es is
  /-- exon, intron, exon, … tile `[0, Len)` in order: every position of the transcript lies in
      exactly one of them, every other position in none -/
  tiling : (∀ e ∈ es, 0 ≤ e.len) →
    tiles 0 tlen (interleave es is) = true ∧
    ∀ p, (0 ≤ p ∧ p < tlen → CoveredOnce (interleave es is) p) ∧
         (¬ (0 ≤ p ∧ p < tlen) → ∀ y ∈ interleave es is, ¬ (y.1 ≤ p ∧ p < y.2))
  span : tstart = node.start ∧ tend = tstart + tlen
  /-- a coding transcript with an orientation: the three regions are defined, the CDS is
      `[CDSstart, CDSend)`, they abut from 0 to `Len` in the order dictated by the base
      orientation, and for `0 ≤ CDSstart ≤ CDSend ≤ Len` they partition `[0, Len)` -/
  utr_cds : coding = true → node.oriented = true →
    ∃ u5 cds u3, utr = some (u5, cds, u3) ∧ cds = (cdsStart, cdsEnd) ∧
      abuts 0 tlen (utrOrder (orientProduct (node :: loc)) u5 cds u3) = true ∧
      (0 ≤ cdsStart → cdsStart ≤ cdsEnd → cdsEnd ≤ tlen →
        tiles 0 tlen (utrOrder (orientProduct (node :: loc)) u5 cds u3) = true ∧
        ∀ p, (0 ≤ p ∧ p < tlen → CoveredOnce (utrOrder (orientProduct (node :: loc)) u5 cds u3) p) ∧
             (¬ (0 ≤ p ∧ p < tlen) →
               ∀ y ∈ utrOrder (orientProduct (node :: loc)) u5 cds u3, ¬ (y.1 ≤ p ∧ p < y.2))) ∧
      sh = s!"{u5.1},{u5.2},{u3.1},{u3.2}"

theorem givenExons_eq (kind : String) (args prev : List Exon) :
    givenExons kind args prev =
      (if kind = "R" then prev ++ args
       else if kind = "A" ∨ kind = "Z" ∨ kind = "O" ∨ kind = "M" then prev else args) := by
  unfold givenExons dropped chainChange
  by_cases h1 : kind = "R"
  · simp [h1]
  · by_cases h2 : kind = "A"
    · simp [h2]
    · by_cases h3 : kind = "Z"
      · simp [h3]
      · by_cases h4 : kind = "O"
        · simp [h4]
        · by_cases h5 : kind = "M"
          · simp [h5]
          · simp [h1, h2, h3, h4, h5]

/-- **transcripts, checker ⇒ statement**: when the driver reports no violation for a transcript
    after an operation, then — rejected (any kind, `Z` = `t.Exons()[:j].Add(…)` included): the exon
    set shown is the previous one (`rejected_update_unchanged_history`); and after every operation,
    everything in `TxOK` — the conclusions of `exons_introns_tile` and `utr_cds_tile` with "every
    position of `[0, Len)` lies in exactly one piece" spelled out, and after an accepted `Add` whose
    result was dropped the exons shown are still the ones accepted last
    (`dropped_add_unchanged_history`).  (Before the second wave nothing was demanded after an accepted
    dropped `Add`; this statement implies the earlier one.) -/
theorem tx_checker_sound (coding : Bool) (node : Node) (loc : Chain) (cdsStart cdsEnd : Int)
    (kind : String) (accepted : Bool) (args prev es : List Exon) (is : List Intron)
    (tstart tend tlen : Int) (utr : Option (Piece × Piece × Piece)) (sh : String)
    (h : txStatement coding node loc cdsStart cdsEnd kind accepted args prev es is tstart tend tlen utr sh = none) :
    (accepted = false → es = prev) ∧
      TxOK coding node loc cdsStart cdsEnd kind accepted args prev es is tstart tend tlen utr sh := by
  unfold txStatement txClauses at h
  rw [firstViolation_none] at h
  simp only [List.mem_cons, List.not_mem_nil, or_false, forall_eq_or_imp, forall_eq] at h
  obtain ⟨c1, c2, c3, c4, c5, c6, c7, c8, c9, c10, c11, c12, c13, c14⟩ := h
  constructor
  · intro ha
    subst ha
    simpa using c1
  · refine ⟨?_, ?_, ?_, ?_, ?_, ?_⟩
    · intro ha
      subst ha
      simp only [Bool.true_and, Bool.not_eq_false', decide_eq_false_iff_not, Decidable.not_not] at c2 c3 c4 c5
      refine ⟨(sortedDisjoint_iff es).mp c2, ?_, c4, ?_⟩
      · intro e he
        have := List.all_eq_true.mp c3 e he
        simpa using this
      · rw [← givenExons_eq]
        exact List.isPerm_iff.mp c5
    · exact (alternate_iff es is).mp (by simpa using c6)
    · exact (intronsFit_iff es is).mp (by simpa using c7)
    · intro hnn
      have hn : nonNeg es = true := by
        simp only [nonNeg, List.all_eq_true, decide_eq_true_eq]; exact hnn
      rw [hn] at c8
      have ht : tiles 0 tlen (interleave es is) = true := by simpa using c8
      exact ⟨ht, tiles_partition 0 tlen _ ht⟩
    · simp only [Bool.or_eq_false_iff, decide_eq_false_iff_not, Decidable.not_not] at c9
      exact c9
    · intro hc ho
      rw [hc, ho] at c10 c11 c12 c13 c14
      simp only [Bool.true_and] at c10 c11 c12 c13 c14
      cases hu : utr with
      | none => rw [hu] at c10; simp at c10
      | some u =>
        obtain ⟨u5, cds, u3⟩ := u
        rw [hu] at c11 c12 c13 c14
        simp only [Option.isSome_some, Option.getD_some, Bool.true_and, decide_eq_false_iff_not,
          Decidable.not_not, Bool.not_eq_false'] at c11 c12 c14
        refine ⟨u5, cds, u3, rfl, c11, c12, ?_, c14⟩
        intro h1 h2 h3
        simp only [Option.isSome_some, Option.getD_some, Bool.true_and, decide_eq_true h1,
          decide_eq_true h2, decide_eq_true h3, Bool.not_eq_false'] at c13
        exact ⟨c13, tiles_partition 0 tlen _ c13⟩

/-- **the location clause of `intronsFit` demands "the introns lie on the transcript", nothing
    more**: when all exons are on the transcript `tid` (which `txStatement` demands of accepted
    exons), "intron `i` is on the location of exon `i+1`" is "intron `i` is on the transcript" — a
    piece that is to tile *the transcript* has to be an interval of the transcript's coordinates. -/
theorem introns_gaps_on_transcript (tid : Nat) (es : List Exon) (is : List Intron)
    (hes : ∀ e ∈ es, e.loc = tid) :
    IntronsAreGaps es is ↔
      ∀ i (h1 : i < is.length) (h2 : i + 1 < es.length),
        is[i].start = es[i].stop ∧ is[i].stop = es[i + 1].start ∧ is[i].loc = tid := by
  constructor
  · intro h i h1 h2
    obtain ⟨a, b, c⟩ := h i h1 h2
    exact ⟨a, b, c.trans (hes _ (List.getElem_mem h2))⟩
  · intro h i h1 h2
    obtain ⟨a, b, c⟩ := h i h1 h2
    exact ⟨a, b, c.trans (hes _ (List.getElem_mem h2)).symm⟩

/-- **`Gene.SetFeatures`, checker ⇒ statement**: rejected — the gene's length and feature list are
    as before (`rejected_setFeatures_unchanged`); accepted — the features shown are the given ones,
    all on the gene, none starts below 0 and one starts at 0, all end within the gene's length,
    which is 0 or the end of one of them, and `Start/End/Len` are consistent
    (`accepted_setFeatures`). -/
theorem gf_checker_sound (accepted : Bool) (fs : List FeatIv) (off s en l plen : Int)
    (tagsSame tagsGiven : Bool)
    (h : gfStatement accepted fs off s en l plen tagsSame tagsGiven = none) :
    (accepted = false → l = plen ∧ tagsSame = true) ∧
    (accepted = true → tagsGiven = true ∧ (∀ f ∈ fs, f.loc = 1 ∧ 0 ≤ f.start ∧ f.stop ≤ l) ∧
      (∃ f ∈ fs, f.start = 0) ∧ 0 ≤ l ∧ (l = 0 ∨ ∃ f ∈ fs, f.stop = l) ∧ s = off ∧ en = s + l) := by
  unfold gfStatement gfClauses at h
  rw [firstViolation_none] at h
  simp only [List.mem_cons, List.not_mem_nil, or_false, forall_eq_or_imp, forall_eq] at h
  obtain ⟨c1, c2, c3, c4, c5, c6⟩ := h
  constructor
  · intro ha; subst ha
    simpa using c1
  · intro ha; subst ha
    simp only [Bool.true_and, Bool.not_eq_false', Bool.or_eq_false_iff, decide_eq_false_iff_not,
      Decidable.not_not] at c2 c3 c4 c5 c6
    obtain ⟨hm1, hm2, hm3⟩ := (maxStop_iff fs l).mp c5
    have hany : ∃ f ∈ fs, f.start = 0 := by
      have := c4.1
      simp only [List.any_eq_true, beq_iff_eq] at this
      exact this
    refine ⟨c2, ?_, hany, hm2, hm3, c6.1, c6.2⟩
    intro f hf
    refine ⟨by simpa using List.all_eq_true.mp c3 f hf, ?_, hm1 f hf⟩
    have := c4.2
    rw [List.any_eq_false] at this
    have := this f hf
    simpa using this

-- non-vacuity: the three exons 0–10, 10–15, 30–35 with introns 10–10 and 15–30 pass every clause
example : txStatement false ⟨1, 100, some 1⟩ [] 0 0 "S" true
    [⟨1, 30, 5, 3⟩, ⟨1, 0, 10, 1⟩, ⟨1, 10, 5, 2⟩] []
    [⟨1, 0, 10, 1⟩, ⟨1, 10, 5, 2⟩, ⟨1, 30, 5, 3⟩] [⟨1, 10, 0⟩, ⟨1, 15, 15⟩] 100 135 35 none "-" = none := by
  decide

-- … and a coding transcript on the reverse strand, CDS [5, 30): 3'UTR [0,5), CDS, 5'UTR [30,35)
example : txStatement true ⟨1, 100, some (-1)⟩ [] 5 30 "S" true
    [⟨1, 0, 35, 1⟩] [] [⟨1, 0, 35, 1⟩] [] 100 135 35 (some ((30, 35), (5, 30), (0, 5))) "30,35,0,5" = none := by
  decide

end Biogo.Properties.C20_checker
