/-
C19 — tie of the protocol models to the source text of package concurrent.
Kept in its own module so that a change of the source breaks this obligation only.
-/
import Biogo.Generated.Concurrent

namespace Biogo.Properties.C19_source

/-- The facts regenerated from concurrent/processor.go and concurrent/promise.go on every check
    run are those of the protocol variant (`fixed = true`) that the theorems above are about:
    the hook points sit where the model's atomic blocks end; the worker returns its token,
    passes hook (a), then closes `out` iff it is the `threads`-th to count itself out, then
    releases the wait group; every setter runs under the mutex; Wait sleeps on the condition
    variable while the mailbox is empty and takes / puts the message back with the mutex held,
    hook (b) in between; `fail` decides from the `set` flag of `messageState` (not from the
    message's content); `Recover` takes the message only inside `if p.recoverable`; `fulfill` and `fail` each put a
    message once and `Broadcast` on the condition variable directly afterwards. -/
theorem model_is_of_this_source :
    Biogo.Generated.Concurrent.hookPoints =
      [("NewProcessor", "worker.start"), ("NewProcessor", "worker.token_returned"),
       ("NewProcessor", "worker.result"), ("Wait", "promise.wait.borrowed")] ∧
    Biogo.Generated.Concurrent.closeRule = "exit-counter" ∧
    Biogo.Generated.Concurrent.tokenReturnedBeforeHook = true ∧
    Biogo.Generated.Concurrent.wgDoneAfterClose = true ∧
    Biogo.Generated.Concurrent.settersLocked =
      [("Fulfill", true), ("Fail", true), ("Recover", true), ("Break", true)] ∧
    Biogo.Generated.Concurrent.waitTakesUnderMutex = true ∧
    Biogo.Generated.Concurrent.waitSleepsOnCond = true ∧
    Biogo.Generated.Concurrent.failCond = "!set" ∧
    Biogo.Generated.Concurrent.recoverTakesMessage = "when-recoverable" ∧
    Biogo.Generated.Concurrent.putsThenBroadcast = [("fulfill", 1, 1), ("fail", 1, 1)] := by
  decide

end Biogo.Properties.C19_source
