/-
C19 — **source-shape facts** of package concurrent (advisory; not an obligation of the property).

The theorem pins where the hook points sit and how the worker's exit sequence, the setters and
`Wait` are written.  No model definition and no property theorem depends on it; the protocol
models are tied to the code by forced-schedule correspondence through the hooks (every ordering
for small configurations), free-running runs and unforced workloads under the race detector.  It
was an obligation until a behaviour-preserving refactoring by an independent engineer (the worker
closure of `NewProcessor` split into two methods, `fail`'s flag computed as `failed = !set`) made it
fail on code for which the property holds, while every seeded defect of C19 is found by the
correspondence or the race phase.  It is now an `advisory_targets` module: when it no longer checks,
`check` widens the generation, runs the deep search and records the change in the evidence.
-/
import Biogo.Generated.Concurrent

namespace Biogo.Properties.C19_source

/-- The facts regenerated from concurrent/processor.go and concurrent/promise.go on every check
    run are those of the protocol variant (`fixed = true`) that the theorems above are about:
    the hook points sit where the model's atomic blocks end; the worker returns its token,
    passes hook (a), then closes `out` iff it is the `threads`-th to count itself out, then
    releases the wait group; every setter runs under the mutex; Wait sleeps on the condition
    variable while the mailbox is empty and takes / puts the message back with the mutex held,
    hook (b) in between; `fail` decides from the `set` flag of `messageState` (not from the
    message's content); `Recover` takes the message only inside `if p.recoverable`; `fulfill` and `fail` each put a
    message once and `Broadcast` on the condition variable directly afterwards. -/
theorem model_is_of_this_source :
    Biogo.Generated.Concurrent.hookPoints =
      [("NewProcessor", "worker.start"), ("NewProcessor", "worker.token_returned"),
       ("NewProcessor", "worker.result"), ("Wait", "promise.wait.borrowed")] ∧
    Biogo.Generated.Concurrent.closeRule = "exit-counter" ∧
    Biogo.Generated.Concurrent.tokenReturnedBeforeHook = true ∧
    Biogo.Generated.Concurrent.wgDoneAfterClose = true ∧
    Biogo.Generated.Concurrent.settersLocked =
      [("Fulfill", true), ("Fail", true), ("Recover", true), ("Break", true)] ∧
    Biogo.Generated.Concurrent.waitTakesUnderMutex = true ∧
    Biogo.Generated.Concurrent.waitSleepsOnCond = true ∧
    Biogo.Generated.Concurrent.failCond = "!set" ∧
    Biogo.Generated.Concurrent.recoverTakesMessage = "when-recoverable" ∧
    Biogo.Generated.Concurrent.putsThenBroadcast = [("fulfill", 1, 1), ("fail", 1, 1)] := by
  decide

end Biogo.Properties.C19_source
