/-
C06 — Truncate, Join, Stitch, Compose and Trim follow positional semantics.
Property theorems only; helper lemmas are in `Biogo/Proofs/Sequtils*.lean`.
-/
import Biogo.Model.Sequtils
import Biogo.Generated.SequtilsFacts

namespace Biogo.Properties.C06
open Biogo.Sequtils

/-- the constants of `seq` and `feat` the model uses are those of the source (regenerated) -/
theorem constants_tied :
    Biogo.Generated.Sequtils.seqStart = whereStart ∧ Biogo.Generated.Sequtils.seqEnd = whereEnd ∧
    Biogo.Generated.Sequtils.confLinear = confLinear ∧ Biogo.Generated.Sequtils.confCircular = confCircular ∧
    Biogo.Generated.Sequtils.orientReverse = orientReverse := by
  decide

end Biogo.Properties.C06
