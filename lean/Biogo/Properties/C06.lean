/-
C06 — Truncate, Join, Stitch, Compose and Trim follow positional semantics.

Property theorems only; helper lemmas are in `Biogo/Proofs/Sequtils*.lean`.  All theorems are
about the executable model `Biogo/Model/Sequtils.lean` that the driver runs, for every heap,
every element type, every sequence (any offset, any conformation), every start/end, every
feature list and every value vector; the vocabulary of positions (`letterAt`, `intRange`,
`truncatePositions`, `stitchPositions`, `composeSpec`, `windowSum`) is `Biogo/Spec/Sequtils.lean`,
which the driver evaluates on the implementation's output.

`WF h s` says that the slice header `s` fits its backing array in heap `h` (true of every
slice a Go program can hold).
-/
import Biogo.Proofs.SequtilsCompose
import Biogo.Proofs.SequtilsTrim
import Biogo.Generated.SequtilsFacts

set_option linter.unusedSectionVars false

namespace Biogo.Properties.C06
open Biogo.Sequtils

variable {α : Type} [Inhabited α]

/-- the constants of `seq` and `feat` the model uses are those of the source (regenerated) -/
theorem constants_tied :
    Biogo.Generated.Sequtils.seqStart = whereStart ∧ Biogo.Generated.Sequtils.seqEnd = whereEnd ∧
    Biogo.Generated.Sequtils.confLinear = confLinear ∧ Biogo.Generated.Sequtils.confCircular = confCircular ∧
    Biogo.Generated.Sequtils.orientReverse = orientReverse := by
  decide


/-! Non-vacuity: a concrete heap, source and calls satisfying the hypotheses of the theorems
    below (`WF`, a successful call), evaluated by the kernel. -/
def exHeap : Heap Nat := [[10, 11, 12, 13, 14, 0, 0]]
/-- five letters at positions -2 … 2, circular, two spare cells of capacity -/
def exSrc : Seq := { sl := { arr := 0, off := 0, len := 5, cap := 7 }, offset := -2, conf := 1 }

example : WF exHeap exSrc.sl := ⟨by decide, by decide, by decide⟩

/-! ### Truncate -/

/-- every position `Truncate` names lies inside the sequence when the call succeeds, so "the
    letters at those positions" loses none of them -/
theorem truncatePositions_inside (offset stop_ start stop : Int) (circ : Bool)
    (hin : truncateInside offset stop_ circ start stop = true) :
    ∀ p ∈ truncatePositions offset stop_ start stop, offset ≤ p ∧ p < stop_ := by
  intro p hp
  unfold truncateInside at hin
  unfold truncatePositions at hp
  split at hin
  · rename_i hle
    rw [if_pos hle, mem_intRange] at hp
    simp at hin; omega
  · rename_i hgt
    rw [if_neg hgt, List.mem_append, mem_intRange, mem_intRange] at hp
    simp at hin; omega

/-- **"Truncate(start,end) yields exactly the letters at those positions (wrapping through the
    origin for a circular source when start>end) in a linear result starting at start"**:
    whenever the model's Truncate answers, the result shows, position by position, the letter of
    the source at `start, …, end-1`, resp. `start, …, End-1, Start, …, end-1`; it is linear and
    starts at `start`.  (The second conjunct is the same statement in the form the driver
    evaluates on the implementation.) -/
theorem truncate_spec (h : Heap α) (src : Seq) (same : Bool) (start stop : Int) (h' : Heap α) (r : Seq)
    (wf : WF h src.sl) (hr : truncate h src same start stop = .ok (h', r)) :
    (read h' r.sl).map some =
        (truncatePositions src.offset src.stop start stop).map (letterAt (read h src.sl) src.offset) ∧
    read h' r.sl = truncateSpec (read h src.sl) src.offset start stop ∧
    r.offset = start ∧ r.conf = confLinear := by
  have hlen := read_length h src.sl wf
  have hstop : src.stop = src.offset + src.sl.len := rfl
  obtain ⟨c1, c2, c3, c4, c5, -, -⟩ := truncate_cases h src same start stop h' r wf hr
  have key : (read h' r.sl).map some =
      (truncatePositions src.offset src.stop start stop).map (letterAt (read h src.sl) src.offset) := by
    rcases c5 with ⟨hle, e⟩ | ⟨hgt, -, h3, h4, e⟩
    · rw [e]
      unfold truncatePositions
      rw [if_pos hle, map_letterAt_intRange _ _ _ _ c3 (by omega)]
    · rw [e]
      unfold truncatePositions
      rw [if_neg (by omega), List.map_append, List.map_append,
        map_letterAt_intRange _ _ _ _ c3 (by omega),
        map_letterAt_intRange _ _ _ _ (Int.le_refl _) (by omega)]
      simp
  refine ⟨key, ?_, c1, c2⟩
  unfold truncateSpec lettersAt
  rw [hlen, ← hstop]
  exact (filterMap_of_map_some _ _ _ key.symm).symm

-- non-vacuity: a wrapping Truncate into another object answers, with the letters at 1, 2, -2
example : ∃ h' r, truncate exHeap exSrc false 1 (-1) = .ok (h', r) ∧ read h' r.sl = [13, 14, 10] :=
  ⟨_, _, rfl, rfl⟩
example : ∃ h' r, truncate exHeap exSrc true (-1) 2 = .ok (h', r) ∧ read h' r.sl = [11, 12, 13] :=
  ⟨_, _, rfl, rfl⟩

/-- **"and returns an error, never a panic, for ranges outside the sequence"**: on every
    well-formed source the model's Truncate either answers or returns an error value; it answers
    exactly when the range is inside the sequence (`truncateInside`; only a linear sequence
    refuses `start > end`), so every range outside gets an error value and no input a panic. -/
theorem truncate_total (h : Heap α) (src : Seq) (same : Bool) (start stop : Int) (wf : WF h src.sl) :
    (∀ w, truncate h src same start stop ≠ .error (.panic w)) ∧
    ((∃ x, truncate h src same start stop = .ok x) ↔
      truncateInside src.offset src.stop (decide (src.conf ≠ confLinear)) start stop = true) ∧
    (truncateInside src.offset src.stop (decide (src.conf ≠ confLinear)) start stop = false →
      ∃ c, truncate h src same start stop = .error (.error c)) := by
  rcases truncate_outcome h src same start stop wf with ⟨hin, x, hx⟩ | ⟨hout, c, hc⟩
  · refine ⟨(fun w => by rw [hx]; intro e; cases e), ⟨fun _ => hin, fun _ => ⟨x, hx⟩⟩, ?_⟩
    intro hf; rw [hin] at hf; cases hf
  · refine ⟨(fun w => by rw [hc]; intro e; cases e), ⟨?_, ?_⟩, fun _ => ⟨c, hc⟩⟩
    · rintro ⟨x, hx⟩; rw [hc] at hx; cases hx
    · intro ht; rw [hout] at ht; cases ht

/-! ### Join -/

/-- **"Join yields the concatenation in the requested order"**: `dst ++ src` at `seq.End`,
    `src ++ dst` at `seq.Start` (and for every other `where`, as the code does); the conformation
    of `dst` is kept, and at `seq.Start` its offset becomes `-len(src)`. -/
theorem join_spec (h : Heap α) (dst src : Seq) (wh : Int) (h' : Heap α) (r : Seq)
    (wd : WF h dst.sl) (ws : WF h src.sl) (hr : join h dst src wh = .ok (h', r)) :
    read h' r.sl = joinSpec (read h dst.sl) (read h src.sl) wh ∧
    (wh = whereEnd → read h' r.sl = read h dst.sl ++ read h src.sl) ∧
    (wh = whereStart → read h' r.sl = read h src.sl ++ read h dst.sl) := by
  obtain ⟨e, -⟩ := join_cases h dst src wh h' r wd ws hr
  refine ⟨e, ?_, ?_⟩
  · intro hw; rw [e, joinSpec, if_pos hw]
  · intro hw; rw [e, joinSpec, if_neg (by rw [hw]; decide)]

example : ∃ h' r, join exHeap { exSrc with conf := 0 } { exSrc with conf := 0, offset := 7 } whereStart = .ok (h', r) ∧
    r.offset = -5 ∧ (read h' r.sl).length = 10 := ⟨_, _, rfl, rfl, rfl⟩

/-- Join never panics and refuses exactly the circular sequences. -/
theorem join_total (h : Heap α) (dst src : Seq) (wh : Int) :
    (∀ w, join h dst src wh ≠ .error (.panic w)) ∧
    ((∃ x, join h dst src wh = .ok x) ↔ dst.conf ≤ confLinear ∧ src.conf ≤ confLinear) := by
  rcases join_outcome h dst src wh with ⟨h1, h2, x, hx⟩ | ⟨hc, c, he⟩
  · exact ⟨(fun w => by rw [hx]; intro e; cases e), fun _ => ⟨h1, h2⟩, fun _ => ⟨x, hx⟩⟩
  · refine ⟨(fun w => by rw [he]; intro e; cases e), ?_, fun ⟨a, b⟩ => by omega⟩
    rintro ⟨x, hx⟩; rw [he] at hx; cases hx

/-! ### Stitch -/

/-- **"Stitch yields the letters at the union of the feature intervals clipped to the sequence
    in ascending position order"**, for the result of *any* sort of the features by start
    (`ff` a permutation of `fs`, ascending by `Start()` — what `sort.Sort` guarantees): the result
    shows the letters at the positions of `[Start,End)` covered by at least one feature, ascending. -/
theorem stitch_spec_sorted (h : Heap α) (src : Seq) (fs ff : List Feat) (h' : Heap α) (r : Seq)
    (wf : WF h src.sl) (hperm : ff.Perm fs) (hs : List.Pairwise (fun x y : Feat => x.s ≤ y.s) ff)
    (hr : stitchSorted h src ff = .ok (h', r)) :
    read h' r.sl = stitchSpec (read h src.sl) src.offset fs ∧
    (read h' r.sl).map some =
      (stitchPositions src.offset src.stop fs).map (letterAt (read h src.sl) src.offset) := by
  have hlen := read_length h src.sl wf
  have hstop : src.stop = src.offset + src.sl.len := rfl
  obtain ⟨e, -⟩ := stitchSorted_cases h src ff h' r wf hs hr
  have ec : stitchPositions src.offset src.stop ff = stitchPositions src.offset src.stop fs := by
    unfold stitchPositions
    apply List.filter_congr
    intro p _
    exact covered_perm ff fs hperm p
  rw [ec] at e
  refine ⟨by rw [e, stitchSpec, hlen, ← hstop], ?_⟩
  rw [e]
  apply lettersAt_map_some
  intro p hp
  unfold stitchPositions at hp
  have := (mem_intRange _ _ _).mp (List.mem_filter.mp hp).1
  omega

/-- `stitch_spec_sorted` for the model's own sort; features with `end < start` are refused. -/
theorem stitch_spec (h : Heap α) (src : Seq) (fs : List Feat) (h' : Heap α) (r : Seq)
    (wf : WF h src.sl) (hr : stitch h src fs = .ok (h', r)) :
    read h' r.sl = stitchSpec (read h src.sl) src.offset fs ∧
    (read h' r.sl).map some =
      (stitchPositions src.offset src.stop fs).map (letterAt (read h src.sl) src.offset) ∧
    (∀ f ∈ fs, f.s ≤ f.e) := by
  unfold stitch at hr
  split at hr
  · cases hr
  rename_i hwf
  obtain ⟨a, b⟩ := stitch_spec_sorted h src fs (sortByStart fs) h' r wf (sortByStart_perm fs)
    (sortByStart_sorted fs) hr
  refine ⟨a, b, ?_⟩
  intro f hf
  have : ¬ (f.e < f.s) := by
    intro hlt
    apply hwf
    rw [List.any_eq_true]
    exact ⟨f, hf, by simp [hlt]⟩
  omega

-- non-vacuity: unsorted, overlapping, partly and entirely outside
example : ∃ h' r, stitch exHeap exSrc [⟨1, 9, 0⟩, ⟨-5, -1, -1⟩, ⟨0, 2, 1⟩, ⟨7, 8, 0⟩] = .ok (h', r) ∧
    read h' r.sl = [10, 12, 13, 14] := ⟨_, _, rfl, rfl⟩

/-- Stitch answers for every list of well-formed features (it never panics). -/
theorem stitch_total (h : Heap α) (src : Seq) (fs : List Feat) (wf : WF h src.sl)
    (hfs : ∀ f ∈ fs, f.s ≤ f.e) : ∃ x, stitch h src fs = .ok x := by
  unfold stitch
  rw [if_neg]
  · exact stitchSorted_ok h src _ wf
  · rw [List.any_eq_true]
    rintro ⟨f, hf, hlt⟩
    have := hfs f hf
    simp at hlt; omega

/-! ### Compose -/

/-- **"Compose yields the concatenation, in feature order, of each feature's clipped segment,
    reverse-complemented (reversed for non-complementing alphabets) for every reverse-oriented
    feature"** — any number of them, in any position.  `rev = some rc`: the source can reverse,
    `rc` is the complement table of its alphabet, or `id` when the alphabet does not complement. -/
theorem compose_spec (rc : α → α) (h : Heap α) (src : Seq) (fs : List Feat) (h' : Heap α) (r : Seq)
    (wf : WF h src.sl) (hr : compose (some rc) h src fs = .ok (h', r)) :
    read h' r.sl = composeSpec rc (read h src.sl) src.offset fs := by
  obtain ⟨e, -⟩ := compose_cases (some rc) h src fs h' r wf hr
  exact e

-- non-vacuity: two reverse features, one partly and one entirely outside (`+100` plays the complement)
example : ∃ h' r, compose (some (· + 100)) exHeap exSrc [⟨1, 9, -1⟩, ⟨-5, -1, -1⟩, ⟨7, 9, 1⟩, ⟨0, 2, 1⟩] = .ok (h', r) ∧
    read h' r.sl = [114, 113, 110, 12, 13] := ⟨_, _, rfl, rfl⟩

/-- Compose never panics: for well-formed features it answers, unless a reverse feature meets a
    source that cannot reverse. -/
theorem compose_total (rev : Option (α → α)) (h : Heap α) (src : Seq) (fs : List Feat) (wf : WF h src.sl)
    (hfs : ∀ f ∈ fs, f.s ≤ f.e) (hrev : rev.isSome ∨ ∀ f ∈ fs, f.o ≠ orientReverse) :
    ∃ x, compose rev h src fs = .ok x :=
  compose_ok rev h src fs wf hfs hrev

/-- a source that cannot reverse: Compose answers only when no feature is reverse oriented,
    and then yields the concatenation of the clipped segments -/
theorem compose_spec_noreverser (h : Heap α) (src : Seq) (fs : List Feat) (h' : Heap α) (r : Seq)
    (wf : WF h src.sl) (hr : compose (none : Option (α → α)) h src fs = .ok (h', r)) :
    read h' r.sl = composeSpec id (read h src.sl) src.offset fs := by
  obtain ⟨e, -⟩ := compose_cases none h src fs h' r wf hr
  exact e

/-- each clipped segment is "the letters at the feature's positions inside the sequence":
    no position is lost -/
theorem segment_positions (xs : List α) (offset : Int) (f : Feat) :
    (lettersAt xs offset (segPositions offset (offset + xs.length) f)).map some =
      (segPositions offset (offset + xs.length) f).map (letterAt xs offset) := by
  apply lettersAt_map_some
  intro p hp
  unfold segPositions at hp
  rw [mem_intRange] at hp
  omega

/-! ### dst ≠ src -/

/-- **"When destination and source differ the source is unchanged and shares no storage with
    the result"**: Truncate into another object (and every wrapping Truncate), Join, Stitch and
    Compose leave every array that existed before the call exactly as it was (`Keeps`: the heap
    only grows) and deliver the result in an array that did not exist before the call; in
    particular the source still reads the same and its array is not the result's. -/
theorem dst_ne_src_fresh (h : Heap α) (src : Seq) (h' : Heap α) (r : Seq) (wf : WF h src.sl)
    (hop : (∃ start stop, truncate h src false start stop = .ok (h', r)) ∨
           (∃ dst wh, WF h dst.sl ∧ join h dst src wh = .ok (h', r)) ∨
           (∃ dst wh, WF h dst.sl ∧ join h src dst wh = .ok (h', r)) ∨
           (∃ fs, stitch h src fs = .ok (h', r)) ∨
           (∃ rev fs, compose rev h src fs = .ok (h', r))) :
    Keeps h h' ∧ h.length ≤ r.sl.arr ∧ read h' src.sl = read h src.sl ∧ r.sl.arr ≠ src.sl.arr := by
  have fin : Keeps h h' → h.length ≤ r.sl.arr →
      Keeps h h' ∧ h.length ≤ r.sl.arr ∧ read h' src.sl = read h src.sl ∧ r.sl.arr ≠ src.sl.arr := by
    intro k f
    refine ⟨k, f, read_congr h h' _ (k.2 _ wf.1), ?_⟩
    have := wf.1; omega
  rcases hop with ⟨start, stop, hr⟩ | ⟨dst, wh, wd, hr⟩ | ⟨dst, wh, wd, hr⟩ | ⟨fs, hr⟩ | ⟨rev, fs, hr⟩
  · obtain ⟨-, -, -, -, -, k, f⟩ := truncate_cases h src false start stop h' r wf hr
    exact fin k (f (Or.inl rfl))
  · obtain ⟨-, k, f, -⟩ := join_cases h dst src wh h' r wd wf hr
    exact fin k f
  · obtain ⟨-, k, f, -⟩ := join_cases h src dst wh h' r wf wd hr
    exact fin k f
  · unfold stitch at hr
    split at hr
    · cases hr
    obtain ⟨-, k, f, -⟩ := stitchSorted_cases h src _ h' r wf (sortByStart_sorted fs) hr
    exact fin k f
  · obtain ⟨-, k, f, -⟩ := compose_cases rev h src fs h' r wf hr
    exact fin k f

/-- also with `dst == src`, a wrapping Truncate, Stitch and Compose build the result in new
    storage and write nothing that existed; only the in-range Truncate with `dst == src`
    re-slices the source (as its documentation says) — and it writes nothing either -/
theorem truncate_same_writes_nothing (h : Heap α) (src : Seq) (start stop : Int) (h' : Heap α) (r : Seq)
    (wf : WF h src.sl) (hr : truncate h src true start stop = .ok (h', r)) :
    Keeps h h' ∧ (stop < start → h.length ≤ r.sl.arr) := by
  obtain ⟨-, -, -, -, -, k, f⟩ := truncate_cases h src true start stop h' r wf hr
  exact ⟨k, fun hlt => f (Or.inr hlt)⟩

/-! ### Trim -/

/-- **"Trim returns a window whose summed (limit minus error probability) is maximal over all
    windows"** (Kadane invariant of the modified-Mott running sum): for every feature start `s0`
    and every vector of values `limit − E(i)`, the returned pair is a window of the feature
    (`s0 ≤ start ≤ end ≤ s0 + n`) and no window `[i, j)` of the feature has a larger sum. -/
theorem trim_optimal (s0 : Int) (vs : List Int) :
    (s0 ≤ (trim s0 vs).1 ∧ (trim s0 vs).1 ≤ (trim s0 vs).2 ∧ (trim s0 vs).2 ≤ s0 + vs.length) ∧
    ∀ i j, s0 ≤ i → i ≤ j → j ≤ s0 + vs.length →
      windowSum vs s0 i j ≤ windowSum vs s0 (trim s0 vs).1 (trim s0 vs).2 := by
  have inv := trim_inv vs s0
  unfold trim
  dsimp only
  refine ⟨⟨inv.start_lo, inv.start_stop, inv.stop_hi⟩, ?_⟩
  intro i j h1 h2 h3
  rw [windowSum_eq vs s0 i j h1 h2, windowSum_eq vs s0 _ _ inv.start_lo inv.start_stop, ← inv.best_eq]
  exact inv.best_max i j h1 h2 h3

-- the witness of F8 (+5, -10, +1) and a later, better window
example : trim 0 [5, -10, 1] = (0, 1) := by decide
example : trim 3 [5, -10, 1, 5, -1] = (5, 7) := by decide

/-- the brute-force check the driver runs on the implementation's answer is exactly the
    statement of optimality, and the model passes it -/
theorem isMaxWindow_iff (vs : List Int) (s0 a b : Int) :
    isMaxWindow vs s0 a b = true ↔
      ∀ i j, s0 ≤ i → i ≤ j → j ≤ s0 + vs.length → windowSum vs s0 i j ≤ windowSum vs s0 a b := by
  unfold isMaxWindow allWindows
  rw [List.all_eq_true]
  constructor
  · intro hall i j h1 h2 h3
    have := hall (i, j) (by
      rw [List.mem_flatMap]
      refine ⟨i, (mem_intRange _ _ _).mpr (by omega), ?_⟩
      rw [List.mem_map]
      exact ⟨j, (mem_intRange _ _ _).mpr (by omega), rfl⟩)
    simpa using this
  · intro hall w hw
    rw [List.mem_flatMap] at hw
    obtain ⟨i, hi, hw⟩ := hw
    rw [List.mem_map] at hw
    obtain ⟨j, hj, rfl⟩ := hw
    rw [mem_intRange] at hi hj
    simpa using hall i j (by omega) (by omega) (by omega)

theorem trim_passes_check (s0 : Int) (vs : List Int) :
    isMaxWindow vs s0 (trim s0 vs).1 (trim s0 vs).2 = true :=
  (isMaxWindow_iff vs s0 _ _).mpr (trim_optimal s0 vs).2

end Biogo.Properties.C06
