/-
C18 — Quality scores encode, decode and convert consistently.
Property theorems only.  `source` (case lists and literals of the four switch statements) and
`tables` (the four lookup tables, float entries as exact dyadic rationals) are regenerated
from the repository on every check (`Biogo.Generated.QualTables`); every theorem below is a
statement over a whole 8-bit domain, decided by the kernel on those regenerated facts with
the model functions the driver runs (`Biogo.Model.Quality`) and the executable statements it
evaluates on the implementation's output (`Biogo.Spec.Quality`).
-/
import Biogo.Model.Quality
import Biogo.Spec.Quality
import Biogo.Generated.QualTables
import Biogo.Proofs.Quality

set_option exponentiation.threshold 100000

namespace Biogo.Properties.C18
open Biogo.Quality Biogo.Quality.Spec
open Biogo.Generated.Qual (source tables)

/-- the Solexa score stored at table index `n`: `n - 128` -/
abbrev sc (n : Nat) : Int := (n : Int) - 128

/-! ### the facts are the ones the statements are about -/

/-- The encoding constants of the source have the codes the specification names. -/
theorem encoding_codes :
    Biogo.Generated.Qual.encodingCodes =
      [("None", codeNone), ("Sanger", codeSanger), ("Solexa", codeSolexa),
       ("Illumina1_3", codeIllumina1_3), ("Illumina1_5", codeIllumina1_5),
       ("Illumina1_8", codeIllumina1_8), ("Illumina1_9", codeIllumina1_9)] := by decide +kernel

/-- The table dumper's dyadic rationals are the IEEE-754 values of the dumped bits
    (`Prob.ofBits` is the decoder the driver applies to the implementation's output). -/
theorem tables_are_the_dumped_floats :
    (∀ r ∈ Biogo.Generated.Qual.phredERaw, Prob.ofBits r.1 = r.2) ∧
    (∀ r ∈ Biogo.Generated.Qual.solexaERaw, Prob.ofBits r.1 = r.2) ∧
    tables.phredE.length = 256 ∧ tables.solexaE.length = 256 ∧
    tables.phredSolexa.length = 256 ∧ tables.solexaPhred.length = 256 := by decide +kernel

/-! ### decode ∘ encode -/

/-- "For every Phred score under each Phred-offset encoding … decoding the encoded byte
    returns the score whenever it lies in that encoding's printable range."
    (Sanger, Illumina 1.8, 1.9: scores 0…93; Illumina 1.3: 0…62; Illumina 1.5: 2…62.) -/
theorem decode_encode_phred :
    ∀ e ∈ phredOffsetEncodings, ∀ q < 256, printablePhred e q = true →
      decodePhred source tables e (encodePhred source tables e (UInt8.ofNat q)) = some (UInt8.ofNat q) := by
  decide +kernel

/-- "… and every Solexa score under the Solexa encoding" (scores -31 … 62, bytes 33 … 126). -/
theorem decode_encode_solexa :
    ∀ n < 256, printableSolexa (sc n) = true →
      decodeSolexa source tables codeSolexa (encodeSolexa source tables codeSolexa (Int8.ofInt (sc n)))
        = some (Int8.ofInt (sc n)) := by
  decide +kernel

/-- The byte is the documented one: score + offset, inside '!' … '~'. -/
theorem encode_phred_is_offset :
    ∀ e ∈ phredOffsetEncodings, ∀ q < 256, printablePhred e q = true →
      (encodePhred source tables e (UInt8.ofNat q)).toNat = q + docOffset e := by
  decide +kernel

theorem encode_solexa_is_offset :
    ∀ n < 256, printableSolexa (sc n) = true →
      ((encodeSolexa source tables codeSolexa (Int8.ofInt (sc n))).toNat : Int) = sc n + 64 := by
  decide +kernel

-- non-vacuity: the printable ranges are the documented ones
example : (List.range 256).filter (printablePhred codeSanger) = List.range 94 ∧
    (List.range 256).filter (printablePhred codeIllumina1_5) = (List.range 63).drop 2 ∧
    ((List.range 256).filter fun n => printableSolexa (sc n)).length = 94 := by decide +kernel

/-! ### error probabilities -/

/-- "the error probability of Phred score q is 10^(-q/10)": for q < 254 the table entry
    T = m/2^k satisfies `(T(1-δ))^10 ≤ 10^-q ≤ (T(1+δ))^10` with δ = 2^-47, i.e.
    |T - 10^(-q/10)| ≤ 2^-47·T. -/
theorem phredE_close :
    ∀ q < 254, ∃ m k, tables.probPhred (UInt8.ofNat q) = .val m k ∧
      (m * (2 ^ 47 - 1)) ^ 10 * 10 ^ q ≤ 2 ^ (10 * (k + 47)) ∧
      2 ^ (10 * (k + 47)) ≤ (m * (2 ^ 47 + 1)) ^ 10 * 10 ^ q := by
  have h : ∀ q < 254, phredProbClose q (tables.probPhred (UInt8.ofNat q)) = true := by decide +kernel
  intro q hq
  have := h q hq
  generalize tables.probPhred (UInt8.ofNat q) = p at this
  cases p with
  | val m k => exact ⟨m, k, rfl, by simpa [phredProbClose] using this⟩
  | nan => simp [phredProbClose] at this
  | bad => simp [phredProbClose] at this

/-- Phred 254 is probability 0 and 255 is NaN. -/
theorem phredE_special :
    (tables.probPhred 254).isZero = true ∧ tables.probPhred 255 = .nan := by decide +kernel

/-- "a larger score never means a larger probability" (scores 0 … 254; 255 is NaN).
    Adjacent entries are compared by the kernel; the order on exact values is transitive. -/
theorem phredE_antitone (q₁ q₂ : Nat) (h : q₁ < q₂) (h₂ : q₂ ≤ 254) :
    Prob.le (tables.probPhred (UInt8.ofNat q₂)) (tables.probPhred (UInt8.ofNat q₁)) = true := by
  have hadj : adjacentLe (tables.phredE.take 255) = true := by decide +kernel
  have hlen : (tables.phredE.take 255).length = 255 := by decide +kernel
  have := adjacentLe_getD hadj h (by omega)
  rw [getD_take' _ _ _ _ (by omega), getD_take' _ _ _ _ (by omega)] at this
  simpa [Tables.probPhred, phred_index q₁ (by omega), phred_index q₂ (by omega)] using this

/-- "converting a probability back yields the nearest score so that
    score-to-probability-to-score is the identity": for q < 254,
    `10^-(2q+1) < T[q]^20 ≤ 10^-(2q-1)`, i.e. q - 1/2 ≤ -10·log10 T[q] < q + 1/2
    (and 0 ↦ 254, NaN ↦ 255). -/
theorem ephred_nearest_spec :
    ∀ q < 256, phredNearest (tables.probPhred (UInt8.ofNat q)) q = true := by decide +kernel

/-- Solexa: "probability 1/(1+10^(q/10))" to relative accuracy 2^-47, qs = -127 … 126
    (index n = qs + 128). -/
theorem solexaE_close :
    ∀ n < 255, 1 ≤ n →
      solexaProbClose (sc n) (tables.probSolexa (Int8.ofInt (sc n))) = true := by
  decide +kernel

theorem solexaE_special :
    (tables.probSolexa 127).isZero = true ∧ tables.probSolexa (-128) = .nan := by decide +kernel

/-- Solexa scores -127 … 127 (table index n = qs + 128 from 1 to 255; -128 is NaN) -/
theorem solexaE_antitone (n₁ n₂ : Nat) (h₁ : 1 ≤ n₁) (h : n₁ < n₂) (h₂ : n₂ < 256) :
    Prob.le (tables.probSolexa (Int8.ofInt (sc n₂))) (tables.probSolexa (Int8.ofInt (sc n₁))) = true := by
  have hadj : adjacentLe (tables.solexaE.drop 1) = true := by decide +kernel
  have hlen : (tables.solexaE.drop 1).length = 255 := by decide +kernel
  have := adjacentLe_getD hadj (i := n₁ - 1) (j := n₂ - 1) (by omega) (by omega)
  rw [getD_drop', getD_drop', show 1 + (n₂ - 1) = n₂ by omega, show 1 + (n₁ - 1) = n₁ by omega] at this
  have e₁ := solexa_index n₁ (by omega)
  have e₂ := solexa_index n₂ (by omega)
  simp only [Tables.probSolexa, sc, e₁, e₂]
  exact this

theorem esolexa_nearest_spec :
    ∀ n < 256, solexaNearest (tables.probSolexa (Int8.ofInt (sc n))) (sc n) = true := by
  decide +kernel

/-! ### conversions -/

/-- the rational enclosure of 10^(1/20) used below is one: `tLo^20 < 10·tDen^20 < tHi^20` -/
theorem enclosure_ok : tLo ^ 20 < 10 * tDen ^ 20 ∧ 10 * tDen ^ 20 < tHi ^ 20 := by decide +kernel

/-- "Phred-to-Solexa … equal the analytically converted value rounded to the nearest integer
    wherever that value is finite and representable": for 1 ≤ q ≤ 127 the table entry qs
    satisfies `t^(2qs-1) + 1 ≤ t^(2q) ≤ t^(2qs+1) + 1` for every t in the enclosure, i.e.
    |10·log10(10^(q/10) - 1) - qs| ≤ 1/2.  (q = 0: the value is -∞.) -/
theorem phredSolexa_nearest :
    ∀ q < 128, 1 ≤ q → phredToSolexaNearest q (tables.toSolexa (UInt8.ofNat q)).toInt = true := by
  decide +kernel

/-- above 127 the value is not representable and the table saturates; 254 (p = 0) ↦ 127,
    255 (NaN) ↦ -128 -/
theorem phredSolexa_saturates :
    (∀ q < 255, 128 ≤ q → (tables.toSolexa (UInt8.ofNat q)).toInt = 127) ∧
    (tables.toSolexa 255).toInt = -128 := by decide +kernel

/-- "Solexa-to-Phred …": for -127 ≤ qs ≤ 126 the table entry q satisfies
    `t^(2q-1) ≤ t^(2qs) + 1 ≤ t^(2q+1)`, i.e. |10·log10(10^(qs/10) + 1) - q| ≤ 1/2. -/
theorem solexaPhred_nearest :
    ∀ n < 255, 1 ≤ n →
      solexaToPhredNearest (sc n) (tables.toPhred (Int8.ofInt (sc n))).toNat = true := by
  decide +kernel

/-- "… and are mutually inverse from Q=10 upwards" (up to 126, the largest finite score both
    types hold) -/
theorem mutual_inverse_from_10 :
    ∀ q < 127, 10 ≤ q →
      tables.toPhred (tables.toSolexa (UInt8.ofNat q)) = UInt8.ofNat q ∧
      tables.toSolexa (tables.toPhred (Int8.ofInt q)) = Int8.ofInt q := by
  decide +kernel

/-- "so they agree with each other's error probabilities": for 1 ≤ q ≤ 126 the error
    probability of the converted Solexa score has odds within a factor 10^(1/20) (half a score)
    of the odds of the Phred score's probability … -/
theorem conversion_probabilities_agree_phred :
    ∀ q < 127, 1 ≤ q →
      oddsAgree (tables.probSolexa (tables.toSolexa (UInt8.ofNat q))) (tables.probPhred (UInt8.ofNat q)) = true := by
  decide +kernel

/-- … and for -127 ≤ qs ≤ 126 the probability of the converted Phred score is within a factor
    10^(1/20) of the Solexa score's probability. -/
theorem conversion_probabilities_agree_solexa :
    ∀ n < 255, 1 ≤ n →
      probsAgree (tables.probPhred (tables.toPhred (Int8.ofInt (sc n)))) (tables.probSolexa (Int8.ofInt (sc n))) = true := by
  decide +kernel

end Biogo.Properties.C18
