import Biogo.Model.MorassConc
namespace Biogo.Properties.C13
end Biogo.Properties.C13
