/-
C13 — External sort never hides I/O failures and leaves no temporary files behind.

Theorems about `Biogo.MorassConc.sys` with its fault oracle: the n-th execution of one kind of
file-system / gob operation (temporary file creation, Encode, Sync, Seek, Decode in Finalise,
Decode in Pull, Close, Remove) fails — since the third wave a list of such faults, armed one
after the other (`flt : Fault` below is any such list; `[]` = no fault); `Reach` quantifies over every interleaving; `conc`
selects the sequential or the concurrent mode.
-/
import Biogo.Model.MorassConc
import Biogo.Proofs.MorassConc
import Biogo.Proofs.MorassCycle

namespace Biogo.Properties.C13
open Biogo.Morass Biogo.MorassConc Biogo.Interleave

/-- **An I/O failure is never hidden.**  One use cycle on a fresh sorter (chunk size ≥ 1, either
    mode, AutoClear/AutoClean on or off), any single fault (or none), any schedule: once the
    caller has returned from its last call, either some call returned an I/O error, or every
    call succeeded *and* the outputs are those the property demands — the pulls delivered a
    non-decreasing permutation of the pushed values, then io.EOF.  The sorter never reports
    success throughout while delivering fewer or different values than were pushed. -/
theorem fault_surfaces (c : Nat) (hc : 1 ≤ c) (conc ac acl : Bool) (cy : Cycle) (flt : Fault) {s : CState}
    (hr : Reach (sys conc c ac acl cy.ops flt) s) (hfin : finished s = true) :
    (∃ o ∈ s.outs, o.res = .ioerr) ∨ (∃ ys, SortedPermOf ys cy.pushes ∧ s.outs.reverse = specCycle ac ys cy) :=
  finished_of_CInv c ac cy (reach_CInv c ac cy hc hr) hfin

/-- non-vacuity, the witness of F15: chunk 2, push 2 1 4 3 5, concurrent mode; the writer of
    [1 2] fails on its second element (`encode:1`) and is held before returning its buffer until
    the writer of [3 4] has synced.  The model (with the fix) reports the error from `Push`. -/
example : ∃ s, Reach (sys true 2 false false
      (Cycle.ops ⟨[⟨2, 0⟩, ⟨1, 0⟩, ⟨4, 0⟩, ⟨3, 0⟩, ⟨5, 0⟩], 6, false⟩) [(.encode, 1)]) s
    ∧ finished s = true ∧ (s.outs.map (·.res)).contains .ioerr = true := by
  let S := sys true 2 false false (Cycle.ops ⟨[⟨2, 0⟩, ⟨1, 0⟩, ⟨4, 0⟩, ⟨3, 0⟩, ⟨5, 0⟩], 6, false⟩) [(.encode, 1)]
  let sched := [0, 0, 0, 0, 0, 0, 0, 1, 0, 1, 1, 1, 2, 2, 2, 2, 2, 2, 0]
  have h : (runFrom S S.init sched).isSome = true := by decide
  obtain ⟨s, hs⟩ := Option.isSome_iff_exists.mp h
  refine ⟨s, reach_run S _ s hs, ?_, ?_⟩
  · have : (runFrom S S.init sched).map finished = some true := by decide
    rw [hs] at this; simpa using this
  · have : (runFrom S S.init sched).map (fun s => (s.outs.map (·.res)).contains .ioerr) = some true := by decide
    rw [hs] at this; simpa using this

/-- a fault that is injected does fire and is reported: every single temp-file creation of a
    three-run workload in sequential mode (decided by evaluation of the model) -/
example : ∀ k ∈ [0, 1, 2],
    ((finish (sys false 2 false false (Cycle.ops ⟨[⟨2, 0⟩, ⟨1, 0⟩, ⟨4, 0⟩, ⟨3, 0⟩, ⟨5, 0⟩], 6, true⟩) [(.tempfile, k)])
        actors 400 (initState false 2 false false (Cycle.ops ⟨[⟨2, 0⟩, ⟨1, 0⟩, ⟨4, 0⟩, ⟨3, 0⟩, ⟨5, 0⟩], 6, true⟩)
          [(.tempfile, k)])).outs.map (·.res)).contains .ioerr = true := by
  decide

/-- **CleanUp** removes the temporary directory (`os.RemoveAll`, by contract). -/
theorem cleanup_removes_dir (s : CState) : (cleanUp s).dirExists = false ∧ (cleanUp s).onDisk = 0 :=
  ⟨rfl, rfl⟩

/-- **Draining a sorter that has AutoClean set removes its temporary directory**: a fault-free
    cycle pulled to io.EOF (`pulls > pushes`), memory-only or spilled, either mode, any schedule. -/
theorem autoclean_drain_removes_dir (c : Nat) (hc : 1 ≤ c) (conc ac : Bool) (cy : Cycle)
    (hdrain : cy.pushes.length < cy.pulls) {s : CState}
    (hr : Reach (sys conc c ac true cy.ops []) s) (hfin : finished s = true) :
    s.dirExists = false := by
  have hacl : s.autoClean = true := autoClean_const hr
  apply (reach_EofDir hr).2 hacl
  -- the outputs contain an io.EOF
  rcases finished_of_CInv c ac cy (reach_CInv c ac cy hc hr) hfin with hrep | ⟨ys, hys, houts⟩
  · obtain ⟨o, ho, hio⟩ := hrep
    exact absurd hio ((reach_NoFault hr).2.2 o ho)
  · have hlen : ys.length = cy.pushes.length := hys.1.length_eq
    have hmem : (⟨.eof, none, if ac then 0 else cy.pushes.length, if ac then 0 else cy.pushes.length⟩ : Out)
        ∈ specCycle ac ys cy := by
      unfold specCycle
      simp only [List.mem_append, List.mem_cons, List.mem_map, List.mem_range]
      right; right; left
      refine ⟨cy.pushes.length, hdrain, ?_⟩
      rw [List.getElem?_eq_none (by omega)]
    have : (⟨.eof, none, if ac then 0 else cy.pushes.length, if ac then 0 else cy.pushes.length⟩ : Out)
        ∈ s.outs.reverse := by rw [houts]; exact hmem
    exact ⟨_, List.mem_reverse.mp this, rfl⟩

/-- **Draining with AutoClear set leaves no run files** in the temporary directory: a
    fault-free cycle pulled to io.EOF, either mode, any schedule (AutoClean not set — with
    AutoClean the directory itself is gone, `autoclean_drain_removes_dir`). -/
theorem autoclear_drain_no_runs (c : Nat) (hc : 1 ≤ c) (conc : Bool) (cy : Cycle)
    (hdrain : cy.pushes.length < cy.pulls) {s : CState}
    (hr : Reach (sys conc c true false cy.ops []) s) (hfin : finished s = true) :
    s.onDisk = 0 := by
  obtain ⟨hfiles, hcnt⟩ := finished_no_files (reach_CInv c true cy hc hr) (reach_NoFault hr).2.2 hfin hdrain
  have := (reach_DiskInv hr).2.2.2
  rw [hfiles, hcnt] at this
  simpa using this

/-- non-vacuity of the residue theorems: run files do exist on the way (one after the first
    writer has created its temporary file) -/
example : ((runSkipFrom (sys false 2 true false (Cycle.ops ⟨[⟨2, 0⟩, ⟨1, 0⟩, ⟨4, 0⟩, ⟨3, 0⟩, ⟨5, 0⟩], 6, false⟩) [])
      (initState false 2 true false (Cycle.ops ⟨[⟨2, 0⟩, ⟨1, 0⟩, ⟨4, 0⟩, ⟨3, 0⟩, ⟨5, 0⟩], 6, false⟩) [])
      [0, 0, 0, 0, 1]).1.onDisk = 1) := by
  decide

end Biogo.Properties.C13
