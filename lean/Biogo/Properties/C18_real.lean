/-
C18 over the real numbers.  `Biogo.Properties.C18` proves integer inequalities (10th / 20th
powers, a rational enclosure of 10^(1/20)) about the regenerated tables; this file turns the
central ones into the statements the property makes about real powers and logarithms
(Mathlib's `Real.rpow`, `Real.logb`), by generic bridging lemmas — no table is looked at here.
Imports Mathlib: nothing the driver imports may import this file.
-/
import Mathlib.Analysis.SpecialFunctions.Pow.Real
import Mathlib.Analysis.SpecialFunctions.Log.Base
import Biogo.Properties.C18

open Biogo.Quality Biogo.Quality.Spec
open Biogo.Generated.Qual (source tables)

namespace Biogo.Properties.C18Real


theorem pow10_root (q : ℕ) : ((10 : ℝ) ^ (-(q : ℝ) / 10)) ^ 10 = 1 / (10 : ℝ) ^ q := by
  rw [← Real.rpow_natCast, ← Real.rpow_mul (by norm_num)]
  have : -(q : ℝ) / 10 * ((10 : ℕ) : ℝ) = -(q : ℝ) := by push_cast; ring
  rw [this, Real.rpow_neg (by norm_num), Real.rpow_natCast]; simp

theorem le_of_pow10 {a b : ℝ} (hb : 0 ≤ b) (h : a ^ 10 ≤ b ^ 10) : a ≤ b :=
  le_of_pow_le_pow_left₀ (by norm_num) hb h

/-- integer 10th-power inequalities ⇒ bounds on the real 10th root of 10^-q -/
theorem root_bounds (lo hi den q : ℕ) (hden : 0 < den)
    (h1 : lo ^ 10 * 10 ^ q ≤ den ^ 10) (h2 : den ^ 10 ≤ hi ^ 10 * 10 ^ q) :
    (lo : ℝ) / den ≤ (10 : ℝ) ^ (-(q : ℝ) / 10) ∧ (10 : ℝ) ^ (-(q : ℝ) / 10) ≤ (hi : ℝ) / den := by
  have hd : (0 : ℝ) < den := by exact_mod_cast hden
  have hxpos : 0 < (10 : ℝ) ^ (-(q : ℝ) / 10) := Real.rpow_pos_of_pos (by norm_num) _
  have h1R : (lo : ℝ) ^ 10 * 10 ^ q ≤ (den : ℝ) ^ 10 := by exact_mod_cast h1
  have h2R : (den : ℝ) ^ 10 ≤ (hi : ℝ) ^ 10 * 10 ^ q := by exact_mod_cast h2
  constructor
  · apply le_of_pow10 hxpos.le
    rw [pow10_root, div_pow, div_le_div_iff₀ (by positivity) (by positivity), one_mul]
    exact h1R
  · apply le_of_pow10 (by positivity)
    rw [pow10_root, div_pow, div_le_div_iff₀ (by positivity) (by positivity), one_mul]
    exact h2R

/-- relative form: `T(1-1/d) ≤ x ≤ T(1+1/d)` ⇒ `|T - x| ≤ T/d` -/
theorem abs_of_bounds (m k d : ℕ) (hd : 0 < d) (x : ℝ)
    (hlo : ((m * (d - 1) : ℕ) : ℝ) / ((2 ^ k * d : ℕ) : ℝ) ≤ x)
    (hhi : x ≤ ((m * (d + 1) : ℕ) : ℝ) / ((2 ^ k * d : ℕ) : ℝ)) :
    |(m : ℝ) / 2 ^ k - x| ≤ (1 / (d : ℝ)) * ((m : ℝ) / 2 ^ k) := by
  have hdR : (0 : ℝ) < d := by exact_mod_cast hd
  have h2k : (0 : ℝ) < 2 ^ k := by positivity
  have e1 : ((m * (d - 1) : ℕ) : ℝ) / ((2 ^ k * d : ℕ) : ℝ) = (m : ℝ) / 2 ^ k - (1 / (d : ℝ)) * ((m : ℝ) / 2 ^ k) := by
    rw [Nat.cast_mul, Nat.cast_mul, Nat.cast_sub hd]; push_cast; field_simp
  have e2 : ((m * (d + 1) : ℕ) : ℝ) / ((2 ^ k * d : ℕ) : ℝ) = (m : ℝ) / 2 ^ k + (1 / (d : ℝ)) * ((m : ℝ) / 2 ^ k) := by
    push_cast; field_simp
  rw [e1] at hlo; rw [e2] at hhi
  rw [abs_le]; constructor <;> linarith

/-- "the error probability of Phred score q is 10^(-q/10)", over the reals: every entry of
    `phredETable` below 254 is within relative 2^-47 of the real power. -/
theorem phredE_close_real :
    ∀ q < 254, ∃ m k, tables.probPhred (UInt8.ofNat q) = .val m k ∧
      |(m : ℝ) / 2 ^ k - (10 : ℝ) ^ (-(q : ℝ) / 10)| ≤ (1 / (2 : ℝ) ^ 47) * ((m : ℝ) / 2 ^ k) := by
  intro q hq
  obtain ⟨m, k, hmk, h1, h2⟩ := Biogo.Properties.C18.phredE_close q hq
  refine ⟨m, k, hmk, ?_⟩
  have hden : (2 : ℕ) ^ (10 * (k + 47)) = (2 ^ k * 2 ^ 47) ^ 10 := by
    rw [← pow_add, ← pow_mul, Nat.mul_comm]
  rw [hden] at h1 h2
  generalize hd : (2 : ℕ) ^ 47 = d at h1 h2
  have hdpos : 0 < d := by rw [← hd]; exact Nat.pow_pos (by decide)
  have hb := root_bounds (m * (d - 1)) (m * (d + 1)) (2 ^ k * d) q (Nat.mul_pos (Nat.pow_pos (by decide)) hdpos) h1 h2
  have := abs_of_bounds m k d hdpos _ hb.1 hb.2
  have e : ((2 ^ 47 : ℕ) : ℝ) = (2 : ℝ) ^ 47 := by rw [Nat.cast_pow, Nat.cast_ofNat]
  rw [← hd, e] at this
  exact this


/-- t = 10^(1/20) -/
noncomputable def t : ℝ := (10 : ℝ) ^ ((1 : ℝ) / 20)

theorem t_pos : 0 < t := Real.rpow_pos_of_pos (by norm_num) _

theorem t_pow20 : t ^ 20 = 10 := by
  unfold t
  rw [← Real.rpow_natCast, ← Real.rpow_mul (by norm_num)]
  norm_num

/-- t^n = 10^(n/20) for every integer n -/
theorem t_zpow (n : ℤ) : t ^ n = (10 : ℝ) ^ ((n : ℝ) / 20) := by
  unfold t
  rw [← Real.rpow_intCast, ← Real.rpow_mul (by norm_num)]
  congr 1; ring

/-- value of a fraction -/
noncomputable def fr (x : ℕ × ℕ) : ℝ := (x.1 : ℝ) / (x.2 : ℝ)

theorem lo_lt_t : (tLo : ℝ) / tDen < t := by
  have h := Biogo.Properties.C18.enclosure_ok.1
  have hden : (0 : ℝ) < (tDen : ℝ) := by norm_num [tDen]
  apply lt_of_pow_lt_pow_left₀ 20 t_pos.le
  rw [t_pow20, div_pow, div_lt_iff₀ (by positivity)]
  exact_mod_cast h

theorem t_lt_hi : t < (tHi : ℝ) / tDen := by
  have h := Biogo.Properties.C18.enclosure_ok.2
  have hden : (0 : ℝ) < (tDen : ℝ) := by norm_num [tDen]
  apply lt_of_pow_lt_pow_left₀ 20 (by positivity)
  rw [t_pow20, div_pow, lt_div_iff₀ (by positivity)]
  exact_mod_cast h

theorem tDen_pos : (0 : ℝ) < (tDen : ℝ) := by norm_num [tDen]
theorem tLo_pos : (0 : ℝ) < (tLo : ℝ) := by norm_num [tLo]
theorem tHi_pos : (0 : ℝ) < (tHi : ℝ) := by norm_num [tHi]

/-- the rational lower bound of t^n is one -/
theorem tPowLo_le (n : ℤ) : fr (tPowLo n) ≤ t ^ n := by
  unfold tPowLo fr
  split
  · rename_i h
    obtain ⟨k, rfl⟩ := Int.eq_ofNat_of_zero_le h
    simp only [Int.toNat_natCast, Nat.cast_pow, zpow_natCast]
    rw [← div_pow]
    exact pow_le_pow_left₀ (by have := tLo_pos; have := tDen_pos; positivity) lo_lt_t.le k
  · rename_i h
    obtain ⟨k, hk⟩ : ∃ k : ℕ, n = -(k : ℤ) := ⟨(-n).toNat, by omega⟩
    subst hk
    simp only [neg_neg, Int.toNat_natCast, Nat.cast_pow, zpow_neg, zpow_natCast]
    rw [← div_pow, ← inv_pow]
    apply pow_le_pow_left₀ (by have := tHi_pos; have := tDen_pos; positivity)
    rw [← inv_div]
    exact inv_anti₀ t_pos t_lt_hi.le

/-- the rational upper bound of t^n is one -/
theorem le_tPowHi (n : ℤ) : t ^ n ≤ fr (tPowHi n) := by
  unfold tPowHi fr
  split
  · rename_i h
    obtain ⟨k, rfl⟩ := Int.eq_ofNat_of_zero_le h
    simp only [Int.toNat_natCast, Nat.cast_pow, zpow_natCast]
    rw [← div_pow]
    exact pow_le_pow_left₀ t_pos.le t_lt_hi.le k
  · rename_i h
    obtain ⟨k, hk⟩ : ∃ k : ℕ, n = -(k : ℤ) := ⟨(-n).toNat, by omega⟩
    subst hk
    simp only [neg_neg, Int.toNat_natCast, Nat.cast_pow, zpow_neg, zpow_natCast]
    rw [← div_pow, ← inv_pow]
    apply pow_le_pow_left₀ (by have := t_pos; positivity)
    rw [← inv_div]
    exact inv_anti₀ (by have := tLo_pos; have := tDen_pos; positivity) lo_lt_t.le

theorem tPowLo_den_pos (n : ℤ) : (0 : ℝ) < ((tPowLo n).2 : ℝ) := by
  unfold tPowLo; split <;> simp only [Nat.cast_pow] <;>
    first | exact pow_pos tDen_pos _ | exact pow_pos tHi_pos _
theorem tPowHi_den_pos (n : ℤ) : (0 : ℝ) < ((tPowHi n).2 : ℝ) := by
  unfold tPowHi; split <;> simp only [Nat.cast_pow] <;>
    first | exact pow_pos tDen_pos _ | exact pow_pos tLo_pos _

theorem fracSuccLe_real {x y : ℕ × ℕ} (hx : (0 : ℝ) < x.2) (hy : (0 : ℝ) < y.2)
    (h : fracSuccLe x y = true) : fr x + 1 ≤ fr y := by
  simp only [fracSuccLe, decide_eq_true_eq] at h
  have hR : ((x.1 : ℝ) + x.2) * y.2 ≤ y.1 * x.2 := by exact_mod_cast h
  unfold fr
  rw [div_add_one hx.ne', div_le_div_iff₀ hx hy]
  exact hR

theorem fracLeSucc_real {x y : ℕ × ℕ} (hx : (0 : ℝ) < x.2) (hy : (0 : ℝ) < y.2)
    (h : fracLeSucc x y = true) : fr x ≤ fr y + 1 := by
  simp only [fracLeSucc, decide_eq_true_eq] at h
  have hR : (x.1 : ℝ) * y.2 ≤ ((y.1 : ℝ) + y.2) * x.2 := by exact_mod_cast h
  unfold fr
  rw [div_add_one hy.ne', div_le_div_iff₀ hx hy]
  exact hR

/-- |10·log10 v − n| ≤ 1/2 from `10^((2n-1)/20) ≤ v ≤ 10^((2n+1)/20)` -/
theorem log_nearest {v : ℝ} {n : ℤ} (h1 : (10 : ℝ) ^ (((2 * n - 1 : ℤ) : ℝ) / 20) ≤ v)
    (h2 : v ≤ (10 : ℝ) ^ (((2 * n + 1 : ℤ) : ℝ) / 20)) :
    |10 * Real.logb 10 v - n| ≤ 1 / 2 := by
  have hv : 0 < v := lt_of_lt_of_le (Real.rpow_pos_of_pos (by norm_num) _) h1
  have l1 := Real.logb_le_logb_of_le (b := 10) (by norm_num) (Real.rpow_pos_of_pos (by norm_num) _) h1
  have l2 := Real.logb_le_logb_of_le (b := 10) (by norm_num) hv h2
  rw [Real.logb_rpow (by norm_num) (by norm_num)] at l1 l2
  push_cast at l1 l2
  rw [abs_le]; constructor <;> linarith

/-- "Phred-to-Solexa … equal the analytically converted value rounded to the nearest integer":
    |10·log10(10^(q/10) − 1) − qs| ≤ 1/2 for every table entry with 1 ≤ q ≤ 127. -/
theorem phredSolexa_nearest_real (q : ℕ) (h1 : 1 ≤ q) (h2 : q < 128) :
    |10 * Real.logb 10 ((10 : ℝ) ^ ((q : ℝ) / 10) - 1) - ((tables.toSolexa (UInt8.ofNat q)).toInt : ℝ)| ≤ 1 / 2 := by
  have h := Biogo.Properties.C18.phredSolexa_nearest q h2 h1
  generalize (tables.toSolexa (UInt8.ofNat q)).toInt = qs at h ⊢
  simp only [phredToSolexaNearest, Bool.and_eq_true] at h
  have a := fracSuccLe_real (tPowHi_den_pos _) (tPowLo_den_pos _) h.1
  have b := fracLeSucc_real (tPowHi_den_pos _) (tPowLo_den_pos _) h.2
  have a1 := le_tPowHi (2 * qs - 1)
  have a2 := tPowLo_le (2 * (q : ℤ))
  have b1 := le_tPowHi (2 * (q : ℤ))
  have b2 := tPowLo_le (2 * qs + 1)
  have e : t ^ (2 * (q : ℤ)) = (10 : ℝ) ^ ((q : ℝ) / 10) := by
    rw [t_zpow]; congr 1; push_cast; ring
  rw [t_zpow] at a1 b2
  rw [e] at a2 b1
  apply log_nearest (n := qs) <;> linarith

/-- "Solexa-to-Phred …": |10·log10(10^(qs/10) + 1) − q| ≤ 1/2 for −127 ≤ qs ≤ 126 (table index
    n = qs + 128). -/
theorem solexaPhred_nearest_real (n : ℕ) (h1 : 1 ≤ n) (h2 : n < 255) :
    |10 * Real.logb 10 ((10 : ℝ) ^ ((((n : ℤ) - 128 : ℤ) : ℝ) / 10) + 1) -
        (((tables.toPhred (Int8.ofInt ((n : ℤ) - 128))).toNat : ℤ) : ℝ)| ≤ 1 / 2 := by
  have h := Biogo.Properties.C18.solexaPhred_nearest n h2 h1
  simp only [Biogo.Properties.C18.sc] at h
  generalize (tables.toPhred (Int8.ofInt ((n : ℤ) - 128))).toNat = q at h ⊢
  generalize ((n : ℤ) - 128) = qs at h ⊢
  simp only [solexaToPhredNearest, Bool.and_eq_true] at h
  have a := fracLeSucc_real (tPowHi_den_pos _) (tPowLo_den_pos _) h.1
  have b := fracSuccLe_real (tPowHi_den_pos _) (tPowLo_den_pos _) h.2
  have a1 := le_tPowHi (2 * (q : ℤ) - 1)
  have a2 := tPowLo_le (2 * qs)
  have b1 := le_tPowHi (2 * qs)
  have b2 := tPowLo_le (2 * (q : ℤ) + 1)
  have e : t ^ (2 * qs) = (10 : ℝ) ^ ((qs : ℝ) / 10) := by
    rw [t_zpow]; congr 1; push_cast; ring
  rw [t_zpow] at a1 b2
  rw [e] at a2 b1
  apply log_nearest (n := (q : ℤ)) <;> linarith

/-! ### integer-exponent predicates over the reals -/

theorem pow10Lt_real {e : ℤ} {a b : ℕ} (hb : (0 : ℝ) < b) (h : pow10Lt e a b = true) :
    (10 : ℝ) ^ e < (a : ℝ) / b := by
  unfold pow10Lt at h
  split at h
  · rename_i he
    obtain ⟨k, rfl⟩ := Int.eq_ofNat_of_zero_le he
    simp only [Int.toNat_natCast, decide_eq_true_eq] at h
    rw [zpow_natCast, lt_div_iff₀ hb]; exact_mod_cast h
  · rename_i he
    obtain ⟨k, hk⟩ : ∃ k : ℕ, e = -(k : ℤ) := ⟨(-e).toNat, by omega⟩
    subst hk
    simp only [neg_neg, Int.toNat_natCast, decide_eq_true_eq] at h
    rw [zpow_neg, zpow_natCast, inv_eq_one_div, div_lt_div_iff₀ (by positivity) hb, one_mul]
    exact_mod_cast h

theorem pow10Le_real {e : ℤ} {a b : ℕ} (hb : (0 : ℝ) < b) (h : pow10Le e a b = true) :
    (10 : ℝ) ^ e ≤ (a : ℝ) / b := by
  unfold pow10Le at h
  split at h
  · rename_i he
    obtain ⟨k, rfl⟩ := Int.eq_ofNat_of_zero_le he
    simp only [Int.toNat_natCast, decide_eq_true_eq] at h
    rw [zpow_natCast, le_div_iff₀ hb]; exact_mod_cast h
  · rename_i he
    obtain ⟨k, hk⟩ : ∃ k : ℕ, e = -(k : ℤ) := ⟨(-e).toNat, by omega⟩
    subst hk
    simp only [neg_neg, Int.toNat_natCast, decide_eq_true_eq] at h
    rw [zpow_neg, zpow_natCast, inv_eq_one_div, div_le_div_iff₀ (by positivity) hb, one_mul]
    exact_mod_cast h

theorem lePow10_real {e : ℤ} {a b : ℕ} (hb : (0 : ℝ) < b) (h : lePow10 a b e = true) :
    (a : ℝ) / b ≤ (10 : ℝ) ^ e := by
  unfold lePow10 at h
  split at h
  · rename_i he
    obtain ⟨k, rfl⟩ := Int.eq_ofNat_of_zero_le he
    simp only [Int.toNat_natCast, decide_eq_true_eq] at h
    rw [zpow_natCast, div_le_iff₀ hb]; exact_mod_cast h
  · rename_i he
    obtain ⟨k, hk⟩ : ∃ k : ℕ, e = -(k : ℤ) := ⟨(-e).toNat, by omega⟩
    subst hk
    simp only [neg_neg, Int.toNat_natCast, decide_eq_true_eq] at h
    rw [zpow_neg, zpow_natCast, inv_eq_one_div, div_le_div_iff₀ hb (by positivity), one_mul]
    exact_mod_cast h

/-- (10^(e/20))^20 = 10^e -/
theorem root20_pow (e : ℤ) : ((10 : ℝ) ^ ((e : ℝ) / 20)) ^ 20 = (10 : ℝ) ^ e := by
  rw [← t_zpow, ← zpow_natCast, ← zpow_mul, mul_comm, zpow_mul, zpow_natCast, t_pow20]

theorem root20_lt {T : ℝ} {e : ℤ} (hT : 0 ≤ T) (h : (10 : ℝ) ^ e < T ^ 20) : (10 : ℝ) ^ ((e : ℝ) / 20) < T := by
  apply lt_of_pow_lt_pow_left₀ 20 hT
  rw [root20_pow]; exact h

theorem root20_le {T : ℝ} {e : ℤ} (hT : 0 ≤ T) (h : (10 : ℝ) ^ e ≤ T ^ 20) : (10 : ℝ) ^ ((e : ℝ) / 20) ≤ T := by
  apply le_of_pow_le_pow_left₀ (n := 20) (by norm_num) hT
  rw [root20_pow]; exact h

theorem le_root20 {T : ℝ} {e : ℤ} (h : T ^ 20 ≤ (10 : ℝ) ^ e) : T ≤ (10 : ℝ) ^ ((e : ℝ) / 20) := by
  apply le_of_pow_le_pow_left₀ (n := 20) (by norm_num) (Real.rpow_pos_of_pos (by norm_num) _).le
  rw [root20_pow]; exact h

/-- "converting a probability back yields the nearest score so that
    score-to-probability-to-score is the identity", over the reals: every table probability
    T[q], q < 254, has −10·log10 T[q] within 1/2 of q. -/
theorem ephred_nearest_real (q : ℕ) (hq : q < 254) :
    ∃ m k, tables.probPhred (UInt8.ofNat q) = .val m k ∧
      |10 * Real.logb 10 ((m : ℝ) / 2 ^ k) + q| ≤ 1 / 2 := by
  obtain ⟨m, k, hmk, hle, hge⟩ := Biogo.Properties.C18.phredE_close q hq
  have hn := Biogo.Properties.C18.ephred_nearest_spec q (by omega)
  rw [hmk] at hn
  refine ⟨m, k, hmk, ?_⟩
  clear hle hge
  have hm : m ≠ 0 := by
    rintro rfl
    simp only [phredNearest, beq_iff_eq] at hn
    omega
  obtain ⟨m', rfl⟩ : ∃ m', m = m' + 1 := ⟨m - 1, by omega⟩
  simp only [phredNearest, Bool.and_eq_true, Bool.or_eq_true, decide_eq_true_eq, beq_iff_eq] at hn
  obtain ⟨⟨_, hlo⟩, hhi⟩ := hn
  have hlo := hlo.resolve_left (by omega)
  have hb : (0 : ℝ) < ((2 ^ (20 * k) : ℕ) : ℝ) := by positivity
  have hT : (0 : ℝ) < ((m' + 1 : ℕ) : ℝ) / 2 ^ k := by positivity
  have e20 : (((m' + 1) ^ 20 : ℕ) : ℝ) / ((2 ^ (20 * k) : ℕ) : ℝ) = (((m' + 1 : ℕ) : ℝ) / 2 ^ k) ^ 20 := by
    push_cast; rw [div_pow, ← pow_mul, mul_comm]
  have l1 := pow10Lt_real hb hlo
  have l2 := lePow10_real hb hhi
  rw [e20] at l1 l2
  have r1 := root20_lt hT.le l1
  have r2 := le_root20 l2
  have g1 := Real.logb_lt_logb (b := 10) (by norm_num) (Real.rpow_pos_of_pos (by norm_num) _) r1
  have g2 := Real.logb_le_logb_of_le (b := 10) (by norm_num) hT r2
  rw [Real.logb_rpow (by norm_num) (by norm_num)] at g1 g2
  push_cast at g1 g2 ⊢
  rw [abs_le]; constructor <;> linarith


theorem root10_pow (e : ℤ) : ((10 : ℝ) ^ ((e : ℝ) / 10)) ^ 10 = (10 : ℝ) ^ e := by
  rw [← Real.rpow_natCast, ← Real.rpow_mul (by norm_num)]
  have : (e : ℝ) / 10 * ((10 : ℕ) : ℝ) = (e : ℝ) := by push_cast; ring
  rw [this, Real.rpow_intCast]

/-- the integer inequalities of `solexaProbClose` bound `1/(1+10^(qs/10))` -/
theorem solexa_bridge (A Bp Bm : ℕ) (qs : ℤ) (hBm : 0 < Bm) (hlt : Bm < A) (hBp : 0 < Bp)
    (h1 : A ≤ Bp ∨ lePow10 ((A - Bp) ^ 10) (Bp ^ 10) qs = true)
    (h2 : pow10Le qs ((A - Bm) ^ 10) (Bm ^ 10) = true) :
    (Bm : ℝ) / A ≤ 1 / (1 + (10 : ℝ) ^ ((qs : ℝ) / 10)) ∧
    1 / (1 + (10 : ℝ) ^ ((qs : ℝ) / 10)) ≤ (Bp : ℝ) / A := by
  set x : ℝ := (10 : ℝ) ^ ((qs : ℝ) / 10) with hx
  have hxpos : 0 < x := Real.rpow_pos_of_pos (by norm_num) _
  have hx10 : x ^ 10 = (10 : ℝ) ^ qs := root10_pow qs
  have hBmR : (0 : ℝ) < Bm := by exact_mod_cast hBm
  have hBpR : (0 : ℝ) < Bp := by exact_mod_cast hBp
  have hAR : (0 : ℝ) < A := by exact_mod_cast (lt_trans hBm hlt)
  constructor
  · -- x ≤ (A - Bm)/Bm
    have h := pow10Le_real (a := (A - Bm) ^ 10) (b := Bm ^ 10) (by positivity) h2
    have e : (((A - Bm) ^ 10 : ℕ) : ℝ) / ((Bm ^ 10 : ℕ) : ℝ) = (((A : ℝ) - Bm) / Bm) ^ 10 := by
      rw [Nat.cast_pow, Nat.cast_pow, Nat.cast_sub hlt.le, div_pow]
    rw [e, ← hx10] at h
    have hnn : 0 ≤ ((A : ℝ) - Bm) / Bm := by
      apply div_nonneg _ hBmR.le
      have : (Bm : ℝ) < A := by exact_mod_cast hlt
      linarith
    have hle : x ≤ ((A : ℝ) - Bm) / Bm := le_of_pow_le_pow_left₀ (n := 10) (by norm_num) hnn h
    rw [div_le_div_iff₀ hAR (by positivity), one_mul]
    rw [le_div_iff₀ hBmR] at hle
    nlinarith
  · rcases h1 with h1 | h1
    · have : (A : ℝ) ≤ Bp := by exact_mod_cast h1
      have h1' : (1 : ℝ) ≤ (Bp : ℝ) / A := by rw [le_div_iff₀ hAR]; linarith
      have : 1 / (1 + x) ≤ 1 := by rw [div_le_one (by positivity)]; linarith
      linarith
    · by_cases hAB : A ≤ Bp
      · have : (A : ℝ) ≤ Bp := by exact_mod_cast hAB
        have h1' : (1 : ℝ) ≤ (Bp : ℝ) / A := by rw [le_div_iff₀ hAR]; linarith
        have : 1 / (1 + x) ≤ 1 := by rw [div_le_one (by positivity)]; linarith
        linarith
      · have hlt' : Bp < A := Nat.lt_of_not_le hAB
        have h := lePow10_real (a := (A - Bp) ^ 10) (b := Bp ^ 10) (by positivity) h1
        have e : (((A - Bp) ^ 10 : ℕ) : ℝ) / ((Bp ^ 10 : ℕ) : ℝ) = (((A : ℝ) - Bp) / Bp) ^ 10 := by
          rw [Nat.cast_pow, Nat.cast_pow, Nat.cast_sub hlt'.le, div_pow]
        rw [e, ← hx10] at h
        have hle : ((A : ℝ) - Bp) / Bp ≤ x := le_of_pow_le_pow_left₀ (n := 10) (by norm_num) hxpos.le h
        rw [div_le_div_iff₀ (by positivity) hAR, one_mul]
        rw [div_le_iff₀ hBpR] at hle
        nlinarith

/-- Solexa: "probability 1/(1+10^(q/10))", over the reals: every entry of `solexaETable` for
    qs = −127 … 126 (table index n = qs + 128) is within relative 2^-47 of it. -/
theorem solexaE_close_real (n : ℕ) (h1 : 1 ≤ n) (h2 : n < 255) :
    ∃ m k, tables.probSolexa (Int8.ofInt ((n : ℤ) - 128)) = .val m k ∧
      |(m : ℝ) / 2 ^ k - 1 / (1 + (10 : ℝ) ^ ((((n : ℤ) - 128 : ℤ) : ℝ) / 10))| ≤
        (1 / (2 : ℝ) ^ 47) * ((m : ℝ) / 2 ^ k) := by
  have h := Biogo.Properties.C18.solexaE_close n h2 h1
  simp only [Biogo.Properties.C18.sc] at h
  generalize ((n : ℤ) - 128) = qs at h ⊢
  generalize tables.probSolexa (Int8.ofInt qs) = p at h ⊢
  cases p with
  | nan => simp [solexaProbClose] at h
  | bad => simp [solexaProbClose] at h
  | val m k =>
    refine ⟨m, k, rfl, ?_⟩
    simp only [solexaProbClose, pow_add, Bool.and_eq_true, Bool.or_eq_true, decide_eq_true_eq,
      ne_eq] at h
    generalize hd : (2 : ℕ) ^ 47 = d at h
    have hdpos : 0 < d := by rw [← hd]; exact Nat.pow_pos (Nat.succ_pos 1)
    obtain ⟨⟨⟨hm, hlt⟩, hlo⟩, hhi⟩ := h
    have hmpos : 0 < m := Nat.pos_of_ne_zero hm
    have hBm : 0 < m * (d - 1) := by
      apply Nat.mul_pos hmpos
      have : 1 < d := by rw [← hd]; exact Nat.one_lt_two_pow (by decide)
      omega
    have hb := solexa_bridge (2 ^ k * d) (m * (d + 1)) (m * (d - 1)) qs hBm hlt
      (Nat.mul_pos hmpos (Nat.succ_pos d)) hlo hhi
    have := abs_of_bounds m k d hdpos _ hb.1 hb.2
    have e : ((2 ^ 47 : ℕ) : ℝ) = (2 : ℝ) ^ 47 := by rw [Nat.cast_pow, Nat.cast_ofNat]
    rw [← hd, e] at this
    exact this

/-- Solexa: "converting a probability back yields the nearest score": every table probability
    S[qs], −126 ≤ qs ≤ 126, has −10·log10 (S/(1−S)) within 1/2 of qs. -/
theorem esolexa_nearest_real (n : ℕ) (h1 : 2 ≤ n) (h2 : n < 255) :
    ∃ m k, tables.probSolexa (Int8.ofInt ((n : ℤ) - 128)) = .val m k ∧ m < 2 ^ k ∧
      |10 * Real.logb 10 ((m : ℝ) / ((2 ^ k - m : ℕ) : ℝ)) + (((n : ℤ) - 128 : ℤ) : ℝ)| ≤ 1 / 2 := by
  have h := Biogo.Properties.C18.esolexa_nearest_spec n (by omega)
  simp only [Biogo.Properties.C18.sc] at h
  have hq1 : -126 ≤ (n : ℤ) - 128 := by omega
  have hq2 : (n : ℤ) - 128 ≤ 126 := by omega
  generalize ((n : ℤ) - 128) = qs at h hq1 hq2 ⊢
  generalize tables.probSolexa (Int8.ofInt qs) = p at h ⊢
  cases p with
  | nan => simp only [solexaNearest, beq_iff_eq] at h; omega
  | bad => simp [solexaNearest] at h
  | val m k =>
    cases m with
    | zero => simp only [solexaNearest, beq_iff_eq] at h; omega
    | succ m' =>
      simp only [solexaNearest] at h
      split at h
      · simp only [beq_iff_eq] at h; omega
      · rename_i hlt
        have hlt : m' + 1 < 2 ^ k := Nat.lt_of_not_le hlt
        refine ⟨m' + 1, k, rfl, hlt, ?_⟩
        simp only [oddsNearest, Bool.and_eq_true, Bool.or_eq_true, decide_eq_true_eq, beq_iff_eq] at h
        obtain ⟨⟨_, hlo⟩, hhi⟩ := h
        have hlo := hlo.resolve_left (by omega)
        have hhi := hhi.resolve_left (by omega)
        generalize hb : 2 ^ k - (m' + 1) = b at hlo hhi ⊢
        have hbpos : 0 < b := by omega
        have hbR : (0 : ℝ) < ((b ^ 20 : ℕ) : ℝ) := by positivity
        have hr : (0 : ℝ) < ((m' + 1 : ℕ) : ℝ) / (b : ℝ) := by positivity
        have e20 : (((m' + 1) ^ 20 : ℕ) : ℝ) / ((b ^ 20 : ℕ) : ℝ) = (((m' + 1 : ℕ) : ℝ) / (b : ℝ)) ^ 20 := by
          push_cast; rw [div_pow]
        have l1 := pow10Le_real hbR hlo
        have l2 := lePow10_real hbR hhi
        rw [e20] at l1 l2
        have r1 := root20_le hr.le l1
        have r2 := le_root20 l2
        have g1 := Real.logb_le_logb_of_le (b := 10) (by norm_num) (Real.rpow_pos_of_pos (by norm_num) _) r1
        have g2 := Real.logb_le_logb_of_le (b := 10) (by norm_num) hr r2
        rw [Real.logb_rpow (by norm_num) (by norm_num)] at g1 g2
        push_cast at g1 g2 ⊢
        rw [abs_le]; constructor <;> linarith

end Biogo.Properties.C18Real
