/-
C12 — Concurrent-mode external sort is schedule independent.

Theorems about the labelled transition system `Biogo.MorassConc.sys` (the system the driver
runs under forced schedules): its atomic blocks are the code between two `verif` hook points.
`Reach` quantifies over every interleaving of the caller with the background chunk writers.
-/
import Biogo.Model.MorassConc
import Biogo.Proofs.MorassConc
import Biogo.Proofs.MorassCycle

namespace Biogo.Properties.C12
open Biogo.Morass Biogo.MorassConc Biogo.Interleave

variable {conc : Bool} {c : Nat} {ac acl : Bool} {prog : List Op} {flt : Fault}

/-- **Finalise returns only once every pushed value is safely in the sorter.**
    For every schedule, every caller program (and even with an injected I/O fault): when the
    caller executes the block of `Finalise` that follows `m.writers.Wait()` — the only place
    where run files are sought and decoded for the merge — every background writer has run to
    completion (its buffer is back in `pool`, nothing is left to encode). -/
theorem finalise_waits {s t : CState} (hr : Reach (sys conc c ac acl prog flt) s)
    (hpc : s.pc = .finWait) (hstep : step s 0 = some t) :
    ∀ w ∈ s.writers, w.pc = .done ∧ w.todo = w.todo ∧ live w = false := by
  have hs := reach_Str hr
  have hwg : s.wg = 0 := by
    simp only [MorassConc.step, cstep, hpc] at hstep
    split at hstep
    · simp at hstep
    · rename_i h; simpa using h
  have hcnt : s.writers.countP live = 0 := by
    have := hs.wg
    rw [hwg] at this
    simp only [cnt, hpc] at this
    have e : (CPc.finWait == CPc.finWrite) = false := rfl
    simp [e, b2n] at this
    exact this.symm
  intro w hw
  have hl : ¬ live w = true := List.countP_eq_zero.mp hcnt w hw
  have hd : w.pc = .done := by
    simp only [live, bne_iff_ne, ne_eq, Decidable.not_not] at hl
    exact hl
  exact ⟨hd, rfl, by simpa using hl⟩

/-- the counterpart: while some background writer is still running, the caller cannot pass the
    wait (the step is disabled, so the schedule-forcing harness must see it blocked) -/
theorem finalise_blocked_while_writing {s : CState} (hr : Reach (sys conc c ac acl prog flt) s)
    (hpc : s.pc = .finWait) {w : Writer} (hw : w ∈ s.writers) (hl : w.pc ≠ .done) :
    step s 0 = none := by
  cases hst : step s 0 with
  | none => rfl
  | some t => exact absurd (finalise_waits hr hpc hst w hw).1 hl

/-- non-vacuity of `finalise_waits`: the caller does reach and pass the wait (chunk 1, two
    values, the writer runs to completion before Finalise) -/
example : ∃ s t, Reach (sys true 1 false false [.push ⟨2, 0⟩, .push ⟨1, 0⟩, .finalise] []) s
    ∧ s.pc = .finWait ∧ s.writers.length = 1 ∧ step s 0 = some t := by
  let S := sys true 1 false false [.push ⟨2, 0⟩, .push ⟨1, 0⟩, .finalise] []
  have h : (runFrom S S.init [0, 0, 0, 0, 1, 1, 1, 1, 1, 0, 0, 0, 0, 0, 0, 0]).isSome = true := by decide
  obtain ⟨s, hs⟩ := Option.isSome_iff_exists.mp h
  have hr : Reach S s := reach_run S _ s hs
  have hpc : s.pc = .finWait := by
    have : (runFrom S S.init [0, 0, 0, 0, 1, 1, 1, 1, 1, 0, 0, 0, 0, 0, 0, 0]).map (·.pc) = some .finWait := by decide
    rw [hs] at this; simpa using this
  have hlen : s.writers.length = 1 := by
    have : (runFrom S S.init [0, 0, 0, 0, 1, 1, 1, 1, 1, 0, 0, 0, 0, 0, 0, 0]).map (·.writers.length) = some 1 := by decide
    rw [hs] at this; simpa using this
  have hstep : (step s 0).isSome = true := by
    have : ((runFrom S S.init [0, 0, 0, 0, 1, 1, 1, 1, 1, 0, 0, 0, 0, 0, 0, 0]).bind (fun s => step s 0)).isSome = true := by decide
    rw [hs] at this; simpa using this
  obtain ⟨t, ht⟩ := Option.isSome_iff_exists.mp hstep
  exact ⟨s, t, hr, hpc, hlen, ht⟩

/-- **No deadlock.**  In every reachable state in which the caller has not yet returned from
    the last call of its program, some actor can move — for every caller program (well-formed
    or not), every schedule, with or without an injected fault, in both modes. -/
theorem no_deadlock {s : CState} (hr : Reach (sys conc c ac acl prog flt) s)
    (hnf : finished s = false) : ∃ i, (step s i).isSome = true := by
  have hs := reach_Str hr
  have hc := reach_Ctl hr
  have hcntN : s.pc ≠ .finWrite → ∀ p, cnt p s = s.writers.countP p := by
    intro hpc p
    have : (s.pc == CPc.finWrite) = false := by simpa using hpc
    simp [cnt, this, b2n]
  cases hpc : s.pc
  · -- between calls: the next call can start
    refine ⟨0, cstep_idle_isSome hpc ?_⟩
    intro hp
    simp [finished, hp, hpc] at hnf
  · -- push.send: either the channel has room, or a writer is waiting to receive
    have hch := hc.sendChunk (Or.inl hpc)
    by_cases hroom : s.writable.buf.length < s.writable.cap
    · refine ⟨0, ?_⟩
      obtain ⟨ch, hch'⟩ := Option.isSome_iff_exists.mp hch
      simp [MorassConc.step, cstep, hpc, hch', Chan.send, hroom]
    · have hlen : 1 ≤ s.writable.buf.length := by have := hs.wcap; omega
      have hne : s.pc ≠ .finWrite := by rw [hpc]; simp
      have h1 : 1 ≤ s.writers.countP atRecv := by rw [← hcntN hne, ← hs.chan]; exact hlen
      obtain ⟨k, w, hk, hp⟩ := exists_writer_of_countP h1
      refine ⟨k + 1, step_writer_isSome hk (wstep_isSome (Or.inl ⟨by simpa [atRecv] using hp, ?_⟩))⟩
      intro hb; rw [hb] at hlen; simp at hlen
  · -- push.recv: a buffer is in the pool, or somebody holds one / a run waits for a writer
    obtain ⟨e, rest, hprog⟩ := hc.pushProg (Or.inr hpc)
    by_cases hpool : s.m.pool = 0
    · have hne : s.pc ≠ .finWrite := by rw [hpc]; simp
      have h1 := hs.recv hpc
      rw [hpool, hcntN hne] at h1
      by_cases hh : 1 ≤ s.writers.countP holding
      · obtain ⟨k, w, hk, hp⟩ := exists_writer_of_countP hh
        refine ⟨k + 1, writer_enabled hk ?_ ?_ ?_⟩
        · simp only [holding, Bool.or_eq_true, beq_iff_eq] at hp
          simp only [live, bne_iff_ne, ne_eq]
          rcases hp with ((hp | hp) | hp) | hp <;> rw [hp] <;> simp
        · intro hr'; simp [holding, hr'] at hp
        · intro _; rw [hpool]; omega
      · have hlen : 1 ≤ s.writable.buf.length := by omega
        have h2 : 1 ≤ s.writers.countP atRecv := by rw [← hcntN hne, ← hs.chan]; exact hlen
        obtain ⟨k, w, hk, hp⟩ := exists_writer_of_countP h2
        refine ⟨k + 1, step_writer_isSome hk (wstep_isSome (Or.inl ⟨by simpa [atRecv] using hp, ?_⟩))⟩
        intro hb; rw [hb] at hlen; simp at hlen
    · refine ⟨0, ?_⟩
      simp only [MorassConc.step, cstep, hpc, hpool, if_false, hprog]
      split <;> rfl
  · -- finalise.write: as push.send
    have hch := hc.sendChunk (Or.inr hpc)
    by_cases hroom : s.writable.buf.length < s.writable.cap
    · refine ⟨0, ?_⟩
      obtain ⟨ch, hch'⟩ := Option.isSome_iff_exists.mp hch
      simp [MorassConc.step, cstep, hpc, hch', Chan.send, hroom]
    · have hlen : 1 ≤ s.writable.buf.length := by have := hs.wcap; omega
      have hne : s.pc ≠ .finWrite := by rw [hpc]; simp
      have h1 : 1 ≤ s.writers.countP atRecv := by rw [← hcntN hne, ← hs.chan]; exact hlen
      obtain ⟨k, w, hk, hp⟩ := exists_writer_of_countP h1
      refine ⟨k + 1, step_writer_isSome hk (wstep_isSome (Or.inl ⟨by simpa [atRecv] using hp, ?_⟩))⟩
      intro hb; rw [hb] at hlen; simp at hlen
  · -- inside Finalise's own m.write(): the caller itself can move
    refine ⟨0, ?_⟩
    have hlive := hs.inlLive hpc
    have hw : (wstep s s.inl).isSome = true := by
      apply wstep_isSome
      cases hi : s.inl.pc
      · refine Or.inl ⟨rfl, ?_⟩
        have h1 := hs.chan
        simp only [cnt, hpc, atRecv, hi, beq_self_eq_true, Bool.and_self, b2n, if_true] at h1
        intro hb; rw [hb] at h1; simp at h1
      · exact Or.inr (Or.inl rfl)
      · exact Or.inr (Or.inr (Or.inl rfl))
      · exact Or.inr (Or.inr (Or.inr (Or.inl rfl)))
      · refine Or.inr (Or.inr (Or.inr (Or.inr ⟨rfl, ?_⟩)))
        apply holding_pool_lt hs
        simp [cnt, hpc, holding, hi, b2n]
      · exact absurd hi hlive
    obtain ⟨p, hp⟩ := Option.isSome_iff_exists.mp hw
    simp [MorassConc.step, cstep, hpc, hp]
  · -- finalise.wait: all writers have finished and the caller passes, or a writer can move
    by_cases hwg : s.wg = 0
    · refine ⟨0, ?_⟩
      simp only [MorassConc.step, cstep, hpc, hwg, ne_eq, not_true_eq_false, if_false]
      cases s.m.err with
      | some r => rfl
      | none => rfl
    · have hne : s.pc ≠ .finWrite := by rw [hpc]; simp
      have h1 : 1 ≤ s.writers.countP live := by
        rw [← hcntN hne, ← hs.wg]; omega
      exact some_writer_enabled hs hne h1

/-- non-vacuity of `no_deadlock`: states in which only a writer can move are reachable -/
example : ∃ s, Reach (sys true 1 false false [.push ⟨2, 0⟩, .push ⟨1, 0⟩, .push ⟨3, 0⟩] []) s
    ∧ finished s = false ∧ step s 0 = none := by
  let S := sys true 1 false false [.push ⟨2, 0⟩, .push ⟨1, 0⟩, .push ⟨3, 0⟩] []
  have h : (runFrom S S.init [0, 0, 0, 0, 0]).isSome = true := by decide
  obtain ⟨s, hs⟩ := Option.isSome_iff_exists.mp h
  refine ⟨s, reach_run S _ s hs, ?_, ?_⟩
  · have : (runFrom S S.init [0, 0, 0, 0, 0]).map finished = some false := by decide
    rw [hs] at this; simpa using this
  · have : (runFrom S S.init [0, 0, 0, 0, 0]).bind (fun s => step s 0) = none := by decide
    rw [hs] at this; simpa using this

/-- **The pulls return the complete sorted multiset, whatever the interleaving.**
    One use cycle `cy` (push the values, `Finalise`, pull `cy.pulls` times, optionally `Clear`)
    on a fresh sorter, chunk size ≥ 1, background writing on or off, AutoClear/AutoClean on or
    off: in every state, reachable under any schedule of the caller against the background chunk
    writers, in which the caller has returned from its last call, the outputs of all its calls
    are those of `specCycle` for a non-decreasing permutation `ys` of the pushed values — every
    `Push` and `Finalise` succeeded, the j-th `Pull` delivered `ys[j]`, then `io.EOF`; `Len`/`Pos`
    as the property states.  No value is lost, duplicated or changed. -/
theorem conc_sorted_multiset (c : Nat) (hc : 1 ≤ c) (conc ac acl : Bool) (cy : Cycle) {s : CState}
    (hr : Reach (sys conc c ac acl cy.ops []) s) (hfin : finished s = true) :
    ∃ ys, SortedPermOf ys cy.pushes ∧ s.outs.reverse = specCycle ac ys cy := by
  rcases finished_of_CInv c ac cy (reach_CInv c ac cy hc hr) hfin with hrep | hfinal
  · obtain ⟨o, ho, hio⟩ := hrep
    exact absurd hio ((reach_NoFault hr).2.2 o ho)
  · exact hfinal

/-- no call ever fails when no fault is injected (so the caller's program runs to its end) -/
theorem conc_no_error (c : Nat) (conc ac acl : Bool) (prog : List Op) {s : CState}
    (hr : Reach (sys conc c ac acl prog []) s) : ∀ o ∈ s.outs, o.res ≠ .ioerr :=
  (reach_NoFault hr).2.2

/-- non-vacuity of `conc_sorted_multiset`: a finished state is reachable (chunk 1, values 2 1,
    the writer interleaved with the caller), and it delivers 1 2 then io.EOF -/
example : ∃ s, Reach (sys true 1 false false (Cycle.ops ⟨[⟨2, 0⟩, ⟨1, 0⟩], 3, false⟩) []) s
    ∧ finished s = true ∧ s.outs.reverse.filterMap (·.val) = [⟨1, 0⟩, ⟨2, 0⟩] := by
  let S := sys true 1 false false (Cycle.ops ⟨[⟨2, 0⟩, ⟨1, 0⟩], 3, false⟩) []
  let sched := [0, 0, 0, 1, 0, 1, 0, 1, 0, 1, 0, 1, 0, 0, 0, 0, 0, 0, 0, 0]
  have h : (runFrom S S.init sched).isSome = true := by decide
  obtain ⟨s, hs⟩ := Option.isSome_iff_exists.mp h
  refine ⟨s, reach_run S _ s hs, ?_, ?_⟩
  · have : (runFrom S S.init sched).map finished = some true := by decide
    rw [hs] at this; simpa using this
  · have : (runFrom S S.init sched).map (fun s => s.outs.reverse.filterMap (·.val)) = some [⟨1, 0⟩, ⟨2, 0⟩] := by decide
    rw [hs] at this; simpa using this
