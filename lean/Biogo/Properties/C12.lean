import Biogo.Model.MorassConc
namespace Biogo.Properties.C12
end Biogo.Properties.C12
