/-
C04 (part seq) — FASTA/FASTQ records do not depend on line layout or terminators.
Property theorems only.

`FastaRenders recs bs` / `FastqRenders qline recs bs` (`Biogo.Spec.Seqio`) say that the bytes
`bs` hold the records `recs` in *some* layout: lines are `Padded` (content followed by any
trailing blanks — tab, VT, FF, CR, space — so a CRLF terminator is a trailing CR), every line
ends in LF except possibly the last; FASTA sequence lines are arbitrary pieces of the letters
(any wrap width, one long line, empty pieces = blank lines) and blank lines may stand before
any header; FASTQ records are four lines with blank lines between records.
-/
import Biogo.Proofs.Fasta
import Biogo.Proofs.Fastq
import Biogo.Proofs.FastqView
import Biogo.Proofs.SeqCRLF

namespace Biogo.Properties.C04_seq
open Biogo.Go.Bytes Biogo.Spec.Seqio

section fasta
open Biogo.Fasta

/-- **FASTA layout independence.**  Two byte strings that hold the same well-formed records —
    in whatever wrapping of the sequence lines (including one physical line of any length),
    with or without blank lines, trailing blanks, CRLF terminators, final newline — are read
    as the same call history: exactly these records, then `io.EOF`. -/
theorem fasta_layout_independent (recs : List Rec) (bs₁ bs₂ : Bytes)
    (hwf : ∀ r ∈ recs, wfFasta r = true) (h₁ : FastaRenders recs bs₁) (h₂ : FastaRenders recs bs₂) :
    readAll {} bs₁ = readAll {} bs₂ ∧
    readAll {} bs₁ = recs.map (fun r => Call.ret ⟨some r, none⟩) ++ [Call.ret ⟨none, some .eof⟩] := by
  have e₁ := renders_read recs bs₁ hwf h₁
  have e₂ := renders_read recs bs₂ hwf h₂
  exact ⟨e₁.trans e₂.symm, e₁⟩

/-- **re-wrapping**: the file written at width `w` and the file written at width `w'` read as
    the same records (an instance of `fasta_layout_independent`). -/
theorem fasta_rewrap (recs : List Rec) (w w' : Nat) (hwf : ∀ r ∈ recs, wfFasta r = true) :
    readAll {} (recs.flatMap (render w)) = readAll {} (recs.flatMap (render w')) :=
  (fasta_layout_independent recs _ _ hwf (renders_writer w recs hwf) (renders_writer w' recs hwf)).1

-- non-vacuity: a CRLF file with a blank line, trailing blanks, a sequence cut into uneven
-- pieces and no final newline is a layout of the record (name `x`, description `d e`,
-- letters `acgt`) …
example : FastaRenders [⟨[120], [100, 32, 101], [97, 99, 103, 116]⟩]
    ([32, 13, 10] ++ [62, 120, 32, 100, 32, 101, 9, 13, 10] ++ [97, 13, 10] ++ [13, 10] ++ [99, 103, 116, 32]) := by
  refine ⟨[[32, 13], [62, 120, 32, 100, 32, 101, 9, 13], [97, 13], [13], [99, 103, 116, 32]], ?_, ?_⟩
  · refine .blank _ _ _ ⟨[32, 13], rfl, by decide⟩ ?_
    refine .record ⟨[120], [100, 32, 101], [97, 99, 103, 116]⟩ _ [[97, 13], [13], [99, 103, 116, 32]] [] []
      ⟨[9, 13], rfl, by decide⟩ ?_ .nil
    exact .cons [97] _ [99, 103, 116] _ ⟨[13], rfl, by decide⟩
      (.cons [] _ [99, 103, 116] _ ⟨[13], rfl, by decide⟩
        (.cons [99, 103, 116] _ [] _ ⟨[32], rfl, by decide⟩ .nil))
  · exact .lf [32, 13] _ _ (by decide) (.lf _ _ _ (by decide) (.lf [97, 13] _ _ (by decide)
      (.lf [13] _ _ (by decide) (.last _ (by decide) (by decide)))))
-- … and it is read as that record
example : readAll {} ([32, 13, 10] ++ [62, 120, 32, 100, 32, 101, 9, 13, 10] ++ [97, 13, 10] ++ [13, 10] ++ [99, 103, 116, 32])
    = [.ret ⟨some ⟨[120], [100, 32, 101], [97, 99, 103, 116]⟩, none⟩, .ret ⟨none, some .eof⟩] := by decide

/-! #### terminators and white space, for every input

The reader sees a byte string only through `view bs`: its non-blank lines after
`bytes.TrimSpace` (`fasta_view`).  Hence, for *every* byte string, a valid file or not: -/

/-- two inputs with the same non-blank trimmed lines give the same call history -/
theorem fasta_view (bs bs' : Bytes) (h : view bs = view bs') : readAll {} bs = readAll {} bs' :=
  readAll_view bs bs' h

/-- **CRLF instead of LF** (every LF replaced by CR LF) -/
theorem fasta_crlf_any (bs : Bytes) : readAll {} (toCRLF bs) = readAll {} bs :=
  readAll_view _ _ (view_toCRLF bs)

/-- **final newline** present or omitted -/
theorem fasta_final_newline_any (bs : Bytes) : readAll {} (bs ++ [10]) = readAll {} bs :=
  readAll_view _ _ (view_snoc_lf bs)

/-- **trailing white space** (tab, VT, FF, CR, space) before any line terminator, and at the
    end of an input without final newline -/
theorem fasta_trailing_blanks_any (a blanks b : Bytes) (hb : ∀ x ∈ blanks, isBlank x = true) :
    readAll {} (a ++ blanks ++ 10 :: b) = readAll {} (a ++ 10 :: b) ∧
    readAll {} (a ++ blanks) = readAll {} a :=
  ⟨readAll_view _ _ (viewOf_trailing_blanks a blanks b hb []).1,
   readAll_view _ _ (viewOf_trailing_blanks a blanks b hb []).2⟩

/-- **blank lines** (empty or blanks only) inserted before the first line, between two lines or
    after the last terminated line -/
theorem fasta_blank_line_any (a blanks b : Bytes) (hb : ∀ x ∈ blanks, isBlank x = true)
    (ha : a = [] ∨ a.getLast? = some 10) :
    readAll {} (a ++ (blanks ++ 10 :: b)) = readAll {} (a ++ b) :=
  readAll_view _ _ (viewOf_blank_line a blanks b hb [] (ha.imp (fun h => ⟨h, rfl⟩) id))

/-- **`FastaRenders` is closed under the explicit CRLF transformation**: if `bs` is a layout of
    `recs`, so is `toCRLF bs` (every LF replaced by CR LF) — the relation's "a CR is a trailing
    blank" really covers the CRLF form of every file it admits. -/
theorem fasta_renders_toCRLF (recs : List Rec) (bs : Bytes) (h : FastaRenders recs bs) :
    FastaRenders recs (toCRLF bs) := fastaRenders_toCRLF h

end fasta

section fastq
open Biogo.Fastq

/-- **FASTQ layout independence** (`linear.QSeq`).  Two byte strings that hold the same
    well-formed records (scores in the printable range of `enc`) as four-line records — with
    or without blank lines between records, trailing blanks on any line, CRLF terminators, the
    final newline (also when that makes the last, empty, quality line disappear), `+` alone or
    with the header repeated — are read as the same call history: these records, then
    `io.EOF`; for either behaviour of the `io.Reader` at the end of the input. -/
theorem fastq_layout_independent (tabs : QTables) (enc : Encoding) (e₁ e₂ : Bool) (recs : List QRec)
    (bs₁ bs₂ : Bytes) (hwf : ∀ r ∈ recs, wfFastq enc r = true)
    (h₁ : FastqRenders (qlineOf tabs enc) recs bs₁) (h₂ : FastqRenders (qlineOf tabs enc) recs bs₂) :
    readAll ⟨.qseq enc, tabs⟩ e₁ bs₁ = readAll ⟨.qseq enc, tabs⟩ e₂ bs₂ ∧
    readAll ⟨.qseq enc, tabs⟩ e₁ bs₁ = recs.map (fun r => Call.ret ⟨some r, none⟩) ++ [Call.ret ⟨none, some .eof⟩] := by
  have hok : ∀ r ∈ recs, RecOK (qlineOf tabs enc) r := fun r hr => (recOK_of_wf tabs enc r (hwf r hr)).1
  have a := renders_read ⟨.qseq enc, tabs⟩ e₁ _ recs bs₁ hok h₁
  have b := renders_read ⟨.qseq enc, tabs⟩ e₂ _ recs bs₂ hok h₂
  refine ⟨a.trans b.symm, ?_⟩
  rw [a]
  congr 1
  apply List.map_congr_left
  intro r hr
  simp only [retOK]
  rw [built_qseq tabs enc r (recOK_of_wf tabs enc r (hwf r hr)).2]

/-- the same for a plain `linear.Seq` template: the quality lines may be anything visible of
    the right length (`ql`), the sequences returned carry no scores -/
theorem fastq_layout_independent_plain (tabs : QTables) (ql : QRec → Bytes) (e₁ e₂ : Bool) (recs : List QRec)
    (bs₁ bs₂ : Bytes) (hok : ∀ r ∈ recs, RecOK ql r)
    (h₁ : FastqRenders ql recs bs₁) (h₂ : FastqRenders ql recs bs₂) :
    readAll ⟨.seq, tabs⟩ e₁ bs₁ = readAll ⟨.seq, tabs⟩ e₂ bs₂ ∧
    readAll ⟨.seq, tabs⟩ e₁ bs₁
      = recs.map (fun r => Call.ret ⟨some { r with quals := [] }, none⟩) ++ [Call.ret ⟨none, some .eof⟩] := by
  have a := renders_read ⟨.seq, tabs⟩ e₁ _ recs bs₁ hok h₁
  have b := renders_read ⟨.seq, tabs⟩ e₂ _ recs bs₂ hok h₂
  refine ⟨a.trans b.symm, ?_⟩
  rw [a]
  congr 1

-- non-vacuity: `@x d / ac / +x d / I5` with CRLF, a blank line before it, trailing blanks and
-- no final newline is a layout of the record (name `x`, description `d`, letters `ac`, scores 40, 20) …
example : FastqRenders (qlineOf ⟨id, id⟩ .sanger) [⟨[120], [100], [97, 99], [40, 20]⟩]
    ([13, 10] ++ [64, 120, 32, 100, 13, 10] ++ [97, 99, 32, 13, 10] ++ [43, 120, 32, 100, 13, 10] ++ [73, 53, 9]) := by
  refine .inl ⟨[[13], [64, 120, 32, 100, 13], [97, 99, 32, 13], [43, 120, 32, 100, 13], [73, 53, 9]], ?_, ?_⟩
  · refine .blank _ _ _ ⟨[13], rfl, by decide⟩ ?_
    exact .record ⟨[120], [100], [97, 99], [40, 20]⟩ _ _ _ _ [] [] ⟨[13], rfl, by decide⟩ ⟨[32, 13], rfl, by decide⟩
      (.inr ⟨[13], rfl, by decide⟩) ⟨[9], rfl, by decide⟩ .nil
  · exact .lf [13] _ _ (by decide) (.lf _ _ _ (by decide) (.lf [97, 99, 32, 13] _ _ (by decide)
      (.lf [43, 120, 32, 100, 13] _ _ (by decide) (.last _ (by decide) (by decide)))))
-- … and so is `@x / (empty) / +` without the final newline (second alternative of `FastqRenders`)
example : FastqRenders (qlineOf ⟨id, id⟩ .sanger) [⟨[120], [], [], []⟩] [64, 120, 10, 10, 43, 10] :=
  .inr ⟨[[64, 120], [], [43]],
    .record ⟨[120], [], [], []⟩ _ _ _ _ [] [] ⟨[], rfl, by decide⟩ ⟨[], rfl, by decide⟩
      (.inl ⟨[], rfl, by decide⟩) ⟨[], rfl, by decide⟩ .nil, rfl⟩
example : readAll ⟨.qseq .sanger, ⟨id, id⟩⟩ false [64, 120, 10, 10, 43, 10]
    = [.ret ⟨some ⟨[120], [], [], []⟩, none⟩, .ret ⟨none, some .eof⟩] := by decide

/-! #### terminators and white space, for every input

Unlike the FASTA reader, the FASTQ reader does not skip blank lines in every state, and an
unterminated last line may be what is pending at `io.EOF`; for arbitrary byte strings the
statements that hold are: -/

/-- **CRLF instead of LF**, every byte string (valid file or not), every template -/
theorem fastq_crlf_any (cfg : Cfg) (eofWithData : Bool) (bs : Bytes) :
    readAll cfg eofWithData (Biogo.Fasta.toCRLF bs) = readAll cfg eofWithData bs :=
  readAll_toCRLF cfg eofWithData bs

/-- **trailing white space** in front of any line terminator, every byte string -/
theorem fastq_trailing_blanks_any (cfg : Cfg) (eofWithData : Bool) (a blanks b : Bytes)
    (hb : ∀ x ∈ blanks, isBlank x = true) :
    readAll cfg eofWithData (a ++ blanks ++ 10 :: b) = readAll cfg eofWithData (a ++ 10 :: b) :=
  readAll_trailing_blanks cfg eofWithData a blanks b hb

/-- **The FASTQ reader sees an input only through `viewQ`** (analogue of `fasta_view`): the lines
    `ReadLine` delivers completely, after `bytes.TrimSpace` (blank lines included: they are data
    in state `quality` after an empty sequence), and the bytes pending at `io.EOF` without
    their white space.  Two byte strings — valid files or not — with the same view, under
    either behaviour of the `io.Reader` at the end of each, give the same call history. -/
theorem fastq_view (cfg : Cfg) (e e' : Bool) (bs bs' : Bytes) (h : viewQ e bs = viewQ e' bs') :
    readAll cfg e bs = readAll cfg e' bs' := readAll_viewQ cfg e e' bs bs' h

-- non-vacuity: CRLF, trailing blanks and a missing final newline leave the view unchanged …
example : viewQ false [64, 120, 13, 10, 97, 32, 13, 10, 43, 9, 10, 73] = viewQ true [64, 120, 10, 97, 10, 43, 10, 73, 10] := by
  decide
-- … and a blank line does not
example : viewQ false [64, 120, 10, 10, 97, 10] ≠ viewQ false [64, 120, 10, 97, 10] := by decide

/-- **`FastqRenders` is closed under the explicit CRLF transformation** (for records whose
    header, letters and quality line contain no LF — `RecOK`, implied by `wfFastq`). -/
theorem fastq_renders_toCRLF (ql : QRec → Bytes) (recs : List QRec) (bs : Bytes)
    (hok : ∀ r ∈ recs, RecOK ql r) (h : FastqRenders ql recs bs) :
    FastqRenders ql recs (Biogo.Fasta.toCRLF bs) := fastqRenders_toCRLF hok h

end fastq

end Biogo.Properties.C04_seq
