/-
C04 (part seq) — FASTA/FASTQ records do not depend on line layout or terminators.
Property theorems only.

`FastaRenders recs bs` / `FastqRenders qline recs bs` (`Biogo.Spec.Seqio`) say that the bytes
`bs` hold the records `recs` in *some* layout: lines are `Padded` (content followed by any
trailing blanks — tab, VT, FF, CR, space — so a CRLF terminator is a trailing CR), every line
ends in LF except possibly the last; FASTA sequence lines are arbitrary pieces of the letters
(any wrap width, one long line, empty pieces = blank lines) and blank lines may stand before
any header; FASTQ records are four lines with blank lines between records.
-/
import Biogo.Proofs.Fasta

namespace Biogo.Properties.C04_seq
open Biogo.Go.Bytes Biogo.Spec.Seqio

section fasta
open Biogo.Fasta

/-- **FASTA layout independence.**  Two byte strings that hold the same well-formed records —
    in whatever wrapping of the sequence lines (including one physical line of any length),
    with or without blank lines, trailing blanks, CRLF terminators, final newline — are read
    as the same call history: exactly these records, then `io.EOF`. -/
theorem fasta_layout_independent (recs : List Rec) (bs₁ bs₂ : Bytes)
    (hwf : ∀ r ∈ recs, wfFasta r = true) (h₁ : FastaRenders recs bs₁) (h₂ : FastaRenders recs bs₂) :
    readAll {} bs₁ = readAll {} bs₂ ∧
    readAll {} bs₁ = recs.map (fun r => Call.ret ⟨some r, none⟩) ++ [Call.ret ⟨none, some .eof⟩] := by
  have e₁ := renders_read recs bs₁ hwf h₁
  have e₂ := renders_read recs bs₂ hwf h₂
  exact ⟨e₁.trans e₂.symm, e₁⟩

/-- **re-wrapping**: the file written at width `w` and the file written at width `w'` read as
    the same records (an instance of `fasta_layout_independent`). -/
theorem fasta_rewrap (recs : List Rec) (w w' : Nat) (hwf : ∀ r ∈ recs, wfFasta r = true) :
    readAll {} (recs.flatMap (render w)) = readAll {} (recs.flatMap (render w')) :=
  (fasta_layout_independent recs _ _ hwf (renders_writer w recs hwf) (renders_writer w' recs hwf)).1

-- non-vacuity: a CRLF file with a blank line, trailing blanks, a sequence cut into uneven
-- pieces and no final newline is a layout of the record (name `x`, description `d e`,
-- letters `acgt`) …
example : FastaRenders [⟨[120], [100, 32, 101], [97, 99, 103, 116]⟩]
    ([32, 13, 10] ++ [62, 120, 32, 100, 32, 101, 9, 13, 10] ++ [97, 13, 10] ++ [13, 10] ++ [99, 103, 116, 32]) := by
  refine ⟨[[32, 13], [62, 120, 32, 100, 32, 101, 9, 13], [97, 13], [13], [99, 103, 116, 32]], ?_, ?_⟩
  · refine .blank _ _ _ ⟨[32, 13], rfl, by decide⟩ ?_
    refine .record ⟨[120], [100, 32, 101], [97, 99, 103, 116]⟩ _ [[97, 13], [13], [99, 103, 116, 32]] [] []
      ⟨[9, 13], rfl, by decide⟩ ?_ .nil
    exact .cons [97] _ [99, 103, 116] _ ⟨[13], rfl, by decide⟩
      (.cons [] _ [99, 103, 116] _ ⟨[13], rfl, by decide⟩
        (.cons [99, 103, 116] _ [] _ ⟨[32], rfl, by decide⟩ .nil))
  · exact .lf [32, 13] _ _ (by decide) (.lf _ _ _ (by decide) (.lf [97, 13] _ _ (by decide)
      (.lf [13] _ _ (by decide) (.last _ (by decide) (by decide)))))
-- … and it is read as that record
example : readAll {} ([32, 13, 10] ++ [62, 120, 32, 100, 32, 101, 9, 13, 10] ++ [97, 13, 10] ++ [13, 10] ++ [99, 103, 116, 32])
    = [.ret ⟨some ⟨[120], [100, 32, 101], [97, 99, 103, 116]⟩, none⟩, .ret ⟨none, some .eof⟩] := by decide

end fasta

end Biogo.Properties.C04_seq
