/-
C04 (part seq) — FASTA/FASTQ records do not depend on line layout or terminators.
Property theorems only.
-/
import Biogo.Model.Fasta
import Biogo.Model.Fastq

namespace Biogo.Properties.C04_seq
open Biogo.Go.Bytes

/-- placeholder while the pipeline is brought up -/
theorem crlf_line : splitLines [65, 13, 10] = splitLines [65, 10] := by decide

end Biogo.Properties.C04_seq
