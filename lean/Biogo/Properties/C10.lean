/-
C10 — K-mer index returns exactly the occurrences of every k-mer.  Property theorems only;
the lemmas are in `Biogo/Proofs/Kmer.lean`.  The model is `Biogo/Model/Kmer.lean` (the functions
the driver executes), the plain-scan spec is `Biogo/Spec/Kmer.lean`.
-/
import Biogo.Model.Kmer
import Biogo.Spec.Kmer
import Biogo.Proofs.Kmer
import Biogo.Generated.KmerFacts

namespace Biogo.Properties.C10
open Biogo.Kmer Biogo.Spec.Kmer Biogo.Proofs.Kmer

/-- the constants the model assumes are the constants of the package as compiled -/
theorem facts_tie :
    Biogo.Generated.KmerFacts.kmerBits = wordBits ∧
    Biogo.Generated.KmerFacts.minKmerLen = minKmerLen ∧
    Biogo.Generated.KmerFacts.maxKmerLen = maxKmerLen ∧
    2 * maxKmerLen ≤ wordBits := by decide

/-- "Iterating k-mers over any sub-range visits exactly the valid windows of that range in
    increasing order": for every sequence, every `start`, `end` (in range or not) and every `k`
    that fits the word type, the callback arguments of `ForEachKmerOf` are the list
    `validWindows` of the plain scan; and no error is returned when the range is inside the
    sequence. -/
theorem foreach_spec {lk : Lookup} (hlk : FourLetter lk) (k : Nat) (hk : 1 ≤ k) (hk2 : 2 * k ≤ wordBits)
    (s : List UInt8) (start end_ : Nat) :
    (forEachKmer lk k s start end_).calls = validWindows lk k s start end_ ∧
    (start + (k - 1) ≤ s.length → end_ ≤ s.length → (forEachKmer lk k s start end_).err = false) :=
  ⟨forEachKmer_calls hlk k hk hk2 s start end_, forEachKmer_err lk k s start end_⟩

/-- what the list `validWindows` is: `(p, w)` is in it exactly when `p` lies in the range with its
    whole window (`start ≤ p`, `p + k ≤ end`) and the `k` letters at `p` are all valid and spell
    `w`; and the list is strictly increasing in `p`. -/
theorem validWindows_spec (lk : Lookup) (k : Nat) (s : List UInt8) (start end_ : Nat) :
    (∀ c : Nat × Nat, c ∈ validWindows lk k s start end_ ↔
      start ≤ c.1 ∧ c.1 + k ≤ end_ ∧ c.1 - start < (s.drop start).length ∧ wordAt lk k s c.1 = some c.2) ∧
    (validWindows lk k s start end_).Pairwise (fun a b => a.1 < b.1) := by
  constructor
  · intro c
    unfold validWindows wordAt
    rw [List.mem_filter, mem_wordsFrom_iff]
    constructor
    · rintro ⟨⟨h1, h2, h3⟩, h4⟩
      rw [List.drop_drop, show start + (c.1 - start) = c.1 by omega] at h3
      exact ⟨h1, by simpa using h4, h2, h3⟩
    · rintro ⟨h1, h2, h3, h4⟩
      refine ⟨⟨h1, h3, ?_⟩, by simpa using h2⟩
      rw [List.drop_drop, show start + (c.1 - start) = c.1 by omega]
      exact h4
  · exact (wordsFrom_pairwise lk k _ start).filter _

-- non-vacuity: a real lookup, a window with an invalid letter inside, a proper sub-range
example :
    let lk : Lookup := fun b => if b = 97 then some 0 else if b = 99 then some 1 else if b = 103 then some 2
      else if b = 116 then some 3 else none
    (forEachKmer lk 4 [97, 99, 103, 116, 110, 97, 97, 99, 103, 116, 116] 1 11).calls = [(5, 6), (6, 27), (7, 111)] := by
  decide

end Biogo.Properties.C10
