/-
C10 — K-mer index returns exactly the occurrences of every k-mer.  Property theorems only;
the lemmas are in `Biogo/Proofs/Kmer.lean`.  The model is `Biogo/Model/Kmer.lean` (the functions
the driver executes), the plain-scan spec is `Biogo/Spec/Kmer.lean`.
-/
import Biogo.Model.Kmer
import Biogo.Spec.Kmer
import Biogo.Proofs.Kmer
import Biogo.Proofs.KmerIndex
import Biogo.Proofs.KmerWord
import Biogo.Proofs.KmerComplement
import Biogo.Generated.KmerFacts

namespace Biogo.Properties.C10
open Biogo.Kmer Biogo.Spec.Kmer Biogo.Proofs.Kmer Biogo.Proofs.KmerIndex Biogo.Proofs.KmerWord

/-- the constants the model assumes are the constants of the package as compiled -/
theorem facts_tie :
    Biogo.Generated.KmerFacts.kmerBits = wordBits ∧
    Biogo.Generated.KmerFacts.minKmerLen = minKmerLen ∧
    Biogo.Generated.KmerFacts.maxKmerLen = maxKmerLen ∧
    2 * maxKmerLen ≤ wordBits := by decide

/-- "Iterating k-mers over any sub-range visits exactly the valid windows of that range in
    increasing order": for every sequence, every `start`, `end` (in range or not) and every `k`
    that fits the word type, the callback arguments of `ForEachKmerOf` are the list
    `validWindows` of the plain scan; and no error is returned when the range is inside the
    sequence. -/
theorem foreach_spec {lk : Lookup} (hlk : FourLetter lk) (k : Nat) (hk : 1 ≤ k) (hk2 : 2 * k ≤ wordBits)
    (s : List UInt8) (start end_ : Nat) :
    (forEachKmer lk k s start end_).calls = validWindows lk k s start end_ ∧
    (start + (k - 1) ≤ s.length → end_ ≤ s.length → (forEachKmer lk k s start end_).err = false) :=
  ⟨forEachKmer_calls hlk k hk hk2 s start end_, forEachKmer_err lk k s start end_⟩

/-- what the list `validWindows` is: `(p, w)` is in it exactly when `p` lies in the range with its
    whole window (`start ≤ p`, `p + k ≤ end`) and the `k` letters at `p` are all valid and spell
    `w`; and the list is strictly increasing in `p`. -/
theorem validWindows_spec (lk : Lookup) (k : Nat) (s : List UInt8) (start end_ : Nat) :
    (∀ c : Nat × Nat, c ∈ validWindows lk k s start end_ ↔
      start ≤ c.1 ∧ c.1 + k ≤ end_ ∧ c.1 - start < (s.drop start).length ∧ wordAt lk k s c.1 = some c.2) ∧
    (validWindows lk k s start end_).Pairwise (fun a b => a.1 < b.1) := by
  constructor
  · intro c
    unfold validWindows wordAt
    rw [List.mem_filter, mem_wordsFrom_iff]
    constructor
    · rintro ⟨⟨h1, h2, h3⟩, h4⟩
      rw [List.drop_drop, show start + (c.1 - start) = c.1 by omega] at h3
      exact ⟨h1, by simpa using h4, h2, h3⟩
    · rintro ⟨h1, h2, h3, h4⟩
      refine ⟨⟨h1, h3, ?_⟩, by simpa using h2⟩
      rw [List.drop_drop, show start + (c.1 - start) = c.1 by omega]
      exact h4
  · exact (wordsFrom_pairwise lk k _ start).filter _

-- non-vacuity: a real lookup, a window with an invalid letter inside, a proper sub-range
example :
    let lk : Lookup := fun b => if b = 97 then some 0 else if b = 99 then some 1 else if b = 103 then some 2
      else if b = 116 then some 3 else none
    (forEachKmer lk 4 [97, 99, 103, 116, 110, 97, 97, 99, 103, 116, 116] 1 11).calls = [(5, 6), (6, 27), (7, 111)] := by
  decide

/-- supported parameters (`MinKmerLen ≤ k ≤ MaxKmerLen`, a sequence of at least `k+1` letters, a
    four-letter alphabet): `New` succeeds with the table of the callbacks of the whole sequence -/
theorem new_ok (lk : Lookup) (k : Nat) (s : List UInt8) (hk : minKmerLen ≤ k) (hk' : k ≤ maxKmerLen)
    (hs : k + 1 ≤ s.length) :
    new lk 4 k s = .ok { k, seq := s, finger := buildTable k (forEachKmer lk k s 0 s.length).calls,
                         pos := #[], indexed := false } := by
  unfold new newCheck
  rw [if_neg (by omega), if_neg (by omega), if_neg (by omega), if_neg (by omega)]

theorem supported_k {k : Nat} (hk : minKmerLen ≤ k) (hk' : k ≤ maxKmerLen) : 1 ≤ k ∧ 2 * k ≤ wordBits := by
  unfold minKmerLen at hk; unfold maxKmerLen at hk'; unfold wordBits; omega

/-- "the pre-build frequency table equals the occurrence counts": after `New`, finger entry `w`
    is the number of positions where word `w` occurs with no invalid letter inside it, and
    `KmerFrequencies` is the list of the non-zero counts. -/
theorem freq_spec {lk : Lookup} (hlk : FourLetter lk) (k : Nat) (s : List UInt8)
    (hk : minKmerLen ≤ k) (hk' : k ≤ maxKmerLen) (hs : k + 1 ≤ s.length) :
    ∃ ix, new lk 4 k s = .ok ix ∧
      (∀ w, w ≤ 4 ^ k → rd ix.finger w = frequency lk k s w) ∧
      kmerFrequencies ix = some ((List.range (4 ^ k + 1)).filterMap fun w =>
        if frequency lk k s w > 0 then some (w, frequency lk k s w) else none) := by
  obtain ⟨hk1, hk2⟩ := supported_k hk hk'
  refine ⟨_, new_ok lk k s hk hk' hs, ?_, ?_⟩
  · intro w hw
    simp only [new_finger hlk k hk1 hk2]
    rw [rd_buildTable k _ w (by rw [pow4_eq]; exact hw)]
    rfl
  · unfold kmerFrequencies
    simp only [new_finger hlk k hk1 hk2, Bool.false_eq_true, if_false]
    rw [collect_eq, List.append_nil, size_buildTable, pow4_eq]
    congr 1
    apply filterMap_congr'
    intro w hw
    rw [List.mem_range] at hw
    rw [rd_buildTable k _ w (by rw [pow4_eq]; omega)]
    rfl

/-- "after building the index the positions reported for each k-mer are exactly the positions
    where that word occurs with no invalid letter inside it" (as a list in increasing order —
    `occurrences` is the plain scan filtered by the word), for every word below `4^k`, word 0 and
    the last word included; a k-mer outside the range is rejected. -/
theorem positions_spec {lk : Lookup} (hlk : FourLetter lk) (k : Nat) (s : List UInt8)
    (hk : minKmerLen ≤ k) (hk' : k ≤ maxKmerLen) (hs : k + 1 ≤ s.length) :
    ∃ ix, new lk 4 k s = .ok ix ∧
      (∀ w, w < 4 ^ k → kmerPositions (build lk ix) w = .ok (occurrences lk k s w)) ∧
      (∀ w, 4 ^ k ≤ w → kmerPositions (build lk ix) w = .error .badKmer) := by
  obtain ⟨hk1, hk2⟩ := supported_k hk hk'
  refine ⟨_, new_ok lk k s hk hk' hs, ?_, ?_⟩
  · intro w hw
    have inv := build_inv hlk k hk1 hk2 s (by omega)
      { k, seq := s, finger := buildTable k (forEachKmer lk k s 0 s.length).calls, pos := #[], indexed := false }
      rfl rfl (new_finger hlk k hk1 hk2 s)
    rw [kmerPositions_of_inv _ k hk2 _ rfl inv w hw]
    rfl
  · intro w hw
    unfold kmerPositions
    have : (build lk { k, seq := s, finger := buildTable k (forEachKmer lk k s 0 s.length).calls,
                       pos := #[], indexed := false }).k = k := rfl
    rw [this, kMask_eq k hk2, if_pos (by have := four_pow_pos k; omega)]

/-- "words absent from the sequence report no positions" -/
theorem absent_spec (lk : Lookup) (k : Nat) (s : List UInt8) (w : Nat)
    (h : frequency lk k s w = 0) : occurrences lk k s w = [] := by
  apply List.eq_nil_of_length_eq_zero
  unfold occurrences; unfold frequency at h
  rw [List.length_map, ← List.countP_eq_length_filter]; exact h

-- non-vacuity of the hypotheses of `freq_spec` / `positions_spec`, and a concrete index:
-- "acgtnaacgtt" at k = 4 has the words acgt (27) at 0 and 6, aacg (6) at 5, cgtt (111) at 7
example :
    let lk : Lookup := fun b => if b = 97 then some 0 else if b = 99 then some 1 else if b = 103 then some 2
      else if b = 116 then some 3 else none
    FourLetter lk ∧ minKmerLen ≤ 4 ∧ 4 ≤ maxKmerLen ∧
    occurrences lk 4 [97, 99, 103, 116, 110, 97, 97, 99, 103, 116, 116] 27 = [0, 6] ∧
    occurrences lk 4 [97, 99, 103, 116, 110, 97, 97, 99, 103, 116, 116] 0 = [] := by
  refine ⟨?_, by decide, by decide, by decide, by decide⟩
  intro b d h
  simp only [] at h
  repeat' split at h
  all_goals first | (simp at h; omega) | simp at h

/-- `alpha.Letter(d)` is a letter whose index is `d` -/
def LetterOf (lk : Lookup) (letter : Nat → UInt8) : Prop := ∀ d, d < 4 → lk (letter d) = some d

theorem digits_map_letter {lk : Lookup} {letter : Nat → UInt8} (hl : LetterOf lk letter) (ds : List Nat)
    (h : ∀ d ∈ ds, d < 4) : digits lk (ds.map letter) = some ds := by
  induction ds with
  | nil => rfl
  | cons d ds ih =>
    rw [List.map_cons, digits, hl d (h d (by simp)), ih (fun x hx => h x (by simp [hx]))]

/-- "k-mer encoding … agree[s] with the corresponding string operations": a text of `k` valid
    letters is encoded as the base-4 numeral of its letter indices (for every `k` that fits the
    word type), and formatting that word gives back the letters of those indices. -/
theorem format_kmerOf {lk : Lookup} (hlk : FourLetter lk) (letter : Nat → UInt8) (k : Nat)
    (hk : 2 * k ≤ wordBits) (text : List UInt8) (ds : List Nat) (hlen : text.length = k)
    (hd : digits lk text = some ds) :
    kmerOf lk k text = .ok (encode ds) ∧ format letter k (encode ds) = ds.map letter := by
  constructor
  · unfold kmerOf
    rw [if_neg (by omega), kmerOfLoop_ok hlk text ds hd 0 0 (by simp) (by omega)]
    simp
  · rw [format_eq, ← hlen, ← digits_length hd, toDigits_encode ds (digits_lt hlk hd)]

/-- "… formatting … agree[s] with the corresponding string operations": `Format` writes the `k`
    base-4 digits of the word as letters, most significant first, and `KmerOf` reads them back:
    `KmerOf(Format(w)) = w` for every word below `4^k`. -/
theorem kmerOf_format {lk : Lookup} (hlk : FourLetter lk) {letter : Nat → UInt8} (hl : LetterOf lk letter)
    (k : Nat) (hk : 2 * k ≤ wordBits) (w : Nat) (hw : w < 4 ^ k) :
    format letter k w = (toDigits k w).map letter ∧ kmerOf lk k (format letter k w) = .ok w := by
  refine ⟨format_eq letter k w, ?_⟩
  have hd := digits_map_letter hl (toDigits k w) (toDigits_lt k w)
  have := (format_kmerOf hlk letter k hk ((toDigits k w).map letter) (toDigits k w)
    (by rw [List.length_map, toDigits_length]) hd).1
  rw [format_eq, this, encode_toDigits, Nat.mod_eq_of_lt hw]

/-- texts of the wrong length or with an invalid letter are rejected -/
theorem kmerOf_rejects (lk : Lookup) (k : Nat) (text : List UInt8) :
    (text.length ≠ k → kmerOf lk k text = .error .badKmerTextLen) ∧
    (text.length = k → digits lk text = none → kmerOf lk k text = .error .badKmerText) := by
  constructor
  · intro h; unfold kmerOf; rw [if_pos h]
  · intro h hd; unfold kmerOf; rw [if_neg (by omega), kmerOfLoop_bad lk text hd]

/-- "GC fraction … agree[s] with the corresponding string operations": the numerator of `GCof`
    is the number of `c`/`g` digits among the `k` digits of the word (any `k`, any word) -/
theorem gc_spec (k w : Nat) : gcOf k w = gcCount (toDigits k w) := by
  unfold gcOf; rw [gcLoop_eq, Nat.zero_add]

/-- "reverse-complement agree[s] with the corresponding string operations": for every supported
    word length that fits the word type (`2 ≤ k`, `2k ≤ 32`) and every digit list of length `k`,
    `ComplementOf` of its numeral is the numeral of the reversed list with `0,1,2,3 ↦ 3,2,1,0`.
    Proved by bit extensionality over the loop as written (no `bv_decide`). -/
theorem complement_spec (k : Nat) (hk2 : 2 ≤ k) (hk : 2 * k ≤ wordBits) (ds : List Nat)
    (hlen : ds.length = k) (hd : ∀ d ∈ ds, d < 4) :
    complementOf k (encode ds) = encode (revComp ds) := by
  rw [Biogo.Proofs.KmerComplement.complementOf_eq k (encode ds) hk2 hk, ← hlen, toDigits_encode ds hd]

/-- `check_true`: after `Build`, `Check()` finds every callback in its bucket: `(true, number of
    valid windows)` -/
theorem check_true {lk : Lookup} (hlk : FourLetter lk) (k : Nat) (s : List UInt8)
    (hk : minKmerLen ≤ k) (hk' : k ≤ maxKmerLen) (hs : k + 1 ≤ s.length) :
    ∃ ix, new lk 4 k s = .ok ix ∧ check lk (build lk ix) = (true, (allWindows lk k s).length) := by
  obtain ⟨hk1, hk2⟩ := supported_k hk hk'
  refine ⟨_, new_ok lk k s hk hk' hs, ?_⟩
  have inv := build_inv hlk k hk1 hk2 s (by omega)
    { k, seq := s, finger := buildTable k (forEachKmer lk k s 0 s.length).calls, pos := #[], indexed := false }
    rfl rfl (new_finger hlk k hk1 hk2 s)
  exact check_of_inv hlk k hk1 hk2 s (by omega) _ rfl rfl inv

-- non-vacuity: "gatc" (141) reverse-complemented is "gatc" again; "aacg" (6) gives "cgtt" (111)
example : complementOf 4 141 = 141 ∧ complementOf 4 6 = 111 ∧ encode (revComp [0, 0, 1, 2]) = 111 := by decide

-- non-vacuity: the DNA letters; "gatc" = 2·64 + 0·16 + 3·4 + 1 = 141, two of its letters are G/C
example :
    let lk : Lookup := fun b => if b = 97 then some 0 else if b = 99 then some 1 else if b = 103 then some 2
      else if b = 116 then some 3 else none
    let letter : Nat → UInt8 := fun d => if d = 0 then 97 else if d = 1 then 99 else if d = 2 then 103 else 116
    LetterOf lk letter ∧ kmerOf lk 4 [103, 97, 116, 99] = .ok 141 ∧ format letter 4 141 = [103, 97, 116, 99] ∧
    gcOf 4 141 = 2 := by
  refine ⟨?_, by rfl, by decide, by decide⟩
  intro d hd
  have : d = 0 ∨ d = 1 ∨ d = 2 ∨ d = 3 := by omega
  rcases this with h | h | h | h <;> subst h <;> decide

end Biogo.Properties.C10
