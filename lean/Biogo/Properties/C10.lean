/-
C10 — K-mer index returns exactly the occurrences of every k-mer.  Property theorems only;
the lemmas are in `Biogo/Proofs/Kmer.lean`.  The model is `Biogo/Model/Kmer.lean` (the functions
the driver executes), the plain-scan spec is `Biogo/Spec/Kmer.lean`.
-/
import Biogo.Model.Kmer
import Biogo.Spec.Kmer
import Biogo.Proofs.Kmer
import Biogo.Proofs.KmerIndex
import Biogo.Generated.KmerFacts

namespace Biogo.Properties.C10
open Biogo.Kmer Biogo.Spec.Kmer Biogo.Proofs.Kmer Biogo.Proofs.KmerIndex

/-- the constants the model assumes are the constants of the package as compiled -/
theorem facts_tie :
    Biogo.Generated.KmerFacts.kmerBits = wordBits ∧
    Biogo.Generated.KmerFacts.minKmerLen = minKmerLen ∧
    Biogo.Generated.KmerFacts.maxKmerLen = maxKmerLen ∧
    2 * maxKmerLen ≤ wordBits := by decide

/-- "Iterating k-mers over any sub-range visits exactly the valid windows of that range in
    increasing order": for every sequence, every `start`, `end` (in range or not) and every `k`
    that fits the word type, the callback arguments of `ForEachKmerOf` are the list
    `validWindows` of the plain scan; and no error is returned when the range is inside the
    sequence. -/
theorem foreach_spec {lk : Lookup} (hlk : FourLetter lk) (k : Nat) (hk : 1 ≤ k) (hk2 : 2 * k ≤ wordBits)
    (s : List UInt8) (start end_ : Nat) :
    (forEachKmer lk k s start end_).calls = validWindows lk k s start end_ ∧
    (start + (k - 1) ≤ s.length → end_ ≤ s.length → (forEachKmer lk k s start end_).err = false) :=
  ⟨forEachKmer_calls hlk k hk hk2 s start end_, forEachKmer_err lk k s start end_⟩

/-- what the list `validWindows` is: `(p, w)` is in it exactly when `p` lies in the range with its
    whole window (`start ≤ p`, `p + k ≤ end`) and the `k` letters at `p` are all valid and spell
    `w`; and the list is strictly increasing in `p`. -/
theorem validWindows_spec (lk : Lookup) (k : Nat) (s : List UInt8) (start end_ : Nat) :
    (∀ c : Nat × Nat, c ∈ validWindows lk k s start end_ ↔
      start ≤ c.1 ∧ c.1 + k ≤ end_ ∧ c.1 - start < (s.drop start).length ∧ wordAt lk k s c.1 = some c.2) ∧
    (validWindows lk k s start end_).Pairwise (fun a b => a.1 < b.1) := by
  constructor
  · intro c
    unfold validWindows wordAt
    rw [List.mem_filter, mem_wordsFrom_iff]
    constructor
    · rintro ⟨⟨h1, h2, h3⟩, h4⟩
      rw [List.drop_drop, show start + (c.1 - start) = c.1 by omega] at h3
      exact ⟨h1, by simpa using h4, h2, h3⟩
    · rintro ⟨h1, h2, h3, h4⟩
      refine ⟨⟨h1, h3, ?_⟩, by simpa using h2⟩
      rw [List.drop_drop, show start + (c.1 - start) = c.1 by omega]
      exact h4
  · exact (wordsFrom_pairwise lk k _ start).filter _

-- non-vacuity: a real lookup, a window with an invalid letter inside, a proper sub-range
example :
    let lk : Lookup := fun b => if b = 97 then some 0 else if b = 99 then some 1 else if b = 103 then some 2
      else if b = 116 then some 3 else none
    (forEachKmer lk 4 [97, 99, 103, 116, 110, 97, 97, 99, 103, 116, 116] 1 11).calls = [(5, 6), (6, 27), (7, 111)] := by
  decide

/-- supported parameters (`MinKmerLen ≤ k ≤ MaxKmerLen`, a sequence of at least `k+1` letters, a
    four-letter alphabet): `New` succeeds with the table of the callbacks of the whole sequence -/
theorem new_ok (lk : Lookup) (k : Nat) (s : List UInt8) (hk : minKmerLen ≤ k) (hk' : k ≤ maxKmerLen)
    (hs : k + 1 ≤ s.length) :
    new lk 4 k s = .ok { k, seq := s, finger := buildTable k (forEachKmer lk k s 0 s.length).calls,
                         pos := #[], indexed := false } := by
  unfold new newCheck
  rw [if_neg (by omega), if_neg (by omega), if_neg (by omega), if_neg (by omega)]

theorem supported_k {k : Nat} (hk : minKmerLen ≤ k) (hk' : k ≤ maxKmerLen) : 1 ≤ k ∧ 2 * k ≤ wordBits := by
  unfold minKmerLen at hk; unfold maxKmerLen at hk'; unfold wordBits; omega

/-- "the pre-build frequency table equals the occurrence counts": after `New`, finger entry `w`
    is the number of positions where word `w` occurs with no invalid letter inside it, and
    `KmerFrequencies` is the list of the non-zero counts. -/
theorem freq_spec {lk : Lookup} (hlk : FourLetter lk) (k : Nat) (s : List UInt8)
    (hk : minKmerLen ≤ k) (hk' : k ≤ maxKmerLen) (hs : k + 1 ≤ s.length) :
    ∃ ix, new lk 4 k s = .ok ix ∧
      (∀ w, w ≤ 4 ^ k → rd ix.finger w = frequency lk k s w) ∧
      kmerFrequencies ix = some ((List.range (4 ^ k + 1)).filterMap fun w =>
        if frequency lk k s w > 0 then some (w, frequency lk k s w) else none) := by
  obtain ⟨hk1, hk2⟩ := supported_k hk hk'
  refine ⟨_, new_ok lk k s hk hk' hs, ?_, ?_⟩
  · intro w hw
    simp only [new_finger hlk k hk1 hk2]
    rw [rd_buildTable k _ w (by rw [pow4_eq]; exact hw)]
    rfl
  · unfold kmerFrequencies
    simp only [new_finger hlk k hk1 hk2, Bool.false_eq_true, if_false]
    rw [collect_eq, List.append_nil, size_buildTable, pow4_eq]
    congr 1
    apply filterMap_congr'
    intro w hw
    rw [List.mem_range] at hw
    rw [rd_buildTable k _ w (by rw [pow4_eq]; omega)]
    rfl

/-- "after building the index the positions reported for each k-mer are exactly the positions
    where that word occurs with no invalid letter inside it" (as a list in increasing order —
    `occurrences` is the plain scan filtered by the word), for every word below `4^k`, word 0 and
    the last word included; a k-mer outside the range is rejected. -/
theorem positions_spec {lk : Lookup} (hlk : FourLetter lk) (k : Nat) (s : List UInt8)
    (hk : minKmerLen ≤ k) (hk' : k ≤ maxKmerLen) (hs : k + 1 ≤ s.length) :
    ∃ ix, new lk 4 k s = .ok ix ∧
      (∀ w, w < 4 ^ k → kmerPositions (build lk ix) w = .ok (occurrences lk k s w)) ∧
      (∀ w, 4 ^ k ≤ w → kmerPositions (build lk ix) w = .error .badKmer) := by
  obtain ⟨hk1, hk2⟩ := supported_k hk hk'
  refine ⟨_, new_ok lk k s hk hk' hs, ?_, ?_⟩
  · intro w hw
    have inv := build_inv hlk k hk1 hk2 s (by omega)
      { k, seq := s, finger := buildTable k (forEachKmer lk k s 0 s.length).calls, pos := #[], indexed := false }
      rfl rfl (new_finger hlk k hk1 hk2 s)
    rw [kmerPositions_of_inv _ k hk2 _ rfl inv w hw]
    rfl
  · intro w hw
    unfold kmerPositions
    have : (build lk { k, seq := s, finger := buildTable k (forEachKmer lk k s 0 s.length).calls,
                       pos := #[], indexed := false }).k = k := rfl
    rw [this, kMask_eq k hk2, if_pos (by have := four_pow_pos k; omega)]

/-- "words absent from the sequence report no positions" -/
theorem absent_spec (lk : Lookup) (k : Nat) (s : List UInt8) (w : Nat)
    (h : frequency lk k s w = 0) : occurrences lk k s w = [] := by
  apply List.eq_nil_of_length_eq_zero
  unfold occurrences; unfold frequency at h
  rw [List.length_map, ← List.countP_eq_length_filter]; exact h

-- non-vacuity of the hypotheses of `freq_spec` / `positions_spec`, and a concrete index:
-- "acgtnaacgtt" at k = 4 has the words acgt (27) at 0 and 6, aacg (6) at 5, cgtt (111) at 7
example :
    let lk : Lookup := fun b => if b = 97 then some 0 else if b = 99 then some 1 else if b = 103 then some 2
      else if b = 116 then some 3 else none
    FourLetter lk ∧ minKmerLen ≤ 4 ∧ 4 ≤ maxKmerLen ∧
    occurrences lk 4 [97, 99, 103, 116, 110, 97, 97, 99, 103, 116, 116] 27 = [0, 6] ∧
    occurrences lk 4 [97, 99, 103, 116, 110, 97, 97, 99, 103, 116, 116] 0 = [] := by
  refine ⟨?_, by decide, by decide, by decide, by decide⟩
  intro b d h
  simp only [] at h
  repeat' split at h
  all_goals first | (simp at h; omega) | simp at h

end Biogo.Properties.C10
