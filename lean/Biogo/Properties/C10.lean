/-
C10 — K-mer index returns exactly the occurrences of every k-mer.  Property theorems only.
-/
import Biogo.Model.Kmer
import Biogo.Spec.Kmer
import Biogo.Generated.KmerFacts

namespace Biogo.Properties.C10
open Biogo.Kmer Biogo.Spec.Kmer

/-- the constants the model assumes are the constants of the package as compiled -/
theorem facts_tie :
    Biogo.Generated.KmerFacts.kmerBits = wordBits ∧
    Biogo.Generated.KmerFacts.minKmerLen = minKmerLen ∧
    Biogo.Generated.KmerFacts.maxKmerLen = maxKmerLen ∧
    2 * maxKmerLen ≤ wordBits := by decide

end Biogo.Properties.C10
