/-
C17 — Alphabets map letters, indices and complements consistently.
Property theorems only.  Built-in alphabets: the definitions are regenerated from the
source (`Biogo.Generated.Alphabets`), and the laws are decided by the kernel over all
256 letters of every built-in alphabet.
-/
import Biogo.Model.Alphabet
import Biogo.Generated.Alphabets
import Biogo.Drive.C17
import Biogo.Proofs.Alphabet

namespace Biogo.Properties.C17
open Biogo.Alphabet

/-- membership in a definition, in either case for case-insensitive alphabets -/
def inDef (d : Def) (l : UInt8) : Bool := Biogo.Drive.C17.inDef d l

def isUpperB (b : UInt8) : Bool := 65 ≤ b && b ≤ 90
def isLowerB (b : UInt8) : Bool := 97 ≤ b && b ≤ 122

/-- All per-letter laws of C17 for a built-in alphabet, as one decidable statement. -/
def builtinLawsAt (d : Def) (l : UInt8) : Bool :=
  match d.build with
  | .error _ => false
  | .ok (a, p) =>
    -- valid exactly when the letter (in either case if uncased) is in the definition
    (a.isValid l == inDef d l)
    -- IndexOf negative exactly for invalid letters, and within 0..Len-1 otherwise
    && ((a.indexOf l < 0) == !a.isValid l)
    && (!a.isValid l || (0 ≤ a.indexOf l && a.indexOf l < a.length))
    -- Letter (IndexOf l) = l up to case (exactly, for case sensitive alphabets)
    && (!a.isValid l ||
          (match a.letter (a.indexOf l).toNat with
           | some x => if d.cased then x == l else toLower x == toLower l
           | none => false))
    && (match p with
        | none => d.pairS.isNone
        | some p =>
          let c := (p.complement l).1
          -- involution
          ((p.complement c).1 == l)
          -- valid letters go to valid letters
          && (!a.isValid l || a.isValid c)
          -- case preserving
          && (isUpperB l == isUpperB c) && (isLowerB l == isLowerB c)
          -- method and table forms agree (invalid pairs are marked by the high bit)
          && (p.complements l == if (p.complement l).2 then c else c ||| 128)
          -- four-letter nucleotide alphabets: index of complement = 3 - index
          && (!(d.nucleotide4 && a.isValid l) || a.indexOf c == 3 - a.indexOf l))

/-- Letter and IndexOf are mutually inverse on 0..Len-1, Len is the definition's length. -/
def builtinIndexLawsAt (d : Def) (i : Nat) : Bool :=
  match d.build with
  | .error _ => false
  | .ok (a, _) =>
    a.length == d.letters.length &&
    (match a.letter i with
     | some l => a.indexOf l == (i : Int) && a.isValid l
     | none => false)

theorem builtin_laws_nat :
    ∀ d ∈ Biogo.Generated.builtins, ∀ n < 256, builtinLawsAt d (UInt8.ofNat n) = true := by
  decide +kernel

/-- every built-in alphabet, every one of the 256 letter values -/
theorem builtin_laws (d : Def) (hd : d ∈ Biogo.Generated.builtins) (l : UInt8) :
    builtinLawsAt d l = true := by
  have h := builtin_laws_nat d hd l.toNat l.toNat_lt
  simpa using h

theorem builtin_index_laws :
    ∀ d ∈ Biogo.Generated.builtins, ∀ i < d.letters.length, builtinIndexLawsAt d i = true := by
  decide +kernel

/-- there are seven built-in alphabets and every one is accepted by its constructor -/
theorem builtins_accepted :
    Biogo.Generated.builtins.length = 7 ∧
    ∀ d ∈ Biogo.Generated.builtins, (match d.build with | .ok _ => true | .error _ => false) = true := by
  decide +kernel

-- non-vacuity: the quantifiers range over real letters
example : builtinLawsAt Biogo.Generated.alphaDNA 97 = true ∧
    (match Biogo.Generated.alphaDNA.build with
     | .ok (a, some p) => a.indexOf 97 == 0 && (p.complement 97).1 == 116 && a.indexOf 116 == 3
     | _ => false) = true := by decide +kernel

/-! ## Any definition

The theorems below are about the constructors themselves (`newAlphabet`, `newPairing`,
`newComplementor` of `Biogo.Model.Alphabet` — the functions the driver runs on the `na`, `np`,
`nc` cases and on the built-ins), for every definition, of any length. -/

section general
variable {ls : List UInt8} {g a : UInt8} {cased : Bool} {A : Alpha}

/-- "a letter is valid exactly when it (in either case, for case-insensitive alphabets)
    appears in the definition" — `inDefinition` is the predicate the driver evaluates on the
    implementation's output. -/
theorem valid_iff_mem (h : newAlphabet ls g a cased = .ok A) (l : UInt8) :
    A.isValid l = inDefinition cased ls l :=
  newAlphabet_valid h l

/-- case-sensitive: valid ⇔ a letter of the definition -/
theorem valid_iff_mem_cased (h : newAlphabet ls g a true = .ok A) (l : UInt8) :
    A.isValid l = true ↔ l ∈ ls := by
  rw [valid_iff_mem h]; simp [inDefinition]

/-- case-insensitive: valid ⇔ equal to a letter of the definition up to ASCII case -/
theorem valid_iff_mem_uncased (h : newAlphabet ls g a false = .ok A) (l : UInt8) :
    A.isValid l = true ↔ ∃ x ∈ ls, toLower x = toLower l := by
  rw [valid_iff_mem h]; simp [inDefinition]

/-- the hypothesis "distinct letters": distinct after lower-casing when the alphabet is not
    case sensitive -/
def Distinct (cased : Bool) (ls : List UInt8) : Prop :=
  if cased then ls.Nodup else (ls.map toLower).Nodup

/-- "IndexOf and Letter are mutually inverse on 0..Len-1" (1): `IndexOf (Letter i) = i`. -/
theorem indexOf_letter (h : newAlphabet ls g a cased = .ok A) (hd : Distinct cased ls)
    (i : Nat) (hi : i < A.length) :
    ∃ l, A.letter i = some l ∧ A.isValid l = true ∧ A.indexOf l = (i : Int) := by
  have hlen := (newAlphabet_ok h).1
  apply indexOf_letter_nodup h _ i (by omega)
  cases cased <;> simpa [Distinct, indexList] using hd

/-- "… mutually inverse" (2): for a valid `l`, `IndexOf l` lies in `0..Len-1` and
    `Letter (IndexOf l)` is `l` up to ASCII case — exactly `l` for a case-sensitive alphabet.
    (No distinctness needed.) -/
theorem letter_indexOf (h : newAlphabet ls g a cased = .ok A) (l : UInt8) (hv : A.isValid l = true) :
    0 ≤ A.indexOf l ∧ A.indexOf l < A.length ∧
    ∃ x, A.letter (A.indexOf l).toNat = some x ∧ toLower x = toLower l ∧ (cased = true → x = l) := by
  obtain ⟨h0, h1, h2⟩ := letter_indexOf_fold h l hv
  have hlen := (newAlphabet_ok h).1
  refine ⟨h0, by omega, foldOf cased l, h2, ?_, ?_⟩
  · cases cased <;> simp [foldOf, toLower_idem]
  · intro hc; simp [foldOf, hc]

/-- "IndexOf is negative for invalid letters" — and only for them. -/
theorem indexOf_neg_iff_invalid (h : newAlphabet ls g a cased = .ok A) (l : UInt8) :
    A.indexOf l < 0 ↔ A.isValid l = false :=
  indexOf_neg_iff h l

end general

/-- "AllValid reports the first invalid position", for any alphabet value and any slice:
    the answer is `(true, -1)` exactly when every letter is valid; an answer `(false, i)` names
    a position `i` inside the slice whose letter is invalid and before which every letter is
    valid; and there is no third kind of answer. -/
theorem allValid_first_invalid (a : Alpha) (ls : List Letter) :
    (a.allValid ls = (true, -1) ↔ ∀ l ∈ ls, a.isValid l = true) ∧
    (∀ i : Int, a.allValid ls = (false, i) →
      ∃ n : Nat, i = n ∧ n < ls.length ∧ ls[n]?.map a.isValid = some false ∧
        ∀ m < n, ls[m]?.map a.isValid = some true) ∧
    (a.allValid ls = (true, -1) ∨ ∃ n : Nat, a.allValid ls = (false, (n : Int))) := by
  have hspec := allValidFrom_spec a ls 0
  simp only [Alpha.allValid]
  have hfun : a.isValid = a.valid := rfl
  rw [hfun]
  rcases hspec with ⟨h1, h2⟩ | ⟨n, h1, h2, h3⟩
  · refine ⟨⟨fun _ => h2, fun _ => h1⟩, ?_, Or.inl h1⟩
    intro i hi; rw [h1] at hi; cases hi
  · have h1 : a.allValidFrom ls 0 = (false, (n : Int)) := by simpa using h1
    have hlt : n < ls.length := by
      cases hn : ls[n]? with
      | none => simp [hn] at h2
      | some x => exact (List.getElem?_eq_some_iff.mp hn).1
    refine ⟨⟨?_, ?_⟩, ?_, Or.inr ⟨n, h1⟩⟩
    · intro h; rw [h1] at h; cases h
    · intro hall
      obtain ⟨x, hx⟩ : ∃ x, ls[n]? = some x := ⟨ls[n], List.getElem?_eq_getElem hlt⟩
      have hmem : x ∈ ls := List.mem_of_getElem? hx
      rw [hx] at h2; simp only [Option.map_some, Option.some.injEq] at h2
      rw [hall x hmem] at h2; cases h2
    · intro i hi
      rw [h1] at hi
      injection hi with _ hi
      exact ⟨n, hi.symm, hlt, h2, h3⟩

section pairing
variable {s c : List UInt8} {p : Pairing}

/-- "the complement is … [an] involution": for any accepted pairing,
    `Complement (Complement l) = l` for all 256 letter values. -/
theorem complement_involutive (h : newPairing s c = .ok p) (l : UInt8) :
    (p.complement (p.complement l).1).1 = l := by
  obtain ⟨hlen, _, _, hp, _, hchk, _⟩ := newPairing_ok h
  simp only [Pairing.complement, hp]
  exact pairTable_involutive_of_check s c (checkBijection_mem _ s c hlen hchk) l

/-- "its method and table forms agree": the table holds the method's letter, with the high
    bit set exactly when the method reports `ok = false`. -/
theorem table_agrees_method (h : newPairing s c = .ok p) (l : UInt8) :
    p.complements l = if (p.complement l).2 then (p.complement l).1 else (p.complement l).1 ||| 128 := by
  obtain ⟨_, _, _, _, _, _, hcomp⟩ := newPairing_ok h
  simp only [Pairing.complement]
  exact congrFun hcomp l

/-- the complementing alphabet keeps the pairing it was given, so the two laws above hold for
    the value `NewComplementor` returns -/
theorem newComplementor_pairing {n : Nucleic} {g a : UInt8} {cased : Bool} {ls : List UInt8}
    (h : newComplementor ls p g a cased = .ok n) :
    n.pairing = p ∧ newAlphabet ls g a cased = .ok n.alpha := by
  unfold newComplementor at h
  split at h
  · cases h
  · rename_i A hA
    split at h
    · injection h with h; subst h; exact ⟨rfl, hA⟩
    · cases h

/-- The acceptance test of `NewComplementor` never fails: a letter without a pairing keeps
    itself as complement (so `i&0x7f == v&0x7f`), a letter with one has `ok = true`, and either
    makes the first conjunct of the test false.  `NewComplementor` therefore accepts every
    pairing `NewPairing` accepts, whatever the alphabet — which is why "valid letters go to valid
    letters" and "case preserving" are *not* theorems about arbitrary complementors (witnesses
    below); they are proved for the built-ins (`builtin_laws`). -/
theorem newComplementor_accepts_every_pairing {ls : List UInt8} {g a : UInt8} {cased : Bool} {A : Alpha}
    (hp : newPairing s c = .ok p) (hA : newAlphabet ls g a cased = .ok A) :
    newComplementor ls p g a cased = .ok { alpha := A, pairing := p } := by
  obtain ⟨_, _, _, hpair, hok, _, _⟩ := newPairing_ok hp
  have hall : allBytes.all (pairAcceptable A p) = true := by
    rw [List.all_eq_true]
    intro i _
    simp only [pairAcceptable]
    cases hoki : p.ok i with
    | true => simp
    | false =>
      have : p.pair i = i := by
        rw [hok] at hoki
        have := (fillPairs_ok_false s c initPairs i hoki).1
        rw [hpair]; simpa [pairTable, initPairs] using this
      simp [this]
  simp [newComplementor, hA, hall]

/-- "constructors reject non-ASCII definitions" -/
theorem rejects_nonASCII (ls : List UInt8) (g a : UInt8) (cased : Bool) (p : Pairing)
    (h : ∃ b ∈ ls, b ≥ 128) :
    newAlphabet ls g a cased = .error .nonASCII ∧
    newComplementor ls p g a cased = .error .nonASCII := by
  have hany : ls.any (fun b => b ≥ 128) = true := by
    obtain ⟨b, hb, hge⟩ := h
    exact List.any_eq_true.mpr ⟨b, hb, by simpa using hge⟩
  have h1 : newAlphabet ls g a cased = .error .nonASCII := by simp [newAlphabet, hany]
  exact ⟨h1, by simp [newComplementor, h1]⟩

/-- … and non-ASCII pairing definitions -/
theorem rejects_nonASCII_pairing (hlen : s.length = c.length) (h : ∃ b ∈ s ++ c, b ≥ 128) :
    newPairing s c = .error .pairNonASCII := by
  obtain ⟨b, hb, hge⟩ := h
  have : (s.any (· ≥ 128) || c.any (· ≥ 128)) = true := by
    rcases List.mem_append.mp hb with hb | hb
    · exact Bool.or_eq_true _ _ |>.mpr (Or.inl (List.any_eq_true.mpr ⟨b, hb, by simpa using hge⟩))
    · exact Bool.or_eq_true _ _ |>.mpr (Or.inr (List.any_eq_true.mpr ⟨b, hb, by simpa using hge⟩))
  simp [newPairing, hlen, this]

/-- "constructors reject … mismatched … pairings" -/
theorem rejects_length_mismatch (h : s.length ≠ c.length) :
    newPairing s c = .error .lengthMismatch := by
  simp [newPairing, h]

/-- A pairing of equal-length ASCII strings is accepted exactly when the table it defines
    (`pair[s[i]] = c[i]`, last write wins, identity elsewhere) is an involution of the 256
    letter values … -/
theorem accepts_iff_involution (hlen : s.length = c.length) (hascii : ∀ b ∈ s ++ c, b < 128) :
    (∃ p, newPairing s c = .ok p) ↔ ∀ x, pairTable s c (pairTable s c x) = x := by
  constructor
  · rintro ⟨p, h⟩ x
    obtain ⟨_, _, _, _, _, hchk, _⟩ := newPairing_ok h
    exact pairTable_involutive_of_check s c (checkBijection_mem _ s c hlen hchk) x
  · intro hinv
    have hchk := checkBijection_of_involutive (pairTable s c) s c hinv
    have h1 : (s.any (· ≥ 128) || c.any (· ≥ 128)) = false := by
      rw [Bool.or_eq_false_iff]
      constructor <;>
      · rw [List.any_eq_false]
        intro x hx
        have := hascii x (List.mem_append.mpr (by first | exact Or.inl hx | exact Or.inr hx))
        simp only [ge_iff_le, decide_eq_true_eq, UInt8.not_le]; exact this
    unfold pairTable at hchk
    simp only [newPairing, hlen, ne_eq, not_true_eq_false, if_false, h1, Bool.false_eq_true, hchk, if_true]
    exact ⟨_, rfl⟩

/-- "constructors reject … non-bijective pairings": if the table is not injective (two letters
    share a complement) the pairing is rejected with the "not a bijection" error.  (So is every
    bijection that is not an involution, by `accepts_iff_involution`.) -/
theorem rejects_non_bijection (hlen : s.length = c.length) (hascii : ∀ b ∈ s ++ c, b < 128)
    (h : ¬ Function.Injective (pairTable s c)) :
    newPairing s c = .error .notBijection := by
  have hno : ¬ ∃ p, newPairing s c = .ok p := by
    intro hp
    have hinv := (accepts_iff_involution hlen hascii).mp hp
    apply h
    intro x y hxy
    rw [← hinv x, ← hinv y, hxy]
  -- the only remaining outcome
  have h1 : (s.any (· ≥ 128) || c.any (· ≥ 128)) = false := by
    rw [Bool.or_eq_false_iff]
    constructor <;>
    · rw [List.any_eq_false]
      intro x hx
      have := hascii x (List.mem_append.mpr (by first | exact Or.inl hx | exact Or.inr hx))
      simp only [ge_iff_le, decide_eq_true_eq, UInt8.not_le]; exact this
  cases hc : checkBijection (fillPairs s c initPairs).pair s c with
  | true =>
    exfalso; apply hno
    simp only [newPairing, hlen, ne_eq, not_true_eq_false, if_false, h1, Bool.false_eq_true, hc, if_true]
    exact ⟨_, rfl⟩
  | false =>
    simp only [newPairing, hlen, ne_eq, not_true_eq_false, if_false, h1, Bool.false_eq_true, hc]

/-- The second test of the check loop (`c[i] == pair[pair[c[i]]]`) never decides: if every
    letter of `s` passes the first test, the pairing is accepted. -/
theorem second_bijection_test_redundant (hlen : s.length = c.length) (hascii : ∀ b ∈ s ++ c, b < 128)
    (h : ∀ l ∈ s, pairTable s c (pairTable s c l) = l) : ∃ p, newPairing s c = .ok p :=
  (accepts_iff_involution hlen hascii).mpr (pairTable_involutive_of_check s c h)

end pairing

-- non-vacuity: the hypotheses are satisfied by real definitions, cased and not, and by a
-- real pairing; a non-injective pairing and a 3-cycle are rejected
example : (match newAlphabet [97, 99, 103, 116] 45 110 false with
    | .ok A => A.isValid 65 && A.indexOf 84 == 3 && A.letter 3 == some 116 | .error _ => false) = true ∧
    Distinct false [97, 99, 103, 116] ∧ Distinct true [65, 97] ∧ ¬ Distinct false [65, 97] := by
  refine ⟨by decide +kernel, ?_, ?_, ?_⟩ <;> simp [Distinct, toLower] <;> decide
example : (match newPairing [97, 116] [116, 97] with | .ok p => p.pair 97 == 116 | .error _ => false) = true ∧
    (match newPairing [97, 98] [99, 99] with | .error e => e == .notBijection | .ok _ => false) = true ∧
    (match newPairing [97, 98, 99] [98, 99, 97] with | .error e => e == .notBijection | .ok _ => false) = true := by
  decide +kernel

/-- Not general (refutation witnesses on the model, replayed on the implementation by the `nc`
    corpus lines): the alphabet "ab" with the accepted pairing a↔c is accepted, `a` is valid and
    its complement `c` is not; the accepted pairing a↔G is not case preserving. -/
theorem complement_valid_not_general :
    (match newPairing [97, 99] [99, 97] with
     | .ok p =>
       (match newComplementor [97, 98] p 45 110 true with
        | .ok n => n.alpha.isValid 97 && !n.alpha.isValid (n.pairing.complement 97).1
        | .error _ => false)
     | .error _ => false) = true ∧
    (match newPairing [97, 71] [71, 97] with
     | .ok p => isLowerB 97 && !isLowerB (p.complement 97).1
     | .error _ => false) = true := by decide +kernel

end Biogo.Properties.C17
