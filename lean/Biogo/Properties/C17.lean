/-
C17 — Alphabets map letters, indices and complements consistently.
Property theorems only.  Built-in alphabets: the definitions are regenerated from the
source (`Biogo.Generated.Alphabets`), and the laws are decided by the kernel over all
256 letters of every built-in alphabet.
-/
import Biogo.Model.Alphabet
import Biogo.Generated.Alphabets
import Biogo.Drive.C17

namespace Biogo.Properties.C17
open Biogo.Alphabet

/-- membership in a definition, in either case for case-insensitive alphabets -/
def inDef (d : Def) (l : UInt8) : Bool := Biogo.Drive.C17.inDef d l

def isUpperB (b : UInt8) : Bool := 65 ≤ b && b ≤ 90
def isLowerB (b : UInt8) : Bool := 97 ≤ b && b ≤ 122

/-- All per-letter laws of C17 for a built-in alphabet, as one decidable statement. -/
def builtinLawsAt (d : Def) (l : UInt8) : Bool :=
  match d.build with
  | .error _ => false
  | .ok (a, p) =>
    -- valid exactly when the letter (in either case if uncased) is in the definition
    (a.isValid l == inDef d l)
    -- IndexOf negative exactly for invalid letters, and within 0..Len-1 otherwise
    && ((a.indexOf l < 0) == !a.isValid l)
    && (!a.isValid l || (0 ≤ a.indexOf l && a.indexOf l < a.length))
    -- Letter (IndexOf l) = l up to case (exactly, for case sensitive alphabets)
    && (!a.isValid l ||
          (match a.letter (a.indexOf l).toNat with
           | some x => if d.cased then x == l else toLower x == toLower l
           | none => false))
    && (match p with
        | none => d.pairS.isNone
        | some p =>
          let c := (p.complement l).1
          -- involution
          ((p.complement c).1 == l)
          -- valid letters go to valid letters
          && (!a.isValid l || a.isValid c)
          -- case preserving
          && (isUpperB l == isUpperB c) && (isLowerB l == isLowerB c)
          -- method and table forms agree (invalid pairs are marked by the high bit)
          && (p.complements l == if (p.complement l).2 then c else c ||| 128)
          -- four-letter nucleotide alphabets: index of complement = 3 - index
          && (!(d.nucleotide4 && a.isValid l) || a.indexOf c == 3 - a.indexOf l))

/-- Letter and IndexOf are mutually inverse on 0..Len-1, Len is the definition's length. -/
def builtinIndexLawsAt (d : Def) (i : Nat) : Bool :=
  match d.build with
  | .error _ => false
  | .ok (a, _) =>
    a.length == d.letters.length &&
    (match a.letter i with
     | some l => a.indexOf l == (i : Int) && a.isValid l
     | none => false)

theorem builtin_laws_nat :
    ∀ d ∈ Biogo.Generated.builtins, ∀ n < 256, builtinLawsAt d (UInt8.ofNat n) = true := by
  decide +kernel

/-- every built-in alphabet, every one of the 256 letter values -/
theorem builtin_laws (d : Def) (hd : d ∈ Biogo.Generated.builtins) (l : UInt8) :
    builtinLawsAt d l = true := by
  have h := builtin_laws_nat d hd l.toNat l.toNat_lt
  simpa using h

theorem builtin_index_laws :
    ∀ d ∈ Biogo.Generated.builtins, ∀ i < d.letters.length, builtinIndexLawsAt d i = true := by
  decide +kernel

/-- there are seven built-in alphabets and every one is accepted by its constructor -/
theorem builtins_accepted :
    Biogo.Generated.builtins.length = 7 ∧
    ∀ d ∈ Biogo.Generated.builtins, (match d.build with | .ok _ => true | .error _ => false) = true := by
  decide +kernel

-- non-vacuity: the quantifiers range over real letters
example : builtinLawsAt Biogo.Generated.alphaDNA 97 = true ∧
    (match Biogo.Generated.alphaDNA.build with
     | .ok (a, some p) => a.indexOf 97 == 0 && (p.complement 97).1 == 116 && a.indexOf 116 == 3
     | _ => false) = true := by decide +kernel

end Biogo.Properties.C17
