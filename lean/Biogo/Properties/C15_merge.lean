/-
C15, part `merge` — the contract of the merger between the q-gram filter and the DP aligner
(`align/pals/filter/merge.go`, `trapezoid.go`), for the model `Biogo.PalsMerge` that the driver
runs against `filter.Merger` (`Drive/C15_merge.lean`).

* every filter hit handed to the merger (outside the self-comparison cut) lies inside one of the
  returned trapezoids — diagonal band and query interval (`merger_covers_hits`);
* the returned trapezoids are in ascending `Bottom` and well-formed (`merger_output_sorted`,
  `merger_output_wellformed`);
* in a self comparison every returned trapezoid satisfies `Left - maxIGap > MaxError`, for every
  input whatsoever (`merger_self_clear_of_diagonal`) — the invariant the third first-wave repair
  relies on: the aligner's widening by `maxIGap` diagonals cannot reach the main diagonal;
* inside the modelled domain the merger always answers (`merger_total`), and on sequences without
  invalid letters the two clipping passes change nothing (`clipping_is_identity_on_valid`).
-/
import Biogo.Proofs.PalsMerge
import Biogo.Proofs.PalsMergeClip
import Biogo.Generated.PalsMergeFacts

namespace Biogo.Properties.C15_merge
open Biogo.PalsMerge Biogo.Proofs.PalsMerge

/-- The padding constant of the model is the one in `merge.go` (regenerated on every run). -/
theorem merge_source_facts :
    Biogo.Generated.PalsMerge.diagonalPadding = diagonalPadding := by decide

/-- the hypotheses under which the merger's contract is stated: a band at least one diagonal
    wide (`TubeOffset + MaxError ≥ 1`), `maxIGap ≥ 1`, no invalid letter in either sequence (C15's
    standing assumption; with `N` runs the clipping passes cut trapezoids on purpose), hits in
    ascending `From` (the morass hands them over sorted by `Hit.Less`) with `From ≤ To` -/
structure Pre (c : Cfg) (hits : List FHit) : Prop where
  band : 0 ≤ c.binWidth
  gap : 1 ≤ c.maxIGap
  qvalid : AllValid c.qv
  tvalid : AllValid c.tv
  sorted : SortedByFrom hits
  ordered : ∀ h ∈ hits, h.from_ ≤ h.to

/-- what `merge` returns, in terms of the state after the last `MergeFilterHit` -/
theorem merge_some {c : Cfg} {hits : List FHit} {traps : List Trap} (h : merge c hits = some traps) :
    ∃ s, mergeAll c St.init hits = some s ∧ traps = finalise c s := by
  unfold merge at h
  cases hm : mergeAll c St.init hits with
  | none => rw [hm] at h; cases h
  | some s => rw [hm] at h; simp only [Option.map_some, Option.some.injEq] at h; exact ⟨s, rfl, h.symm⟩

/-- the state after the last hit, under `Pre`: the invariant, the hits covered, well-formedness -/
theorem merged_state {c : Cfg} {hits : List FHit} (pre : Pre c hits) {s : St}
    (hm : mergeAll c St.init hits = some s) :
    (∀ h ∈ hits, dropped c h = false → ∃ t, (t ∈ s.active ∨ t ∈ s.done) ∧ Holds c t (-h.diagonal) h.to h.from_) ∧
    (∀ t, t ∈ s.active ∨ t ∈ s.done → t.bottom ≤ t.top ∧ t.left + c.binWidth ≤ t.right) := by
  have hwf := mergeAll_forall c (fun t => t.bottom ≤ t.top)
    (by intro x y hx hy; show (absorb x y).bottom ≤ (absorb x y).top
        rw [absorb_bottom, absorb_top]; omega)
    hits St.init s
    (fun h hh _ => ⟨pre.ordered h hh, by
      intro t ht; show (widen c _ _ t).bottom ≤ (widen c _ _ t).top
      unfold widen; dsimp only; split <;> omega⟩)
    (by simp [St.init]) (by simp [St.init]) hm
  cases hits with
  | nil =>
    simp only [mergeAll, Option.some.injEq] at hm
    subst hm
    simp [St.init]
  | cons h0 hs =>
    have hB : ∀ h ∈ h0 :: hs, h0.from_ ≤ h.from_ := by
      intro h hh
      rcases List.mem_cons.mp hh with e | e
      · subst e; exact Int.le_refl _
      · exact (List.pairwise_cons.mp pre.sorted).1 h e
    obtain ⟨⟨B', inv⟩, _, hold⟩ := mergeAll_spec c pre.band (h0 :: hs) St.init s h0.from_
      ⟨Good.nil c _, by simp [St.init]⟩ hB pre.sorted hm
    refine ⟨?_, ?_⟩
    · intro h hh hc
      obtain ⟨t, ht, hh'⟩ := hold h hh hc
      exact ⟨t, List.mem_append.mp ht, hh'⟩
    · intro t ht
      rcases ht with ht | ht
      · exact ⟨hwf.1 t ht, inv.good.wide t ht⟩
      · exact ⟨hwf.2 t ht, inv.doneWide t ht⟩

/-- **On sequences without invalid letters the two clipping passes change nothing**: the slice
    `FinaliseMerge` sorts is the merged list itself. -/
theorem clipping_is_identity_on_valid (c : Cfg) (hits : List FHit) (pre : Pre c hits) (s : St)
    (hm : mergeAll c St.init hits = some s) : finalList c s = s.active.reverse ++ s.done := by
  have hw := (merged_state pre hm).2
  unfold finalList
  rw [clipVertical_valid c pre.gap pre.qvalid, clipTrapezoids_valid c pre.gap pre.tvalid]
  intro t ht
  have := hw t (by simpa using ht)
  have hb := pre.band
  omega

/-- **`merger_covers_hits`** — every filter hit handed to the merger that is not dropped at the head
    of `MergeFilterHit` (`dropped`: the self-comparison cut, or — since the repair of the sixth
    defect — a band that starts beyond the last query row, `-Diagonal > Qlen`, which holds no cell of
    the comparison) is contained in some returned trapezoid: the trapezoid's diagonal range
    `[Left, Right]` contains the hit's band `[-Diagonal, -Diagonal + binWidth]` and its query
    range `[Bottom, Top]` contains `[From, To]`. -/
theorem merger_covers_hits (c : Cfg) (hits : List FHit) (traps : List Trap) (pre : Pre c hits)
    (hm : merge c hits = some traps) :
    ∀ h ∈ hits, dropped c h = false →
      ∃ t ∈ traps, t.left ≤ -h.diagonal ∧ -h.diagonal + c.binWidth ≤ t.right ∧
        t.bottom ≤ h.from_ ∧ h.to ≤ t.top := by
  obtain ⟨s, hs, rfl⟩ := merge_some hm
  intro h hh hc
  obtain ⟨t, ht, hold⟩ := (merged_state pre hs).1 h hh hc
  refine ⟨t, ?_, hold⟩
  unfold finalise
  rw [mem_sortByBottom, clipping_is_identity_on_valid c hits pre s hs]
  simpa using ht

/-- **`merger_output_sorted`** — the returned trapezoids are in ascending `Bottom` (for every
    input; `sort.Sort` is modelled by an insertion sort, the driver checks the implementation's
    slice for the same order). -/
theorem merger_output_sorted (c : Cfg) (hits : List FHit) (traps : List Trap)
    (hm : merge c hits = some traps) : traps.Pairwise (fun a b => a.bottom ≤ b.bottom) := by
  obtain ⟨s, _, rfl⟩ := merge_some hm
  exact sortByBottom_sorted _

/-- **`merger_output_wellformed`** — every returned trapezoid has `Bottom ≤ Top` and is at least
    a band wide (`Left + binWidth ≤ Right`, in particular `Left ≤ Right`). -/
theorem merger_output_wellformed (c : Cfg) (hits : List FHit) (traps : List Trap) (pre : Pre c hits)
    (hm : merge c hits = some traps) :
    ∀ t ∈ traps, t.bottom ≤ t.top ∧ t.left + c.binWidth ≤ t.right := by
  obtain ⟨s, hs, rfl⟩ := merge_some hm
  intro t ht
  unfold finalise at ht
  rw [mem_sortByBottom, clipping_is_identity_on_valid c hits pre s hs] at ht
  exact (merged_state pre hs).2 t (by simpa using ht)

/-- **`merger_self_clear_of_diagonal`** — in a self comparison every returned trapezoid satisfies
    `Left - maxIGap > MaxError`: whatever hits are handed over, in whatever order, with or without
    invalid letters, the band `[Left - maxIGap, Right + maxIGap]` the aligner works in stays
    strictly above the main diagonal (`MaxError ≥ 0`). -/
theorem merger_self_clear_of_diagonal (c : Cfg) (hself : c.selfComparison = true) (hits : List FHit)
    (traps : List Trap) (hm : merge c hits = some traps) :
    ∀ t ∈ traps, t.left - c.maxIGap > c.maxError := by
  obtain ⟨s, hs, rfl⟩ := merge_some hm
  have inv := mergeAll_forall c (fun t => t.left - c.maxIGap > c.maxError)
    (by intro x y hx _; exact hx)
    hits St.init s
    (by intro h _ hc
        unfold dropped at hc
        simp only [Bool.or_eq_false_iff] at hc
        replace hc := hc.2
        unfold selfCut at hc
        rw [hself] at hc
        simp only [Bool.true_and, decide_eq_false_iff_not] at hc
        refine ⟨show -h.diagonal - c.maxIGap > c.maxError by omega, ?_⟩
        intro t ht
        show (widen c _ _ t).left - c.maxIGap > c.maxError
        rw [widen_left]
        omega)
    (by simp [St.init]) (by simp [St.init]) hs
  intro t ht
  unfold finalise at ht
  rw [mem_sortByBottom] at ht
  obtain ⟨t0, ht0, hl, _⟩ := finalList_diag c s t ht
  have := (show t0.left - c.maxIGap > c.maxError from by
    rcases ht0 with h | h
    · exact inv.1 t0 h
    · exact inv.2 t0 h)
  omega

/-- **`merger_output_within_rows`** — under `Pre`, when every hit has `0 ≤ From` and `To ≤ Qlen`
    (the filter's hits lie inside the query), every returned trapezoid has `0 ≤ Bottom` and
    `Top ≤ Qlen`: with `merger_output_wellformed` this is the hypothesis `TrapsIn` of the kernel
    theorems (`kernel_model_hits_under_contract`). -/
theorem merger_output_within_rows (c : Cfg) (hits : List FHit) (traps : List Trap) (pre : Pre c hits)
    (hin : ∀ h ∈ hits, 0 ≤ h.from_ ∧ h.to ≤ c.qlen) (hm : merge c hits = some traps) :
    ∀ t ∈ traps, 0 ≤ t.bottom ∧ t.top ≤ c.qlen := by
  obtain ⟨s, hs, rfl⟩ := merge_some hm
  have inv := mergeAll_forall c (fun t => 0 ≤ t.bottom ∧ t.top ≤ c.qlen)
    (by intro x y hx hy
        show 0 ≤ (absorb x y).bottom ∧ (absorb x y).top ≤ c.qlen
        rw [absorb_bottom, absorb_top]; omega)
    hits St.init s
    (by intro h hh _
        have := hin h hh
        refine ⟨by simp only [fresh]; omega, ?_⟩
        intro t ht
        show 0 ≤ (widen c _ _ t).bottom ∧ (widen c _ _ t).top ≤ c.qlen
        unfold widen; dsimp only
        refine ⟨ht.1, ?_⟩
        split <;> omega)
    (by simp [St.init]) (by simp [St.init]) hs
  intro t ht
  unfold finalise at ht
  rw [mem_sortByBottom, clipping_is_identity_on_valid c hits pre s hs] at ht
  simp only [List.mem_append, List.mem_reverse] at ht
  rcases ht with h | h
  · exact inv.1 t h
  · exact inv.2 t h

/-- **`clipping_never_grows`** — for arbitrary letters (runs of `N` anywhere in query or target),
    arbitrary hits in any order, `maxIGap ≥ 1`: every trapezoid `FinaliseMerge` returns lies —
    query rows *and* diagonal range — inside one of the trapezoids the merge walk built
    (`s.active`, `s.done`): neither `clipVertical` nor `clipTrapezoids` ever grows a trapezoid.
    (The diagonal half is `finalList_diag`, which `merger_self_clear_of_diagonal` uses; the vertical
    half is new: the scan cuts at positions inside `[Bottom, Top]` only.) -/
theorem clipping_never_grows (c : Cfg) (hg : 1 ≤ c.maxIGap) (hits : List FHit) (traps : List Trap)
    (hm : merge c hits = some traps) :
    ∃ s, mergeAll c St.init hits = some s ∧
      ∀ t ∈ traps, ∃ t0, (t0 ∈ s.active ∨ t0 ∈ s.done) ∧
        t0.bottom ≤ t.bottom ∧ t.top ≤ t0.top ∧ t0.left ≤ t.left ∧ t.right ≤ t0.right := by
  obtain ⟨s, hs, rfl⟩ := merge_some hm
  refine ⟨s, hs, ?_⟩
  intro t ht
  unfold finalise at ht
  rw [mem_sortByBottom] at ht
  exact finalList_within c hg s t ht

/-- **`merger_output_rows_any_letters`** — hence, whatever the letters and the order of the hits:
    when every hit has `0 ≤ From` and `To ≤ Qlen`, every returned trapezoid has `0 ≤ Bottom` and
    `Top ≤ Qlen` (`merger_output_within_rows` without the assumption that no letter is invalid). -/
theorem merger_output_rows_any_letters (c : Cfg) (hg : 1 ≤ c.maxIGap) (hits : List FHit) (traps : List Trap)
    (hin : ∀ h ∈ hits, 0 ≤ h.from_ ∧ h.to ≤ c.qlen) (hm : merge c hits = some traps) :
    ∀ t ∈ traps, 0 ≤ t.bottom ∧ t.top ≤ c.qlen := by
  obtain ⟨s, hs, hall⟩ := clipping_never_grows c hg hits traps hm
  have inv := mergeAll_forall c (fun t => 0 ≤ t.bottom ∧ t.top ≤ c.qlen)
    (by intro x y hx hy
        show 0 ≤ (absorb x y).bottom ∧ (absorb x y).top ≤ c.qlen
        rw [absorb_bottom, absorb_top]; omega)
    hits St.init s
    (by intro h hh _
        have := hin h hh
        refine ⟨by simp only [fresh]; omega, ?_⟩
        intro t ht
        show 0 ≤ (widen c _ _ t).bottom ∧ (widen c _ _ t).top ≤ c.qlen
        unfold widen; dsimp only
        refine ⟨ht.1, ?_⟩
        split <;> omega)
    (by simp [St.init]) (by simp [St.init]) hs
  intro t ht
  obtain ⟨t0, ht0, h1, h2, _, _⟩ := hall t ht
  have := (show 0 ≤ t0.bottom ∧ t0.top ≤ c.qlen from by
    rcases ht0 with h | h
    · exact inv.1 t0 h
    · exact inv.2 t0 h)
  omega

/-- **`merger_total`** — inside the modelled domain (every hit either dropped at the head of
    `MergeFilterHit` or with `From - bottomPadding ≤ Qlen + 1`, which every hit of `filter.Filter`
    satisfies: `filter_hits_in_merger_domain`) the model never answers `none`: the sentinel of the
    active list stays an inert end marker.  (Before the repair of the sixth defect the domain also
    needed `-Diagonal ≤ Qlen`, and `filter.Filter` does produce hits beyond it.) -/
theorem merger_total (c : Cfg) (hits : List FHit)
    (hdom : ∀ h ∈ hits, dropped c h = true ∨ inDomain c h = true) : ∃ traps, merge c hits = some traps := by
  obtain ⟨s, hs⟩ := mergeAll_total c hits St.init hdom (by simp [St.init]) (by simp [St.init])
  exact ⟨finalise c s, by unfold merge; rw [hs]; rfl⟩

/-! ### non-vacuity: the hypotheses are satisfiable and the model reproduces the golden result
of the repository's own `TestFilterAndMerge` (`filter_test.go`: de Bruijn target of 4096 letters,
query of 1024, `k = 6`, `MaxError = 4`, `TubeOffset = 32`, `maxIGap = 5`) -/

def testCfg : Cfg :=
  { qv := Array.replicate 1024 true, tv := Array.replicate 4096 true, k := 6, maxError := 4,
    tubeOffset := 32, maxIGap := 5, selfComparison := false }

def testHits : List FHit :=
  [⟨0, 163, 32⟩, ⟨141, 247, 64⟩, ⟨237, 433, 1120⟩, ⟨241, 347, 96⟩, ⟨341, 452, 128⟩, ⟨447, 565, 1952⟩,
   ⟨542, 628, 1984⟩, ⟨627, 814, 2592⟩, ⟨786, 898, 2624⟩, ⟨868, 939, 2880⟩, ⟨938, 997, 3040⟩, ⟨938, 1024, 3072⟩]

theorem testPre : Pre testCfg testHits where
  band := by decide
  gap := by decide
  qvalid := by
    intro i hi
    have : i < 1024 := by simpa [testCfg] using hi
    simp [testCfg, Array.getD, this]
  tvalid := by
    intro i hi
    have : i < 4096 := by simpa [testCfg] using hi
    simp [testCfg, Array.getD, this]
  sorted := by unfold SortedByFrom; decide
  ordered := by decide

/-- the state after the twelve `MergeFilterHit` calls -/
theorem test_mergeAll : mergeAll testCfg St.init testHits = some
    ⟨[⟨1024, 938, -3072, -3005⟩, ⟨939, 868, -2880, -2845⟩, ⟨898, 627, -2624, -2557⟩,
      ⟨628, 447, -1984, -1917⟩, ⟨452, 0, -128, 3⟩], [⟨433, 237, -1120, -1085⟩]⟩ := by decide +kernel

/-- the six trapezoids `TestFilterAndMerge` expects (the clipping passes are discharged by
    `clipping_is_identity_on_valid` instead of being evaluated letter by letter) -/
example : merge testCfg testHits = some
    [⟨452, 0, -128, 3⟩, ⟨433, 237, -1120, -1085⟩, ⟨628, 447, -1984, -1917⟩, ⟨898, 627, -2624, -2557⟩,
     ⟨939, 868, -2880, -2845⟩, ⟨1024, 938, -3072, -3005⟩] := by
  unfold merge
  rw [test_mergeAll, Option.map_some]
  unfold finalise
  rw [clipping_is_identity_on_valid testCfg testHits testPre _ test_mergeAll]
  decide +kernel

/-- self comparison, `MaxError = 2`, `maxIGap = 5`: the hit with `Left = 7` is cut, the one with
    `Left = 8` is kept -/
example : merge { qv := Array.replicate 100 true, tv := Array.replicate 100 true, k := 4, maxError := 2,
                  tubeOffset := 8, maxIGap := 5, selfComparison := true } [⟨10, 30, -7⟩, ⟨12, 40, -8⟩]
    = some [⟨40, 12, 8, 17⟩] := by decide +kernel

/-- non-vacuity of `clipping_never_grows` with a clip that really cuts: a run of six invalid query
    letters at `[20, 26)` splits the trapezoid `40:0:2:5` of the single hit into `20:0:2:5` and
    `40:26:2:5`, both within its rows -/
example : merge { qv := Array.replicate 20 true ++ Array.replicate 6 false ++ Array.replicate 20 true,
                  tv := Array.replicate 60 true, k := 4, maxError := 0, tubeOffset := 4, maxIGap := 5,
                  selfComparison := false } [⟨0, 40, -2⟩]
    = some [⟨20, 0, 2, 5⟩, ⟨40, 26, 2, 5⟩] := by decide +kernel

end Biogo.Properties.C15_merge
