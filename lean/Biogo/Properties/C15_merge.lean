/-
C15, part `merge` — the contract of the merger between the q-gram filter and the DP aligner.
-/
import Biogo.Model.PalsMerge
import Biogo.Generated.PalsMergeFacts

namespace Biogo.Properties.C15_merge
open Biogo.PalsMerge

end Biogo.Properties.C15_merge
