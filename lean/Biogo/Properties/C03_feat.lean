/-
C03 (part feat) — the BED (each column count) and GFF readers are total.
Property theorems only; they are about `Biogo.Bed.readAll` / `Biogo.Gff.readAll`, the
functions the driver runs.
-/
import Biogo.Model.Bed
import Biogo.Model.Gff

namespace Biogo.Properties.C03_feat
open Biogo.BytesFeat

theorem bed_readLines_length (n : Nat) (ls : List Bytes) (k : Nat) :
    (Bed.readLines n ls k).length ≤ ls.length + 1 := by
  induction ls generalizing k with
  | nil => simp [Bed.readLines]
  | cons l ls ih =>
    simp only [Bed.readLines]
    split
    · simp
    · simp only [List.length_cons]
      have := ih (k + 1)
      omega

/-- C03 "the call sequence reaches io.EOF (or another error) within one call per input line
    plus one", BED reader of any width, every byte string. -/
theorem bed_progress (n : Nat) (bs : Bytes) :
    (Bed.readAll n bs).length ≤ (lines bs).length + 1 :=
  by simpa [Bed.trimmedLines, Bed.readAll] using bed_readLines_length n (Bed.trimmedLines bs) 0

end Biogo.Properties.C03_feat
