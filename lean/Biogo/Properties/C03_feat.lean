/-
C03 (part feat) — the BED (each column count) and GFF readers are total: malformed input
yields errors, never panics or hangs.  Property theorems only; they are about
`Biogo.Bed.readAll` / `Biogo.Gff.readAll` (and `readLine` / `read`, the single call), the
functions the driver runs, and hold for every byte string.

"Never blocks": `readAll` is a total function (structural recursion on the lines; Lean's
termination checker), and `*_progress` bounds the number of calls.
"Each call returns either a non-nil record or a non-nil error": a call of the model is a
`Call` — a record, an error, `eof` (io.EOF), or `panicked`; there is no constructor for
"neither", and `*_never_panics` excludes the last.  (The implementation is watched for
`(nil, nil)` by the harness.)
-/
import Biogo.Proofs.FeatTotal
import Biogo.Generated.FeatIO
import Biogo.Proofs.TimeDate

namespace Biogo.Properties.C03_feat
open Biogo.BytesFeat

/-! ## BED -/

theorem bed_readLine_no_panic (n : Nat) (hn : Bed.validWidth n = true) (line : Bytes) (k : Nat) :
    ∀ p, Bed.readLine n line k ≠ .panicked p := by
  intro p h
  unfold Bed.readLine at h
  split at h
  · cases h
  · cases h
  · rename_i q hq
    exact Bed.parseBed_no_panic n hn line q hq

theorem bed_readLines_spec (n : Nat) (hn : Bed.validWidth n = true) (ls : List Bytes) (k : Nat) :
    (Bed.readLines n ls k).length = ls.length + 1 ∧
    (Bed.readLines n ls k).getLast? = some .eof ∧
    (∀ p, Bed.Call.panicked p ∉ Bed.readLines n ls k) ∧
    (∀ i (h : i < ls.length), (Bed.readLines n ls k)[i]? = some (Bed.readLine n ls[i] (k + i + 1))) := by
  induction ls generalizing k with
  | nil => simp [Bed.readLines]
  | cons l ls ih =>
    obtain ⟨h1, h2, h3, h4⟩ := ih (k + 1)
    have hnp := bed_readLine_no_panic n hn l (k + 1)
    unfold Bed.readLines
    split
    · rename_i p hp; exact absurd hp (hnp p)
    · refine ⟨by simp [h1], ?_, ?_, ?_⟩
      · rw [List.getLast?_cons]
        cases hcs : (Bed.readLines n ls (k + 1)).getLast? with
        | none => rw [hcs] at h2; cases h2
        | some x => rw [hcs] at h2; simpa using h2
      · intro p hp
        rcases List.mem_cons.mp hp with hp | hp
        · exact hnp p hp.symm
        · exact h3 p hp
      · intro i hi
        cases i with
        | zero => simp
        | succ i =>
          have := h4 i (by simpa using hi)
          simp only [List.getElem?_cons_succ, List.getElem_cons_succ]
          rw [this]
          congr 2
          omega

/-- C03 "never panics", BED reader of every column count, every byte string. -/
theorem bed_never_panics (n : Nat) (hn : Bed.validWidth n = true) (bs : Bytes) :
    ∀ p, Bed.Call.panicked p ∉ Bed.readAll n bs :=
  (bed_readLines_spec n hn _ 0).2.2.1

/-- C03 "the call sequence reaches io.EOF within one call per input line plus one": exactly one
    call per line, then `io.EOF`. -/
theorem bed_progress (n : Nat) (hn : Bed.validWidth n = true) (bs : Bytes) :
    (Bed.readAll n bs).length = (lines bs).length + 1 ∧ (Bed.readAll n bs).getLast? = some .eof := by
  have := bed_readLines_spec n hn (Bed.trimmedLines bs) 0
  refine ⟨?_, this.2.1⟩
  simpa [Bed.trimmedLines, Bed.readAll] using this.1

/-- call `i` reads line `i` (used to state the `rejects` theorems per line) -/
theorem bed_call_reads_line (n : Nat) (hn : Bed.validWidth n = true) (bs : Bytes) (i : Nat)
    (h : i < (Bed.trimmedLines bs).length) :
    (Bed.readAll n bs)[i]? = some (Bed.readLine n (Bed.trimmedLines bs)[i] (i + 1)) := by
  have := (bed_readLines_spec n hn (Bed.trimmedLines bs) 0).2.2.2 i h
  simpa [Bed.readAll] using this

theorem bed_readLine_err_of_not_ok (n : Nat) (hn : Bed.validWidth n = true) (line : Bytes) (k : Nat)
    (h : ∀ r, Bed.parseBody n line ≠ .ok r) : ∃ e, Bed.readLine n line k = .err e k := by
  obtain ⟨e, he⟩ := handlePanic_ret_of_not_ok (Bed.safe_parseBody n hn line) h
  exact ⟨e, by simp [Bed.readLine, Bed.parseBed, he]⟩

/-- C03 "missing mandatory columns … are reported as errors": fewer than `n` tab-separated
    columns ⇒ `ErrBadBedType`. -/
theorem bed_rejects_missing_columns (n : Nat) (line : Bytes) (k : Nat)
    (h : (splitN 9 (n + 1) line).length < n) : Bed.readLine n line k = .err .badType k := by
  simp [Bed.readLine, Bed.parseBed, Bed.parseBody, h, handlePanic]

theorem parse3_not_ok_of_start {f : List Bytes} {x : Bytes} {e : NumErr} (hx : f[1]? = some x)
    (he : parseInt x 64 = .error e) (h0 : 0 < f.length) : ∀ r, Bed.parse3 f ≠ .ok r := by
  intro r
  simp [Bed.parse3, idx_eq h0, idx_of_getElem? hx, Bed.mustAtoi, he]

theorem parse3_not_ok_of_end {f : List Bytes} {x : Bytes} {e : NumErr} (hx : f[2]? = some x)
    (he : parseInt x 64 = .error e) : ∀ r, Bed.parse3 f ≠ .ok r := by
  intro r
  unfold Bed.parse3
  apply bind_not_ok_right; intro chrom
  apply bind_not_ok_right; intro start
  apply bind_not_ok
  intro a
  simp [idx_of_getElem? hx, Bed.mustAtoi, he]

theorem parseBody_not_ok_of_parse3 (n : Nat) (line : Bytes)
    (h : ∀ r, Bed.parse3 (splitN 9 (n + 1) line) ≠ .ok r) : ∀ r, Bed.parseBody n line ≠ .ok r := by
  intro r
  unfold Bed.parseBody
  simp only []
  split
  · intro h; cases h
  · have h4 : ∀ r, Bed.parse4 (splitN 9 (n + 1) line) ≠ .ok r := by
      intro r; unfold Bed.parse4; exact bind_not_ok h r
    have h5 : ∀ r, Bed.parse5 (splitN 9 (n + 1) line) ≠ .ok r := by
      intro r; unfold Bed.parse5; exact bind_not_ok h4 r
    have h6 : ∀ r, Bed.parse6 (splitN 9 (n + 1) line) ≠ .ok r := by
      intro r; unfold Bed.parse6; exact bind_not_ok h5 r
    have h12 : ∀ r, Bed.parse12 (splitN 9 (n + 1) line) ≠ .ok r := by
      intro r; unfold Bed.parse12; exact bind_not_ok h6 r
    repeat (first | exact h r | exact h4 r | exact h5 r | exact h6 r | exact h12 r | split)

/-- C03 "non-numeric coordinates … are reported as errors": a start or end column that
    `strconv.ParseInt(s, 0, 64)` rejects (syntax or range) ⇒ the call returns an error. -/
theorem bed_rejects_non_numeric_coordinates (n : Nat) (hn : Bed.validWidth n = true) (line : Bytes) (k : Nat)
    (x : Bytes) (e : NumErr)
    (hx : (splitN 9 (n + 1) line)[1]? = some x ∨ (splitN 9 (n + 1) line)[2]? = some x)
    (he : parseInt x 64 = .error e) : ∃ err, Bed.readLine n line k = .err err k := by
  apply bed_readLine_err_of_not_ok n hn
  apply parseBody_not_ok_of_parse3
  rcases hx with hx | hx
  · have h0 : 0 < (splitN 9 (n + 1) line).length := by
      have := (List.getElem?_eq_some_iff.mp hx).1; omega
    exact parse3_not_ok_of_start hx he h0
  · exact parse3_not_ok_of_end hx he

/-- C03 "bad strand … reported as errors", BED6 and BED12: a strand column other than `+`, `.`,
    `-` ⇒ the call returns an error. -/
theorem bed_rejects_bad_strand (n : Nat) (hn : n = 6 ∨ n = 12) (line : Bytes) (k : Nat) (x : Bytes)
    (hx : (splitN 9 (n + 1) line)[5]? = some x) (hbad : x ≠ [43] ∧ x ≠ [46] ∧ x ≠ [45]) :
    ∃ err, Bed.readLine n line k = .err err k := by
  have hv : Bed.validWidth n = true := by rcases hn with rfl | rfl <;> decide
  apply bed_readLine_err_of_not_ok n hv
  have hs : ∀ r, Bed.mustAtos x 5 ≠ .ok r := by
    intro r
    unfold Bed.mustAtos
    split
    · rename_i c
      have h1 : c ≠ 43 := fun h => hbad.1 (by rw [h])
      have h2 : c ≠ 46 := fun h => hbad.2.1 (by rw [h])
      have h3 : c ≠ 45 := fun h => hbad.2.2 (by rw [h])
      simp [h1, h2, h3]
    · intro h; cases h
  have h6 : ∀ r, Bed.parse6 (splitN 9 (n + 1) line) ≠ .ok r := by
    intro r
    unfold Bed.parse6
    apply bind_not_ok_right; intro r5
    apply bind_not_ok
    intro a
    simp only [idx_of_getElem? hx, bind_ok]
    exact hs a
  have h12 : ∀ r, Bed.parse12 (splitN 9 (n + 1) line) ≠ .ok r := by
    intro r; unfold Bed.parse12; exact bind_not_ok h6 r
  intro r
  unfold Bed.parseBody
  simp only []
  split
  · intro h; cases h
  · rcases hn with rfl | rfl
    · simp only [show ((6:Nat) == 3) = false from rfl, show ((6:Nat) == 4) = false from rfl,
        show ((6:Nat) == 5) = false from rfl, beq_self_eq_true, if_true, Bool.false_eq_true, if_false]
      exact h6 r
    · simp only [show ((12:Nat) == 3) = false from rfl, show ((12:Nat) == 4) = false from rfl,
        show ((12:Nat) == 5) = false from rfl, show ((12:Nat) == 6) = false from rfl,
        Bool.false_eq_true, if_false]
      exact h12 r

/-! ## GFF -/

/-- C03 "never panics", GFF reader, every byte string, whatever `strconv.ParseFloat` and
    `time.Parse` do. -/
theorem gff_never_panics (o : Gff.Oracles) (bs : Bytes) :
    ∀ p, Gff.Call.panicked p ∉ (Gff.readAll o bs).1 :=
  (Gff.readCalls_spec o _ (Gff.trimmedLines bs) {} (Nat.lt_succ_self _)).2.2

/-- C03 "reaches io.EOF within one call per input line plus one": the call list has at most
    lines+1 elements and its last element is `io.EOF` (so the bound `lines+1` on the number of
    calls that `readAll` passes to `readCalls` is never what stops it). -/
theorem gff_progress (o : Gff.Oracles) (bs : Bytes) :
    (Gff.readAll o bs).1.length ≤ (lines bs).length + 1 ∧ (Gff.readAll o bs).1.getLast? = some .eof := by
  have := Gff.readCalls_spec o _ (Gff.trimmedLines bs) {} (Nat.lt_succ_self _)
  refine ⟨?_, this.2.1⟩
  simpa [Gff.trimmedLines, Gff.readAll] using this.1

/-- a single `Read` never panics, from any reader state -/
theorem gff_read_never_panics (o : Gff.Oracles) (ls : List Bytes) (st : Gff.St) :
    ∀ p, (Gff.read o ls st).1 ≠ .panicked p := Gff.read_no_panic o ls st

/-- the line is a feature line: not blank, not a `##` metadata line, not a `#` comment -/
def featureLine (line : Bytes) : Prop :=
  line.isEmpty = false ∧ hasPrefix [35, 35] line = false ∧ line.head? ≠ some 35

instance (line : Bytes) : Decidable (featureLine line) := by unfold featureLine; infer_instance

theorem read_featureLine (o : Gff.Oracles) (line : Bytes) (ls : List Bytes) (st : Gff.St)
    (h : featureLine line) :
    (Gff.read o (line :: ls) st).1 =
      Gff.resToCall ((Gff.parseFeature o line).bind (fun f => .ok (Gff.Item.feature f))) (st.line + 1) := by
  obtain ⟨h1, h2, h3⟩ := h
  unfold Gff.read
  simp [h1, h2, h3]

theorem read_err_of_parseFeature (o : Gff.Oracles) (line : Bytes) (ls : List Bytes) (st : Gff.St)
    (h : featureLine line) (e : Gff.Err) (he : Gff.parseFeature o line = .panic (.error e) ∨ Gff.parseFeature o line = .ret e)
    (hk : e ≠ .badMoltype ∧ e ≠ .date) :
    (Gff.read o (line :: ls) st).1 = .err e (st.line + 1) := by
  rw [read_featureLine o line ls st h]
  rcases he with he | he <;> rw [he] <;> simp only [Res.bind, Gff.resToCall, handlePanic] <;>
    cases e <;> simp_all

/-- C03 "missing mandatory columns": a GFF feature line with fewer than eight tab-separated
    columns (seven included — defect F2) ⇒ `ErrFieldMissing`. -/
theorem gff_rejects_missing_columns (o : Gff.Oracles) (line : Bytes) (ls : List Bytes) (st : Gff.St)
    (h : featureLine line) (hlen : (splitN 9 10 line).length ≤ 7) :
    (Gff.read o (line :: ls) st).1 = .err (.missing (splitN 9 10 line).length) (st.line + 1) := by
  apply read_err_of_parseFeature o line ls st h
  · right; simp [Gff.parseFeature, hlen]
  · simp

/-- C03 "non-numeric coordinates": a start column that `ParseInt` rejects ⇒ error at column 3. -/
theorem gff_rejects_non_numeric_start (o : Gff.Oracles) (line : Bytes) (ls : List Bytes) (st : Gff.St)
    (h : featureLine line) (hlen : 7 < (splitN 9 10 line).length) (x : Bytes) (e : NumErr)
    (hx : (splitN 9 10 line)[3]? = some x) (he : parseInt x 64 = .error e) :
    (Gff.read o (line :: ls) st).1 = .err (.num 3) (st.line + 1) := by
  apply read_err_of_parseFeature o line ls st h
  · left
    have hl : ¬ (splitN 9 10 line).length ≤ 7 := by omega
    simp [Gff.parseFeature, hl, idx_eq (show 0 < (splitN 9 10 line).length by omega),
      idx_eq (show 1 < (splitN 9 10 line).length by omega), idx_eq (show 2 < (splitN 9 10 line).length by omega),
      Gff.mustAtoPos, Gff.mustAtoi, idx_of_getElem? hx, he]
  · simp

/-- C03 "a GFF start of zero": start column 0 ⇒ `ErrZeroPosition` at column 3 (defect F3). -/
theorem gff_rejects_start_zero (o : Gff.Oracles) (line : Bytes) (ls : List Bytes) (st : Gff.St)
    (h : featureLine line) (hlen : 7 < (splitN 9 10 line).length) (x : Bytes)
    (hx : (splitN 9 10 line)[3]? = some x) (he : parseInt x 64 = .ok 0) :
    (Gff.read o (line :: ls) st).1 = .err (.zero 3) (st.line + 1) := by
  apply read_err_of_parseFeature o line ls st h
  · left
    have hl : ¬ (splitN 9 10 line).length ≤ 7 := by omega
    simp [Gff.parseFeature, hl, idx_eq (show 0 < (splitN 9 10 line).length by omega),
      idx_eq (show 1 < (splitN 9 10 line).length by omega), idx_eq (show 2 < (splitN 9 10 line).length by omega),
      Gff.mustAtoPos, Gff.mustAtoi, idx_of_getElem? hx, he, Gff.oneToZero]
  · simp

/-- C03 "non-numeric coordinates": start fine, end column rejected by `ParseInt` ⇒ error at column 4. -/
theorem gff_rejects_non_numeric_end (o : Gff.Oracles) (line : Bytes) (ls : List Bytes) (st : Gff.St)
    (h : featureLine line) (hlen : 7 < (splitN 9 10 line).length) (x y : Bytes) (s : Int) (e : NumErr)
    (hx : (splitN 9 10 line)[3]? = some x) (hs : parseInt x 64 = .ok s) (hs0 : s ≠ 0)
    (hy : (splitN 9 10 line)[4]? = some y) (he : parseInt y 64 = .error e) :
    (Gff.read o (line :: ls) st).1 = .err (.num 4) (st.line + 1) := by
  apply read_err_of_parseFeature o line ls st h
  · left
    have hl : ¬ (splitN 9 10 line).length ≤ 7 := by omega
    have hz : Gff.oneToZero s = some (if s > 0 then s - 1 else s) := by
      unfold Gff.oneToZero; simp [hs0]; split <;> rfl
    simp [Gff.parseFeature, hl, idx_eq (show 0 < (splitN 9 10 line).length by omega),
      idx_eq (show 1 < (splitN 9 10 line).length by omega), idx_eq (show 2 < (splitN 9 10 line).length by omega),
      Gff.mustAtoPos, Gff.mustAtoi, idx_of_getElem? hx, hs, hz, idx_of_getElem? hy, he]
  · simp

/-- C03 "bad strand": a strand column other than `+`, `.`, `-` ⇒ the call returns an error. -/
theorem gff_rejects_bad_strand (o : Gff.Oracles) (line : Bytes) (ls : List Bytes) (st : Gff.St)
    (h : featureLine line) (x : Bytes) (hx : (splitN 9 10 line)[6]? = some x)
    (hbad : x ≠ [43] ∧ x ≠ [46] ∧ x ≠ [45]) :
    ∃ e l, (Gff.read o (line :: ls) st).1 = .err e l := by
  rw [read_featureLine o line ls st h]
  have hs : ∀ r, Gff.mustAtos (splitN 9 10 line) 6 ≠ .ok r := by
    intro r
    unfold Gff.mustAtos
    simp only [idx_of_getElem? hx, bind_ok]
    split
    · rename_i c
      have h1 : c ≠ 43 := fun h => hbad.1 (by rw [h])
      have h2 : c ≠ 46 := fun h => hbad.2.1 (by rw [h])
      have h3 : c ≠ 45 := fun h => hbad.2.2 (by rw [h])
      simp [h1, h2, h3]
    · intro h; cases h
  have hnot : ∀ f, Gff.parseFeature o line ≠ .ok f := by
    intro f
    unfold Gff.parseFeature
    simp only []
    split
    · intro h; cases h
    · apply bind_not_ok_right; intro _
      apply bind_not_ok_right; intro _
      apply bind_not_ok_right; intro _
      apply bind_not_ok_right; intro _
      apply bind_not_ok_right; intro _
      apply bind_not_ok_right; intro _
      apply bind_not_ok
      exact hs
  have hsafe : Safe ((Gff.parseFeature o line).bind (fun f => .ok (Gff.Item.feature f))) :=
    safe_bind (Gff.safe_parseFeature o line) (fun f => safe_ok _)
  have hnot' : ∀ i, (Gff.parseFeature o line).bind (fun f => .ok (Gff.Item.feature f)) ≠ .ok i := by
    intro i
    exact bind_not_ok (f := fun f => (.ok (Gff.Item.feature f) : Gff.Res Gff.Item)) hnot i
  obtain ⟨e, he⟩ := handlePanic_ret_of_not_ok hsafe hnot'
  simp only [Gff.resToCall, he]
  exact ⟨e, _, rfl⟩

/-- the part of a `##` line after the marker -/
def metaLine (rest : Bytes) : Bytes := 35 :: 35 :: rest

theorem read_metaLine (o : Gff.Oracles) (rest : Bytes) (ls : List Bytes) (st : Gff.St) :
    (Gff.read o (metaLine rest :: ls) st) =
      match Gff.commentMetaline o st.md rest with
      | .continue_ md => Gff.read o ls { line := st.line + 1, md := md }
      | .done r => (Gff.resToCall r (st.line + 1), ls, { st with line := st.line + 1 })
      | .metaSeq moltype id => Gff.metaSeq moltype id ls { st with line := st.line + 1 } [] := by
  rw [Gff.read]
  simp [metaLine, hasPrefix]
  cases Gff.commentMetaline o st.md rest <;> rfl

/-- C03 "incomplete metadata lines": each keyword that needs an argument, written without one
    (`##gff-version` — defect F1 —, `##source-version`, `##date`, `##Type`, `##type`, `##DNA`, …),
    and `##sequence-region` with fewer than three arguments ⇒ `ErrBadMetaLine`. -/
theorem gff_rejects_incomplete_metaline (o : Gff.Oracles) (kw : Bytes) (args : List Bytes)
    (ls : List Bytes) (st : Gff.St)
    (hkw : (kw ∈ [ofString "gff-version", ofString "source-version", ofString "date", ofString "Type",
                  ofString "type", ofString "DNA", ofString "RNA", ofString "Protein", ofString "dna",
                  ofString "rna", ofString "protein"] ∧ args = []) ∨
           (kw = ofString "sequence-region" ∧ args.length < 3))
    (rest : Bytes) (hsplit : splitOn 32 rest = kw :: args) :
    (Gff.read o (metaLine rest :: ls) st).1 = .err .metaline (st.line + 1) := by
  rw [read_metaLine o rest ls st]
  have : Gff.commentMetaline o st.md rest = .done (.ret .metaline) := by
    unfold Gff.commentMetaline
    simp only [hsplit]
    rcases hkw with ⟨hk, rfl⟩ | ⟨rfl, hlen⟩
    · simp only [List.mem_cons, List.not_mem_nil, or_false] at hk
      rcases hk with rfl | rfl | rfl | rfl | rfl | rfl | rfl | rfl | rfl | rfl | rfl <;>
        simp (decide := true)
    · have : (ofString "sequence-region" :: args).length ≤ 3 := by simp; omega
      simp (decide := true)
      intro h; omega
  rw [this]
  simp [Gff.resToCall, handlePanic]

/-- C03 "a GFF start of zero", `##sequence-region chr 0 10` (defect F3): a zero start argument ⇒
    `ErrZeroPosition` at column 2. -/
theorem gff_rejects_region_start_zero (o : Gff.Oracles) (name s e : Bytes) (more : List Bytes)
    (ls : List Bytes) (st : Gff.St) (rest : Bytes)
    (hsplit : splitOn 32 rest = ofString "sequence-region" :: name :: s :: e :: more)
    (hs : parseInt s 64 = .ok 0) :
    (Gff.read o (metaLine rest :: ls) st).1 = .err (.zero 2) (st.line + 1) := by
  rw [read_metaLine o rest ls st]
  have : Gff.commentMetaline o st.md rest = .done (.panic (.error (.zero 2))) := by
    unfold Gff.commentMetaline
    simp only [hsplit]
    simp (decide := true) [idx, Gff.mustAtoPos, Gff.mustAtoi, hs, Gff.oneToZero]
  rw [this]
  simp [Gff.resToCall, handlePanic]


/-! ## the `##date` line: `time.Parse("2006-1-02", ·)` modelled exactly

The theorems above hold for every `parseDate : Bytes → Bool`.  `Biogo.Go.TimeDate.parseAstronomical`
is the exact model of `time.Parse(gff.Astronomical, s)` as to success and the date returned
(transcribed from time/format.go: four digits, `-`, one or two digits greedily, `-`, exactly
two digits, nothing after; month 1..12; day 1..`daysIn`); the drivers of C02–C04 run the GFF
model with it, and op `dt` compares it with the real parser on date-like strings. -/

open Biogo.Go.TimeDate in
/-- **`##date` round trip**: what `Time.Format("2006-1-02")` writes for any date of the years
    0..9999 (`WriteMetaData(time.Time)`) is accepted by `time.Parse("2006-1-02", ·)` as that date. -/
theorem date_parse_format (year month day : Nat) (hy : year ≤ 9999) (hm1 : 1 ≤ month) (hm2 : month ≤ 12)
    (hd1 : 1 ≤ day) (hd2 : day ≤ daysIn month year) :
    parseAstronomical (formatAstronomical year month day) = some (year, month, day) :=
  parse_format year month day hy hm1 hm2 hd1 hd2

open Biogo.Go.TimeDate in
/-- what the layout accepts and rejects: single-digit months, leap days, year 0000; no one-digit
    day, no two-digit year, no month 0 or 13, no day 0 or beyond the month's end, no extra text -/
theorem date_layout_examples :
    [ofString "2020-1-02", ofString "1999-12-31", ofString "2000-2-29", ofString "2024-02-29", ofString "0000-1-01",
     ofString "2020-10-10"].map parseAstronomical
      = [some (2020, 1, 2), some (1999, 12, 31), some (2000, 2, 29), some (2024, 2, 29), some (0, 1, 1), some (2020, 10, 10)] ∧
    [ofString "2023-2-29", ofString "1900-2-29", ofString "2020-13-01", ofString "2020-1-2", ofString "20-1-02",
     ofString "2020-1-02 x", ofString "2020-0-10", ofString "2020-4-31", ofString "2020-1-00", ofString "2020-123-01",
     ofString "x", ofString ""].map parseAstronomical = List.replicate 12 none := by
  decide

/-- with the exact date parser: a `##date` line with a valid date is skipped, one with an
    impossible date is answered by the parser's error -/
example : (Gff.readAll ⟨fun _ => none, fun _ => [], Biogo.Go.TimeDate.dateOK⟩
      (ofString "##date 2024-2-29\n##date 2023-2-29\n")).1 = [.err .date 0, .eof] := by decide +kernel

/-! ## non-vacuity and the four defect witnesses -/

def noOracle : Gff.Oracles := ⟨fun _ => none, fun _ => [], fun _ => false⟩

/-- F1 -/
example : (Gff.readAll noOracle (ofString "##gff-version\n")).1 = [.err .metaline 1, .eof] := by decide +kernel
/-- F2 -/
example : (Gff.readAll noOracle (ofString "chr1\tsrc\tgene\t10\t20\t.\t+\n")).1 = [.err (.missing 7) 1, .eof] := by
  decide +kernel
/-- F3 -/
example : (Gff.readAll noOracle (ofString "chr1\tsrc\tgene\t0\t20\t.\t+\t0\n")).1 = [.err (.zero 3) 1, .eof] := by
  decide +kernel
example : (Gff.readAll noOracle (ofString "##sequence-region chr 0 10\n")).1 = [.err (.zero 2) 1, .eof] := by
  decide +kernel
example : featureLine (ofString "chr1\tsrc\tgene\t0\t20\t.\t+\t0") := by decide
example : Bed.readAll 6 (ofString "chr1\t1\tx\tn\t0\t+\nchr1\t1\t2\tn\t0\t*\nchr1\t1\n") =
    [.err (.num 2) 1, .err (.strand 5) 2, .err .badType 3, .eof] := by decide +kernel

end Biogo.Properties.C03_feat
