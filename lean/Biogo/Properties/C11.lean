/-
C11 — External sort yields the sorted multiset of its input for every usage history.

Property theorems about the executable model `Biogo.Morass` (the model the driver runs).
The invariants and per-operation lemmas are in `Biogo/Proofs/Morass.lean`.
-/
import Biogo.Model.Morass
import Biogo.Spec.Morass
import Biogo.Proofs.Morass

namespace Biogo.Properties.C11
open Biogo.Morass

theorem init_fresh (c : Nat) (ac : Bool) : Fresh c ac 0 (init c ac) :=
  ⟨rfl, rfl, rfl, Nat.le_refl 0, rfl, rfl, rfl, rfl⟩

theorem history_from_fresh {c : Nat} {ac : Bool} (hc : 1 ≤ c) :
    ∀ (h : List Cycle) {s : State}, Fresh c ac 0 s → wellFormed ac h = true →
      HistorySpec ac h (run s (histOps h)).2 := by
  intro h
  induction h with
  | nil => intro s _ _; simp [histOps, run, HistorySpec]
  | cons cy rest ih =>
    intro s hs hwf
    obtain ⟨ys, hsp, hout, hclean, hclosed⟩ := cycle_spec (ac := ac) hc cy hs
    have hops : histOps (cy :: rest) = cy.ops ++ histOps rest := by simp [histOps]
    rw [hops, run_append s _ _ hclean]
    refine ⟨ys, _, hsp, by rw [hout], ?_⟩
    cases rest with
    | nil => simp [histOps, run, HistorySpec]
    | cons cy2 rest2 =>
      simp only [wellFormed, Bool.and_eq_true] at hwf
      exact ih (hclosed hwf.1) hwf.2

/-- **C11, the statement.**  For every chunk size ≥ 1, AutoClear on or off, and every
    well-formed history of use cycles on one sorter (push any values, Finalise, pull some, all
    or beyond `io.EOF`, Clear — a cycle may stay in memory or spill, whatever earlier cycles
    did), the outputs of all calls are, cycle by cycle: every Push/Finalise/Clear succeeds;
    the j-th Pull delivers `ys[j]` where `ys` is a non-decreasing permutation of the values
    pushed in that cycle, and `io.EOF` once they are exhausted; `Len` = number pushed in the
    cycle and `Pos` = number pushed, then pulled, so far. -/
theorem history_sorted_multiset (c : Nat) (hc : 1 ≤ c) (ac : Bool) (h : List Cycle)
    (hwf : wellFormed ac h = true) :
    HistorySpec ac h (run (init c ac) (histOps h)).2 :=
  history_from_fresh hc h (init_fresh c ac) hwf

/-- **A cycle abandoned with `Clear` before `Finalise`** (fourth wave; seeded change C13-m7 made the
    harness generate them).  On a sorter that is ready for a cycle, any number of pushes - staying
    in the chunk or spilling run files - followed by `Clear`: every `Push` returns nil with `Len` =
    `Pos` = the number pushed so far, `Clear` returns nil with `Len` = `Pos` = 0, and the sorter is
    ready for a cycle again (`Fresh`: no file registered, empty chunk, no error) - the pushed values
    are discarded, so by `history_from_fresh` every later cycle delivers its own multiset only. -/
theorem abandoned_cycle_fresh {c : Nat} {ac : Bool} (hc : 1 ≤ c) {s : State} (h : Fresh c ac 0 s) (es : List Elem) :
    (run s (es.map Op.push ++ [Op.clear])).2
        = (List.range es.length).map (fun i => (⟨.ok, none, i + 1, i + 1⟩ : Out)) ++ [⟨.ok, none, 0, 0⟩]
    ∧ Fresh c ac 0 (run s (es.map Op.push ++ [Op.clear])).1 := by
  obtain ⟨ch', hout, hfill⟩ := pushes_run hc es h.filling
  have hclean : Clean (run s (es.map Op.push)).2 := by
    rw [hout]; intro o ho
    simp only [List.mem_map] at ho
    obtain ⟨i, _, rfl⟩ := ho
    simp
  rw [run_append _ _ _ hclean]
  have hf : Fresh c ac 0 (clear (run s (es.map Op.push)).1) :=
    clear_fresh_of hfill.cs hfill.ac (by rw [hfill.pool]; omega) (by intro _; rw [hfill.chunk]; simp)
  constructor
  · simp [hout, run, step_clear, hf.len, hf.pos]
  · simpa [run, step_clear] using hf

/-- non-vacuity: chunk size 2, three pushes (one run file written) then `Clear` -/
example : (run (init 2 true) ([⟨3,0⟩, ⟨1,0⟩, ⟨2,0⟩].map Op.push ++ [Op.clear])).1.files.length = 0
    ∧ (run (init 2 true) ([⟨3,0⟩, ⟨1,0⟩, ⟨2,0⟩].map Op.push)).1.files.length = 1 := by decide

/-- non-vacuity: a memory-only cycle with a partial drain, then a spilling cycle (the shape of
    the two defects repaired for C11), then an AutoClear-closed cycle, is well-formed -/
example : wellFormed true
    [⟨[⟨3,0⟩, ⟨1,0⟩, ⟨2,0⟩], 1, true⟩, ⟨[⟨9,0⟩, ⟨8,1⟩, ⟨7,2⟩, ⟨6,3⟩, ⟨5,0⟩], 6, false⟩, ⟨[⟨4,0⟩], 0, false⟩] = true := by
  decide

/-! ### the observation level of the tie: keys -/

theorem insertKey_perm (k : Int) (l : List Int) : (insertKey k l).Perm (k :: l) := by
  induction l with
  | nil => exact List.Perm.refl _
  | cons x xs ih =>
    simp only [insertKey]
    split
    · exact (List.Perm.cons x ih).trans (List.Perm.swap k x xs)
    · exact List.Perm.refl _

theorem sortKeys_perm (l : List Int) : (sortKeys l).Perm l := by
  induction l with
  | nil => exact List.Perm.refl _
  | cons x xs ih => exact (insertKey_perm x _).trans (List.Perm.cons x ih)

theorem insertKey_sorted (k : Int) (l : List Int) (h : l.Pairwise (· ≤ ·)) :
    (insertKey k l).Pairwise (· ≤ ·) := by
  induction l with
  | nil => simp [insertKey]
  | cons x xs ih =>
    simp only [insertKey]
    have hx := List.pairwise_cons.mp h
    split
    · rename_i hle
      refine List.pairwise_cons.mpr ⟨?_, ih hx.2⟩
      intro a ha
      rcases List.mem_cons.mp ((insertKey_perm k xs).mem_iff.mp ha) with rfl | hm
      · exact hle
      · exact hx.1 a hm
    · refine List.pairwise_cons.mpr ⟨?_, h⟩
      intro a ha
      rcases List.mem_cons.mp ha with rfl | hm
      · omega
      · have := hx.1 a hm; omega

theorem sortKeys_sorted (l : List Int) : (sortKeys l).Pairwise (· ≤ ·) := by
  induction l with
  | nil => simp [sortKeys]
  | cons x xs ih => exact insertKey_sorted x _ ih

/-- a multiset of integers has exactly one non-decreasing enumeration -/
theorem sorted_perm_unique : ∀ (l₁ l₂ : List Int), l₁.Perm l₂ →
    l₁.Pairwise (· ≤ ·) → l₂.Pairwise (· ≤ ·) → l₁ = l₂ := by
  intro l₁
  induction l₁ with
  | nil => intro l₂ hp _ _; exact (List.Perm.nil_eq hp)
  | cons a t ih =>
    intro l₂ hp h1 h2
    cases l₂ with
    | nil => exact absurd hp.length_eq (by simp)
    | cons b u =>
      have ha : a ∈ b :: u := hp.mem_iff.mp (by simp)
      have hb : b ∈ a :: t := hp.mem_iff.mpr (by simp)
      have hab : a ≤ b := by
        rcases List.mem_cons.mp hb with rfl | hm
        · exact Int.le_refl _
        · exact (List.pairwise_cons.mp h1).1 b hm
      have hba : b ≤ a := by
        rcases List.mem_cons.mp ha with rfl | hm
        · exact Int.le_refl _
        · exact (List.pairwise_cons.mp h2).1 a hm
      have : a = b := by omega
      subst this
      rw [ih u hp.cons_inv (List.pairwise_cons.mp h1).2 (List.pairwise_cons.mp h2).2]

theorem sortedPerm_keys {ys xs : List Elem} (h : SortedPermOf ys xs) :
    ys.map (·.key) = sortKeys (xs.map (·.key)) := by
  apply sorted_perm_unique
  · exact (h.1.map _).trans (sortKeys_perm _).symm
  · exact List.pairwise_map.mpr h.2
  · exact sortKeys_sorted _

theorem specCycle_keyed {ac : Bool} {ys : List Elem} {cy : Cycle} (h : SortedPermOf ys cy.pushes) :
    (specCycle ac ys cy).map Out.keyed = specCycleKeys ac cy := by
  simp only [specCycle, specCycleKeys, List.map_append, List.map_cons, List.map_map, ← sortedPerm_keys h]
  congr 1
  · congr 1
    congr 1
    · apply List.map_congr_left
      intro j _
      simp only [Function.comp, List.getElem?_map]
      cases ys[j]? <;> rfl
    · split <;> rfl

theorem historySpec_keyed {ac : Bool} : ∀ (h : List Cycle) (outs : List Out),
    HistorySpec ac h outs → outs.map Out.keyed = specKeys ac h := by
  intro h
  induction h with
  | nil => intro outs ho; simp only [HistorySpec] at ho; subst ho; rfl
  | cons cy rest ih =>
    intro outs ho
    obtain ⟨ys, outs', hsp, rfl, hrest⟩ := ho
    simp only [List.map_append, specKeys, List.flatMap_cons]
    rw [specCycle_keyed hsp, ih outs' hrest]
    rfl

/-- **C11 at the level of the correspondence.**  What the driver compares with the
    implementation — result kinds, pulled keys, `Len`, `Pos` of every call — is a function of
    the history alone: the j-th pull of a cycle delivers the j-th smallest pushed key. -/
theorem history_key_observation (c : Nat) (hc : 1 ≤ c) (ac : Bool) (h : List Cycle)
    (hwf : wellFormed ac h = true) :
    (run (init c ac) (histOps h)).2.map Out.keyed = specKeys ac h :=
  historySpec_keyed h _ (history_sorted_multiset c hc ac h hwf)

/-- the model on the witness of F13 (memory-only cycle, then a spilling cycle, chunk 4) -/
example : (run (init 4 false) (histOps
      [⟨[⟨3,0⟩, ⟨1,0⟩, ⟨2,0⟩], 4, true⟩, ⟨[⟨9,0⟩, ⟨8,0⟩, ⟨7,0⟩, ⟨6,0⟩, ⟨5,0⟩], 6, true⟩])).2.filterMap (·.val)
    = [⟨1,0⟩, ⟨2,0⟩, ⟨3,0⟩, ⟨5,0⟩, ⟨6,0⟩, ⟨7,0⟩, ⟨8,0⟩, ⟨9,0⟩] := by decide

/-! ### reading `specCycle`: what the pulls of a cycle deliver -/

theorem range_filterMap_getElem? (ys : List Elem) (k : Nat) :
    (List.range k).filterMap (fun j => ys[j]?) = ys.take k := by
  induction k with
  | zero => simp
  | succ k ih =>
    rw [List.range_succ, List.filterMap_append, ih, List.take_add_one]
    cases h : ys[k]? <;> simp [h]

/-- The values delivered by the pulls of a cycle are the first `pulls` entries of `ys`. -/
theorem spec_cycle_values (ac : Bool) (ys : List Elem) (cy : Cycle) :
    (specCycle ac ys cy).filterMap (·.val) = ys.take cy.pulls := by
  simp only [specCycle, List.filterMap_append, List.filterMap_cons, List.filterMap_map]
  have h1 : List.filterMap ((fun o : Out => o.val) ∘ fun i => (⟨.ok, none, i + 1, i + 1⟩ : Out)) (List.range cy.pushes.length) = [] := by
    apply List.filterMap_eq_nil_iff.mpr; intro a _; rfl
  have h3 : List.filterMap (fun o : Out => o.val) (if cy.clear = true then [(⟨.ok, none, 0, 0⟩ : Out)] else []) = [] := by
    split <;> rfl
  rw [h1, h3, ← range_filterMap_getElem? ys cy.pulls]
  simp only [List.nil_append, List.append_nil]
  congr 1
  funext j
  simp only [Function.comp]
  cases ys[j]? <;> rfl

/-- **Reading of the statement.**  In a cycle that satisfies `specCycle` for a sorted
    enumeration `ys` of the pushed multiset, the pulled values are in non-decreasing key order,
    and when at least as many pulls as pushes were made they are a permutation of the pushed
    values. -/
theorem spec_cycle_sorted_perm (ac : Bool) (ys : List Elem) (cy : Cycle) (h : SortedPermOf ys cy.pushes) :
    Sorted ((specCycle ac ys cy).filterMap (·.val))
    ∧ (cy.pushes.length ≤ cy.pulls → ((specCycle ac ys cy).filterMap (·.val)).Perm cy.pushes) := by
  rw [spec_cycle_values]
  refine ⟨List.Pairwise.sublist (List.take_sublist _ _) h.2, ?_⟩
  intro hle
  rw [List.take_of_length_le (by rw [h.1.length_eq]; exact hle)]
  exact h.1

/-! ### rejected pushes are no-ops of the history -/

theorem dropRejects_cons_reject (ops : List Op) : dropRejects (Op.reject :: ops) = dropRejects ops := by
  simp [dropRejects, List.filter_cons]

theorem dropRejects_cons_of_ne {op : Op} (h : op ≠ Op.reject) (ops : List Op) :
    dropRejects (op :: ops) = op :: dropRejects ops := by
  simp [dropRejects, List.filter_cons, h]

/-- running a program with rejected pushes: the state is that of the program without them, the
    outputs are those of the program without them with the rejected calls woven in (type-mismatch
    error, no value, `Len`/`Pos` unchanged) — provided the program without them does not hang or
    panic (it never does on a well-formed history) -/
theorem run_rejects : ∀ (ops : List Op) (s : State), Clean (run s (dropRejects ops)).2 →
    (run s ops).1 = (run s (dropRejects ops)).1
    ∧ (run s ops).2 = weave ops (run s (dropRejects ops)).2 s.len s.pos := by
  intro ops
  induction ops with
  | nil => intro s _; exact ⟨rfl, rfl⟩
  | cons op ops ih =>
    intro s hclean
    by_cases hop : op = Op.reject
    · subst hop
      rw [dropRejects_cons_reject] at hclean ⊢
      obtain ⟨h1, h2⟩ := ih s hclean
      have hrun : run s (Op.reject :: ops) = ((run s ops).1, ⟨.rejected, none, s.len, s.pos⟩ :: (run s ops).2) := by
        simp [run, step]
      rw [hrun]
      exact ⟨h1, by simp only [weave]; rw [h2]⟩
    · rw [dropRejects_cons_of_ne hop] at hclean ⊢
      -- the first call neither hangs nor panics
      have hfirst : (step s op).2.res ≠ .hang ∧ (step s op).2.res ≠ .panic := by
        apply hclean
        simp only [run]
        split <;> simp
      have hne : ¬ ((step s op).2.res = .hang ∨ (step s op).2.res = .panic) := by
        intro h; rcases h with h | h
        · exact hfirst.1 h
        · exact hfirst.2 h
      have hr1 : ∀ l, run s (op :: l) = ((run (step s op).1 l).1, (step s op).2 :: (run (step s op).1 l).2) := by
        intro l; simp only [run, hne, if_false]
      have hclean' : Clean (run (step s op).1 (dropRejects ops)).2 := by
        intro o ho
        apply hclean
        rw [hr1]; exact List.mem_cons_of_mem _ ho
      obtain ⟨h1, h2⟩ := ih (step s op).1 hclean'
      rw [hr1, hr1]
      refine ⟨h1, ?_⟩
      have hlp : (step s op).2.len = (step s op).1.len ∧ (step s op).2.pos = (step s op).1.pos := by
        cases op with
        | reject => exact absurd rfl hop
        | push e => exact ⟨rfl, rfl⟩
        | finalise => exact ⟨rfl, rfl⟩
        | pull => exact ⟨rfl, rfl⟩
        | clear => exact ⟨rfl, rfl⟩
      rw [h2]
      cases op with
      | reject => exact absurd rfl hop
      | push e => simp only [weave, hlp.1, hlp.2]
      | finalise => simp only [weave, hlp.1, hlp.2]
      | pull => simp only [weave, hlp.1, hlp.2]
      | clear => simp only [weave, hlp.1, hlp.2]

theorem specCycle_clean (ac : Bool) (ys : List Elem) (cy : Cycle) : Clean (specCycle ac ys cy) := by
  intro o ho
  unfold specCycle at ho
  simp only [List.mem_append, List.mem_cons, List.mem_map, List.mem_range] at ho
  rcases ho with ⟨i, _, rfl⟩ | rfl | ⟨j, _, rfl⟩ | ho
  · simp
  · simp
  · cases ys[j]? <;> simp
  · split at ho
    · simp only [List.mem_singleton] at ho; subst ho; simp
    · simp at ho

theorem historySpec_clean (ac : Bool) : ∀ (h : List Cycle) (outs : List Out), HistorySpec ac h outs → Clean outs := by
  intro h
  induction h with
  | nil => intro outs ho; simp only [HistorySpec] at ho; subst ho; intro o ho; simp at ho
  | cons cy rest ih =>
    intro outs ho
    obtain ⟨ys, outs', _, rfl, hrest⟩ := ho
    intro o hmem
    rcases List.mem_append.mp hmem with h1 | h1
    · exact specCycle_clean ac ys cy o h1
    · exact ih outs' hrest o h1

/-- **A rejected Push is a no-op of the history.**  A program whose accepted calls are the
    well-formed history `h` — rejected pushes (values of another type) inserted anywhere: before
    the first push, when the chunk is exactly full, between Finalise and the pulls, after
    io.EOF — produces `weave ops outs 0 0`, where `outs` satisfy `HistorySpec ac h`: every accepted
    call behaves as if the rejected ones had not been made, and every rejected `Push` returns its
    error, delivers nothing and leaves `Len`/`Pos` unchanged. -/
theorem history_rejected_push_noop (c : Nat) (hc : 1 ≤ c) (ac : Bool) (h : List Cycle)
    (hwf : wellFormed ac h = true) (ops : List Op) (hops : dropRejects ops = histOps h) :
    ∃ outs, HistorySpec ac h outs ∧ (run (init c ac) ops).2 = weave ops outs 0 0 := by
  have hspec := history_sorted_multiset c hc ac h hwf
  refine ⟨(run (init c ac) (histOps h)).2, hspec, ?_⟩
  have := (run_rejects ops (init c ac) (by rw [hops]; exact historySpec_clean ac h _ hspec)).2
  rw [hops] at this
  exact this

/-- non-vacuity: chunk 2, push 2 1, a rejected Push with the chunk exactly full, Finalise, pulls -/
example : (run (init 2 false) [.push ⟨2,0⟩, .push ⟨1,0⟩, .reject, .finalise, .pull, .pull, .reject, .pull]).2.map (·.res)
    = [.ok, .ok, .rejected, .ok, .ok, .ok, .rejected, .eof] := by decide

end Biogo.Properties.C11
