import Biogo.Model.Morass
import Biogo.Spec.Morass
namespace Biogo.Properties.C11
end Biogo.Properties.C11
