/-
C19 — workers deliver each result once and stop cleanly; promises settle once.
(Property theorems; under construction.)
-/
import Biogo.Model.Processor
import Biogo.Model.Promise

namespace Biogo.Properties.C19
open Biogo.Promise

/-- sequential law: the first Fulfill of an unset promise succeeds, for all 8 flag combinations -/
theorem fulfill_unset (f : Flags) (v : Option Nat) :
    fulfill f none v = (some ⟨v, none⟩, none) := by
  cases f with | mk m r l => cases m <;> cases r <;> cases l <;> rfl

end Biogo.Properties.C19
