/-
C19 — Workers deliver each result once and stop cleanly; promises settle once.

Property theorems only.  They are about the labelled transition systems
`Biogo.Processor.sys` and `Biogo.Promise.sys` that the driver (Biogo/Drive/C19.lean) executes
under the forced schedules it shares with the implementation; `Reach` quantifies over every
finite schedule of the goroutines (every interleaving of the atomic blocks between two hook
points), for any number of workers, buffer sizes, operations, fulfillers, failers and waiters.
`c.fixed = true` selects the protocol after the two `fix:` commits; the protocol as found is
refuted at the end of the file (`double_close`, `send_on_closed`, `borrow_race`).
-/
import Biogo.Proofs.Processor
import Biogo.Proofs.MapChunks
import Biogo.Proofs.Promise
import Biogo.Drive.C19

namespace Biogo.Properties.C19
open Biogo.LTS

/-! ## Processor -/
section processor
open Biogo.Processor

variable {c : Cfg} {s : St}

/-- "without panic": no schedule makes a worker close `out` twice or send on the closed `out`
    (any number of producers and collectors, with or without `Stop`). -/
theorem no_panic (hfix : c.fixed = true) (ht : 0 < c.threads) (hr : Reach (sys c) s) :
    s.crashed = none :=
  (inv_reach hfix ht s hr).a.nocrash

/-- "the result channel is closed exactly once": never more than once, and it is closed exactly
    when every worker has exited (so also: not while a worker can still send). -/
theorem out_closed_exactly_once (hfix : c.fixed = true) (ht : 0 < c.threads) (hr : Reach (sys c) s) :
    s.closes ≤ 1 ∧ (s.closes = 1 ↔ allDone s = true) := by
  have hI := inv_reach hfix ht s hr
  have h := hI.a.closes_eq
  rw [allDone_iff hI]
  constructor
  · rw [h]; split <;> omega
  · rw [h]; split <;> simp_all

/-- "every operation submitted produces exactly one result carrying that operation's value or
    error", as an invariant of every reachable state, for any number of producers and
    collectors: the results that exist anywhere (held by a worker, in `out`, being handed over to
    a waiting collector, received by some collector) are, as a multiset, exactly the results of
    the operations taken from the queue so far; the queue is FIFO (`taken ++ queued` is the
    sequence of submissions); every producer's operations were submitted in its own order
    (`submitted by p ++ not yet submitted by p = prods[p]`); and nothing is lost or invented
    (`taken ++ queued ++ not yet submitted` is a permutation of all operations).  Holds also with
    `Stop` and with panicking operations (a recovered panic yields exactly one error result). -/
theorem each_op_one_result (hfix : c.fixed = true) (ht : 0 < c.threads) (hr : Reach (sys c) s) :
    (results s).Perm (s.taken.map eval) ∧
    s.taken ++ s.inq = s.subm.map Prod.snd ∧
    (∀ p : Nat, submittedBy s p ++ s.todo.getD p [] = c.prods.getD p []) ∧
    (s.taken ++ s.inq ++ s.todo.flatten).Perm c.ops := by
  have hI := inv_reach hfix ht s hr
  exact ⟨List.perm_iff_count.2 hI.b.counts, hI.b.fifo, hI.b.perprod, List.perm_iff_count.2 hI.b.mset⟩

/-- the same with one producer, in the form of the first wave: the operations taken are a prefix
    of those submitted, `ops = taken ++ queued ++ not yet submitted`, in order. -/
theorem each_op_one_result_one_producer {ops : List Op} (hp : c.prods = [ops])
    (hfix : c.fixed = true) (ht : 0 < c.threads) (hr : Reach (sys c) s) :
    (results s).Perm (s.taken.map eval) ∧ s.taken ++ s.inq ++ s.todo.getD 0 [] = ops := by
  have hI := inv_reach hfix ht s hr
  refine ⟨List.perm_iff_count.2 hI.b.counts, ?_⟩
  have h0 := hI.b.perprod 0
  rw [hp] at h0
  have hall : s.subm.filter (·.1 == 0) = s.subm := by
    rw [List.filter_eq_self]
    intro e he
    have := hI.b.subm_ids e he
    rw [hp] at this
    simp at this; simp [this]
  simp only [submittedBy, hall] at h0
  rw [hI.b.fifo]; simpa using h0

theorem held_nil_of_allDone (h : allDone s = true) : held s = [] := by
  simp only [held, allDone, List.all_eq_true] at *
  rw [List.filterMap_eq_nil_iff]
  intro pc hm
  have := h pc hm
  cases pc <;> simp [WPc.isDone] at this; rfl

/-- The final form: once every collector has seen `out` closed (at least one collector, no
    `Stop`, no panicking operation), what the collectors received is, together, exactly one
    result per submitted operation; the queue is drained and every producer has submitted
    everything. -/
theorem each_op_one_result_final (hfix : c.fixed = true) (ht : 0 < c.threads) (hn : 0 < c.ncoll)
    (hr : Reach (sys c) s)
    (hseen : allSeen s = true) (hstop : s.stop = false)
    (hnopan : c.ops.any Op.isPan = false) :
    (allDelivered s).Perm (c.ops.map eval) ∧ s.inq = [] ∧ s.todo.flatten = [] := by
  have hI := inv_reach hfix ht s hr
  have hlt : 0 < s.cpcs.length := by rw [hI.c'.clen]; exact hn
  have hseenk : ∀ (k : Nat) (pc : CPc), s.cpcs[k]? = some pc → pc = .closedSeen := by
    intro k pc hk
    simp only [allSeen, List.all_eq_true] at hseen
    have := hseen pc (List.mem_of_getElem? hk)
    simpa using this
  have h0 : s.cpcs[0]? = some .closedSeen := by
    have : s.cpcs[0]? = some s.cpcs[0] := by simp [hlt]
    rw [this, hseenk 0 _ this]
  obtain ⟨hq, hcl⟩ := hI.c'.seen_coh 0 h0
  have hhand : handed s = [] := by
    simp only [handed]
    rw [List.filterMap_eq_nil_iff]
    intro v hv
    obtain ⟨k, hk, hget⟩ := List.getElem_of_mem hv
    cases v with
    | none => rfl
    | some r =>
      exfalso
      have hg : s.handoff.getD k none = some r := by simp [List.getD_eq_getElem?_getD, hk, hget]
      have h1 := hI.c'.ho_coh k (by rw [hg]; rfl)
      have := hseenk k _ h1
      cases this
  have hex : s.exited = c.threads := by
    have := hI.a.closes_eq; rw [hcl] at this; split at this <;> simp_all
  have hall := (allDone_iff hI).2 hex
  -- some worker has exited, and the only possible reason is: queue closed and drained
  have hpos : 0 < nEx s.ws := by
    have hlen := hI.a.len
    cases hws : s.ws with
    | nil => simp [hws] at hlen; omega
    | cons w rest =>
      have hw : w.isDone = true := by
        simp only [allDone, List.all_eq_true] at hall
        exact hall w (by simp [hws])
      cases w <;> simp [WPc.isDone] at hw
      simp [nEx, WPc.exiting]
  have hmset := hI.b.mset
  have hsub : s.taken.any Op.isPan = false := by
    rw [Bool.eq_false_iff]
    intro hany
    rw [List.any_eq_true] at hany
    obtain ⟨op, hop, hpan⟩ := hany
    have hc := hmset op
    have hpos' : 0 < (s.taken ++ s.inq ++ s.todo.flatten).count op := by
      rw [List.count_pos_iff]; simp [hop]
    rw [hc, List.count_pos_iff] at hpos'
    have : c.ops.any Op.isPan = true := List.any_eq_true.2 ⟨op, hpos', hpan⟩
    rw [hnopan] at this; cases this
  rcases hI.a.exit_why hpos with h | h | h
  · simp [hstop] at h
  · obtain ⟨hclosed, hinq⟩ := h
    have htodo : s.todo.flatten = [] := by
      have := hI.b.closedTodo hclosed
      simp only [allSubmitted, List.all_eq_true] at this
      rw [List.flatten_eq_nil_iff]
      intro l hl
      simpa using this l hl
    refine ⟨?_, hinq, htodo⟩
    have hperm : (results s).Perm (s.taken.map eval) := List.perm_iff_count.2 hI.b.counts
    simp only [results, held_nil_of_allDone hall, hq, hhand, List.nil_append, List.append_nil] at hperm
    have hops : s.taken.Perm c.ops := by
      apply List.perm_iff_count.2
      intro x
      have := hmset x
      rw [hinq, htodo] at this
      simpa using this
    exact hperm.trans (hops.map eval)
  · rw [hsub] at h; cases h

/-- "after the queue is closed all workers exit, Wait returns", progress half: every schedule is
    finite — each step of any actor strictly decreases the variant `mu`, so no run from the
    initial state has more than `mu c (init c)` steps
    (= 5·|ops| + 3·threads + 2·collectors + 2 + [close requested]). -/
theorem shutdown_terminates (hfix : c.fixed = true) (ht : 0 < c.threads)
    {sched : List Actor} (h : run (sys c) (init c) sched = some s) :
    sched.length + mu c s ≤ mu c (init c) :=
  run_length_le_of (S := sys c) (mu c) (Inv c)
    (fun _ _ _ hI hs => inv_step hfix hI hs)
    (fun _ _ _ hI hs => mu_step hfix hI hs)
    (inv_init c ht) h

/-- "after the queue is closed all workers exit, Wait returns and the result channel is closed",
    safety half: once `in` is closed, a state in which no worker and no collector can move (there
    is at least one collector) is the clean final state — every worker has exited, `out` has been
    closed (once) and seen closed by every collector, the wait group is released and `Wait` has
    returned or can return.  Together with `shutdown_terminates`: every schedule that keeps
    running enabled actors ends there; there is no deadlock and no livelock. -/
theorem shutdown_clean (hfix : c.fixed = true) (ht : 0 < c.threads) (hn : 0 < c.ncoll)
    (hr : Reach (sys c) s) (hclosed : s.inClosed = true)
    (hw : ∀ i, step c s (.worker i) = none) (hc : ∀ k, step c s (.collector k) = none) :
    allDone s = true ∧ s.closes = 1 ∧ s.crashed = none ∧ allSeen s = true ∧
    (s.waitReturned = true ∨ (step c s .waiter).isSome = true) := by
  have hI := inv_reach hfix ht s hr
  obtain ⟨h1, h2, h3, h4⟩ := stuck_final hn hI hclosed hw hc
  refine ⟨h1, h2, hI.a.nocrash, h4, ?_⟩
  cases hwr : s.waitReturned
  · right; simp [step, hI.a.nocrash, hwr, h3]
  · left; rfl

/-- "Map returns one result per chunk with the chunks partitioning the input", the chunking:
    for every input, thread count ≥ 1 and maximum chunk size ≥ 1 the chunks produced by Map's
    producer loop are non-empty, lie inside the input, follow one another without gap or
    overlap, and their concatenation is the input. -/
theorem map_partition {α : Type} (xs : List α) (threads maxChunk : Nat)
    (ht : 0 < threads) (hm : 0 < maxChunk) :
    let cs := chunks xs.length (chunkSize xs.length threads maxChunk)
    cs.flatMap (slice xs) = xs ∧ tiles xs.length 0 cs = true ∧
    ∀ p ∈ cs, p.1 < p.2 ∧ p.2 ≤ xs.length := by
  intro cs
  have htiles : tiles xs.length 0 cs = true := by
    cases hn : xs.length with
    | zero => simp [cs, hn, chunks_zero, tiles]
    | succ n =>
      have := tiles_chunks xs.length _ (chunkSize_pos xs.length threads maxChunk (by omega) ht hm)
      simpa [cs, hn] using this
  refine ⟨by simpa using tiles_join xs cs 0 htiles, htiles, ?_⟩
  intro p hp
  have := tiles_bounds xs.length cs 0 htiles p hp
  omega

/-- Map's workers: with the chunk operations as the one producer's input (any evaluation `f` of
    a chunk), the results that exist are one per chunk taken, for every schedule. -/
theorem map_one_result_per_chunk (n threads maxChunk : Nat) (f : Nat × Nat → Op)
    (hc : c.prods = [(chunks n (chunkSize n threads maxChunk)).map f])
    (hfix : c.fixed = true) (ht : 0 < c.threads) (hr : Reach (sys c) s) :
    (results s).Perm (s.taken.map eval) ∧
    s.taken ++ s.inq ++ s.todo.getD 0 [] = (chunks n (chunkSize n threads maxChunk)).map f :=
  each_op_one_result_one_producer hc hfix ht hr

/-- Quirk recorded in notes/C19.md (outside C19's statement, whose shutdown clause starts "after
    the queue is closed"): `Map` never closes its private queue.  A Processor whose queue is never
    closed keeps it open for ever, and its workers leave their loop only through `Stop` (which a
    worker notices after finishing an operation, not while it waits for one) or a panicking
    operation — so the workers that are idle when Map returns stay parked in their receive. -/
theorem unclosed_queue_workers_stay (hfix : c.fixed = true) (ht : 0 < c.threads)
    (hwc : c.wantClose = false) (hr : Reach (sys c) s) :
    s.inClosed = false ∧ (0 < nEx s.ws → s.stop = true ∨ s.taken.any Op.isPan = true) := by
  have hcl : s.inClosed = false := by
    induction hr with
    | init => rfl
    | step hr' hs ih =>
      have hA := (inv_reach hfix ht _ hr').a
      have hs' : step c _ _ = some _ := hs
      cases shape_of_step hfix hA hs' <;> first | exact ih | (rename_i hwc'; rw [hwc] at hwc'; cases hwc')
  refine ⟨hcl, ?_⟩
  intro hpos
  rcases (inv_reach hfix ht s hr).a.exit_why hpos with h | h | h
  · exact Or.inl h
  · rw [hcl] at h; cases h.1
  · exact Or.inr h

open Biogo.Processor in
/-- … the state Map leaves behind, in the model: both operations processed and collected, `Stop`
    called, the queue still open: nobody can move, both workers are parked in `recv`, `out` is
    not closed. -/
example :
    let c : Processor.Cfg := Processor.Cfg.single 2 0 1 [.val 1, .val 2] false true
    let s := runSkip (Processor.sys c) (Processor.init c)
      ((List.replicate 6 [Actor.producer 0, .worker 0, .worker 1, .collector 0]).flatten ++ [.stopper])
    (allDelivered s).length = 2 ∧ s.stop = true ∧ s.ws = [.recv, .recv] ∧ s.closes = 0 ∧
    (∀ a ∈ [Actor.worker 0, .worker 1, .producer 0, .collector 0, .stopper], Processor.step c s a = none) := by
  decide

end processor

/-! ## Promise -/
section promise
open Biogo.Promise

variable {c : Promise.Cfg} {s : Promise.St}

/-- "An immutable Promise takes the value of exactly one successful Fulfill": under every
    schedule at most one Fulfill/Fail reports success, exactly one once the promise holds
    anything, and a Fulfill that reported success has its value in the promise in every later
    state.  Any values: `Fulfill(nil)` is a legal call and the message `{nil, nil}` counts as
    set (second wave; the first wave assumed non-nil values). -/
theorem promise_single_assignment (hS : Scope c) (hr : Reach (Promise.sys c) s) :
    s.pcs.countP APc.isWin ≤ 1 ∧
    (cur s ≠ none → s.pcs.countP APc.isWin = 1) ∧
    ∀ (i : Nat) (v : Option Nat), c.calls[i]? = some (.fulfill v) → s.pcs[i]? = some (.done (.ferr none)) →
      ∀ s', ReachFrom (Promise.sys c) s s' → cur s' = some ⟨v, none⟩ := by
  have hI := Promise.inv_reach hS s hr
  refine ⟨?_, ?_, ?_⟩
  · cases hc : cur s with
    | none => rw [countP_all_start s.pcs (hI.unset hc)]; omega
    | some r0 => rw [(hI.set_ r0 hc).1]; omega
  · intro hne
    cases hc : cur s with
    | none => exact absurd hc hne
    | some r0 => exact (hI.set_ r0 hc).1
  · intro i v hcall hpc s' hrf
    have hI' := Promise.inv_reach hS s' (hrf.reach hr)
    cases hc : cur s with
    | none => have := hI.unset hc i _ hpc; cases this
    | some r0 =>
      have hcons := (hI.set_ r0 hc).2 i _ _ hcall hpc
      simp [consistent] at hcons
      subst hcons
      exact cur_stable hI hI' hrf hc

/-- "every other Fulfill returns an error and leaves it unchanged": a Fulfill that runs when the
    promise already holds something returns an error, and the promise's content is the same
    afterwards. -/
theorem other_fulfills_error_and_unchanged (hS : Scope c) (hr : Reach (Promise.sys c) s)
    {i : Nat} {v : Option Nat} {r0 : Res} {s' : Promise.St}
    (hcall : c.calls[i]? = some (.fulfill v)) (hcur : cur s = some r0)
    (hstep : Promise.step c s i = some s') :
    (∃ e, s'.pcs[i]? = some (.done (.ferr (some e)))) ∧ cur s' = some r0 := by
  have hI := Promise.inv_reach hS s hr
  have hr' : Reach (Promise.sys c) s' := Reach.step hr hstep
  have hI' := Promise.inv_reach hS s' hr'
  have hcur' : cur s' = some r0 := cur_stable hI hI' (.step .refl hstep) hcur
  refine ⟨?_, hcur'⟩
  obtain ⟨pc, pc', hget, hset, hlt⟩ := step_pcs hstep
  have hlti := lt_of_get hget
  have hpc' : s'.pcs[i]? = some pc' := by rw [hset]; simp [hlti]
  obtain ⟨hwin', hcons'⟩ := hI'.set_ r0 hcur'
  obtain ⟨hwin, _⟩ := hI.set_ r0 hcur
  have hc := hcons' i _ _ hcall hpc'
  cases pc' with
  | start => cases pc <;> simp [prank] at hlt
  | borrowed r => simp [consistent] at hc
  | done ret =>
    cases ret with
    | ferr e =>
      cases e with
      | some e => exact ⟨e, hpc'⟩
      | none =>
        -- a second success would make two winners
        have hcnt := countP_set APc.isWin s.pcs i pc (.done (.ferr none)) hget
        rw [← hset, hwin', hwin] at hcnt
        cases pc <;> simp [APc.isWin, prank] at hcnt hlt
    | bool b => simp [consistent] at hc
    | unit => simp [consistent] at hc
    | res r => simp [consistent] at hc

/-- "every Wait, started before or after fulfilment, returns that value (or the failure's
    error)": a Wait that has returned delivered the promise's settled content, which is the
    content in every later state too; hence all Waits deliver the same Result. -/
theorem waits_return_value (hS : Scope c) (hr : Reach (Promise.sys c) s)
    {i : Nat} {r : Res} (hcall : c.calls[i]? = some .wait) (hpc : s.pcs[i]? = some (.done (.res r))) :
    (∀ s', ReachFrom (Promise.sys c) s s' → cur s' = some r) ∧
    ∀ (j : Nat) (r' : Res), c.calls[j]? = some .wait → s.pcs[j]? = some (.done (.res r')) → r' = r := by
  have hI := Promise.inv_reach hS s hr
  have hcur : cur s = some r := by
    cases hc : cur s with
    | none => have := hI.unset hc i _ hpc; cases this
    | some r0 =>
      have := (hI.set_ r0 hc).2 i _ _ hcall hpc
      simp [consistent] at this; rw [this]
  refine ⟨fun s' hrf => cur_stable hI (Promise.inv_reach hS s' (hrf.reach hr)) hrf hcur, ?_⟩
  intro j r' hcj hpj
  have := (hI.set_ r hcur).2 j _ _ hcj hpj
  simpa [consistent] using this

/-- "without blocking forever / without deadlock": as long as some call has not returned and at
    least one of the calls is a Fulfill or Fail, some goroutine can take a step. -/
theorem no_deadlock (hS : Scope c) (hr : Reach (Promise.sys c) s)
    (hsetter : ∃ (k : Nat) (call : Call), c.calls[k]? = some call ∧ call.isSetter = true)
    (hnd : Promise.allDone s = false) : ∃ i, (Promise.step c s i).isSome = true :=
  can_move hS (Promise.inv_reach hS s hr) hsetter hnd

/-- … and every schedule is finite: a run has at most two steps per call (holds for every flag
    combination, every kind of call, and both protocols). -/
theorem promise_terminates {sched : List Nat} (h : run (Promise.sys c) (Promise.init c) sched = some s) :
    sched.length + pmu s ≤ 2 * c.calls.length := by
  have := run_length_le (S := Promise.sys c) pmu (fun _ _ _ hs => pmu_step hs) h
  have hrep : ∀ n : Nat, ((List.replicate n APc.start).map prank).sum = 2 * n := by
    intro n
    induction n with
    | zero => rfl
    | succ n ih => simp only [List.replicate_succ, List.map_cons, List.sum_cons, ih, prank]; omega
  have h0 : pmu (Promise.init c) = 2 * c.calls.length := by
    simp only [pmu, Promise.init]; exact hrep _
  have h1 : pmu (Promise.sys c).init = 2 * c.calls.length := h0
  omega

/-! ### sequential promise laws, all 8 flag combinations -/

/-- the first Fulfill of an unset promise succeeds and stores the value -/
theorem seq_fulfill_unset (f : Flags) (v : Option Nat) :
    fulfill f none v = (some ⟨v, none⟩, none) := fulfill_unset' f v

/-- Fulfill of a fulfilled promise: mutable → value replaced, no error; immutable → error,
    value kept, and the error is relayed into the promise iff `relay` -/
theorem seq_fulfill_fulfilled (f : Flags) (v0 v : Option Nat) :
    fulfill f (some ⟨v0, none⟩) v =
      if f.mutable then (some ⟨v, none⟩, none)
      else if f.relay then (some ⟨v0, some .alreadySet⟩, some .alreadySet)
      else (some ⟨v0, none⟩, some .alreadySet) := by
  cases f with | mk m r l => cases m <;> cases r <;> cases l <;> rfl

/-- Fulfill of a failed promise always fails and changes nothing -/
theorem seq_fulfill_failed (f : Flags) (v0 v : Option Nat) (e : ErrV) :
    fulfill f (some ⟨v0, some e⟩) v =
      (some ⟨v0, some e⟩, some (if f.relay then .cannotRelay else .failedPromise)) := by
  cases f with | mk m r l => cases m <;> cases r <;> cases l <;> rfl

/-- Fail of an unset promise succeeds; Fail of a promise that holds a Result — whatever it is,
    `Result{nil, nil}` after `Fulfill(nil)` included (fix 0095d35) — reports false and changes
    nothing -/
theorem seq_fail (v : Option Nat) (e : Option ErrV) :
    Promise.fail none v e = (some ⟨v, e⟩, true) ∧
    ∀ r0 : Res, Promise.fail (some r0) v e = (some r0, false) :=
  ⟨fail_unset v e, fun r0 => fail_set r0 v e⟩

/-- Recover: a recoverable promise is reset to the given value (or emptied when the value is
    nil); on a non-recoverable promise it reports false and leaves the promise as it is
    (fix 5f9d169; as found the refused call dropped the message) -/
theorem seq_recover (f : Flags) (box : Option Res) (v : Nat) :
    Promise.recover f box (some v) = (if f.recoverable then (some ⟨some v, none⟩, true) else (box, false)) ∧
    Promise.recover f box none = (if f.recoverable then none else box, f.recoverable) := by
  cases f with | mk m r l => cases m <;> cases r <;> cases l <;> exact ⟨rfl, rfl⟩

/-- the laws above as one decidable table over all 8 flag combinations and a small value domain -/
theorem seq_laws_table :
    ∀ m ∈ [true, false], ∀ r ∈ [true, false], ∀ l ∈ [true, false],
      let f : Flags := ⟨m, r, l⟩
      (fulfill f none (some 1)).2 = none ∧
      ((fulfill f (some ⟨some 1, none⟩) (some 2)).2 = none ↔ m = true) ∧
      ((fulfill f (some ⟨some 1, none⟩) (some 2)).1 = some ⟨some 2, none⟩ ↔ m = true) ∧
      (fulfill f (some ⟨none, some (.user 7)⟩) (some 2)).2 ≠ none ∧
      (Promise.fail (some ⟨some 1, none⟩) (some 2) (some (.user 7))).2 = false ∧
      ((Promise.recover f (some ⟨none, some (.user 7)⟩) (some 3)).2 = true ↔ r = true) := by
  decide

end promise

/-! ## The driver's schedule runner stays inside the proved transition systems -/
section driver
open Biogo.Drive.C19

variable {σ ι : Type} [BEq σ]

theorem settle_reach (M : Macro σ ι) : ∀ (fuel : Nat) (m : MSt σ),
    Reach M.sys m.st → Reach M.sys (settle M fuel m).st := by
  intro fuel
  induction fuel with
  | zero => intro m h; exact h
  | succ fuel ih =>
    intro m h
    simp only [settle]
    split
    · exact h
    · split
      · rename_i s' hs
        exact ih _ (Reach.step h hs)
      · exact h

theorem release_reach (M : Macro σ ι) (m : MSt σ) (k : Nat) (h : Reach M.sys m.st) :
    Reach M.sys (release M m k).st := by
  simp only [release]
  split
  · exact h
  · exact settle_reach M _ _ h

theorem drain_reach (M : Macro σ ι) (order : List Nat) : ∀ (fuel : Nat) (m : MSt σ),
    Reach M.sys m.st → Reach M.sys (drain M order fuel m).st := by
  intro fuel
  induction fuel with
  | zero => intro m h; exact h
  | succ fuel ih =>
    intro m h
    simp only [drain]
    split
    · exact h
    · split
      · exact ih _ (release_reach M m _ h)
      · exact h

/-- Every state the driver reaches when it replays a controller schedule on the model
    (`runMacro`, the function that produces the model side of each forced-schedule case) is a
    reachable state of the transition system — so the theorems of this file apply to it. -/
theorem runMacro_reach (M : Macro σ ι) (sched order : List Nat) :
    Reach M.sys (runMacro M sched order).st := by
  simp only [runMacro]
  apply drain_reach
  have : ∀ (l : List Nat) (m : MSt σ), Reach M.sys m.st → Reach M.sys (l.foldl (release M) m).st := by
    intro l
    induction l with
    | nil => intro m h; exact h
    | cons k rest ih => intro m h; exact ih _ (release_reach M m k h)
  exact this _ _ Reach.init

/-- instance: the Processor and Promise runs of the driver (the promise runs are runs of the
    protocol with the condition variable spelled out, `Biogo.PromiseCond.fsys`; with the sleep
    forgotten they are runs of `Biogo.Promise.sys`: `driver_promise_runs_refine` in
    Properties/C19_cond.lean) -/
theorem driver_runs_are_reachable (pc : Processor.Cfg) (qc : PromiseCond.FCfg) (sched order : List Nat) :
    Reach (Processor.sys pc) (runMacro (procMacro pc) sched order).st ∧
    Reach (PromiseCond.fsys qc) (runMacro (promMacro qc) sched order).st :=
  ⟨runMacro_reach (procMacro pc) sched order, runMacro_reach (promMacro qc) sched order⟩

end driver

/-! ## The protocol as found (before the fixes) does not have the property -/
section refutations

open Biogo.Processor in
/-- F18, first scenario: two workers, no operations, the queue is closed; worker 0 exits
    completely while worker 1 has not yet taken its token — both see all tokens back. -/
theorem double_close :
    ∃ sched : List Processor.Actor,
      (run (Processor.sys (Processor.Cfg.single 2 0 1 [] true false))
          (Processor.init (Processor.Cfg.single 2 0 1 [] true false))
          sched).map (·.crashed) = some (some .doubleClose) :=
  ⟨[.producer 0, .worker 0, .worker 0, .worker 0, .worker 1, .worker 1, .worker 1], by decide⟩

open Biogo.Processor in
/-- F18, second scenario (hook a): both workers have returned their tokens before either tests
    the count. -/
theorem double_close_both_at_hook :
    ∃ sched : List Processor.Actor,
      (run (Processor.sys (Processor.Cfg.single 2 0 1 [] true false))
          (Processor.init (Processor.Cfg.single 2 0 1 [] true false))
          sched).map (·.crashed) = some (some .doubleClose) :=
  ⟨[.producer 0, .worker 0, .worker 0, .worker 1, .worker 1, .worker 0, .worker 1], by decide⟩

open Biogo.Processor in
/-- the same root cause with `Stop`: a worker that starts late sends on the closed channel -/
theorem send_on_closed :
    ∃ sched : List Processor.Actor,
      (run (Processor.sys (Processor.Cfg.single 2 1 2 [.val 1, .val 2] false false))
          (Processor.init (Processor.Cfg.single 2 1 2 [.val 1, .val 2] false false))
          sched).map (·.crashed) = some (some .sendOnClosed) :=
  ⟨[.producer 0, .producer 0, .stopper, .worker 0, .worker 0, .worker 0, .worker 0, .collector 0,
    .worker 1, .worker 1, .worker 1], by decide⟩

open Biogo.Promise in
/-- F19: immutable promise, Fulfill(1); a Wait takes the message (hook b); Fulfill(2) finds the
    mailbox empty and succeeds — two successful Fulfills — and the waiter can never put the
    message back: it is blocked although nobody holds anything it waits for. -/
theorem borrow_race :
    ∃ sched : List Nat, ∃ s,
      run (Promise.sys { flags := ⟨false, false, false⟩, calls := [.fulfill (some 1), .wait, .fulfill (some 2)], fixed := false })
          (Promise.init { flags := ⟨false, false, false⟩, calls := [.fulfill (some 1), .wait, .fulfill (some 2)], fixed := false })
          sched = some s ∧
      s.pcs.countP APc.isWin = 2 ∧ Promise.allDone s = false ∧
      ∀ i ∈ [0, 1, 2], Promise.step { flags := ⟨false, false, false⟩, calls := [.fulfill (some 1), .wait, .fulfill (some 2)], fixed := false } s i = none :=
  ⟨[0, 1, 2], _, rfl, by decide, by decide, by decide⟩

end refutations

/-! ## Non-vacuity: the hypotheses are satisfiable and the runs are not trivial -/
section examples

open Biogo.Processor in
/-- a complete run of the repaired Processor: 2 workers, 3 operations, unbuffered `out` -/
example :
    let c : Processor.Cfg := Processor.Cfg.single 2 0 1 [.val 1, .err 2, .val 3] true true
    let s := runSkip (Processor.sys c) (Processor.init c)
      ((List.replicate 12 [Actor.producer 0, .worker 0, .worker 1, .collector 0, .waiter]).flatten)
    allSeen s = true ∧ s.closes = 1 ∧ s.waitReturned = true ∧ (allDelivered s).length = 3 ∧ s.crashed = none := by
  decide

open Biogo.Processor in
/-- … and one with two producers and two collectors: every operation is delivered to one of the
    collectors, both see `out` closed -/
example :
    let c : Processor.Cfg := { threads := 2, outCap := 0, inCap := 1, prods := [[.val 1, .err 2], [.val 3, .pan 4]],
                               ncoll := 2, wantClose := true, fixed := true }
    let s := runSkip (Processor.sys c) (Processor.init c)
      ((List.replicate 14 [Actor.producer 1, .producer 0, .worker 0, .worker 1, .collector 0, .collector 1, .waiter]).flatten)
    allSeen s = true ∧ s.closes = 1 ∧ s.waitReturned = true ∧ (allDelivered s).length = 4 ∧
    s.crashed = none ∧ s.delivered.all (fun l => !l.isEmpty) = true := by
  decide

open Biogo.Promise in
/-- the schedule of `borrow_race` on the repaired protocol: the second Fulfill is blocked while
    the waiter holds the message, then fails; everything returns -/
example :
    let c : Promise.Cfg := { flags := ⟨false, false, false⟩, calls := [.fulfill (some 1), .wait, .fulfill (some 2)], fixed := true }
    Promise.step c (runSkip (Promise.sys c) (Promise.init c) [0, 1]) 2 = none ∧
    (runSkip (Promise.sys c) (Promise.init c) [0, 1, 2, 1, 2]).pcs =
      [.done (.ferr none), .done (.res ⟨some 1, none⟩), .done (.ferr (some .alreadySet))] := by
  decide

open Biogo.Promise in
example : Scope { flags := ⟨false, true, false⟩, calls := [.fulfill (some 1), .wait, .fail none (some (.user 7))], fixed := true } :=
  ⟨rfl, rfl, rfl, by decide⟩

open Biogo.Promise in
/-- nil values are inside the scope: Fulfill(nil), Fail(nil, nil) -/
example : Scope { flags := ⟨false, false, false⟩, calls := [.fulfill none, .wait, .fail none none, .fulfill (some 1)], fixed := true } :=
  ⟨rfl, rfl, rfl, by decide⟩

open Biogo.Processor in
example : chunks 10 (chunkSize 10 3 100) = [(0, 4), (4, 8), (8, 10)] := by decide

end examples

end Biogo.Properties.C19
