/-
C01 — what the driver demands of a FASTA / FASTQ round trip (`Drive.C01.demands` with
`expectedFa` / `expectedFq`) is exactly the conclusion of `fasta_roundtrip` / `fastq_roundtrip` /
`fastq_roundtrip_plain`, rendered in the harness's notation, together with "returned count =
bytes emitted" (`fasta_write_count`, `fastq_write_count`).
-/
import Biogo.Drive.C01
import Biogo.Properties.C01

namespace Biogo.Properties.C01_checker
open Biogo.Drive.C01 Biogo.Drive.Seqio Biogo.Spec.Seqio

/-- **the demand, declaratively**: no violation for a parsed observation iff every returned count
    equals the bytes emitted (the two renderings coincide) and — for well-formed records — the
    reader's call history is token for token the expected one -/
theorem demands_none_iff (wf : Bool) (expected : List String) (ns ds : String) (calls : List String) :
    demands wf expected ns ds calls = none ↔ ns = ds ∧ (wf = true → calls = expected) := by
  unfold demands
  by_cases h1 : ns = ds <;> cases wf <;> by_cases h2 : calls = expected <;> simp [h1, h2]

/-- **FASTA**: the expected call history is the rendering of the right-hand side of
    `fasta_roundtrip` — the records in order, each returned without error, then `io.EOF` -/
theorem fasta_expected_is_roundtrip (recs : List Biogo.Fasta.Rec) :
    " ".intercalate (expectedFa recs) =
      fastaCalls (recs.map (fun r => Biogo.Fasta.Call.ret ⟨some r, none⟩) ++ [Biogo.Fasta.Call.ret ⟨none, some .eof⟩]) := by
  unfold fastaCalls expectedFa
  congr 1
  simp only [List.map_append, List.map_map, List.map_cons, List.map_nil]
  rfl

/-- … hence, by `fasta_roundtrip`: for well-formed records and a positive width the expected
    history is the rendering of what the model's reader returns on what the model's writer wrote -/
theorem fasta_expected_is_model (recs : List Biogo.Fasta.Rec) (w : Nat) (hw : 1 ≤ w)
    (hwf : ∀ r ∈ recs, wfFasta r = true) :
    ∃ sink ns, Biogo.Fasta.writeAll { width := w } {} recs = .ok (sink, ns) ∧
      " ".intercalate (expectedFa recs) = fastaCalls (Biogo.Fasta.readAll {} sink.bytes) := by
  obtain ⟨sink, ns, h1, h2⟩ := Biogo.Properties.C01.fasta_roundtrip recs w hw hwf
  exact ⟨sink, ns, h1, by rw [h2, fasta_expected_is_roundtrip]⟩

/-- the driver's scope `wf` for FASTA is the hypothesis of `fasta_roundtrip` -/
theorem fasta_scope (width : Nat) (recs : List Biogo.Fasta.Rec) :
    (decide (width ≥ 1) && recs.all wfFasta) = true ↔ 1 ≤ width ∧ ∀ r ∈ recs, wfFasta r = true := by
  simp [List.all_eq_true]

/-- **FASTQ, `linear.QSeq`**: the expected call history is the rendering of the right-hand side of
    `fastq_roundtrip` -/
theorem fastq_expected_is_roundtrip (recs : List Biogo.Fastq.QRec) :
    " ".intercalate (expectedFq false recs) =
      fastqCalls (recs.map (fun r => Biogo.Fastq.Call.ret ⟨some r, none⟩) ++ [Biogo.Fastq.Call.ret ⟨none, some .eof⟩]) := by
  unfold fastqCalls expectedFq
  congr 1
  simp only [List.map_append, List.map_map, List.map_cons, List.map_nil]
  rfl

/-- **FASTQ, plain `linear.Seq`**: for records without scores of their own (`wfFastqPlain`) the
    expected history is the rendering of the right-hand side of `fastq_roundtrip_plain` -/
theorem fastq_plain_expected_is_roundtrip (recs : List Biogo.Fastq.QRec)
    (hwf : ∀ r ∈ recs, wfFastqPlain r = true) :
    " ".intercalate (expectedFq true recs) =
      fastqCalls (recs.map (fun r => Biogo.Fastq.Call.ret ⟨some r, none⟩) ++ [Biogo.Fastq.Call.ret ⟨none, some .eof⟩]) := by
  unfold fastqCalls expectedFq
  congr 1
  simp only [List.map_append, List.map_map, List.map_cons, List.map_nil]
  congr 1
  apply List.map_congr_left
  intro r hr
  have hq : r.quals = [] := by
    have := hwf r hr
    simp only [wfFastqPlain, Bool.and_eq_true, List.isEmpty_iff] at this
    exact this.2
  simp only [Function.comp, fastqRet, if_true, hq]

/-- … hence, by `fastq_roundtrip` / `fastq_roundtrip_plain`: the expected history is the rendering
    of the model's read-back of the model's output, for every encoding with a printable range, both
    `+`-line styles and both end-of-input behaviours of the underlying reader -/
theorem fastq_expected_is_model (tabs : Biogo.Fastq.QTables) (enc : Biogo.Fastq.Encoding) (qid eofWithData : Bool)
    (recs : List Biogo.Fastq.QRec) :
    ((∀ r ∈ recs, wfFastq enc r = true) →
      " ".intercalate (expectedFq false recs) =
        fastqCalls (Biogo.Fastq.readAll ⟨.qseq enc, tabs⟩ eofWithData
          (Biogo.Fastq.writeAll tabs qid enc {} recs).1.bytes)) ∧
    ((∀ r ∈ recs, wfFastqPlain r = true) →
      " ".intercalate (expectedFq true recs) =
        fastqCalls (Biogo.Fastq.readAll ⟨.seq, tabs⟩ eofWithData
          (Biogo.Fastq.writeAll tabs qid .sanger {} (recs.map Biogo.Fastq.ofPlain)).1.bytes)) := by
  constructor
  · intro hwf
    rw [Biogo.Properties.C01.fastq_roundtrip tabs enc qid eofWithData recs hwf, fastq_expected_is_roundtrip]
  · intro hwf
    rw [Biogo.Properties.C01.fastq_roundtrip_plain tabs qid eofWithData recs hwf,
      fastq_plain_expected_is_roundtrip recs hwf]

/-- the reader/writer configuration the driver's model runs with (prefixes regenerated from the
    source) is the default one the theorems are stated for -/
theorem driver_cfg_is_default : fastaCfg = ({} : Biogo.Fasta.Cfg) := by
  unfold fastaCfg
  have h := Biogo.Properties.C01.source_constants
  rw [h.1, h.2.1]

/-! ### writers over a failing `io.Writer` (ops `fax`, `fqx`; fourth wave) -/

/-- **the demand at one failure point, declaratively**: no violation iff the token is
    `<counts>/<emitted>/<e>/1` with the two renderings equal — every `Write` of the run, the failed
    one included, returned exactly the bytes it emitted ("The byte count returned by each write
    equals the number of bytes actually emitted"), and the bytes emitted are the first bytes of the
    fault-free text.  Whether and where an error was reported (`e`) is not demanded. -/
theorem faultDemand_none_iff (k : Nat) (tok : String) :
    faultDemand k tok = none ↔ ∃ ns e, tok.splitOn "/" = [ns, ns, e, "1"] := by
  unfold faultDemand
  split
  · next ns ds e p h =>
    by_cases h1 : ns = ds
    · by_cases h2 : p = "1"
      · subst h1 h2; simp only [ne_eq, not_true_eq_false, if_false, true_iff]; exact ⟨ns, e, h⟩
      · simp only [h1, ne_eq, not_true_eq_false, if_false, h2, not_false_eq_true, if_true, reduceCtorEq, false_iff, not_exists]
        intro a b h3; rw [h] at h3; simp at h3; exact h2 h3.2.2.2
    · simp only [ne_eq, h1, not_false_eq_true, if_true, reduceCtorEq, false_iff, not_exists]
      intro a b h3; rw [h] at h3; simp at h3; exact h1 (h3.1.trans h3.2.1.symm)
  · next h =>
    simp only [reduceCtorEq, false_iff, not_exists]
    intro ns e h'
    exact h ns ns e "1" h'

/-- … and the demand on the whole observation is that demand at every failure point -/
theorem faultDemands_none_iff (toks : List String) : ∀ k,
    faultDemands k toks = none ↔ ∀ j (h : j < toks.length), faultDemand (k + j) toks[j] = none := by
  induction toks with
  | nil => intro k; simp [faultDemands]
  | cons t ts ih =>
    intro k
    unfold faultDemands
    cases hd : faultDemand k t with
    | some why =>
      simp only [reduceCtorEq, false_iff]
      intro h
      have := h 0 (by simp)
      simp [hd] at this
    | none =>
      simp only
      rw [ih (k + 1)]
      constructor
      · intro h j hj
        cases j with
        | zero => simpa using hd
        | succ j =>
          have := h j (by simpa using hj)
          simpa [Nat.add_assoc, Nat.add_comm 1 j] using this
      · intro h j hj
        have := h (j + 1) (by simpa using hj)
        simpa [Nat.add_assoc, Nat.add_comm 1 j] using this

/-- **the failing sink of the model** (`faultRun`, what the driver compares the implementation with):
    a writer that accepts `k` bytes, fed records whose fault-free texts have the lengths `lens`
    starting at offset `s ≤ k`, has emitted exactly the first `min k (s + Σ lens)` bytes when the run
    stops, the counts it returned add up to what was emitted, and no `Write` failed iff everything
    fitted. -/
theorem faultRun_total (k : Nat) (lens : List Nat) : ∀ (i s : Nat), s ≤ k →
    s + (faultRun k i s lens).1.sum = min k (s + lens.sum) ∧
    ((faultRun k i s lens).2 = none ↔ s + lens.sum ≤ k) := by
  induction lens with
  | nil => intro i s h; simp [faultRun]; omega
  | cons len rest ih =>
    intro i s h
    unfold faultRun
    by_cases hf : s + len ≤ k
    · have := ih (i + 1) (s + len) hf
      simp only [hf, if_true, List.sum_cons]
      constructor
      · omega
      · rw [this.2]; omega
    · simp only [hf, if_false, List.sum_cons, List.sum_nil]
      constructor
      · omega
      · simp; omega


example : faultRun 4 0 0 [3, 2, 5] = ([3, 1], some 1) := by decide

end Biogo.Properties.C01_checker
