/-
C01 — what the driver demands of a FASTA / FASTQ round trip (`Drive.C01.demands` with
`expectedFa` / `expectedFq`) is exactly the conclusion of `fasta_roundtrip` / `fastq_roundtrip` /
`fastq_roundtrip_plain`, rendered in the harness's notation, together with "returned count =
bytes emitted" (`fasta_write_count`, `fastq_write_count`).
-/
import Biogo.Drive.C01
import Biogo.Properties.C01

namespace Biogo.Properties.C01_checker
open Biogo.Drive.C01 Biogo.Drive.Seqio Biogo.Spec.Seqio

/-- **the demand, declaratively**: no violation for a parsed observation iff every returned count
    equals the bytes emitted (the two renderings coincide) and — for well-formed records — the
    reader's call history is token for token the expected one -/
theorem demands_none_iff (wf : Bool) (expected : List String) (ns ds : String) (calls : List String) :
    demands wf expected ns ds calls = none ↔ ns = ds ∧ (wf = true → calls = expected) := by
  unfold demands
  by_cases h1 : ns = ds <;> cases wf <;> by_cases h2 : calls = expected <;> simp [h1, h2]

/-- **FASTA**: the expected call history is the rendering of the right-hand side of
    `fasta_roundtrip` — the records in order, each returned without error, then `io.EOF` -/
theorem fasta_expected_is_roundtrip (recs : List Biogo.Fasta.Rec) :
    " ".intercalate (expectedFa recs) =
      fastaCalls (recs.map (fun r => Biogo.Fasta.Call.ret ⟨some r, none⟩) ++ [Biogo.Fasta.Call.ret ⟨none, some .eof⟩]) := by
  unfold fastaCalls expectedFa
  congr 1
  simp only [List.map_append, List.map_map, List.map_cons, List.map_nil]
  rfl

/-- … hence, by `fasta_roundtrip`: for well-formed records and a positive width the expected
    history is the rendering of what the model's reader returns on what the model's writer wrote -/
theorem fasta_expected_is_model (recs : List Biogo.Fasta.Rec) (w : Nat) (hw : 1 ≤ w)
    (hwf : ∀ r ∈ recs, wfFasta r = true) :
    ∃ sink ns, Biogo.Fasta.writeAll { width := w } {} recs = .ok (sink, ns) ∧
      " ".intercalate (expectedFa recs) = fastaCalls (Biogo.Fasta.readAll {} sink.bytes) := by
  obtain ⟨sink, ns, h1, h2⟩ := Biogo.Properties.C01.fasta_roundtrip recs w hw hwf
  exact ⟨sink, ns, h1, by rw [h2, fasta_expected_is_roundtrip]⟩

/-- the driver's scope `wf` for FASTA is the hypothesis of `fasta_roundtrip` -/
theorem fasta_scope (width : Nat) (recs : List Biogo.Fasta.Rec) :
    (decide (width ≥ 1) && recs.all wfFasta) = true ↔ 1 ≤ width ∧ ∀ r ∈ recs, wfFasta r = true := by
  simp [List.all_eq_true]

/-- **FASTQ, `linear.QSeq`**: the expected call history is the rendering of the right-hand side of
    `fastq_roundtrip` -/
theorem fastq_expected_is_roundtrip (recs : List Biogo.Fastq.QRec) :
    " ".intercalate (expectedFq false recs) =
      fastqCalls (recs.map (fun r => Biogo.Fastq.Call.ret ⟨some r, none⟩) ++ [Biogo.Fastq.Call.ret ⟨none, some .eof⟩]) := by
  unfold fastqCalls expectedFq
  congr 1
  simp only [List.map_append, List.map_map, List.map_cons, List.map_nil]
  rfl

/-- **FASTQ, plain `linear.Seq`**: for records without scores of their own (`wfFastqPlain`) the
    expected history is the rendering of the right-hand side of `fastq_roundtrip_plain` -/
theorem fastq_plain_expected_is_roundtrip (recs : List Biogo.Fastq.QRec)
    (hwf : ∀ r ∈ recs, wfFastqPlain r = true) :
    " ".intercalate (expectedFq true recs) =
      fastqCalls (recs.map (fun r => Biogo.Fastq.Call.ret ⟨some r, none⟩) ++ [Biogo.Fastq.Call.ret ⟨none, some .eof⟩]) := by
  unfold fastqCalls expectedFq
  congr 1
  simp only [List.map_append, List.map_map, List.map_cons, List.map_nil]
  congr 1
  apply List.map_congr_left
  intro r hr
  have hq : r.quals = [] := by
    have := hwf r hr
    simp only [wfFastqPlain, Bool.and_eq_true, List.isEmpty_iff] at this
    exact this.2
  simp only [Function.comp, fastqRet, if_true, hq]

/-- … hence, by `fastq_roundtrip` / `fastq_roundtrip_plain`: the expected history is the rendering
    of the model's read-back of the model's output, for every encoding with a printable range, both
    `+`-line styles and both end-of-input behaviours of the underlying reader -/
theorem fastq_expected_is_model (tabs : Biogo.Fastq.QTables) (enc : Biogo.Fastq.Encoding) (qid eofWithData : Bool)
    (recs : List Biogo.Fastq.QRec) :
    ((∀ r ∈ recs, wfFastq enc r = true) →
      " ".intercalate (expectedFq false recs) =
        fastqCalls (Biogo.Fastq.readAll ⟨.qseq enc, tabs⟩ eofWithData
          (Biogo.Fastq.writeAll tabs qid enc {} recs).1.bytes)) ∧
    ((∀ r ∈ recs, wfFastqPlain r = true) →
      " ".intercalate (expectedFq true recs) =
        fastqCalls (Biogo.Fastq.readAll ⟨.seq, tabs⟩ eofWithData
          (Biogo.Fastq.writeAll tabs qid .sanger {} (recs.map Biogo.Fastq.ofPlain)).1.bytes)) := by
  constructor
  · intro hwf
    rw [Biogo.Properties.C01.fastq_roundtrip tabs enc qid eofWithData recs hwf, fastq_expected_is_roundtrip]
  · intro hwf
    rw [Biogo.Properties.C01.fastq_roundtrip_plain tabs qid eofWithData recs hwf,
      fastq_plain_expected_is_roundtrip recs hwf]

/-- the reader/writer configuration the driver's model runs with (prefixes regenerated from the
    source) is the default one the theorems are stated for -/
theorem driver_cfg_is_default : fastaCfg = ({} : Biogo.Fasta.Cfg) := by
  unfold fastaCfg
  have h := Biogo.Properties.C01.source_constants
  rw [h.1, h.2.1]

end Biogo.Properties.C01_checker
