/-
C19 — promises under every schedule, for ALL eight `(mutable, recoverable, relay)` combinations
and every kind of caller (Fulfill, Fail, Recover, Break, Wait; any number, any values, nil
included).

Property theorems only.  They are about `Biogo.Promise.sys c` with `c.fixed = true` — the
transition system the driver (Biogo/Drive/C19.lean) executes under the forced schedules it shares
with the implementation, after the fix commits F19 (Wait under the mutex), 0095d35 (Fail tests
`set`) and 5f9d169 (a refused Recover leaves the promise alone).  `Reach` quantifies over every
finite schedule of the goroutines.

What is *not* claimed, because promise.go documents the opposite: `Break` empties the promise
"blocking all listeners", and `Recover` on a recoverable promise resets it whatever it holds —
so Waits may legitimately block, and the value of an immutable promise may change, when such
calls exist.  The theorems say exactly that these are the only ways (`no_deadlock_all`,
`NoReset`).
-/
import Biogo.Proofs.PromiseAll

namespace Biogo.Properties.C19_promise
open Biogo.LTS Biogo.Promise

variable {c : Cfg} {s s' : St} {i : Nat}

/-! ## Every schedule is a sequential history (all flags, all calls) -/

/-- "All of this holds under every scheduling of the goroutines involved" — for all eight flag
    combinations and all five kinds of call: every reachable state of the concurrent protocol is
    explained by a *sequential* history.  There is a list of events `(call, return value)` which,
    executed one call after the other on an empty promise with the sequential semantics of
    promise.go (`seqCall`: `fulfill`, `fail`, `Recover`, `Break`, and a Wait that returns the
    Result present), is possible, ends with the promise's current content, contains every call
    at most once, and contains exactly the calls that have passed their linearisation point,
    each with the return value it delivers.  So the sequential promise laws (`seq_*` in
    Properties/C19.lean) are all there is: no interleaving adds a behaviour. -/
theorem promise_linearizable (hfix : c.fixed = true) (hr : Reach (sys c) s) :
    ∃ hist : List (Nat × Ret),
      seqExec c.flags c.calls none hist = some (cur s) ∧
      (hist.map Prod.fst).Nodup ∧
      ∀ (j : Nat) (ret : Ret), (j, ret) ∈ hist ↔ (s.pcs[j]?).bind lp = some ret :=
  lin_reach hfix s hr

/-- Fulfill, Fail, Recover and Break are atomic: such a call runs only while nobody holds the
    mutex, it maps the content by its sequential function, returns that function's result, and
    leaves the mutex free. -/
theorem calls_atomic_under_mutex (hfix : c.fixed = true) (_hr : Reach (sys c) s)
    {call : Call} (hcall : c.calls[i]? = some call) (hnw : call ≠ .wait)
    (hstep : step c s i = some s') :
    s.mu = none ∧ s'.mu = none ∧ cur s = s.box ∧ cur s' = s'.box ∧
    cur s' = (atomicCall c.flags (cur s) call).1 ∧
    s'.pcs[i]? = some (.done (atomicCall c.flags (cur s) call).2) := by
  cases step_cases hfix hstep with
  | atomic call' b ret hcall' _ hpc hmu heq hs' =>
    rw [hcall] at hcall'; cases hcall'
    have hlt := lt_of_get hpc
    have hc1 : cur s = s.box := cur_mu_none hmu
    have hmu' : s'.mu = none := by rw [hs']; exact hmu
    have hc2 : cur s' = s'.box := cur_mu_none hmu'
    refine ⟨hmu, hmu', hc1, hc2, ?_, ?_⟩
    · rw [hc2, hc1, heq, hs']
    · rw [hc1, heq, hs']; simp [hlt]
  | take r hcall' _ _ _ _ => rw [hcall] at hcall'; cases hcall'; exact absurd rfl hnw
  | put r hcall' _ _ => rw [hcall] at hcall'; cases hcall'; exact absurd rfl hnw

/-! ## No deadlock (all flags, all calls) -/

/-- "without … deadlock", in full generality: in every reachable state either some goroutine can
    take a step, or the mutex is free and every call that has not returned is a Wait that has not
    taken anything, standing before an *empty* promise.  With `Break`/`Recover` callers that is
    the documented behaviour ("Break … blocking all listeners"); nothing else ever blocks: no
    Fulfill, Fail, Recover or Break waits for ever, no Wait is stuck holding the message, the
    mutex is never left locked, and no Wait sleeps while the promise holds a Result. -/
theorem no_deadlock_all (hfix : c.fixed = true) (hr : Reach (sys c) s) :
    (∃ i, (step c s i).isSome = true) ∨
    (s.mu = none ∧
      ∀ (i : Nat) (pc : APc), s.pcs[i]? = some pc → pc.isDone = false →
        c.calls[i]? = some .wait ∧ pc = .start ∧ s.box = none ∧ cur s = none) := by
  rcases enabled_or_stuck c s with h | h
  · exact Or.inl h
  · exact Or.inr (stuck_shape hfix (ginv_reach hfix s hr) h)

/-- a promise that holds a Result never blocks anybody: if some call has not returned, some
    goroutine can move -/
theorem settled_never_stuck (hfix : c.fixed = true) (hr : Reach (sys c) s)
    (hcur : cur s ≠ none) (hnd : allDone s = false) : ∃ i, (step c s i).isSome = true := by
  rcases no_deadlock_all hfix hr with h | ⟨_, h⟩
  · exact h
  · simp only [allDone] at hnd
    rw [List.all_eq_false] at hnd
    obtain ⟨pc, hm, hp⟩ := hnd
    obtain ⟨k, hk, hget⟩ := List.getElem_of_mem hm
    have := (h k pc (by simp [hk, hget]) (by simpa using hp)).2.2.2
    exact absurd this hcur

/-- the mutex is never leaked: whoever holds it is a Wait between its two blocks, and it can
    always take its next step; while it does, nobody else moves (the borrow window of F19 is
    closed: no other goroutine can observe the mailbox empty) -/
theorem mutex_never_leaks (hfix : c.fixed = true) (hr : Reach (sys c) s) {j : Nat}
    (hmu : s.mu = some j) :
    (∃ r, s.pcs[j]? = some (.borrowed r) ∧ c.calls[j]? = some .wait ∧ cur s = some r) ∧
    (step c s j).isSome = true ∧ ∀ k, k ≠ j → step c s k = none := by
  have hI := ginv_reach hfix s hr
  obtain ⟨r, hpc, hcur⟩ := cur_held hI hmu
  refine ⟨⟨r, hpc, (hI.bor j r hpc).2.2, hcur⟩, holder_enabled hfix hI hmu, ?_⟩
  intro k hkj
  cases hs : step c s k with
  | none => rfl
  | some t =>
    exfalso
    cases step_cases hfix hs with
    | atomic _ _ _ _ _ _ hmu' _ _ => rw [hmu] at hmu'; cases hmu'
    | take _ _ _ hmu' _ _ => rw [hmu] at hmu'; cases hmu'
    | put r' _ hpc' _ =>
      have := (hI.bor k r' hpc').1
      rw [hmu] at this; cases this; exact hkj rfl

/-- when no call can reset the promise (no Break; Recover only where it is refused) and at least
    one Fulfill or Fail exists, nothing ever blocks — for every flag combination, every value,
    nil included.  (Generalises `no_deadlock` of Properties/C19.lean.) -/
theorem no_deadlock_noreset (hfix : c.fixed = true) (hN : NoReset c) (hr : Reach (sys c) s)
    (hsetter : ∃ (k : Nat) (call : Call), c.calls[k]? = some call ∧ call.isFF = true)
    (hnd : allDone s = false) : ∃ i, (step c s i).isSome = true := by
  rcases no_deadlock_all hfix hr with h | ⟨_, h⟩
  · exact h
  · exfalso
    have hI := ginv_reach hfix s hr
    -- some call has not returned; it is a Wait before an empty promise
    simp only [allDone] at hnd
    rw [List.all_eq_false] at hnd
    obtain ⟨pc, hm, hp⟩ := hnd
    obtain ⟨j, hj, hget⟩ := List.getElem_of_mem hm
    have hcur : cur s = none := (h j pc (by simp [hj, hget]) (by simpa using hp)).2.2.2
    -- the Fulfill/Fail call: not at start (it would not be a Wait), so done, so the promise holds something
    obtain ⟨k, call, hcall, hff⟩ := hsetter
    have hlt : k < s.pcs.length := by
      rw [hI.len]
      rcases Nat.lt_or_ge k c.calls.length with h' | h'
      · exact h'
      · rw [List.getElem?_eq_none h'] at hcall; cases hcall
    have hpk : s.pcs[k]? = some s.pcs[k] := by simp [hlt]
    cases hk : s.pcs[k] with
    | done ret =>
      exact ffdone_reach hfix hN s hr k call ret hcall hff (by rw [hpk, hk]) hcur
    | start =>
      have := (h k .start (by rw [hpk, hk]) rfl).1
      rw [hcall] at this; cases this; simp [Call.isFF] at hff
    | borrowed r =>
      have := (h k (.borrowed r) (by rw [hpk, hk]) rfl).2.1
      cases this

/-! ## What a Wait returns (all flags, all calls) -/

/-- "every Wait, started before or after fulfilment, returns that value": a Wait that had not
    started in `s` and has returned `r` in `s'` performed, somewhere between the two, its take
    step in a state `t` in which the promise's settled Result was exactly `r` (in the mailbox,
    mutex free): what a Wait returns was the promise's content at a moment between the Wait's
    start and its return. -/
theorem wait_returns_settled_between (hfix : c.fixed = true)
    (hcall : c.calls[i]? = some .wait) (h0 : s.pcs[i]? = some .start)
    (hrf : ReachFrom (sys c) s s') {r : Res} (h1 : s'.pcs[i]? = some (.done (.res r))) :
    ∃ t t', ReachFrom (sys c) s t ∧ step c t i = some t' ∧ ReachFrom (sys c) t' s' ∧
      t.pcs[i]? = some .start ∧ t.mu = none ∧ t.box = some r ∧ cur t = some r := by
  obtain ⟨t, t', a, b, d, e, f, g, _⟩ := wait_history hfix hrf hcall h0 (r := r) (by simp [h1, lp])
  exact ⟨t, t', a, b, d, e, f, g, cur_of_box g⟩

/-- … and it still is the content at the instant the Wait returns: the step that makes a Wait
    return `r` starts in a state whose content is `r` and ends in one whose mailbox holds `r`,
    mutex free. -/
theorem wait_delivers_current (hfix : c.fixed = true) (hr : Reach (sys c) s)
    {r : Res} (hpc : s.pcs[i]? = some (.borrowed r)) :
    cur s = some r ∧
    ∃ t, step c s i = some t ∧ t.box = some r ∧ t.mu = none ∧ t.pcs[i]? = some (.done (.res r)) := by
  have hI := ginv_reach hfix s hr
  obtain ⟨hmu, hbox, hcall⟩ := hI.bor i r hpc
  have hlt := lt_of_get hpc
  refine ⟨cur_of_borrowed hbox hmu hpc,
    { box := some r, mu := none, pcs := s.pcs.set i (.done (.res r)) },
    by simp [step, hcall, hpc, hfix], rfl, rfl, by simp [hlt]⟩

/-- nothing out of thin air: whatever the promise holds is the value of a call that reported
    success (Fulfill returned nil, Fail or Recover returned true), with that call's error or the
    relayed "already set" error — hence so is everything a Wait delivers. -/
theorem content_has_a_source (hfix : c.fixed = true) (hr : Reach (sys c) s) {r : Res}
    (hcur : cur s = some r) :
    ∃ (j : Nat) (call : Call) (ret : Ret), c.calls[j]? = some call ∧ s.pcs[j]? = some (.done ret) ∧
      (APc.done ret).isWin = true ∧ r.val = call.valueOf ∧
      (r.err = call.errOf ∨ r.err = some .alreadySet) :=
  prov_reach hfix s hr r hcur

/-! ## Immutable promises (any relay flag, any values) -/

/-- the calls of C19's promise sentence and more: Fulfill and Fail with any values (nil
    included), Wait, and Recover where it is refused — everything except the two calls that
    promise.go documents as resetting the promise -/
example :
    let c : Cfg := { flags := ⟨false, false, true⟩,
                     calls := [.fulfill none, .fail (some 5) (some (.user 7)), .recover (some 3), .wait, .fulfill (some 1)],
                     fixed := true }
    NoReset c := by
  intro c call h; simp [c] at h; rcases h with h | h | h | h | h <;> subst h <;> rfl

/-- "An immutable Promise takes the value of exactly one successful Fulfill": under every
    schedule at most one Fulfill/Fail reports success, and exactly one has once the promise holds
    anything.  Any relay flag, any values (a promise fulfilled with nil included — fix 0095d35),
    refused Recovers allowed (fix 5f9d169). -/
theorem immutable_single_assignment (hfix : c.fixed = true) (hm : c.flags.mutable = false)
    (hN : NoReset c) (hr : Reach (sys c) s) :
    s.pcs.countP APc.isWin ≤ 1 ∧ (cur s ≠ none ↔ s.pcs.countP APc.isWin = 1) := by
  have hW : s.pcs.countP APc.isWin = if cur s = none then 0 else 1 := wins_reach hfix hm hN s hr
  cases hc : cur s with
  | none =>
    have h0 : s.pcs.countP APc.isWin = 0 := by rw [hW, hc]; rfl
    simp [h0]
  | some r =>
    have h1 : s.pcs.countP APc.isWin = 1 := by rw [hW, hc]; rfl
    simp [h1]

/-- "an immutable promise's value never changes after the first success": once the promise
    holds `r`, in every later state it holds a Result with the same value, and the same error —
    or, on a relaying promise, the "already set" error relayed into a Result that had none. -/
theorem immutable_value_never_changes (hfix : c.fixed = true) (hm : c.flags.mutable = false)
    (hN : NoReset c) (hr : Reach (sys c) s) {r : Res} (hcur : cur s = some r)
    (hrf : ReachFrom (sys c) s s') :
    ∃ r', cur s' = some r' ∧ r'.val = r.val ∧
      (r'.err = r.err ∨ (c.flags.relay = true ∧ r.err = none ∧ r'.err = some .alreadySet)) :=
  cur_ext_stable hfix hm hN (ginv_reach hfix s hr) hrf hcur

/-- without relay the whole Result never changes -/
theorem immutable_result_never_changes (hfix : c.fixed = true) (hm : c.flags.mutable = false)
    (hrl : c.flags.relay = false) (hN : NoReset c) (hr : Reach (sys c) s) {r : Res}
    (hcur : cur s = some r) (hrf : ReachFrom (sys c) s s') : cur s' = some r := by
  obtain ⟨r', h1, h2⟩ := cur_ext_stable hfix hm hN (ginv_reach hfix s hr) hrf hcur
  rw [h1, Ext.eq_of_norelay hrl h2]

/-- the step form, with no assumption on the other calls: the only calls that change the value
    of an immutable promise are Break and Recover on a recoverable promise -/
theorem immutable_value_changed_only_by_reset (hfix : c.fixed = true) (hm : c.flags.mutable = false)
    (hr : Reach (sys c) s) {call : Call} (hcall : c.calls[i]? = some call)
    (hnr : call.resets c.flags = false) {r : Res} (hcur : cur s = some r)
    (hstep : step c s i = some s') :
    ∃ r', cur s' = some r' ∧ r'.val = r.val ∧
      (r'.err = r.err ∨ (c.flags.relay = true ∧ r.err = none ∧ r'.err = some .alreadySet)) := by
  rcases step_cur hfix (ginv_reach hfix s hr) hstep with ⟨call', hcall', _, _, _, hc1, hc2⟩ | ⟨_, hc, _⟩
  · rw [hcall] at hcall'; cases hcall'
    rw [hc1] at hcur
    obtain ⟨r', hr', hext⟩ := atomic_immutable c.flags hm call r hnr
    exact ⟨r', by rw [hc2, hcur, hr'], hext⟩
  · exact ⟨r, by rw [hc, hcur], Ext.refl _ r⟩

/-- "takes the value of exactly one successful Fulfill": a Fulfill that reported success (or a
    Fail that did) has its value in the promise in every later state, with its error — or the
    relayed one. -/
theorem immutable_takes_successful_value (hfix : c.fixed = true) (hm : c.flags.mutable = false)
    (hN : NoReset c) (hr : Reach (sys c) s) {call : Call} {ret : Ret} {r0 : Res}
    (hcall : c.calls[i]? = some call) (hpc : s.pcs[i]? = some (.done ret))
    (hobs : obsRes call ret = some r0) (hrf : ReachFrom (sys c) s s') :
    ∃ r', cur s' = some r' ∧ r'.val = r0.val ∧
      (r'.err = r0.err ∨ (c.flags.relay = true ∧ r0.err = none ∧ r'.err = some .alreadySet)) := by
  obtain ⟨r, hc, he⟩ := obs_reach hfix hm hN s hr i call _ ret r0 hcall hpc rfl hobs
  obtain ⟨r', hc', he'⟩ := cur_ext_stable hfix hm hN (ginv_reach hfix s hr) hrf hc
  exact ⟨r', hc', he.trans he'⟩

/-- "every other Fulfill returns an error and leaves it unchanged", and the relay semantics as
    documented in promise.go ("Promises created with relay set to true will relay an error
    generated by attempting to fulfill an immutable fulfilled promise"): a Fulfill that runs on
    an immutable promise holding `r`
    * `r` carries no error: returns "already set"; the promise keeps `r` — with relay its error
      becomes the relayed "already set" error, the value stays;
    * `r` carries an error: returns "failed promise" (with relay: "cannot relay"); the promise
      keeps `r` unchanged. -/
theorem relay_semantics (hfix : c.fixed = true) (hm : c.flags.mutable = false)
    (hr : Reach (sys c) s) {v : Option Nat} (hcall : c.calls[i]? = some (.fulfill v))
    {r : Res} (hcur : cur s = some r) (hstep : step c s i = some s') :
    (r.err = none →
      s'.pcs[i]? = some (.done (.ferr (some .alreadySet))) ∧
      cur s' = some ⟨r.val, if c.flags.relay then some .alreadySet else none⟩) ∧
    (∀ e, r.err = some e →
      s'.pcs[i]? = some (.done (.ferr (some (if c.flags.relay then .cannotRelay else .failedPromise)))) ∧
      cur s' = some r) := by
  obtain ⟨_, _, _, _, h5, h6⟩ := calls_atomic_under_mutex hfix hr hcall (by simp) hstep
  rw [hcur] at h5 h6
  cases hf : c.flags with | mk m rc l =>
  rw [hf] at hm h5 h6; simp at hm; subst hm
  cases r with | mk val err =>
  constructor
  · intro he; simp at he; subst he
    cases l <;> simp [atomicCall, fulfill, messageState] at h5 h6 ⊢ <;> exact ⟨h6, h5⟩
  · intro e he; simp at he; subst he
    cases l <;> simp [atomicCall, fulfill, messageState] at h5 h6 ⊢ <;> exact ⟨h6, h5⟩

/-- a Fail on an immutable promise that holds anything — `Result{nil, nil}` after `Fulfill(nil)`
    included — reports false and changes nothing (any flags, in fact) -/
theorem fail_on_settled_refused (hfix : c.fixed = true) (hr : Reach (sys c) s)
    {v : Option Nat} {e : Option ErrV} (hcall : c.calls[i]? = some (.fail v e))
    {r : Res} (hcur : cur s = some r) (hstep : step c s i = some s') :
    s'.pcs[i]? = some (.done (.bool false)) ∧ cur s' = some r := by
  obtain ⟨_, _, _, _, h5, h6⟩ := calls_atomic_under_mutex hfix hr hcall (by simp) hstep
  rw [hcur] at h5 h6
  simp [atomicCall, fail_set] at h5 h6
  exact ⟨h6, h5⟩

/-- a refused Recover (non-recoverable promise) reports false and changes nothing -/
theorem refused_recover_changes_nothing (hfix : c.fixed = true) (hr : Reach (sys c) s)
    (hnrc : c.flags.recoverable = false) {v : Option Nat} (hcall : c.calls[i]? = some (.recover v))
    (hstep : step c s i = some s') :
    s'.pcs[i]? = some (.done (.bool false)) ∧ cur s' = cur s := by
  obtain ⟨_, _, _, _, h5, h6⟩ := calls_atomic_under_mutex hfix hr hcall (by simp) hstep
  simp [atomicCall, recover, hnrc] at h5 h6
  exact ⟨h6, h5⟩

/-- "every Wait, started before or after fulfilment, returns that value (or the failure's
    error)": what a Wait has delivered (or taken) stays the content for ever, up to the relayed
    error; so all Waits deliver the same value, and without relay the very same Result — the
    winner's (`immutable_takes_successful_value`). -/
theorem immutable_waits_deliver_the_value (hfix : c.fixed = true) (hm : c.flags.mutable = false)
    (hN : NoReset c) (hr : Reach (sys c) s)
    {r0 : Res} (hcall : c.calls[i]? = some .wait) (hpc : s.pcs[i]? = some (.done (.res r0))) :
    (∀ s', ReachFrom (sys c) s s' → ∃ r', cur s' = some r' ∧ r'.val = r0.val ∧
        (r'.err = r0.err ∨ (c.flags.relay = true ∧ r0.err = none ∧ r'.err = some .alreadySet))) ∧
    (∀ (j : Nat) (r1 : Res), c.calls[j]? = some .wait → s.pcs[j]? = some (.done (.res r1)) →
        r1.val = r0.val ∧ (c.flags.relay = false → r1 = r0)) := by
  have hO := obs_reach hfix hm hN s hr
  constructor
  · intro s' hrf
    exact immutable_takes_successful_value hfix hm hN hr hcall hpc rfl hrf
  · intro j r1 hcj hpj
    obtain ⟨r, hc, he0⟩ := hO i .wait _ (.res r0) r0 hcall hpc rfl rfl
    obtain ⟨r', hc', he1⟩ := hO j .wait _ (.res r1) r1 hcj hpj rfl rfl
    rw [hc] at hc'; cases hc'
    refine ⟨he1.1.symm.trans he0.1, ?_⟩
    intro hrl
    rw [← Ext.eq_of_norelay hrl he0, ← Ext.eq_of_norelay hrl he1]

/-! ## Mutable promises -/

/-- "Mutable promises may have their value state changed with subsequent Fulfill calls": on a
    mutable promise a Fulfill succeeds and installs its value unless the promise carries an
    error; then it fails ("failed promise" / with relay "cannot relay") and changes nothing. -/
theorem mutable_fulfill_replaces (hfix : c.fixed = true) (hm : c.flags.mutable = true)
    (hr : Reach (sys c) s) {v : Option Nat} (hcall : c.calls[i]? = some (.fulfill v))
    (hstep : step c s i = some s') :
    ((cur s = none ∨ ∃ r, cur s = some r ∧ r.err = none) →
      s'.pcs[i]? = some (.done (.ferr none)) ∧ cur s' = some ⟨v, none⟩) ∧
    (∀ r e, cur s = some r → r.err = some e →
      (∃ fe, s'.pcs[i]? = some (.done (.ferr (some fe)))) ∧ cur s' = some r) := by
  obtain ⟨_, _, _, _, h5, h6⟩ := calls_atomic_under_mutex hfix hr hcall (by simp) hstep
  cases hf : c.flags with | mk m rc l =>
  rw [hf] at hm h5 h6; simp at hm; subst hm
  constructor
  · intro h
    rcases h with h | ⟨r, h, he⟩
    · rw [h] at h5 h6
      cases l <;> simp [atomicCall, fulfill, messageState, zero] at h5 h6 ⊢ <;> exact ⟨h6, h5⟩
    · rw [h] at h5 h6
      cases r with | mk val err =>
      simp at he; subst he
      cases l <;> simp [atomicCall, fulfill, messageState] at h5 h6 ⊢ <;> exact ⟨h6, h5⟩
  · intro r e h he
    rw [h] at h5 h6
    cases r with | mk val err =>
    simp at he; subst he
    cases l <;> simp [atomicCall, fulfill, messageState] at h5 h6 ⊢ <;> exact ⟨⟨_, h6⟩, h5⟩

/-- without resetting calls a promise that holds a Result holds one for ever (any flags) -/
theorem settled_stays_settled (hfix : c.fixed = true) (hN : NoReset c) (hr : Reach (sys c) s)
    (hcur : cur s ≠ none) (hrf : ReachFrom (sys c) s s') : cur s' ≠ none := by
  cases hc : cur s with
  | none => exact absurd hc hcur
  | some r =>
    obtain ⟨r', h⟩ := cur_some_stable hfix hN (ginv_reach hfix s hr) hrf hc
    rw [h]; simp

/-! ## The two sequential defects as found (before fixes 0095d35 and 5f9d169) -/

/-- `(*Promise).fail` as found: "not set" was read off the message's content -/
def failAsFound (box : Option Res) (v : Option Nat) (e : Option ErrV) : Option Res × Bool :=
  let (r, _) := messageState box
  if r.err.isNone && r.val.isNone then
    (some { val := (if v.isSome then v else r.val), err := e }, true)
  else (some r, false)

/-- `(*Promise).Recover` as found: the message was taken before the `recoverable` test -/
def recoverAsFound (f : Flags) (_box : Option Res) (v : Option Nat) : Option Res × Bool :=
  if f.recoverable then
    if v.isSome then ((fulfill f none v).1, true) else (none, true)
  else (none, false)

/-- as found, an immutable promise fulfilled with nil could be failed afterwards: two setters
    succeed, and the Result changes under the waiters' feet -/
theorem fail_after_fulfill_nil_as_found :
    let f : Flags := ⟨false, false, false⟩
    let b1 := (fulfill f none none)
    b1 = (some ⟨none, none⟩, none) ∧
    failAsFound b1.1 (some 5) (some (.user 7)) = (some ⟨some 5, some (.user 7)⟩, true) ∧
    Promise.fail b1.1 (some 5) (some (.user 7)) = (some ⟨none, none⟩, false) := by
  decide

/-- as found, a refused Recover emptied the promise: an immutable, non-recoverable promise
    fulfilled with 1 could then be fulfilled with 2 -/
theorem refused_recover_dropped_message_as_found :
    let f : Flags := ⟨false, false, false⟩
    let b1 := (fulfill f none (some 1)).1
    recoverAsFound f b1 (some 5) = (none, false) ∧
    (fulfill f (recoverAsFound f b1 (some 5)).1 (some 2)) = (some ⟨some 2, none⟩, none) ∧
    Promise.recover f b1 (some 5) = (b1, false) ∧
    (fulfill f (Promise.recover f b1 (some 5)).1 (some 2)).2 = some .alreadySet := by
  decide

/-! ## Non-vacuity -/

/-- a run with every kind of call on a mutable, recoverable, relaying promise: Fulfill(1); a
    Wait takes it; Break is blocked while the waiter holds the mutex, then empties the promise;
    the second Wait is blocked; Recover(3) refills; Fail is refused; everything has returned -/
example :
    let c : Cfg := { flags := ⟨true, true, true⟩,
                     calls := [.fulfill (some 1), .wait, .brk, .wait, .recover (some 3), .fail none (some (.user 7))],
                     fixed := true }
    step c (runSkip (sys c) (init c) [0, 1]) 2 = none ∧
    step c (runSkip (sys c) (init c) [0, 1, 1, 2]) 3 = none ∧
    (runSkip (sys c) (init c) [0, 1, 1, 2, 3, 4, 3, 3, 5]).pcs =
      [.done (.ferr none), .done (.res ⟨some 1, none⟩), .done .unit, .done (.res ⟨some 3, none⟩),
       .done (.bool true), .done (.bool false)] := by
  decide

/-- the stuck shape of `no_deadlock_all` does occur: Fulfill, Break, then a Wait -/
example :
    let c : Cfg := { flags := ⟨false, false, false⟩, calls := [.fulfill (some 1), .brk, .wait], fixed := true }
    let s := runSkip (sys c) (init c) [0, 1]
    (∀ i ∈ [0, 1, 2], step c s i = none) ∧ allDone s = false ∧ cur s = none := by
  decide

/-- relay: the rejected second Fulfill stores its error; the Wait delivers value 1 with it -/
example :
    let c : Cfg := { flags := ⟨false, false, true⟩, calls := [.fulfill (some 1), .fulfill (some 2), .wait], fixed := true }
    (runSkip (sys c) (init c) [0, 1, 2, 2]).pcs =
      [.done (.ferr none), .done (.ferr (some .alreadySet)), .done (.res ⟨some 1, some .alreadySet⟩)] := by
  decide

end Biogo.Properties.C19_promise
