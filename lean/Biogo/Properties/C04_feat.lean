/-
C04 (part feat) — BED and GFF inputs yield the same features with CRLF or LF and whether or
not the last line ends in a newline, "so the final record of a file is never silently
dropped".  Property theorems only; they are about `Biogo.Bed.readAll` / `Biogo.Gff.readAll`,
the functions the driver runs, and hold for every byte string (valid file or not).
-/
import Biogo.Model.Bed
import Biogo.Model.Gff
import Biogo.Proofs.FeatTrim

namespace Biogo.Properties.C04_feat
open Biogo.BytesFeat

/-- BED, every column count: CRLF instead of LF terminators changes nothing. -/
theorem bed_read_crlf (n : Nat) (bs : Bytes) : Bed.readAll n (crlf bs) = Bed.readAll n bs := by
  unfold Bed.readAll Bed.trimmedLines
  rw [map_trimSpace_lines_crlf]

/-- BED, every column count: a file whose last line lacks the final newline reads exactly as
    the same file with the newline added — the last record is not dropped. -/
theorem bed_read_no_final_newline (n : Nat) (x : Bytes) (hx : x ≠ []) (hlast : x.getLast hx ≠ 10) :
    Bed.readAll n x = Bed.readAll n (x ++ [10]) := by
  unfold Bed.readAll Bed.trimmedLines
  rw [map_trimSpace_lines_append_nl x hx hlast]

/-- GFF (feature lines, metadata lines, inline sequences), any float/date parser: CRLF instead
    of LF terminators changes nothing — neither the calls nor the reader's metadata. -/
theorem gff_read_crlf (o : Gff.Oracles) (bs : Bytes) : Gff.readAll o (crlf bs) = Gff.readAll o bs := by
  unfold Gff.readAll Gff.trimmedLines
  rw [map_trimSpace_lines_crlf]

/-- GFF incl. inline sequences (`##DNA id … ##end-DNA`): a missing final newline changes nothing. -/
theorem gff_read_no_final_newline (o : Gff.Oracles) (x : Bytes) (hx : x ≠ []) (hlast : x.getLast hx ≠ 10) :
    Gff.readAll o x = Gff.readAll o (x ++ [10]) := by
  unfold Gff.readAll Gff.trimmedLines
  rw [map_trimSpace_lines_append_nl x hx hlast]

/-- both at once: CRLF terminators and no final terminator -/
theorem bed_read_crlf_no_final_newline (n : Nat) (x : Bytes) (hx : x ≠ []) (hlast : x.getLast hx ≠ 10) :
    Bed.readAll n (crlf x) = Bed.readAll n (x ++ [10]) := by
  rw [bed_read_crlf, bed_read_no_final_newline n x hx hlast]

theorem gff_read_crlf_no_final_newline (o : Gff.Oracles) (x : Bytes) (hx : x ≠ []) (hlast : x.getLast hx ≠ 10) :
    Gff.readAll o (crlf x) = Gff.readAll o (x ++ [10]) := by
  rw [gff_read_crlf, gff_read_no_final_newline o x hx hlast]

/-! non-vacuity and the witnesses of the defect repaired by F4: the unterminated last record is read -/

example : Bed.readAll 3 (ofString "chr1\t1\t10\nchr2\t5\t20") =
    [.record { width := 3, chrom := ofString "chr1", start := 1, stop := 10 },
     .record { width := 3, chrom := ofString "chr2", start := 5, stop := 20 }, .eof] := by decide +kernel

example : (Gff.readAll ⟨fun _ => none, fun _ => [], fun _ => false⟩ (ofString "##DNA x\n##acgt\n##end-DNA")).1 =
    [.item (.sequence (ofString "x") 0 (ofString "acgt")), .eof] := by decide +kernel

end Biogo.Properties.C04_feat
