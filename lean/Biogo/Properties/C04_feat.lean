/-
C04 (part feat) — BED and GFF inputs yield the same features with CRLF or LF and whether or
not the last line ends in a newline.  Property theorems only.
-/
import Biogo.Model.Bed
import Biogo.Model.Gff

namespace Biogo.Properties.C04_feat
open Biogo.BytesFeat

/-- helper: an unterminated tail is still a line -/
theorem lines_singleton_tail (c : UInt8) (h : c ≠ 10) : lines [c] = [[c]] := by
  simp [lines, h]

end Biogo.Properties.C04_feat
