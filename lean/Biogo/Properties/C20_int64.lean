/-
C20 — "1-based/0-based conversions are mutually inverse" over Go's `int` as it is on the 64-bit
platforms (`Int64`, `pos--` / `pos++` wrap around), not over unbounded integers: for which
arguments the inverse laws hold bit-exactly, what happens at the one argument where they do
not, and that no implementation returning an `int` could do better there.
-/
import Biogo.Model.Feat
import Biogo.Proofs.Feat64
import Biogo.Properties.C20

namespace Biogo.Properties.C20_int64
open Biogo.Feat Biogo.Proofs.Feat64

deriving instance DecidableEq for Except

/-- **The bit-exact model refines the unbounded one**: read as integers, `OneToZero` over `Int64`
    is `OneToZero` over the integers for every argument (it never overflows: `pos--` only for
    `pos > 0`), and `ZeroToOne` over `Int64` is `ZeroToOne` over the integers for every argument but
    `math.MaxInt64`.  So the theorems `oneToZero_zeroToOne`, `zeroToOne_oneToZero` of
    `Properties/C20.lean` are about the real `int` arithmetic everywhere except there. -/
theorem conversions64_refine (p : Int64) :
    (oneToZero64 p).map Int64.toInt = oneToZero p.toInt ∧
    (p ≠ Int64.maxValue → (zeroToOne64 p).toInt = zeroToOne p.toInt) :=
  ⟨toInt_oneToZero64 p, toInt_zeroToOne64 p⟩

/-- **`OneToZero ∘ ZeroToOne` is the identity** on every `int` except `math.MaxInt64`. -/
theorem oneToZero64_zeroToOne64 (p : Int64) (hp : p ≠ Int64.maxValue) :
    oneToZero64 (zeroToOne64 p) = .ok p := by
  apply except_toInt_ok
  rw [toInt_oneToZero64, toInt_zeroToOne64 p hp]
  exact Biogo.Properties.C20.oneToZero_zeroToOne p.toInt

/-- At `math.MaxInt64` the increment wraps: `ZeroToOne(MaxInt64) = MinInt64`, and `OneToZero` of
    that is `MinInt64`, not `MaxInt64`. -/
theorem zeroToOne64_max :
    zeroToOne64 Int64.maxValue = Int64.minValue ∧
    oneToZero64 (zeroToOne64 Int64.maxValue) = .ok Int64.minValue := by decide

/-- … and this is not a defect of `ZeroToOne`: `math.MaxInt64` is not a value of `OneToZero` at all
    (a 0-based `MaxInt64` has no 1-based counterpart in an `int`), so no function whatsoever in place
    of `ZeroToOne` satisfies the law at that argument. -/
theorem maxInt64_not_a_zero_based_image (q : Int64) : oneToZero64 q ≠ .ok Int64.maxValue := by
  intro h
  have h1 := toInt_oneToZero64 q
  rw [h] at h1
  have hq := Int64.toInt_lt q
  simp only [Except.map, Int64.toInt_maxValue] at h1
  unfold oneToZero at h1
  split at h1
  · cases h1
  · split at h1
    · simp only [Except.ok.injEq] at h1; omega
    · simp only [Except.ok.injEq] at h1; omega

/-- so: the law holds exactly for `p ≠ math.MaxInt64` -/
theorem oneToZero64_zeroToOne64_iff (p : Int64) :
    oneToZero64 (zeroToOne64 p) = .ok p ↔ p ≠ Int64.maxValue := by
  constructor
  · intro h hp
    subst hp
    exact maxInt64_not_a_zero_based_image _ h
  · exact oneToZero64_zeroToOne64 p

/-- **`ZeroToOne ∘ OneToZero` is the identity** on every valid 1-based `int` (`p ≠ 0`), the two
    boundary values `math.MinInt64` and `math.MaxInt64` included. -/
theorem zeroToOne64_oneToZero64 (p : Int64) (hp : p ≠ 0) : (oneToZero64 p).map zeroToOne64 = .ok p := by
  have h1 := Int64.le_toInt p
  have h2 := Int64.toInt_lt p
  have hp' : ¬ p.toInt = 0 := fun x => hp ((eq_zero_iff64 p).mpr x)
  have hr := toInt_oneToZero64 p
  cases hx : oneToZero64 p with
  | error e =>
    rw [hx] at hr
    unfold oneToZero at hr
    simp only [hp', if_false, Except.map] at hr
    split at hr <;> cases hr
  | ok r =>
    rw [hx] at hr
    simp only [Except.map, Except.ok.injEq]
    apply Int64.toInt_inj.mp
    have hz := Biogo.Properties.C20.zeroToOne_oneToZero p.toInt hp'
    rw [← hr] at hz
    simp only [Except.map, Except.ok.injEq] at hz
    have hrne : r ≠ Int64.maxValue := by
      rw [ne_max_iff64]
      unfold oneToZero at hr
      simp only [hp', if_false, Except.map] at hr
      split at hr
      · simp only [Except.ok.injEq] at hr; omega
      · simp only [Except.ok.injEq] at hr; omega
    rw [toInt_zeroToOne64 r hrne]
    exact hz

/-- and `OneToZero(0)` is the documented panic -/
theorem oneToZero64_zero : oneToZero64 0 = .error .zeroIndex := by decide

-- non-vacuity at the boundaries
example : (oneToZero64 Int64.maxValue).map zeroToOne64 = .ok Int64.maxValue ∧
    (oneToZero64 Int64.minValue).map zeroToOne64 = .ok Int64.minValue ∧
    oneToZero64 (zeroToOne64 (Int64.maxValue - 1)) = .ok (Int64.maxValue - 1) ∧
    oneToZero64 (zeroToOne64 Int64.minValue) = .ok Int64.minValue := by decide

end Biogo.Properties.C20_int64
