/-
C08, part `aff`: optimality of the affine aligners (property theorems only).

The property: "the total score of the alignment returned by the Needleman-Wunsch aligners
equals the maximum over all global alignments … under the … affine gap model".

Full statement for `NWAffine` (sequences non-empty, gap scores and gap-open ≤ 0):

    ∃ ps, nwAlign S open r q = .ok ps ∧
      (∀ a, IsGlobal a r q → scoreAff S open a ≤ total ps) ∧
      (∃ a, IsGlobal a r q ∧ scoreAff S open a = total ps)

It is false of the code (`nwAffine_not_opt`, finding K1): the three-layer recurrence has no
transition between the two gap layers.  What holds is the same statement over the alignments
with no gap directly next to a gap in the other sequence (`nwAffine_opt_partial`), which is the
full statement whenever a letter pair never scores less than its two letters against gaps
(`noAdj_suffices`, `nwAffine_opt_of_side_condition`).
-/
import Biogo.Proofs.NWAffine
import Biogo.Proofs.SWAffine
import Biogo.Proofs.FittedAffine
import Biogo.Proofs.NoAdjSuffices
import Biogo.Proofs.FittedClass

namespace Biogo.Properties.C08_aff
open Biogo.Spec.Alignment Biogo.AlignAff Biogo.Spec.AffineOpt
open Biogo.Proofs.AffineOpt Biogo.Proofs.NWAffine Biogo.Proofs.NoAdjSuffices

/-- The yardstick of the check is what it claims to be: `globalOpt true` is the maximum of
    the affine score over all global alignments (`none` never arises for an existing
    alignment), `globalOpt false` the maximum over those without adjacent opposite gaps. -/
theorem globalOpt_optimal (cross : Bool) (S : Matrix) (gapOpen : Int) (r q : List Nat) :
    (∀ a, IsGlobal a r q → (cross = true ∨ NoAdj a) →
        ∃ x, globalOpt cross S gapOpen r q = some x ∧ scoreAff S gapOpen a ≤ x) ∧
    (∀ x, globalOpt cross S gapOpen r q = some x →
        ∃ a, IsGlobal a r q ∧ (cross = true ∨ NoAdj a) ∧ scoreAff S gapOpen a = x) := by
  have h := globalOpt_isOpt cross S gapOpen r q
  exact ⟨fun a hg hc => h.1 a ⟨hg, hc⟩, fun x hx => let ⟨a, ha, e⟩ := h.2 x hx; ⟨a, ha.1, ha.2, e⟩⟩

/-- the yardstick for the local aligners: `localOpt cross` is the maximum of the affine score
    over all local alignments (`cross`) / those without adjacent opposite gaps, the empty
    alignment (score 0) included -/
theorem localOpt_optimal (cross : Bool) (S : Matrix) (gapOpen : Int) (r q : List Nat) :
    (∀ a, IsLocal a r q → (cross = true ∨ NoAdj a) →
        ∃ x, localOpt cross S gapOpen r q = some x ∧ scoreAff S gapOpen a ≤ x) ∧
    (∀ x, localOpt cross S gapOpen r q = some x →
        ∃ a, IsLocal a r q ∧ (cross = true ∨ NoAdj a) ∧ scoreAff S gapOpen a = x) := by
  have h := localOpt_isOpt cross S gapOpen r q
  exact ⟨fun a hg hc => h.1 a ⟨hg, hc⟩, fun x hx => let ⟨a, ha, e⟩ := h.2 x hx; ⟨a, ha.1, ha.2, e⟩⟩

/-- the yardstick for the fitted aligners: `fittedOpt cross … e` is the maximum of the affine
    score over the alignments of the whole query with a reference segment ending at `e` -/
theorem fittedOpt_optimal (cross : Bool) (S : Matrix) (gapOpen : Int) (r q : List Nat) (e : Nat)
    (he : e ≤ r.length) :
    (∀ a, IsFitted a r q e → (cross = true ∨ NoAdj a) →
        ∃ x, fittedOpt cross S gapOpen r q e = some x ∧ scoreAff S gapOpen a ≤ x) ∧
    (∀ x, fittedOpt cross S gapOpen r q e = some x →
        ∃ a, IsFitted a r q e ∧ (cross = true ∨ NoAdj a) ∧ scoreAff S gapOpen a = x) := by
  have h := fittedOpt_isOpt cross S gapOpen r q e he
  exact ⟨fun a hg hc => h.1 a ⟨hg, hc⟩, fun x hx => let ⟨a, ha, e⟩ := h.2 x hx; ⟨a, ha.1, ha.2, e⟩⟩

/-- **C08, NWAffine, the part that holds** (`_partial`: the maximum is over the global
    alignments without adjacent opposite gaps, not over all of them — finding K1).
    For all matrices, gap-open values and non-empty sequences the model of `NWAffine` returns
    pairs whose total is an upper bound for every such alignment and is attained by one. -/
theorem nwAffine_opt_partial (S : Matrix) (gapOpen : Int) (r q : List Nat) (hr : r ≠ []) (hq : q ≠ []) :
    ∃ ps, nwAlign S gapOpen r q = .ok ps ∧
      (∀ a, IsGlobal a r q → NoAdj a → scoreAff S gapOpen a ≤ total ps) ∧
      (∃ a, IsGlobal a r q ∧ NoAdj a ∧ scoreAff S gapOpen a = total ps) := by
  obtain ⟨ps, x, hps, hx, htot⟩ := nwAlign_total S gapOpen r q hr hq
  have h := globalOpt_isOpt false S gapOpen r q
  refine ⟨ps, hps, ?_, ?_⟩
  · intro a hg hn
    obtain ⟨y, hy, hle⟩ := h.1 a ⟨hg, Or.inr hn⟩
    rw [hx] at hy
    cases hy
    omega
  · obtain ⟨a, ⟨hg, hn⟩, e⟩ := h.2 x hx
    rcases hn with hn | hn
    · cases hn
    · exact ⟨a, hg, hn, by omega⟩

/-- **C08, SWAffine, the part that holds** (`_partial`: maximum over the local alignments
    without adjacent opposite gaps — K1 — "zero if none is positive" being the empty
    alignment).  For all matrices with non-positive gap scores, every gap-open ≤ 0 and all
    sequences the model of `SWAffine` (after fix F11) returns pairs whose total bounds every
    such alignment and is attained by one. -/
theorem swAffine_opt_partial (S : Matrix) (gapOpen : Int) (ho : gapOpen ≤ 0)
    (hg : ∀ x, S x 0 ≤ 0 ∧ S 0 x ≤ 0) (r q : List Nat) :
    ∃ ps, swAlign S gapOpen r q = .ok ps ∧
      (∀ a, IsLocal a r q → NoAdj a → scoreAff S gapOpen a ≤ total ps) ∧
      (∃ a, IsLocal a r q ∧ NoAdj a ∧ scoreAff S gapOpen a = total ps) :=
  Biogo.Proofs.SWAffine.swAlign_total S gapOpen ho hg r q

/-- non-vacuity: the F11 witness (`aa` / `aca`, match 7, gap-vs-c 0, gap-open −2) now gives 12 -/
example : swAlign (sc [[0, -1, 0], [-1, 7, -3], [-1, -3, 7]]) (-2) [1, 1] [1, 2, 1] =
    .ok [⟨0, 1, 0, 1, 7⟩, ⟨1, 1, 1, 2, -2⟩, ⟨1, 2, 2, 3, 7⟩] := by
  decide +kernel

/-- **C08, FittedAffine, as far as it holds** (`_partial`).  The property: "the fitted aligners
    return an alignment that consumes the whole query and is optimal among all such alignments
    that end at the same reference position".  Full statement:

        ∃ ps, fitAlign S open r q = .ok ps ∧ consumes the query ∧
          (∀ a, IsFitted a r q (lastEnd ps).1 → scoreAff S open a ≤ total ps) ∧
          (∃ a, IsFitted a r q (lastEnd ps).1 ∧ scoreAff S open a = total ps)

    The upper bound is false of the code even over `NoAdj` alignments (`fittedAffine_not_opt`,
    finding K3).  What holds for all matrices, gap-open values and non-empty sequences: the
    result consumes the whole query (after fix K2b), ends inside the reference, and its total
    is the affine score of a genuine alignment of the whole query with a reference segment
    ending at the reported end, without adjacent opposite gaps — so the total never exceeds
    the optimum for that end (`fittedOpt_optimal`). -/
theorem fittedAffine_opt_partial (S : Matrix) (gapOpen : Int) (r q : List Nat) (hr : r ≠ []) (hq : q ≠ []) :
    ∃ ps, fitAlign S gapOpen r q = .ok ps ∧
      (Biogo.Spec.AffPairs.firstStart ps).2 = 0 ∧ (Biogo.Spec.AffPairs.lastEnd ps).2 = q.length ∧
      (Biogo.Spec.AffPairs.lastEnd ps).1 ≤ r.length ∧
      ∃ a, IsFitted a r q (Biogo.Spec.AffPairs.lastEnd ps).1 ∧ NoAdj a ∧ scoreAff S gapOpen a = total ps := by
  obtain ⟨ps, hps, hle, a, hfit, hna, hsc⟩ := Biogo.Proofs.FittedAffine.fitAlign_sound S gapOpen r q hr hq
  obtain ⟨_, _, h0, hC⟩ := Biogo.Proofs.TraceWF.fitAlign_wf S gapOpen r q ps hps
  exact ⟨ps, hps, h0, hC, hle, a, hfit, hna, hsc⟩

/-- Refutation of the full statement for `FittedAffine` (finding K3): unit costs, gap-open 0,
    `r = a`, `q = aac`: the aligner reports `--a` / `aac` with total −3 for end 1, while
    `a--` / `aac` also ends at 1, consumes the query, has no adjacent opposite gaps and scores −1
    (the query gap after the match would have to be opened from the `left` layer of column 1,
    which the free-prefix column never feeds, and only match-layer ends are considered). -/
theorem fittedAffine_not_opt :
    ∃ (M : List (List Int)) (gapOpen : Int) (r q : List Nat) (ps : List Pair) (a : Aln),
      gapOpen ≤ 0 ∧ (∀ x, x < 3 → sc M x 0 ≤ 0 ∧ sc M 0 x ≤ 0) ∧
      fitAlign (sc M) gapOpen r q = .ok ps ∧
      IsFitted a r q (Biogo.Spec.AffPairs.lastEnd ps).1 ∧ NoAdj a ∧ total ps < scoreAff (sc M) gapOpen a :=
  ⟨[[0, -1, -1], [-1, 1, -1], [-1, -1, 1]], 0, [1], [1, 1, 2],
    [⟨0, 0, 0, 2, -2⟩, ⟨0, 1, 2, 3, -1⟩], [.m 1 1, .l 1, .l 2],
    by decide, by decide, by decide +kernel, ⟨0, by decide, by decide, by decide, by decide⟩,
    (by show noAdj _ = true; decide), by decide⟩

/-- **C08, FittedAffine: optimal over the class it explores** (what remains of finding K3 is
    exactly the difference between this class and all fitted alignments).  For all matrices,
    gap-open values and non-empty sequences the model of `FittedAffine` returns pairs whose total
    is the maximum of the affine score over the alignments of the whole query with a reference
    segment ending at the reported end that
      * have no gap directly next to a gap in the other sequence (K1),
      * end with a letter pair (the end value is read from the match layer only),
      * start with a letter pair — or, when the segment starts at reference position 0, with a
        gap in the reference (the free reference prefix sits in the `up` layer of column 0 and
        feeds only the match layer of column 1)
    (`Spec.FittedRestricted.IsFittedRestricted`): upper bound and attainment. -/
theorem fittedAffine_opt_restricted (S : Matrix) (gapOpen : Int) (r q : List Nat) (hr : r ≠ []) (hq : q ≠ []) :
    ∃ ps, fitAlign S gapOpen r q = .ok ps ∧
      (∀ a, Biogo.Spec.FittedRestricted.IsFittedRestricted a r q (Biogo.Spec.AffPairs.lastEnd ps).1 →
        scoreAff S gapOpen a ≤ total ps) ∧
      (∃ a, Biogo.Spec.FittedRestricted.IsFittedRestricted a r q (Biogo.Spec.AffPairs.lastEnd ps).1 ∧
        scoreAff S gapOpen a = total ps) :=
  Biogo.Proofs.FittedClass.fitAlign_restricted_opt S gapOpen r q hr hq

/-- the yardstick of the K3 recogniser is what it claims to be: for every row `e` the
    match-layer value of the last column of the fitted table is the maximum of the affine
    score over the restricted class for end `e` (`none` iff the class is empty) -/
theorem fittedRestricted_yardstick (S : Matrix) (gapOpen : Int) (r q : List Nat) (hq : q ≠ []) (e : Nat)
    (he : e ≤ r.length) :
    (∀ a, Biogo.Spec.FittedRestricted.IsFittedRestricted a r q e →
        ∃ x, ((fitTable S gapOpen r q).at e q.length).d = some x ∧ scoreAff S gapOpen a ≤ x) ∧
    (∀ x, ((fitTable S gapOpen r q).at e q.length).d = some x →
        ∃ a, Biogo.Spec.FittedRestricted.IsFittedRestricted a r q e ∧ scoreAff S gapOpen a = x) :=
  Biogo.Proofs.FittedClass.fitTable_restricted_opt S gapOpen r q hq e he

/-- non-vacuity: the class is inhabited (`ac` against `ac`, two letter pairs) -/
example : Biogo.Spec.FittedRestricted.IsFittedRestricted [.m 1 1, .m 2 2] [3, 1, 2] [1, 2] 3 :=
  ⟨⟨1, by decide, by decide, by decide, by decide⟩, (by show noAdj _ = true; decide), by decide,
    Or.inl (by decide)⟩

/-- The classical side condition does not rescue `FittedAffine` (there is no analogue of
    `nwAffine_opt_of_side_condition`): unit costs satisfy `S x 0 + S 0 y ≤ S x y`, gap-open 0,
    and the K3 witness (`r = a`, `q = aac`: −3 reported for end 1, `a--` / `aac` scores −1)
    stands.  The alignment that wins ends with a gap in the reference, which the match-layer
    end cannot represent, whatever the matrix. -/
theorem fittedAffine_side_condition_insufficient :
    ∃ (M : List (List Int)) (gapOpen : Int) (r q : List Nat) (ps : List Pair) (a : Aln),
      gapOpen ≤ 0 ∧ (∀ x, x < 3 → sc M x 0 ≤ 0 ∧ sc M 0 x ≤ 0) ∧
      (∀ x, x < 3 → ∀ y, y < 3 → sc M x 0 + sc M 0 y ≤ sc M x y) ∧
      fitAlign (sc M) gapOpen r q = .ok ps ∧
      IsFitted a r q (Biogo.Spec.AffPairs.lastEnd ps).1 ∧ NoAdj a ∧ total ps < scoreAff (sc M) gapOpen a :=
  ⟨[[0, -1, -1], [-1, 1, -1], [-1, -1, 1]], 0, [1], [1, 1, 2],
    [⟨0, 0, 0, 2, -2⟩, ⟨0, 1, 2, 3, -1⟩], [.m 1 1, .l 1, .l 2],
    by decide, by decide, by decide, by decide +kernel, ⟨0, by decide, by decide, by decide, by decide⟩,
    (by show noAdj _ = true; decide), by decide⟩

/-- non-vacuity: the K1 witness itself -/
example : nwAlign (sc [[0, 0, 0], [-2, 1, -10], [-2, -10, 1]]) (-2) [1] [2] = .ok [⟨0, 1, 0, 1, -10⟩] := by
  decide +kernel

/-- the K1 witness: `S[a][c] = −10`, gap scores `−2` (gap in the query) and `0` (gap in the
    reference), gap-open `−2`; letters `a = 1`, `c = 2` of `-acgt` -/
def k1M : List (List Int) :=
  [[0, 0, 0, 0, 0], [-2, 1, -10, -10, -10], [-2, -10, 1, -10, -10], [-2, -10, -10, 1, -10], [-2, -10, -10, -10, 1]]

/-- Refutation of the full-strength statement of C08 for `NWAffine` ("the total equals the
    maximum over all global alignments under the affine gap model"): for `r = a`, `q = c`
    the aligner reports −10 while the global alignment `a-` / `-c` scores −6. -/
theorem nwAffine_not_opt :
    ∃ (M : List (List Int)) (gapOpen : Int) (r q : List Nat) (ps : List Pair) (a : Aln),
      gapOpen ≤ 0 ∧ (∀ x, x < 5 → sc M x 0 ≤ 0 ∧ sc M 0 x ≤ 0) ∧
      nwAlign (sc M) gapOpen r q = .ok ps ∧ IsGlobal a r q ∧ total ps < scoreAff (sc M) gapOpen a :=
  ⟨k1M, -2, [1], [2], [⟨0, 1, 0, 1, -10⟩], [.u 1, .l 2], by decide, by decide, by decide +kernel,
    ⟨by decide, by decide⟩, by decide⟩

/-- **The classical side condition.**  If a letter pair never scores less than its two
    letters against gaps and opening a gap costs, every global alignment is matched or beaten
    by one without adjacent opposite gaps, so the maximum over the restricted class is the
    maximum over all global alignments.
    (DESIGN.md states the condition as `S r q ≥ (open + S r 0) + (open + S 0 q)`; that is not
    sufficient, see `design_side_condition_insufficient`.) -/
theorem noAdj_suffices (S : Matrix) (gapOpen : Int) (ho : gapOpen ≤ 0)
    (H : ∀ x y, S x 0 + S 0 y ≤ S x y) (r q : List Nat) (a : Aln) (h : IsGlobal a r q) :
    ∃ a', IsGlobal a' r q ∧ NoAdj a' ∧ scoreAff S gapOpen a ≤ scoreAff S gapOpen a' :=
  exists_noAdj_ge S gapOpen ho H r q a h

/-- non-vacuity of the side condition: unit costs satisfy it -/
example : ∀ x, x < 3 → ∀ y, y < 3 →
    sc [[0, -1, -1], [-1, 1, -1], [-1, -1, 1]] x 0 + sc [[0, -1, -1], [-1, 1, -1], [-1, -1, 1]] 0 y
      ≤ sc [[0, -1, -1], [-1, 1, -1], [-1, -1, 1]] x y := by decide

/-- **C08 for NWAffine at full strength under the side condition**: the total equals the
    maximum over *all* global alignments. -/
theorem nwAffine_opt_of_side_condition (S : Matrix) (gapOpen : Int) (ho : gapOpen ≤ 0)
    (H : ∀ x y, S x 0 + S 0 y ≤ S x y) (r q : List Nat) (hr : r ≠ []) (hq : q ≠ []) :
    ∃ ps, nwAlign S gapOpen r q = .ok ps ∧
      (∀ a, IsGlobal a r q → scoreAff S gapOpen a ≤ total ps) ∧
      (∃ a, IsGlobal a r q ∧ scoreAff S gapOpen a = total ps) := by
  obtain ⟨ps, hps, hub, a, hg, _, he⟩ := nwAffine_opt_partial S gapOpen r q hr hq
  refine ⟨ps, hps, ?_, a, hg, he⟩
  intro b hb
  obtain ⟨b', hg', hn', hle⟩ := noAdj_suffices S gapOpen ho H r q b hb
  have := hub b' hg' hn'
  omega

/-- **C08 for SWAffine at full strength under the side condition**: the total equals the
    maximum over *all* local alignments (zero if none is positive). -/
theorem swAffine_opt_of_side_condition (S : Matrix) (gapOpen : Int) (ho : gapOpen ≤ 0)
    (hg : ∀ x, S x 0 ≤ 0 ∧ S 0 x ≤ 0) (H : ∀ x y, S x 0 + S 0 y ≤ S x y) (r q : List Nat) :
    ∃ ps, swAlign S gapOpen r q = .ok ps ∧
      (∀ a, IsLocal a r q → scoreAff S gapOpen a ≤ total ps) ∧
      (∃ a, IsLocal a r q ∧ scoreAff S gapOpen a = total ps) := by
  obtain ⟨ps, hps, hub, a, hl, _, he⟩ := swAffine_opt_partial S gapOpen ho hg r q
  refine ⟨ps, hps, ?_, a, hl, he⟩
  intro b hb
  obtain ⟨b', hl', hn', hle⟩ := exists_noAdj_ge_local S gapOpen ho H r q b hb
  have := hub b' hl' hn'
  omega

/-- The side condition as DESIGN.md words it, `S r q ≥ (open + S r 0) + (open + S 0 q)`, does
    not make the restricted optimum the optimum: all letter pairs −10, gap letters −1,
    gap-open −4, `r = aa`, `q = cc`: the condition holds (−10 ≥ −10), `NWAffine` returns −20,
    the alignment `aa--` / `--cc` scores −12. -/
theorem design_side_condition_insufficient :
    ∃ (M : List (List Int)) (gapOpen : Int) (r q : List Nat) (ps : List Pair) (a : Aln),
      gapOpen ≤ 0 ∧
      (∀ x, x < 5 → ∀ y, y < 5 → 0 < x → 0 < y →
        (gapOpen + sc M x 0) + (gapOpen + sc M 0 y) ≤ sc M x y) ∧
      nwAlign (sc M) gapOpen r q = .ok ps ∧ IsGlobal a r q ∧ total ps < scoreAff (sc M) gapOpen a :=
  ⟨[[0, -1, -1, -1, -1], [-1, -10, -10, -10, -10], [-1, -10, -10, -10, -10], [-1, -10, -10, -10, -10],
     [-1, -10, -10, -10, -10]], -4, [1, 1], [2, 2],
    [⟨0, 2, 0, 2, -20⟩], [.u 1, .u 1, .l 2, .l 2],
    by decide, by decide, by decide +kernel, ⟨by decide, by decide⟩, by decide⟩

end Biogo.Properties.C08_aff
