/-
C08, part `aff`: optimality of the affine aligners (property theorems only).
-/
import Biogo.Model.AlignAff
import Biogo.Spec.AffineOpt

namespace Biogo.Properties.C08_aff
open Biogo.Spec.Alignment Biogo.AlignAff

/-- the K1 witness: `S[a][c] = −10`, gap scores `−2` (gap in the query) and `0` (gap in the
    reference), gap-open `−2`; letters `a = 1`, `c = 2` of `-acgt` -/
def k1M : List (List Int) :=
  [[0, 0, 0, 0, 0], [-2, 1, -10, -10, -10], [-2, -10, 1, -10, -10], [-2, -10, -10, 1, -10], [-2, -10, -10, -10, 1]]

/-- Refutation of the full-strength statement of C08 for `NWAffine` ("the total equals the
    maximum over all global alignments under the affine gap model"): for `r = a`, `q = c`
    the aligner reports −10 while the global alignment `a-` / `-c` scores −4. -/
theorem nwAffine_not_opt :
    ∃ (M : List (List Int)) (gapOpen : Int) (r q : List Nat) (ps : List Pair) (a : Aln),
      gapOpen ≤ 0 ∧ (∀ x, x < 5 → sc M x 0 ≤ 0 ∧ sc M 0 x ≤ 0) ∧
      nwAlign (sc M) gapOpen r q = .ok ps ∧ IsGlobal a r q ∧ total ps < scoreAff (sc M) gapOpen a :=
  ⟨k1M, -2, [1], [2], [⟨0, 1, 0, 1, -10⟩], [.u 1, .l 2], by decide, by decide, by decide +kernel,
    ⟨by decide, by decide⟩, by decide⟩

end Biogo.Properties.C08_aff
